// Package c12 checks property C12: the VM is total, bounded and memory-safe on every script.
//
// A Case is a script (plus an optional second script loaded below it, the way a verification script sits below an
// invocation script), a finite gas limit and a base execution fee. The monitor loads it into a fresh VM with the
// production opcode price table (fee.Opcode), single-steps it (VM.Step) and checks after every step:
//
//   - no Go panic came out of Step; the run ends HALT or FAULT within the number of steps the price table allows
//     (every opcode that can complete costs >= base fee, except RET which removes an invocation);
//   - on HALT GasConsumed() <= limit;
//   - after every instruction that completed (the VM enforces its limits per instruction, execute() in vm.go): the item
//     count found by WALKING every evaluation stack, every static/local/argument slot and everything reachable from
//     them (see walker) is <= 2048, VerifRefs() >= walk always and == walk as long as no cyclic structure has been
//     built in this run; every reachable Integer fits 256-bit two's complement, every ByteString/Buffer is <= MaxSize;
//     at most 1024 invocations; at most 16 nested TRY blocks per invocation (lower bound kept from executed TRY/ENDTRY);
//   - for scripts accepted by scparser.IsScriptCorrect every executed offset is an instruction boundary according to
//     an independent decoder (decode.go).
//
// FAULT is always acceptable; nothing is asserted about the state of a FAULTed VM.
// An exception in flight (VM.uncaughtException) is neither on a stack nor in a slot: the VM does not count it and the
// walker does not see it, consistently; it is counted again when a catch block receives it.
//
// Generators: "aware" (gen.go, model.go: instruction-aware, driven by an abstract model of stack/slots/compounds),
// "mutant" (byte-level mutations of aware scripts, incl. retargeted jump/try operands), "raw" (bytes), "regress" (fixed
// scripts). FuzzVM (fuzz_test.go) is the native byte-level target with the same monitor.
package c12

import (
	"bytes"
	"errors"
	"fmt"
	"github.com/nspcc-dev/neo-go/pkg/smartcontract/trigger"
	"github.com/nspcc-dev/neo-go/pkg/util"
	"strings"

	"github.com/nspcc-dev/neo-go/pkg/core/fee"
	"github.com/nspcc-dev/neo-go/pkg/smartcontract/callflag"
	"github.com/nspcc-dev/neo-go/pkg/smartcontract/scparser"
	"github.com/nspcc-dev/neo-go/pkg/vm"
	"github.com/nspcc-dev/neo-go/pkg/vm/opcode"
	"github.com/nspcc-dev/neo-go/pkg/vm/stackitem"
	"verifharness/vt"
)

// Case is one VM run.
type Case struct {
	Kind     string   `json:"kind"`            // generator that made it (label only)
	Script   vt.Bytes `json:"script"`          // executed first (top of the invocation stack)
	Below    vt.Bytes `json:"below,omitempty"` // optional script loaded before Script: runs after Script returns, on the same evaluation stack
	GasLimit int64    `json:"gas"`             // datoshi, >= 0 (finite)
	BaseFee  int64    `json:"base_fee"`        // picoGAS per opcode price unit (production default 30*10000)
	Hint     string   `json:"hint,omitempty"`  // what the generator was aiming at (label only, the oracle does not read it)
	// Prev: a script run to its end (HALT or FAULT, same gas limit) on the same VM object before, followed by
	// VM.Reset: the node reuses one VM for all transactions of a block (interop.Context.SpawnVM), so whatever a run
	// leaves behind in slots, invocation frames or counters must be gone for the next one.
	Prev vt.Bytes `json:"prev,omitempty"`
}

// Limits of the property statement.
const (
	limitItems       = 2048
	limitInvocations = 1024
	limitTry         = 16

	// infraStepCap is an infrastructure guard: a run that is still going after this many steps while its gas limit would
	// allow even more is abandoned without a verdict (labelled, never a violation).
	infraStepCap = 1_000_000

	// infraWorkCap bounds the monitor's own work (items visited by all walks of one run, about 0.5 s); a run that needs
	// more is abandoned the same way. Both caps are far above what generated cases normally need.
	infraWorkCap = 40_000_000

	defaultBaseFee = 30 * vm.ExecFeeFactorMultiplier
)

// Opcodes that the production price table lets run for free. Only these may execute without consuming gas; all of them
// except RET always FAULT in this set-up (ABORT, ABORTMSG abort; SYSCALL has no handler), and every RET removes an
// invocation, so their number is bounded by the number of CALLs (each priced) plus the scripts loaded.
var freeOps = func() map[opcode.Opcode]bool {
	m := map[opcode.Opcode]bool{}
	for i := 0; i < 256; i++ {
		op := opcode.Opcode(i)
		if opcode.IsValid(op) && fee.Opcode(1, op) == 0 {
			m[op] = true
		}
	}
	return m
}()

// stepBoundProvable is true when the only free opcodes are the ones named above, so that
// steps <= gas/base + (gas/(callPrice*base) + scripts) + 1 follows from the price table.
var stepBoundProvable = func() bool {
	for op := range freeOps {
		switch op {
		case opcode.RET, opcode.ABORT, opcode.ABORTMSG, opcode.SYSCALL:
		default:
			return false
		}
	}
	return fee.Opcode(1, opcode.CALL) > 0 && fee.Opcode(1, opcode.CALLL) > 0 && fee.Opcode(1, opcode.CALLA) > 0
}()

func minCallCoef() int64 {
	m := fee.Opcode(1, opcode.CALL)
	for _, op := range []opcode.Opcode{opcode.CALLL, opcode.CALLA} {
		if c := fee.Opcode(1, op); c < m {
			m = c
		}
	}
	return m
}

// Report is what a monitored run observed (classification only).
// strictKnown switches the exclusion of listed findings off (used by the probe that re-confirms them).
var strictKnown bool

// LoadSyscallID is the identifier of the harness's script-loading system call (see monitor).
const LoadSyscallID = 0x76657269

type Report struct {
	Leaky              bool   // the listed finding KnownCalleeStackLeak may have happened in this run
	DynLoads           int    // scripts loaded through the harness's system call (frames with an evaluation stack of their own)
	PrevState          string // state the previous run on the same VM ended in ("" when there was none)
	Steps              int
	State              string // HALT | FAULT | CAPPED
	FaultMsg           string
	MaxItems           int
	MaxIstack          int
	MaxTryLB           int
	Cyclic             bool // a cyclic structure was built at some point
	SharedMut          int  // collection-mutating instructions executed on a compound referenced from >= 2 places
	CompoundOps        int  // collection instructions executed on a compound
	Mutations          map[string]int
	Correct            bool // scparser.IsScriptCorrect accepted every loaded script
	Jumps              int  // steps whose next IP was not the sequential successor (taken jumps, calls, returns, handlers)
	HitLimit           string
	GasConsumed        int64
	ShapeMapSelfRemove bool // executed REMOVE of a map entry whose value reaches the map (the shape of repaired finding 7d4681c)
	LastItems          int  // walk count after the last completed instruction
	LastDepth          int  // elements on the current evaluation stack then
}

type tryEnt struct {
	ctx *vm.Context
	lb  int
}

type progInfo struct {
	prog    []byte
	correct bool
	starts  []bool
}

// Opcodes that mutate a collection in place, with the stack depth of the collection operand.
var mutatingOperandDepth = map[opcode.Opcode]int{
	opcode.APPEND:       1,
	opcode.SETITEM:      2,
	opcode.REMOVE:       1,
	opcode.CLEARITEMS:   0,
	opcode.POPITEM:      0,
	opcode.REVERSEITEMS: 0,
}

// Other collection instructions (operand depth), counted for the histogram only.
var readingOperandDepth = map[opcode.Opcode]int{
	opcode.UNPACK: 0, opcode.VALUES: 0, opcode.KEYS: 0, opcode.PICKITEM: 1, opcode.HASKEY: 1, opcode.SIZE: 0,
}

// Monitor runs the case and returns the first violated clause (nil if none) together with the classification.
func Monitor(c Case) (*Report, error) { return monitor(c, infraStepCap, infraWorkCap) }

// monitor is Monitor with explicit infrastructure caps (the native fuzz target uses small ones: the Go fuzzing
// coordinator declares a worker hung when one execution takes about a second).
func monitor(c Case, stepCap, workCap int) (*Report, error) {
	rep := &Report{Mutations: map[string]int{}}
	if c.GasLimit < 0 {
		return rep, fmt.Errorf("bad case: negative (= unlimited) gas limit %d is outside the property's domain", c.GasLimit)
	}
	base := c.BaseFee
	if base <= 0 {
		base = defaultBaseFee
	}
	// The VM keeps the limit as datoshi*10000 in an int64 and compares in picoGAS.
	if c.GasLimit > (1<<62)/vm.ExecFeeFactorMultiplier {
		return rep, fmt.Errorf("bad case: gas limit %d too large for the harness", c.GasLimit)
	}

	v := vm.New()
	if len(c.Prev) > 0 {
		v.SetPriceGetter(func(op opcode.Opcode, _ []byte) int64 { return fee.Opcode(base, op) })
		v.SetGasLimit(c.GasLimit)
		v.LoadScriptWithFlags([]byte(c.Prev), callflag.All)
		var escaped any
		func() {
			defer func() { escaped = recover() }()
			_ = v.Run()
		}()
		if escaped != nil {
			return rep, fmt.Errorf("Go panic escaped from VM.Run of the previous script %x: %v", []byte(c.Prev), escaped)
		}
		rep.PrevState = v.State().String()
		v.Reset(trigger.Application)
	}
	v.SetPriceGetter(func(op opcode.Opcode, _ []byte) int64 { return fee.Opcode(base, op) })
	v.SetGasLimit(c.GasLimit)
	progs := make([]progInfo, 0, 2)
	addProg := func(p []byte) {
		pi := progInfo{prog: p, correct: scparser.IsScriptCorrect(p, nil) == nil}
		if pi.correct {
			var ok bool
			pi.starts, ok = boundaries(p)
			if !ok {
				pi.starts = nil
			}
		}
		progs = append(progs, pi)
	}
	// The harness's own system call: pops a byte string and loads it as a script with an evaluation stack of its own
	// (what System.Contract.Call / System.Runtime.LoadScript do), charged like a CALL so that the step bound holds.
	v.SyscallHandler = func(vv *vm.VM, id uint32) error {
		if id != LoadSyscallID && id != LoadHashSyscallID {
			return errors.New("syscall not found")
		}
		b, err := vv.Estack().Pop().Item().TryBytes()
		if err != nil {
			return err
		}
		if err := vv.AddPicoGas(minCallCoef() * base); err != nil {
			return err
		}
		if id == LoadHashSyscallID {
			// a contract call: script loaded under a given (contract) hash, one argument, one return value (pointer.go)
			hb, err := vv.Estack().Pop().Item().TryBytes()
			if err != nil {
				return err
			}
			h, err := util.Uint160DecodeBytesBE(hb)
			if err != nil {
				return err
			}
			arg := vv.Estack().Pop().Item()
			vv.LoadScriptWithHash(bytes.Clone(b), h, callflag.All)
			vv.Estack().PushItem(arg)
			addProg(vv.Context().Program())
			rep.DynLoads++
			return nil
		}
		vv.LoadScriptWithFlags(bytes.Clone(b), callflag.All)
		addProg(vv.Context().Program())
		rep.DynLoads++
		return nil
	}
	if len(c.Below) > 0 {
		v.LoadScriptWithFlags([]byte(c.Below), callflag.All)
		addProg(c.Below)
	}
	v.LoadScriptWithFlags([]byte(c.Script), callflag.All)
	addProg(c.Script)
	rep.Correct = true
	for _, p := range progs {
		if !p.correct {
			rep.Correct = false
		}
		if p.correct && p.starts == nil {
			return rep, fmt.Errorf("script %x passes scparser.IsScriptCorrect but cannot be decoded linearly by the independent instruction table", p.prog)
		}
	}
	progOf := func(p []byte) *progInfo {
		for i := range progs {
			if len(progs[i].prog) == len(p) && (len(p) == 0 || &progs[i].prog[0] == &p[0]) {
				return &progs[i]
			}
		}
		return nil
	}

	limitPico := c.GasLimit * vm.ExecFeeFactorMultiplier
	// Provable bound on the number of steps (see freeOps).
	var stepBound int64 = -1
	if stepBoundProvable {
		stepBound = limitPico/base + limitPico/(minCallCoef()*base) + int64(len(progs)) + 1
	}

	w := newWalker()
	var tryLB []tryEnt
	syncTry := func() {
		ist := v.Istack()
		n := 0
		for n < len(tryLB) && n < len(ist) && tryLB[n].ctx == ist[n] {
			n++
		}
		tryLB = tryLB[:n]
		for i := n; i < len(ist); i++ {
			tryLB = append(tryLB, tryEnt{ctx: ist[i]})
		}
	}
	resetTry := func() {
		for i := range tryLB {
			tryLB[i].lb = 0
		}
	}

	// State check, run on the initial state and after every instruction that completed without FAULT.
	// (pkg/vm/vm.go, execute(): the VM enforces its item limit once per instruction, after it ran; a FAULTed VM's
	// state is documented as undefined, so nothing is asserted about it beyond "it stopped".)
	work := 0
	checkState := func(when string) error {
		w.walkVM(v)
		work += w.count + len(v.Istack()) + 1
		if w.bad != "" {
			return fmt.Errorf("%s: %s", when, w.bad)
		}
		if w.cycle {
			rep.Cyclic = true
		}
		refs := v.VerifRefs()
		if w.count > rep.MaxItems {
			rep.MaxItems = w.count
		}
		rep.LastItems, rep.LastDepth = w.count, v.Estack().Len()
		switch {
		case refs < w.count:
			return fmt.Errorf("%s: the VM's item counter is %d but walking stacks and slots finds %d items (under-count)", when, refs, w.count)
		case !rep.Cyclic && !rep.Leaky && refs != w.count:
			return fmt.Errorf("%s: no cyclic structure was ever built, yet the VM's item counter is %d while walking stacks and slots finds %d items", when, refs, w.count)
		case w.count > limitItems:
			return fmt.Errorf("%s: %d items are on the stacks, in slots and reachable from them (limit %d) and the VM did not FAULT (its own counter says %d)", when, w.count, limitItems, refs)
		}
		if n := len(v.Istack()); n > limitInvocations {
			return fmt.Errorf("%s: %d nested invocations (limit %d)", when, n, limitInvocations)
		} else if n > rep.MaxIstack {
			rep.MaxIstack = n
		}
		return nil
	}
	syncTry()
	if err := checkState("before the first instruction"); err != nil {
		return rep, err
	}

	for !v.HasStopped() {
		ctx := v.Context()
		if ctx == nil {
			return rep, fmt.Errorf("after %d steps: no current context but the VM state is %q (neither HALT nor FAULT)", rep.Steps, v.State())
		}
		if stepBound >= 0 && int64(rep.Steps) >= stepBound {
			return rep, fmt.Errorf("the VM is about to execute step %d under gas limit %d datoshi (base fee %d picoGAS): more steps than the price table allows (%d), consumed so far %d",
				rep.Steps+1, c.GasLimit, base, stepBound, v.GasConsumed())
		}
		if rep.Steps >= stepCap || work > workCap {
			rep.State = "CAPPED"
			return rep, nil
		}
		ip := ctx.NextIP()
		prog := ctx.Program()
		pi := progOf(prog)
		op := opcode.RET
		ilen := 0
		if ip < len(prog) {
			op = opcode.Opcode(prog[ip])
			ilen = instrLen(prog, ip)
		}
		if pi == nil {
			return rep, fmt.Errorf("step %d: current context runs a program that was never loaded", rep.Steps+1)
		}
		if pi.correct && (ip > len(prog) || !pi.starts[ip]) {
			return rep, fmt.Errorf("step %d: script passes scparser.IsScriptCorrect but the VM is about to execute offset %d, which is not an instruction boundary (%s)",
				rep.Steps+1, ip, describeAround(prog, pi.starts, ip))
		}

		// Pre-step observations about the operand of collection instructions (classification + cycle tracking).
		var container stackitem.Item
		es := ctx.Estack()
		if d, ok := mutatingOperandDepth[op]; ok && es.Len() > d {
			it := es.Peek(d).Item()
			if p := compoundPtr(it); p != nil {
				container = it
				w.reset()
				w.target = p
				w.walkVM(v)
				work += w.count + len(v.Istack()) + 1
				w.target = nil
				rep.CompoundOps++
				if w.indeg >= 2 {
					rep.SharedMut++
					rep.Mutations[op.String()+"/shared"]++
				} else {
					rep.Mutations[op.String()]++
				}
			}
		} else if d, ok := readingOperandDepth[op]; ok && es.Len() > d {
			if compoundPtr(es.Peek(d).Item()) != nil {
				rep.CompoundOps++
				rep.Mutations[op.String()]++
			}
		}
		if op == opcode.REMOVE && es.Len() >= 2 {
			if m, ok := es.Peek(1).Item().(*stackitem.Map); ok {
				if key := es.Peek(0).Item(); stackitem.IsValidMapKey(key) == nil {
					if idx := m.Index(key); idx >= 0 && itemReaches(m.Value().([]stackitem.MapElement)[idx].Value, compoundPtr(m)) {
						rep.ShapeMapSelfRemove = true
					}
				}
			}
		}
		depthBefore := len(v.Istack())
		mayThrow := canThrow(op, es)

		err, escaped := stepGuarded(v)
		rep.Steps++
		if escaped != nil {
			return rep, fmt.Errorf("step %d (%s at %d): a Go panic escaped VM.Step: %v", rep.Steps, op, ip, escaped)
		}
		if v.HasFailed() || err != nil {
			if !v.HasFailed() {
				return rep, fmt.Errorf("step %d (%s at %d): Step returned error %q but the VM is in state %q, not FAULT", rep.Steps, op, ip, err, v.State())
			}
			rep.State = "FAULT"
			if err != nil {
				rep.FaultMsg = err.Error()
			}
			rep.HitLimit = classifyFault(rep.FaultMsg)
			rep.GasConsumed = v.GasConsumed()
			return rep, nil
		}
		when := fmt.Sprintf("after step %d (%s at offset %d)", rep.Steps, op, ip)
		// Listed finding KnownCalleeStackLeak: frames removed by something else than RET (an exception found its handler
		// further down) after a script with a stack of its own was loaded: what was on that stack stays counted. From
		// here on the counter is only required not to under-count.
		if rep.DynLoads > 0 && len(v.Istack()) < depthBefore && op != opcode.RET && vt.Known(KnownCalleeStackLeak) && !strictKnown {
			rep.Leaky = true
		}

		// Cycle tracking: only APPEND and SETITEM add an edge to an existing compound, and the compound they modify was
		// their operand, so any cycle built by this instruction passes through `container` (even if nothing refers to it
		// from the stacks any more).
		if container != nil && (op == opcode.APPEND || op == opcode.SETITEM) && !rep.Cyclic && reachesItself(container) {
			rep.Cyclic = true
		}

		// Try nesting: lower bound of the depth of the exception-handling stack of every context, maintained from the
		// instructions executed (the stack itself is not exported): a TRY that did not FAULT pushes exactly one entry on
		// the stack of the context that executed it; ENDTRY pops at most one; an instruction that may have raised or
		// re-raised an exception (THROW, ENDFINALLY, PICKITEM/SETITEM unless their operands prove they cannot throw)
		// may pop any number in any context, so all bounds are reset to 0. The bound never exceeds the real depth.
		switch {
		case mayThrow:
			resetTry()
		case depthBefore > 0 && depthBefore <= len(tryLB) && tryLB[depthBefore-1].ctx == ctx:
			e := &tryLB[depthBefore-1]
			switch op {
			case opcode.TRY, opcode.TRYL:
				e.lb++
				if e.lb > rep.MaxTryLB {
					rep.MaxTryLB = e.lb
				}
				if e.lb > limitTry {
					return rep, fmt.Errorf("%s: at least %d TRY blocks are nested in one invocation (limit %d) and the VM did not FAULT", when, e.lb, limitTry)
				}
			case opcode.ENDTRY, opcode.ENDTRYL:
				if e.lb > 0 {
					e.lb--
				}
			}
		}
		syncTry()

		if c2 := v.Context(); c2 != ctx || c2.NextIP() != ip+ilen {
			rep.Jumps++
		}
		if err := checkState(when); err != nil {
			return rep, err
		}
	}
	rep.GasConsumed = v.GasConsumed()
	if v.HasFailed() {
		rep.State = "FAULT" // e.g. no instruction executed
		return rep, nil
	}
	rep.State = "HALT"
	if got := v.GasConsumed(); got > c.GasLimit {
		return rep, fmt.Errorf("VM HALTed after %d steps having consumed %d datoshi, more than the gas limit %d", rep.Steps, got, c.GasLimit)
	}
	if n := len(v.Istack()); n != 0 {
		return rep, fmt.Errorf("VM HALTed with %d invocations still on the invocation stack", n)
	}
	return rep, nil
}

// canThrow reports whether the instruction about to run may raise (or re-raise) a catchable VM exception.
// It errs on the side of "may".
func canThrow(op opcode.Opcode, es *vm.Stack) bool {
	inRange := func(key stackitem.Item, n int) bool {
		bi, ok := key.(*stackitem.BigInteger)
		if !ok || !bi.Big().IsInt64() {
			return false
		}
		k := bi.Big().Int64()
		return k >= 0 && k < int64(n)
	}
	switch op {
	case opcode.THROW, opcode.ENDFINALLY:
		return true
	case opcode.PICKITEM:
		if es.Len() < 2 {
			return true
		}
		key, obj := es.Peek(0).Item(), es.Peek(1).Item()
		switch t := obj.(type) {
		case *stackitem.Array:
			return !inRange(key, t.Len())
		case *stackitem.Struct:
			return !inRange(key, t.Len())
		case *stackitem.Map:
			if stackitem.IsValidMapKey(key) != nil {
				return true
			}
			return !t.Has(key)
		}
		return true
	case opcode.SETITEM:
		if es.Len() < 3 {
			return true
		}
		key, obj := es.Peek(1).Item(), es.Peek(2).Item()
		switch t := obj.(type) {
		case *stackitem.Array:
			return !inRange(key, t.Len())
		case *stackitem.Struct:
			return !inRange(key, t.Len())
		case *stackitem.Map:
			return false
		}
		return true
	}
	return false
}

// stepGuarded executes one instruction; escaped is non-nil iff a Go panic came out of VM.Step.
func stepGuarded(v *vm.VM) (err error, escaped any) {
	defer func() {
		if r := recover(); r != nil {
			escaped = r
		}
	}()
	return v.Step(), nil
}

func classifyFault(msg string) string {
	switch {
	case strings.Contains(msg, "invocation stack is too big"):
		return "limit-1024"
	case strings.Contains(msg, "stack is too big"):
		return "limit-2048"
	case strings.Contains(msg, "maximum TRY depth exceeded"):
		return "limit-16"
	case strings.Contains(msg, "GAS limit exceeded"):
		return "limit-gas"
	case strings.Contains(msg, "integer is too big") || strings.Contains(msg, "too big integer"):
		return "limit-int256"
	case strings.Contains(msg, "too big item") || strings.Contains(msg, "invalid size") || strings.Contains(msg, "parameter is too big"):
		return "limit-itemsize"
	case strings.Contains(msg, "too big: too many elements") || strings.Contains(msg, "too big"):
		return "limit-other"
	}
	return ""
}

func describeAround(prog []byte, starts []bool, ip int) string {
	prev := ip
	for prev > 0 && (prev >= len(starts) || !starts[prev]) {
		prev--
	}
	if prev < len(prog) {
		return fmt.Sprintf("inside the %s instruction starting at %d", opcode.Opcode(prog[prev]), prev)
	}
	return "past the end"
}

// checkCase is the vt check: monitor + classification.
func checkCase(c Case, o *vt.Obs) error {
	rep, err := Monitor(c)
	if err != nil {
		return err
	}
	o.Units(rep.Steps)
	if rep.ShapeMapSelfRemove {
		o.Label("shape-map-self-remove")
	}
	o.Label("end-" + rep.State)
	if rep.DynLoads > 0 {
		o.Label("dynamic-load")
	}
	if strings.Contains(c.Hint, "excl:"+KnownCalleeStackLeak) || rep.Leaky {
		o.Excluded()
		o.Label("excl:" + KnownCalleeStackLeak)
	}
	if rep.PrevState != "" {
		o.Label("vm-reused-after-" + rep.PrevState)
	}
	if rep.HitLimit != "" {
		o.Label(rep.HitLimit)
	}
	if rep.SharedMut > 0 {
		o.Label("shared-compound-mutated")
	}
	if rep.CompoundOps > 0 {
		o.Label("compound-op")
	}
	for k := range rep.Mutations {
		o.Label("op-" + k)
	}
	if rep.Cyclic {
		o.Label("cyclic")
	}
	if rep.Correct {
		o.Label("script-correct")
		if rep.Jumps > 0 {
			o.Label("script-correct+jumps")
		}
	}
	if rep.MaxTryLB > 0 {
		o.Label("try-executed")
	}
	if rep.MaxIstack > 1 {
		o.Label("call-executed")
	}
	if len(c.Below) > 0 {
		o.Label("two-scripts")
	}
	if c.Hint != "" {
		o.Label("hint-" + c.Hint)
	}
	switch {
	case rep.Steps == 0:
		o.Label("steps-0")
	case rep.Steps <= 3:
		o.Label("steps-1..3")
	case rep.Steps <= 30:
		o.Label("steps-4..30")
	case rep.Steps <= 300:
		o.Label("steps-31..300")
	default:
		o.Label("steps->300")
	}
	// Non-trivial (DESIGN C12): >= 1 collection-mutating instruction executed on a compound referenced from >= 2 places,
	// or one of the limits (2048 items / 1024 invocations / 16 TRY / gas) was hit.
	// (a gas FAULT counts only after at least 10 executed instructions: "gas limit 0" is not an interesting run).
	switch {
	case c.Kind == "pointer" && rep.DynLoads == 2:
		// both frames were loaded: the Pointer made by the first one reached the CALLA of the second one
		o.NonTrivial()
	case rep.SharedMut > 0:
		o.NonTrivial()
	case rep.HitLimit == "limit-2048" || rep.HitLimit == "limit-1024" || rep.HitLimit == "limit-16":
		o.NonTrivial()
	case rep.HitLimit == "limit-gas" && rep.Steps > 10:
		o.NonTrivial()
	}
	return nil
}

func init() {
	vt.PropertyID = "C12"
	vt.Register("aware", 1.0, genAware, checkCase)
	vt.Register("mutant", 0.6, genMutant, checkCase)
	vt.Register("raw", 0.3, genRaw, checkCase)
	vt.Register("regress", 0.01, genRegress, checkCase)
}
