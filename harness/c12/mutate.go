package c12

import (
	"encoding/binary"

	"github.com/nspcc-dev/neo-go/pkg/vm"
	"pgregory.net/rapid"
)

// ---- (a) raw bytes --------------------------------------------------------------------------------------------------

var validOpcodeBytes = func() []byte {
	var v []byte
	for i := 0; i < 256; i++ {
		if operandLayout[i] != opInvalid {
			v = append(v, byte(i))
		}
	}
	return v
}()

func genRaw(t *rapid.T) Case {
	n := rapid.IntRange(0, 400).Draw(t, "len")
	mode := rapid.IntRange(0, 3).Draw(t, "mode")
	b := make([]byte, 0, n)
	for len(b) < n {
		switch {
		case mode == 0:
			b = append(b, rapid.Byte().Draw(t, "b"))
		case mode == 3 && rapid.IntRange(0, 9).Draw(t, "pushy") < 5:
			b = append(b, byte(rapid.IntRange(0x0F, 0x20).Draw(t, "push"))) // PUSHM1..PUSH16: keeps the stack non-empty
		case mode == 1 || rapid.IntRange(0, 9).Draw(t, "mix") < 8:
			b = append(b, rapid.SampledFrom(validOpcodeBytes).Draw(t, "op"))
		default:
			b = append(b, rapid.Byte().Draw(t, "b"))
		}
	}
	base := rapid.SampledFrom(baseFees).Draw(t, "basefee")
	gas := rapid.SampledFrom([]int64{0, 1, 29, 30, 31, 100, 1000, 10_000, 100_000, 1_000_000}).Draw(t, "gas")
	return Case{Kind: "raw", Script: b, GasLimit: gas * base / defaultBaseFee, BaseFee: base}
}

// ---- (c) byte-level mutations of instruction-aware scripts -----------------------------------------------------------

// jumpOperands lists (operand offset, operand width, instruction offset) of every jump-like operand of a decodable script.
func jumpOperands(script []byte) (ops [][3]int) {
	pos := 0
	for pos < len(script) {
		l := instrLen(script, pos)
		if l == 0 {
			return
		}
		switch op := script[pos]; {
		case op >= 0x22 && op <= 0x35, op == 0x3D, op == 0x3E: // JMP*..CALL_L, ENDTRY, ENDTRY_L
			ops = append(ops, [3]int{pos + 1, l - 1, pos})
		case op == 0x0A: // PUSHA
			ops = append(ops, [3]int{pos + 1, 4, pos})
		case op == 0x3B: // TRY
			ops = append(ops, [3]int{pos + 1, 1, pos}, [3]int{pos + 2, 1, pos})
		case op == 0x3C: // TRY_L
			ops = append(ops, [3]int{pos + 1, 4, pos}, [3]int{pos + 5, 4, pos})
		}
		pos += l
	}
	return
}

func mutateOnce(t *rapid.T, s []byte) []byte {
	if len(s) == 0 {
		return []byte{rapid.Byte().Draw(t, "newbyte")}
	}
	at := rapid.IntRange(0, len(s)-1).Draw(t, "at")
	switch rapid.IntRange(0, 8).Draw(t, "mut") {
	case 0: // flip a bit
		s[at] ^= 1 << rapid.IntRange(0, 7).Draw(t, "bit")
	case 1: // replace by a valid opcode
		s[at] = rapid.SampledFrom(validOpcodeBytes).Draw(t, "op")
	case 2: // replace by any byte
		s[at] = rapid.Byte().Draw(t, "any")
	case 3: // insert
		ins := rapid.SliceOfN(rapid.Byte(), 1, 3).Draw(t, "ins")
		s = append(s[:at], append(ins, s[at:]...)...)
	case 4: // delete
		n := rapid.IntRange(1, 3).Draw(t, "del")
		if at+n > len(s) {
			n = len(s) - at
		}
		s = append(s[:at], s[at+n:]...)
	case 5: // truncate
		s = s[:at]
	case 6: // duplicate a slice
		n := rapid.IntRange(1, 12).Draw(t, "dup")
		if at+n > len(s) {
			n = len(s) - at
		}
		chunk := append([]byte{}, s[at:at+n]...)
		s = append(s[:at+n], append(chunk, s[at+n:]...)...)
	default: // retarget a jump / call / try / pointer operand (to any byte offset of the script)
		jo := jumpOperands(s)
		if len(jo) == 0 {
			s[at] ^= 0x01
			break
		}
		j := jo[rapid.IntRange(0, len(jo)-1).Draw(t, "jop")]
		target := rapid.IntRange(0, len(s)).Draw(t, "target")
		rel := target - j[2]
		if j[1] == 1 {
			if rel < -128 || rel > 127 {
				rel = rapid.IntRange(-128, 127).Draw(t, "rel8")
			}
			s[j[0]] = byte(int8(rel))
		} else {
			binary.LittleEndian.PutUint32(s[j[0]:], uint32(int32(rel)))
		}
	}
	return s
}

func genMutant(t *rapid.T) Case {
	script, units, fin, hints := genAwareScript(t)
	if len(script) > 3000 {
		// keep byte-level surgery on scripts where a random position means something
		script = script[:3000]
	}
	s := append([]byte{}, script...)
	n := rapid.IntRange(1, 3).Draw(t, "nmut")
	for i := 0; i < n; i++ {
		s = mutateOnce(t, s)
	}
	base := rapid.SampledFrom(baseFees).Draw(t, "basefee")
	c := Case{Kind: "mutant", Script: s, BaseFee: base, Hint: hintString(hints)}
	c.GasLimit = drawGas(t, units, fin, base)
	if c.GasLimit > 40_000_000*base/defaultBaseFee {
		c.GasLimit = 40_000_000 * base / defaultBaseFee
	}
	_ = vm.MaxStackSize
	return c
}

// ---- fixed regression scripts (known findings and limit patterns), run through the same monitor -------------------------

var regressScripts = []string{
	"c84a114bd011d2",       // NEWMAP DUP PUSH1 OVER SETITEM PUSH1 REMOVE: the under-count repaired by 7d4681c
	"c84a114bd043d2",       // same, key via DEPTH (as first found by FuzzVM)
	"c24a4acf45",           // array appended to itself
	"560158c24a604acf0b60", // self-referencing array parked in a static slot, slot overwritten
	"3400",                 // unbounded recursion
	"11 22ff",              // endless growth
	"3b05003b05003b05003b05003b05003b05003b05003b05003b05003b05003b05003b05003b05003b05003b05003b05003b050021", // 17 nested TRY
}

func genRegress(t *rapid.T) Case {
	hexs := rapid.SampledFrom(regressScripts).Draw(t, "script")
	var b []byte
	var hi byte
	n := 0
	for _, ch := range []byte(hexs) {
		var d byte
		switch {
		case ch >= '0' && ch <= '9':
			d = ch - '0'
		case ch >= 'a' && ch <= 'f':
			d = ch - 'a' + 10
		default:
			continue
		}
		if n%2 == 0 {
			hi = d
		} else {
			b = append(b, hi<<4|d)
		}
		n++
	}
	return Case{Kind: "regress", Script: b, GasLimit: rapid.SampledFrom([]int64{1_000_000, 20_000_000}).Draw(t, "gas"), BaseFee: defaultBaseFee}
}
