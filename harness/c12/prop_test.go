package c12

import (
	"testing"

	"github.com/nspcc-dev/neo-go/pkg/vm/opcode"
	"verifharness/vt"
)

func TestProp(t *testing.T)   { vt.RunAll(t, 2000) }
func TestReplay(t *testing.T) { vt.ReplayAll(t) }

// TestKnownFindings re-confirms KnownCalleeStackLeak with a fixed script: a script loaded with an evaluation stack of
// its own pushes two items and throws, its caller catches: the two items stay counted although nothing holds them.
func TestKnownFindings(t *testing.T) {
	if !vt.Known(KnownCalleeStackLeak) {
		return
	}
	callee := []byte{byte(opcode.PUSH1), byte(opcode.PUSH2), byte(opcode.PUSH0), byte(opcode.THROW)}
	body := append([]byte{byte(opcode.PUSH5), byte(opcode.PUSHDATA1), byte(len(callee))}, callee...)
	body = append(body, byte(opcode.SYSCALL), byte(LoadSyscallID&0xff), byte(LoadSyscallID>>8&0xff), byte(LoadSyscallID>>16&0xff), byte(LoadSyscallID>>24&0xff), byte(opcode.CLEAR))
	script := append([]byte{byte(opcode.TRY), byte(3 + len(body) + 2), 0}, body...)
	script = append(script, byte(opcode.ENDTRY), 5, byte(opcode.CLEAR), byte(opcode.ENDTRY), 2, byte(opcode.PUSH1), byte(opcode.RET))
	strictKnown = true
	_, err := Monitor(Case{Kind: "aware", Script: script, GasLimit: 1_0000_0000, BaseFee: defaultBaseFee})
	strictKnown = false
	if err == nil {
		t.Logf("%s: the probe no longer fails", KnownCalleeStackLeak)
		return
	}
	vt.KnownFinding(KnownCalleeStackLeak, err.Error())
}

// TestDecoderTable is a harness self-check: the independent operand table knows exactly the opcodes the VM knows.
func TestDecoderTable(t *testing.T) {
	for i := 0; i < 256; i++ {
		if (operandLayout[i] != opInvalid) != opcode.IsValid(opcode.Opcode(i)) {
			t.Errorf("opcode 0x%02x (%s): independent table valid=%v, opcode.IsValid=%v", i, opcode.Opcode(i), operandLayout[i] != opInvalid, opcode.IsValid(opcode.Opcode(i)))
		}
	}
	if !stepBoundProvable {
		t.Errorf("price table has free opcodes beyond RET/ABORT/ABORTMSG/SYSCALL: %v (step bound clause is off)", freeOps)
	}
}
