package c12

import (
	"testing"

	"github.com/nspcc-dev/neo-go/pkg/vm/opcode"
	"verifharness/vt"
)

func TestProp(t *testing.T)   { vt.RunAll(t, 2000) }
func TestReplay(t *testing.T) { vt.ReplayAll(t) }

// TestDecoderTable is a harness self-check: the independent operand table knows exactly the opcodes the VM knows.
func TestDecoderTable(t *testing.T) {
	for i := 0; i < 256; i++ {
		if (operandLayout[i] != opInvalid) != opcode.IsValid(opcode.Opcode(i)) {
			t.Errorf("opcode 0x%02x (%s): independent table valid=%v, opcode.IsValid=%v", i, opcode.Opcode(i), operandLayout[i] != opInvalid, opcode.IsValid(opcode.Opcode(i)))
		}
	}
	if !stepBoundProvable {
		t.Errorf("price table has free opcodes beyond RET/ABORT/ABORTMSG/SYSCALL: %v (step bound clause is off)", freeOps)
	}
}
