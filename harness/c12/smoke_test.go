package c12

import (
	"testing"

	"github.com/nspcc-dev/neo-go/pkg/vm/opcode"
)

func prog(ops ...any) []byte {
	var b []byte
	for _, o := range ops {
		switch t := o.(type) {
		case opcode.Opcode:
			b = append(b, byte(t))
		case int:
			b = append(b, byte(t))
		case []byte:
			b = append(b, t...)
		}
	}
	return b
}

func TestSmoke(t *testing.T) {
	cases := map[string][]byte{
		"add":      prog(opcode.PUSH1, opcode.PUSH10, opcode.ADD),
		"arr":      prog(opcode.PUSH2, opcode.NEWARRAY, opcode.DUP, opcode.PUSH0, opcode.PUSH1, opcode.SETITEM, opcode.VALUES),
		"selfapp":  prog(opcode.NEWARRAY0, opcode.DUP, opcode.DUP, opcode.APPEND, opcode.DROP),
		"selfslot": prog(opcode.INITSSLOT, 1, opcode.NEWARRAY0, opcode.DUP, opcode.STSFLD0, opcode.DUP, opcode.APPEND, opcode.PUSHNULL, opcode.STSFLD0),
		"loop":     prog(opcode.PUSH1, opcode.JMP, 0xff),
		"rec":      prog(opcode.CALL, 0),
		"try17": prog(opcode.TRY, 3, 0, opcode.TRY, 3, 0, opcode.TRY, 3, 0, opcode.TRY, 3, 0, opcode.TRY, 3, 0, opcode.TRY, 3, 0, opcode.TRY, 3, 0, opcode.TRY, 3, 0,
			opcode.TRY, 3, 0, opcode.TRY, 3, 0, opcode.TRY, 3, 0, opcode.TRY, 3, 0, opcode.TRY, 3, 0, opcode.TRY, 3, 0, opcode.TRY, 3, 0, opcode.TRY, 3, 0, opcode.TRY, 3, 0, opcode.NOP),
		"throwcatch": prog(opcode.TRY, 5, 0, opcode.NEWARRAY0, opcode.THROW, opcode.DUP, opcode.DUP, opcode.APPEND, opcode.ENDTRY, 2, opcode.RET),
		"fuzz2659":   prog(opcode.CALL, 3, opcode.ASSERT, opcode.CALL, 3, opcode.ASSERT, opcode.DEPTH, opcode.PACKSTRUCT, opcode.DUP, opcode.UNPACK, opcode.PACKSTRUCT, opcode.POPITEM, opcode.DEPTH),
	}
	for name, s := range cases {
		rep, err := Monitor(Case{Script: s, GasLimit: 10_000_000, BaseFee: defaultBaseFee})
		if err != nil {
			t.Errorf("%s: %v", name, err)
		}
		t.Logf("%-10s steps=%d state=%s items=%d ist=%d try=%d cyc=%v shared=%d correct=%v limit=%s msg=%s", name, rep.Steps, rep.State, rep.MaxItems, rep.MaxIstack, rep.MaxTryLB, rep.Cyclic, rep.SharedMut, rep.Correct, rep.HitLimit, rep.FaultMsg)
	}
}
