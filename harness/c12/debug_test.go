package c12

import (
	"fmt"
	"os"
	"strconv"
	"strings"
	"testing"

	"github.com/nspcc-dev/neo-go/pkg/vm/opcode"
	"pgregory.net/rapid"
)

func disasm(s []byte) string {
	var sb strings.Builder
	pos := 0
	for pos < len(s) {
		l := instrLen(s, pos)
		if l == 0 {
			fmt.Fprintf(&sb, "%d:?? %x\n", pos, s[pos:])
			break
		}
		arg := s[pos+1 : pos+l]
		if len(arg) > 12 {
			fmt.Fprintf(&sb, "%d:%s <%d bytes> ", pos, opcode.Opcode(s[pos]), len(arg))
		} else {
			fmt.Fprintf(&sb, "%d:%s %x ", pos, opcode.Opcode(s[pos]), arg)
		}
		pos += l
	}
	return sb.String()
}

// TestShow prints generated examples (debugging aid): C12_SHOW=n
func TestShow(t *testing.T) {
	n, _ := strconv.Atoi(os.Getenv("C12_SHOW"))
	for i := 0; i < n; i++ {
		c := rapid.Custom(genAware).Example(i + 100)
		pred := lastPrediction
		rep, err := Monitor(c)
		fmt.Printf("PRED dead=%v pending=%v lost=%v stack=%d count=%d | ACTUAL %s stack=%d count=%d\n", pred.dead, pred.pending, pred.lost, pred.stack, pred.count, rep.State, rep.LastDepth, rep.LastItems)
		fmt.Printf("--- #%d hint=%s gas=%d base=%d below=%d\n%s\n=> steps=%d %s %s items=%d ist=%d try=%d shared=%d cyc=%v muts=%v err=%v\n", i, c.Hint, c.GasLimit, c.BaseFee, len(c.Below), disasm(c.Script),
			rep.Steps, rep.State, rep.FaultMsg, rep.MaxItems, rep.MaxIstack, rep.MaxTryLB, rep.SharedMut, rep.Cyclic, rep.Mutations, err)
	}
}

// TestAccuracy measures how often the generator's model predicts the end state (debugging aid): C12_ACC=n
func TestAccuracy(t *testing.T) {
	n, _ := strconv.Atoi(os.Getenv("C12_ACC"))
	okc, tot, shown := 0, 0, 0
	for i := 0; i < n; i++ {
		c := rapid.Custom(genAware).Example(i + 1000)
		pred := lastPrediction
		if pred.dead || pred.pending || pred.lost || len(c.Below) > 0 {
			continue
		}
		c.GasLimit = 1 << 40
		rep, _ := Monitor(c)
		tot++
		if rep.State == "HALT" && rep.LastDepth == pred.stack && rep.LastItems == pred.count {
			okc++
		} else if shown < 6 {
			shown++
			fmt.Printf("MISPREDICTED #%d pred stack=%d count=%d actual %s %s stack=%d count=%d\n%s\n", i, pred.stack, pred.count, rep.State, rep.FaultMsg, rep.LastDepth, rep.LastItems, disasm(c.Script))
		}
	}
	fmt.Printf("model predicted the end state of %d / %d scripts it claimed to follow to the end\n", okc, tot)
}
