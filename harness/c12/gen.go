package c12

import (
	"bytes"
	"math/big"

	"github.com/nspcc-dev/neo-go/pkg/vm"
	"github.com/nspcc-dev/neo-go/pkg/vm/opcode"
	"pgregory.net/rapid"
	"verifharness/vt"
)

// ---- instruction-aware generator ----------------------------------------------------------------------------------

type closure func() outcome

type fn struct {
	need  int // stack entries of the caller it consumes (its INITSLOT arguments)
	label int
	code  []ins
	rec   []closure
	open  bool // still being generated (must not be called: the model cannot replay it yet)
	once  bool // ends by a planned THROW: not reusable
}

type gen struct {
	t *rapid.T
	m *model

	code  *[]ins
	rec   *[]closure
	main  []ins
	mrec  []closure
	funcs []*fn

	nextLabel  int
	floor      int  // stack entries below this index must not be consumed or reordered
	depth      int  // template nesting
	catchDepth int  // enclosing TRY blocks that have a catch handler
	dead       bool // the model says execution has ended (FAULT/HALT) or it lost track
	pending    bool // a planned exception is in flight
	nIns       int
	hints      map[string]bool
	finaleGas  int64 // extra gas (price units) the finale needs to show its effect

	forceFinallyOnly bool // next try template: finally without catch, raising
}

func (g *gen) hint(s string) { g.hints[s] = true }

func (g *gen) newLabel() int { g.nextLabel++; return g.nextLabel }

func (g *gen) intn(lo, hi int, label string) int { return rapid.IntRange(lo, hi).Draw(g.t, label) }
func (g *gen) chance(pct int, label string) bool { return rapid.IntRange(0, 99).Draw(g.t, label) < pct }

func (g *gen) stopped() bool { return g.dead || g.pending }

// raw appends to the code without touching the model (labels, dead code).
func (g *gen) raw(i ins) { *g.code = append(*g.code, i); g.nIns++ }

func (g *gen) record(c closure) {
	if g.rec != nil {
		*g.rec = append(*g.rec, c)
	}
}

func (g *gen) note(out outcome) outcome {
	switch out {
	case oFault, oHalt, oLost, oThrow:
		g.dead = true
	}
	return out
}

// emit appends the instruction, applies it to the model and records it for replays.
func (g *gen) emit(i ins) outcome {
	if g.stopped() {
		g.raw(i)
		return oOK
	}
	g.raw(i)
	m := g.m
	g.record(func() outcome { return m.exec(i) })
	return g.note(m.exec(i))
}

// emitThrow emits an instruction that is planned to raise a catchable exception.
func (g *gen) emitThrow(i ins) {
	if g.stopped() {
		g.raw(i)
		return
	}
	g.raw(i)
	m := g.m
	run := func() outcome {
		switch out := m.exec(i); out {
		case oThrow:
			return oOK
		case oOK:
			m.lost = true
			return oLost
		default:
			return out
		}
	}
	g.record(run)
	if out := run(); out != oOK {
		g.note(out)
		return
	}
	g.pending = true
}

func (g *gen) op(o opcode.Opcode, arg ...byte) outcome { return g.emit(ins{op: o, arg: arg}) }

func (g *gen) lbl(l int) { g.raw(ins{label: l}) }

func (g *gen) avail() int { return len(g.m.st) - g.floor }

// ---- pushing constants ----------------------------------------------------------------------------------------

func twosLE(x *big.Int, n int) []byte {
	v := new(big.Int).Set(x)
	if v.Sign() < 0 {
		v.Add(v, new(big.Int).Lsh(big.NewInt(1), uint(8*n)))
	}
	be := v.Bytes()
	out := make([]byte, n)
	for i := 0; i < len(be) && i < n; i++ {
		out[i] = be[len(be)-1-i]
	}
	return out
}

func (g *gen) pushInt(n int64) outcome {
	switch {
	case n >= -1 && n <= 16:
		return g.op(opcode.Opcode(int64(opcode.PUSH0) + n))
	case n >= -128 && n <= 127:
		return g.emit(ins{op: opcode.PUSHINT8, arg: twosLE(big.NewInt(n), 1)})
	case n >= -32768 && n <= 32767:
		return g.emit(ins{op: opcode.PUSHINT16, arg: twosLE(big.NewInt(n), 2)})
	case n >= -(1<<31) && n < 1<<31:
		return g.emit(ins{op: opcode.PUSHINT32, arg: twosLE(big.NewInt(n), 4)})
	}
	return g.emit(ins{op: opcode.PUSHINT64, arg: twosLE(big.NewInt(n), 8)})
}

func (g *gen) pushData(b []byte) outcome {
	switch {
	case len(b) <= 255:
		return g.emit(ins{op: opcode.PUSHDATA1, data: b})
	case len(b) <= 65535:
		return g.emit(ins{op: opcode.PUSHDATA2, data: b})
	}
	return g.emit(ins{op: opcode.PUSHDATA4, data: b})
}

var keyAlphabet = [][]byte{{}, []byte("a"), []byte("b"), []byte("key"), {0x01}, bytes.Repeat([]byte{0x7f}, 64)}

// pushKey pushes a primitive usable as a map key (small alphabet so that keys collide).
func (g *gen) pushKey() outcome {
	switch g.intn(0, 5, "keykind") {
	case 0, 1:
		return g.pushInt(int64(g.intn(0, 3, "ikey")))
	case 2:
		if g.chance(50, "bkey") {
			return g.op(opcode.PUSHT)
		}
		return g.op(opcode.PUSHF)
	default:
		return g.pushData(keyAlphabet[g.intn(0, len(keyAlphabet)-1, "skey")])
	}
}

func (g *gen) pushPrim() outcome {
	switch g.intn(0, 9, "prim") {
	case 0, 1, 2:
		return g.pushInt(int64(g.intn(-1, 16, "small")))
	case 3:
		return g.pushInt(rapid.Int64().Draw(g.t, "i64"))
	case 4:
		if g.chance(50, "tf") {
			return g.op(opcode.PUSHT)
		}
		return g.op(opcode.PUSHF)
	case 5:
		return g.op(opcode.PUSHNULL)
	case 6:
		return g.pushBig()
	default:
		return g.pushKey()
	}
}

var bigPool = func() []*big.Int {
	var p []*big.Int
	one := big.NewInt(1)
	for _, k := range []uint{63, 64, 127, 128, 254, 255} {
		x := new(big.Int).Lsh(one, k)
		p = append(p, x, new(big.Int).Sub(x, one), new(big.Int).Neg(x), new(big.Int).Add(new(big.Int).Neg(x), one))
	}
	return p
}()

func (g *gen) pushBig() outcome {
	x := bigPool[g.intn(0, len(bigPool)-1, "bigidx")]
	if !fitsInt256(x) { // 2^255 itself
		x = int256Max
	}
	if x.BitLen() < 127 && g.chance(50, "w128") {
		return g.emit(ins{op: opcode.PUSHINT128, arg: twosLE(x, 16)})
	}
	return g.emit(ins{op: opcode.PUSHINT256, arg: twosLE(x, 32)})
}

func (g *gen) pushLongBytes() outcome {
	var n int
	switch g.intn(0, 9, "lenclass") {
	case 0, 1, 2, 3:
		n = g.intn(65, 255, "len1")
	case 4, 5, 6:
		n = g.intn(256, 3000, "len2")
	case 7:
		n = 65535
	case 8:
		n = []int{65536, maxItemSize - 1, maxItemSize}[g.intn(0, 2, "len4")]
	default:
		// PUSHDATA4 announcing more than the maximum item size (the payload need not be there: the VM must refuse first).
		g.hint("pushdata-too-big")
		return g.emit(ins{op: opcode.PUSHDATA4, data: []byte{1, 2, 3}, declLen: int64(maxItemSize + g.intn(1, 70000, "over"))})
	}
	return g.pushData(bytes.Repeat([]byte{byte(g.intn(0, 255, "fill"))}, n))
}

// ---- references to compounds ------------------------------------------------------------------------------------

type ref struct {
	where int // 0 stack (idx = depth from top), 1 static, 2 local, 3 arg
	idx   int
	v     aval
}

func (g *gen) refs(pred func(aval) bool) []ref {
	var out []ref
	m := g.m
	for d := 0; d < len(m.st) && d < 24; d++ {
		if v := m.peek(d); pred(v) {
			out = append(out, ref{0, d, v})
		}
	}
	for i, v := range m.statics {
		if pred(v) {
			out = append(out, ref{1, i, v})
		}
	}
	for i, v := range m.cur().locals {
		if pred(v) {
			out = append(out, ref{2, i, v})
		}
	}
	for i, v := range m.cur().args {
		if pred(v) {
			out = append(out, ref{3, i, v})
		}
	}
	return out
}

func (g *gen) slotIns(base opcode.Opcode, idx int) ins {
	if idx < 7 && g.chance(80, "shortslot") {
		return ins{op: opcode.Opcode(int(base) + idx)}
	}
	return ins{op: base + 7, arg: []byte{byte(idx)}}
}

// fetch pushes a new reference to r on top of the stack.
func (g *gen) fetch(r ref) outcome {
	switch r.where {
	case 0:
		if r.idx < g.avail() && g.chance(25, "move") {
			// move the reference instead of copying it: the instruction then consumes what may be the last reference
			switch r.idx {
			case 0:
				return oOK
			case 1:
				return g.op(opcode.SWAP)
			case 2:
				return g.op(opcode.ROT)
			}
			if g.pushInt(int64(r.idx)) != oOK {
				return oFault
			}
			return g.op(opcode.ROLL)
		}
		switch {
		case r.idx == 0:
			return g.op(opcode.DUP)
		case r.idx == 1 && g.chance(70, "over"):
			return g.op(opcode.OVER)
		}
		if g.pushInt(int64(r.idx)) != oOK {
			return oFault
		}
		return g.op(opcode.PICK)
	case 1:
		return g.emit(g.slotIns(opcode.LDSFLD0, r.idx))
	case 2:
		return g.emit(g.slotIns(opcode.LDLOC0, r.idx))
	default:
		return g.emit(g.slotIns(opcode.LDARG0, r.idx))
	}
}

func isCompound(v aval) bool  { return v.k.compound() }
func isArrLike(v aval) bool   { return v.k == kArr || v.k == kStruct }
func isMap(v aval) bool       { return v.k == kMap }
func nonEmptyArr(v aval) bool { return isArrLike(v) && len(v.c.items) > 0 }

func (g *gen) pickRef(pred func(aval) bool, label string) (ref, bool) {
	rs := g.refs(pred)
	if len(rs) == 0 {
		return ref{}, false
	}
	return rs[g.intn(0, len(rs)-1, label)], true
}

// pushValue pushes something to store into a compound: a primitive, a fresh compound, or one more reference to an
// existing compound (possibly the container itself: a cycle).
func (g *gen) pushValue(container *acomp) outcome {
	switch g.intn(0, 9, "valkind") {
	case 0, 1, 2:
		return g.pushPrim()
	case 3:
		return g.op([]opcode.Opcode{opcode.NEWARRAY0, opcode.NEWSTRUCT0, opcode.NEWMAP}[g.intn(0, 2, "fresh")])
	default:
		rs := g.refs(isCompound)
		if len(rs) == 0 {
			return g.pushPrim()
		}
		r := rs[g.intn(0, len(rs)-1, "valref")]
		if container != nil && reaches(r.v, container, map[*acomp]bool{}) {
			// would close a cycle: do it only sometimes (exactness of the counter is only claimed without cycles)
			if !g.chance(12, "cycle") {
				return g.pushPrim()
			}
			g.hint("cycle")
		}
		return g.fetch(r)
	}
}

// ---- straight-line actions ---------------------------------------------------------------------------------------

func (g *gen) actNewCompound() bool {
	switch g.intn(0, 7, "newkind") {
	case 0:
		g.op(opcode.NEWARRAY0)
	case 1:
		g.op(opcode.NEWSTRUCT0)
	case 2, 3:
		g.op(opcode.NEWMAP)
	default:
		n := g.intn(0, 5, "n")
		if g.chance(2, "bign") {
			n = []int{200, 1000, 2040, 2047, 2048, 2049}[g.intn(0, 5, "bigsel")]
			g.hint("big-newarray")
		}
		g.pushInt(int64(n))
		switch g.intn(0, 2, "arrkind") {
		case 0:
			g.op(opcode.NEWARRAY)
		case 1:
			g.op(opcode.NEWSTRUCT)
		default:
			g.op(opcode.NEWARRAYT, []byte{0x00, 0x20, 0x21, 0x28, 0x40, 0x41, 0x48, 0x30}[g.intn(0, 7, "elt")])
		}
	}
	g.shareTop()
	return true
}

// shareTop makes the compound on top of the stack referenced from a second place with good probability.
func (g *gen) shareTop() {
	if g.stopped() || len(g.m.st) == 0 || !g.m.peek(0).k.compound() {
		return
	}
	switch g.intn(0, 5, "share") {
	case 0, 1:
		g.op(opcode.DUP)
	case 2, 3:
		if g.op(opcode.DUP) == oOK {
			g.actStore()
		}
	}
}

func (g *gen) actPack() bool {
	kind := g.intn(0, 4, "packkind")
	if kind <= 2 {
		k := g.intn(0, 4, "k")
		if k > g.avail() {
			k = g.avail()
		}
		g.pushInt(int64(k))
		if kind == 0 {
			g.op(opcode.PACKSTRUCT)
		} else {
			g.op(opcode.PACK)
		}
	} else {
		k := g.intn(0, 3, "pairs")
		for j := 0; j < k && !g.stopped(); j++ {
			g.pushValue(nil)
			g.pushKey()
		}
		g.pushInt(int64(k))
		g.op(opcode.PACKMAP)
	}
	g.shareTop()
	return true
}

func (g *gen) actDup() bool {
	if len(g.m.st) == 0 {
		return false
	}
	rs := g.refs(isCompound)
	if len(rs) > 0 && g.chance(75, "dupcomp") {
		g.fetch(rs[g.intn(0, len(rs)-1, "which")])
		return true
	}
	switch g.intn(0, 3, "dupkind") {
	case 0:
		g.op(opcode.DUP)
	case 1:
		if len(g.m.st) < 2 {
			return false
		}
		g.op(opcode.OVER)
	case 2:
		if g.avail() < 2 {
			return false
		}
		g.op(opcode.TUCK)
	default:
		d := g.intn(0, len(g.m.st)-1, "pick")
		g.pushInt(int64(d))
		g.op(opcode.PICK)
	}
	return true
}

func (g *gen) actShuffle() bool {
	a := g.avail()
	if a < 2 {
		return false
	}
	switch g.intn(0, 5, "shuf") {
	case 0:
		g.op(opcode.SWAP)
	case 1:
		if a < 3 {
			return false
		}
		g.op(opcode.ROT)
	case 2:
		n := g.intn(0, a-1, "roll")
		g.pushInt(int64(n))
		g.op(opcode.ROLL)
	case 3:
		if a < 3 {
			return false
		}
		g.op(opcode.REVERSE3)
	case 4:
		if a < 4 {
			return false
		}
		g.op(opcode.REVERSE4)
	default:
		n := g.intn(0, a, "revn")
		g.pushInt(int64(n))
		g.op(opcode.REVERSEN)
	}
	return true
}

func (g *gen) actDrop() bool {
	a := g.avail()
	if a < 1 {
		return false
	}
	switch g.intn(0, 3, "drop") {
	case 0, 1:
		g.op(opcode.DROP)
	case 2:
		if a < 2 {
			return false
		}
		g.op(opcode.NIP)
	default:
		n := g.intn(0, a-1, "xdrop")
		g.pushInt(int64(n))
		g.op(opcode.XDROP)
	}
	return true
}

type slotRef struct {
	base opcode.Opcode // LD base; ST base is +8
	n    int
}

func (g *gen) slots() []slotRef {
	var s []slotRef
	if n := len(g.m.statics); n > 0 {
		s = append(s, slotRef{opcode.LDSFLD0, n})
	}
	if n := len(g.m.cur().locals); n > 0 {
		s = append(s, slotRef{opcode.LDLOC0, n})
	}
	if n := len(g.m.cur().args); n > 0 {
		s = append(s, slotRef{opcode.LDARG0, n})
	}
	return s
}

func (g *gen) actStore() bool {
	s := g.slots()
	if len(s) == 0 || g.avail() < 1 {
		return false
	}
	sl := s[g.intn(0, len(s)-1, "slotkind")]
	g.emit(g.slotIns(sl.base+8, g.intn(0, sl.n-1, "slotidx")))
	return true
}

func (g *gen) actLoad() bool {
	s := g.slots()
	if len(s) == 0 {
		return false
	}
	sl := s[g.intn(0, len(s)-1, "slotkind")]
	g.emit(g.slotIns(sl.base, g.intn(0, sl.n-1, "slotidx")))
	return true
}

func (g *gen) actInitSlots() bool {
	did := false
	if g.m.statics == nil && g.chance(60, "sslot") {
		g.op(opcode.INITSSLOT, byte(g.intn(1, 4, "nstatic")))
		did = true
	}
	f := g.m.cur()
	if f.locals == nil && f.args == nil && g.chance(50, "islot") {
		l := g.intn(0, 3, "nloc")
		a := g.intn(0, 2, "narg")
		if a > g.avail() {
			a = g.avail()
		}
		if l+a > 0 {
			g.op(opcode.INITSLOT, byte(l), byte(a))
			did = true
		}
	}
	return did
}

func (g *gen) actAppend() bool {
	r, ok := g.pickRef(isArrLike, "apptarget")
	if !ok {
		return false
	}
	g.fetch(r)
	g.pushValue(r.v.c)
	g.op(opcode.APPEND)
	return true
}

// existingKey pushes a key of the map (ok=false if it has none the model knows how to push).
func (g *gen) pushKeyLike(k aval) bool {
	switch k.k {
	case kInt:
		if k.i != nil && k.i.IsInt64() {
			g.pushInt(k.i.Int64())
			return true
		}
	case kBool:
		if k.b == 1 {
			g.op(opcode.PUSHT)
		} else {
			g.op(opcode.PUSHF)
		}
		return k.b >= 0
	case kBytes:
		if k.s != nil {
			g.pushData(k.s)
			return true
		}
	}
	return false
}

func (g *gen) pushIndexOrKey(v aval, label string) bool {
	switch v.k {
	case kArr, kStruct:
		if len(v.c.items) == 0 {
			return false
		}
		g.pushInt(int64(g.intn(0, len(v.c.items)-1, label)))
	case kMap:
		if n := len(v.c.keys); n > 0 && g.chance(70, "existing") {
			if !g.pushKeyLike(v.c.keys[g.intn(0, n-1, label)]) {
				g.pushKey()
			}
		} else {
			g.pushKey()
		}
	default:
		return false
	}
	return true
}

func (g *gen) actSetItem() bool {
	r, ok := g.pickRef(func(v aval) bool { return nonEmptyArr(v) || isMap(v) }, "settarget")
	if !ok {
		return false
	}
	g.fetch(r)
	if !g.pushIndexOrKey(r.v, "setidx") {
		return false
	}
	g.pushValue(r.v.c)
	g.op(opcode.SETITEM)
	return true
}

func (g *gen) actPickItem() bool {
	r, ok := g.pickRef(func(v aval) bool { return nonEmptyArr(v) || (isMap(v) && len(v.c.keys) > 0) }, "picktarget")
	if !ok {
		return false
	}
	g.fetch(r)
	if r.v.k == kMap {
		if !g.pushKeyLike(r.v.c.keys[g.intn(0, len(r.v.c.keys)-1, "pickkey")]) {
			g.dead = true
			return true
		}
	} else {
		g.pushInt(int64(g.intn(0, len(r.v.c.items)-1, "pickidx")))
	}
	g.op(opcode.PICKITEM)
	return true
}

func (g *gen) actRemove() bool {
	r, ok := g.pickRef(func(v aval) bool { return nonEmptyArr(v) || isMap(v) }, "remtarget")
	if !ok {
		return false
	}
	g.fetch(r)
	if !g.pushIndexOrKey(r.v, "remidx") {
		return false
	}
	g.op(opcode.REMOVE)
	return true
}

func (g *gen) actUnary(o opcode.Opcode, pred func(aval) bool, label string) bool {
	r, ok := g.pickRef(pred, label)
	if !ok {
		return false
	}
	g.fetch(r)
	g.op(o)
	return true
}

func (g *gen) actUnpack() bool {
	r, ok := g.pickRef(func(v aval) bool { return isCompound(v) && len(v.c.items) <= 6 }, "unpacktarget")
	if !ok {
		return false
	}
	g.fetch(r)
	g.op(opcode.UNPACK)
	if g.stopped() {
		return true
	}
	// the element count is on top: pack again, or drop it
	switch g.intn(0, 2, "afterunpack") {
	case 0:
		if r.v.k == kMap {
			g.op(opcode.PACKMAP)
		} else {
			g.op(opcode.PACK)
		}
	case 1:
		if r.v.k != kMap {
			g.op(opcode.PACKSTRUCT)
		} else {
			g.op(opcode.DROP)
		}
	default:
		g.op(opcode.DROP)
	}
	return true
}

func (g *gen) actQuery() bool {
	r, ok := g.pickRef(isCompound, "querytarget")
	if !ok {
		return false
	}
	g.fetch(r)
	switch g.intn(0, 3, "query") {
	case 0:
		g.op(opcode.SIZE)
	case 1:
		if r.v.k == kMap {
			g.pushKey()
		} else {
			g.pushInt(int64(g.intn(0, 4, "hk")))
		}
		g.op(opcode.HASKEY)
	case 2:
		g.op(opcode.ISNULL)
	default:
		g.op(opcode.ISTYPE, []byte{0x40, 0x41, 0x48, 0x21}[g.intn(0, 3, "istype")])
	}
	return true
}

func (g *gen) actConvert() bool {
	if len(g.m.st) == 0 {
		return false
	}
	r, ok := g.pickRef(func(v aval) bool { return true }, "convtarget")
	if !ok {
		return false
	}
	var typ byte
	switch r.v.k {
	case kArr:
		typ = 0x41
	case kStruct:
		typ = 0x40
	case kMap:
		typ = 0x48
	case kInt:
		if r.v.i == nil {
			return false
		}
		typ = []byte{0x28, 0x30, 0x20}[g.intn(0, 2, "ct")]
	case kBytes, kBuf:
		typ = []byte{0x28, 0x30, 0x21}[g.intn(0, 2, "ct")]
		if r.v.n > 32 && typ == 0x21 {
			typ = 0x30
		}
	case kBool:
		typ = 0x21
	default:
		return false
	}
	g.fetch(r)
	g.op(opcode.CONVERT, typ)
	return true
}

func (g *gen) actArith() bool {
	un := []opcode.Opcode{opcode.INC, opcode.DEC, opcode.NEGATE, opcode.ABS, opcode.SIGN, opcode.INVERT, opcode.SQRT, opcode.NZ, opcode.NOT}
	bin := []opcode.Opcode{opcode.ADD, opcode.SUB, opcode.MUL, opcode.DIV, opcode.MOD, opcode.AND, opcode.OR, opcode.XOR, opcode.MIN, opcode.MAX,
		opcode.SHL, opcode.SHR, opcode.POW, opcode.LT, opcode.GE, opcode.NUMEQUAL}
	pushOperand := func() {
		if g.chance(40, "bigoperand") {
			g.pushBig()
		} else {
			g.pushInt(int64(g.intn(-3, 300, "operand")))
		}
	}
	pushOperand()
	if g.chance(35, "unary") {
		g.op(un[g.intn(0, len(un)-1, "un")])
	} else {
		o := bin[g.intn(0, len(bin)-1, "bin")]
		if o == opcode.SHL || o == opcode.SHR || o == opcode.POW {
			g.pushInt(int64([]int{0, 1, 2, 8, 200, 255, 256, 257}[g.intn(0, 7, "shift")]))
		} else {
			pushOperand()
		}
		g.op(o)
	}
	if !g.stopped() && g.chance(60, "droparith") {
		g.op(opcode.DROP)
	}
	return true
}

func isBytes(v aval) bool { return v.k == kBytes || v.k == kBuf }

func (g *gen) actBytes() bool {
	switch g.intn(0, 6, "bytesop") {
	case 0:
		g.pushLongBytes()
	case 1:
		n := g.intn(0, 300, "nb")
		if g.chance(5, "bignb") {
			n = []int{maxItemSize, maxItemSize + 1, 65536}[g.intn(0, 2, "nbsel")]
		}
		g.pushInt(int64(n))
		g.op(opcode.NEWBUFFER)
	case 2, 3:
		r, ok := g.pickRef(isBytes, "cat1")
		if !ok {
			g.pushKey()
			return true
		}
		g.fetch(r)
		r2, _ := g.pickRef(isBytes, "cat2")
		g.fetch(r2)
		g.op(opcode.CAT)
	case 4:
		r, ok := g.pickRef(func(v aval) bool { return isBytes(v) && v.n > 0 }, "sub")
		if !ok {
			return false
		}
		g.fetch(r)
		o := g.intn(0, r.v.n-1, "suboff")
		g.pushInt(int64(o))
		g.pushInt(int64(g.intn(0, r.v.n-o, "sublen")))
		g.op(opcode.SUBSTR)
	case 5:
		r, ok := g.pickRef(isBytes, "lr")
		if !ok {
			return false
		}
		g.fetch(r)
		if g.chance(6, "hugelen") {
			g.pushInt([]int64{1<<31 - 1, 1 << 30, int64(maxItemSize) + 1, -1}[g.intn(0, 3, "hugesel")])
			g.hint("huge-length")
		} else {
			g.pushInt(int64(g.intn(0, r.v.n, "lrlen")))
		}
		if g.chance(50, "left") {
			g.op(opcode.LEFT)
		} else {
			g.op(opcode.RIGHT)
		}
	default:
		r, ok := g.pickRef(func(v aval) bool { return v.k == kBuf && v.n > 0 }, "bufset")
		if !ok {
			return false
		}
		g.fetch(r)
		g.pushInt(int64(g.intn(0, r.v.n-1, "bufidx")))
		g.pushInt(int64(g.intn(0, 255, "bufval")))
		g.op(opcode.SETITEM)
	}
	return true
}

// ---- blind (dead) code ------------------------------------------------------------------------------------------

var blindOps = []opcode.Opcode{opcode.NOP, opcode.PUSH1, opcode.PUSHNULL, opcode.DROP, opcode.DUP, opcode.NEWARRAY0, opcode.APPEND, opcode.RET,
	opcode.THROW, opcode.ENDFINALLY, opcode.PACK, opcode.UNPACK, opcode.SWAP, opcode.ABORT}

func (g *gen) blind(label string) {
	n := g.intn(0, 4, label)
	for j := 0; j < n; j++ {
		g.raw(ins{op: blindOps[g.intn(0, len(blindOps)-1, "blindop")]})
	}
	if g.chance(6, "junk") {
		// undecodable junk in a never-executed place: the script then fails the static check (and runs all the same)
		g.raw(ins{raw: rapid.SliceOfN(rapid.Byte(), 1, 5).Draw(g.t, "junkbytes")})
		g.hint("junk")
	}
}

// ---- templates ------------------------------------------------------------------------------------------------------

// body runs n straight-line/template actions.
func (g *gen) body(n int) {
	for j := 0; j < n && !g.stopped() && g.nIns < 110; j++ {
		g.action()
	}
}

func (g *gen) jumpForm() bool { return g.chance(25, "longform") }

func (g *gen) actIf() bool {
	if g.depth >= 3 {
		return false
	}
	g.depth++
	defer func() { g.depth-- }()
	cond := g.chance(50, "cond")
	lElse, lEnd := g.newLabel(), g.newLabel()
	long := g.jumpForm()
	// condition
	var jop opcode.Opcode
	switch g.intn(0, 2, "condkind") {
	case 0:
		if cond {
			g.op(opcode.PUSHT)
		} else {
			g.op(opcode.PUSHF)
		}
		jop = opcode.JMPIFNOT // jumps to else when the condition is false
	case 1:
		a := int64(g.intn(0, 9, "ca"))
		b := a + 1
		if !cond {
			b = a - 1
		}
		g.pushInt(a)
		g.pushInt(b)
		jop = opcode.JMPGE // a >= b: jump to else; taken iff !cond
	default:
		if cond {
			g.pushInt(0)
		} else {
			g.pushInt(5)
		}
		g.op(opcode.NZ)
		jop = opcode.JMPIF // jump to else iff value != 0, i.e. iff !cond
	}
	g.emit(ins{op: jop, l1: lElse, long: long})
	if cond {
		g.body(g.intn(1, 4, "thenlen"))
		g.emit(ins{op: opcode.JMP, l1: lEnd, long: g.jumpForm()})
		g.lbl(lElse)
		g.blind("deadelse")
	} else {
		g.blind("deadthen")
		g.raw(ins{op: opcode.JMP, l1: lEnd})
		g.lbl(lElse)
		g.body(g.intn(1, 4, "elselen"))
	}
	g.lbl(lEnd)
	return true
}

// withRec runs f with a fresh recorder and returns what it recorded.
func (g *gen) withRec(f func()) []closure {
	saved := g.rec
	var sub []closure
	g.rec = &sub
	f()
	g.rec = saved
	return sub
}

func runAll(cs []closure) outcome {
	for _, c := range cs {
		if out := c(); out != oOK {
			return out
		}
	}
	return oOK
}

func (g *gen) actLoop() bool {
	if g.depth >= 2 {
		return false
	}
	g.depth++
	defer func() { g.depth-- }()
	n := g.intn(2, 5, "iters")
	if g.chance(10, "manyiters") {
		n = g.intn(20, 120, "iters2")
	}
	lTop := g.newLabel()
	g.pushInt(int64(n))
	if g.stopped() {
		return true
	}
	savedFloor := g.floor
	g.floor = len(g.m.st)
	g.lbl(lTop)
	iter := g.withRec(func() {
		g.body(g.intn(1, 5, "looplen"))
		for !g.stopped() && len(g.m.st) > g.floor {
			g.op(opcode.DROP)
		}
		g.op(opcode.DEC)
		g.op(opcode.DUP)
		g.emit(ins{op: opcode.JMPIF, l1: lTop, long: g.jumpForm()})
	})
	g.floor = savedFloor
	m := g.m
	rest := func() outcome {
		for k := 1; k < n; k++ {
			if out := runAll(iter); out != oOK {
				return out
			}
		}
		return oOK
	}
	g.record(func() outcome { // a replay of the whole loop: first iteration + the rest
		if out := runAll(iter); out != oOK {
			return out
		}
		return rest()
	})
	if !g.stopped() {
		g.note(rest())
	}
	_ = m
	g.op(opcode.DROP)
	g.hint("loop")
	return true
}

func (g *gen) callIns(f *fn) {
	// three ways to call
	switch g.intn(0, 3, "callkind") {
	case 0, 1:
		g.emit(ins{op: opcode.CALL, l1: f.label})
	case 2:
		g.emit(ins{op: opcode.CALL, l1: f.label, long: true})
	default:
		g.emit(ins{op: opcode.PUSHA, l1: f.label})
		g.op(opcode.CALLA)
	}
}

// newFunc emits a call to a brand-new function and generates its body (in execution order, on the shared stack).
// thrower: the function ends by raising an exception instead of returning.
func (g *gen) newFunc(thrower bool) {
	f := &fn{label: g.newLabel(), open: true, once: thrower}
	g.funcs = append(g.funcs, f)
	g.callIns(f)
	if g.stopped() {
		f.code = append(f.code, ins{label: f.label}, ins{op: opcode.RET})
		f.open = false
		return
	}
	savedCode, savedRec, savedFloor := g.code, g.rec, g.floor
	g.code = &f.code
	g.rec = &f.rec
	g.lbl(f.label)
	entry := len(g.m.st)
	if g.chance(70, "fslots") {
		l := g.intn(0, 3, "fl")
		a := g.intn(0, 2, "fa")
		if a > g.avail() {
			a = g.avail()
		}
		if l+a > 0 {
			g.op(opcode.INITSLOT, byte(l), byte(a))
			f.need = a
		}
	}
	// the body may consume what it pushes itself, nothing of the caller's beyond its arguments (so that the function
	// can be called again from a place where less is available)
	if fl := entry - f.need; fl > g.floor {
		g.floor = fl
	}
	g.body(g.intn(1, 6, "flen"))
	if thrower && !g.stopped() {
		if g.chance(40, "nestthrow") && g.depth < 3 {
			g.depth++
			g.newFunc(true)
			g.depth--
		} else {
			g.throwSomething()
		}
	}
	g.op(opcode.RET) // dead code when an exception is pending
	g.code, g.rec, g.floor = savedCode, savedRec, savedFloor
	f.open = false
	frec := &f.rec
	g.record(func() outcome { return runAll(*frec) })
}

func (g *gen) actCall() bool {
	if g.depth >= 3 || len(g.funcs) >= 6 {
		return false
	}
	g.depth++
	defer func() { g.depth-- }()
	var reusable []*fn
	for _, f := range g.funcs {
		if !f.open && !f.once && f.need <= g.avail() {
			reusable = append(reusable, f)
		}
	}
	if len(reusable) > 0 && g.chance(55, "reuse") {
		f := reusable[g.intn(0, len(reusable)-1, "whichfn")]
		g.callIns(f)
		if !g.stopped() {
			frec := &f.rec
			g.record(func() outcome { return runAll(*frec) })
			g.note(runAll(f.rec))
		}
		g.hint("fn-reused")
		return true
	}
	g.newFunc(false)
	return true
}

// throwSomething emits an instruction sequence that raises a catchable exception.
func (g *gen) throwSomething() {
	switch g.intn(0, 4, "throwkind") {
	case 0:
		g.pushPrim()
		g.emitThrow(ins{op: opcode.THROW})
	case 1:
		// throw a compound that stays referenced elsewhere / a fresh one
		if r, ok := g.pickRef(isCompound, "throwref"); ok {
			g.fetch(r)
		} else {
			g.pushInt(2)
			g.op(opcode.NEWARRAY)
		}
		g.emitThrow(ins{op: opcode.THROW})
	case 2:
		if r, ok := g.pickRef(isArrLike, "pickoob"); ok {
			g.fetch(r)
		} else {
			g.op(opcode.NEWARRAY0)
		}
		g.pushInt(int64(g.intn(3000, 4000, "oob")))
		g.emitThrow(ins{op: opcode.PICKITEM})
	case 3:
		if r, ok := g.pickRef(isArrLike, "setoob"); ok {
			g.fetch(r)
		} else {
			g.op(opcode.NEWSTRUCT0)
		}
		g.pushInt(int64(g.intn(3000, 4000, "oob")))
		g.pushValue(nil)
		g.emitThrow(ins{op: opcode.SETITEM})
	default:
		if r, ok := g.pickRef(isMap, "mapmiss"); ok {
			g.fetch(r)
		} else {
			g.op(opcode.NEWMAP)
		}
		g.pushData([]byte("no such key"))
		g.emitThrow(ins{op: opcode.PICKITEM})
	}
}

func (g *gen) actTry() bool {
	if g.depth >= 4 {
		return false
	}
	g.depth++
	defer func() { g.depth-- }()
	var hasCatch, hasFinally bool
	forced := g.forceFinallyOnly
	g.forceFinallyOnly = false
	switch k := g.intn(0, 9, "tryshape"); {
	case forced:
		hasFinally = true
	case k < 5:
		hasCatch = true
	case k < 8:
		hasCatch, hasFinally = true, true
	default:
		hasFinally = true
	}
	throws := (forced || g.chance(65, "throws")) && (hasCatch || g.catchDepth > 0)
	lCatch, lFin, lEnd := 0, 0, g.newLabel()
	if hasCatch {
		lCatch = g.newLabel()
	}
	if hasFinally {
		lFin = g.newLabel()
	}
	m := g.m
	g.emit(ins{op: opcode.TRY, l1: lCatch, l2: lFin, long: g.jumpForm()})
	if g.stopped() {
		return true
	}
	// Replays (loop iterations, repeated calls) run this block at other call depths: the frame depth of the TRY is
	// therefore kept in the model at run time, not captured here.
	mark := func() outcome { m.tryMarks = append(m.tryMarks, len(m.frames)); return oOK }
	g.record(mark)
	mark()
	unwindToTry := func() bool {
		if len(m.tryMarks) == 0 {
			return false
		}
		d := m.tryMarks[len(m.tryMarks)-1]
		if d > len(m.frames) {
			return false
		}
		m.frames = m.frames[:d]
		return true
	}
	popTry := func() outcome {
		if len(m.tryMarks) == 0 || m.cur().try == 0 {
			m.lost = true
			return oLost
		}
		m.tryMarks = m.tryMarks[:len(m.tryMarks)-1]
		m.cur().try--
		return oOK
	}
	g.hint("try")

	// try body
	if hasCatch {
		g.catchDepth++
	}
	g.body(g.intn(0, 3, "trylen"))
	if throws && hasCatch && !g.stopped() && g.depth < 4 && g.chance(25, "innerfinally") {
		g.forceFinallyOnly = true
		g.actTry()
	}
	if throws && !g.stopped() {
		if g.chance(35, "throwfn") && g.depth < 4 {
			g.newFunc(true)
			g.hint("throw-across-call")
		} else {
			g.throwSomething()
		}
	}
	if hasCatch {
		g.catchDepth--
	}
	if g.dead {
		return true
	}
	thrown := g.pending
	g.emit(ins{op: opcode.ENDTRY, l1: lEnd, long: g.jumpForm()}) // dead code if thrown
	if !thrown && !hasFinally {
		g.record(popTry)
		popTry()
	}

	// catch
	if hasCatch {
		g.lbl(lCatch)
		if thrown {
			g.pending = false
			handler := func() outcome {
				if !unwindToTry() {
					m.lost = true
					return oLost
				}
				m.push(m.exc)
				return oOK
			}
			g.record(handler)
			handler()
			g.hint("caught")
			switch g.intn(0, 3, "handler") {
			case 0:
				g.op(opcode.DROP)
			case 1:
				if !g.actStore() {
					g.op(opcode.DROP)
				}
			case 2:
				if r, ok := g.pickRef(isArrLike, "excinto"); ok {
					g.fetch(r)
					g.op(opcode.SWAP)
					g.op(opcode.APPEND)
				}
			default:
			}
			g.body(g.intn(0, 2, "catchlen"))
			if g.stopped() {
				return true
			}
			g.emit(ins{op: opcode.ENDTRY, l1: lEnd, long: g.jumpForm()})
			if !hasFinally {
				g.record(popTry)
				popTry()
			}
		} else {
			g.blind("deadcatch")
			g.raw(ins{op: opcode.ENDTRY, l1: lEnd})
		}
	}
	// finally
	if hasFinally {
		g.lbl(lFin)
		rethrow := g.pending // not caught here: runs finally with the exception in flight, then re-raises
		if rethrow {
			g.pending = false
			unwind := func() outcome {
				if !unwindToTry() {
					m.lost = true
					return oLost
				}
				return oOK
			}
			g.record(unwind)
			unwind()
			g.hint("finally-with-exception")
		}
		g.body(g.intn(0, 2, "finlen"))
		if g.stopped() {
			return true
		}
		g.op(opcode.ENDFINALLY)
		g.record(popTry)
		popTry()
		if rethrow {
			g.pending = true
		}
	}
	g.lbl(lEnd)
	return true
}

// actCycleLastRef builds a compound that contains itself (directly or through a wrapper) and then lets a collection
// instruction consume what is, most of the time, the last outside reference to it.
func (g *gen) actCycleLastRef() bool {
	m := g.m
	var keyv aval
	kind := g.intn(0, 2, "cyckind")
	switch kind {
	case 0: // a = [.., a]
		if g.chance(50, "cycpre") {
			g.pushInt(int64(g.intn(0, 2, "cycn")))
			g.op(opcode.NEWARRAY)
		} else {
			g.op(opcode.NEWARRAY0)
		}
		g.op(opcode.DUP)
		g.op(opcode.DUP)
		g.op(opcode.APPEND)
	case 1: // m[k] = m
		g.op(opcode.NEWMAP)
		for j := g.intn(0, 2, "cycpairs"); j > 0 && !g.stopped(); j-- {
			g.op(opcode.DUP)
			g.pushKey()
			g.pushPrim()
			g.op(opcode.SETITEM)
		}
		g.op(opcode.DUP)
		g.pushKey()
		if g.stopped() {
			return true
		}
		keyv = m.peek(0)
		g.op(opcode.OVER)
		g.op(opcode.SETITEM)
	default: // a = [[a]] (wrapper array or struct)
		g.op(opcode.NEWARRAY0)
		g.op(opcode.DUP)
		g.op(opcode.DUP)
		g.pushInt(1)
		if g.chance(50, "cycwrap") {
			g.op(opcode.PACK)
		} else {
			g.op(opcode.PACKSTRUCT)
		}
		g.op(opcode.APPEND)
	}
	if g.stopped() {
		return true
	}
	g.hint("cycle")
	if g.chance(40, "cycmore") {
		g.op(opcode.DUP)
		if kind == 1 {
			g.pushKey()
		}
		g.pushPrim()
		if kind == 1 {
			g.op(opcode.SETITEM)
		} else {
			g.op(opcode.APPEND)
		}
	}
	if g.chance(25, "cyckeep") {
		g.op(opcode.DUP)
		if !g.actStore() {
			g.op(opcode.DROP)
		}
	}
	if g.stopped() || len(m.st) == 0 || !m.peek(0).k.compound() {
		return true
	}
	top := m.peek(0)
	selfIdx := func() bool { // pushes the index / key of an entry that leads back to the compound
		if kind == 1 {
			return g.pushKeyLike(keyv)
		}
		for i, it := range top.c.items {
			if reaches(it, top.c, map[*acomp]bool{}) {
				g.pushInt(int64(i))
				return true
			}
		}
		return false
	}
	switch g.intn(0, 9, "cycop") {
	case 0, 1, 2:
		if selfIdx() {
			g.op(opcode.REMOVE)
		}
	case 3:
		g.op(opcode.CLEARITEMS)
	case 4:
		if kind != 1 {
			g.op(opcode.POPITEM)
		} else {
			g.op(opcode.KEYS)
		}
	case 5:
		if selfIdx() {
			g.pushPrim()
			g.op(opcode.SETITEM)
		}
	case 6:
		g.op(opcode.VALUES)
	case 7:
		g.op(opcode.UNPACK)
	case 8:
		g.op(opcode.DROP)
	default:
		if kind != 1 {
			g.op(opcode.REVERSEITEMS)
		} else if selfIdx() {
			g.op(opcode.PICKITEM)
		}
	}
	return true
}

// actFreshThenConsume builds a nested compound nobody else refers to (structs inside arrays/maps inside structs) and
// lets one instruction consume its only reference: the "not referenced" branches of the VM's counting code.
func (g *gen) actFreshThenConsume() bool {
	levels := g.intn(1, 3, "lvls")
	g.pushPrim()
	for l := 0; l < levels && !g.stopped(); l++ {
		extra := g.intn(0, 2, "extra")
		for j := 0; j < extra; j++ {
			g.pushPrim()
		}
		switch g.intn(0, 3, "wrap") {
		case 0, 1:
			g.pushInt(int64(extra + 1))
			g.op(opcode.PACKSTRUCT)
		case 2:
			g.pushInt(int64(extra + 1))
			g.op(opcode.PACK)
		default:
			for j := 0; j < extra; j++ {
				g.op(opcode.DROP)
			}
			g.pushKey()
			g.pushInt(1)
			g.op(opcode.PACKMAP)
		}
	}
	if g.stopped() || len(g.m.st) == 0 || !g.m.peek(0).k.compound() {
		return true
	}
	top := g.m.peek(0)
	switch g.intn(0, 7, "consume") {
	case 0, 1:
		g.op(opcode.VALUES)
	case 2:
		g.op(opcode.UNPACK)
	case 3:
		g.op(opcode.CLEARITEMS)
	case 4:
		if top.k != kMap && len(top.c.items) > 0 {
			g.op(opcode.POPITEM)
		} else {
			g.op(opcode.KEYS)
		}
	case 5:
		// put it (a struct is cloned) into a fresh or existing container
		if r, ok := g.pickRef(isArrLike, "into"); ok {
			g.fetch(r)
			g.op(opcode.SWAP)
			g.op(opcode.APPEND)
		} else {
			g.op(opcode.NEWARRAY0)
			g.op(opcode.SWAP)
			g.op(opcode.APPEND)
		}
	case 6:
		if top.k != kMap {
			g.op(opcode.CONVERT, map[kind]byte{kArr: 0x41, kStruct: 0x40}[top.k])
		} else {
			g.op(opcode.DROP)
		}
	default:
		if !g.actStore() {
			g.op(opcode.DROP)
		}
	}
	return true
}

type action struct {
	w int
	f func(*gen) bool
}

var actions []action

func init() {
	actions = []action{
		{8, func(g *gen) bool { g.pushPrim(); return true }},
		{8, (*gen).actNewCompound},
		{6, (*gen).actPack},
		{7, (*gen).actDup},
		{3, (*gen).actShuffle},
		{4, (*gen).actDrop},
		{6, (*gen).actStore},
		{5, (*gen).actLoad},
		{2, (*gen).actInitSlots},
		{9, (*gen).actAppend},
		{8, (*gen).actSetItem},
		{4, (*gen).actPickItem},
		{5, (*gen).actRemove},
		{3, func(g *gen) bool { return g.actUnary(opcode.CLEARITEMS, isCompound, "clr") }},
		{4, func(g *gen) bool { return g.actUnary(opcode.POPITEM, nonEmptyArr, "popi") }},
		{3, func(g *gen) bool { return g.actUnary(opcode.REVERSEITEMS, isArrLike, "revi") }},
		{4, func(g *gen) bool { return g.actUnary(opcode.VALUES, isCompound, "vals") }},
		{3, func(g *gen) bool { return g.actUnary(opcode.KEYS, isMap, "keys") }},
		{4, (*gen).actUnpack},
		{2, (*gen).actQuery},
		{3, (*gen).actConvert},
		{3, (*gen).actArith},
		{3, (*gen).actBytes},
		{6, (*gen).actCall},
		{5, (*gen).actTry},
		{3, (*gen).actIf},
		{2, (*gen).actLoop},
		{1, (*gen).actCycleLastRef},
		{3, (*gen).actFreshThenConsume},
	}
	for _, a := range actions {
		actionTotal += a.w
	}
}

var actionTotal int

func (g *gen) action() {
	for try := 0; try < 4; try++ {
		x := g.intn(0, actionTotal-1, "action")
		for _, a := range actions {
			if x < a.w {
				if a.f(g) {
					return
				}
				break
			}
			x -= a.w
		}
	}
	g.pushPrim()
}

// ---- finales: patterns that run into one of the limits ----------------------------------------------------------------

func (g *gen) finale() {
	if g.stopped() {
		return
	}
	k := g.intn(0, 19, "finale")
	switch {
	case k < 7:
		// none
	case k == 7: // endless loop, stack-neutral: ends by gas
		l := g.newLabel()
		g.lbl(l)
		g.op(opcode.PUSH1)
		g.op(opcode.DROP)
		g.emit(ins{op: opcode.JMP, l1: l, long: g.jumpForm()})
		g.finaleGas = int64([]int{300, 3000, 30000, 200000}[g.intn(0, 3, "loopgas")])
		g.hint("endless-loop")
		g.dead = true
	case k == 8: // endless growth: ends by the item limit (or gas)
		l := g.newLabel()
		var target ref
		var haveT bool
		if g.chance(60, "growarr") {
			target, haveT = g.pickRef(isArrLike, "growtarget")
		}
		g.lbl(l)
		if haveT {
			g.fetch(target)
			g.pushValue(nil)
			g.op(opcode.APPEND)
		} else {
			switch g.intn(0, 3, "growkind") {
			case 0:
				g.op(opcode.PUSH1)
			case 1:
				g.op(opcode.NEWMAP)
			case 2:
				g.pushInt(int64(g.intn(1, 40, "chunk")))
				g.op(opcode.NEWARRAY)
			default:
				g.op(opcode.DEPTH)
				g.op(opcode.DUP)
			}
		}
		g.emit(ins{op: opcode.JMP, l1: l, long: g.jumpForm()})
		g.finaleGas = 1 << 30
		g.hint("endless-growth")
		g.dead = true
	case k == 9: // unbounded recursion: ends by the invocation limit (or items, or gas)
		f, fret := g.newLabel(), g.newLabel()
		g.emit(ins{op: opcode.CALL, l1: f, long: g.jumpForm()})
		g.raw(ins{op: opcode.RET})
		g.lbl(f)
		switch g.intn(0, 3, "reckind") {
		case 0:
		case 1:
			g.raw(ins{op: opcode.PUSH1})
		case 2:
			g.raw(ins{op: opcode.INITSLOT, arg: []byte{byte(g.intn(1, 3, "recloc")), 0}})
		default:
			g.raw(ins{op: opcode.TRY, l1: fret, l2: 0})
		}
		g.raw(ins{op: opcode.CALL, l1: f})
		g.lbl(fret)
		g.raw(ins{op: opcode.RET})
		g.finaleGas = 1 << 30
		g.hint("unbounded-recursion")
		g.dead = true
	case k == 10: // bounded recursion of chosen depth around the 1024 limit
		d := []int{3, 40, 1000, 1021, 1022, 1023, 1024, 1100}[g.intn(0, 7, "recdepth")]
		f, end := g.newLabel(), g.newLabel()
		g.pushInt(int64(d))
		g.emit(ins{op: opcode.CALL, l1: f})
		g.raw(ins{op: opcode.DROP})
		g.raw(ins{op: opcode.RET})
		g.lbl(f)
		g.raw(ins{op: opcode.DUP})
		g.raw(ins{op: opcode.JMPIFNOT, l1: end})
		g.raw(ins{op: opcode.DEC})
		g.raw(ins{op: opcode.CALL, l1: f})
		g.lbl(end)
		g.raw(ins{op: opcode.RET})
		g.finaleGas = 1 << 30
		g.hint("deep-recursion")
		g.dead = true
	case k == 11: // nested TRY blocks around the limit of 16
		d := []int{2, 15, 16, 17, 20}[g.intn(0, 4, "trydepth")]
		lc := g.newLabel()
		for j := 0; j < d; j++ {
			g.raw(ins{op: opcode.TRY, l1: lc, long: j%5 == 4})
		}
		g.raw(ins{op: opcode.PUSH1})
		if g.chance(50, "innerthrow") {
			g.raw(ins{op: opcode.THROW})
		}
		for j := 0; j < d; j++ {
			n := g.newLabel()
			g.raw(ins{op: opcode.ENDTRY, l1: n})
			g.lbl(n)
		}
		g.raw(ins{op: opcode.RET})
		g.lbl(lc)
		g.raw(ins{op: opcode.DROP})
		g.raw(ins{op: opcode.RET})
		g.finaleGas = 1 << 30
		g.hint("nested-try")
		g.dead = true
	case k == 12: // buffer doubling up to / beyond the maximum item size
		start := []int{1, 2, 3, 15, 255}[g.intn(0, 4, "dblstart")]
		g.pushData(bytes.Repeat([]byte{0xab}, start))
		n := g.intn(10, 18, "doublings")
		for j := 0; j < n && !g.stopped(); j++ {
			g.op(opcode.DUP)
			g.op(opcode.CAT)
		}
		g.hint("buffer-doubling")
	case k == 13: // exact fit of the maximum item size, then one byte more
		g.pushData(bytes.Repeat([]byte{0x11}, 65535))
		g.op(opcode.DUP)
		g.op(opcode.CAT)
		if g.chance(60, "onemore") {
			g.pushData([]byte{1})
			g.op(opcode.CAT)
		}
		g.hint("maxsize-exact")
	case k == 14: // integer overflow
		switch g.intn(0, 4, "ovf") {
		case 0:
			g.pushInt(int64(g.intn(2, 1000, "sq")))
			for j := 0; j < 9 && !g.stopped(); j++ {
				g.op(opcode.DUP)
				g.op(opcode.MUL)
			}
		case 1:
			g.emit(ins{op: opcode.PUSHINT256, arg: twosLE(int256Max, 32)})
			g.op([]opcode.Opcode{opcode.INC, opcode.DUP, opcode.NEGATE}[g.intn(0, 2, "maxop")])
			if !g.stopped() {
				g.op(opcode.ADD)
			}
		case 2:
			g.emit(ins{op: opcode.PUSHINT256, arg: twosLE(int256Min, 32)})
			g.op([]opcode.Opcode{opcode.DEC, opcode.NEGATE, opcode.ABS, opcode.INVERT}[g.intn(0, 3, "minop")])
		case 3:
			g.emit(ins{op: opcode.PUSHINT256, arg: twosLE(int256Min, 32)})
			g.op(opcode.PUSHM1)
			g.op([]opcode.Opcode{opcode.MUL, opcode.DIV, opcode.MOD}[g.intn(0, 2, "minm1")])
		default:
			g.pushInt(1)
			g.pushInt(int64(g.intn(250, 256, "shl")))
			g.op(opcode.SHL)
			if !g.stopped() {
				g.op(opcode.DUP)
				g.op(opcode.ADD)
			}
		}
		g.hint("int-overflow")
	case k == 15: // item count right at the limit
		room := limitItems - g.m.count()
		if room > 3 {
			n := room - 1 - g.intn(0, 2, "slack") // NEWARRAY n counts n+1
			if n >= 0 {
				g.pushInt(int64(n))
				g.op([]opcode.Opcode{opcode.NEWARRAY, opcode.NEWSTRUCT}[g.intn(0, 1, "atlimit")])
				for j := g.intn(0, 4, "pushes"); j > 0 && !g.stopped(); j-- {
					g.op(opcode.DUP)
				}
				if !g.stopped() && g.chance(50, "unpackbig") {
					g.op(opcode.UNPACK)
				}
			}
		}
		g.hint("item-limit-exact")
	case k == 16: // many slots per frame in a recursion
		f := g.newLabel()
		g.emit(ins{op: opcode.CALL, l1: f})
		g.raw(ins{op: opcode.RET})
		g.lbl(f)
		g.raw(ins{op: opcode.INITSLOT, arg: []byte{byte(g.intn(1, 255, "manyloc")), 0}})
		g.raw(ins{op: opcode.CALL, l1: f})
		g.raw(ins{op: opcode.RET})
		g.finaleGas = 1 << 30
		g.hint("slots-recursion")
		g.dead = true
	default:
		g.op(opcode.RET)
	}
}

// ---- the Case generators -------------------------------------------------------------------------------------------

// lastPrediction is a debugging aid (TestShow): what the model expected of the last generated script.
var lastPrediction struct {
	dead, pending, lost bool
	stack, count        int
}

func genAwareScript(t *rapid.T) (script []byte, gasUnits int64, finaleGas int64, hints map[string]bool) {
	g := &gen{t: t, m: newModel(), hints: map[string]bool{}}
	g.code = &g.main
	g.rec = nil
	if g.chance(70, "prologue") {
		g.actInitSlots()
	}
	g.body(g.intn(3, 28, "bodylen"))
	g.finale()
	if g.pending {
		g.hint("uncaught")
	}
	lastPrediction.dead, lastPrediction.pending, lastPrediction.lost = g.dead, g.pending, g.m.lost
	{
		fr, st := g.m.frames, g.m.statics
		g.m.frames, g.m.statics = nil, nil // at HALT every slot has been released
		lastPrediction.stack, lastPrediction.count = len(g.m.st), g.m.count()
		g.m.frames, g.m.statics = fr, st
	}
	// always an explicit RET: a label placed at the very end would otherwise be a jump target past the last instruction
	code := append(g.main, ins{op: opcode.RET})
	if len(g.funcs) > 0 {
		for _, f := range g.funcs {
			code = append(code, f.code...)
		}
	}
	if g.m.cyclic {
		g.hint("cycle-built")
	}
	return assemble(code), g.m.gas, g.finaleGas, g.hints
}

var baseFees = []int64{defaultBaseFee, defaultBaseFee, defaultBaseFee, defaultBaseFee, vm.ExecFeeFactorMultiplier, 12345, 1000 * vm.ExecFeeFactorMultiplier, 7}

func datoshiFor(units, base int64) int64 {
	pico := units * base
	return (pico + vm.ExecFeeFactorMultiplier - 1) / vm.ExecFeeFactorMultiplier
}

// drawGas chooses the gas limit around what the model thinks the script needs.
func drawGas(t *rapid.T, units, finaleUnits, base int64) int64 {
	exact := datoshiFor(units, base)
	if finaleUnits > 0 {
		if finaleUnits >= 1<<30 { // "until a limit stops it": enough for the deepest pattern, still bounded
			finaleUnits = []int64{3_000, 60_000, 700_000, 700_000}[rapid.IntRange(0, 3).Draw(t, "bigfinale")]
		}
		return exact + datoshiFor(finaleUnits, base)
	}
	switch rapid.IntRange(0, 19).Draw(t, "gasclass") {
	case 0:
		return exact
	case 1:
		if exact > 0 {
			return exact - 1
		}
		return 0
	case 2:
		return exact + 1
	case 3:
		return rapid.Int64Range(0, exact).Draw(t, "gaspart")
	case 4:
		return rapid.Int64Range(0, 200).Draw(t, "gastiny")
	case 5:
		return exact + datoshiFor(int64(rapid.IntRange(1, 600).Draw(t, "gasextra")), base)
	default:
		return exact*2 + datoshiFor(100_000, base)
	}
}

func hintString(h map[string]bool) string {
	// one representative hint (stable order of preference) keeps the label space small
	for _, k := range []string{"uncaught", "endless-loop", "endless-growth", "unbounded-recursion", "deep-recursion", "nested-try", "slots-recursion",
		"buffer-doubling", "maxsize-exact", "int-overflow", "item-limit-exact", "pushdata-too-big", "huge-length", "big-newarray",
		"finally-with-exception", "throw-across-call", "caught", "fn-reused", "loop", "try", "cycle", "junk"} {
		if h[k] {
			return k
		}
	}
	return ""
}

// KnownCalleeStackLeak: see known_findings.json.
const KnownCalleeStackLeak = "items-on-stack-of-frame-unloaded-by-exception-stay-counted"

func genAware(t *rapid.T) Case {
	script, units, fin, hints := genAwareScript(t)
	base := rapid.SampledFrom(baseFees).Draw(t, "basefee")
	c := Case{Kind: "aware", Script: script, BaseFee: base, Hint: hintString(hints)}
	c.GasLimit = drawGas(t, units, fin, base)
	if rapid.IntRange(0, 9).Draw(t, "below") == 0 {
		// a second script underneath, sharing the evaluation stack (what a verification script is to an invocation script)
		c.Below = vt.Bytes(genBelow(t))
		c.GasLimit += datoshiFor(2000, base)
	}
	if rapid.IntRange(0, 4).Draw(t, "dyn") == 0 {
		// Frames with an evaluation stack of their own: 1-3 scripts loaded through the harness's system call from a
		// TRY block; each builds a few items and either returns (its stack is handed to the caller, which clears
		// it) or throws with the items still on its stack, possibly from a nested CALL frame.
		var pro []byte
		exclDyn := false
		for k := rapid.IntRange(1, 3).Draw(t, "ndyn"); k > 0; k-- {
			callee := genBelow(t)
			if len(callee) > 200 {
				callee = callee[:0]
			}
			end := rapid.IntRange(0, 2).Draw(t, "dyn_end")
			if end < 2 && vt.Known(KnownCalleeStackLeak) {
				// listed finding: items left on the stack of a frame unloaded by an exception stay counted; the
				// throwing script empties its stack first while the finding is listed
				callee = append(callee, byte(opcode.CLEAR))
				exclDyn = true
			}
			switch end {
			case 0:
				callee = append(callee, byte(opcode.PUSH0), byte(opcode.THROW))
			case 1: // throw from a CALL frame of the loaded script: CALL +3; RET; PUSH1 PUSH2 PUSH0 THROW
				if vt.Known(KnownCalleeStackLeak) {
					callee = append(callee, byte(opcode.CALL), 3, byte(opcode.RET), byte(opcode.PUSH0), byte(opcode.THROW))
				} else {
					callee = append(callee, byte(opcode.CALL), 3, byte(opcode.RET), byte(opcode.PUSH1), byte(opcode.PUSH2), byte(opcode.PUSH0), byte(opcode.THROW))
				}
			}
			// (a script loaded over an EMPTY evaluation stack shares it with its caller: an item is left below)
			body := []byte{byte(opcode.PUSH5), byte(opcode.PUSHDATA1), byte(len(callee))}
			body = append(body, callee...)
			body = append(body, byte(opcode.SYSCALL), byte(LoadSyscallID&0xff), byte(LoadSyscallID>>8&0xff), byte(LoadSyscallID>>16&0xff), byte(LoadSyscallID>>24&0xff))
			body = append(body, byte(opcode.CLEAR))
			// TRY catch finally | body | ENDTRY end | catch: CLEAR ENDTRY end | end:
			blk := []byte{byte(opcode.TRY), byte(3 + len(body) + 2), 0}
			blk = append(blk, body...)
			blk = append(blk, byte(opcode.ENDTRY), 2+1+2)
			blk = append(blk, byte(opcode.CLEAR), byte(opcode.ENDTRY), 2)
			pro = append(pro, blk...)
		}
		if exclDyn {
			c.Hint += " excl:" + KnownCalleeStackLeak
		}
		c.Script = append(vt.Bytes(pro), c.Script...)
		c.GasLimit += datoshiFor(40000, base)
	}
	if rapid.IntRange(0, 5).Draw(t, "prev") == 0 {
		// The VM object ran another script before (and was Reset): that one ends with an uncaught THROW half of the
		// time, leaving whatever it built in slots, on its stacks and in nested frames.
		ps, _, _, _ := genAwareScript(t)
		if rapid.Bool().Draw(t, "prev_throws") {
			ps = append(append([]byte{}, ps...), byte(opcode.PUSH0), byte(opcode.THROW))
		}
		c.Prev = vt.Bytes(ps)
	}
	return c
}

func genBelow(t *rapid.T) []byte {
	g := &gen{t: t, m: newModel(), hints: map[string]bool{}}
	g.code = &g.main
	// The stack content left by the first script is unknown to this model: only self-contained actions.
	if g.chance(50, "bprologue") {
		g.actInitSlots()
	}
	for j := g.intn(1, 8, "blen"); j > 0 && !g.stopped(); j-- {
		switch g.intn(0, 5, "bact") {
		case 0:
			g.pushPrim()
		case 1:
			g.actNewCompound()
		case 2:
			g.actAppend()
		case 3:
			g.actStore()
		case 4:
			g.raw(ins{op: opcode.DEPTH})
			g.raw(ins{op: opcode.PACK})
			g.dead = true
		default:
			g.actSetItem()
		}
	}
	return assemble(g.main)
}
