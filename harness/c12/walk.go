package c12

import (
	"fmt"
	"math/big"
	"unsafe"

	"github.com/nspcc-dev/neo-go/pkg/vm"
	"github.com/nspcc-dev/neo-go/pkg/vm/stackitem"
)

// walker computes the true item count of a VM state by walking it.
//
// Count definition (the property's "items on the stacks, in slots and reachable from them", made precise in the unit
// the VM itself uses, see pkg/vm/ref_counter.go): every element of every distinct evaluation stack counts 1, every
// cell of every distinct static/local/argument slot counts 1 (an empty cell is a Null and counts too, see Slot.init),
// and every distinct compound (array/struct/map identity) reachable from those contributes one per element it holds
// (a map: one per key and one per value), once per compound identity no matter how many references lead to it.
type walker struct {
	color map[unsafe.Pointer]uint8 // 1 = on the current DFS path, 2 = finished
	count int
	cycle bool // a compound reachable from itself was met
	bad   string

	target unsafe.Pointer // optional: count references leading to this compound
	indeg  int

	compounds int
	depthMax  int
}

func newWalker() *walker { return &walker{color: map[unsafe.Pointer]uint8{}} }

func (w *walker) reset() {
	clear(w.color)
	w.count, w.cycle, w.bad, w.indeg, w.compounds, w.depthMax = 0, false, "", 0, 0, 0
}

var (
	int256Max = new(big.Int).Sub(new(big.Int).Lsh(big.NewInt(1), 255), big.NewInt(1))
	int256Min = new(big.Int).Neg(new(big.Int).Lsh(big.NewInt(1), 255))
)

func fitsInt256(x *big.Int) bool {
	return x.Cmp(int256Min) >= 0 && x.Cmp(int256Max) <= 0
}

func (w *walker) root(it stackitem.Item) {
	w.count++
	w.visit(it, 1)
}

func (w *walker) fail(f string, a ...any) {
	if w.bad == "" {
		w.bad = fmt.Sprintf(f, a...)
	}
}

func (w *walker) enter(p unsafe.Pointer) bool {
	if p == w.target {
		w.indeg++
	}
	switch w.color[p] {
	case 1:
		w.cycle = true
		return false
	case 2:
		return false
	}
	w.color[p] = 1
	w.compounds++
	return true
}

func (w *walker) visit(it stackitem.Item, depth int) {
	switch t := it.(type) {
	case nil:
	case *stackitem.BigInteger:
		if !fitsInt256(t.Big()) {
			w.fail("reachable Integer does not fit 256-bit two's complement: bit length %d, sign %d", t.Big().BitLen(), t.Big().Sign())
		}
	case *stackitem.ByteArray:
		if len(*t) > stackitem.MaxSize {
			w.fail("reachable ByteString of %d bytes exceeds the maximum item size %d", len(*t), stackitem.MaxSize)
		}
	case *stackitem.Buffer:
		if len(*t) > stackitem.MaxSize {
			w.fail("reachable Buffer of %d bytes exceeds the maximum item size %d", len(*t), stackitem.MaxSize)
		}
	case *stackitem.Array:
		p := unsafe.Pointer(t)
		if w.enter(p) {
			w.children(t.Value().([]stackitem.Item), depth)
			w.color[p] = 2
		}
	case *stackitem.Struct:
		p := unsafe.Pointer(t)
		if w.enter(p) {
			w.children(t.Value().([]stackitem.Item), depth)
			w.color[p] = 2
		}
	case *stackitem.Map:
		p := unsafe.Pointer(t)
		if w.enter(p) {
			if depth > w.depthMax {
				w.depthMax = depth
			}
			elems := t.Value().([]stackitem.MapElement)
			w.count += 2 * len(elems)
			for i := range elems {
				w.visit(elems[i].Key, depth+1)
				w.visit(elems[i].Value, depth+1)
			}
			w.color[p] = 2
		}
	default:
		// Bool, Null, Pointer, Interop: one item, nothing to check inside.
	}
}

func (w *walker) children(items []stackitem.Item, depth int) {
	if depth > w.depthMax {
		w.depthMax = depth
	}
	w.count += len(items)
	for _, c := range items {
		w.visit(c, depth+1)
	}
}

// walkVM walks every distinct evaluation stack and slot of the VM.
func (w *walker) walkVM(v *vm.VM) {
	w.reset()
	var stacks [4]*vm.Stack
	ns := 0
	var extraStacks map[*vm.Stack]struct{}
	doStack := func(s *vm.Stack) {
		if s == nil {
			return
		}
		for i := 0; i < ns; i++ {
			if stacks[i] == s {
				return
			}
		}
		if ns < len(stacks) {
			stacks[ns] = s
			ns++
		} else {
			if extraStacks == nil {
				extraStacks = map[*vm.Stack]struct{}{}
			}
			if _, ok := extraStacks[s]; ok {
				return
			}
			extraStacks[s] = struct{}{}
		}
		s.IterBack(func(e vm.Element) { w.root(e.Item()) })
	}
	var statics [4]*vm.Slot
	nst := 0
	var extraStatics map[*vm.Slot]struct{}
	doStatic := func(s *vm.Slot) {
		for i := 0; i < nst; i++ {
			if statics[i] == s {
				return
			}
		}
		if nst < len(statics) {
			statics[nst] = s
			nst++
		} else {
			if extraStatics == nil {
				extraStatics = map[*vm.Slot]struct{}{}
			}
			if _, ok := extraStatics[s]; ok {
				return
			}
			extraStatics[s] = struct{}{}
		}
		for _, it := range *s {
			w.root(it)
		}
	}
	doStack(v.Estack())
	for _, c := range v.Istack() {
		doStack(c.Estack())
		doStatic(c.StaticsSlot())
		for _, it := range *c.LocalsSlot() {
			w.root(it)
		}
		for _, it := range *c.ArgumentsSlot() {
			w.root(it)
		}
	}
}

// reachesItself reports whether compound c is reachable from its own elements (a cycle through c).
func reachesItself(c stackitem.Item) bool {
	p := compoundPtr(c)
	if p == nil {
		return false
	}
	return elementsReach(c, p)
}

// reaches reports whether the compound with identity p is `from` itself or reachable from it.
func itemReaches(from stackitem.Item, p unsafe.Pointer) bool {
	if q := compoundPtr(from); q == nil {
		return false
	} else if q == p {
		return true
	}
	return elementsReach(from, p)
}

func elementsReach(c stackitem.Item, p unsafe.Pointer) bool {
	seen := map[unsafe.Pointer]struct{}{}
	var rec func(it stackitem.Item) bool
	each := func(it stackitem.Item, f func(stackitem.Item) bool) bool {
		switch t := it.(type) {
		case *stackitem.Array:
			for _, x := range t.Value().([]stackitem.Item) {
				if f(x) {
					return true
				}
			}
		case *stackitem.Struct:
			for _, x := range t.Value().([]stackitem.Item) {
				if f(x) {
					return true
				}
			}
		case *stackitem.Map:
			for _, e := range t.Value().([]stackitem.MapElement) {
				if f(e.Value) {
					return true
				}
			}
		}
		return false
	}
	rec = func(it stackitem.Item) bool {
		q := compoundPtr(it)
		if q == nil {
			return false
		}
		if q == p {
			return true
		}
		if _, ok := seen[q]; ok {
			return false
		}
		seen[q] = struct{}{}
		return each(it, rec)
	}
	return each(c, rec)
}

func compoundPtr(it stackitem.Item) unsafe.Pointer {
	switch t := it.(type) {
	case *stackitem.Array:
		return unsafe.Pointer(t)
	case *stackitem.Struct:
		return unsafe.Pointer(t)
	case *stackitem.Map:
		return unsafe.Pointer(t)
	}
	return nil
}
