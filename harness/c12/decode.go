package c12

import "encoding/binary"

// Independent instruction decoder: operand layout of every NeoVM opcode, written from the NeoVM
// instruction set specification (it does not call scparser / opcode). Used to compute the set of instruction
// boundaries of a script and by the byte-level mutators.

// Operand layout kinds.
const (
	opInvalid int8 = -1
	// >= 0: fixed operand size in bytes.
	opData1 int8 = -2 // 1-byte length prefix + data
	opData2 int8 = -3 // 2-byte length prefix + data
	opData4 int8 = -4 // 4-byte length prefix + data
)

// maxItemSize is the NeoVM limit on a single item (MaxSize = 65535*2), restated here so that the decoder
// does not depend on the implementation's constant. The monitor separately compares against stackitem.MaxSize.
const maxItemSize = 65535 * 2

var operandLayout = func() [256]int8 {
	var t [256]int8
	for i := range t {
		t[i] = opInvalid
	}
	set := func(from, to int, v int8) {
		for i := from; i <= to; i++ {
			t[i] = v
		}
	}
	// Constants.
	t[0x00], t[0x01], t[0x02], t[0x03], t[0x04], t[0x05] = 1, 2, 4, 8, 16, 32 // PUSHINT8..PUSHINT256
	t[0x08], t[0x09] = 0, 0                                                   // PUSHT PUSHF
	t[0x0A] = 4                                                               // PUSHA
	t[0x0B] = 0                                                               // PUSHNULL
	t[0x0C], t[0x0D], t[0x0E] = opData1, opData2, opData4                     // PUSHDATA1/2/4
	set(0x0F, 0x20, 0)                                                        // PUSHM1, PUSH0..PUSH16
	// Flow control.
	t[0x21] = 0 // NOP
	for op := 0x22; op <= 0x33; op++ {
		if op%2 == 0 {
			t[op] = 1 // JMP, JMPIF, ... short forms
		} else {
			t[op] = 4 // long forms
		}
	}
	t[0x34], t[0x35], t[0x36], t[0x37] = 1, 4, 0, 2 // CALL CALL_L CALLA CALLT
	t[0x38], t[0x39], t[0x3A] = 0, 0, 0             // ABORT ASSERT THROW
	t[0x3B], t[0x3C] = 2, 8                         // TRY TRY_L
	t[0x3D], t[0x3E] = 1, 4                         // ENDTRY ENDTRY_L
	t[0x3F], t[0x40] = 0, 0                         // ENDFINALLY RET
	t[0x41] = 4                                     // SYSCALL
	// Stack.
	for _, op := range []int{0x43, 0x45, 0x46, 0x48, 0x49, 0x4A, 0x4B, 0x4D, 0x4E, 0x50, 0x51, 0x52, 0x53, 0x54, 0x55} {
		t[op] = 0
	}
	// Slots.
	t[0x56], t[0x57] = 1, 2                     // INITSSLOT INITSLOT
	for base := 0x58; base <= 0x80; base += 8 { // LDSFLD STSFLD LDLOC STLOC LDARG STARG
		set(base, base+6, 0)
		t[base+7] = 1
	}
	// Splice.
	t[0x88], t[0x89], t[0x8B], t[0x8C], t[0x8D], t[0x8E] = 0, 0, 0, 0, 0, 0
	// Bitwise, arithmetic, comparison.
	set(0x90, 0x93, 0)
	t[0x97], t[0x98] = 0, 0
	set(0x99, 0xA6, 0)
	set(0xA8, 0xAC, 0)
	t[0xB1] = 0
	set(0xB3, 0xBB, 0)
	// Compound types.
	set(0xBE, 0xC3, 0)
	t[0xC4] = 1 // NEWARRAY_T
	t[0xC5], t[0xC6], t[0xC8] = 0, 0, 0
	set(0xCA, 0xD4, 0)
	// Types.
	t[0xD8] = 0
	t[0xD9], t[0xDB] = 1, 1 // ISTYPE CONVERT
	// Extensions.
	t[0xE0], t[0xE1] = 0, 0 // ABORTMSG ASSERTMSG
	return t
}()

// instrLen returns the total length of the instruction starting at script[pos], or 0 if it cannot be decoded
// (invalid opcode, truncated operand, oversized PUSHDATA4).
func instrLen(script []byte, pos int) int {
	lay := operandLayout[script[pos]]
	rest := len(script) - pos - 1
	switch {
	case lay == opInvalid:
		return 0
	case lay >= 0:
		if rest < int(lay) {
			return 0
		}
		return 1 + int(lay)
	}
	var pfx, n int
	switch lay {
	case opData1:
		pfx = 1
		if rest < 1 {
			return 0
		}
		n = int(script[pos+1])
	case opData2:
		pfx = 2
		if rest < 2 {
			return 0
		}
		n = int(binary.LittleEndian.Uint16(script[pos+1:]))
	case opData4:
		pfx = 4
		if rest < 4 {
			return 0
		}
		u := binary.LittleEndian.Uint32(script[pos+1:])
		if u > maxItemSize {
			return 0
		}
		n = int(u)
	}
	if rest < pfx+n {
		return 0
	}
	return 1 + pfx + n
}

// boundaries decodes the script linearly from offset 0. ok is false when the linear decoding fails before the end.
// starts[i] is true iff an instruction starts at offset i (for the decoded prefix).
func boundaries(script []byte) (starts []bool, ok bool) {
	starts = make([]bool, len(script)+1)
	pos := 0
	for pos < len(script) {
		starts[pos] = true
		l := instrLen(script, pos)
		if l == 0 {
			return starts, false
		}
		pos += l
	}
	starts[len(script)] = true // falling off the end is the implicit RET
	return starts, true
}
