package c12

import (
	"testing"

	"github.com/nspcc-dev/neo-go/pkg/vm/opcode"
	"pgregory.net/rapid"
)

// FuzzVM is the coverage-guided byte-level target (thorough tier only): the same monitor as TestProp on arbitrary bytes.
// Seeds are added in code: hand-written scripts that reach each limit and a few instruction-aware generated scripts
// (rapid's Example(seed) is deterministic).
func FuzzVM(f *testing.F) {
	hand := [][]byte{
		prog(opcode.PUSH1, opcode.PUSH10, opcode.ADD),
		prog(opcode.PUSH2, opcode.NEWARRAY, opcode.DUP, opcode.PUSH0, opcode.PUSH1, opcode.SETITEM, opcode.VALUES),
		prog(opcode.INITSSLOT, 1, opcode.NEWARRAY0, opcode.DUP, opcode.STSFLD0, opcode.DUP, opcode.APPEND, opcode.PUSHNULL, opcode.STSFLD0),
		prog(opcode.PUSH1, opcode.JMP, 0xff),
		prog(opcode.CALL, 0),
		prog(opcode.TRY, 5, 0, opcode.NEWARRAY0, opcode.THROW, opcode.DUP, opcode.DUP, opcode.APPEND, opcode.ENDTRY, 2, opcode.RET),
		prog(opcode.TRY, 0, 6, opcode.TRY, 0, 4, opcode.PUSH1, opcode.THROW, opcode.ENDFINALLY, opcode.ENDFINALLY),
		prog(opcode.NEWMAP, opcode.DUP, opcode.PUSH1, opcode.OVER, opcode.SETITEM, opcode.DUP, opcode.PUSH1, opcode.REMOVE, opcode.CLEARITEMS),
		prog(opcode.PUSH3, opcode.NEWSTRUCT, opcode.DUP, opcode.DUP, opcode.PUSH0, opcode.OVER, opcode.SETITEM, opcode.POPITEM, opcode.UNPACK),
		prog(opcode.PUSHDATA1, 2, 0xab, 0xcd, opcode.DUP, opcode.CAT, opcode.DUP, opcode.CAT, opcode.PUSH0, opcode.PUSH2, opcode.SUBSTR),
		prog(opcode.PUSHINT256, make([]byte, 31), 0x7f, opcode.INC),
		prog(opcode.CALL, 3, opcode.ASSERT, opcode.CALL, 3, opcode.ASSERT, opcode.DEPTH, opcode.PACKSTRUCT, opcode.DUP, opcode.UNPACK, opcode.PACKSTRUCT, opcode.POPITEM, opcode.DEPTH),
	}
	for i, s := range hand {
		f.Add(FuzzInput(byte(4+i%2), 0, s))
	}
	aware := rapid.Custom(genAware)
	for i := 0; i < 24; i++ {
		c := aware.Example(i + 1)
		if len(c.Script) > 600 {
			continue
		}
		f.Add(FuzzInput(byte(3+i%3), byte(i%len(fuzzBase)), c.Script))
	}
	f.Fuzz(func(t *testing.T, data []byte) {
		if len(data) > 1<<16 {
			return
		}
		c := FuzzCase(data)
		if _, err := monitor(c, 30_000, 1_500_000); err != nil {
			t.Fatalf("C12 violation: %v\nFUZZ-CASE %s", err, ReplayEnvelope(c, err.Error()))
		}
	})
}
