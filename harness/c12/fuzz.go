package c12

import (
	"encoding/json"

	"github.com/nspcc-dev/neo-go/pkg/vm"
)

// Byte-level fuzz input layout: data[0] selects the gas limit, data[1] the base fee, the rest is the script.
var (
	fuzzGas  = []int64{0, 30, 1_000, 30_000, 300_000, 3_000_000, 600_000, 90}
	fuzzBase = []int64{defaultBaseFee, defaultBaseFee, defaultBaseFee, vm.ExecFeeFactorMultiplier, 12345, 7, 1000 * vm.ExecFeeFactorMultiplier, defaultBaseFee}
)

// FuzzCase converts a fuzz input into a Case (replayable by TestReplay as check "aware").
func FuzzCase(data []byte) Case {
	c := Case{Kind: "fuzz", BaseFee: defaultBaseFee, GasLimit: 1_000_000}
	if len(data) < 2 {
		c.Script = append([]byte{}, data...)
		return c
	}
	c.BaseFee = fuzzBase[int(data[1])%len(fuzzBase)]
	c.GasLimit = fuzzGas[int(data[0])%len(fuzzGas)] * c.BaseFee / defaultBaseFee
	c.Script = append([]byte{}, data[2:]...)
	return c
}

// FuzzInput is the inverse of FuzzCase for seeding.
func FuzzInput(gasSel, baseSel byte, script []byte) []byte {
	return append([]byte{gasSel, baseSel}, script...)
}

// ReplayEnvelope renders the case in the on-disk format of vt replays.
func ReplayEnvelope(c Case, cause string) string {
	raw, _ := json.Marshal(c)
	b, _ := json.Marshal(struct {
		Property string          `json:"property"`
		Check    string          `json:"check"`
		Error    string          `json:"error,omitempty"`
		Case     json.RawMessage `json:"case"`
	}{"C12", "aware", cause, raw})
	return string(b)
}
