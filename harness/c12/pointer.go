package c12

import (
	"encoding/binary"

	"github.com/nspcc-dev/neo-go/pkg/vm/opcode"
	"pgregory.net/rapid"
	"verifharness/vt"
)

// Pointers across frames. A deployed contract is loaded under its CONTRACT hash (LoadScriptWithHash / LoadNEFMethod),
// not under the hash of its script, and ContractManagement.update replaces the script while the hash stays. A Pointer
// (PUSHA) made by one script can travel to another frame (return value, argument of System.Contract.Call, static slot
// of a re-entered contract) and be used by CALLA there. The clause "a script that passes the static script check never
// executes an offset that is not an instruction boundary" has to hold for every script loaded, so a Pointer must not
// carry an offset of script A into script B.
//
// LoadHashSyscallID is the harness's second script-loading system call: it pops the script, a 20-byte hash and one
// argument, loads the script under THAT hash with an evaluation stack of its own (exactly one return value expected,
// as System.Contract.Call does) and pushes the argument onto the new stack.
const LoadHashSyscallID = 0x76657270

func sysc(id uint32) []byte {
	b := []byte{byte(opcode.SYSCALL), 0, 0, 0, 0}
	binary.LittleEndian.PutUint32(b[1:], id)
	return b
}

func pushBytes(dst, b []byte) []byte {
	if len(b) < 256 {
		dst = append(dst, byte(opcode.PUSHDATA1), byte(len(b)))
	} else {
		dst = append(dst, byte(opcode.PUSHDATA2), byte(len(b)), byte(len(b)>>8))
	}
	return append(dst, b...)
}

// genUserScript: the script that receives the Pointer as its only stack item and calls through it. It is built from
// whole instructions (so it passes the static check); operands of PUSHDATA1 / PUSHINT are filled with bytes that are
// executable instructions themselves, so that landing inside an operand does not fault at once.
func genUserScript(t *rapid.T) []byte {
	s := []byte{byte(opcode.CALLA), byte(opcode.RET)}
	if rapid.Bool().Draw(t, "user_nop") {
		s = append([]byte{byte(opcode.NOP)}, s...)
	}
	for k := rapid.IntRange(1, 6).Draw(t, "user_parts"); k > 0; k-- {
		switch rapid.IntRange(0, 4).Draw(t, "user_part") {
		case 0: // PUSHDATA1 with an executable operand: PUSHn ... RET
			n := rapid.IntRange(1, 6).Draw(t, "opnd_len")
			opnd := make([]byte, 0, n+1)
			for i := 0; i < n-1; i++ {
				opnd = append(opnd, byte(rapid.SampledFrom([]opcode.Opcode{opcode.NOP, opcode.PUSH7, opcode.DROP, opcode.PUSH1, opcode.NOP}).Draw(t, "opnd_op")))
			}
			opnd = append(opnd, byte(opcode.PUSH3), byte(opcode.RET))
			s = append(s, byte(opcode.PUSHDATA1), byte(len(opnd)))
			s = append(s, opnd...)
			s = append(s, byte(opcode.DROP))
		case 1: // PUSHINT32 whose operand reads PUSH2 RET NOP NOP
			s = append(s, byte(opcode.PUSHINT32), byte(opcode.PUSH2), byte(opcode.RET), byte(opcode.NOP), byte(opcode.NOP), byte(opcode.DROP))
		case 2: // a function proper: PUSH9 RET
			s = append(s, byte(opcode.PUSH9), byte(opcode.RET))
		case 3:
			s = append(s, byte(opcode.NOP))
		default: // JMP over a short data island
			s = append(s, byte(opcode.JMP), 4, byte(opcode.PUSH4), byte(opcode.RET))
		}
	}
	return append(s, byte(opcode.PUSH8), byte(opcode.RET))
}

// genPointer: main script = load maker under hash H1 (it returns a Pointer into itself), then load user under hash H2
// with that Pointer as argument. H1 == H2 in most cases (the contract was updated in between, or it is the same
// version when the two scripts are the same bytes).
func genPointer(t *rapid.T) Case {
	user := genUserScript(t)
	same := rapid.IntRange(0, 5).Draw(t, "same_script") == 0
	off := rapid.IntRange(0, len(user)).Draw(t, "ptr_off")
	var maker []byte
	if same {
		// one version only: the script makes the pointer when its argument is Null, uses it otherwise:
		// DUP ISNULL JMPIFNOT +6 DROP PUSHA <off> RET | user...
		pre := []byte{byte(opcode.DUP), byte(opcode.ISNULL), byte(opcode.JMPIFNOT), 9, byte(opcode.DROP), byte(opcode.PUSHA), 0, 0, 0, 0, byte(opcode.RET)}
		off = rapid.IntRange(0, len(user)).Draw(t, "ptr_off_same") + len(pre) - 5 // relative to the PUSHA instruction
		binary.LittleEndian.PutUint32(pre[6:], uint32(int32(off)))
		maker = append(pre, user...)
		user = maker
	} else {
		// PUSHA off (relative to offset 1); DROP of the argument first
		maker = []byte{byte(opcode.DROP), byte(opcode.PUSHA), 0, 0, 0, 0, byte(opcode.RET)}
		binary.LittleEndian.PutUint32(maker[2:], uint32(int32(off-1)))
		// the target has to lie inside the maker itself: pad it with NOPs + RET up to the length needed
		for len(maker) < off+1 {
			maker = append(maker, byte(opcode.NOP))
		}
		maker = append(maker, byte(opcode.PUSH6), byte(opcode.RET))
	}
	h1 := make([]byte, 20)
	h1[0] = 0xc1
	h2 := make([]byte, 20)
	h2[0] = 0xc1
	if rapid.IntRange(0, 5).Draw(t, "other_hash") == 0 {
		h2[0] = 0xc2 // another contract: CALLA has to refuse by the hash alone
	}
	var m []byte
	m = append(m, byte(opcode.PUSHNULL))
	m = pushBytes(m, h1)
	m = pushBytes(m, maker)
	m = append(m, sysc(LoadHashSyscallID)...)
	if rapid.IntRange(0, 3).Draw(t, "via_slot") == 0 {
		// the pointer spends some time in a static slot of the caller
		m = append(m, byte(opcode.INITSSLOT), 1, byte(opcode.STSFLD0), byte(opcode.LDSFLD0))
	}
	m = pushBytes(m, h2)
	m = pushBytes(m, user)
	m = append(m, sysc(LoadHashSyscallID)...)
	m = append(m, byte(opcode.RET))
	base := rapid.SampledFrom(baseFees).Draw(t, "basefee")
	hint := "pointer-other-version"
	if same {
		hint = "pointer-same-version"
	}
	if h2[0] != h1[0] {
		hint = "pointer-other-contract"
	}
	return Case{Kind: "pointer", Script: vt.Bytes(m), BaseFee: base, GasLimit: datoshiFor(100_000, base), Hint: hint}
}

func init() {
	vt.Register("pointer", 0.05, genPointer, checkCase)
}
