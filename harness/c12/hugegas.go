package c12

import (
	"fmt"
	"math"
	"math/big"

	"github.com/nspcc-dev/neo-go/pkg/smartcontract/callflag"
	"github.com/nspcc-dev/neo-go/pkg/vm"
	"github.com/nspcc-dev/neo-go/pkg/vm/opcode"
	"pgregory.net/rapid"
	"verifharness/vt"
)

// HugeGasCase: "under any finite gas limit ... never halts having consumed more gas than the limit" at the far end of the
// domain: limits of millions of GAS (a transaction may carry any system fee its sender can pay) with a price getter
// that makes a handful of instructions cost that much, so that the far end is reachable by a test.
type HugeGasCase struct {
	Limit int64 `json:"limit"` // datoshi
	Price int64 `json:"price"` // picoGAS charged per instruction
	N     int   `json:"n"`     // instructions executed (NOPs) before RET
}

func genHugeGas(t *rapid.T) HugeGasCase {
	edge := int64(math.MaxInt64 / vm.ExecFeeFactorMultiplier)
	lim := rapid.SampledFrom([]int64{edge - 1, edge, edge + 1, edge + 1000, 2 * edge, math.MaxInt64 / 2, math.MaxInt64 - 1, math.MaxInt64, edge / 2, 1_0000_0000}).Draw(t, "limit")
	return HugeGasCase{
		Limit: lim,
		Price: rapid.SampledFrom([]int64{1, 1 << 40, 1 << 55, 1 << 60, 1 << 62, math.MaxInt64 / 3, math.MaxInt64}).Draw(t, "price"),
		N:     rapid.IntRange(1, 40).Draw(t, "n"),
	}
}

func checkHugeGas(c HugeGasCase, o *vt.Obs) error {
	if c.Limit < 0 || c.Price <= 0 || c.N < 1 || c.N > 1000 {
		return nil
	}
	v := vm.New()
	v.SetPriceGetter(func(op opcode.Opcode, _ []byte) int64 {
		if op == opcode.RET {
			return 0
		}
		return c.Price
	})
	v.SetGasLimit(c.Limit)
	script := make([]byte, c.N, c.N+1)
	for i := range script {
		script[i] = byte(opcode.NOP)
	}
	script = append(script, byte(opcode.RET))
	v.LoadScriptWithFlags(script, callflag.All)
	var escaped any
	func() {
		defer func() { escaped = recover() }()
		_ = v.Run()
	}()
	if escaped != nil {
		return fmt.Errorf("gas limit %d, %d instructions at %d picoGAS: a Go panic escaped: %v", c.Limit, c.N, c.Price, escaped)
	}
	spent := new(big.Int).Mul(big.NewInt(int64(c.N)), big.NewInt(c.Price)) // picoGAS
	limit := new(big.Int).Mul(big.NewInt(c.Limit), big.NewInt(vm.ExecFeeFactorMultiplier))
	o.Units(1)
	if v.HasHalted() && spent.Cmp(limit) > 0 {
		return fmt.Errorf("gas limit %d datoshi: %d instructions at %d picoGAS each (%s picoGAS in total, limit %s) HALTed; GasConsumed() = %d", c.Limit, c.N, c.Price, spent, limit, v.GasConsumed())
	}
	if !v.HasHalted() && !v.HasFailed() {
		return fmt.Errorf("run ended in state %s", v.State())
	}
	if spent.Cmp(limit) > 0 {
		o.Label("over-limit-faulted")
		o.NonTrivial()
	} else if v.HasHalted() {
		o.Label("within-limit-halted")
	} else {
		o.Label("within-limit-faulted") // not a clause of the property (a limit the VM cannot represent exactly)
	}
	if c.Limit > math.MaxInt64/vm.ExecFeeFactorMultiplier {
		o.Label("limit-above-int64-picogas")
	}
	return nil
}

func init() {
	vt.Register("hugegas", 0.02, genHugeGas, checkHugeGas)
}
