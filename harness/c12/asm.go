package c12

import (
	"encoding/binary"

	"github.com/nspcc-dev/neo-go/pkg/vm/opcode"
)

// ins is one element of the generator's intermediate representation.
type ins struct {
	op      opcode.Opcode
	arg     []byte // fixed operand bytes (non-jump instructions)
	data    []byte // PUSHDATA payload
	declLen int64  // PUSHDATA4 only: declared length when it lies about the payload (0 = honest)
	l1, l2  int    // label ids of jump-like operands (0 = none; TRY: catch, finally)
	long    bool   // use the long form of a jump-like instruction
	label   int    // > 0: pseudo-instruction defining this label
	raw     []byte // pseudo-instruction: raw bytes (junk / hand-made encodings)
}

func isJumpLike(op opcode.Opcode) bool {
	switch op {
	case opcode.JMP, opcode.JMPIF, opcode.JMPIFNOT, opcode.JMPEQ, opcode.JMPNE, opcode.JMPGT, opcode.JMPGE, opcode.JMPLT, opcode.JMPLE,
		opcode.CALL, opcode.TRY, opcode.ENDTRY, opcode.PUSHA:
		return true
	}
	return false
}

func (i *ins) size() int {
	switch {
	case i.label > 0:
		return 0
	case i.raw != nil:
		return len(i.raw)
	case i.op == opcode.PUSHA:
		return 5
	case i.op == opcode.TRY:
		if i.long {
			return 9
		}
		return 3
	case isJumpLike(i.op):
		if i.long {
			return 5
		}
		return 2
	case i.op == opcode.PUSHDATA1:
		return 2 + len(i.data)
	case i.op == opcode.PUSHDATA2:
		return 3 + len(i.data)
	case i.op == opcode.PUSHDATA4:
		return 5 + len(i.data)
	}
	return 1 + len(i.arg)
}

// assemble lays the instruction list out; short jumps that do not reach are widened.
func assemble(code []ins) []byte {
	pos := make([]int, len(code)+1)
	labels := map[int]int{}
	defined := map[int]bool{}
	for k := range code {
		if code[k].label > 0 {
			defined[code[k].label] = true
		}
	}
	for {
		p := 0
		for k := range code {
			pos[k] = p
			if code[k].label > 0 {
				labels[code[k].label] = p
			}
			p += code[k].size()
		}
		pos[len(code)] = p
		// a label that was never placed (generation stopped inside a template) means "end of script"
		for k := range code {
			for _, l := range []int{code[k].l1, code[k].l2} {
				if l != 0 && !defined[l] {
					labels[l] = p
				}
			}
		}
		changed := false
		for k := range code {
			c := &code[k]
			if c.label > 0 || c.raw != nil || !isJumpLike(c.op) || c.long || c.op == opcode.PUSHA {
				continue
			}
			for _, l := range []int{c.l1, c.l2} {
				if l == 0 {
					continue
				}
				off := labels[l] - pos[k]
				if off < -128 || off > 127 {
					c.long = true
					changed = true
				}
			}
		}
		if !changed {
			break
		}
	}
	out := make([]byte, 0, pos[len(code)])
	rel := func(k, l int) int {
		if l == 0 {
			return 0
		}
		return labels[l] - pos[k]
	}
	for k := range code {
		c := &code[k]
		switch {
		case c.label > 0:
		case c.raw != nil:
			out = append(out, c.raw...)
		case c.op == opcode.PUSHA:
			out = append(out, byte(c.op))
			out = binary.LittleEndian.AppendUint32(out, uint32(int32(rel(k, c.l1))))
		case c.op == opcode.TRY:
			if c.long {
				out = append(out, byte(opcode.TRYL))
				out = binary.LittleEndian.AppendUint32(out, uint32(int32(rel(k, c.l1))))
				out = binary.LittleEndian.AppendUint32(out, uint32(int32(rel(k, c.l2))))
			} else {
				out = append(out, byte(opcode.TRY), byte(int8(rel(k, c.l1))), byte(int8(rel(k, c.l2))))
			}
		case isJumpLike(c.op):
			if c.long {
				out = append(out, byte(c.op)+1) // the long form is always opcode+1
				out = binary.LittleEndian.AppendUint32(out, uint32(int32(rel(k, c.l1))))
			} else {
				out = append(out, byte(c.op), byte(int8(rel(k, c.l1))))
			}
		case c.op == opcode.PUSHDATA1:
			out = append(out, byte(c.op), byte(len(c.data)))
			out = append(out, c.data...)
		case c.op == opcode.PUSHDATA2:
			out = append(out, byte(c.op))
			out = binary.LittleEndian.AppendUint16(out, uint16(len(c.data)))
			out = append(out, c.data...)
		case c.op == opcode.PUSHDATA4:
			out = append(out, byte(c.op))
			n := uint32(len(c.data))
			if c.declLen != 0 {
				n = uint32(c.declLen)
			}
			out = binary.LittleEndian.AppendUint32(out, n)
			out = append(out, c.data...)
		default:
			out = append(out, byte(c.op))
			out = append(out, c.arg...)
		}
	}
	return out
}
