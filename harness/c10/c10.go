// Package c10 checks property C10: the state trie is a canonical authenticated map.
package c10

import (
	"bytes"
	"errors"
	"fmt"
	"github.com/nspcc-dev/neo-go/pkg/crypto/hash"
	"sort"

	"github.com/nspcc-dev/neo-go/pkg/core/mpt"
	"github.com/nspcc-dev/neo-go/pkg/core/storage"
	"github.com/nspcc-dev/neo-go/pkg/util"
	"pgregory.net/rapid"
	"verifharness/mptref"
	"verifharness/vt"
)

// KV is one batch element; Del means "delete".
type KV struct {
	K   vt.Bytes `json:"k"`
	V   vt.Bytes `json:"v,omitempty"`
	Del bool     `json:"del,omitempty"`
}

// Op is one step of a trie history.
type Op struct {
	Kind   string   `json:"kind"` // put del batch flush collapse reload get find seek proof
	K      vt.Bytes `json:"k,omitempty"`
	V      vt.Bytes `json:"v,omitempty"`
	Batch  []KV     `json:"batch,omitempty"`
	Depth  int      `json:"depth,omitempty"`
	From   vt.Bytes `json:"from,omitempty"`
	NilFr  bool     `json:"nil_from,omitempty"`
	Max    int      `json:"max,omitempty"`
	Back   bool     `json:"back,omitempty"`
	StopAt int      `json:"stop_at,omitempty"`
}

// Case is a trie mode plus an operation history.
type Case struct {
	Mode int  `json:"mode"` // 0 ModeAll, 1 ModeLatest, 3 ModeGC
	Ops  []Op `json:"ops"`
	// Lazy: when every key is read back from the live trie (a read loads the nodes on its path and keeps them):
	// 0 after every op; 1 only right before a flush / collapse / reload and at the end, so that mutations, range
	// reads and proofs meet hash nodes that are still to be fetched from the store; 2 after every op except the
	// one that collapsed or reloaded the trie.
	Lazy int `json:"lazy,omitempty"`
}

var alphabet = []byte{0x00, 0x01, 0x10, 0x11, 0xff, 0x0f, 0xf0, 0x12}

var longStem = func() []byte {
	b := make([]byte, 60)
	for i := range b {
		b[i] = byte(0xa0 + i%7)
	}
	return b
}()

func genKey(t *rapid.T, label string) vt.Bytes {
	n := rapid.IntRange(1, 4).Draw(t, label+"_n")
	var k []byte
	if rapid.IntRange(0, 9).Draw(t, label+"_long") == 0 {
		k = append(k, longStem...)
		n = rapid.IntRange(0, 8).Draw(t, label+"_ln")
	}
	for i := 0; i < n; i++ {
		k = append(k, rapid.SampledFrom(alphabet).Draw(t, label+"_b"))
	}
	if len(k) > mpt.MaxKeyLength {
		k = k[:mpt.MaxKeyLength]
	}
	return k
}

// genPrefix produces a possibly-empty byte string from the same alphabet (prefixes / from values).
func genShort(t *rapid.T, label string, min int) vt.Bytes {
	n := rapid.IntRange(min, 3).Draw(t, label+"_n")
	k := []byte{}
	if rapid.IntRange(0, 14).Draw(t, label+"_long") == 0 {
		k = append(k, longStem[:rapid.IntRange(1, 60).Draw(t, label+"_ll")]...)
	}
	for i := 0; i < n; i++ {
		k = append(k, rapid.SampledFrom(alphabet).Draw(t, label+"_b"))
	}
	return k
}

var bigVal = bytes.Repeat([]byte{0x5a}, mpt.MaxValueLength)

func genVal(t *rapid.T, label string) vt.Bytes {
	switch rapid.IntRange(0, 11).Draw(t, label+"_kind") {
	case 0:
		return vt.Bytes{}
	case 1, 2, 3:
		return vt.Bytes("a")
	case 4, 5:
		return vt.Bytes("b")
	case 6:
		return bytes.Repeat([]byte{0x33}, 253) // varint boundary
	case 7:
		if rapid.IntRange(0, 20).Draw(t, label+"_big") == 0 {
			return bigVal
		}
		return bytes.Repeat([]byte{0x34}, 300)
	default:
		return rapid.SliceOfN(rapid.Byte(), 0, 6).Draw(t, label+"_raw")
	}
}

func genOp(t *rapid.T) Op {
	kind := rapid.SampledFrom([]string{
		"put", "put", "put", "put", "del", "del", "batch", "batch", "batch",
		"flush", "collapse", "reload", "get", "find", "find", "seek", "seek", "proof",
	}).Draw(t, "kind")
	op := Op{Kind: kind}
	switch kind {
	case "put":
		op.K, op.V = genKey(t, "k"), genVal(t, "v")
	case "del", "get", "proof":
		op.K = genKey(t, "k")
	case "batch":
		n := rapid.IntRange(1, 8).Draw(t, "bn")
		for i := 0; i < n; i++ {
			kv := KV{K: genKey(t, "bk")}
			if rapid.IntRange(0, 2).Draw(t, "bdel") == 0 {
				kv.Del = true
			} else {
				kv.V = genVal(t, "bv")
			}
			op.Batch = append(op.Batch, kv)
		}
	case "collapse":
		op.Depth = rapid.IntRange(0, 6).Draw(t, "depth")
	case "find":
		op.K = genShort(t, "prefix", 1)
		op.NilFr = rapid.Bool().Draw(t, "nilfrom")
		if !op.NilFr {
			op.From = genShort(t, "from", 0)
		}
		op.Max = rapid.IntRange(1, 12).Draw(t, "max")
	case "seek":
		op.K = genShort(t, "prefix", 1)
		op.From = genShort(t, "start", 0)
		op.Back = rapid.Bool().Draw(t, "back")
		op.StopAt = rapid.IntRange(0, 6).Draw(t, "stop")
	}
	return op
}

func genCase(t *rapid.T) Case {
	c := Case{Mode: rapid.SampledFrom([]int{0, 0, 1, 3}).Draw(t, "mode"), Lazy: rapid.SampledFrom([]int{0, 1, 1, 2}).Draw(t, "lazy")}
	n := rapid.IntRange(1, 80).Draw(t, "nops")
	var seen []vt.Bytes // keys written so far: range queries are aimed at their split points
	for i := 0; i < n; i++ {
		op := genOp(t)
		switch op.Kind {
		case "put":
			seen = append(seen, op.K)
		case "batch":
			for _, kv := range op.Batch {
				if !kv.Del {
					seen = append(seen, kv.K)
				}
			}
		case "find", "seek":
			// Aim at the structure: prefix = head of a written key, from/start = exactly the next piece of it
			// (the rest of an extension below the prefix), or that piece with its last byte +-1.
			if len(seen) > 0 && rapid.IntRange(0, 9).Draw(t, "aim") < 6 {
				k := seen[rapid.IntRange(0, len(seen)-1).Draw(t, "aim_key")]
				if len(k) >= 2 {
					a := rapid.IntRange(1, len(k)-1).Draw(t, "aim_a")
					b := rapid.IntRange(a, len(k)).Draw(t, "aim_b")
					op.K = append(vt.Bytes{}, k[:a]...)
					from := append(vt.Bytes{}, k[a:b]...)
					if len(from) > 0 {
						switch rapid.IntRange(0, 4).Draw(t, "aim_adj") {
						case 0:
							from[len(from)-1]--
						case 1:
							from[len(from)-1]++
						}
					}
					op.From = from
					if op.Kind == "find" {
						op.NilFr = false
					}
				}
			}
		}
		c.Ops = append(c.Ops, op)
	}
	return c
}

func sortedKeys(m map[string][]byte) []string {
	ks := make([]string, 0, len(m))
	for k := range m {
		ks = append(ks, k)
	}
	sort.Strings(ks)
	return ks
}

func rootOf(tr *mpt.Trie) mptref.Hash { return mptref.Hash(tr.StateRoot()) }

func checkCase(c Case, o *vt.Obs) error {
	mode := mpt.TrieMode(c.Mode)
	store := storage.NewMemCachedStore(storage.NewMemoryStore())
	tr := mpt.NewTrie(nil, mode, store)
	model := map[string][]byte{}
	var index uint32 = 1
	mutatedSinceReload := false
	sawReloadBetween := false
	sawMixedBatch := false
	sawLazy := false

	flush := func() {
		tr.Flush(index)
		index++
	}
	for i, op := range c.Ops {
		where := func(f string, a ...any) error {
			return fmt.Errorf("op %d (%s): %s", i, op.Kind, fmt.Sprintf(f, a...))
		}
		switch op.Kind {
		case "put":
			if err := tr.Put(op.K, append([]byte{}, op.V...)); err != nil {
				return where("Put(%x) failed: %v", op.K, err)
			}
			model[string(op.K)] = append([]byte{}, op.V...)
			mutatedSinceReload = true
		case "del":
			if err := tr.Delete(op.K); err != nil {
				return where("Delete(%x) failed: %v", op.K, err)
			}
			delete(model, string(op.K))
			mutatedSinceReload = true
		case "batch":
			m := map[string][]byte{}
			hasDelPresent, hasInsert := false, false
			for _, kv := range op.Batch {
				if kv.Del {
					m["\x70"+string(kv.K)] = nil
				} else {
					m["\x70"+string(kv.K)] = append([]byte{}, kv.V...)
				}
			}
			for k, v := range m {
				if v == nil {
					if _, ok := model[k[1:]]; ok {
						hasDelPresent = true
					}
				} else if _, ok := model[k[1:]]; !ok {
					hasInsert = true
				}
			}
			b := mpt.MapToMPTBatch(m)
			n, err := tr.PutBatch(b)
			if err != nil {
				return where("PutBatch failed after %d: %v", n, err)
			}
			if n != len(m) {
				return where("PutBatch processed %d of %d", n, len(m))
			}
			for k, v := range m {
				if v == nil {
					delete(model, k[1:])
				} else {
					model[k[1:]] = v
				}
			}
			if hasDelPresent && hasInsert {
				sawMixedBatch = true
			}
			mutatedSinceReload = true
		case "flush":
			flush()
		case "collapse":
			flush()
			tr.Collapse(op.Depth)
		case "reload":
			flush()
			r := tr.StateRoot()
			if r.Equals(util.Uint256{}) {
				tr = mpt.NewTrie(nil, mode, store)
			} else {
				tr = mpt.NewTrie(mpt.NewHashNode(r), mode, store)
			}
			if mutatedSinceReload && i+1 < len(c.Ops) {
				sawReloadBetween = true
			}
			mutatedSinceReload = false
		case "get":
			v, err := tr.Get(op.K)
			want, ok := model[string(op.K)]
			if ok {
				if err != nil {
					return where("Get(%x): present key gives %v", op.K, err)
				}
				if !bytes.Equal(v, want) {
					return where("Get(%x) = %x, want %x", op.K, v, want)
				}
			} else if err == nil {
				return where("Get(%x): absent key gives value %x", op.K, v)
			} else if !errors.Is(err, mpt.ErrNotFound) {
				return where("Get(%x): absent key gives unexpected error %v", op.K, err)
			}
		case "find":
			// Precondition taken from the only production caller (stateroot.Module.FindStates builds a fresh
			// trie over stored nodes): Find collapses visited nodes to hash nodes, so they must be in the store.
			flush()
			if err := checkFind(tr, model, op); err != nil {
				return where("%v", err)
			}
		case "seek":
			flush()
			if err := checkSeek(tr, mode, store, model, op, o); err != nil {
				return where("%v", err)
			}
		case "proof":
			proof, err := tr.GetProof(op.K)
			want, ok := model[string(op.K)]
			if ok {
				if err != nil {
					return where("GetProof(%x) of present key: %v", op.K, err)
				}
				v, good := mpt.VerifyProof(tr.StateRoot(), op.K, proof)
				if !good || !bytes.Equal(v, want) {
					return where("VerifyProof(%x) = %x,%v want %x", op.K, v, good, want)
				}
			} else {
				if err == nil {
					return where("GetProof(%x) of absent key succeeds", op.K)
				}
				if v, good := mpt.VerifyProof(tr.StateRoot(), op.K, proof); good {
					return where("partial proof of absent key %x verifies to %x", op.K, v)
				}
			}
		default:
			return where("unknown op")
		}
		if got, want := rootOf(tr), mptref.Root(model); got != want {
			return where("root %x differs from reference root %x of content (%d keys)", got, want, len(model))
		}
		// Reads agree with the content on the LIVE trie too (in-memory nodes, not only what was flushed): every key, every step.
		sweep := true
		switch c.Lazy {
		case 1:
			sweep = i+1 == len(c.Ops)
			if !sweep {
				nk := c.Ops[i+1].Kind
				sweep = nk == "flush" || nk == "collapse" || nk == "reload"
			}
		case 2:
			sweep = op.Kind != "collapse" && op.Kind != "reload"
		}
		if !sweep {
			if op.Kind == "collapse" || op.Kind == "reload" {
				sawLazy = true
			}
			continue
		}
		for _, k := range sortedKeys(model) {
			v, err := tr.Get([]byte(k))
			if err != nil || !bytes.Equal(v, model[k]) {
				return where("after this op Get(%x) on the live trie = %x,%v want %x", k, short(v), err, short(model[k]))
			}
		}
	}
	// History independence against the implementation itself, fresh tries.
	final := rootOf(tr)
	fresh := mpt.NewTrie(nil, mpt.ModeAll, storage.NewMemCachedStore(storage.NewMemoryStore()))
	for _, k := range sortedKeys(model) {
		if err := fresh.Put([]byte(k), model[k]); err != nil {
			return fmt.Errorf("fresh Put(%x): %v", k, err)
		}
	}
	if rootOf(fresh) != final {
		return fmt.Errorf("final root %x != root %x of fresh trie built in sorted order", final, rootOf(fresh))
	}
	if len(model) > 0 {
		fb := mpt.NewTrie(nil, mpt.ModeAll, storage.NewMemCachedStore(storage.NewMemoryStore()))
		m := map[string][]byte{}
		for k, v := range model {
			m["\x70"+k] = v
		}
		if _, err := fb.PutBatch(mpt.MapToMPTBatch(m)); err != nil {
			return fmt.Errorf("fresh PutBatch: %v", err)
		}
		if rootOf(fb) != final {
			return fmt.Errorf("final root %x != root %x of fresh trie built by one PutBatch", final, rootOf(fb))
		}
	}
	// Every key readable at the end, after a final flush + full collapse (everything comes from storage).
	flush()
	tr.Collapse(0)
	for k, want := range model {
		v, err := tr.Get([]byte(k))
		if err != nil || !bytes.Equal(v, want) {
			return fmt.Errorf("after final flush+collapse Get(%x) = %x,%v want %x", k, v, err, want)
		}
	}
	o.Labelf("mode%d", c.Mode)
	if sawMixedBatch {
		o.Label("mixed-batch")
	}
	if sawReloadBetween {
		o.Label("reload-between-mutations")
	}
	if sawLazy {
		o.Label("ops-on-unloaded-hash-nodes")
	}
	o.Labelf("lazy%d", c.Lazy)
	if sawMixedBatch || sawReloadBetween {
		o.NonTrivial()
	}
	return nil
}

func checkFind(tr *mpt.Trie, model map[string][]byte, op Op) error {
	var from []byte
	if !op.NilFr {
		from = []byte(op.From)
		if from == nil {
			from = []byte{}
		}
	}
	if len(op.K)+len(from) > mpt.MaxKeyLength {
		return nil
	}
	var want []storage.KeyValue
	for _, k := range sortedKeys(model) {
		if !bytes.HasPrefix([]byte(k), op.K) {
			continue
		}
		suffix := []byte(k)[len(op.K):]
		if from != nil && bytes.Compare(suffix, from) <= 0 {
			continue
		}
		want = append(want, storage.KeyValue{Key: []byte(k), Value: model[k]})
		if len(want) == op.Max {
			break
		}
	}
	got, err := tr.Find(op.K, from, op.Max)
	if err != nil {
		if len(want) == 0 && errors.Is(err, mpt.ErrNotFound) {
			return nil // documented: "no results" may be reported as ErrNotFound
		}
		return fmt.Errorf("Find(%x,%x,nil=%v,%d) error %v, want %d items", op.K, from, op.NilFr, op.Max, err, len(want))
	}
	return cmpKV(fmt.Sprintf("Find(%x,%x,nil=%v,%d)", op.K, from, op.NilFr, op.Max), got, want)
}

func cmpKV(what string, got, want []storage.KeyValue) error {
	if len(got) != len(want) {
		return fmt.Errorf("%s: got %d items %s, want %d items %s", what, len(got), fmtKV(got), len(want), fmtKV(want))
	}
	for i := range got {
		if !bytes.Equal(got[i].Key, want[i].Key) || !bytes.Equal(got[i].Value, want[i].Value) {
			return fmt.Errorf("%s: item %d is %x=%x, want %x=%x", what, i, got[i].Key, short(got[i].Value), want[i].Key, short(want[i].Value))
		}
	}
	return nil
}

func short(b []byte) []byte {
	if len(b) > 8 {
		return b[:8]
	}
	return b
}

func fmtKV(l []storage.KeyValue) string {
	s := "["
	for i, kv := range l {
		if i > 0 {
			s += " "
		}
		s += fmt.Sprintf("%x", kv.Key)
	}
	return s + "]"
}

// checkSeek compares TrieStore.Seek over the flushed trie with the documented SeekRange semantics
// (pkg/core/storage/store.go): keys with the prefix, starting from prefix+start inclusive, ascending or descending.
func checkSeek(tr *mpt.Trie, mode mpt.TrieMode, store *storage.MemCachedStore, model map[string][]byte, op Op, o *vt.Obs) error {
	root := tr.StateRoot()
	if root.Equals(util.Uint256{}) {
		return nil
	}
	if len(op.K)+len(op.From) > mpt.MaxKeyLength {
		return nil
	}
	start := append(append([]byte{}, op.K...), op.From...)
	var want []storage.KeyValue
	keys := sortedKeys(model)
	if op.Back {
		sort.Sort(sort.Reverse(sort.StringSlice(keys)))
	}
	for _, k := range keys {
		kb := []byte(k)
		if !bytes.HasPrefix(kb, op.K) {
			continue
		}
		if len(op.From) > 0 {
			if !op.Back && bytes.Compare(kb, start) < 0 {
				continue
			}
			// Backwards: the range is [prefix, prefix+start] plus every key extending prefix+start
			// (the semantics of the persistent backends, see DESIGN.md §5-A).
			if op.Back && bytes.Compare(kb, start) > 0 && !bytes.HasPrefix(kb, start) {
				continue
			}
		}
		want = append(want, storage.KeyValue{Key: append([]byte{byte(storage.STStorage)}, kb...), Value: model[k]})
	}
	if op.StopAt > 0 && len(want) > op.StopAt {
		want = want[:op.StopAt]
	}
	ts := mpt.NewTrieStore(root, mode&^mpt.ModeGCFlag, store)
	var got []storage.KeyValue
	ts.Seek(storage.SeekRange{
		Prefix:    append([]byte{byte(storage.STStorage)}, op.K...),
		Start:     op.From,
		Backwards: op.Back,
	}, func(k, v []byte) bool {
		got = append(got, storage.KeyValue{Key: bytes.Clone(k), Value: bytes.Clone(v)})
		return op.StopAt == 0 || len(got) < op.StopAt
	})
	if err := cmpKV(fmt.Sprintf("TrieStore.Seek(prefix=%x,start=%x,back=%v,stop=%d)", op.K, op.From, op.Back, op.StopAt), got, want); err != nil {
		return err
	}
	// Point reads through the same read-only view (historic System.Storage.Get): the prefix itself, prefix+start
	// and every key the scan returned.
	probe := [][]byte{bytes.Clone(op.K), append(bytes.Clone(op.K), op.From...)}
	for _, kv := range got {
		probe = append(probe, kv.Key[1:])
	}
	ts2 := mpt.NewTrieStore(root, mode&^mpt.ModeGCFlag, store)
	for _, k := range probe {
		v, err := ts2.Get(append([]byte{byte(storage.STStorage)}, k...))
		want, ok := model[string(k)]
		switch {
		case ok && (err != nil || !bytes.Equal(v, want)):
			return fmt.Errorf("TrieStore.Get(%x) = %x,%v want %x", k, short(v), err, short(want))
		case !ok && err == nil:
			return fmt.Errorf("TrieStore.Get(%x): absent key gives value %x", k, short(v))
		case !ok && !errors.Is(err, storage.ErrKeyNotFound) && len(k) <= mpt.MaxKeyLength:
			return fmt.Errorf("TrieStore.Get(%x): absent key gives unexpected error %v", k, err)
		}
	}
	return nil
}

// ---- proof tampering ------------------------------------------------------------------------------

// Tamper is one edit of a proof node list.
type Tamper struct {
	Kind string   `json:"kind"` // drop dup swap trunc flip foreign raw
	I    int      `json:"i"`
	J    int      `json:"j"`
	Raw  vt.Bytes `json:"raw,omitempty"`
}

// ProofCase asks: can a (tampered / assembled) node list make VerifyProof lie?
type ProofCase struct {
	Content []KV     `json:"content"`
	Other   []KV     `json:"other"` // a second trie whose nodes may be mixed in
	Key     vt.Bytes `json:"key"`
	From    vt.Bytes `json:"proof_of"` // proof of which present key is the starting list (empty: all nodes of the trie)
	Tampers []Tamper `json:"tampers"`
	// RootOf >= 0: the verifier is given the hash of element RootOf (mod length) of the final list as the root (the
	// verifyproof RPC takes the root from the caller): whatever the bytes are, verification ends with an answer.
	RootOf int `json:"root_of"`
}

func genContent(t *rapid.T, label string, min int) []KV {
	n := rapid.IntRange(min, 14).Draw(t, label+"_n")
	var kvs []KV
	for i := 0; i < n; i++ {
		kvs = append(kvs, KV{K: genKey(t, label+"k"), V: genVal(t, label+"v")})
	}
	return kvs
}

func genProofCase(t *rapid.T) ProofCase {
	c := ProofCase{Content: genContent(t, "c", 1), Other: genContent(t, "o", 0)}
	// Target: a present key, a near miss of a present key, or a fresh key.
	base := c.Content[rapid.IntRange(0, len(c.Content)-1).Draw(t, "base")].K
	switch rapid.IntRange(0, 4).Draw(t, "target") {
	case 0, 1:
		c.Key = base
	case 2:
		if len(base) > 1 {
			c.Key = base[:len(base)-1]
		} else {
			c.Key = append(append(vt.Bytes{}, base...), 0x00)
		}
	case 3:
		c.Key = append(append(vt.Bytes{}, base...), rapid.SampledFrom(alphabet).Draw(t, "ext"))
	default:
		c.Key = genKey(t, "fresh")
	}
	if rapid.Bool().Draw(t, "fromproof") {
		c.From = c.Content[rapid.IntRange(0, len(c.Content)-1).Draw(t, "pf")].K
	}
	n := rapid.IntRange(0, 4).Draw(t, "nt")
	for i := 0; i < n; i++ {
		tm := Tamper{
			Kind: rapid.SampledFrom([]string{"drop", "dup", "swap", "trunc", "flip", "foreign", "raw", "leafsub", "rawnode", "rawnode", "forgefront", "forgefront"}).Draw(t, "tk"),
			I:    rapid.IntRange(0, 40).Draw(t, "ti"),
			J:    rapid.IntRange(0, 600).Draw(t, "tj"),
		}
		if tm.Kind == "raw" {
			tm.Raw = rapid.SliceOfN(rapid.Byte(), 0, 40).Draw(t, "raw")
		}
		c.Tampers = append(c.Tampers, tm)
	}
	c.RootOf = -1
	if rapid.IntRange(0, 2).Draw(t, "forged_root") == 0 {
		c.RootOf = rapid.IntRange(0, 40).Draw(t, "root_of")
	}
	return c
}

func buildTrie(kvs []KV) (*mpt.Trie, map[string][]byte, error) {
	tr := mpt.NewTrie(nil, mpt.ModeAll, storage.NewMemCachedStore(storage.NewMemoryStore()))
	model := map[string][]byte{}
	for _, kv := range kvs {
		if err := tr.Put(kv.K, append([]byte{}, kv.V...)); err != nil {
			return nil, nil, err
		}
		model[string(kv.K)] = append([]byte{}, kv.V...)
	}
	return tr, model, nil
}

func checkProofCase(c ProofCase, o *vt.Obs) error {
	tr, model, err := buildTrie(c.Content)
	if err != nil {
		return fmt.Errorf("build: %v", err)
	}
	root := tr.StateRoot()
	if got, want := mptref.Hash(root), mptref.Root(model); got != want {
		return fmt.Errorf("root %x != reference %x", got, want)
	}
	// Completeness for every present key.
	for k, want := range model {
		p, err := tr.GetProof([]byte(k))
		if err != nil {
			return fmt.Errorf("GetProof(%x): %v", k, err)
		}
		v, ok := mpt.VerifyProof(root, []byte(k), p)
		if !ok || !bytes.Equal(v, want) {
			return fmt.Errorf("VerifyProof(%x) = %x,%v want %x", k, v, ok, want)
		}
	}
	// Starting node list.
	var nodes [][]byte
	if len(c.From) > 0 {
		nodes, _ = tr.GetProof(c.From)
	} else {
		_, recs := mptref.Build(model)
		for _, r := range recs {
			nodes = append(nodes, r.Bytes)
		}
	}
	var foreign [][]byte
	if len(c.Other) > 0 {
		_, om, err := buildTrie(c.Other)
		if err != nil {
			return fmt.Errorf("build other: %v", err)
		}
		_, recs := mptref.Build(om)
		for _, r := range recs {
			foreign = append(foreign, r.Bytes)
		}
	}
	for _, tm := range c.Tampers {
		if len(nodes) == 0 && tm.Kind != "foreign" && tm.Kind != "raw" && tm.Kind != "rawnode" {
			continue
		}
		switch tm.Kind {
		case "drop":
			i := tm.I % len(nodes)
			nodes = append(append([][]byte{}, nodes[:i]...), nodes[i+1:]...)
		case "dup":
			nodes = append(nodes, nodes[tm.I%len(nodes)])
		case "swap":
			i, j := tm.I%len(nodes), tm.J%len(nodes)
			nodes[i], nodes[j] = nodes[j], nodes[i]
		case "trunc":
			i := tm.I % len(nodes)
			if len(nodes[i]) > 0 {
				nodes[i] = bytes.Clone(nodes[i][:tm.J%len(nodes[i])])
			}
		case "flip":
			i := tm.I % len(nodes)
			if len(nodes[i]) > 0 {
				b := bytes.Clone(nodes[i])
				bit := tm.J % (8 * len(b))
				b[bit/8] ^= 1 << (bit % 8)
				nodes[i] = b
			}
		case "foreign":
			if len(foreign) > 0 {
				nodes = append(nodes, foreign[tm.I%len(foreign)])
			}
		case "raw":
			nodes = append(nodes, tm.Raw)
		case "rawnode":
			// the encoding of a node of a kind that is never stored on its own: Empty (04), Hash (03 + 32 bytes: zeroes,
			// the genuine root, the hash of another element), or a well-formed leaf / extension made by hand
			switch tm.I % 5 {
			case 0:
				nodes = append(nodes, []byte{0x04})
			case 1:
				nodes = append(nodes, append([]byte{0x03}, make([]byte, 32)...))
			case 2:
				nodes = append(nodes, append([]byte{0x03}, root.BytesBE()...))
			case 3:
				if len(nodes) == 0 {
					nodes = append(nodes, []byte{0x04})
				}
				h := hash.DoubleSha256(nodes[tm.J%len(nodes)])
				nodes = append(nodes, append([]byte{0x03}, h.BytesBE()...))
			default:
				nodes = append(nodes, []byte{0x01, 0x01, 0x0a, 0x04}) // extension with an Empty child
			}
		case "forgefront":
			// a well-formed but forged node placed FIRST (where an honest prover puts the root node): an extension
			// with the whole path of the target key (I even) or a branch (I odd) leading to a leaf with another value
			leaf := mpt.NewLeafNode([]byte("forged-value"))
			var nib []byte
			for _, b := range c.Key {
				nib = append(nib, b>>4, b&0x0f)
			}
			var front mpt.Node
			if tm.I%2 == 0 || len(nib) == 0 {
				if len(nib) == 0 {
					front = leaf
				} else {
					front = mpt.NewExtensionNode(nib, leaf)
				}
			} else {
				br := mpt.NewBranchNode()
				rest := nib[1:]
				if len(rest) == 0 {
					br.Children[nib[0]] = leaf
				} else {
					br.Children[nib[0]] = mpt.NewExtensionNode(rest, leaf)
					nodes = append(nodes, br.Children[nib[0]].Bytes())
				}
				front = br
			}
			nodes = append(append([][]byte{front.Bytes()}, nodes...), leaf.Bytes())
		case "leafsub":
			// substitute a leaf holding another stored value
			ks := sortedKeys(model)
			v := model[ks[tm.I%len(ks)]]
			leaf := mpt.NewLeafNode(v)
			nodes = append(nodes, leaf.Bytes())
		}
	}
	if c.RootOf >= 0 && len(nodes) > 0 {
		forged := hash.DoubleSha256(nodes[c.RootOf%len(nodes)])
		var pan any
		func() {
			defer func() { pan = recover() }()
			mpt.VerifyProof(forged, c.Key, nodes)
		}()
		if pan != nil {
			return fmt.Errorf("VerifyProof panics on a list of %d byte strings with the root set to the hash of element %d (%x): %v", len(nodes), c.RootOf%len(nodes), nodes[c.RootOf%len(nodes)], pan)
		}
		o.Label("forged-root")
	}
	var pan any
	var v []byte
	var ok bool
	func() {
		defer func() { pan = recover() }()
		v, ok = mpt.VerifyProof(root, c.Key, nodes)
	}()
	if pan != nil {
		return fmt.Errorf("VerifyProof panics on a tampered list of %d byte strings: %v", len(nodes), pan)
	}
	want, present := model[string(c.Key)]
	switch {
	case ok && !present:
		return fmt.Errorf("absent key %x verifies to %x with a list of %d nodes", c.Key, v, len(nodes))
	case ok && !bytes.Equal(v, want):
		return fmt.Errorf("key %x verifies to %x, stored value is %x", c.Key, v, want)
	}
	if present {
		o.Label("target-present")
	} else {
		o.Label("target-absent")
	}
	if ok {
		o.Label("verified")
	}
	if len(c.Tampers) > 0 {
		o.NonTrivial()
	}
	return nil
}

func init() {
	vt.PropertyID = "C10"
	vt.Register("history", 1.0, genCase, checkCase)
	vt.Register("proof", 0.6, genProofCase, checkProofCase)
}
