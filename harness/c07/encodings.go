package c07

import (
	"bytes"
	"fmt"

	"github.com/nspcc-dev/neo-go/pkg/core"
	"github.com/nspcc-dev/neo-go/pkg/core/transaction"
	"verifharness/vt"
)

// checkEncodings feeds the canonical bytes of the valid instance and the selected non-minimal re-encodings of
// the same content through both arrival paths (NewTransactionFromBytes = RPC sendrawtransaction / P2P CMDTX;
// DecodeBinary = the way transactions inside a block are read). For every encoding a decoder accepts, identity
// (hash), size and the admission verdict must be those of the canonical encoding.
func checkEncodings(c AdmCase, bc *core.Blockchain, T *built, canon []byte, sites []site, o *vt.Obs, nonCanon bool) error {
	type variant struct {
		name string
		raw  []byte
	}
	vs := []variant{{"canonical", canon}}
	if len(c.Enc) > 0 {
		if !nonCanon {
			o.Excluded()
			o.Label("noncanonical-excluded-known")
		} else {
			for _, p := range c.Enc {
				alt, name, ok := altFor(sites, p, T.tx)
				if !ok {
					continue
				}
				raw, _, _, err := encodeTx(T.tx, alt)
				if err != nil {
					return err
				}
				if bytes.Equal(raw, canon) {
					continue
				}
				vs = append(vs, variant{name, raw})
			}
		}
	}
	H, S := T.tx.Hash(), len(canon)
	for _, v := range vs {
		rawTx, rawErr, blkTx, blkErr := fromBytesBoth(v.raw)
		paths := []struct {
			name string
			tx   *transaction.Transaction
			err  error
		}{{"NewTransactionFromBytes", rawTx, rawErr}, {"DecodeBinary", blkTx, blkErr}}
		for _, p := range paths {
			where := fmt.Sprintf("encoding %s (%d bytes, canonical %d) via %s", v.name, len(v.raw), S, p.name)
			if p.err != nil {
				if v.name == "canonical" {
					return fmt.Errorf("%s: decoder rejects the canonical bytes: %v", where, p.err)
				}
				o.Label("noncanonical-rejected-by-decoder")
				continue
			}
			if got := p.tx.Hash(); got != H {
				return fmt.Errorf("%s: accepted by the decoder but Hash() = %s, canonical encoding of the same content has %s (bytes %x)", where, got.StringLE(), H.StringLE(), clip(v.raw))
			}
			if got := p.tx.Size(); got != S {
				return fmt.Errorf("%s: accepted by the decoder but Size() = %d, canonical %d", where, got, S)
			}
			if re := txBytes(p.tx); !bytes.Equal(re, canon) {
				return fmt.Errorf("%s: re-encoding differs from the canonical bytes", where)
			}
			if err := expectAccept(bc, p.tx, where+": admission verdict differs from the canonical object's"); err != nil {
				return err
			}
			o.Units(1)
			if v.name != "canonical" {
				o.Label("noncanonical-accepted")
			}
		}
	}
	return nil
}

func clip(b []byte) []byte {
	if len(b) > 160 {
		return b[:160]
	}
	return b
}
