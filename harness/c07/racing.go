package c07

import (
	"fmt"
	"sync"
	"time"

	"github.com/nspcc-dev/neo-go/pkg/core/native/nativehashes"
	"github.com/nspcc-dev/neo-go/pkg/core/transaction"
	"github.com/nspcc-dev/neo-go/pkg/crypto/hash"
	"github.com/nspcc-dev/neo-go/pkg/io"
	"github.com/nspcc-dev/neo-go/pkg/smartcontract/callflag"
	"github.com/nspcc-dev/neo-go/pkg/vm/emit"
	"github.com/nspcc-dev/neo-go/pkg/vm/opcode"
	"pgregory.net/rapid"
	ck "verifharness/chainkit"
	"verifharness/vt"
)

// RaceCase (STRESS with respect to goroutine scheduling): a transaction is offered to the node (PoolTx, the RPC / P2P
// path) while a block containing the very same transaction is being added (consensus / block queue path). Its second
// witness is a script that takes milliseconds to verify, so that the admission is still at work when the block
// arrives. Whatever the interleaving is, the clauses below are schedule-independent:
//   - the block is valid and is accepted;
//   - afterwards no transaction that is on chain sits in the memory pool (admission is decided against ONE ledger
//     state: "neither on chain ..."), and the pool's content still makes a proposable block.
type RaceCase struct {
	Chain  ck.ChainCfg `json:"chain"`
	Rounds []RaceRound `json:"rounds"`
}

type RaceRound struct {
	Loops   int    `json:"loops"`    // iterations of the slow verification script
	DelayUs int    `json:"delay_us"` // the block is submitted this long after the admission started
	Payer   int    `json:"payer"`
	Nonce   uint32 `json:"nonce"`
	Extra   int    `json:"extra"` // other (plain) transactions in the same block
}

func genRaceCase(t *rapid.T) RaceCase {
	c := RaceCase{Chain: ck.GenChainCfg(t, false)}
	c.Chain.MTB = 0
	n := rapid.IntRange(2, 5).Draw(t, "rounds")
	for i := 0; i < n; i++ {
		c.Rounds = append(c.Rounds, RaceRound{
			Loops:   rapid.SampledFrom([]int{2000, 10000, 30000, 60000}).Draw(t, "loops"),
			DelayUs: rapid.SampledFrom([]int{0, 50, 200, 500, 1000, 2000, 4000}).Draw(t, "delay"),
			Payer:   rapid.IntRange(0, 3).Draw(t, "payer"),
			Nonce:   rapid.Uint32().Draw(t, "nonce"),
			Extra:   rapid.IntRange(0, 2).Draw(t, "extra"),
		})
	}
	return c
}

// slowScript is a verification script that loops n times and leaves true.
func slowScript(n int) []byte {
	w := io.NewBufBinWriter()
	emit.Int(w.BinWriter, int64(n))
	// loop: DEC DUP JMPIF loop
	emit.Opcodes(w.BinWriter, opcode.DEC, opcode.DUP)
	w.WriteBytes([]byte{byte(opcode.JMPIF), 0xfe}) // back to DEC
	emit.Opcodes(w.BinWriter, opcode.DROP, opcode.PUSHT)
	return w.Bytes()
}

func checkRaceCase(c RaceCase, o *vt.Obs) error {
	b, err := ck.NewBuilder(c.Chain)
	if err != nil {
		return fmt.Errorf("builder: %v", err)
	}
	defer b.Close()
	if _, err := b.Bootstrap(); err != nil {
		return fmt.Errorf("bootstrap: %v", err)
	}
	bc := b.N.BC
	for ri, r := range c.Rounds {
		if r.Loops < 1 || r.Loops > 200000 || r.DelayUs < 0 || r.DelayUs > 100000 {
			return nil
		}
		payer := ck.Accounts[((r.Payer%4)+4)%4]
		ver := slowScript(r.Loops)
		slow := hash.Hash160(ver)
		w := io.NewBufBinWriter()
		emit.AppCall(w.BinWriter, nativehashes.GasToken, "transfer", callflag.All, payer.Hash, ck.Accounts[5].Hash, int64(1), nil)
		emit.Opcodes(w.BinWriter, opcode.ASSERT)
		tx := &transaction.Transaction{
			Nonce:           r.Nonce,
			ValidUntilBlock: bc.BlockHeight() + 2,
			Script:          w.Bytes(),
			Signers: []transaction.Signer{
				{Account: payer.Hash, Scopes: transaction.CalledByEntry},
				{Account: slow, Scopes: transaction.None},
			},
			Scripts: []transaction.Witness{
				{InvocationScript: make([]byte, 66), VerificationScript: payer.Ver},
				{InvocationScript: []byte{}, VerificationScript: ver},
			},
		}
		g, err := b.TestInvoke(tx)
		if err != nil {
			return fmt.Errorf("round %d: test invocation: %v", ri, err)
		}
		tx.SystemFee = g
		// generous network fee: the slow witness is paid by its measured cost (one loop iteration costs about
		// 3 opcodes; the exact threshold is the business of the `admission` check, here it only has to be enough)
		tx.NetworkFee = int64(io.GetVarSize(tx))*bc.FeePerByte() + 3_0000_0000
		tx.Scripts[0].InvocationScript = ck.Single(payer).Invocation(tx)
		txs := []*transaction.Transaction{tx}
		for k := 0; k < r.Extra; k++ {
			et, err := b.MakeTx(ck.Action{Kind: "gas_transfer", From: 4, A: 5, N: int64(1 + k), Nonce: r.Nonce + uint32(k) + 1})
			if err == nil {
				txs = append(txs, et)
			}
		}
		blk, err := b.NextBlock(txs, 1000, uint64(r.Nonce), 0)
		if err != nil {
			return fmt.Errorf("round %d: assembling the block: %v", ri, err)
		}
		bw := io.NewBufBinWriter()
		blk.EncodeBinary(bw.BinWriter)
		if bw.Err != nil {
			return fmt.Errorf("round %d: %v", ri, bw.Err)
		}
		nb, err := ck.DecodeBlock(bw.Bytes(), c.Chain.SRIH)
		if err != nil {
			return fmt.Errorf("round %d: own block does not decode: %v", ri, err)
		}
		offered, err := transaction.NewTransactionFromBytes(tx.Bytes())
		if err != nil {
			return fmt.Errorf("round %d: own transaction does not decode: %v", ri, err)
		}
		var (
			wg      sync.WaitGroup
			poolErr error
			t0      = time.Now()
		)
		wg.Add(1)
		go func() {
			defer wg.Done()
			poolErr = bc.PoolTx(offered)
		}()
		if r.DelayUs > 0 {
			time.Sleep(time.Duration(r.DelayUs) * time.Microsecond)
		}
		blkErr := bc.AddBlock(nb)
		wg.Wait()
		o.Units(1)
		if time.Since(t0) > 2*time.Millisecond {
			o.Label("admission-took-milliseconds")
		}
		if blkErr != nil {
			return fmt.Errorf("round %d: valid block %d refused while its transaction was being admitted concurrently: %v (admission: %v)", ri, nb.Index, blkErr, poolErr)
		}
		if poolErr == nil {
			o.Label("admission-succeeded")
		} else {
			o.Label("admission-refused")
		}
		mp := bc.GetMemPool()
		for _, t := range blk.Transactions {
			if mp.ContainsKey(t.Hash()) {
				return fmt.Errorf("round %d: transaction %s is on chain (block %d) AND in the memory pool after PoolTx (%v) ran concurrently with AddBlock (loops %d, delay %d us)",
					ri, t.Hash().StringLE(), nb.Index, poolErr, r.Loops, r.DelayUs)
			}
		}
		for _, v := range mp.GetVerifiedTransactions() {
			if _, _, err := bc.GetTransaction(v.Hash()); err == nil {
				return fmt.Errorf("round %d: pooled transaction %s is on chain", ri, v.Hash().StringLE())
			}
		}
	}
	o.NonTrivial()
	return nil
}

func init() {
	vt.Register("racing", 0.04, genRaceCase, checkRaceCase)
}
