package c07

import (
	"encoding/json"
	"fmt"
	"strings"
	"testing"

	ck "verifharness/chainkit"
	"verifharness/vt"
)

func TestProp(t *testing.T)   { vt.RunAll(t, 1500) }
func TestReplay(t *testing.T) { vt.ReplayAll(t) }

func first(err error) string {
	msg := err.Error()
	if i := strings.IndexByte(msg, '\n'); i >= 0 {
		msg = msg[:i]
	}
	return msg
}

func guarded(f func() error) (err error) {
	defer func() {
		if r := recover(); r != nil {
			err = fmt.Errorf("PANIC: %v", r)
		}
	}()
	return f()
}

// knownNonCanonicalCase is the shrunk case found by `admission`: one signer, 1-byte script, the signer count
// written as fd 01 00 instead of 01.
const knownNonCanonicalCase = `{"chain":{"profile":"V1C1"},"history":null,"tx":{"signers":[{"kind":"sig"}],"script_kind":"blob","script_size":1,"sysfee":0,"nonce":0,"vub":0},"mutation":"none","pick":0,"enc":[{"pos":0,"form":0}]}`

// TestKnownNonCanonical re-confirms the listed finding (TestProp skips non-minimal encodings while it is listed).
func TestKnownNonCanonical(t *testing.T) {
	if !vt.Known(KnownNonCanonical) {
		t.Skip("finding not listed as known: TestProp submits non-minimal encodings itself")
	}
	var c AdmCase
	if err := json.Unmarshal([]byte(knownNonCanonicalCase), &c); err != nil {
		t.Fatal(err)
	}
	err := guarded(func() error { return checkAdm(c, &vt.Obs{}, true) })
	if err == nil {
		t.Log("fixed case no longer fails")
		return
	}
	vt.KnownFinding(KnownNonCanonical, first(err))
}

// TestKnownSRIHSize re-confirms the listed finding about ApplyPolicyToTxSet on StateRootInHeader chains: it looks for
// the first script size at which the last selected transaction fits the estimate but not the real block.
func TestKnownSRIHSize(t *testing.T) {
	if !vt.Known(KnownSRIHSize) {
		t.Skip("finding not listed as known: TestProp checks the size limit on state-root chains itself")
	}
	for s := 240; s < 300; s++ {
		c := PropCase{Chain: ck.ChainCfg{Profile: "V1C1", SRIH: true, MaxBlockSize: 1500}, TimeD: 1000}
		for i := 0; i < 4; i++ {
			c.Txs = append(c.Txs, PTx{Payer: i, CoSigner: -1, Conf: -1, ScriptSize: s, Nonce: uint32(i + 1)})
		}
		err := guarded(func() error { return checkProp(c, &vt.Obs{}, false, false) })
		if err != nil {
			vt.KnownFinding(KnownSRIHSize, fmt.Sprintf("4 transactions with %d-byte scripts: %s", s, first(err)))
			return
		}
	}
	t.Log("no script size in 240..299 reproduces the excess any more")
}
