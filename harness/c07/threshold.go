package c07

import (
	"fmt"

	"github.com/nspcc-dev/neo-go/pkg/core"
	"github.com/nspcc-dev/neo-go/pkg/util"
	"pgregory.net/rapid"
	ck "verifharness/chainkit"
	"verifharness/vt"
)

// ThrCase enumerates every m-of-n multisignature witness (1 <= m <= n <= 7) under one drawn fee policy.
type ThrCase struct {
	Chain      ck.ChainCfg `json:"chain"`
	FeePerByte int64       `json:"fee_per_byte"`
	ExecFee    int64       `json:"exec_fee"` // argument of Policy.setExecFeeFactor (pico units from Faun on)
	Sender     bool        `json:"sender"`   // the multisig account pays (otherwise it co-signs after a single-signature payer)
	KeyOff     int         `json:"key_off"`  // offset into the key pool
	ScriptSize int         `json:"script_size"`
	Scope      int         `json:"scope"`
	Nonce      uint32      `json:"nonce"`
	// Spell > 0: every script has one of its counts in another spelling (SignerSpec.Spell); the claim holds for those of
	// them the repository's classifier takes for standard multisignature contracts, the others are only counted.
	Spell int `json:"spell,omitempty"`
}

func genThrCase(t *rapid.T) ThrCase {
	return ThrCase{
		Chain:      ck.ChainCfg{Profile: rapid.SampledFrom([]string{"V1C1", "V4C6"}).Draw(t, "profile"), HFStagger: rapid.IntRange(0, 3).Draw(t, "stagger") == 0},
		FeePerByte: rapid.SampledFrom([]int64{0, 1, 999, 1000, 1001, 10000}).Draw(t, "fpb"),
		ExecFee:    rapid.SampledFrom([]int64{1, 7, 30, 100, 9999, 10001, 123457, 300000, 1000000}).Draw(t, "eff"),
		Sender:     rapid.Bool().Draw(t, "sender"),
		KeyOff:     rapid.IntRange(0, 8).Draw(t, "koff"),
		ScriptSize: rapid.SampledFrom([]int{1, 100, 252, 253, 1000}).Draw(t, "ssize"),
		Scope:      rapid.IntRange(0, 7).Draw(t, "scope"),
		Nonce:      rapid.Uint32().Draw(t, "nonce"),
		Spell:      rapid.SampledFrom([]int{0, 0, 0, 1, 2, 3, 4, 5, 6, 7, 8, 9, 10, 11, 12}).Draw(t, "spell"),
	}
}

func checkThrCase(c ThrCase, o *vt.Obs) error {
	e, err := newEnv(c.Chain)
	if err != nil {
		return err
	}
	defer e.close()
	k, bc := e.k, e.k.bc
	pol := ck.BlockSpec{TimeD: 1000, Txs: []ck.Action{
		{Kind: "policy", From: 4, S: "setFeePerByte", N: c.FeePerByte, Nonce: c.Nonce + 1},
		{Kind: "policy", From: 5, S: "setExecFeeFactor", N: c.ExecFee, Nonce: c.Nonce + 2},
	}}
	if err := e.specBlock(pol, false); err != nil {
		return err
	}
	type mn struct{ m, n int }
	var all []mn
	var hashes []util.Uint160
	var amounts []int64
	for n := 1; n <= 7; n++ {
		for m := 1; m <= n; m++ {
			all = append(all, mn{m, n})
			r, _ := k.resolve(SignerSpec{Kind: "multi", Key: c.KeyOff, M: m, N: n, Spell: c.Spell})
			hashes = append(hashes, r.hash)
			amounts = append(amounts, 50_0000_0000)
		}
	}
	if c.Sender {
		if err := e.fund(hashes, amounts); err != nil {
			return fmt.Errorf("funding: %v", err)
		}
	}
	o.Labelf("execfee-%d", bc.GetBaseExecFee())
	for i, x := range all {
		ms := SignerSpec{Kind: "multi", Key: c.KeyOff, M: x.m, N: x.n, Scope: c.Scope, Spell: c.Spell}
		spec := TxSpec{ScriptKind: "blob", ScriptSize: c.ScriptSize, Nonce: c.Nonce + uint32(10+i), VUB: uint32(i)}
		if c.Sender {
			spec.Signers = []SignerSpec{ms}
		} else {
			spec.Signers = []SignerSpec{{Kind: "sig", Key: i}, ms}
		}
		if r, _ := k.resolve(ms); !r.standard {
			// the classifier does not take this spelling for a standard contract: no claim about the calculator
			if c.Spell == 0 {
				return fmt.Errorf("harness: builder-made %d-of-%d script is not standard", x.m, x.n)
			}
			o.Labelf("spelling-%d-not-standard", c.Spell)
			continue
		}
		T, err := k.build(spec, mods{})
		if err != nil {
			return fmt.Errorf("%d-of-%d: %v", x.m, x.n, err)
		}
		what := fmt.Sprintf("%d-of-%d multisig (sender=%v, count spelling %d): %s", x.m, x.n, c.Sender, c.Spell, describe(T))
		if c.Spell > 0 {
			o.Labelf("spelling-%d-standard", c.Spell)
		}
		if err := expectAccept(bc, T.tx, "network fee = calculator's fee; "+what); err != nil {
			return err
		}
		if err := expectReject(bc, k.refee(T, T.need-1), "network fee = calculator's fee - 1; "+what, core.ErrTxSmallNetworkFee, core.ErrVerificationFailed); err != nil {
			return err
		}
		o.Units(2)
	}
	o.Label("threshold-pair-multisig")
	o.NonTrivial()
	return nil
}
