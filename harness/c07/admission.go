package c07

import (
	"bytes"
	"errors"
	"fmt"

	"github.com/nspcc-dev/neo-go/pkg/core"
	"github.com/nspcc-dev/neo-go/pkg/core/block"
	"github.com/nspcc-dev/neo-go/pkg/core/native/nativehashes"
	"github.com/nspcc-dev/neo-go/pkg/core/transaction"
	"github.com/nspcc-dev/neo-go/pkg/io"
	"github.com/nspcc-dev/neo-go/pkg/smartcontract/callflag"
	"github.com/nspcc-dev/neo-go/pkg/util"
	"github.com/nspcc-dev/neo-go/pkg/vm/emit"
	"github.com/nspcc-dev/neo-go/pkg/vm/opcode"
	"pgregory.net/rapid"
	ck "verifharness/chainkit"
	"verifharness/vt"
)

// KnownNonCanonical is the key of the known finding "NewTransactionFromBytes hashes the received bytes".
const KnownNonCanonical = "tx-noncanonical-encoding-hash"

// Mutation kinds ("none" = valid instance). Each mutant is invalid in exactly one respect.
var mutations = []string{
	"none", "none", "none",
	"expired", "vub_far", "onchain", "conflict_onchain", "conflict_onchain_other_signer", "blocked",
	"conflict_onchain", "conflict_onchain", "conflict_onchain_other_signer",
	"badsig", "permute", "oversize", "max_size", "badscript",
	"high_nocommittee", "dup_conflicts", "conflicts_names_onchain", "nvb_future", "notary_nosigner",
	"underfunded", "exact_funds", "fee_minus_one", "fee_below_size",
}

// AdmCase is one admission case.
type AdmCase struct {
	Chain    ck.ChainCfg    `json:"chain"`
	History  []ck.BlockSpec `json:"history"` // committee-signed Policy changes and a little traffic
	Tx       TxSpec         `json:"tx"`
	Mutation string         `json:"mutation"`
	Pick     int            `json:"pick"`            // selects the signer / witness a mutation applies to
	Noise    int            `json:"noise,omitempty"` // unrelated valid transactions sitting in the pool (0-2)
	// conflict_onchain*: the on-chain transaction B carries ConfN (1-3) Conflicts attributes; the victim is named by
	// attribute number ConfPos, the other hashes are never-sent transactions of the same signers; B has BSig (1-3) signers.
	ConfN   int       `json:"conf_n,omitempty"`
	ConfPos int       `json:"conf_pos,omitempty"`
	BSig    int       `json:"b_sig,omitempty"`
	Enc     []encPick `json:"enc,omitempty"` // non-minimal re-encodings of the valid instance to submit
}

func genChain(t *rapid.T) ck.ChainCfg {
	c := ck.ChainCfg{
		Profile: rapid.SampledFrom([]string{"V1C1", "V1C1", "V1C3", "V4C6"}).Draw(t, "profile"),
		SRIH:    rapid.Bool().Draw(t, "srih"),
	}
	switch rapid.IntRange(0, 3).Draw(t, "ext") {
	case 0:
		c.HFStagger = true // hardforks (Echidna, Faun: fee units change) become active during the history
	case 1, 2:
		c.P2PSig = true
	}
	return c
}

func genPolicyAction(t *rapid.T) ck.Action {
	a := ck.Action{Kind: "policy", From: 4 + rapid.IntRange(0, 1).Draw(t, "payer"), Nonce: rapid.Uint32().Draw(t, "pnonce")}
	switch rapid.IntRange(0, 6).Draw(t, "pk") {
	case 0, 1:
		a.S = "setFeePerByte"
		a.N = rapid.SampledFrom([]int64{0, 1, 7, 999, 1000, 1001, 5000, 10000}).Draw(t, "fpb")
	case 2, 3:
		a.S = "setExecFeeFactor" // before Faun: datoshi units 1..100; from Faun on: pico units 1..1000000
		a.N = rapid.SampledFrom([]int64{1, 3, 29, 30, 31, 100, 9999, 10000, 10001, 123457, 300000, 299999, 1000000}).Draw(t, "eff")
	default:
		a.S = "setAttributeFee"
		a.A = rapid.SampledFrom([]int{1, 0x20, 0x21, 0x21, 0x22}).Draw(t, "attr")
		a.N = rapid.SampledFrom([]int64{0, 1, 12345, 1000_0000, 1_0000_0000}).Draw(t, "afee")
	}
	return a
}

func genHistory(t *rapid.T, maxBlocks int) []ck.BlockSpec {
	n := rapid.IntRange(0, maxBlocks).Draw(t, "nblocks")
	var hs []ck.BlockSpec
	for i := 0; i < n; i++ {
		bs := ck.BlockSpec{TimeD: uint32(rapid.IntRange(1, 5000).Draw(t, "timed")), Nonce: rapid.Uint64().Draw(t, "bnonce"), Primary: rapid.IntRange(0, 3).Draw(t, "primary")}
		for j := rapid.IntRange(0, 2).Draw(t, "ntx"); j > 0; j-- {
			if rapid.IntRange(0, 4).Draw(t, "traffic") == 0 {
				bs.Txs = append(bs.Txs, ck.Action{Kind: "gas_transfer", From: rapid.IntRange(0, 5).Draw(t, "tfrom"), A: rapid.IntRange(0, 5).Draw(t, "tto"), N: rapid.Int64Range(1, 100000).Draw(t, "tamt"), Nonce: rapid.Uint32().Draw(t, "tnonce")})
			} else {
				bs.Txs = append(bs.Txs, genPolicyAction(t))
			}
		}
		hs = append(hs, bs)
	}
	return hs
}

var scriptSizes = []int{1, 2, 3, 4, 5, 40, 100, 252, 253, 254, 259, 260, 261, 1000, 4000, 20000, 61440, 65535}

func genKeySigner(t *rapid.T, allowMulti bool) SignerSpec {
	s := SignerSpec{Kind: "sig", Key: rapid.IntRange(0, 3).Draw(t, "key"), Scope: rapid.IntRange(0, 7).Draw(t, "scope")}
	if allowMulti && rapid.Bool().Draw(t, "multi") {
		s.Kind = "multi"
		s.N = rapid.IntRange(1, 7).Draw(t, "n")
		s.M = rapid.IntRange(1, s.N).Draw(t, "m")
		s.Key = rapid.IntRange(0, 8).Draw(t, "koff")
	}
	return s
}

func genSigner(t *rapid.T) SignerSpec {
	if rapid.IntRange(0, 3).Draw(t, "iscontract") == 0 {
		return SignerSpec{Kind: "contract", Key: rapid.IntRange(0, 1).Draw(t, "ckey"), Scope: rapid.IntRange(0, 7).Draw(t, "scope")}
	}
	return genKeySigner(t, true)
}

func hasKind(ss []SignerSpec, kind string) bool {
	for _, s := range ss {
		if s.Kind == kind {
			return true
		}
	}
	return false
}

func genTxSpec(t *rapid.T, chain ck.ChainCfg, mutation string) TxSpec {
	spec := TxSpec{
		ScriptKind: rapid.SampledFrom([]string{"blob", "blob", "blob", "put"}).Draw(t, "skind"),
		SysFee:     rapid.SampledFrom([]int64{0, 1, 100000, 1_0000_0000, 5_0000_0000}).Draw(t, "sysfee"),
		Nonce:      rapid.Uint32().Draw(t, "nonce"),
		VUB:        uint32(rapid.IntRange(0, 600).Draw(t, "vub")),
		VUBMax:     rapid.IntRange(0, 4).Draw(t, "vubmax") == 0,
	}
	if rapid.IntRange(0, 2).Draw(t, "szsel") == 0 {
		spec.ScriptSize = rapid.IntRange(1, 61440).Draw(t, "ssize")
	} else {
		spec.ScriptSize = rapid.SampledFrom(scriptSizes).Draw(t, "ssize_s")
	}
	standardOnly := mutation == "fee_minus_one" || mutation == "max_size" || mutation == "oversize"
	n := rapid.IntRange(1, 4).Draw(t, "nsigners")
	for i := 0; i < n; i++ {
		if standardOnly {
			spec.Signers = append(spec.Signers, genKeySigner(t, true))
		} else {
			spec.Signers = append(spec.Signers, genSigner(t))
		}
	}
	shape := rapid.SampledFrom([]string{"plain", "plain", "plain", "high", "notary_sender", "notary_cosigner"}).Draw(t, "shape")
	if !chain.P2PSig && (shape == "notary_sender" || shape == "notary_cosigner") {
		shape = "plain"
	}
	if mutation == "notary_nosigner" {
		shape = "plain" // the mutant adds the attribute without the Notary signer
	}
	if standardOnly && shape != "high" {
		shape = "plain"
	}
	if mutation == "high_nocommittee" {
		shape = "high"
	}
	if mutation == "underfunded" || mutation == "exact_funds" {
		if shape != "high" {
			shape = "plain"
		}
		spec.Signers[0] = SignerSpec{Kind: "fresh", Scope: rapid.IntRange(0, 2).Draw(t, "fscope")}
	}
	for j := rapid.IntRange(0, 3).Draw(t, "nattrs"); j > 0; j-- {
		switch rapid.IntRange(0, 2).Draw(t, "ak") {
		case 0, 1:
			spec.Attrs = append(spec.Attrs, AttrSpec{Kind: "conflicts", N: rapid.IntRange(0, 2).Draw(t, "cseed")})
		default:
			spec.Attrs = append(spec.Attrs, AttrSpec{Kind: "nvb", N: rapid.IntRange(0, 3).Draw(t, "nvbd")})
		}
	}
	switch shape {
	case "high":
		spec.Attrs = append(spec.Attrs, AttrSpec{Kind: "high"})
		at := rapid.IntRange(0, len(spec.Signers)).Draw(t, "cpos")
		if at == 0 && (mutation == "underfunded" || mutation == "exact_funds") {
			at = 1
		}
		com := SignerSpec{Kind: "committee", Scope: rapid.SampledFrom([]int{0, 2, 1}).Draw(t, "cscope")}
		spec.Signers = append(spec.Signers[:at], append([]SignerSpec{com}, spec.Signers[at:]...)...)
	case "notary_sender":
		spec.Signers = []SignerSpec{{Kind: "notary"}, {Kind: "sig", Key: rapid.IntRange(0, 1).Draw(t, "depositor"), Scope: rapid.IntRange(0, 7).Draw(t, "dscope")}}
		spec.Attrs = append(spec.Attrs, AttrSpec{Kind: "notary", N: rapid.SampledFrom([]int{0, 1, 2, 3, 3, 16, 127, 128, 254, 255}).Draw(t, "nkeys")})
		spec.SysFee = min(spec.SysFee, 1_0000_0000)
	case "notary_cosigner":
		spec.Signers = append(spec.Signers, SignerSpec{Kind: "notary"})
		spec.Attrs = append(spec.Attrs, AttrSpec{Kind: "notary", N: rapid.SampledFrom([]int{0, 1, 2, 3, 3, 16, 127, 128, 254, 255}).Draw(t, "nkeys")})
	}
	// Mutations that act on a key-based witness need one.
	if mutation == "badsig" || mutation == "permute" {
		if !hasKind(spec.Signers, "sig") && !hasKind(spec.Signers, "multi") && !hasKind(spec.Signers, "committee") {
			spec.Signers = append(spec.Signers, genKeySigner(t, true))
		}
	}
	if mutation == "permute" && len(spec.Signers) < 2 {
		spec.Signers = append(spec.Signers, SignerSpec{Kind: "multi", Key: rapid.IntRange(0, 8).Draw(t, "pk"), M: 1, N: 2})
	}
	if mutation == "fee_minus_one" && len(spec.Signers) == 1 && spec.Signers[0].Kind == "sig" && rapid.Bool().Draw(t, "force2") {
		spec.Signers = append(spec.Signers, genKeySigner(t, true))
	}
	if mutation == "max_size" || mutation == "oversize" {
		spec.ScriptKind = "blob"
		spec.ScriptSize = rapid.IntRange(14000, 16000).Draw(t, "bigscript")
	}
	return spec
}

func genAdmCase(t *rapid.T) AdmCase {
	c := AdmCase{Chain: genChain(t)}
	c.Mutation = rapid.SampledFrom(mutations).Draw(t, "mutation")
	c.History = genHistory(t, 8)
	c.Tx = genTxSpec(t, c.Chain, c.Mutation)
	c.Pick = rapid.IntRange(0, 7).Draw(t, "pick")
	c.Noise = rapid.IntRange(0, 2).Draw(t, "noise")
	if c.Mutation == "conflict_onchain" || c.Mutation == "conflict_onchain_other_signer" {
		c.ConfN = rapid.SampledFrom([]int{1, 2, 2, 3, 3, 3}).Draw(t, "conf_n")
		c.ConfPos = rapid.IntRange(0, c.ConfN-1).Draw(t, "conf_pos")
		c.BSig = rapid.IntRange(1, 3).Draw(t, "b_sig")
	}
	if c.Mutation == "none" || rapid.IntRange(0, 3).Draw(t, "encany") == 0 {
		for j := rapid.IntRange(0, 3).Draw(t, "nenc"); j > 0; j-- {
			c.Enc = append(c.Enc, encPick{Pos: rapid.IntRange(0, 40).Draw(t, "epos"), Form: rapid.IntRange(0, 2).Draw(t, "eform")})
		}
	}
	return c
}

// env is a chain prepared for admission probes.
type env struct {
	k    *kit
	raws [][]byte // every block so far, as bytes
	n    uint32   // nonce counter for harness-made set-up transactions
}

func newEnv(chain ck.ChainCfg) (*env, error) {
	b, err := ck.NewBuilder(chain)
	if err != nil {
		return nil, fmt.Errorf("builder: %v", err)
	}
	boot, err := b.Bootstrap()
	if err != nil {
		b.Close()
		return nil, fmt.Errorf("bootstrap: %v", err)
	}
	return &env{k: &kit{b: b, bc: b.N.BC}, raws: boot, n: 0x70000000}, nil
}

func (e *env) close() { e.k.b.Close() }

func (e *env) nonce() uint32 { e.n++; return e.n }

// specBlock adds a block of chainkit actions; rejected actions are an error when strict.
func (e *env) specBlock(spec ck.BlockSpec, strict bool) error {
	before := 0
	for _, v := range e.k.b.Rejected {
		before += v
	}
	raw, _, err := e.k.b.BuildBlock(spec)
	if err != nil {
		return err
	}
	e.raws = append(e.raws, raw)
	after := 0
	for _, v := range e.k.b.Rejected {
		after += v
	}
	if strict && after != before {
		return fmt.Errorf("set-up transaction rejected: %v", e.k.b.Rejected)
	}
	return nil
}

// txBlock adds a block made of already built transactions (all must be admitted by the builder node).
func (e *env) txBlock(txs ...*transaction.Transaction) (*block.Block, error) {
	bc := e.k.bc
	for _, tx := range txs {
		if err := bc.PoolTx(tx); err != nil {
			return nil, fmt.Errorf("set-up transaction not admitted: %v", err)
		}
	}
	blk, err := e.k.b.NextBlock(txs, 1000, uint64(e.nonce()), 0)
	if err != nil {
		return nil, err
	}
	if err := bc.AddBlock(blk); err != nil {
		return nil, fmt.Errorf("set-up block rejected: %v", err)
	}
	w := io.NewBufBinWriter()
	blk.EncodeBinary(w.BinWriter)
	e.raws = append(e.raws, w.Bytes())
	return blk, nil
}

// rawBlock adds a block of transactions that never pass through the builder node's pool (a block made elsewhere).
func (e *env) rawBlock(txs ...*transaction.Transaction) error {
	blk, err := e.k.b.NextBlock(txs, 1000, uint64(e.nonce()), 0)
	if err != nil {
		return err
	}
	w := io.NewBufBinWriter()
	blk.EncodeBinary(w.BinWriter)
	raw := w.Bytes()
	dec, err := ck.DecodeBlock(raw, e.k.b.N.Chain.SRIH)
	if err != nil {
		return err
	}
	if err := e.k.bc.AddBlock(dec); err != nil {
		return err
	}
	e.raws = append(e.raws, raw)
	return nil
}

// fund transfers GAS from the genesis holder (standby validators multisig).
func (e *env) fund(to []util.Uint160, amount []int64) error {
	from := e.k.b.PartyHash(ck.PValidators)
	err := e.specBlock(ck.BlockSpec{TimeD: 1000, Txs: []ck.Action{{Kind: "raw", From: ck.PValidators, V: gasTransferScript(from, to, amount), Nonce: e.nonce()}}}, true)
	if err != nil {
		return err
	}
	return nil
}

// execTx builds a set-up transaction paid by an outsider account whose script really has to run (system fee measured).
func (e *env) execTx(signers []SignerSpec, attrs []transaction.Attribute, script []byte) (*transaction.Transaction, error) {
	spec := TxSpec{Signers: signers, Nonce: e.nonce(), VUB: 3}
	m := mods{script: script, extraAttrs: attrs}
	tmpl, _, err := e.k.template(spec, m)
	if err != nil {
		return nil, err
	}
	gas, err := e.k.b.TestInvoke(tmpl)
	if err != nil {
		return nil, fmt.Errorf("set-up script fails: %v", err)
	}
	spec.SysFee = gas + 1000
	b, err := e.k.build(spec, m)
	if err != nil {
		return nil, err
	}
	return b.tx, nil
}

func fromBytesBoth(raw []byte) (rawTx *transaction.Transaction, rawErr error, blkTx *transaction.Transaction, blkErr error) {
	rawTx, rawErr = transaction.NewTransactionFromBytes(raw)
	blkTx = &transaction.Transaction{}
	r := io.NewBinReaderFromBuf(raw)
	blkTx.DecodeBinary(r)
	blkErr = r.Err
	if blkErr == nil && r.Len() != 0 {
		blkErr = errors.New("trailing bytes")
	}
	return
}

// expectReject checks a mutant's verdict, error class and the pool bookkeeping.
func expectReject(bc *core.Blockchain, tx *transaction.Transaction, what string, classes ...error) error {
	adm, viol := probe(bc, tx)
	if viol != nil {
		return fmt.Errorf("%s: %v", what, viol)
	}
	if adm == nil {
		return fmt.Errorf("%s: accepted into the memory pool, must be rejected (tx %s, size %d, netfee %d)", what, tx.Hash().StringLE(), tx.Size(), tx.NetworkFee)
	}
	if len(classes) > 0 && !isAny(adm, classes...) {
		return fmt.Errorf("%s: rejected with an error of an unexpected class: %v", what, adm)
	}
	return nil
}

func expectAccept(bc *core.Blockchain, tx *transaction.Transaction, what string) error {
	adm, viol := probe(bc, tx)
	if viol != nil {
		return fmt.Errorf("%s: %v", what, viol)
	}
	if adm != nil {
		return fmt.Errorf("%s: rejected, must be accepted: %v (tx size %d, netfee %d, sysfee %d, vub %d, height %d)", what, adm, tx.Size(), tx.NetworkFee, tx.SystemFee, tx.ValidUntilBlock, bc.BlockHeight())
	}
	return nil
}

var witnessErrs = []error{core.ErrWitnessHashMismatch, core.ErrUnknownVerificationContract, core.ErrInvalidVerificationContract,
	core.ErrVerificationFailed, core.ErrInvalidVerificationScript, core.ErrInvalidInvocationScript, core.ErrNativeContractWitness}

func flipSigBit(tx *transaction.Transaction, rs []rsigner, pick int) bool {
	var idx []int
	for i, r := range rs {
		if r.actor != nil || r.kind == "notary" {
			idx = append(idx, i)
		}
	}
	if len(idx) == 0 {
		return false
	}
	i := idx[mod(pick, len(idx))]
	inv := bytes.Clone(tx.Scripts[i].InvocationScript)
	// PUSHDATA1 0x40 <64 bytes>: flip a bit inside the first signature, never in the push header.
	inv[2+mod(pick*7, 64)] ^= 1 << uint(mod(pick, 8))
	tx.Scripts[i].InvocationScript = inv
	return true
}

func checkAdmCase(c AdmCase, o *vt.Obs) error {
	return checkAdm(c, o, !vt.Known(KnownNonCanonical))
}

// checkAdm evaluates one admission case; nonCanon tells whether non-minimal re-encodings are submitted.
func checkAdm(c AdmCase, o *vt.Obs, nonCanon bool) error {
	e, err := newEnv(c.Chain)
	if err != nil {
		return err
	}
	defer e.close()
	k, bc := e.k, e.k.bc

	// --- prior history: funding of a non-account sender, then generated Policy changes -------------------------
	first, err := k.resolve(c.Tx.Signers[0])
	if err != nil {
		return err
	}
	if first.kind != "sig" && first.kind != "notary" && first.kind != "fresh" {
		if err := e.fund([]util.Uint160{first.hash}, []int64{200_0000_0000}); err != nil {
			return fmt.Errorf("funding the sender: %v", err)
		}
	}
	for i, bs := range c.History {
		if err := e.specBlock(bs, false); err != nil {
			return fmt.Errorf("history block %d: %v", i, err)
		}
	}
	for i := 0; i < c.Noise; i++ {
		nb, err := k.build(TxSpec{Signers: []SignerSpec{{Kind: "outsider", Key: i}}, ScriptKind: "blob", ScriptSize: 3 + i, Nonce: e.nonce(), VUB: 5, ExtraFee: int64(i) * 1000}, mods{})
		if err != nil {
			return fmt.Errorf("noise tx: %v", err)
		}
		if err := bc.PoolTx(nb.tx); err != nil {
			return fmt.Errorf("valid single-signature noise transaction rejected: %v", err)
		}
	}
	o.Labelf("feePerByte-%s", bucket(bc.FeePerByte()))

	mut := c.Mutation
	needsSetup := mut == "onchain" || mut == "conflict_onchain" || mut == "conflict_onchain_other_signer" || mut == "blocked" || mut == "underfunded" || mut == "exact_funds"
	vm := mods{}
	if needsSetup {
		vm.minVUBOff = 1
		if bc.GetMaxValidUntilBlockIncrement() < 2 {
			mut, needsSetup, vm.minVUBOff = "none", false, 0
		}
	}
	if mut == "max_size" {
		vm.bigRules, vm.targetSize = true, transaction.MaxTransactionSize
	}

	// --- the valid instance ---------------------------------------------------------------------------------------
	T, err := k.build(c.Tx, vm)
	if err != nil {
		return fmt.Errorf("building the valid instance: %v", err)
	}
	canon, sites, _, err := encodeTx(T.tx, nil)
	if err != nil {
		return err
	}
	if !bytes.Equal(canon, txBytes(T.tx)) {
		return fmt.Errorf("harness self-check: own canonical encoding differs from EncodeBinary")
	}
	o.Labelf("signers-%d", len(T.rs))
	for _, r := range T.rs {
		o.Label("signer-kind-" + r.kind)
	}
	if T.standard {
		o.Label("all-standard-witnesses")
	} else {
		o.Label("has-contract-witness")
	}

	funded := mut != "underfunded" && mut != "exact_funds"
	if mut == "underfunded" || mut == "exact_funds" {
		amount := T.tx.SystemFee + T.tx.NetworkFee
		if mut == "underfunded" {
			amount--
		}
		if amount > 0 {
			if err := e.fund([]util.Uint160{T.rs[0].hash}, []int64{amount}); err != nil {
				return fmt.Errorf("funding the fresh sender: %v", err)
			}
		}
		if got := gasBalance(bc, T.rs[0].hash); got.Int64() != amount {
			return fmt.Errorf("harness: fresh sender holds %v, wanted %d", got, amount)
		}
		funded = mut == "exact_funds"
	}

	if funded {
		if err := expectAccept(bc, clone(T.tx), "valid instance ("+describe(T)+")"); err != nil {
			return err
		}
		o.Label("valid-accepted")
		if mut == "exact_funds" {
			o.Label("exact_funds/accepted")
		}
		if mut == "max_size" {
			o.Label("max_size/accepted")
		}
	}

	// --- threshold exactness (claimed for standard signature / multisignature witnesses only) --------------------
	multiWitness := false
	for _, r := range T.rs {
		if r.kind == "multi" || r.kind == "committee" {
			multiWitness = true
		}
	}
	if T.standard && funded && c.Tx.ExtraFee == 0 {
		low := k.refee(T, T.need-1)
		if err := expectReject(bc, low, fmt.Sprintf("threshold: network fee %d = calculator's fee - 1 (%s)", T.need-1, describe(T)), core.ErrTxSmallNetworkFee, core.ErrVerificationFailed); err != nil {
			return err
		}
		o.Units(1)
		if multiWitness {
			o.Label("threshold-pair-multisig")
		}
		if len(T.rs) >= 2 {
			o.Label("threshold-pair-multi-signer")
		}
		if multiWitness || len(T.rs) >= 2 {
			o.NonTrivial()
		}
		if mut == "fee_minus_one" {
			o.Label("fee_minus_one/rejected")
		}
	}

	// --- encodings of the valid instance through both arrival paths --------------------------------------------------
	if funded {
		if err := checkEncodings(c, bc, T, canon, sites, o, nonCanon); err != nil {
			return err
		}
	}

	// --- the mutant --------------------------------------------------------------------------------------------------
	h := bc.BlockHeight()
	pickSigner := func(pred func(r rsigner) bool) int {
		var idx []int
		for i, r := range T.rs {
			if pred(r) {
				idx = append(idx, i)
			}
		}
		if len(idx) == 0 {
			return -1
		}
		return idx[mod(c.Pick, len(idx))]
	}
	notNotary := func(r rsigner) bool { return r.kind != "notary" }
	rejected := func() { o.Label(mut + "/rejected") }
	switch mut {
	case "none", "exact_funds", "max_size", "fee_minus_one":
		if mut == "none" {
			o.Label("none/accepted")
		}
	case "expired":
		v := h - uint32(mod(c.Pick, 2)) // VUB = height or height-1
		M, err := k.build(c.Tx, mods{vubAbs: &v})
		if err != nil {
			return err
		}
		if err := expectReject(bc, M.tx, fmt.Sprintf("expired (VUB %d at height %d)", v, h), core.ErrTxExpired); err != nil {
			return err
		}
		rejected()
	case "vub_far":
		v := h + bc.GetMaxValidUntilBlockIncrement() + 1 + uint32(mod(c.Pick, 2))
		M, err := k.build(c.Tx, mods{vubAbs: &v})
		if err != nil {
			return err
		}
		if err := expectReject(bc, M.tx, fmt.Sprintf("VUB %d beyond height %d + increment %d", v, h, bc.GetMaxValidUntilBlockIncrement()), core.ErrTxNotYetValid); err != nil {
			return err
		}
		rejected()
	case "badscript":
		bad := [][]byte{
			{byte(opcode.PUSH1), byte(opcode.JMP), 0x7f},                                   // jump beyond the end
			{byte(opcode.JMP), 0xfe, byte(opcode.RET)},                                     // jump before the start
			{byte(opcode.PUSHDATA1), 0x05, 0x01},                                           // truncated operand
			{byte(opcode.PUSH1), byte(opcode.JMP), 0x02, 0xff, 0x40},                       // 0xff is not an opcode
			{byte(opcode.PUSHDATA1), 0x02, byte(opcode.JMP), 0x00, byte(opcode.JMP), 0xfd}, // jump into the middle of an instruction
		}[mod(c.Pick, 5)]
		M, err := k.build(c.Tx, mods{script: bad})
		if err != nil {
			return err
		}
		if err := expectReject(bc, M.tx, fmt.Sprintf("malformed script %x", bad), core.ErrInvalidScript); err != nil {
			return err
		}
		rejected()
	case "oversize":
		M, err := k.build(c.Tx, mods{bigRules: true, targetSize: transaction.MaxTransactionSize + 1})
		if err != nil {
			return fmt.Errorf("oversize mutant: %v", err)
		}
		if _, rerr, _, berr := fromBytesBoth(txBytes(M.tx)); rerr != nil || berr != nil {
			return fmt.Errorf("harness: oversize mutant is not decodable: %v / %v", rerr, berr)
		}
		if err := expectReject(bc, M.tx, fmt.Sprintf("size %d > MaxTransactionSize", M.size), core.ErrTxTooBig); err != nil {
			return err
		}
		rejected()
	case "high_nocommittee":
		spec := c.Tx
		spec.Signers = nil
		for _, s := range c.Tx.Signers {
			if s.Kind != "committee" {
				spec.Signers = append(spec.Signers, s)
			}
		}
		if len(spec.Signers) == 0 {
			spec.Signers = []SignerSpec{{Kind: "sig", Key: c.Pick}}
		}
		if f, _ := k.resolve(spec.Signers[0]); f.hash != first.hash && f.kind != "sig" {
			spec.Signers = append([]SignerSpec{{Kind: "sig", Key: c.Pick}}, spec.Signers...)
		}
		M, err := k.build(spec, mods{})
		if err != nil {
			return err
		}
		if err := expectReject(bc, M.tx, "HighPriority without committee signer", core.ErrInvalidAttribute); err != nil {
			return err
		}
		rejected()
	case "dup_conflicts":
		hh := fakeHash(100 + c.Pick)
		dup := []transaction.Attribute{{Type: transaction.ConflictsT, Value: &transaction.Conflicts{Hash: hh}}, {Type: transaction.ConflictsT, Value: &transaction.Conflicts{Hash: hh}}}
		M, err := k.build(c.Tx, mods{extraAttrs: dup})
		if err != nil {
			return err
		}
		if err := expectReject(bc, M.tx, "duplicate Conflicts attribute", core.ErrInvalidAttribute); err != nil {
			return err
		}
		rejected()
	case "conflicts_names_onchain":
		blk, err := bc.GetBlock(bc.GetHeaderHash(1 + uint32(mod(c.Pick, int(h)))))
		if err != nil {
			return err
		}
		if len(blk.Transactions) == 0 {
			o.Label(mut + "/inapplicable")
			break
		}
		on := blk.Transactions[mod(c.Pick, len(blk.Transactions))].Hash()
		M, err := k.build(c.Tx, mods{extraAttrs: []transaction.Attribute{{Type: transaction.ConflictsT, Value: &transaction.Conflicts{Hash: on}}}})
		if err != nil {
			return err
		}
		if err := expectReject(bc, M.tx, "Conflicts attribute naming an on-chain transaction", core.ErrInvalidAttribute); err != nil {
			return err
		}
		rejected()
	case "nvb_future":
		spec := c.Tx
		spec.Attrs = nil
		for _, a := range c.Tx.Attrs {
			if a.Kind != "nvb" {
				spec.Attrs = append(spec.Attrs, a)
			}
		}
		nvb := h + 1 + uint32(mod(c.Pick, 3))
		M, err := k.build(spec, mods{extraAttrs: []transaction.Attribute{{Type: transaction.NotValidBeforeT, Value: &transaction.NotValidBefore{Height: nvb}}}})
		if err != nil {
			return err
		}
		if err := expectReject(bc, M.tx, fmt.Sprintf("NotValidBefore %d at height %d", nvb, h), core.ErrInvalidAttribute); err != nil {
			return err
		}
		rejected()
	case "notary_nosigner":
		if !c.Chain.P2PSig {
			o.Label(mut + "/inapplicable")
			break
		}
		M, err := k.build(c.Tx, mods{extraAttrs: []transaction.Attribute{{Type: transaction.NotaryAssistedT, Value: &transaction.NotaryAssisted{NKeys: uint8(mod(c.Pick, 3))}}}})
		if err != nil {
			return err
		}
		if err := expectReject(bc, M.tx, "NotaryAssisted without Notary signer", core.ErrInvalidAttribute); err != nil {
			return err
		}
		rejected()
	case "fee_below_size":
		if T.sizeFee+T.attrFee == 0 {
			o.Label(mut + "/inapplicable")
			break
		}
		M, err := k.build(c.Tx, mods{sizeFloor: true})
		if err != nil {
			return err
		}
		if err := expectReject(bc, M.tx, fmt.Sprintf("network fee %d < size %d x feePerByte %d + attribute fees %d", M.tx.NetworkFee, M.size, bc.FeePerByte(), M.attrFee), core.ErrTxSmallNetworkFee); err != nil {
			return err
		}
		rejected()
	case "badsig":
		M := clone(T.tx)
		if !flipSigBit(M, T.rs, c.Pick) {
			o.Label(mut + "/inapplicable")
			break
		}
		if err := expectReject(bc, M, "one signature bit flipped", core.ErrVerificationFailed); err != nil {
			return err
		}
		rejected()
	case "permute":
		M := clone(T.tx)
		i, j := -1, -1
		for a := 0; a < len(M.Scripts) && i < 0; a++ {
			for b := a + 1; b < len(M.Scripts); b++ {
				if !bytes.Equal(M.Scripts[a].VerificationScript, M.Scripts[b].VerificationScript) {
					i, j = a, b
					break
				}
			}
		}
		if i < 0 {
			o.Label(mut + "/inapplicable")
			break
		}
		M.Scripts[i], M.Scripts[j] = M.Scripts[j], M.Scripts[i]
		if err := expectReject(bc, M, fmt.Sprintf("witnesses %d and %d swapped", i, j), witnessErrs...); err != nil {
			return err
		}
		rejected()
	case "underfunded":
		if err := expectReject(bc, clone(T.tx), fmt.Sprintf("sender holds %d < sysfee %d + netfee %d", T.tx.SystemFee+T.tx.NetworkFee-1, T.tx.SystemFee, T.tx.NetworkFee), core.ErrInsufficientFunds); err != nil {
			return err
		}
		rejected()
	case "onchain":
		if _, err := e.txBlock(clone(T.tx)); err != nil {
			return fmt.Errorf("onchain set-up: %v", err)
		}
		if err := expectReject(bc, clone(T.tx), "transaction already on chain", core.ErrAlreadyExists); err != nil {
			return err
		}
		rejected()
	case "conflict_onchain", "conflict_onchain_other_signer":
		n := min(max(c.ConfN, 1), 3)
		pos := mod(c.ConfPos, n)
		nb := min(max(c.BSig, 1), 3)
		var signers []SignerSpec
		if mut == "conflict_onchain" {
			i := pickSigner(notNotary)
			if i < 0 {
				o.Label(mut + "/inapplicable")
				break
			}
			shared := T.rs[i].spec
			shared.Scope = 2
			funded := shared.Kind == "sig" || i == 0 // the victim's sender always holds GAS
			if nb == 1 && !funded {
				nb = 2
			}
			switch {
			case nb == 1:
				signers = []SignerSpec{shared}
			case nb == 2 && funded && c.Pick%2 == 1:
				signers = []SignerSpec{shared, {Kind: "outsider", Key: c.Pick}}
			case nb == 2:
				signers = []SignerSpec{{Kind: "outsider", Key: c.Pick}, shared}
			default:
				signers = []SignerSpec{{Kind: "outsider", Key: c.Pick}, shared, {Kind: "outsider", Key: c.Pick + 1, Scope: 1}}
			}
			if i == 0 {
				o.Label("conflict-shared-signer-is-sender")
			} else {
				o.Label("conflict-shared-signer-is-cosigner")
			}
		} else {
			signers = []SignerSpec{{Kind: "outsider", Key: c.Pick}}
			if nb > 1 {
				signers = append(signers, SignerSpec{Kind: "outsider", Key: c.Pick + 1})
			}
		}
		// The other hashes B names: transactions of the same signers that are built first and never sent.
		var attrs []transaction.Attribute
		for j := 0; j < n; j++ {
			hh := T.tx.Hash()
			if j != pos {
				ds := c.Tx
				ds.Nonce = c.Tx.Nonce + 7919*uint32(j+1)
				ds.ScriptKind, ds.ScriptSize = "blob", 3+j
				D, err := k.build(ds, mods{minVUBOff: 1})
				if err != nil {
					return fmt.Errorf("decoy transaction: %v", err)
				}
				hh = D.tx.Hash()
			}
			attrs = append(attrs, transaction.Attribute{Type: transaction.ConflictsT, Value: &transaction.Conflicts{Hash: hh}})
		}
		C, err := e.execTx(signers, attrs, []byte{byte(opcode.RET)})
		if err != nil {
			return fmt.Errorf("conflicting transaction: %v", err)
		}
		if _, err := e.txBlock(C); err != nil {
			return fmt.Errorf("conflict set-up: %v", err)
		}
		o.Labelf("conflict-attrs-%d", n)
		if pos > 0 {
			o.Label("conflict-victim-named-by-later-attr")
		}
		what := fmt.Sprintf("on-chain transaction with %d signers and %d Conflicts attributes, the victim is named by attribute %d", len(C.Signers), n, pos)
		if mut == "conflict_onchain" {
			if err := expectReject(bc, clone(T.tx), "named by an on-chain transaction signed by one of its signers ("+what+"; "+describe(T)+")", core.ErrHasConflicts); err != nil {
				return err
			}
			rejected()
		} else {
			if err := expectAccept(bc, clone(T.tx), "named by an on-chain transaction with NO common signer ("+what+"; "+describe(T)+")"); err != nil {
				return err
			}
			o.Label(mut + "/accepted")
		}
	case "blocked":
		i := pickSigner(notNotary)
		if i < 0 {
			o.Label(mut + "/inapplicable")
			break
		}
		w := io.NewBufBinWriter()
		emit.AppCall(w.BinWriter, nativehashes.PolicyContract, "blockAccount", callflag.All, T.rs[i].hash)
		emit.Opcodes(w.BinWriter, opcode.ASSERT)
		B, err := e.execTx([]SignerSpec{{Kind: "outsider", Key: c.Pick}, {Kind: "committee"}}, nil, w.Bytes())
		if err != nil {
			return fmt.Errorf("blockAccount transaction: %v", err)
		}
		if _, err := e.txBlock(B); err != nil {
			return fmt.Errorf("blockAccount set-up: %v", err)
		}
		if err := expectReject(bc, clone(T.tx), fmt.Sprintf("signer %d (%s) is a blocked account", i, T.rs[i].kind), core.ErrPolicy); err != nil {
			return err
		}
		rejected()
	default:
		return fmt.Errorf("unknown mutation %q", mut)
	}
	o.Units(2)
	return nil
}

func describe(T *built) string {
	s := ""
	for i, r := range T.rs {
		if i > 0 {
			s += "+"
		}
		s += r.kind
		if r.kind == "multi" || r.kind == "committee" {
			s += fmt.Sprintf("(%d/%d)", r.actor.M, len(r.actor.Keys))
		}
	}
	return fmt.Sprintf("signers %s, %d attrs, script %d B, size %d, fee = ver %d + size %d + attr %d", s, len(T.tx.Attributes), len(T.tx.Script), T.size, T.verFee, T.sizeFee, T.attrFee)
}

func bucket(v int64) string {
	switch {
	case v == 0:
		return "0"
	case v < 1000:
		return "lt1000"
	case v == 1000:
		return "default"
	}
	return "gt1000"
}
