package c07

import (
	"crypto/sha256"
	"fmt"

	"github.com/nspcc-dev/neo-go/pkg/core/fee"
	"github.com/nspcc-dev/neo-go/pkg/core/transaction"
	"github.com/nspcc-dev/neo-go/pkg/crypto/hash"
	"github.com/nspcc-dev/neo-go/pkg/crypto/keys"
	"github.com/nspcc-dev/neo-go/pkg/util"
	"pgregory.net/rapid"
	ck "verifharness/chainkit"
	"verifharness/vt"
)

// object_limits: "a transaction enters the memory pool only if it is well-formed" for transactions that reach the pool
// as OBJECTS (the way the Notary service, the consensus service and every in-process user of the Go API hand them over):
// nothing has parsed their bytes, so the structural limits of the wire format (witness script lengths, number of signers
// and attributes, scope lists) have to be looked at by the admission itself. Each case is a correctly signed, funded
// transaction paying the exact threshold fee with ONE dimension aimed at its limit; the oracle is the repository's own
// decoder: the bytes of the object parse (then the transaction must be accepted: control) or they do not (then no peer
// can ever receive it or a block holding it, and it must be refused with the pool unchanged).

// widePool are keys of this sub-check only (multisignature contracts of up to 40 keys).
var widePool = func() []ck.Key {
	var out []ck.Key
	for i := 0; len(out) < 40; i++ {
		h := sha256.Sum256([]byte(fmt.Sprintf("verif-c07-wide-%d", i)))
		p, err := keys.NewPrivateKeyFromBytes(h[:])
		if err != nil {
			continue
		}
		pub := p.PublicKey()
		ver := pub.GetVerificationScript()
		out = append(out, ck.Key{Priv: p, Pub: pub, Hash: hash.Hash160(ver), Ver: ver})
	}
	return out
}()

type ObjCase struct {
	Chain ck.ChainCfg `json:"chain"`
	// Shape: inv (m-of-n sender, invocation script of 66*m bytes), ver (1-of-n sender, verification script of 35*n+8
	// bytes), signers (A single-signature signers), mixed (A signers + B Conflicts attributes), contracts / groups / rules
	// (scope list of A entries), script (A = script length - 65535), nest (one rule whose condition is nested A deep),
	// and (one rule with an And / Or of A conditions), scope (scope byte B), action (rule action A), version (A),
	// dupattr (A NotValidBefore attributes), unscoped (A entries in a list whose scope is not set: not on the wire).
	Shape string `json:"shape"`
	A     int    `json:"a"`
	B     int    `json:"b"`
	Nonce uint32 `json:"nonce"`
}

func genObjCase(t *rapid.T) ObjCase {
	c := ObjCase{
		Chain: ck.ChainCfg{Profile: rapid.SampledFrom([]string{"V1C1", "V4C6"}).Draw(t, "profile")},
		Shape: rapid.SampledFrom([]string{"inv", "inv", "ver", "signers", "mixed", "contracts", "groups", "rules", "script", "nest", "and", "scope", "action", "version", "dupattr", "unscoped", "witnesses"}).Draw(t, "shape"),
		Nonce: rapid.Uint32().Draw(t, "nonce"),
	}
	switch c.Shape {
	case "inv":
		c.A = rapid.SampledFrom([]int{8, 14, 15, 16, 17, 20}).Draw(t, "m")
		c.B = c.A + rapid.IntRange(0, 3).Draw(t, "extra")
	case "ver":
		c.A = rapid.SampledFrom([]int{20, 28, 29, 30, 31, 40}).Draw(t, "n")
	case "signers":
		c.A = rapid.SampledFrom([]int{2, 15, 16, 17, 18}).Draw(t, "signers")
	case "mixed":
		c.A = rapid.IntRange(1, 15).Draw(t, "signers")
		c.B = 16 - c.A + rapid.IntRange(-1, 1).Draw(t, "over")
	case "contracts", "groups", "rules":
		c.A = rapid.SampledFrom([]int{1, 15, 16, 17, 18}).Draw(t, "entries")
	case "script":
		c.A = rapid.IntRange(-1, 1).Draw(t, "over")
	case "nest":
		c.A = rapid.IntRange(1, 5).Draw(t, "depth") // Not(Not(..Bool)) with A-1 Nots, B: the chain hangs below an And / Or
		c.B = rapid.IntRange(0, 2).Draw(t, "under")
	case "and":
		c.A = rapid.SampledFrom([]int{0, 1, 15, 16, 17}).Draw(t, "items")
		c.B = rapid.IntRange(0, 1).Draw(t, "or")
	case "scope":
		// B: the scope byte of the sender (valid ones and Global combined with another, unknown bits)
		c.B = rapid.SampledFrom([]int{0x00, 0x01, 0x80, 0x81, 0x90, 0x02, 0x03, 0x04, 0x08, 0x20, 0x11, 0x41}).Draw(t, "scope")
	case "action":
		c.A = rapid.SampledFrom([]int{0, 1, 2, 3}).Draw(t, "action")
	case "version":
		c.A = rapid.IntRange(0, 2).Draw(t, "version")
	case "dupattr":
		c.A = rapid.IntRange(1, 3).Draw(t, "nvbs")
	case "witnesses":
		// two signers, A witnesses: 1 (one missing), 2, 3 (one too many: a copy of the last one)
		c.A = rapid.IntRange(1, 3).Draw(t, "nwit")
	case "unscoped":
		// A entries in a scope list whose scope is NOT set (the list is not a part of the wire form): B 0 contracts,
		// 1 groups, 2 rules
		c.A = rapid.SampledFrom([]int{1, 16, 17, 30}).Draw(t, "entries")
		c.B = rapid.IntRange(0, 2).Draw(t, "list")
	}
	return c
}

func checkObjCase(c ObjCase, o *vt.Obs) error {
	if c.A < -1 || c.A > 255 || c.B < 0 || c.B > 255 {
		return nil
	}
	e, err := newEnv(c.Chain)
	if err != nil {
		return err
	}
	defer e.close()
	k, bc := e.k, e.k.bc
	switch c.Shape {
	case "contracts", "groups", "rules", "unscoped", "mixed":
		if c.A > len(widePool) {
			return nil
		}
	}

	var rs []rsigner
	add := func(a ck.Actor) {
		rs = append(rs, rsigner{kind: "wide", actor: &a, hash: a.Hash, standard: true})
	}
	switch c.Shape {
	case "inv":
		if c.A < 1 || c.B < c.A || c.B > len(widePool) {
			return nil
		}
		add(ck.Multisig(c.A, widePool[:c.B]))
	case "ver":
		if c.A < 1 || c.A > len(widePool) {
			return nil
		}
		add(ck.Multisig(1, widePool[:c.A]))
	case "signers", "mixed":
		if c.A < 1 || c.A > len(widePool) {
			return nil
		}
		for i := 0; i < c.A; i++ {
			add(ck.Single(widePool[i]))
		}
	case "witnesses":
		add(ck.Single(widePool[0]))
		add(ck.Single(widePool[1]))
	default:
		add(ck.Single(widePool[0]))
	}
	if err := e.fund([]util.Uint160{rs[0].hash}, []int64{200_0000_0000}); err != nil {
		return fmt.Errorf("funding: %v", err)
	}

	tmpl := &transaction.Transaction{Nonce: c.Nonce, ValidUntilBlock: bc.BlockHeight() + 3, Script: k.makeScript("blob", 40)}
	for _, r := range rs {
		tmpl.Signers = append(tmpl.Signers, transaction.Signer{Account: r.hash, Scopes: transaction.CalledByEntry})
	}
	switch c.Shape {
	case "mixed":
		for i := 0; i < c.B; i++ {
			tmpl.Attributes = append(tmpl.Attributes, transaction.Attribute{Type: transaction.ConflictsT, Value: &transaction.Conflicts{Hash: fakeHash(1000 + i)}})
		}
	case "contracts":
		tmpl.Signers[0].Scopes = transaction.CustomContracts
		for i := 0; i < c.A; i++ {
			tmpl.Signers[0].AllowedContracts = append(tmpl.Signers[0].AllowedContracts, widePool[i].Hash)
		}
	case "groups":
		tmpl.Signers[0].Scopes = transaction.CustomGroups
		for i := 0; i < c.A; i++ {
			tmpl.Signers[0].AllowedGroups = append(tmpl.Signers[0].AllowedGroups, widePool[i].Pub)
		}
	case "rules":
		tmpl.Signers[0].Scopes = transaction.Rules
		for i := 0; i < c.A; i++ {
			tmpl.Signers[0].Rules = append(tmpl.Signers[0].Rules, transaction.WitnessRule{Action: transaction.WitnessAllow, Condition: boolCond(i%2 == 0)})
		}
	case "nest":
		if c.A < 1 {
			return nil
		}
		var cond transaction.WitnessCondition = boolCond(true)
		for i := 1; i < c.A; i++ {
			cond = &transaction.ConditionNot{Condition: cond}
			if i == 1 && c.B == 1 {
				cond = &transaction.ConditionAnd{cond, boolCond(true)}
			} else if i == 1 && c.B == 2 {
				cond = &transaction.ConditionOr{boolCond(false), cond}
			}
		}
		tmpl.Signers[0].Scopes = transaction.Rules
		tmpl.Signers[0].Rules = []transaction.WitnessRule{{Action: transaction.WitnessAllow, Condition: cond}}
	case "and":
		var items []transaction.WitnessCondition
		for i := 0; i < c.A; i++ {
			items = append(items, boolCond(i%3 == 0))
		}
		var cond transaction.WitnessCondition
		if c.B == 0 {
			a := transaction.ConditionAnd(items)
			cond = &a
		} else {
			a := transaction.ConditionOr(items)
			cond = &a
		}
		tmpl.Signers[0].Scopes = transaction.Rules
		tmpl.Signers[0].Rules = []transaction.WitnessRule{{Action: transaction.WitnessDeny, Condition: cond}}
	case "scope":
		tmpl.Signers[0].Scopes = transaction.WitnessScope(c.B)
		if tmpl.Signers[0].Scopes&transaction.CustomContracts != 0 {
			tmpl.Signers[0].AllowedContracts = []util.Uint160{widePool[1].Hash}
		}
		if tmpl.Signers[0].Scopes&transaction.CustomGroups != 0 {
			tmpl.Signers[0].AllowedGroups = []*keys.PublicKey{widePool[1].Pub}
		}
		if tmpl.Signers[0].Scopes&transaction.Rules != 0 {
			tmpl.Signers[0].Rules = []transaction.WitnessRule{{Action: transaction.WitnessAllow, Condition: boolCond(true)}}
		}
	case "action":
		tmpl.Signers[0].Scopes = transaction.Rules
		tmpl.Signers[0].Rules = []transaction.WitnessRule{{Action: transaction.WitnessAction(c.A), Condition: boolCond(true)}}
	case "version":
		tmpl.Version = uint8(c.A)
	case "dupattr":
		for i := 0; i < c.A; i++ {
			tmpl.Attributes = append(tmpl.Attributes, transaction.Attribute{Type: transaction.NotValidBeforeT, Value: &transaction.NotValidBefore{Height: bc.BlockHeight()}})
		}
	case "unscoped":
		for i := 0; i < c.A; i++ {
			switch c.B {
			case 0:
				tmpl.Signers[0].AllowedContracts = append(tmpl.Signers[0].AllowedContracts, widePool[i].Hash)
			case 1:
				tmpl.Signers[0].AllowedGroups = append(tmpl.Signers[0].AllowedGroups, widePool[i].Pub)
			default:
				tmpl.Signers[0].Rules = append(tmpl.Signers[0].Rules, transaction.WitnessRule{Action: transaction.WitnessAction(7), Condition: boolCond(true)})
			}
		}
	case "script":
		n := transaction.MaxScriptLength + c.A
		blob := n - 5
		s := append([]byte{0x0d, byte(blob), byte(blob >> 8)}, make([]byte, blob)...) // PUSHDATA2
		tmpl.Script = append(s, 0x45, 0x40)                                           // DROP RET
		if c.A > 0 {
			// PUSHDATA4 for a blob whose length needs it
			blob = n - 7
			s = append([]byte{0x0e, byte(blob), byte(blob >> 8), byte(blob >> 16), 0}, make([]byte, blob)...)
			tmpl.Script = append(s, 0x45, 0x40)
		}
	}
	// dummy witnesses of the final size, then the exact threshold fee
	for _, r := range rs {
		tmpl.Scripts = append(tmpl.Scripts, transaction.Witness{InvocationScript: r.actor.DummyInvocation(), VerificationScript: r.actor.Ver})
	}
	var verFee int64
	for _, r := range rs {
		f, _ := fee.Calculate(bc.GetBaseExecFee(), r.actor.Ver)
		if f <= 0 {
			return fmt.Errorf("harness: fee calculator returned %d for a standard witness", f)
		}
		verFee += f
	}
	af, err := k.attrFee(tmpl)
	if err != nil {
		return err
	}
	size := len(txBytes(tmpl))
	tx := k.sign(tmpl, rs, verFee+int64(size)*bc.FeePerByte()+af)
	if c.Shape == "witnesses" {
		switch c.A {
		case 1:
			tx.Scripts = tx.Scripts[:1]
		case 3:
			tx.Scripts = append(tx.Scripts, tx.Scripts[1].Copy())
		}
		size = len(txBytes(tx))
	}
	raw := txBytes(tx)
	if len(raw) != size {
		return fmt.Errorf("harness: size moved with the signatures (%d -> %d)", size, len(raw))
	}
	_, rawErr, _, blkErr := fromBytesBoth(raw)
	if (rawErr == nil) != (blkErr == nil) {
		return fmt.Errorf("the two decoders disagree on the bytes of a %s/%d/%d transaction: %v vs %v", c.Shape, c.A, c.B, rawErr, blkErr)
	}
	what := fmt.Sprintf("object %s a=%d b=%d (size %d, %d signers, %d attributes, invocation %d B, verification %d B, script %d B)",
		c.Shape, c.A, c.B, size, len(tx.Signers), len(tx.Attributes), len(tx.Scripts[0].InvocationScript), len(tx.Scripts[0].VerificationScript), len(tx.Script))
	o.Units(1)
	var pan any
	func() { // whatever the object looks like, admission answers with an error, it does not panic
		defer func() { pan = recover() }()
		_ = bc.VerifyTx(tx)
	}()
	if pan != nil {
		return fmt.Errorf("VerifyTx panics: %v; %s", pan, what)
	}
	if rawErr == nil {
		o.Labelf("objlimit-%s-parsable", c.Shape)
		if err := expectAccept(bc, tx, "its bytes parse: "+what); err != nil {
			return err
		}
		o.NonTrivial()
		return nil
	}
	o.Labelf("objlimit-%s-unparsable", c.Shape)
	if err := expectReject(bc, tx, fmt.Sprintf("its bytes are refused by the decoder (%v), no peer can receive it or a block that holds it: %s", rawErr, what)); err != nil {
		return err
	}
	o.NonTrivial()
	return nil
}

func init() {
	vt.Register("object_limits", 0.05, genObjCase, checkObjCase)
}
