package c07

import (
	"encoding/binary"
	"fmt"

	"github.com/nspcc-dev/neo-go/pkg/core/transaction"
)

// An independent transaction encoder (written from the wire format description, not calling EncodeBinary) that
// can re-encode every variable-length integer and every boolean of a transaction in a non-minimal form.
//
// Wire format (NEO N3): version u8 | nonce u32 | sysfee i64 | netfee i64 | vub u32 | varint nsigners | signers |
// varint nattrs | attrs | varbytes script | varint nwitnesses | (varbytes invocation, varbytes verification)*.
// varint: b < 0xfd | 0xfd u16 | 0xfe u32 | 0xff u64. The decoder of the code under test (io.BinReader.ReadVarUint)
// accepts every form for every value; ReadBool accepts every non-zero byte as true.

// site is one re-encodable position of an encoded transaction.
type site struct {
	Name string // nsigners, allowedcontracts, allowedgroups, rules, condcount, nattrs, scriptlen, nwitnesses, invlen, verlen, bool
	Val  uint64 // the value at this position
	Min  int    // form the encoder of the code under test uses for Val (0 one byte, 1 0xfd, 2 0xfe, 3 0xff); bool: 0
	Bool bool
}

// encPick selects one position and one alternative form.
type encPick struct {
	Pos  int `json:"pos"`  // index into the site list, modulo its length
	Form int `json:"form"` // varint: 1 0xfd, 2 0xfe, 3 0xff (used when wider than minimal, otherwise next wider); bool true: byte 2 + form
}

type enc struct {
	buf   []byte
	sites []site
	alt   map[int]int // site index -> form
}

// minForm is the shortest form of v, which is also what io.PutVarUint writes (0xffff still fits the 0xfd form and
// 0xffffffff the 0xfe form: the encoder boundary is exercised by scripts of exactly 65535 bytes).
func minForm(v uint64) int {
	switch {
	case v < 0xfd:
		return 0
	case v <= 0xffff:
		return 1
	case v <= 0xffffffff:
		return 2
	}
	return 3
}

// fits tells whether v can be written in the given form.
func fits(v uint64, form int) bool {
	switch form {
	case 0:
		return v < 0xfd
	case 1:
		return v <= 0xffff
	case 2:
		return v <= 0xffffffff
	}
	return true
}

func (e *enc) u8(b byte)    { e.buf = append(e.buf, b) }
func (e *enc) u16(v uint16) { e.buf = binary.LittleEndian.AppendUint16(e.buf, v) }
func (e *enc) u32(v uint32) { e.buf = binary.LittleEndian.AppendUint32(e.buf, v) }
func (e *enc) u64(v uint64) { e.buf = binary.LittleEndian.AppendUint64(e.buf, v) }
func (e *enc) raw(b []byte) { e.buf = append(e.buf, b...) }

func (e *enc) varint(name string, v uint64) {
	idx := len(e.sites)
	m := minForm(v)
	e.sites = append(e.sites, site{Name: name, Val: v, Min: m})
	form := m
	if f, ok := e.alt[idx]; ok && fits(v, f) {
		form = f
	}
	switch form {
	case 0:
		e.u8(byte(v))
	case 1:
		e.u8(0xfd)
		e.u16(uint16(v))
	case 2:
		e.u8(0xfe)
		e.u32(uint32(v))
	default:
		e.u8(0xff)
		e.u64(v)
	}
}

func (e *enc) boolean(v bool) {
	idx := len(e.sites)
	e.sites = append(e.sites, site{Name: "bool", Bool: true})
	if !v {
		e.u8(0)
		return
	}
	if f, ok := e.alt[idx]; ok && f > 0 {
		e.u8(byte(1 + f)) // 0x02, 0x03, 0x04: non-canonical "true"
		return
	}
	e.u8(1)
}

func (e *enc) varbytes(name string, b []byte) {
	e.varint(name, uint64(len(b)))
	e.raw(b)
}

func (e *enc) condition(c transaction.WitnessCondition) error {
	e.u8(byte(c.Type()))
	switch v := c.(type) {
	case *transaction.ConditionBoolean:
		e.boolean(bool(*v))
	case *transaction.ConditionNot:
		return e.condition(v.Condition)
	case *transaction.ConditionAnd:
		e.varint("condcount", uint64(len(*v)))
		for _, s := range *v {
			if err := e.condition(s); err != nil {
				return err
			}
		}
	case *transaction.ConditionOr:
		e.varint("condcount", uint64(len(*v)))
		for _, s := range *v {
			if err := e.condition(s); err != nil {
				return err
			}
		}
	case *transaction.ConditionScriptHash:
		e.raw(v[:]) // Uint160 is encoded in its in-memory (little-endian) byte order
	case transaction.ConditionCalledByEntry, *transaction.ConditionCalledByEntry:
	default:
		return fmt.Errorf("encoder: unsupported condition %T", c)
	}
	return nil
}

func (e *enc) signer(s *transaction.Signer) error {
	e.raw(s.Account[:])
	e.u8(byte(s.Scopes))
	if s.Scopes&transaction.CustomContracts != 0 {
		e.varint("allowedcontracts", uint64(len(s.AllowedContracts)))
		for _, h := range s.AllowedContracts {
			e.raw(h[:])
		}
	}
	if s.Scopes&transaction.CustomGroups != 0 {
		e.varint("allowedgroups", uint64(len(s.AllowedGroups)))
		for _, g := range s.AllowedGroups {
			e.raw(g.Bytes())
		}
	}
	if s.Scopes&transaction.Rules != 0 {
		e.varint("rules", uint64(len(s.Rules)))
		for i := range s.Rules {
			e.u8(byte(s.Rules[i].Action))
			if err := e.condition(s.Rules[i].Condition); err != nil {
				return err
			}
		}
	}
	return nil
}

func (e *enc) attribute(a *transaction.Attribute) error {
	e.u8(byte(a.Type))
	switch a.Type {
	case transaction.HighPriority:
	case transaction.NotValidBeforeT:
		e.u32(a.Value.(*transaction.NotValidBefore).Height)
	case transaction.ConflictsT:
		h := a.Value.(*transaction.Conflicts).Hash
		e.raw(h[:])
	case transaction.NotaryAssistedT:
		e.u8(a.Value.(*transaction.NotaryAssisted).NKeys)
	default:
		return fmt.Errorf("encoder: unsupported attribute %v", a.Type)
	}
	return nil
}

// encodeTx serialises tx; alt maps site indices to alternative forms. It returns the bytes, the site list and the
// length of the signed (hashable) part.
func encodeTx(tx *transaction.Transaction, alt map[int]int) ([]byte, []site, int, error) {
	e := &enc{alt: alt}
	e.u8(tx.Version)
	e.u32(tx.Nonce)
	e.u64(uint64(tx.SystemFee))
	e.u64(uint64(tx.NetworkFee))
	e.u32(tx.ValidUntilBlock)
	e.varint("nsigners", uint64(len(tx.Signers)))
	for i := range tx.Signers {
		if err := e.signer(&tx.Signers[i]); err != nil {
			return nil, nil, 0, err
		}
	}
	e.varint("nattrs", uint64(len(tx.Attributes)))
	for i := range tx.Attributes {
		if err := e.attribute(&tx.Attributes[i]); err != nil {
			return nil, nil, 0, err
		}
	}
	e.varbytes("scriptlen", tx.Script)
	hashable := len(e.buf)
	e.varint("nwitnesses", uint64(len(tx.Scripts)))
	for i := range tx.Scripts {
		e.varbytes("invlen", tx.Scripts[i].InvocationScript)
		e.varbytes("verlen", tx.Scripts[i].VerificationScript)
	}
	return e.buf, e.sites, hashable, nil
}

// altFor turns a pick into an alt map for the given site list; ok=false when the position has no alternative
// form (a boolean that is false).
func altFor(sites []site, p encPick, tx *transaction.Transaction) (map[int]int, string, bool) {
	if len(sites) == 0 {
		return nil, "", false
	}
	idx := ((p.Pos % len(sites)) + len(sites)) % len(sites)
	s := sites[idx]
	f := ((p.Form%3)+3)%3 + 1 // 1..3
	if s.Bool {
		return map[int]int{idx: f}, fmt.Sprintf("%s#%d=0x%02x", s.Name, idx, 1+f), true
	}
	if f == s.Min || !fits(s.Val, f) {
		f = s.Min + 1
		if s.Min == 3 {
			f = 2
		}
	}
	if f > 3 || !fits(s.Val, f) {
		return nil, "", false
	}
	return map[int]int{idx: f}, fmt.Sprintf("%s#%d/form%d", s.Name, idx, f), true
}
