// Package c07 checks property C07: transaction admission is sound, fee-exact and yields proposable blocks.
package c07

import (
	"bytes"
	"errors"
	"fmt"
	"math/big"

	"github.com/nspcc-dev/neo-go/pkg/core"
	"github.com/nspcc-dev/neo-go/pkg/core/fee"
	"github.com/nspcc-dev/neo-go/pkg/core/native/nativehashes"
	"github.com/nspcc-dev/neo-go/pkg/core/transaction"
	"github.com/nspcc-dev/neo-go/pkg/crypto/hash"
	"github.com/nspcc-dev/neo-go/pkg/crypto/keys"
	"github.com/nspcc-dev/neo-go/pkg/io"
	"github.com/nspcc-dev/neo-go/pkg/smartcontract/callflag"
	"github.com/nspcc-dev/neo-go/pkg/smartcontract/scparser"
	"github.com/nspcc-dev/neo-go/pkg/smartcontract/trigger"
	"github.com/nspcc-dev/neo-go/pkg/util"
	"github.com/nspcc-dev/neo-go/pkg/vm/emit"
	"github.com/nspcc-dev/neo-go/pkg/vm/opcode"
	ck "verifharness/chainkit"
)

// SignerSpec is one signer of a generated transaction.
//
//	sig        single-signature account Accounts[Key%4]
//	multi      M-of-N multisig of N keys of the pool Accounts++Candidates starting at Key
//	contract   deployed library contract Key%2 (its `verify` returns true), empty witness
//	committee  majority multisig of the current committee (needed by HighPriority)
//	notary     native Notary contract (scope None, witness = signature of the designated notary node)
//	fresh      single-signature account of RoleKeys[1] (holds no GAS unless the case funds it)
//	outsider   single-signature account Accounts[4+Key%2] (never a signer of the transaction under test)
type SignerSpec struct {
	Kind string `json:"kind"`
	Key  int    `json:"key,omitempty"`
	M    int    `json:"m,omitempty"`
	N    int    `json:"n,omitempty"`
	// Spell > 0 (multi only): the same m-of-n script with one of its two counts pushed by another instruction than the
	// builder's (same numbers for the VM): odd - the signature count, even - the key count; (Spell-1)/2 picks PUSHINT8,
	// PUSHINT16, PUSHINT32, PUSHINT64, PUSHINT128, PUSHINT256. The script counts as a standard witness exactly when the
	// repository's own classifier (scparser.IsMultiSigContract) says so.
	Spell int `json:"spell,omitempty"`
	Scope int `json:"scope,omitempty"` // 0 Global 1 CalledByEntry 2 None 3 CustomContracts 4 CustomGroups 5 Rules(bool) 6 Rules(and/not) 7 CalledByEntry|CustomContracts
}

// AttrSpec is one attribute of a generated transaction.
type AttrSpec struct {
	Kind string `json:"kind"`        // conflicts | nvb | high | notary
	N    int    `json:"n,omitempty"` // conflicts: seed of a hash that names nothing; nvb: distance below the current height; notary: NKeys
}

// TxSpec describes the content of a transaction; everything state-dependent (heights, fees, signatures) is
// derived by build.
type TxSpec struct {
	Signers    []SignerSpec `json:"signers"`
	Attrs      []AttrSpec   `json:"attrs,omitempty"`
	ScriptKind string       `json:"script_kind"` // blob | put
	ScriptSize int          `json:"script_size"`
	SysFee     int64        `json:"sysfee"`
	Nonce      uint32       `json:"nonce"`
	VUB        uint32       `json:"vub"`                 // offset above height+1, modulo the allowed increment
	VUBMax     bool         `json:"vub_max,omitempty"`   // use height+MaxValidUntilBlockIncrement (upper boundary)
	ExtraFee   int64        `json:"extra_fee,omitempty"` // added to the required network fee (priority)
}

// mods are deviations from the valid construction (used to build mutants).
type mods struct {
	vubAbs     *uint32                 // absolute ValidUntilBlock
	minVUBOff  uint32                  // VUB >= height+1+minVUBOff (keeps the tx valid across a set-up block)
	script     []byte                  // replaces the script
	extraAttrs []transaction.Attribute // appended attributes
	bigRules   bool                    // first signer carries 16 large witness rules (size padding)
	targetSize int                     // adjust the blob so that the encoded size is exactly this
	netFeeAdj  int64                   // added to the computed network fee
	sizeFloor  bool                    // network fee := size*feePerByte + attribute fees - 1
}

type rsigner struct {
	spec     SignerSpec
	kind     string
	actor    *ck.Actor
	hash     util.Uint160
	standard bool
}

type built struct {
	tx       *transaction.Transaction
	rs       []rsigner
	standard bool  // all witnesses are standard signature / multisignature contracts
	verFee   int64 // witness verification part
	sizeFee  int64
	attrFee  int64
	need     int64 // threshold network fee computed by this harness
	size     int
}

type kit struct {
	b  *ck.Builder
	bc *core.Blockchain
}

var multiPool = append(append([]ck.Key{}, ck.Accounts...), ck.Candidates...)

func mod(a, n int) int { return ((a % n) + n) % n }

func (k *kit) resolve(s SignerSpec) (rsigner, error) {
	switch s.Kind {
	case "sig":
		a := ck.Single(ck.Accounts[mod(s.Key, 4)])
		return rsigner{kind: s.Kind, actor: &a, hash: a.Hash, standard: true}, nil
	case "outsider":
		a := ck.Single(ck.Accounts[4+mod(s.Key, 2)])
		return rsigner{kind: s.Kind, actor: &a, hash: a.Hash, standard: true}, nil
	case "fresh":
		a := ck.Single(ck.RoleKeys[1])
		return rsigner{kind: s.Kind, actor: &a, hash: a.Hash, standard: true}, nil
	case "multi":
		n := s.N
		if n < 1 {
			n = 1
		}
		if n > 7 {
			n = 7
		}
		m := s.M
		if m < 1 {
			m = 1
		}
		if m > n {
			m = n
		}
		ks := make([]ck.Key, n)
		for i := range ks {
			ks[i] = multiPool[mod(s.Key+i, len(multiPool))]
		}
		a := ck.Multisig(m, ks)
		if s.Spell > 0 {
			a.Ver = respellCounts(a.Ver, m, n, s.Spell)
			a.Hash = hash.Hash160(a.Ver)
			return rsigner{kind: s.Kind, actor: &a, hash: a.Hash, standard: scparser.IsMultiSigContract(a.Ver)}, nil
		}
		return rsigner{kind: s.Kind, actor: &a, hash: a.Hash, standard: true}, nil
	case "committee":
		a := k.b.CommitteeActor()
		return rsigner{kind: s.Kind, actor: &a, hash: a.Hash, standard: true}, nil
	case "contract":
		if len(k.b.Deployed) == 0 {
			return rsigner{}, errors.New("no deployed contract")
		}
		return rsigner{kind: s.Kind, hash: k.b.Deployed[mod(s.Key, len(k.b.Deployed))].Hash}, nil
	case "notary":
		return rsigner{kind: s.Kind, hash: nativehashes.Notary}, nil
	}
	return rsigner{}, fmt.Errorf("unknown signer kind %q", s.Kind)
}

// respellCounts rewrites the count pushes of a builder-made m-of-n script (n <= 16: both are one-byte PUSHm / PUSHn).
func respellCounts(ver []byte, m, n, spell int) []byte {
	if n > 16 || len(ver) != 1+35*n+1+5 || spell < 1 {
		return ver
	}
	wide := func(v int) []byte {
		i := (spell - 1) / 2 % 6
		b := make([]byte, 1+(1<<uint(i)))
		b[0] = byte(int(opcode.PUSHINT8) + i)
		b[1] = byte(v)
		return b
	}
	var out []byte
	if spell%2 == 1 {
		out = append(out, wide(m)...)
	} else {
		out = append(out, ver[0])
	}
	out = append(out, ver[1:1+35*n]...)
	if spell%2 == 0 {
		out = append(out, wide(n)...)
	} else {
		out = append(out, ver[1+35*n])
	}
	return append(out, ver[1+35*n+1:]...)
}

func boolCond(v bool) *transaction.ConditionBoolean {
	c := transaction.ConditionBoolean(v)
	return &c
}

func (k *kit) scoped(h util.Uint160, scope int) transaction.Signer {
	s := transaction.Signer{Account: h}
	ctr := nativehashes.GasToken
	if len(k.b.Deployed) > 0 {
		ctr = k.b.Deployed[0].Hash
	}
	switch mod(scope, 8) {
	case 0:
		s.Scopes = transaction.Global
	case 1:
		s.Scopes = transaction.CalledByEntry
	case 2:
		s.Scopes = transaction.None
	case 3:
		s.Scopes = transaction.CustomContracts
		s.AllowedContracts = []util.Uint160{nativehashes.GasToken, ctr}
	case 4:
		s.Scopes = transaction.CustomGroups
		s.AllowedGroups = []*keys.PublicKey{ck.Accounts[0].Pub}
	case 5:
		s.Scopes = transaction.Rules
		s.Rules = []transaction.WitnessRule{{Action: transaction.WitnessAllow, Condition: boolCond(true)}}
	case 6:
		s.Scopes = transaction.Rules
		and := transaction.ConditionAnd{boolCond(true), transaction.ConditionCalledByEntry{}}
		s.Rules = []transaction.WitnessRule{
			{Action: transaction.WitnessAllow, Condition: &and},
			{Action: transaction.WitnessDeny, Condition: &transaction.ConditionNot{Condition: boolCond(false)}},
		}
	case 7:
		s.Scopes = transaction.CalledByEntry | transaction.CustomContracts
		s.AllowedContracts = []util.Uint160{ctr}
	}
	return s
}

// bigRules builds 16 rules of Or[16 x And[16 x ScriptHash]] (about 86 KiB encoded), the largest decodable signer.
func bigRules() []transaction.WitnessRule {
	var rules []transaction.WitnessRule
	for r := 0; r < 16; r++ {
		or := transaction.ConditionOr{}
		for i := 0; i < 16; i++ {
			and := transaction.ConditionAnd{}
			for j := 0; j < 16; j++ {
				var h transaction.ConditionScriptHash
				h[0], h[1], h[2] = byte(r), byte(i), byte(j)
				and = append(and, &h)
			}
			or = append(or, &and)
		}
		rules = append(rules, transaction.WitnessRule{Action: transaction.WitnessAllow, Condition: &or})
	}
	return rules
}

// makeScript builds a script of (about) the requested size that is well-formed for scparser.
func (k *kit) makeScript(kind string, size int) []byte {
	if size < 1 {
		size = 1
	}
	if size > transaction.MaxScriptLength {
		size = transaction.MaxScriptLength
	}
	if kind == "put" && len(k.b.Deployed) > 0 {
		w := io.NewBufBinWriter()
		vlen := size - 70
		if vlen < 0 {
			vlen = 0
		}
		emit.AppCall(w.BinWriter, k.b.Deployed[0].Hash, "put", callflag.All, []byte("k07"), bytes.Repeat([]byte{0x5a}, vlen))
		return w.Bytes()
	}
	switch {
	case size < 5:
		s := bytes.Repeat([]byte{byte(opcode.NOP)}, size-1)
		return append(s, byte(opcode.RET))
	case size <= 2+255+2:
		blob := size - 4 // PUSHDATA1 len blob DROP RET
		s := append([]byte{byte(opcode.PUSHDATA1), byte(blob)}, bytes.Repeat([]byte{0xab}, blob)...)
		return append(s, byte(opcode.DROP), byte(opcode.RET))
	default:
		blob := size - 5 // PUSHDATA2 len16 blob DROP RET
		s := append([]byte{byte(opcode.PUSHDATA2), byte(blob), byte(blob >> 8)}, bytes.Repeat([]byte{0xab}, blob)...)
		return append(s, byte(opcode.DROP), byte(opcode.RET))
	}
}

func fakeHash(seed int) util.Uint256 {
	var h util.Uint256
	h[0] = 0xc7
	h[1] = byte(seed)
	h[2] = byte(seed >> 8)
	h[31] = 0x07
	return h
}

// policyInt reads an integer getter of native Policy through a VM run (independent of the Go-level accessors).
func (k *kit) policyInt(method string, args ...any) (int64, error) {
	return k.nativeInt(nativehashes.PolicyContract, method, args...)
}

// nativeInt runs a read-only getter of a native contract that returns an integer.
func (k *kit) nativeInt(contract util.Uint160, method string, args ...any) (int64, error) {
	w := io.NewBufBinWriter()
	emit.AppCall(w.BinWriter, contract, method, callflag.ReadStates, args...)
	script := w.Bytes()
	tx := transaction.New(script, 0)
	tx.Nonce = 0
	tx.Signers = []transaction.Signer{{Account: ck.Accounts[0].Hash, Scopes: transaction.None}}
	ic, err := k.bc.GetTestVM(trigger.Application, tx, nil)
	if err != nil {
		return 0, err
	}
	defer ic.Finalize()
	ic.VM.LoadWithFlags(script, callflag.ReadOnly)
	if err := ic.VM.Run(); err != nil {
		return 0, fmt.Errorf("Policy.%s: %v", method, err)
	}
	if ic.VM.Estack().Len() != 1 {
		return 0, fmt.Errorf("Policy.%s: %d results", method, ic.VM.Estack().Len())
	}
	v, err := ic.VM.Estack().Pop().Item().TryInteger()
	if err != nil {
		return 0, err
	}
	return v.Int64(), nil
}

// attrFee is the attribute part of the network fee as documented: each attribute costs Policy.getAttributeFee(type);
// Conflicts is charged once per signer, NotaryAssisted (NKeys+1) times.
func (k *kit) attrFee(tx *transaction.Transaction) (int64, error) {
	var sum int64
	cache := map[transaction.AttrType]int64{}
	for _, a := range tx.Attributes {
		base, ok := cache[a.Type]
		if !ok {
			v, err := k.policyInt("getAttributeFee", int64(a.Type))
			if err != nil {
				return 0, err
			}
			base = v
			cache[a.Type] = v
		}
		switch a.Type {
		case transaction.ConflictsT:
			sum += base * int64(len(tx.Signers))
		case transaction.NotaryAssistedT:
			sum += base * (int64(a.Value.(*transaction.NotaryAssisted).NKeys) + 1)
		default:
			sum += base
		}
	}
	return sum, nil
}

func dummySigInvocation() []byte {
	w := io.NewBufBinWriter()
	emit.Bytes(w.BinWriter, make([]byte, 64))
	return w.Bytes()
}

// measure runs the verification of a contract-based witness in a test VM and returns the gas it consumes.
func (k *kit) measure(tx *transaction.Transaction, h util.Uint160, inv []byte) (int64, error) {
	txc := *tx
	ic, err := k.bc.GetTestVM(trigger.Verification, &txc, nil)
	if err != nil {
		return 0, err
	}
	defer ic.Finalize()
	ic.UseSigners(tx.Signers)
	ic.VM.SetGasLimit(k.bc.GetMaxVerificationGAS())
	if err := k.bc.InitVerificationContext(ic, h, &transaction.Witness{InvocationScript: inv}); err != nil {
		return 0, err
	}
	if err := ic.VM.Run(); err != nil {
		return 0, err
	}
	return ic.VM.GasConsumed(), nil
}

// template builds the unsigned content of a transaction with witnesses of the final size.
func (k *kit) template(spec TxSpec, m mods) (*transaction.Transaction, []rsigner, error) {
	bc := k.bc
	script := m.script
	if script == nil {
		script = k.makeScript(spec.ScriptKind, spec.ScriptSize)
	}
	tx := &transaction.Transaction{Nonce: spec.Nonce, SystemFee: spec.SysFee, Script: script}
	var rs []rsigner
	for _, s := range spec.Signers {
		r, err := k.resolve(s)
		if err != nil {
			return nil, nil, err
		}
		dup := false
		for _, e := range rs {
			if e.hash == r.hash {
				dup = true
			}
		}
		if dup {
			continue
		}
		scope := s.Scope
		if r.kind == "notary" {
			scope = 2
		}
		r.spec = s
		rs = append(rs, r)
		tx.Signers = append(tx.Signers, k.scoped(r.hash, scope))
	}
	if len(rs) == 0 {
		return nil, nil, errors.New("no signers")
	}
	if m.bigRules {
		tx.Signers[0].Scopes = transaction.Rules
		tx.Signers[0].AllowedContracts, tx.Signers[0].AllowedGroups = nil, nil
		tx.Signers[0].Rules = bigRules()
	}
	h := bc.BlockHeight()
	for _, a := range spec.Attrs {
		switch a.Kind {
		case "conflicts":
			hh := fakeHash(a.N)
			dup := false
			for _, e := range tx.Attributes {
				if c, ok := e.Value.(*transaction.Conflicts); ok && c.Hash == hh {
					dup = true
				}
			}
			if !dup {
				tx.Attributes = append(tx.Attributes, transaction.Attribute{Type: transaction.ConflictsT, Value: &transaction.Conflicts{Hash: hh}})
			}
		case "nvb":
			if !tx.HasAttribute(transaction.NotValidBeforeT) {
				d := uint32(mod(a.N, int(h)+1))
				tx.Attributes = append(tx.Attributes, transaction.Attribute{Type: transaction.NotValidBeforeT, Value: &transaction.NotValidBefore{Height: h - d}})
			}
		case "high":
			if !tx.HasAttribute(transaction.HighPriority) {
				tx.Attributes = append(tx.Attributes, transaction.Attribute{Type: transaction.HighPriority})
			}
		case "notary":
			if !tx.HasAttribute(transaction.NotaryAssistedT) {
				nk := mod(a.N, 256)
				// many keys at a high attribute fee cost more than any account of the cast holds: keep the instance payable
				if base, err := k.policyInt("getAttributeFee", int64(transaction.NotaryAssistedT)); err == nil && base*int64(nk+1) > 50_0000_0000 {
					nk = mod(a.N, 4)
				} else if err == nil && len(rs) >= 2 && rs[0].kind == "notary" {
					// Notary pays (it is the sender): the fees come out of the second signer's DEPOSIT, which has to
					// cover them (Notary.verify), or the instance is not a valid one. 5 GAS are left for size,
					// verification and system fee.
					if dep, err := k.nativeInt(nativehashes.Notary, "balanceOf", rs[1].hash); err == nil && base*int64(nk+1) > dep-5_0000_0000 {
						nk = mod(a.N, 4)
					}
				}
				tx.Attributes = append(tx.Attributes, transaction.Attribute{Type: transaction.NotaryAssistedT, Value: &transaction.NotaryAssisted{NKeys: uint8(nk)}})
			}
		}
	}
	tx.Attributes = append(tx.Attributes, m.extraAttrs...)
	maxInc := bc.GetMaxValidUntilBlockIncrement()
	if maxInc == 0 {
		return nil, nil, errors.New("MaxValidUntilBlockIncrement is 0")
	}
	off := spec.VUB % maxInc
	if spec.VUBMax {
		off = maxInc - 1
	}
	if off < m.minVUBOff {
		off = m.minVUBOff
	}
	tx.ValidUntilBlock = h + 1 + off
	if m.vubAbs != nil {
		tx.ValidUntilBlock = *m.vubAbs
	}
	for _, r := range rs {
		switch {
		case r.actor != nil:
			tx.Scripts = append(tx.Scripts, transaction.Witness{InvocationScript: r.actor.DummyInvocation(), VerificationScript: r.actor.Ver})
		case r.kind == "notary":
			tx.Scripts = append(tx.Scripts, transaction.Witness{InvocationScript: dummySigInvocation(), VerificationScript: []byte{}})
		default:
			tx.Scripts = append(tx.Scripts, transaction.Witness{InvocationScript: []byte{}, VerificationScript: []byte{}})
		}
	}
	return tx, rs, nil
}

// build makes a signed transaction whose network fee is the acceptance threshold computed by this harness:
// Σ witness verification cost + encoded size × FeePerByte + attribute fees.
func (k *kit) build(spec TxSpec, m mods) (*built, error) {
	tx, rs, err := k.template(spec, m)
	if err != nil {
		return nil, err
	}
	if m.targetSize > 0 {
		raw, _, _, err := encodeTx(tx, nil)
		if err != nil {
			return nil, err
		}
		delta := m.targetSize - len(raw)
		if delta != 0 {
			// blob scripts: PUSHDATA2 len16 blob DROP RET; the length prefix widths stay constant inside 256..65535.
			n := len(tx.Script) + delta
			if n < 300 || n > transaction.MaxScriptLength || len(tx.Script) < 300 {
				return nil, fmt.Errorf("cannot reach size %d (script %d, delta %d)", m.targetSize, len(tx.Script), delta)
			}
			m2 := m
			m2.script = k.makeScript("blob", n)
			m2.targetSize = 0
			tx, rs, err = k.template(spec, m2)
			if err != nil {
				return nil, err
			}
			raw, _, _, _ = encodeTx(tx, nil)
			if len(raw) != m.targetSize {
				return nil, fmt.Errorf("size adjustment missed: %d != %d", len(raw), m.targetSize)
			}
		}
	}
	out := &built{rs: rs, standard: true}
	base := k.bc.GetBaseExecFee()
	for i, r := range rs {
		if r.standard {
			f, _ := fee.Calculate(base, r.actor.Ver)
			if f <= 0 {
				return nil, fmt.Errorf("fee calculator returned %d for a standard witness", f)
			}
			out.verFee += f
			continue
		}
		out.standard = false
		g, err := k.measure(tx, r.hash, tx.Scripts[i].InvocationScript)
		if err != nil {
			return nil, fmt.Errorf("measuring witness %d (%s): %v", i, r.kind, err)
		}
		out.verFee += g
	}
	raw, _, _, err := encodeTx(tx, nil)
	if err != nil {
		return nil, err
	}
	out.size = len(raw)
	out.sizeFee = int64(out.size) * k.bc.FeePerByte()
	if out.attrFee, err = k.attrFee(tx); err != nil {
		return nil, err
	}
	out.need = out.verFee + out.sizeFee + out.attrFee
	nf := out.need + spec.ExtraFee + m.netFeeAdj
	if m.sizeFloor {
		nf = out.sizeFee + out.attrFee - 1
	}
	if nf < 0 {
		return nil, errors.New("negative network fee")
	}
	out.tx = k.sign(tx, rs, nf)
	return out, nil
}

// sign produces a fresh transaction object (no cached hash/size) with the given network fee and real witnesses.
func (k *kit) sign(tmpl *transaction.Transaction, rs []rsigner, netFee int64) *transaction.Transaction {
	return k.signOver(tmpl, rs, netFee, nil)
}

// fixedHash is a Hashable with a given hash (used to sign the bytes of a non-minimal encoding).
type fixedHash util.Uint256

func (f fixedHash) Hash() util.Uint256 { return util.Uint256(f) }

// signOver is sign with the signed item given explicitly (nil: the transaction itself).
func (k *kit) signOver(tmpl *transaction.Transaction, rs []rsigner, netFee int64, item hash.Hashable) *transaction.Transaction {
	tx := &transaction.Transaction{
		Version: tmpl.Version, Nonce: tmpl.Nonce, SystemFee: tmpl.SystemFee, NetworkFee: netFee,
		ValidUntilBlock: tmpl.ValidUntilBlock, Script: tmpl.Script,
		Attributes: append([]transaction.Attribute{}, tmpl.Attributes...),
		Signers:    append([]transaction.Signer{}, tmpl.Signers...),
	}
	if item == nil {
		item = tx
	}
	for _, r := range rs {
		switch {
		case r.actor != nil:
			tx.Scripts = append(tx.Scripts, transaction.Witness{InvocationScript: r.actor.Invocation(item), VerificationScript: r.actor.Ver})
		case r.kind == "notary":
			w := io.NewBufBinWriter()
			emit.Bytes(w.BinWriter, ck.RoleKeys[0].Priv.SignHashable(uint32(ck.Magic), item))
			tx.Scripts = append(tx.Scripts, transaction.Witness{InvocationScript: w.Bytes(), VerificationScript: []byte{}})
		default:
			tx.Scripts = append(tx.Scripts, transaction.Witness{InvocationScript: []byte{}, VerificationScript: []byte{}})
		}
	}
	return tx
}

// refee re-signs the content of b.tx with another network fee.
func (k *kit) refee(b *built, netFee int64) *transaction.Transaction {
	return k.sign(b.tx, b.rs, netFee)
}

// clone gives a fresh object with the same content and witnesses (no cached hash or size).
func clone(tx *transaction.Transaction) *transaction.Transaction {
	c := &transaction.Transaction{
		Version: tx.Version, Nonce: tx.Nonce, SystemFee: tx.SystemFee, NetworkFee: tx.NetworkFee,
		ValidUntilBlock: tx.ValidUntilBlock, Script: tx.Script,
		Attributes: append([]transaction.Attribute{}, tx.Attributes...),
		Signers:    append([]transaction.Signer{}, tx.Signers...),
	}
	for _, w := range tx.Scripts {
		c.Scripts = append(c.Scripts, w.Copy())
	}
	return c
}

func poolHashes(bc *core.Blockchain) []util.Uint256 {
	txs := bc.GetMemPool().GetVerifiedTransactions()
	hs := make([]util.Uint256, len(txs))
	for i, t := range txs {
		hs[i] = t.Hash()
	}
	return hs
}

func sameHashes(a, b []util.Uint256) bool {
	if len(a) != len(b) {
		return false
	}
	for i := range a {
		if a[i] != b[i] {
			return false
		}
	}
	return true
}

// probe submits tx to the node's pool. It returns the admission error and, separately, a violation of the
// bookkeeping clauses: accepted => listed exactly once and nothing else changed; rejected => pool unchanged.
// An accepted transaction is removed again so that the next probe sees the same pool.
func probe(bc *core.Blockchain, tx *transaction.Transaction) (admission error, violation error) {
	before := poolHashes(bc)
	err := bc.PoolTx(tx)
	after := poolHashes(bc)
	if err != nil {
		if !sameHashes(before, after) {
			return err, fmt.Errorf("rejected (%v) but the pool changed: %d -> %d entries", err, len(before), len(after))
		}
		return err, nil
	}
	h := tx.Hash()
	if !bc.GetMemPool().ContainsKey(h) {
		return nil, fmt.Errorf("PoolTx returned nil but the pool does not contain %s", h.StringLE())
	}
	var rest []util.Uint256
	n := 0
	for _, x := range after {
		if x == h {
			n++
			continue
		}
		rest = append(rest, x)
	}
	if n != 1 {
		return nil, fmt.Errorf("accepted transaction listed %d times by GetVerifiedTransactions", n)
	}
	if !sameHashes(before, rest) {
		return nil, fmt.Errorf("accepting a transaction without conflicts changed other pool entries: %d -> %d", len(before), len(rest))
	}
	bc.GetMemPool().Remove(h)
	if !sameHashes(before, poolHashes(bc)) {
		return nil, errors.New("pool differs after removing the probed transaction")
	}
	return nil, nil
}

func isAny(err error, targets ...error) bool {
	for _, t := range targets {
		if errors.Is(err, t) {
			return true
		}
	}
	return false
}

// gasTransferScript builds a script sending GAS from `from` to each target.
func gasTransferScript(from util.Uint160, to []util.Uint160, amount []int64) []byte {
	w := io.NewBufBinWriter()
	for i := range to {
		emit.AppCall(w.BinWriter, nativehashes.GasToken, "transfer", callflag.All, from, to[i], amount[i], nil)
		emit.Opcodes(w.BinWriter, opcode.ASSERT)
	}
	return w.Bytes()
}

func gasBalance(bc *core.Blockchain, h util.Uint160) *big.Int {
	return bc.GetUtilityTokenBalance(h, util.Uint160{})
}

func txBytes(tx *transaction.Transaction) []byte {
	w := io.NewBufBinWriter()
	tx.EncodeBinary(w.BinWriter)
	return w.Bytes()
}

// buildNonCanon builds the bytes of a valid transaction in a non-minimal encoding whose signatures cover the
// hash of exactly these bytes and whose fee pays for exactly this size (what a sender submitting such bytes
// through sendrawtransaction would produce). ok=false when the pick yields the canonical bytes.
func (k *kit) buildNonCanon(spec TxSpec, m mods, p encPick) (raw []byte, name string, ok bool, err error) {
	B, err := k.build(spec, m)
	if err != nil {
		return nil, "", false, err
	}
	canon, sites, _, err := encodeTx(B.tx, nil)
	if err != nil {
		return nil, "", false, err
	}
	alt, name, ok := altFor(sites, p, B.tx)
	if !ok {
		return nil, "", false, nil
	}
	r0, _, _, err := encodeTx(B.tx, alt)
	if err != nil {
		return nil, "", false, err
	}
	if len(r0) == len(canon) && string(r0) == string(canon) {
		return nil, "", false, nil
	}
	nf := B.tx.NetworkFee + int64(len(r0)-len(canon))*k.bc.FeePerByte()
	unsigned := k.signOver(B.tx, B.rs, nf, fixedHash{}) // right sizes, throw-away signatures
	r1, _, hashable, err := encodeTx(unsigned, alt)
	if err != nil {
		return nil, "", false, err
	}
	final := k.signOver(B.tx, B.rs, nf, fixedHash(hash.Sha256(r1[:hashable])))
	raw, _, _, err = encodeTx(final, alt)
	return raw, name, true, err
}
