package c07

import "verifharness/vt"

func init() {
	vt.PropertyID = "C07"
	vt.Register("admission", 1.0, genAdmCase, checkAdmCase)
	vt.Register("proposal", 0.3, genPropCase, checkPropCase)
	vt.Register("threshold_multisig", 0.03, genThrCase, checkThrCase)
}
