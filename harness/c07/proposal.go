package c07

import (
	"errors"
	"fmt"
	"regexp"

	"github.com/nspcc-dev/neo-go/pkg/core"
	"github.com/nspcc-dev/neo-go/pkg/core/transaction"
	"github.com/nspcc-dev/neo-go/pkg/io"
	"github.com/nspcc-dev/neo-go/pkg/smartcontract/trigger"
	"github.com/nspcc-dev/neo-go/pkg/util"
	"pgregory.net/rapid"
	ck "verifharness/chainkit"
	"verifharness/vt"
)

// KnownSRIHSize is the key of the finding "ApplyPolicyToTxSet ignores PrevStateRoot when estimating the block size".
const KnownSRIHSize = "proposal-size-ignores-stateroot"

// PTx is one transaction offered to the pool of the proposing node.
type PTx struct {
	Payer      int      `json:"payer"`               // 0-3 Accounts[i], 4-5 Accounts[4..5]
	CoSigner   int      `json:"cosigner"`            // -1 none, else a second account
	Multi      int      `json:"multi,omitempty"`     // > 0: an extra M-of-3 multisig co-signer
	ExtraFee   int64    `json:"extra_fee,omitempty"` // above the required network fee (priority)
	SysFee     int64    `json:"sysfee"`
	ScriptSize int      `json:"script_size"`
	High       bool     `json:"high,omitempty"`
	Conf       int      `json:"conf"`           // -1, else index of an earlier transaction named in a Conflicts attribute
	Late       bool     `json:"late,omitempty"` // offered to the pool in a second pass
	Enc        *encPick `json:"enc,omitempty"`  // arrives as bytes in this non-minimal encoding (signed and paid as such)
	Nonce      uint32   `json:"nonce"`
	VUB        uint32   `json:"vub"`
}

// PConf puts a transaction B on chain that names one of the offered transactions (the victim) in one of its 1-3
// Conflicts attributes (the other hashes belong to never-sent transactions of the same signers).
type PConf struct {
	Victim   int  `json:"victim"`             // index into Txs (modulo)
	N        int  `json:"n"`                  // number of Conflicts attributes of B
	Pos      int  `json:"pos"`                // which of them names the victim
	Cosigner bool `json:"cosigner,omitempty"` // the common signer is a non-sender signer of the victim (when it has one)
	BSig     int  `json:"b_sig"`              // signers of B (1-3)
	Control  bool `json:"control,omitempty"`  // B has NO signer in common with the victim
	Before   bool `json:"before,omitempty"`   // B is on chain before the pool is filled (otherwise its block arrives afterwards)
}

// PropCase is one proposal case.
type PropCase struct {
	Chain   ck.ChainCfg    `json:"chain"`
	History []ck.BlockSpec `json:"history"`
	Txs     []PTx          `json:"txs"`
	Conf    *PConf         `json:"conf,omitempty"`
	TimeD   uint32         `json:"time_d"`
	Nonce   uint64         `json:"nonce"`
	Primary int            `json:"primary"`
	// Mid > 0: a block is accepted between the first and the second (Late) pass of offers: 1 an empty one, 2 one
	// made of the MidK best pooled transactions (the pool is refreshed by it, the late offers meet the refreshed pool).
	// Mid == 3: that block carries committee transactions (MidSpec) changing the policy the pooled transactions
	// were admitted under: fee per byte, execution fee factor, attribute fees, a payer's account blocked.
	Mid     int           `json:"mid,omitempty"`
	MidK    int           `json:"mid_k,omitempty"`
	MidSpec *ck.BlockSpec `json:"mid_spec,omitempty"`
	// Aim != nil: MaxBlockSize is not drawn but derived from the case: the case is first evaluated with the wide
	// default, the real encoding of a block holding the best Cut pooled transactions is measured, and the case is
	// then evaluated with MaxBlockSize = that size + Delta (Delta in -2..2), so that the size rule binds exactly
	// there - including at 253 transactions, where the count prefix grows from 1 to 3 bytes.
	Aim *PAim `json:"aim,omitempty"`
}

// PAim aims MaxBlockSize at a cut of the pool order.
type PAim struct {
	Cut   int `json:"cut"`
	Delta int `json:"delta"`
}

func genPropCase(t *rapid.T) PropCase {
	c := PropCase{Chain: genChain(t)}
	// Small limits so that each of them truncates the set in a good share of the cases: a drawn focus decides which
	// limits are tight (the others keep their wide defaults).
	focus := rapid.SampledFrom([]string{"size", "size", "count", "count", "sysfee", "sysfee", "all", "all", "none"}).Draw(t, "focus")
	if focus == "size" || focus == "all" {
		c.Chain.MaxBlockSize = uint32(rapid.IntRange(1500, 14000).Draw(t, "max_block_size"))
	}
	if focus == "count" || focus == "all" {
		c.Chain.MaxTxPerBlock = uint16(rapid.IntRange(1, 40).Draw(t, "max_tx"))
	}
	if focus == "sysfee" || focus == "all" {
		c.Chain.MaxBlockSysFee = rapid.Int64Range(20_0000_0000, 60_0000_0000).Draw(t, "max_sysfee") // >= the bootstrap's deploy fee
	}
	c.History = genHistory(t, 3)
	if c.Chain.Profile == "V4C6" && rapid.IntRange(0, 2).Draw(t, "vhist") == 0 {
		// the number of validators changes at height 6 (the first committee refresh): the proposal for block 6 is still
		// signed by the four old validators, the one for block 7 by the new ones
		c.Chain.ValidatorsHistory = map[uint32]uint32{0: 4, 6: uint32(rapid.SampledFrom([]int{1, 1, 6}).Draw(t, "vhist_n"))}
	}
	n := rapid.IntRange(5, 80).Draw(t, "ntx")
	// many: a pool of 250-330 small transactions, the size limit aimed at a cut around the 252/253 boundary.
	many := rapid.IntRange(0, 9).Draw(t, "many") == 0
	sizes := []int{1, 3, 40, 100, 253, 400, 1000, 3000}
	if many {
		n = rapid.IntRange(270, 340).Draw(t, "ntx_many")
		sizes = []int{1, 1, 2, 3, 5, 8, 40}
		c.Chain.MaxBlockSize, c.Chain.MaxTxPerBlock, c.Chain.MaxBlockSysFee = 0, 0, 0
		c.Aim = &PAim{Cut: rapid.SampledFrom([]int{250, 251, 252, 252, 253, 253, 254, 255, 260}).Draw(t, "aim_cut_many"), Delta: rapid.IntRange(-2, 2).Draw(t, "aim_delta")}
	} else if focus == "size" && rapid.Bool().Draw(t, "aimed") {
		c.Aim = &PAim{Cut: rapid.IntRange(1, n).Draw(t, "aim_cut"), Delta: rapid.IntRange(-2, 2).Draw(t, "aim_delta")}
	}
	if len(c.Chain.ValidatorsHistory) > 0 && c.Aim == nil && rapid.IntRange(0, 3).Draw(t, "vhist_aimed") != 0 {
		// the size rule has to bind for the witness estimate to matter
		c.Chain.MaxTxPerBlock, c.Chain.MaxBlockSysFee = 0, 0
		c.Aim = &PAim{Cut: rapid.IntRange(1, n).Draw(t, "aim_cut_vh"), Delta: rapid.IntRange(-2, 2).Draw(t, "aim_delta_vh")}
	}
	switch rapid.IntRange(0, 5).Draw(t, "mid") {
	case 0, 1:
		c.Mid = 1
	case 2:
		c.Mid, c.MidK = 2, rapid.IntRange(1, 6).Draw(t, "mid_k")
	case 3:
		c.Mid = 3
		bs := ck.BlockSpec{TimeD: 1000, Nonce: rapid.Uint64().Draw(t, "mid_nonce")}
		for j := rapid.IntRange(1, 2).Draw(t, "mid_n"); j > 0; j-- {
			if rapid.IntRange(0, 3).Draw(t, "mid_lower_vub") == 0 {
				// Echidna made the validity window a Policy value: a pooled transaction valid until far ahead stops being
				// valid ("not yet valid") when the committee shrinks the window
				bs.Txs = append(bs.Txs, ck.Action{Kind: "policy", S: "setMaxValidUntilBlockIncrement", From: 4 + rapid.IntRange(0, 1).Draw(t, "payer"), N: int64(rapid.IntRange(1, 6).Draw(t, "mid_vub_inc")), Nonce: rapid.Uint32().Draw(t, "pnonce")})
			} else if rapid.IntRange(0, 2).Draw(t, "mid_block_account") == 0 {
				bs.Txs = append(bs.Txs, ck.Action{Kind: "policy", S: "blockAccount", From: 4 + rapid.IntRange(0, 1).Draw(t, "payer"), A: rapid.IntRange(0, 5).Draw(t, "blocked"), Nonce: rapid.Uint32().Draw(t, "pnonce")})
			} else {
				bs.Txs = append(bs.Txs, genPolicyAction(t))
			}
		}
		c.MidSpec = &bs
	}
	for i := 0; i < n; i++ {
		p := PTx{
			Payer:      rapid.IntRange(0, 5).Draw(t, "payer"),
			CoSigner:   rapid.IntRange(-1, 3).Draw(t, "cosigner"),
			SysFee:     rapid.SampledFrom([]int64{0, 1000, 100000, 1_0000_0000, 3_0000_0000, 8_0000_0000, 8_0000_0000}).Draw(t, "sysfee"),
			ScriptSize: rapid.SampledFrom(sizes).Draw(t, "ssize"),
			ExtraFee:   rapid.SampledFrom([]int64{0, 0, 1, 1000, 50000, 1000000, 1000001}).Draw(t, "extra"),
			High:       rapid.IntRange(0, 9).Draw(t, "high") == 0,
			Conf:       -1,
			Late:       rapid.IntRange(0, 5).Draw(t, "late") == 0,
			Nonce:      rapid.Uint32().Draw(t, "nonce"),
			VUB:        uint32(rapid.IntRange(0, 50).Draw(t, "vub")),
		}
		if many {
			p.SysFee, p.CoSigner, p.VUB = 0, -1, max(p.VUB, 2)
		}
		if !many && rapid.IntRange(0, 7).Draw(t, "hasmulti") == 0 {
			p.Multi = rapid.IntRange(1, 3).Draw(t, "multi")
		}
		if i > 0 && rapid.IntRange(0, 5).Draw(t, "hasconf") == 0 && (!many || i%7 == 0) {
			p.Conf = rapid.IntRange(0, i-1).Draw(t, "conf")
		}
		if !many && rapid.IntRange(0, 11).Draw(t, "hasenc") == 0 {
			p.Enc = &encPick{Pos: rapid.IntRange(0, 12).Draw(t, "epos"), Form: rapid.IntRange(0, 2).Draw(t, "eform")}
		}
		c.Txs = append(c.Txs, p)
	}
	if rapid.IntRange(0, 2).Draw(t, "hasonchainconf") == 0 {
		pc := &PConf{
			Victim:   rapid.IntRange(0, n-1).Draw(t, "victim"),
			N:        rapid.SampledFrom([]int{1, 2, 2, 3, 3, 3}).Draw(t, "conf_n"),
			Cosigner: rapid.Bool().Draw(t, "conf_cosigner"),
			BSig:     rapid.IntRange(1, 3).Draw(t, "b_sig"),
			Control:  rapid.IntRange(0, 3).Draw(t, "conf_control") == 0,
			Before:   rapid.Bool().Draw(t, "conf_before"),
		}
		pc.Pos = rapid.IntRange(0, pc.N-1).Draw(t, "conf_pos")
		c.Conf = pc
	}
	c.TimeD = uint32(rapid.IntRange(1, 20000).Draw(t, "timed"))
	c.Nonce = rapid.Uint64().Draw(t, "bnonce")
	c.Primary = rapid.IntRange(0, 6).Draw(t, "primary")
	return c
}

func accountSigner(i int) SignerSpec {
	if i >= 4 {
		return SignerSpec{Kind: "outsider", Key: i - 4}
	}
	return SignerSpec{Kind: "sig", Key: i}
}

func checkPropCase(c PropCase, o *vt.Obs) error {
	return checkProp(c, o, !vt.Known(KnownNonCanonical), vt.Known(KnownSRIHSize))
}

// checkProp evaluates one proposal case. nonCanon: non-minimal encodings are offered; srihKnown: the listed
// finding about the state-root bytes is tolerated.
func checkProp(c PropCase, o *vt.Obs, nonCanon, srihKnown bool) error {
	if c.Aim != nil {
		// first pass: measure; second pass: the same case under the aimed limit.
		wide := c
		wide.Chain.MaxBlockSize = 0
		wide.Aim = nil
		var size, cut int
		if err := checkProp1(wide, &vt.Obs{}, nonCanon, srihKnown, &measure{cut: c.Aim.Cut, size: &size, got: &cut}); err != nil {
			return err
		}
		if cut == 0 {
			o.Label("aim-empty-pool")
			return nil
		}
		aimed := c
		aimed.Aim = nil
		aimed.Chain.MaxBlockSize = uint32(size + max(min(c.Aim.Delta, 2), -2))
		o.Labelf("aimed-size-delta-%d", max(min(c.Aim.Delta, 2), -2))
		switch {
		case cut >= 253:
			o.Label("aimed-cut-253-or-more")
		case cut == 252:
			o.Label("aimed-cut-252")
		}
		return checkProp1(aimed, o, nonCanon, srihKnown, nil)
	}
	return checkProp1(c, o, nonCanon, srihKnown, nil)
}

// measure asks checkProp1 to stop once the pool is filled and to report the encoded size of a block holding the
// best cut pooled transactions.
type measure struct {
	cut  int
	size *int
	got  *int
}

func checkProp1(c PropCase, o *vt.Obs, nonCanon, srihKnown bool, ms *measure) error {
	e, err := newEnv(c.Chain)
	if err != nil {
		return err
	}
	defer e.close()
	k, bc := e.k, e.k.bc
	for i, bs := range c.History {
		if err := e.specBlock(bs, false); err != nil {
			return fmt.Errorf("history block %d: %v", i, err)
		}
	}

	// --- fill the pool of the proposing node; every transaction arrives as bytes (sendrawtransaction / CMDTX path) ---
	hashes := make([]util.Uint256, len(c.Txs))
	raws := make([][]byte, len(c.Txs))
	builts := make([]*built, len(c.Txs))
	specs := make([]TxSpec, len(c.Txs))
	excluded := false
	victim := -1
	if c.Conf != nil && len(c.Txs) > 0 {
		victim = mod(c.Conf.Victim, len(c.Txs))
	}
	for i, p := range c.Txs {
		if i == victim {
			p.Enc = nil           // the victim is an ordinary canonical transaction
			p.VUB = max(p.VUB, 1) // still inside its validity window after B's block
			if c.Mid > 0 {
				p.VUB = max(p.VUB, 2) // ... and after the block between the offers
			}
		}
		spec := TxSpec{
			Signers:    []SignerSpec{accountSigner(mod(p.Payer, 6))},
			ScriptKind: "blob", ScriptSize: p.ScriptSize, SysFee: p.SysFee, Nonce: p.Nonce, VUB: p.VUB, ExtraFee: p.ExtraFee,
		}
		if p.CoSigner >= 0 {
			spec.Signers = append(spec.Signers, accountSigner(mod(p.CoSigner, 6)))
			spec.Signers[1].Scope = 1
		}
		if p.Multi > 0 {
			spec.Signers = append(spec.Signers, SignerSpec{Kind: "multi", Key: p.Payer, M: p.Multi, N: 3, Scope: 2})
		}
		if p.High {
			spec.Attrs = append(spec.Attrs, AttrSpec{Kind: "high"})
			spec.Signers = append(spec.Signers, SignerSpec{Kind: "committee", Scope: 2})
		}
		var m mods
		if p.Conf >= 0 && p.Conf < i {
			m.extraAttrs = []transaction.Attribute{{Type: transaction.ConflictsT, Value: &transaction.Conflicts{Hash: hashes[p.Conf]}}}
		}
		if p.Enc != nil && !nonCanon {
			excluded = true
		}
		if p.Enc != nil && nonCanon {
			raw, _, ok, err := k.buildNonCanon(spec, m, *p.Enc)
			if err != nil {
				return fmt.Errorf("tx %d: %v", i, err)
			}
			if ok {
				if _, derr := transaction.NewTransactionFromBytes(raw); derr != nil {
					o.Label("noncanonical-rejected-by-decoder") // such bytes cannot arrive: offer the canonical form instead
				} else {
					raws[i] = raw
					o.Label("offered-noncanonical")
				}
			}
		}
		specs[i] = spec
		if raws[i] == nil {
			B, err := k.build(spec, m)
			if err != nil {
				return fmt.Errorf("tx %d: %v", i, err)
			}
			raws[i] = txBytes(B.tx)
			builts[i] = B
		}
		tx, err := transaction.NewTransactionFromBytes(raws[i])
		if err != nil {
			return fmt.Errorf("harness: tx %d does not decode: %v", i, err)
		}
		hashes[i] = tx.Hash()
	}
	if excluded {
		o.Excluded()
	}
	// --- optional: a transaction naming the victim gets on chain (before or after the pool is filled) --------------
	shared := false
	onChainConflict := func() error {
		pc := c.Conf
		V := builts[victim]
		n := min(max(pc.N, 1), 3)
		pos := mod(pc.Pos, n)
		nb := min(max(pc.BSig, 1), 3)
		inVictim := func(a int) bool {
			h := ck.Accounts[a].Hash
			for _, r := range V.rs {
				if r.hash == h {
					return true
				}
			}
			return false
		}
		var others []SignerSpec
		for a := 0; a < 6; a++ {
			if !inVictim(a) {
				others = append(others, accountSigner(a))
			}
		}
		var signers []SignerSpec
		if pc.Control {
			signers = others[:min(nb, 2)]
			o.Label("onchain-conflict-control")
		} else {
			j := 0
			if pc.Cosigner && len(V.rs) > 1 {
				j = 1 + mod(pc.Victim, len(V.rs)-1)
			}
			sh := V.rs[j].spec
			sh.Scope = 2
			account := sh.Kind == "sig" || sh.Kind == "outsider"
			if nb == 1 && !account {
				nb = 2
			}
			switch nb {
			case 1:
				signers = []SignerSpec{sh}
			case 2:
				signers = []SignerSpec{others[0], sh}
				if account && pc.Pos%2 == 1 {
					signers = []SignerSpec{sh, others[0]}
				}
			default:
				signers = []SignerSpec{others[0], sh, others[1]}
			}
			shared = true
			if j == 0 {
				o.Label("onchain-conflict-shared-sender")
			} else {
				o.Label("onchain-conflict-shared-cosigner")
			}
		}
		var attrs []transaction.Attribute
		for a := 0; a < n; a++ {
			hh := hashes[victim]
			if a != pos {
				ds := specs[victim]
				ds.Nonce += 7919 * uint32(a+1)
				D, err := k.build(ds, mods{})
				if err != nil {
					return fmt.Errorf("decoy transaction: %v", err)
				}
				hh = D.tx.Hash()
			}
			attrs = append(attrs, transaction.Attribute{Type: transaction.ConflictsT, Value: &transaction.Conflicts{Hash: hh}})
		}
		B, err := e.execTx(signers, attrs, []byte{0x40})
		if err != nil {
			return fmt.Errorf("conflicting transaction: %v", err)
		}
		if err := e.rawBlock(B); err != nil { // arrives inside a block, never through this node's pool
			return fmt.Errorf("block with the conflicting transaction: %v", err)
		}
		o.Labelf("onchain-conflict-attrs-%d", n)
		if pos > 0 {
			o.Label("onchain-conflict-victim-named-by-later-attr")
		}
		what := fmt.Sprintf("victim (tx %d, %s) is named by Conflicts attribute %d of %d of an on-chain transaction with %d signers", victim, describe(V), pos, n, len(B.Signers))
		vtx, _ := transaction.NewTransactionFromBytes(raws[victim])
		verr := bc.VerifyTx(vtx)
		if shared {
			if verr == nil {
				return fmt.Errorf("%s, one of them its own signer: VerifyTx accepts it, must be rejected", what)
			}
			if !errors.Is(verr, core.ErrHasConflicts) {
				return fmt.Errorf("%s, one of them its own signer: rejected with an error of an unexpected class: %v", what, verr)
			}
			if bc.GetMemPool().ContainsKey(hashes[victim]) {
				return fmt.Errorf("%s, one of them its own signer: still in the memory pool after the block", what)
			}
		} else if verr != nil {
			return fmt.Errorf("%s, NONE of them its signer: VerifyTx rejects it, must be accepted: %v", what, verr)
		}
		return nil
	}
	if victim >= 0 && c.Conf.Before {
		o.Label("onchain-conflict-before-pooling")
		if err := onChainConflict(); err != nil {
			return err
		}
	}
	accepted, rejected := 0, 0
	offer := func(i int) {
		tx, _ := transaction.NewTransactionFromBytes(raws[i])
		if err := bc.PoolTx(tx); err != nil {
			rejected++
			o.Labelf("offer-rejected: %s", errClass(err))
			return
		}
		accepted++
	}
	for i, p := range c.Txs {
		if !p.Late {
			offer(i)
		}
	}
	switch c.Mid {
	case 1:
		if err := e.rawBlock(); err != nil {
			return fmt.Errorf("empty block between the offers: %v", err)
		}
		o.Label("mid-block-empty")
	case 2:
		pooled := bc.GetMemPool().GetVerifiedTransactions()
		kk := min(max(c.MidK, 1), len(pooled))
		if err := e.rawBlock(pooled[:kk]...); err != nil {
			return fmt.Errorf("block of the %d best pooled transactions between the offers: %v", kk, err)
		}
		o.Label("mid-block-from-pool")
	case 3:
		if c.MidSpec != nil {
			if err := e.specBlock(*c.MidSpec, false); err != nil {
				return fmt.Errorf("policy block between the offers: %v", err)
			}
			for _, a := range c.MidSpec.Txs {
				o.Labelf("mid-block-policy-%s", a.S)
			}
		}
	}
	if c.Mid > 0 {
		// nothing that is on chain or outside its validity window may stay pooled
		for _, tx := range bc.GetMemPool().GetVerifiedTransactions() {
			if aers, err := bc.GetAppExecResults(tx.Hash(), trigger.Application); err == nil && len(aers) > 0 {
				return fmt.Errorf("transaction %s is on chain and still pooled after the block", tx.Hash().StringLE())
			}
			if tx.ValidUntilBlock <= bc.BlockHeight() {
				return fmt.Errorf("transaction %s (ValidUntilBlock %d) still pooled at height %d", tx.Hash().StringLE(), tx.ValidUntilBlock, bc.BlockHeight())
			}
		}
	}
	for i, p := range c.Txs {
		if p.Late {
			offer(i)
		}
	}
	o.Units(accepted)
	if rejected > 0 {
		o.Label("some-offers-rejected")
	}
	if victim >= 0 && !c.Conf.Before && c.Mid >= 2 {
		// the block between the offers put pooled transactions on chain or changed the policy: the victim may be one of them, may name one
		// of them or be named by one of them, so the expectations of the scenario below do not hold as written.
		victim = -1
		o.Label("onchain-conflict-skipped-after-pool-block")
	}
	if victim >= 0 && !c.Conf.Before {
		if bc.GetMemPool().ContainsKey(hashes[victim]) {
			o.Label("onchain-conflict-victim-was-pooled")
		}
		o.Label("onchain-conflict-after-pooling")
		if err := onChainConflict(); err != nil {
			return err
		}
	}

	// --- take the pool content the way consensus does ---------------------------------------------------------------
	cfg := bc.GetConfig().ProtocolConfiguration
	verified := bc.GetMemPool().GetVerifiedTransactions()
	for i := 1; i < len(verified); i++ {
		if cmpPriority(verified[i-1], verified[i]) < 0 {
			return fmt.Errorf("pool order: entry %d has lower priority than entry %d (high %v/%v, fee per byte %d/%d, network fee %d/%d)", i-1, i,
				verified[i-1].HasAttribute(transaction.HighPriority), verified[i].HasAttribute(transaction.HighPriority),
				verified[i-1].FeePerByte(), verified[i].FeePerByte(), verified[i-1].NetworkFee, verified[i].NetworkFee)
		}
	}
	switch n := len(verified); {
	case n >= 253:
		o.Label("pool-253-or-more")
	case n >= 100:
		o.Label("pool-100-252")
	}
	if ms != nil {
		*ms.got = min(max(ms.cut, 1), len(verified))
		if *ms.got == 0 {
			return nil
		}
		mb, err := k.b.NextBlock(verified[:*ms.got], c.TimeD, c.Nonce, c.Primary)
		if err != nil {
			return fmt.Errorf("assembling the measured block: %v", err)
		}
		mw := io.NewBufBinWriter()
		mb.EncodeBinary(mw.BinWriter)
		*ms.size = len(mw.Bytes())
		return nil
	}
	sel := verified
	if len(sel) > 0 { // consensus calls ApplyPolicyToTxSet only for a non-empty set
		sel = bc.ApplyPolicyToTxSet(verified)
	}
	if len(sel) > len(verified) {
		return fmt.Errorf("ApplyPolicyToTxSet returned %d transactions out of %d", len(sel), len(verified))
	}
	for i := range sel {
		if sel[i] != verified[i] {
			return fmt.Errorf("ApplyPolicyToTxSet: element %d is not element %d of the pool order", i, i)
		}
	}
	if shared {
		for i, tx := range verified {
			if tx.Hash() == hashes[victim] {
				return fmt.Errorf("pool entry %d is the victim named by an on-chain transaction of one of its signers (selected for the proposal: %v)", i, i < len(sel))
			}
		}
	}
	if len(sel) > int(cfg.MaxTransactionsPerBlock) {
		return fmt.Errorf("%d transactions selected, MaxTransactionsPerBlock = %d", len(sel), cfg.MaxTransactionsPerBlock)
	}
	var sys int64
	for _, tx := range sel {
		sys += tx.SystemFee
	}
	if sys > cfg.MaxBlockSystemFee {
		return fmt.Errorf("selected transactions carry system fee %d > MaxBlockSystemFee %d", sys, cfg.MaxBlockSystemFee)
	}

	// --- assemble and sign the block like the primary, serialise, parse like a peer --------------------------------
	blk, err := k.b.NextBlock(sel, c.TimeD, c.Nonce, c.Primary)
	if err != nil {
		return fmt.Errorf("assembling the proposal: %v", err)
	}
	w := io.NewBufBinWriter()
	blk.EncodeBinary(w.BinWriter)
	if w.Err != nil {
		return fmt.Errorf("encoding the proposal: %v", w.Err)
	}
	raw := w.Bytes()
	// Known finding (when listed): ApplyPolicyToTxSet estimates the block size without the 32-byte PrevStateRoot on
	// StateRootInHeader chains; exactly that excess is tolerated then so that the search continues behind it.
	slack := 0
	if c.Chain.SRIH && srihKnown {
		slack = util.Uint256Size
		if len(raw) > int(cfg.MaxBlockSize) && len(raw) <= int(cfg.MaxBlockSize)+slack {
			o.Excluded()
			o.Label("size-excess-excluded-known")
		}
	}
	if len(raw) > int(cfg.MaxBlockSize)+slack {
		return fmt.Errorf("proposal of %d transactions taken from ApplyPolicyToTxSet encodes to %d bytes > MaxBlockSize %d (StateRootInHeader=%v, %d validators)", len(sel), len(raw), cfg.MaxBlockSize, c.Chain.SRIH, len(blk.Script.VerificationScript)/35)
	}
	dec, err := ck.DecodeBlock(raw, c.Chain.SRIH)
	if err != nil {
		return fmt.Errorf("peer cannot decode the proposal: %v", err)
	}
	if len(dec.Transactions) != len(sel) {
		return fmt.Errorf("decoded proposal has %d transactions, sent %d", len(dec.Transactions), len(sel))
	}
	for i := range sel {
		if dec.Transactions[i].Hash() != sel[i].Hash() {
			return fmt.Errorf("transaction %d was pooled under hash %s (size %d) but after the block round trip it has hash %s (size %d)", i,
				sel[i].Hash().StringLE(), sel[i].Size(), dec.Transactions[i].Hash().StringLE(), dec.Transactions[i].Size())
		}
	}
	// block.go: "GetExpectedBlockSize returns the expected block size which should be equal to io.GetVarSize(b)";
	// it is what ApplyPolicyToTxSet (primary) and verifyBlock (backups) compare with MaxBlockSize.
	if got := dec.GetExpectedBlockSize(); got != len(raw) {
		return fmt.Errorf("GetExpectedBlockSize of the decoded proposal = %d, its encoding has %d bytes (%d transactions)", got, len(raw), len(sel))
	}
	if got := dec.GetExpectedBlockSize(); got > int(cfg.MaxBlockSize)+slack {
		return fmt.Errorf("backup-side size check: GetExpectedBlockSize %d > MaxBlockSize %d", got, cfg.MaxBlockSize)
	}

	// --- replica at the same height with an empty pool ---------------------------------------------------------------
	rep, err := ck.NewNode(c.Chain, ck.NodeCfg{Backend: "mem"}, nil)
	if err != nil {
		return fmt.Errorf("replica: %v", err)
	}
	defer rep.Close()
	for i, rb := range e.raws {
		pb, err := ck.DecodeBlock(rb, c.Chain.SRIH)
		if err != nil {
			return fmt.Errorf("replica: decode block %d: %v", i+1, err)
		}
		if err := rep.BC.AddBlock(pb); err != nil {
			return fmt.Errorf("replica rejects history block %d: %v", i+1, err)
		}
	}
	if rep.BC.BlockHeight() != bc.BlockHeight() || rep.BC.GetMemPool().Count() != 0 {
		return fmt.Errorf("harness: replica at height %d with %d pooled, proposer at %d", rep.BC.BlockHeight(), rep.BC.GetMemPool().Count(), bc.BlockHeight())
	}
	if err := rep.BC.AddBlock(dec); err != nil {
		return fmt.Errorf("proposal built from the pool (%d of %d pooled transactions) is rejected by a replica after the wire round trip: %v", len(sel), len(verified), err)
	}

	// --- classification ---------------------------------------------------------------------------------------------------
	o.Labelf("profile-%s", c.Chain.Profile)
	if len(c.Chain.ValidatorsHistory) > 0 {
		o.Labelf("validators-history/proposal-for-block-%d", bc.BlockHeight()+1)
	}
	if len(sel) < len(verified) {
		next := verified[len(sel)]
		why := false
		if len(sel) == int(cfg.MaxTransactionsPerBlock) {
			o.Label("proposal-truncated-by-count")
			why = true
		}
		if sys+next.SystemFee > cfg.MaxBlockSystemFee {
			o.Label("proposal-truncated-by-sysfee")
			why = true
		}
		if len(raw)+next.Size()+2 > int(cfg.MaxBlockSize) {
			o.Label("proposal-truncated-by-size")
			why = true
		}
		if !why {
			o.Label("proposal-truncated-early")
		}
		o.NonTrivial()
	} else {
		o.Label("proposal-whole-pool")
	}
	nh := 0
	for _, tx := range sel {
		if tx.HasAttribute(transaction.HighPriority) {
			nh++
		}
	}
	if nh > 0 {
		o.Label("proposal-has-high-priority")
	}
	return nil
}

// cmpPriority is the documented pool order: HighPriority first, then fee per byte, then network fee.
func cmpPriority(a, b *transaction.Transaction) int {
	ah, bh := a.HasAttribute(transaction.HighPriority), b.HasAttribute(transaction.HighPriority)
	switch {
	case ah && !bh:
		return 1
	case !ah && bh:
		return -1
	}
	if d := a.FeePerByte() - b.FeePerByte(); d != 0 {
		if d > 0 {
			return 1
		}
		return -1
	}
	if d := a.NetworkFee - b.NetworkFee; d != 0 {
		if d > 0 {
			return 1
		}
		return -1
	}
	return 0
}

var (
	reHex = regexp.MustCompile(`[0-9a-fA-F]{8,}`)
	reNum = regexp.MustCompile(`[0-9]+`)
)

// errClass is the text of an error with hashes and numbers blanked (they vary from case to case).
func errClass(err error) string {
	return reNum.ReplaceAllString(reHex.ReplaceAllString(err.Error(), "H"), "N")
}
