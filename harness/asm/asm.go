// Package asm is a tiny NeoVM assembler with labels plus NEF/manifest builders for generated contracts
// (no dependence on the Go-to-NeoVM compiler).
package asm

import (
	"encoding/binary"
	"encoding/json"
	"fmt"

	"github.com/nspcc-dev/neo-go/pkg/io"
	"github.com/nspcc-dev/neo-go/pkg/smartcontract"
	"github.com/nspcc-dev/neo-go/pkg/smartcontract/callflag"
	"github.com/nspcc-dev/neo-go/pkg/smartcontract/manifest"
	"github.com/nspcc-dev/neo-go/pkg/smartcontract/nef"
	"github.com/nspcc-dev/neo-go/pkg/util"
	"github.com/nspcc-dev/neo-go/pkg/vm/emit"
	"github.com/nspcc-dev/neo-go/pkg/vm/opcode"
)

type fixup struct {
	at    int // position of the 4-byte operand
	instr int // start of the instruction (offsets are relative to it)
	label string
}

// B is a script under construction.
type B struct {
	w      *io.BufBinWriter
	fix    []fixup
	labels map[string]int
	uniq   int
}

// New returns an empty builder.
func New() *B { return &B{w: io.NewBufBinWriter(), labels: map[string]int{}} }

// Len is the current offset.
func (b *B) Len() int { return b.w.Len() }

// Op emits plain opcodes.
func (b *B) Op(ops ...opcode.Opcode) *B { emit.Opcodes(b.w.BinWriter, ops...); return b }

// Ins emits an instruction with raw operand bytes.
func (b *B) Ins(op opcode.Opcode, operand ...byte) *B {
	emit.Instruction(b.w.BinWriter, op, operand)
	return b
}

// Int pushes an integer.
func (b *B) Int(n int64) *B { emit.Int(b.w.BinWriter, n); return b }

// Bytes pushes a byte string.
func (b *B) Bytes(v []byte) *B { emit.Bytes(b.w.BinWriter, v); return b }

// Str pushes a string.
func (b *B) Str(s string) *B { emit.String(b.w.BinWriter, s); return b }

// Bool pushes a boolean.
func (b *B) Bool(v bool) *B { emit.Bool(b.w.BinWriter, v); return b }

// Null pushes null.
func (b *B) Null() *B { return b.Op(opcode.PUSHNULL) }

// Any pushes any emit-able value.
func (b *B) Any(v any) *B { emit.Any(b.w.BinWriter, v); return b }

// Syscall emits SYSCALL by interop name.
func (b *B) Syscall(name string) *B { emit.Syscall(b.w.BinWriter, name); return b }

// InitSlot emits INITSLOT.
func (b *B) InitSlot(locals, args uint8) *B { emit.InitSlot(b.w.BinWriter, locals, args); return b }

// AppCall emits a System.Contract.Call with literal arguments.
func (b *B) AppCall(h util.Uint160, method string, f callflag.CallFlag, args ...any) *B {
	emit.AppCall(b.w.BinWriter, h, method, f, args...)
	return b
}

// Raw appends raw script bytes.
func (b *B) Raw(s []byte) *B { b.w.WriteBytes(s); return b }

// Fresh returns a unique label name.
func (b *B) Fresh(prefix string) string {
	b.uniq++
	return fmt.Sprintf("%s#%d", prefix, b.uniq)
}

// Label defines a label at the current offset.
func (b *B) Label(name string) *B {
	if _, ok := b.labels[name]; ok {
		panic("duplicate label " + name)
	}
	b.labels[name] = b.Len()
	return b
}

// Jmp emits a long-form jump-like instruction (JMP_L, JMPIF_L, ..., CALL_L, ENDTRY_L, PUSHA) to a label.
func (b *B) Jmp(op opcode.Opcode, label string) *B {
	start := b.Len()
	b.w.WriteB(byte(op))
	b.fix = append(b.fix, fixup{at: b.Len(), instr: start, label: label})
	b.w.WriteBytes([]byte{0, 0, 0, 0})
	return b
}

// Try emits TRY_L with catch/finally labels ("" = none).
func (b *B) Try(catchLabel, finallyLabel string) *B {
	start := b.Len()
	b.w.WriteB(byte(opcode.TRYL))
	for _, l := range []string{catchLabel, finallyLabel} {
		if l != "" {
			b.fix = append(b.fix, fixup{at: b.Len(), instr: start, label: l})
		}
		b.w.WriteBytes([]byte{0, 0, 0, 0})
	}
	return b
}

// Script resolves labels and returns the bytes.
func (b *B) Script() []byte {
	out := b.w.Bytes()
	res := make([]byte, len(out))
	copy(res, out)
	for _, f := range b.fix {
		t, ok := b.labels[f.label]
		if !ok {
			panic("undefined label " + f.label)
		}
		binary.LittleEndian.PutUint32(res[f.at:], uint32(int32(t-f.instr)))
	}
	return res
}

// Offset returns the offset of a defined label.
func (b *B) Offset(label string) int {
	t, ok := b.labels[label]
	if !ok {
		panic("undefined label " + label)
	}
	return t
}

// MethodSpec describes one ABI method of a generated contract.
type MethodSpec struct {
	Name   string
	Label  string // label of the entry point
	Params int
	Void   bool
	Safe   bool
	Ret    smartcontract.ParamType // zero value: Any
}

// Contract is a deployable generated contract.
type Contract struct {
	Name     string
	NEF      []byte
	Manifest []byte // JSON
	Script   []byte
	M        *manifest.Manifest
	Checksum uint32
}

// ManifestOpt customises the manifest.
type ManifestOpt func(m *manifest.Manifest)

// BuildContract turns a script + method table into NEF bytes and manifest JSON.
// The manifest allows calling anything (permission wildcard) unless an option replaces Permissions, and
// declares one event "E"(Any).
func BuildContract(name string, b *B, methods []MethodSpec, opts ...ManifestOpt) (*Contract, error) {
	script := b.Script()
	ne, err := nef.NewFile(script)
	if err != nil {
		return nil, err
	}
	m := manifest.NewManifest(name)
	for _, ms := range methods {
		mm := manifest.Method{Name: ms.Name, Offset: b.Offset(ms.Label), ReturnType: smartcontract.AnyType, Safe: ms.Safe}
		if ms.Void {
			mm.ReturnType = smartcontract.VoidType
		} else if ms.Ret != 0 {
			mm.ReturnType = ms.Ret
		}
		for i := 0; i < ms.Params; i++ {
			mm.Parameters = append(mm.Parameters, manifest.NewParameter(fmt.Sprintf("a%d", i), smartcontract.AnyType))
		}
		m.ABI.Methods = append(m.ABI.Methods, mm)
	}
	m.ABI.Events = []manifest.Event{{Name: "E", Parameters: []manifest.Parameter{manifest.NewParameter("v", smartcontract.AnyType)}}}
	m.Permissions = []manifest.Permission{*manifest.NewPermission(manifest.PermissionWildcard)}
	for _, o := range opts {
		o(m)
	}
	mj, err := json.Marshal(m)
	if err != nil {
		return nil, err
	}
	nb, err := ne.Bytes()
	if err != nil {
		return nil, err
	}
	return &Contract{Name: name, NEF: nb, Manifest: mj, Script: script, M: m, Checksum: ne.Checksum}, nil
}
