package c20

// trusted: the header stage of a node that bootstraps from a configured TrustedHeader T far from the genesis, with
// graceful restarts in between. The source is one chain of tSrcLen empty blocks built once per process (standby
// validator, StateRootInHeader); only its headers are kept. A fresh node (P2PStateExchangeExtensions,
// RemoveUntraceableBlocks, TrustedHeader{T, hash of header T}) is fed header batches of drawn sizes through
// Blockchain.AddHeaders exactly like Server.handleHeadersCmd does, is closed and reopened over the same store at drawn
// moments, and fed further. The header hash index keeps 2000 hashes per stored page (pkg/core/headerhashes.go), so T and
// the restart heights are drawn around the page boundaries.
//
// Oracle, after the start, after every batch, after every restart and at the end:
//   - the node opens (no error, no panic);
//   - HeaderHeight() is the height of the last header fed (T-1 while nothing was fed);
//   - GetHeaderHash(i) is the source's hash for every T <= i <= HeaderHeight() (below T the node knows nothing);
//   - the headers T, HeaderHeight() and those next to a page boundary can be read back by hash;
//   - the next batch is accepted.

import (
	"fmt"
	"math/bits"
	"sync"
	"time"

	"github.com/nspcc-dev/neo-go/pkg/config"
	"github.com/nspcc-dev/neo-go/pkg/core/block"
	"github.com/nspcc-dev/neo-go/pkg/io"
	"github.com/nspcc-dev/neo-go/pkg/util"
	"pgregory.net/rapid"
	ck "verifharness/chainkit"
	"verifharness/vt"
)

const (
	tSrcLen   = 4600 // blocks of the shared source chain
	tInterval = 5    // StateSyncInterval
	tMTB      = 10   // MaxTraceableBlocks
	tMinT     = 11   // NewBlockchain wants TrustedHeader.Index > max(2*StateSyncInterval, MaxTraceableBlocks)
	tMaxH     = tSrcLen - 70
	tPage     = 2000 // header hashes per stored page
)

// tLedgerQuestions: height -> (blocks back, transaction index) of a ledger_q transaction in the shared source chain.
var tLedgerQuestions = map[int][2]int{2003: {3, 0}, 2004: {1, 0}, 2005: {1, 1}, 2050: {40, 0}, 2051: {1990, 2}, 2500: {2400, 0}, 4005: {1, 0}, 4006: {4001, 1}, 4100: {2095, 0}, 4400: {396, 0},
	4002: {3997, 1}, 4003: {3000, 0}, 4013: {4008, 1}, 4014: {2500, 2}, 4022: {4017, 1}, 4102: {4097, 1}, 4302: {4297, 1}, 4492: {4487, 1}}

var tChain = ck.ChainCfg{Profile: "V1C1", SRIH: true, StateExchange: true, StateSyncInterval: tInterval, MTB: tMTB}

// tSource is the shared source chain: encoded headers and their hashes by height.
type tSource struct {
	blocks [][]byte // encoded blocks (empty ones) of the same chain, for the sub-checks that follow it block by block
	hdrs   [][]byte
	hashes []util.Uint256
	buildS float64
}

var (
	tSrcOnce sync.Once
	tSrc     *tSource
	tSrcErr  error
)

func trustedSource() (*tSource, error) {
	tSrcOnce.Do(func() {
		start := time.Now()
		b, err := ck.NewBuilder(tChain)
		if err != nil {
			tSrcErr = fmt.Errorf("builder: %v", err)
			return
		}
		defer b.Close()
		s := &tSource{hdrs: make([][]byte, tSrcLen+1), hashes: make([]util.Uint256, tSrcLen+1), blocks: make([][]byte, tSrcLen+1)}
		enc := func(h *block.Header) error {
			w := io.NewBufBinWriter()
			h.EncodeBinary(w.BinWriter)
			if w.Err != nil {
				return w.Err
			}
			s.hdrs[h.Index] = w.Bytes()
			s.hashes[h.Index] = h.Hash()
			return nil
		}
		g, err := b.N.BC.GetHeader(b.N.BC.GetHeaderHash(0))
		if err != nil {
			tSrcErr = err
			return
		}
		if tSrcErr = enc(g); tSrcErr != nil {
			return
		}
		for i := 1; i <= tSrcLen; i++ {
			spec := ck.BlockSpec{TimeD: 1000, Nonce: uint64(i)}
			// A few blocks beyond the first page of 2000 header hashes (blocks are collected page by page) ask the
			// Ledger contract about blocks far below: traceable and untraceable ones, good and bad transaction indices.
			if q, ok := tLedgerQuestions[i]; ok {
				spec.Txs = []ck.Action{{Kind: "ledger_q", From: ck.PValidators, A: q[0], B: q[1], N: 0, Nonce: uint32(i)}}
			}
			raw, blk, err := b.BuildBlock(spec)
			if err != nil {
				tSrcErr = fmt.Errorf("source block %d: %v", i, err)
				return
			}
			if len(blk.Transactions) != len(spec.Txs) {
				tSrcErr = fmt.Errorf("source block %d: the ledger question was not accepted: %v", i, b.Rejected)
				return
			}
			s.blocks[i] = raw
			if tSrcErr = enc(&blk.Header); tSrcErr != nil {
				return
			}
		}
		s.buildS = time.Since(start).Seconds()
		tSrc = s
	})
	return tSrc, tSrcErr
}

// hdr decodes a fresh header object (the node keeps what it is given).
func (s *tSource) hdr(i uint32) (*block.Header, error) {
	h := &block.Header{StateRootEnabled: tChain.SRIH}
	r := io.NewBinReaderFromBuf(s.hdrs[i])
	h.DecodeBinary(r)
	return h, r.Err
}

// TStep is one event in the life of the node.
type TStep struct {
	K    string `json:"k"`              // feed | restart | flush
	N    int    `json:"n,omitempty"`    // feed: headers in the batch (1..2000, the limit of one headers message)
	Back int    `json:"back,omitempty"` // feed: the batch starts this many headers below the next wanted one (headers sent again)
}

// TCase is one scenario.
type TCase struct {
	T       uint32  `json:"t"`       // index of the configured TrustedHeader
	Backend string  `json:"backend"` // mem | bolt
	Latest  bool    `json:"latest"`  // KeepOnlyLatestState next to RemoveUntraceableBlocks
	Steps   []TStep `json:"steps"`
	Next    int     `json:"next"` // size of the batch fed after the last step
}

// tTrustedPool holds the trusted indexes drawn: every height within 10 of a page boundary (1990..2010, 3990..4010) and
// of a boundary + 100 (2090..2110, 4090..4110), the boundary itself and its neighbours four times, and a few controls
// inside the first page.
var tTrustedPool = func() []uint32 {
	var out []uint32
	for _, c := range []uint32{2000, 2100, 4000, 4100} {
		for v := c - 10; v <= c+10; v++ {
			out = append(out, v)
			if m := v % tPage; m == tPage-1 || m <= 1 {
				out = append(out, v, v, v)
			}
		}
	}
	return append(out, tMinT, tMinT+1, 50, 100, 999, 1500, 1900, 1989)
}()

// tPick draws a number in [0, n) with equal chances (rapid favours the low end of a range, which would starve the
// classes listed last, and repeats small values often): two drawn 64-bit values are combined and spread by the
// splitmix function of the statesync generator.
func tPick(t *rapid.T, label string, n int) int {
	a, b := rapid.Uint64().Draw(t, label), rapid.Uint64().Draw(t, label+"'")
	p := prng(a ^ bits.RotateLeft64(b, 29))
	return p.intn(n)
}

func genTCase(t *rapid.T) TCase {
	c := TCase{
		Backend: rapid.SampledFrom([]string{"mem", "mem", "bolt"}).Draw(t, "backend"),
		Latest:  rapid.Bool().Draw(t, "latest"),
	}
	if k := tPick(t, "t_pick", len(tTrustedPool)+8); k < len(tTrustedPool) {
		c.T = tTrustedPool[k]
	} else {
		c.T = uint32(rapid.IntRange(tMinT, 4300).Draw(t, "t"))
	}
	cur := c.T - 1 // height of the last header the node has
	phases := rapid.IntRange(1, 3).Draw(t, "phases")
	for p := 0; p < phases; p++ {
		base := max(cur, c.T) // lowest height a restart with at least header T known can happen at
		end := base/tPage*tPage + tPage - 1
		var h uint32
		switch k := tPick(t, "h_class", 100); {
		case k < 8:
			h = cur // restart without new headers (before the first header: the node still waits for T)
		case k < 22:
			h = base
		case k < 32:
			h = base + 1
		case k < 50:
			h = base + uint32(rapid.IntRange(2, 120).Draw(t, "h_small"))
		case k < 58:
			h = end - 1
		case k < 66:
			h = end
		case k < 74:
			h = end + 1
		case k < 80:
			h = end + 2
		case k < 88:
			h = base + uint32(rapid.IntRange(0, int(end-base)).Draw(t, "h_same_page"))
		case k < 95:
			h = end + 1 + uint32(rapid.IntRange(0, tPage-1).Draw(t, "h_next_page"))
		default:
			h = end + 1 + tPage + uint32(rapid.IntRange(0, tPage-1).Draw(t, "h_later_page"))
		}
		h = min(h, tMaxH)
		small := 0
		for cur < h {
			rem := int(h - cur)
			n := rem
			if small < 4 {
				switch rapid.IntRange(0, 5).Draw(t, "n_class") {
				case 0:
					n = 1
				case 1:
					n = rapid.IntRange(2, 300).Draw(t, "n")
				case 2:
					n = tPage - 1
				}
			}
			n = min(n, rem, tPage)
			if n < tPage-1 {
				small++
			}
			back := 0
			if rapid.IntRange(0, 3).Draw(t, "has_back") == 0 {
				back = min(rapid.IntRange(1, 8).Draw(t, "back"), tPage-n)
			}
			c.Steps = append(c.Steps, TStep{K: "feed", N: n + back, Back: back})
			cur += uint32(n)
		}
		if rapid.IntRange(0, 3).Draw(t, "flush") == 0 {
			c.Steps = append(c.Steps, TStep{K: "flush"})
		}
		c.Steps = append(c.Steps, TStep{K: "restart"})
		if rapid.IntRange(0, 4).Draw(t, "twice") == 0 {
			c.Steps = append(c.Steps, TStep{K: "restart"})
		}
	}
	c.Next = rapid.IntRange(1, 60).Draw(t, "next")
	return c
}

func tModClass(v uint32) string {
	switch m := v % tPage; {
	case m == 0:
		return "0"
	case m == 1:
		return "1"
	case m <= 10:
		return "2-10"
	case m < 90:
		return "11-89"
	case m < 100:
		return "90-99"
	case m == 100:
		return "100"
	case m <= 110:
		return "101-110"
	case m < 1990:
		return "111-1989"
	case m < 1999:
		return "1990-1998"
	}
	return "1999"
}

func tDistClass(d uint32) string {
	switch {
	case d == 0:
		return "0"
	case d == 1:
		return "1"
	case d < 100:
		return "2-99"
	case d < tPage:
		return "100-1999"
	}
	return ">=2000"
}

func checkTCase(c TCase, o *vt.Obs) error {
	src, err := trustedSource()
	if err != nil {
		return fmt.Errorf("source chain: %v", err)
	}
	if c.T < tMinT || c.T > tMaxH {
		return fmt.Errorf("bad case: trusted index %d", c.T)
	}
	T := c.T
	cfg := tChain.Blockchain(ck.NodeCfg{RemoveUntraceable: true, KeepOnlyLatest: c.Latest})
	cfg.TrustedHeader = config.HashIndex{Hash: src.hashes[T], Index: T}
	n, err := newSyncNode(cfg, c.Backend)
	if err != nil {
		return fmt.Errorf("fresh node with TrustedHeader %d does not start: %v", T, err)
	}
	defer func() { n.close() }()
	o.Labelf("T page %d, T%%2000=%s", T/tPage, tModClass(T))
	o.Label("backend:" + c.Backend)

	fed := T - 1 // height of the last header fed
	verify := func(where string) error {
		bc := n.bc
		if hh := bc.HeaderHeight(); hh != fed {
			return fmt.Errorf("%s: HeaderHeight() is %d, the last header fed is %d (trusted header %d)", where, hh, fed, T)
		}
		if fed < T {
			return nil
		}
		for i := T; i <= fed; i++ {
			if h := bc.GetHeaderHash(i); h != src.hashes[i] {
				return fmt.Errorf("%s: GetHeaderHash(%d) is %s, the header fed and accepted at that height has hash %s (trusted header %d, header height %d)",
					where, i, h.StringLE(), src.hashes[i].StringLE(), T, fed)
			}
		}
		if h := bc.CurrentHeaderHash(); h != src.hashes[fed] {
			return fmt.Errorf("%s: CurrentHeaderHash() is %s, the last header fed (%d) has hash %s (trusted header %d)", where, h.StringLE(), fed, src.hashes[fed].StringLE(), T)
		}
		probe := map[uint32]bool{T: true, fed: true}
		for p := (T/tPage + 1) * tPage; p <= fed; p += tPage {
			probe[p-1], probe[p] = true, true
		}
		for i := range probe {
			hd, err := bc.GetHeader(src.hashes[i])
			if err != nil {
				return fmt.Errorf("%s: header %d (accepted earlier) cannot be read back by its hash: %v (trusted header %d, header height %d)", where, i, err, T, fed)
			}
			if hd.Index != i || hd.Hash() != src.hashes[i] {
				return fmt.Errorf("%s: GetHeader(hash of header %d) returns header %d with hash %s", where, i, hd.Index, hd.Hash().StringLE())
			}
		}
		return nil
	}
	feed := func(where string, nHdr, back int) error {
		start := int64(fed) + 1 - int64(back)
		if start < 1 {
			start = 1
		}
		end := min(uint32(start)+uint32(nHdr)-1, tSrcLen)
		if end < uint32(start) {
			return nil
		}
		hs := make([]*block.Header, 0, nHdr)
		for i := uint32(start); i <= end; i++ {
			h, err := src.hdr(i)
			if err != nil {
				return fmt.Errorf("source header %d: %v", i, err)
			}
			hs = append(hs, h)
		}
		if err := n.bc.AddHeaders(hs...); err != nil {
			return fmt.Errorf("%s: AddHeaders(%d..%d) of genuine headers fails at header height %d (trusted header %d): %v", where, start, end, n.bc.HeaderHeight(), T, err)
		}
		fed = max(fed, end)
		if hh := n.bc.HeaderHeight(); hh != fed {
			return fmt.Errorf("%s: after AddHeaders(%d..%d) HeaderHeight() is %d, expected %d (trusted header %d)", where, start, end, hh, fed, T)
		}
		return nil
	}

	if err := verify("fresh node"); err != nil {
		return err
	}
	restarts, nt := 0, false
	for i, st := range c.Steps {
		switch st.K {
		case "feed":
			if st.N < 1 || st.N > tPage || st.Back < 0 {
				return fmt.Errorf("bad case: step %d", i)
			}
			if err := feed(fmt.Sprintf("step %d", i), st.N, st.Back); err != nil {
				return err
			}
		case "flush":
			if err := n.bc.VerifPersist(); err != nil {
				return fmt.Errorf("step %d: persist: %v", i, err)
			}
		case "restart":
			restarts++
			where := fmt.Sprintf("graceful restart %d (step %d) with trusted header %d and header height %d", restarts, i, T, fed)
			if fed < T {
				o.Label("restart before the trusted header arrived")
			} else {
				rel := "later page"
				switch fed/tPage - T/tPage {
				case 0:
					rel = "same page"
					if T >= tPage-1 {
						nt = true
					}
				case 1:
					rel = "next page"
				}
				o.Labelf("restart T%%2000=%s H-T=%s H in %s", tModClass(T), tDistClass(fed-T), rel)
				if fed%tPage == tPage-1 {
					o.Label("restart with H the last header of a page")
				}
			}
			if err := n.restart(); err != nil {
				return fmt.Errorf("%s: the node does not start: %v", where, err)
			}
			if err := verify("after " + where); err != nil {
				return err
			}
			o.Units(1)
		default:
			return fmt.Errorf("bad case: step kind %q", st.K)
		}
	}
	if err := verify("after the last step"); err != nil {
		return err
	}
	if c.Next > 0 {
		if err := feed("final batch", c.Next, 0); err != nil {
			return err
		}
		if err := verify("after the final batch"); err != nil {
			return err
		}
	}
	if nt {
		o.NonTrivial()
	}
	return nil
}
