// Package c20 checks property C20: a node syncing from peers converges to the same chain and state.
//
// Two families of checks live here:
//
//	queue      the block queue (pkg/network/bqueue) under concurrent producers, a "consensus" goroutine adding blocks
//	           directly to the ledger and a driver that re-requests missing blocks exactly the way
//	           (*network.Server).requestBlocks does (height / LastQueued / capacity left);
//	statesync  a fresh node bootstrapping by state synchronisation from a generated source chain (statesync.go).
//
// The queue check is a STRESS check with respect to goroutine scheduling: the case fixes who offers what and in which
// program order, the Go scheduler decides the interleaving. Verdicts are event-counted (rounds of re-offers), never
// wall-clock based; a wall-clock guard only labels a case "infra-timeout".
package c20

import (
	"errors"
	"fmt"
	"runtime"
	"sort"
	"sync"
	"sync/atomic"
	"time"

	"github.com/nspcc-dev/neo-go/pkg/network/bqueue"
	"go.uber.org/zap"
	"pgregory.net/rapid"
	"verifharness/vt"
)

// QCase is one queue scenario. Offsets are relative to H0: offset k means block index H0+k.
type QCase struct {
	Cache     int     `json:"cache"`    // queue cache size (3..16)
	Blocking  bool    `json:"blocking"` // bqueue.Blocking / bqueue.NonBlocking
	H0        uint32  `json:"h0"`       // ledger height at start
	Len       int     `json:"len"`      // blocks H0+1..H0+Len exist in the network
	Base      int     `json:"base"`     // offsets 1..Base are always available to the driver (peers have them)
	Producers [][]int `json:"producers"`
	Direct    []int   `json:"direct"` // success counts at which "consensus" adds the next block directly
	Procs     int     `json:"procs"`  // GOMAXPROCS
	Yield     int     `json:"yield"`  // 0: ledger returns at once; 1: Gosched inside AddItem; 2: Gosched in AddItem and Height
}

// qb is the queued element ("block"): only the index matters to the queue. Every offer is a distinct object, as blocks
// decoded from different peers are.
type qb struct {
	idx uint32
	src int
}

func (b *qb) GetIndex() uint32 { return b.idx }

type addCall struct {
	idx    uint32
	height uint32 // ledger height when the call arrived
	ok     bool
	direct bool
}

// ledger is the fake chain behind the queue: like the real one it accepts only height+1.
type ledger struct {
	mu     sync.Mutex
	cond   *sync.Cond
	height uint32
	top    uint32 // highest existing block (consensus never goes beyond)
	calls  []addCall
	succ   int
	stop   bool
	yield  int
	// consWait is the success count the consensus goroutine is parked on (-1: it is acting or gone).
	consWait int
	ncalls   atomic.Int64               // every AddItem / Height call (quiescence detection)
	gate     atomic.Pointer[heightGate] // harness-owned interleaving: see Height
	// rejectOnce: AddItem refuses the next-in-order element with this index once (an invalid block from a peer).
	rejectOnce uint32
}

var errNotNext = errors.New("block is not the next one")

func (l *ledger) AddItem(b *qb) error {
	l.ncalls.Add(1)
	if l.yield >= 1 {
		runtime.Gosched()
	}
	l.mu.Lock()
	defer l.mu.Unlock()
	c := addCall{idx: b.idx, height: l.height}
	if b.idx == l.rejectOnce && b.idx == l.height+1 {
		l.rejectOnce = 0
		l.calls = append(l.calls, c)
		return fmt.Errorf("block %d does not verify", b.idx)
	}
	if b.idx == l.height+1 {
		l.height++
		l.succ++
		c.ok = true
		l.calls = append(l.calls, c)
		l.cond.Broadcast()
		return nil
	}
	l.calls = append(l.calls, c)
	return fmt.Errorf("%w: height %d, got %d", errNotNext, l.height, b.idx)
}

func (l *ledger) AddItems(bs ...*qb) error {
	for _, b := range bs {
		if err := l.AddItem(b); err != nil {
			return err
		}
	}
	return nil
}

func (l *ledger) Height() uint32 {
	n := l.ncalls.Add(1)
	if l.yield >= 2 {
		runtime.Gosched()
	}
	l.mu.Lock()
	h := l.height
	l.mu.Unlock()
	// Harness-owned interleaving (reproductions only): the gated call has read the height; it is held back until
	// released and then returns that (by now stale) value, exactly like a goroutine descheduled after the read.
	if g := l.gate.Load(); g != nil && n == g.call {
		close(g.reached)
		<-g.release
	}
	return h
}

// heightGate holds back the Height() call with the given ordinal (counted over AddItem and Height calls).
type heightGate struct {
	call    int64
	reached chan struct{}
	release chan struct{}
}

func ledInit(l *ledger) { l.cond = sync.NewCond(&l.mu) }

// peek reads the height without counting as a call of the code under test.
func (l *ledger) peek() uint32 {
	l.mu.Lock()
	defer l.mu.Unlock()
	return l.height
}

// direct adds the next block bypassing the queue (what consensus does). Returns the index added (0: nothing left).
func (l *ledger) direct() uint32 {
	l.mu.Lock()
	defer l.mu.Unlock()
	if l.height >= l.top {
		return 0
	}
	l.height++
	l.succ++
	l.calls = append(l.calls, addCall{idx: l.height, height: l.height - 1, ok: true, direct: true})
	l.cond.Broadcast()
	return l.height
}

func genQCase(t *rapid.T) QCase {
	c := QCase{
		Cache:    rapid.IntRange(3, 16).Draw(t, "cache"),
		Blocking: rapid.IntRange(0, 19).Draw(t, "mode") == 0,
		Len:      rapid.IntRange(1, 200).Draw(t, "len"),
		Procs:    rapid.SampledFrom([]int{1, 2, 2, 4, 8}).Draw(t, "procs"),
		Yield:    rapid.IntRange(0, 2).Draw(t, "yield"),
	}
	switch rapid.IntRange(0, 3).Draw(t, "h0k") {
	case 0:
		c.H0 = 0
	case 1:
		c.H0 = uint32(c.Cache*rapid.IntRange(1, 3).Draw(t, "h0m") + rapid.IntRange(-1, 1).Draw(t, "h0d"))
	default:
		c.H0 = uint32(rapid.IntRange(0, 60).Draw(t, "h0"))
	}
	switch rapid.IntRange(0, 5).Draw(t, "basek") {
	case 0:
		c.Base = rapid.IntRange(0, c.Len).Draw(t, "base")
	default:
		c.Base = c.Len
	}
	// In Blocking mode a far-ahead Put sleeps on a 1 s ticker: keep such offers rare there.
	farOK := !c.Blocking || rapid.IntRange(0, 5).Draw(t, "blockfar") == 0
	np := rapid.IntRange(1, 4).Draw(t, "np")
	for p := 0; p < np; p++ {
		var offers []int
		pos := rapid.IntRange(1, min(c.Len, c.Cache)).Draw(t, "start")
		nseg := rapid.IntRange(1, 8).Draw(t, "nseg")
		for s := 0; s < nseg && len(offers) < 120; s++ {
			n := rapid.IntRange(1, 2*c.Cache).Draw(t, "seglen")
			switch rapid.IntRange(0, 9).Draw(t, "seg") {
			case 0, 1, 2, 3: // ascending run from the current position
				for i := 0; i < n && pos <= c.Len; i++ {
					offers = append(offers, pos)
					pos++
				}
			case 4, 5: // reversed run
				hi := min(pos+n-1, c.Len)
				for i := hi; i >= pos; i-- {
					offers = append(offers, i)
				}
				pos = hi + 1
			case 6, 7: // duplicates of what was just offered (or of the first blocks)
				if len(offers) == 0 {
					offers = append(offers, 1, 1)
					break
				}
				k := min(n, len(offers))
				offers = append(offers, offers[len(offers)-k:]...)
			case 8: // far ahead of any window
				if farOK {
					far := rapid.IntRange(min(c.Len, pos+c.Cache), min(c.Len+2*c.Cache, pos+4*c.Cache+c.Cache)).Draw(t, "far")
					offers = append(offers, far)
				}
			default: // step back (old blocks) or jump forward a little
				pos = max(1, pos+rapid.IntRange(-c.Cache, c.Cache).Draw(t, "jump"))
			}
			if pos > c.Len {
				pos = max(1, c.Len-rapid.IntRange(0, c.Cache).Draw(t, "wrapback"))
			}
		}
		if len(offers) == 0 {
			offers = []int{1}
		}
		c.Producers = append(c.Producers, offers)
	}
	nd := rapid.SampledFrom([]int{0, 0, 1, 2, 3, 5, 8}).Draw(t, "nd")
	for i := 0; i < nd; i++ {
		c.Direct = append(c.Direct, rapid.IntRange(0, c.Len).Draw(t, "moment"))
	}
	sort.Ints(c.Direct)
	return c
}

const (
	qStallRounds = 50
	qWallGuard   = 20 * time.Second
)

type qrun struct {
	c         QCase
	led       *ledger
	bq        *bqueue.Queue[*qb]
	offMu     sync.Mutex
	offered   map[int]bool // offsets whose Put has been started by a producer
	closed    bool         // the run is over: later (discarded) offers do not count
	cur       []atomic.Int64
	done      []atomic.Bool
	panics    chan string
	relayed   atomic.Int64
	leakKnown bool
	leakSeen  atomic.Bool
	puts      sync.Map    // index -> struct{}: every index somebody has Put
	dup       atomic.Bool // some index was Put twice
	oow       atomic.Bool // some Put named an index beyond height+cache
	lenMu     sync.Mutex
	lenMin    int
	lenMax    int
}

func (r *qrun) guard(name string, wg *sync.WaitGroup, f func()) {
	wg.Add(1)
	go func() {
		defer wg.Done()
		defer func() {
			if p := recover(); p != nil {
				buf := make([]byte, 4096)
				buf = buf[:runtime.Stack(buf, false)]
				select {
				case r.panics <- fmt.Sprintf("PANIC in %s goroutine: %v\n%s", name, p, buf):
				default:
				}
			}
		}()
		f()
	}()
}

func checkQCase(c QCase, o *vt.Obs) error {
	if c.Cache < 1 || c.Len < 1 || c.Procs < 1 {
		return nil
	}
	prev := runtime.GOMAXPROCS(c.Procs)
	defer runtime.GOMAXPROCS(prev)

	led := &ledger{height: c.H0, top: c.H0 + uint32(c.Len), yield: c.Yield, consWait: -1}
	led.cond = sync.NewCond(&led.mu)
	r := &qrun{c: c, led: led, panics: make(chan string, 8), offered: map[int]bool{}, leakKnown: vt.Known("bqueue-len-leak"), lenMin: 1 << 30, lenMax: -1 << 30}
	r.cur = make([]atomic.Int64, len(c.Producers))
	r.done = make([]atomic.Bool, len(c.Producers))
	mode := bqueue.NonBlocking
	if c.Blocking {
		mode = bqueue.Blocking
	}
	r.bq = bqueue.New[*qb](led, zap.NewNop(), func(b *qb) { r.relayed.Add(1) }, c.Cache, func(l int) {
		r.lenMu.Lock()
		r.lenMin, r.lenMax = min(r.lenMin, l), max(r.lenMax, l)
		r.lenMu.Unlock()
	}, mode)
	if r.bq.Cap() != c.Cache {
		return fmt.Errorf("Cap() = %d for a queue created with cache size %d", r.bq.Cap(), c.Cache)
	}

	var runWG, wg sync.WaitGroup
	r.guard("queue Run", &runWG, r.bq.Run)
	for p := range c.Producers {
		p := p
		r.guard(fmt.Sprintf("producer %d", p), &wg, func() {
			for _, off := range c.Producers[p] {
				r.cur[p].Store(int64(off))
				if !r.offer(off) {
					return
				}
				r.put(&qb{idx: c.H0 + uint32(off), src: p})
				r.cur[p].Store(0)
			}
			r.done[p].Store(true)
		})
	}
	var consDone atomic.Bool
	var directN atomic.Int64
	r.guard("consensus", &wg, func() {
		defer consDone.Store(true)
		for _, m := range c.Direct {
			led.mu.Lock()
			led.consWait = m
			for led.succ < m && !led.stop {
				led.cond.Wait()
			}
			led.consWait = -1
			stop := led.stop
			led.mu.Unlock()
			if stop {
				return
			}
			if led.direct() != 0 {
				directN.Add(1)
			}
		}
	})

	verdict, infra := r.drive(&consDone)
	r.offMu.Lock()
	r.closed = true
	r.offMu.Unlock()

	// Release everything that may still wait: consensus goroutine, producers blocked in a Blocking Put.
	led.mu.Lock()
	led.stop = true
	led.cond.Broadcast()
	led.mu.Unlock()

	var lq uint32
	var capLeft int
	if verdict == nil && !infra {
		r.quiesce()
		lq, capLeft = r.bq.LastQueued()
	}
	r.bq.Discard()
	wg.Wait()
	runWG.Wait()
	select {
	case p := <-r.panics:
		return errors.New(p)
	default:
	}
	if infra {
		o.Label("infra-timeout")
		return nil
	}
	if verdict != nil {
		return verdict
	}

	// ---- oracle ----
	led.mu.Lock()
	calls := append([]addCall{}, led.calls...)
	final := led.height
	led.mu.Unlock()

	want := c.H0
	queueOK, staleFail, gapFail := 0, 0, 0
	for i, cl := range calls {
		if cl.ok {
			want++
			if cl.idx != want {
				return fmt.Errorf("call %d: block %d applied to the ledger, expected the next one to be %d (calls: %s)", i, cl.idx, want, fmtCalls(calls, i))
			}
			if !cl.direct {
				queueOK++
			}
			continue
		}
		if cl.idx > cl.height+1 {
			// Run may only hand over the element of index height+1. Anything above is an element of the next lap
			// taken out of its slot after the chain moved: the ledger rejects it, Run drops it, lastQ keeps covering
			// it and requestBlocks never asks for it again.
			gapFail++
			return fmt.Errorf("call %d: the queue offered block %d to a ledger at height %d (calls: %s)", i, cl.idx, cl.height, fmtCalls(calls, i))
		} else {
			staleFail++
		}
	}
	if want != final {
		return fmt.Errorf("internal: ledger height %d but %d successful adds from %d", final, want-c.H0, c.H0)
	}
	// Highest contiguous index offered by anyone (driver availability, producers' started Puts, consensus adds).
	avail := r.available()
	for _, cl := range calls {
		if cl.direct {
			avail[int(cl.idx-c.H0)] = true
		}
	}
	contig := 0
	for avail[contig+1] {
		contig++
	}
	if int(final-c.H0) != contig {
		return fmt.Errorf("final height %d (offset %d), highest contiguous offered block is offset %d", final, final-c.H0, contig)
	}
	if int(r.relayed.Load()) != queueOK {
		return fmt.Errorf("relay callback invoked %d times for %d blocks added through the queue", r.relayed.Load(), queueOK)
	}
	// LastQueued: "index of the last queued element": lastQ only moves over elements that are in the queue and
	// continue lastQ+1, so it can never exceed the highest contiguous offered index (and everything contiguous
	// has been applied by now). It is NOT a lower bound of anything once the chain moved by other means.
	if lq > c.H0+uint32(contig) {
		return fmt.Errorf("LastQueued() = %d at quiescence, above the highest contiguous offered index %d (height %d)", lq, c.H0+uint32(contig), final)
	}
	if r.leakKnown && (capLeft < 0 || r.leakSeen.Load()) {
		o.Excluded()
		o.Label("known:bqueue-len-leak")
		capLeft = 0
	}
	if !r.leakKnown && r.lenMax >= r.lenMin && (r.lenMin < 0 || r.lenMax > c.Cache) {
		return fmt.Errorf("the queue reported lengths in [%d, %d] through its length metric callback, cache size is %d", r.lenMin, r.lenMax, c.Cache)
	}
	if capLeft < 0 || capLeft > c.Cache {
		return fmt.Errorf("LastQueued() reports capacity left %d at quiescence, outside [0, %d] (height %d, len metric range [%d, %d])", capLeft, c.Cache, final, r.lenMin, r.lenMax)
	}

	// ---- classification ----
	dup, oow := r.dup.Load(), r.oow.Load()
	if c.Blocking {
		o.Label("mode:blocking")
	} else {
		o.Label("mode:nonblocking")
	}
	if dup {
		o.Label("duplicate-offer")
	}
	if oow {
		o.Label("beyond-window-offer")
	}
	if directN.Load() > 0 {
		o.Label("direct-add")
	}
	if staleFail > 0 {
		o.Label("stale-additem")
	}
	if c.H0 > 0 {
		o.Label("h0>0")
	}
	if contig < c.Len {
		o.Label("gap-in-offers")
	}
	if lq < final {
		o.Label("lastq-below-height")
	}
	if capLeft < c.Cache {
		o.Label("residual-len>0")
	}
	o.Labelf("procs:%d", c.Procs)
	o.Units(len(calls))
	if dup && oow && directN.Load() > 0 {
		o.NonTrivial()
	}
	return nil
}

// offer registers a producer's offer; false once the run is closed.
func (r *qrun) offer(off int) bool {
	r.offMu.Lock()
	defer r.offMu.Unlock()
	if r.closed {
		return false
	}
	r.offered[off] = true
	return true
}

// put offers one element and classifies the offer (duplicate / beyond the window).
func (r *qrun) put(b *qb) {
	if _, loaded := r.puts.LoadOrStore(b.idx, struct{}{}); loaded {
		r.dup.Store(true)
	}
	before := r.led.peek()
	_ = r.bq.Put(b)
	// NonBlocking: beyond the window even at the (later) height seen after the call => it was beyond the window
	// inside Put. Blocking: Put returns only once the index fits, so judge by the height before the call.
	if r.c.Blocking {
		if b.idx > before+uint32(r.c.Cache) {
			r.oow.Store(true)
		}
	} else if b.idx > r.led.peek()+uint32(r.c.Cache) {
		r.oow.Store(true)
	}
}

// available returns the offsets the network can serve to the driver right now: 1..Base plus everything some producer
// has started to offer.
func (r *qrun) available() map[int]bool {
	m := map[int]bool{}
	for off := 1; off <= r.c.Base; off++ {
		m[off] = true
	}
	r.offMu.Lock()
	for off := range r.offered {
		m[off] = true
	}
	r.offMu.Unlock()
	return m
}

// drive plays the server: rounds of re-requests computed the way requestBlocks does. It returns a violation, or
// infra=true when the wall-clock guard fired.
func (r *qrun) drive(consDone *atomic.Bool) (verdict error, infra bool) {
	c := r.c
	start := time.Now()
	stall := 0
	lastH := r.led.Height()
	tag := 1000
	for {
		select {
		case p := <-r.panics:
			return errors.New(p), false
		default:
		}
		if time.Since(start) > qWallGuard {
			return nil, true
		}
		h := r.led.Height()
		lq, capLeft := r.bq.LastQueued()
		if r.leakKnown {
			// Known finding bqueue-len-leak: the capacity reading is unreliable; request as if the queue were empty.
			if capLeft <= 0 {
				r.leakSeen.Store(true)
			}
			capLeft = c.Cache
		}
		if capLeft < 0 {
			return fmt.Errorf("LastQueued() reports negative capacity left %d (cache %d, height %d, lastQ %d)", capLeft, c.Cache, h, lq), false
		}
		avail := r.available()
		// --- one request, as (*Server).requestBlocks builds it ---
		from := h + 1
		count := c.Cache
		if capLeft != 0 {
			if lq >= from {
				if capLeft < count {
					count = capLeft
				}
				from = lq + 1
			}
			for i := from; i < from+uint32(count) && i <= h+uint32(c.Cache); i++ {
				off := int(i - c.H0)
				if off < 1 || !avail[off] {
					continue
				}
				tag++
				r.put(&qb{idx: i, src: tag})
			}
		}
		// --- progress / termination ---
		nh := r.led.Height()
		if nh != lastH {
			lastH = nh
			stall = 0
			continue
		}
		nextOff := int(nh-c.H0) + 1
		if !avail[nextOff] {
			// The next block is not available anywhere (yet). Done when nobody can make it available any more.
			if r.settled(nh, consDone) {
				// re-check availability after everybody is known to be settled (a producer may have offered it meanwhile)
				if a := r.available(); !a[nextOff] {
					if r.led.Height() == nh {
						return nil, false
					}
				}
			}
			stall = 0
			backoff(3)
			continue
		}
		stall++
		if stall >= qStallRounds {
			lq, capLeft = r.bq.LastQueued()
			return fmt.Errorf("stall: no progress after %d complete re-request rounds; height %d (offset %d), next block available, LastQueued() = (%d, capacity left %d), cache %d, blocking=%v",
				stall, nh, nh-c.H0, lq, capLeft, c.Cache, c.Blocking), false
		}
		backoff(stall)
	}
}

// settled reports whether no goroutine can still extend the offered set or the chain: every producer has finished
// or is inside a Put of an index that cannot enter the window at the final height, and the consensus goroutine has
// finished or waits for a success count that is not reached.
func (r *qrun) settled(h uint32, consDone *atomic.Bool) bool {
	c := r.c
	for p := range c.Producers {
		if r.done[p].Load() {
			continue
		}
		cur := r.cur[p].Load()
		if c.Blocking && cur != 0 && c.H0+uint32(cur) > h+uint32(c.Cache) {
			continue // blocked for good
		}
		return false
	}
	if !consDone.Load() {
		// Parked on a success count that is not reached: it cannot act before the chain moves.
		r.led.mu.Lock()
		parked := r.led.consWait > r.led.succ
		r.led.mu.Unlock()
		return parked
	}
	return true
}

func backoff(k int) {
	runtime.Gosched()
	d := 20 * time.Microsecond << uint(min(k, 11))
	if d > 40*time.Millisecond {
		d = 40 * time.Millisecond
	}
	time.Sleep(d)
}

// quiesce waits until the queue's Run goroutine has gone idle (no ledger calls for several consecutive samples).
// Only the capacity reading depends on it, and a transient reading still lies within [0, cap] for a correct queue.
func (r *qrun) quiesce() {
	same := 0
	last := r.led.ncalls.Load()
	for i := 0; i < 200 && same < 4; i++ {
		runtime.Gosched()
		time.Sleep(100 * time.Microsecond)
		n := r.led.ncalls.Load()
		if n == last {
			same++
		} else {
			same = 0
			last = n
		}
	}
}

func fmtCalls(calls []addCall, around int) string {
	lo, hi := max(0, around-6), min(len(calls), around+3)
	s := ""
	for i := lo; i < hi; i++ {
		c := calls[i]
		k := "queue"
		if c.direct {
			k = "direct"
		}
		s += fmt.Sprintf("[%d %s idx=%d h=%d ok=%v] ", i, k, c.idx, c.height, c.ok)
	}
	return s
}
