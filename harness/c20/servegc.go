package c20

import (
	"bytes"
	"fmt"

	"github.com/nspcc-dev/neo-go/pkg/core/storage"
	"pgregory.net/rapid"
	ck "verifharness/chainkit"
	"verifharness/vt"
)

// servegc: the SERVING side of state synchronisation. A node that removes untraceable blocks and collects old states
// while it offers its state to syncing peers (P2PStateExchangeExtensions) has to keep the states of the two latest
// synchronisation points: a peer that started to fetch the state of point P while P was the latest one goes on
// fetching it after the chain has passed the next point ("Old blocks should be removed up to P2-MaxTraceableBlocks
// which is required for proper P2P state synchronization", tryRunGC). The node is fed the blocks of an archival node
// with flush + GC ticks; after every tick the contract storage at both points, read through the state module, has to
// equal the archival node's.
type ServeGCCase struct {
	Interval int    `json:"interval"`
	MTB      uint32 `json:"mtb"`
	GCPeriod uint32 `json:"gc_period"`
	TickEach int    `json:"tick_each"`
	Blocks   int    `json:"blocks"`
}

func genServeGCCase(t *rapid.T) ServeGCCase {
	c := ServeGCCase{
		Interval: rapid.SampledFrom([]int{4, 5, 10}).Draw(t, "interval"),
		GCPeriod: uint32(rapid.SampledFrom([]int{1, 2, 5}).Draw(t, "gcp")),
		TickEach: rapid.SampledFrom([]int{1, 1, 3, 7}).Draw(t, "tick"),
	}
	// MaxTraceableBlocks below, at and above one and two intervals
	c.MTB = uint32(rapid.IntRange(c.Interval-2, 2*c.Interval+3).Draw(t, "mtb"))
	c.Blocks = rapid.IntRange(3*c.Interval, 7*c.Interval).Draw(t, "blocks")
	return c
}

func checkServeGCCase(c ServeGCCase, o *vt.Obs) error {
	if c.Interval < 2 || c.Interval > 50 || c.MTB < 2 || c.MTB > 200 || c.GCPeriod < 1 || c.TickEach < 1 || c.Blocks < 1 || c.Blocks > 400 {
		return nil
	}
	chain := ck.ChainCfg{Profile: "V1C1", SRIH: true, StateExchange: true, StateSyncInterval: c.Interval, MTB: c.MTB}
	b, err := ck.NewBuilder(chain)
	if err != nil {
		return fmt.Errorf("builder: %v", err)
	}
	defer b.Close()
	n, err := ck.NewNode(chain, ck.NodeCfg{Backend: "mem", RemoveUntraceable: true, GCPeriod: c.GCPeriod}, nil)
	if err != nil {
		return fmt.Errorf("node: %v", err)
	}
	defer n.Close()
	scan := func(nd *ck.Node, h uint32) ([]storage.KeyValue, error) {
		sr, err := nd.BC.GetStateModule().GetStateRoot(h)
		if err != nil {
			return nil, fmt.Errorf("state root of %d: %v", h, err)
		}
		var kvs []storage.KeyValue
		err = nd.BC.GetStateModule().SeekStates(sr.Root, nil, func(k, v []byte) bool {
			kvs = append(kvs, storage.KeyValue{Key: bytes.Clone(k), Value: bytes.Clone(v)})
			return true
		})
		return kvs, err
	}
	checked := 0
	for i := 1; i <= c.Blocks; i++ {
		raw, _, err := b.BuildBlock(ck.BlockSpec{TimeD: 1000, Nonce: uint64(i)})
		if err != nil {
			return fmt.Errorf("source block %d: %v", i, err)
		}
		blk, err := ck.DecodeBlock(raw, chain.SRIH)
		if err != nil {
			return err
		}
		if err := n.BC.AddBlock(blk); err != nil {
			return fmt.Errorf("block %d refused: %v", i, err)
		}
		if i%c.TickEach != 0 {
			continue
		}
		if err := n.BC.VerifPersistAndGC(); err != nil {
			return fmt.Errorf("flush + GC at %d: %v", i, err)
		}
		p1 := uint32(i/c.Interval) * uint32(c.Interval)
		for _, p := range []uint32{p1, p1 - uint32(c.Interval)} {
			if p1 < uint32(c.Interval) || p == 0 || p > uint32(i) {
				continue
			}
			want, err := scan(b.N, p)
			if err != nil || len(want) == 0 {
				return fmt.Errorf("harness: the archival node cannot read its state at %d: %d items, %v", p, len(want), err)
			}
			got, err := scan(n, p)
			what := fmt.Sprintf("height %d, flush + GC tick (period %d), StateSyncInterval %d, MaxTraceableBlocks %d: the state of synchronisation point %d (latest point %d)", i, c.GCPeriod, c.Interval, c.MTB, p, p1)
			if err != nil {
				return fmt.Errorf("%s cannot be read any more: %v", what, err)
			}
			if len(got) != len(want) {
				return fmt.Errorf("%s has %d items on the collecting node, %d on the archival one", what, len(got), len(want))
			}
			for j := range want {
				if !bytes.Equal(got[j].Key, want[j].Key) || !bytes.Equal(got[j].Value, want[j].Value) {
					return fmt.Errorf("%s differs at item %d: %x=%x, the archival node has %x=%x", what, j, got[j].Key, got[j].Value, want[j].Key, want[j].Value)
				}
			}
			checked++
		}
	}
	o.Units(checked)
	switch {
	case c.MTB < uint32(c.Interval):
		o.Label("servegc-mtb<interval")
	case c.MTB < 2*uint32(c.Interval):
		o.Label("servegc-mtb<2*interval")
	default:
		o.Label("servegc-mtb>=2*interval")
	}
	if checked > 0 {
		o.NonTrivial()
	}
	return nil
}

func init() {
	vt.Register("servegc", 0.5, genServeGCCase, checkServeGCCase)
}
