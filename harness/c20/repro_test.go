package c20

import (
	"bytes"
	"os"
	"sort"
	"strconv"
	"testing"
	"time"

	"github.com/nspcc-dev/neo-go/pkg/core/block"
	ck "verifharness/chainkit"
	"verifharness/vt"

	"github.com/nspcc-dev/neo-go/pkg/network/bqueue"
	"go.uber.org/zap"
)

// TestReproQueueLenLeak is a deterministic, single-producer reproduction of the bqueue length leak
// (run explicitly: -test.run TestReproQueueLenLeak). Steps per lap: a block is queued, consensus adds it (and its
// predecessor) directly, the chain moves on through the queue, then the block one cache size later is queued into the
// same slot. The stale element is never removed by Run's "chain moved forward" cleanup (it compares the element at
// the slot of i+1 with i), and Put counts the overwrite as a new element, so len grows by one per lap.
func TestReproQueueLenLeak(t *testing.T) {
	reproGate(t)
	const cache = 4
	led := &ledger{consWait: -1, top: 1 << 30}
	led.cond = nil
	ledInit(led)
	bq := bqueue.New[*qb](led, zap.NewNop(), nil, cache, nil, bqueue.NonBlocking)
	go bq.Run()
	defer bq.Discard()
	waitH := func(h uint32) {
		for i := 0; i < 2000 && led.peek() != h; i++ {
			time.Sleep(time.Millisecond)
		}
		if led.peek() != h {
			t.Fatalf("height %d, want %d", led.peek(), h)
		}
		time.Sleep(5 * time.Millisecond) // let Run finish its bookkeeping
	}
	h := uint32(0)
	for lap := 1; lap <= 2*cache; lap++ {
		_ = bq.Put(&qb{idx: h + 2}) // not the next one: stays queued
		led.direct()                // consensus adds h+1
		led.direct()                // ... and h+2
		_ = bq.Put(&qb{idx: h + 3}) // wakes Run: h+3 goes through the queue
		waitH(h + 3)
		_ = bq.Put(&qb{idx: h + 2 + cache}) // same slot as the stale h+2
		for i := h + 4; i < h+2+cache; i++ {
			_ = bq.Put(&qb{idx: i})
		}
		waitH(h + 2 + cache)
		h += 2 + cache
		lq, capLeft := bq.LastQueued()
		t.Logf("lap %d: height %d, queue is empty, LastQueued() = (%d, capacity left %d of %d)", lap, h, lq, capLeft, cache)
		if capLeft != cache {
			if capLeft <= 0 {
				t.Fatalf("capacity left is %d with an empty queue: (*Server).requestBlocks stops requesting blocks at 0 and sends Count=%d below", capLeft, capLeft)
			}
		}
	}
}

// TestReproStateSyncReinitSharedSiblings: a node that is restarted (here: a fresh statesync.Module over the same
// chain, exactly what a restart gives) in the middle of the MPT stage panics in Module.Init ->
// defineSyncStage ("failed to get MPT node from the pool") as soon as the already stored part of the trie contains
// a node that is reachable twice below an already visited parent, e.g. two sibling leaves holding the same value.
func TestReproStateSyncReinitSharedSiblings(t *testing.T) {
	reproGate(t)
	c := SCase{
		Chain:  ck.ChainCfg{Profile: "V1C1", SRIH: true, StateExchange: true, StateSyncInterval: 4, MTB: 4},
		Node:   ck.NodeCfg{Backend: "mem", RemoveUntraceable: true, KeepOnlyLatest: true, GCPeriod: 1},
		InitAt: 9,
	}
	// block 3: contract 0 stores the same value under keys 00 00 and 00 01 (siblings under one branch node)
	c.Blocks = append(c.Blocks, ck.BlockSpec{TimeD: 1000, Txs: []ck.Action{{Kind: "multi_put", From: 0, A: 0, N: int64(reproN), K: vt.Bytes{0}, V: vt.Bytes("same"), Nonce: 77}}})
	for i := 0; i < 7; i++ {
		c.Blocks = append(c.Blocks, ck.BlockSpec{TimeD: 1000, Nonce: uint64(i)})
	}
	b, err := ck.NewBuilder(c.Chain)
	if err != nil {
		t.Fatal(err)
	}
	defer b.Close()
	src := &source{b: b, srih: true, total: 10, P: 8}
	boot, err := b.Bootstrap()
	if err != nil {
		t.Fatal(err)
	}
	src.raws = append(src.raws, boot...)
	for _, s := range c.Blocks {
		raw, _, err := b.BuildBlock(s)
		if err != nil {
			t.Fatal(err)
		}
		src.raws = append(src.raws, raw)
	}
	if len(b.Rejected) != 0 {
		t.Fatalf("rejected: %v", b.Rejected)
	}
	if err := src.prepare(); err != nil {
		t.Fatal(err)
	}
	n, err := newSyncNode(c.Chain.Blockchain(c.Node), "mem")
	if err != nil {
		t.Fatal(err)
	}
	defer n.close()
	mod := n.bc.GetStateSyncModule()
	if err := mod.Init(9); err != nil {
		t.Fatal(err)
	}
	var hs []*block.Header
	for i := uint32(1); i <= 9; i++ {
		h := src.blk(i).Header
		hs = append(hs, &h)
	}
	if err := mod.AddHeaders(hs...); err != nil {
		t.Fatal(err)
	}
	for i := 0; mod.NeedStorageData(); i++ {
		unk := mod.GetUnknownMPTNodesBatch(1 << 30)
		sort.Slice(unk, func(i, j int) bool { return bytes.Compare(unk[i][:], unk[j][:]) < 0 })
		if err := mod.AddMPTNodes([][]byte{src.nodesP[unk[0]]}); err != nil {
			t.Fatal(err)
		}
		func() {
			defer func() {
				if r := recover(); r != nil {
					t.Fatalf("after %d of %d nodes were restored (last: %s, visited %d times in the trie): a restarted module panics in Init: %v",
						i+1, len(src.nodesP), unk[0].StringBE(), src.visits[unk[0]], r)
				}
			}()
			m2 := n.bc.GetStateSyncModule()
			if err := m2.Init(9); err != nil {
				t.Fatalf("re-Init: %v", err)
			}
		}()
	}
	t.Log("MPT stage completed without a panic")
}

// The reproductions below are run explicitly: C20_REPRO=1 <binary> -test.run TestRepro -test.v
func reproGate(t *testing.T) {
	if os.Getenv("C20_REPRO") == "" {
		t.Skip("set C20_REPRO=1 to run the standalone reproductions")
	}
}

var reproN = func() int {
	if os.Getenv("C20_REPRO_N") != "" {
		n, _ := strconv.Atoi(os.Getenv("C20_REPRO_N"))
		return n
	}
	return 2
}()

// reproSync syncs a fresh memory-backed node from a tiny source chain (V1C1, interval 4, MTB 4, 10 blocks, P = 8)
// with plain feeding and returns the driver right after the state jump.
func reproSync(t *testing.T) (*driver, int, int) {
	c := SCase{
		Chain:  ck.ChainCfg{Profile: "V1C1", SRIH: true, StateExchange: true, StateSyncInterval: 4, MTB: 4},
		Node:   ck.NodeCfg{Backend: "mem", RemoveUntraceable: true, KeepOnlyLatest: true, GCPeriod: 1},
		InitAt: 9,
	}
	for i := 0; i < 8; i++ {
		c.Blocks = append(c.Blocks, ck.BlockSpec{TimeD: 1000, Nonce: uint64(i)})
	}
	b, err := ck.NewBuilder(c.Chain)
	if err != nil {
		t.Fatal(err)
	}
	t.Cleanup(b.Close)
	src := &source{b: b, srih: true, total: 10, P: 8}
	boot, err := b.Bootstrap()
	if err != nil {
		t.Fatal(err)
	}
	src.raws = append(src.raws, boot...)
	for _, s := range c.Blocks {
		raw, _, err := b.BuildBlock(s)
		if err != nil {
			t.Fatal(err)
		}
		src.raws = append(src.raws, raw)
		if len(src.raws) == 8 {
			src.dumpP = ck.FullDump(b.N.BC, nil)
		}
	}
	if err := src.prepare(); err != nil {
		t.Fatal(err)
	}
	n, err := newSyncNode(c.Chain.Blockchain(c.Node), "mem")
	if err != nil {
		t.Fatal(err)
	}
	d := &driver{c: c, o: &vt.Obs{}, src: src, n: n, peerH: 9, capH: 10, plain: true}
	d.stats.restartStage = map[string]int{}
	t.Cleanup(func() { d.n.close() })
	if err := d.attach("start"); err != nil {
		t.Fatal(err)
	}
	cBefore := -1
	d.jumpHook = func() { cBefore = d.n.rec.Count() }
	if err := d.run(); err != nil {
		t.Fatal(err)
	}
	if err := d.atSyncPoint("synced node"); err != nil {
		t.Fatal(err)
	}
	return d, cBefore, d.n.rec.Count()
}

// TestReproRestartAfterStateSync: a node that completed state sync on a chain with fewer than 2000 headers (no
// TrustedHeader) cannot be restarted: the jump deletes the genesis block together with its header, and
// HeaderHashes.init walks the header chain back to the genesis.
func TestReproRestartAfterStateSync(t *testing.T) {
	reproGate(t)
	d, _, _ := reproSync(t)
	if err := d.n.restart(); err != nil {
		t.Fatalf("restart of the node right after the completed state sync (height %d) fails: %v", d.src.P, err)
	}
}

// TestReproCrashBeforeJump: the node dies after the last block of the sync was persisted (AddBlock's PersistSync) and
// before the first commit of the state jump. On restart Module.Init finds headers, MPT and blocks complete and
// declares the module inactive WITHOUT performing the jump: the node sits at height 0 with the genesis MPT removed.
func TestReproCrashBeforeJump(t *testing.T) {
	reproGate(t)
	d, cBefore, cAfter := reproSync(t)
	t.Logf("the final AddBlock issued commits %d..%d", cBefore+1, cAfter)
	tw, err := d.n.crashCopy(cBefore + 1)
	if err != nil {
		t.Fatalf("node does not start: %v", err)
	}
	defer tw.close()
	m := tw.bc.GetStateSyncModule()
	func() {
		defer func() {
			if r := recover(); r != nil {
				t.Fatalf("Init panics on the restarted node (this is the shared-node re-Init defect, see TestReproStateSyncReinitSharedSiblings): %v", r)
			}
		}()
		if err := m.Init(9); err != nil {
			t.Fatalf("Init: %v", err)
		}
	}()
	if !m.IsActive() && tw.bc.BlockHeight() != d.src.P {
		t.Fatalf("after the restart: module inactive (IsActive=false, NeedBlocks=%v), block height %d, header height %d, sync point %d; AddBlock(1) through ordinary processing: %v",
			m.NeedBlocks(), tw.bc.BlockHeight(), tw.bc.HeaderHeight(), d.src.P, tw.bc.AddBlock(d.src.blk(1)))
	}
}

// reproToMPTStage brings a fresh node of the tiny chain to the MPT stage.
func reproToMPTStage(t *testing.T) *driver {
	c := SCase{
		Chain:  ck.ChainCfg{Profile: "V1C1", SRIH: true, StateExchange: true, StateSyncInterval: 4, MTB: 4},
		Node:   ck.NodeCfg{Backend: "mem", RemoveUntraceable: true, KeepOnlyLatest: true, GCPeriod: 1},
		InitAt: 9,
	}
	for i := 0; i < 8; i++ {
		c.Blocks = append(c.Blocks, ck.BlockSpec{TimeD: 1000, Nonce: uint64(i)})
	}
	b, err := ck.NewBuilder(c.Chain)
	if err != nil {
		t.Fatal(err)
	}
	t.Cleanup(b.Close)
	src := &source{b: b, srih: true, total: 10, P: 8}
	boot, err := b.Bootstrap()
	if err != nil {
		t.Fatal(err)
	}
	src.raws = append(src.raws, boot...)
	for _, s := range c.Blocks {
		raw, _, err := b.BuildBlock(s)
		if err != nil {
			t.Fatal(err)
		}
		src.raws = append(src.raws, raw)
	}
	if err := src.prepare(); err != nil {
		t.Fatal(err)
	}
	n, err := newSyncNode(c.Chain.Blockchain(c.Node), "mem")
	if err != nil {
		t.Fatal(err)
	}
	d := &driver{c: c, o: &vt.Obs{}, src: src, n: n, peerH: 9, capH: 10, plain: true}
	d.stats.restartStage = map[string]int{}
	t.Cleanup(func() { d.n.close() })
	if err := d.attach("start"); err != nil {
		t.Fatal(err)
	}
	for d.mod.NeedHeaders() {
		if err := d.feedHeaders(Step{B: 20}); err != nil {
			t.Fatal(err)
		}
	}
	if !d.mod.NeedStorageData() {
		t.Fatal("not in the MPT stage")
	}
	return d
}

// TestReproEmptyNodePanics: one byte from a peer (the serialisation of an empty MPT node, 0x04) delivered through
// handleMPTDataCmd -> AddMPTNodes makes the syncing node panic ("can't get hash of an EmptyNode") instead of rejecting it.
func TestReproEmptyNodePanics(t *testing.T) {
	reproGate(t)
	d := reproToMPTStage(t)
	defer func() {
		if r := recover(); r != nil {
			t.Fatalf("AddMPTNodes([0x04]) panics: %v", r)
		}
	}()
	err := d.mod.AddMPTNodes([][]byte{{0x04}})
	t.Logf("AddMPTNodes([0x04]) = %v", err)
}

// TestReproMPTStageStuckAfterRejectedBatch: the batch that delivers the last missing nodes also carries an undecodable
// node behind them. AddMPTNodes restores the good nodes, returns the decoding error before looking at the pool, and
// the module stays in the MPT stage with an empty pool: NeedStorageData() is true, GetUnknownMPTNodesBatch() is
// empty, so the server never sends a request again and no answer ever calls AddMPTNodes (until a restart).
func TestReproMPTStageStuckAfterRejectedBatch(t *testing.T) {
	reproGate(t)
	d := reproToMPTStage(t)
	var all [][]byte
	for _, h := range d.src.order { // pre-order: parents before children
		all = append(all, d.src.nodesP[h])
	}
	err := d.mod.AddMPTNodes(append(all, []byte{0xff}))
	t.Logf("AddMPTNodes(all %d nodes of the trie + one undecodable node) = %v", len(all), err)
	if d.mod.NeedStorageData() && len(d.mod.GetUnknownMPTNodesBatch(10)) == 0 {
		t.Fatalf("stuck: NeedStorageData() = true, NeedBlocks() = %v, GetUnknownMPTNodesBatch() is empty (nothing will ever be requested)", d.mod.NeedBlocks())
	}
}

// serverRounds plays n request rounds of (*Server).requestBlocks against a queue whose peers have every block.
func serverRounds(led *ledger, bq *bqueue.Queue[*qb], cache, n int) {
	for r := 0; r < n; r++ {
		h := led.peek()
		lq, capLeft := bq.LastQueued()
		if capLeft != 0 {
			from, count := h+1, cache
			if lq >= from {
				count = min(count, capLeft)
				from = lq + 1
			}
			for i := from; i < from+uint32(count); i++ {
				_ = bq.Put(&qb{idx: i})
			}
		}
		time.Sleep(2 * time.Millisecond)
	}
}

// TestReproQueueDropsNextLapBlock forces the interleaving behind the schedule-dependent stall: Run reads the chain
// height h WITHOUT the queue lock; while it is held back, consensus adds h+1 directly and a peer's block h+1+cache
// is (legitimately) put into the slot of h+1, where lastQ starts counting it. Run then takes whatever is in that slot,
// AddItem fails, and Run removes the block from the queue. lastQ still covers it, and (*Server).requestBlocks
// requests only from lastQ+1 when lastQ >= height+1, so the block is never asked for again: the node stops for good.
func TestReproQueueDropsNextLapBlock(t *testing.T) {
	reproGate(t)
	const cache = 4
	led := &ledger{consWait: -1, top: 1 << 30}
	ledInit(led)
	bq := bqueue.New[*qb](led, zap.NewNop(), nil, cache, nil, bqueue.NonBlocking)
	go bq.Run()
	defer bq.Discard()
	for led.ncalls.Load() < 1 { // Run's initial Height()
		time.Sleep(time.Millisecond)
	}
	// calls from now on: #2 = Put(1)'s Height(), #3 = Run's Height() at the top of its loop  -> hold #3 back
	g := &heightGate{call: 3, reached: make(chan struct{}), release: make(chan struct{})}
	led.gate.Store(g)
	_ = bq.Put(&qb{idx: 1})
	<-g.reached // Run has read height 0 and is "descheduled"
	for i := uint32(2); i <= cache; i++ {
		_ = bq.Put(&qb{idx: i})
	}
	led.direct()            // consensus adds block 1: height 1
	_ = bq.Put(&qb{idx: 5}) // in the window of height 1; same slot as block 1; lastQ becomes 5
	lq, _ := bq.LastQueued()
	t.Logf("before Run continues: height %d, LastQueued() = %d", led.peek(), lq)
	close(g.release)
	serverRounds(led, bq, cache, 60)
	lq, capLeft := bq.LastQueued()
	led.mu.Lock()
	calls := fmtCalls(led.calls, 3)
	led.mu.Unlock()
	t.Logf("ledger calls: %s", calls)
	if h := led.peek(); h < 30 {
		t.Fatalf("after 60 request rounds with every block available the chain is stuck at height %d; LastQueued() = (%d, capacity left %d): block %d was dropped from the queue but is still covered by lastQ", h, lq, capLeft, h+1)
	}
}

// TestReproQueueForgetsRejectedBlock: the same bookkeeping hole without any race: the ledger rejects the first copy
// of block 3 (say, a peer sent garbage with the right index). Run removes it, lastQ keeps covering index 3.
func TestReproQueueForgetsRejectedBlock(t *testing.T) {
	reproGate(t)
	const cache = 4
	led := &ledger{consWait: -1, top: 1 << 30, rejectOnce: 3}
	ledInit(led)
	bq := bqueue.New[*qb](led, zap.NewNop(), nil, cache, nil, bqueue.NonBlocking)
	go bq.Run()
	defer bq.Discard()
	_ = bq.Put(&qb{idx: 4})
	_ = bq.Put(&qb{idx: 3})
	_ = bq.Put(&qb{idx: 2})
	_ = bq.Put(&qb{idx: 1}) // lastQ = 4 (modulo the ring wrap), 1 and 2 are applied, 3 is rejected and removed
	serverRounds(led, bq, cache, 60)
	lq, capLeft := bq.LastQueued()
	if h := led.peek(); h < 30 {
		t.Fatalf("after 60 request rounds the chain is stuck at height %d; LastQueued() = (%d, capacity left %d)", h, lq, capLeft)
	}
}
