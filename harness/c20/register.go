package c20

import "verifharness/vt"

func init() {
	vt.PropertyID = "C20"
	vt.Register("queue", 10.0, genQCase, checkQCase)
	vt.Register("statesync", 1.0, genSCase, checkSCase)
}
