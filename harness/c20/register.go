package c20

import "verifharness/vt"

// Registered checks of property C20. Weights scale the per-tier base count (VERIF_CHECKS).
//
// Dormant known-finding hooks (vt.Known, property C20; all five findings behind them are fixed in /repo):
//
//	bqueue-len-leak                   queue: capacity left is neither used by the driver nor asserted
//	statesync-reinit-shared-node      statesync: no restart / crash in the MPT and blocks stages (MPT mode)
//	statesync-crash-before-jump       statesync: crash point right after the last AddBlock's flush is skipped
//	statesync-restart-lt2000-headers  statesync: no restart after the jump unless a TrustedHeader is configured
//
// Known-finding key of the `statesync` check (not listed: repaired in the repository):
//
//	statesync-trusted-header-too-recent  statesync: no TrustedHeader above the first block of the blocks stage (SCase.TrustedHigh)
const knownTrustedTooRecent = "statesync-trusted-header-too-recent"

func init() {
	vt.PropertyID = "C20"
	vt.Register("queue", 10.0, genQCase, checkQCase)
	vt.Register("queue-gated", 10.0, genGCase, checkGCase)
	vt.Register("statesync", 1.0, genSCase, checkSCase)
	vt.Register("trusted", 0.6, genTCase, checkTCase)
}
