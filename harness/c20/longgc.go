package c20

import (
	"fmt"

	"pgregory.net/rapid"
	ck "verifharness/chainkit"
	"verifharness/vt"
)

// LongGCCase: a node that removes untraceable blocks (small MaxTraceableBlocks, as private networks and the tests of
// this repository use) follows a LONG chain - thousands of blocks, so that the index of header hashes (pages of 2000)
// gets garbage collected too - with flush + GC ticks, and is restarted gracefully at drawn heights. "A node following
// the chain ... with restarts in between": every restart gives a node at the height it had, with the header hashes of
// the traceable range, and the node goes on.
type LongGCCase struct {
	GCPeriod uint32   `json:"gc_period"`
	TickEach int      `json:"tick_each"` // a flush + GC tick after every TickEach blocks
	Restarts []uint32 `json:"restarts"`  // heights (ascending) at which the node is restarted right after a tick
	Upto     uint32   `json:"upto"`
}

func genLongGCCase(t *rapid.T) LongGCCase {
	c := LongGCCase{
		GCPeriod: uint32(rapid.SampledFrom([]int{1, 5, 50}).Draw(t, "gcp")),
		TickEach: rapid.SampledFrom([]int{1, 7, 50, 100}).Draw(t, "tick"),
	}
	// restart heights around the places where the GC target and the header height share a page of header hashes
	pool := []uint32{1990, 2005, 2011, 2050, 3999, 4000, 4001, 4009, 4010, 4011, 4012, 4020, 4100, 4100, 4300, 4300, 4490, 4490}
	n := rapid.IntRange(1, 3).Draw(t, "nrestarts")
	seen := map[uint32]bool{}
	for i := 0; i < n; i++ {
		h := rapid.SampledFrom(pool).Draw(t, "at")
		if !seen[h] {
			seen[h] = true
			c.Restarts = append(c.Restarts, h)
		}
	}
	for i := range c.Restarts { // ascending
		for j := i + 1; j < len(c.Restarts); j++ {
			if c.Restarts[j] < c.Restarts[i] {
				c.Restarts[i], c.Restarts[j] = c.Restarts[j], c.Restarts[i]
			}
		}
	}
	c.Upto = c.Restarts[len(c.Restarts)-1] + uint32(rapid.IntRange(1, 30).Draw(t, "after"))
	return c
}

func checkLongGCCase(c LongGCCase, o *vt.Obs) error {
	src, err := trustedSource()
	if err != nil {
		return fmt.Errorf("source chain: %v", err)
	}
	if c.TickEach < 1 || c.Upto > tSrcLen || len(c.Restarts) == 0 || c.GCPeriod == 0 {
		return nil
	}
	n, err := ck.NewNode(tChain, ck.NodeCfg{Backend: "mem", RemoveUntraceable: true, GCPeriod: c.GCPeriod}, nil)
	if err != nil {
		return fmt.Errorf("node: %v", err)
	}
	defer n.Close()
	mtb := tChain.MTB
	ri := 0
	verify := func(where string) error {
		h := n.BC.BlockHeight()
		if hh := n.BC.HeaderHeight(); hh != h {
			return fmt.Errorf("%s: header height %d, block height %d", where, hh, h)
		}
		lo := uint32(0)
		if h > mtb {
			lo = h - mtb + 1
		}
		for i := lo; i <= h; i++ {
			if got := n.BC.GetHeaderHash(i); got != src.hashes[i] {
				return fmt.Errorf("%s: header hash of the traceable height %d is %s, the chain has %s", where, i, got.StringLE(), src.hashes[i].StringLE())
			}
		}
		return nil
	}
	for i := uint32(1); i <= c.Upto; i++ {
		blk, err := ck.DecodeBlock(src.blocks[i], tChain.SRIH)
		if err != nil {
			return err
		}
		if err := n.BC.AddBlock(blk); err != nil {
			return fmt.Errorf("block %d refused: %v", i, err)
		}
		tick := int(i)%c.TickEach == 0
		atRestart := ri < len(c.Restarts) && c.Restarts[ri] == i
		if tick || atRestart {
			if err := n.BC.VerifPersistAndGC(); err != nil {
				return fmt.Errorf("flush + GC at %d: %v", i, err)
			}
		}
		if atRestart {
			ri++
			if err := n.Restart(); err != nil {
				return fmt.Errorf("graceful restart at height %d (MaxTraceableBlocks %d, GC period %d, tick every %d blocks) fails: %v", i, mtb, c.GCPeriod, c.TickEach, err)
			}
			if got := n.BC.BlockHeight(); got != i {
				return fmt.Errorf("restarted at height %d, the node reports %d", i, got)
			}
			if err := verify(fmt.Sprintf("after the restart at %d", i)); err != nil {
				return err
			}
			o.Labelf("restart-at-%d", i/10*10)
			o.Units(1)
		}
	}
	if err := verify("at the end"); err != nil {
		return err
	}
	o.NonTrivial()
	return nil
}

func init() {
	vt.Register("longgc", 0.08, genLongGCCase, checkLongGCCase)
}
