package c20

import (
	"encoding/json"
	"os"
	"path/filepath"
	"strings"
	"testing"

	ck "verifharness/chainkit"
	"verifharness/vt"
)

func TestProp(t *testing.T)   { vt.RunAll(t, 25) }
func TestReplay(t *testing.T) { vt.ReplayAll(t) }

// TestKnownFindings re-confirms the listed known finding of the chainkit grammar (ck.KnownOracleOrigTx: an oracle response
// to a request whose original transaction the state-synchronised node never received FAULTs there and HALTs on the
// source): the recorded case replays/C20/known/<key>.json is run with the exclusion switched off.
func TestKnownFindings(t *testing.T) {
	if !vt.Known(ck.KnownOracleOrigTx) {
		t.Logf("%s: not listed as known: TestProp generates the shape itself", ck.KnownOracleOrigTx)
		return
	}
	root := os.Getenv("VERIF_ROOT")
	if root == "" {
		root = "/verif"
	}
	raw, err := os.ReadFile(filepath.Join(root, "replays", "C20", "known", ck.KnownOracleOrigTx+".json"))
	if err != nil {
		t.Logf("%s: %v", ck.KnownOracleOrigTx, err)
		return
	}
	var env struct {
		Case SCase `json:"case"`
	}
	if err := json.Unmarshal(raw, &env); err != nil {
		t.Fatal(err)
	}
	ck.StrictKnown = true
	err = checkSCase(env.Case, &vt.Obs{})
	ck.StrictKnown = false
	if err == nil {
		t.Logf("%s: the recorded case no longer fails", ck.KnownOracleOrigTx)
		return
	}
	s := err.Error()
	if i := strings.IndexByte(s, '\n'); i >= 0 {
		s = s[:i]
	}
	if len(s) > 700 {
		s = s[:700] + "..."
	}
	vt.KnownFinding(ck.KnownOracleOrigTx, s)
}
