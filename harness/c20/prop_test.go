package c20

import (
	"testing"

	"verifharness/vt"
)

func TestProp(t *testing.T)   { vt.RunAll(t, 25) }
func TestReplay(t *testing.T) { vt.ReplayAll(t) }
