package c20

// queue-gated: the one window of the block queue in which the scheduler matters most is OWNED by the harness here.
// Run reads the chain height without the queue lock; the fake ledger holds that Height() call back after the value
// was read (a goroutine descheduled right there). While Run is held, a drawn sequence of direct (consensus) adds and
// Puts is executed on the test goroutine, then Run is released with its stale height and the server's request rounds
// follow. Everything up to the release is deterministic.

import (
	"fmt"
	"time"

	"github.com/nspcc-dev/neo-go/pkg/network/bqueue"
	"go.uber.org/zap"
	"pgregory.net/rapid"
	"verifharness/vt"
)

// GOp is one action performed while Run is held: a direct add (Put == 0) or a Put of offset Put (index H0+Put).
type GOp struct {
	Put int `json:"put,omitempty"`
}

// GCase is one gated scenario.
type GCase struct {
	Cache int    `json:"cache"`
	H0    uint32 `json:"h0"`
	First int    `json:"first"` // offset of the Put that wakes Run (1..cache)
	Ops   []GOp  `json:"ops"`   // performed while Run sits between reading the height and taking the lock
	Top   int    `json:"top"`   // blocks H0+1..H0+Top exist at the peers
}

func genGCase(t *rapid.T) GCase {
	c := GCase{Cache: rapid.IntRange(3, 8).Draw(t, "cache")}
	c.H0 = uint32(rapid.SampledFrom([]int{0, 0, 1, c.Cache - 1, c.Cache, c.Cache + 1, 17}).Draw(t, "h0"))
	c.First = rapid.IntRange(1, c.Cache).Draw(t, "first")
	c.Top = rapid.IntRange(c.Cache, 4*c.Cache).Draw(t, "top")
	next := 1 // a contiguous run of Puts is the typical answer of a peer
	if rapid.IntRange(0, 9).Draw(t, "aimed") < 4 {
		// Aimed shape: a peer's contiguous answer, consensus moves the chain, then the block exactly one lap above
		// the slot Run is about to look at (offset cache+1) arrives.
		for m := rapid.IntRange(1, c.Cache).Draw(t, "run"); next <= m; next++ {
			c.Ops = append(c.Ops, GOp{Put: next})
		}
		for d := rapid.IntRange(1, 2).Draw(t, "directs"); d > 0; d-- {
			c.Ops = append(c.Ops, GOp{})
		}
		c.Ops = append(c.Ops, GOp{Put: c.Cache + 1})
		c.Top = max(c.Top, c.Cache+2)
	}
	n := rapid.IntRange(0, 3*c.Cache).Draw(t, "nops")
	for i := 0; i < n; i++ {
		switch rapid.IntRange(0, 9).Draw(t, "op") {
		case 0, 1, 2:
			c.Ops = append(c.Ops, GOp{}) // direct add
		case 3:
			c.Ops = append(c.Ops, GOp{Put: rapid.IntRange(1, 3*c.Cache).Draw(t, "off")})
		case 4: // exactly one lap above something
			c.Ops = append(c.Ops, GOp{Put: rapid.IntRange(1, c.Cache).Draw(t, "low") + c.Cache})
		default:
			c.Ops = append(c.Ops, GOp{Put: next})
			next++
		}
	}
	return c
}

func checkGCase(c GCase, o *vt.Obs) error {
	if c.Cache < 1 || c.First < 1 || c.Top < 1 {
		return nil
	}
	led := &ledger{height: c.H0, consWait: -1, top: c.H0 + uint32(c.Top)}
	ledInit(led)
	bq := bqueue.New[*qb](led, zap.NewNop(), nil, c.Cache, nil, bqueue.NonBlocking)
	panics := make(chan string, 1)
	runDone := make(chan struct{})
	go func() {
		defer close(runDone)
		defer func() {
			if p := recover(); p != nil {
				select {
				case panics <- fmt.Sprint(p):
				default:
				}
			}
		}()
		bq.Run()
	}()
	released := false
	var g *heightGate
	finish := func() {
		if g != nil && !released {
			close(g.release)
			released = true
		}
		bq.Discard()
		<-runDone
	}
	defer finish()
	wait := func(cond func() bool) bool {
		for i := 0; i < 20000; i++ {
			if cond() {
				return true
			}
			time.Sleep(100 * time.Microsecond)
		}
		return false
	}
	if !wait(func() bool { return led.ncalls.Load() >= 1 }) { // Run's initial Height()
		o.Label("infra-timeout")
		return nil
	}
	// Ledger call #2 is the waking Put's own Height(), #3 is Run's Height() at the top of its loop.
	g = &heightGate{call: 3, reached: make(chan struct{}), release: make(chan struct{})}
	led.gate.Store(g)
	_ = bq.Put(&qb{idx: c.H0 + uint32(c.First)})
	select {
	case <-g.reached:
	case <-time.After(10 * time.Second):
		o.Label("infra-timeout")
		return nil
	}
	directs, laps := 0, false
	for _, op := range c.Ops {
		if op.Put == 0 {
			if led.direct() != 0 {
				directs++
			}
			continue
		}
		idx := c.H0 + uint32(op.Put)
		if h := led.peek(); idx > c.H0+uint32(c.Cache) && idx <= h+uint32(c.Cache) {
			laps = true // accepted only because the chain moved while Run was held
		}
		_ = bq.Put(&qb{idx: idx})
	}
	close(g.release)
	released = true

	// ---- the server's request rounds (requestBlocks), every block up to Top available ----
	top := c.H0 + uint32(c.Top)
	stall, lastH := 0, led.peek()
	for led.peek() < top {
		select {
		case p := <-panics:
			return fmt.Errorf("PANIC in Run: %s", p)
		default:
		}
		h := led.peek()
		lq, capLeft := bq.LastQueued()
		if capLeft < 0 || capLeft > c.Cache {
			return fmt.Errorf("LastQueued() reports capacity left %d, cache %d", capLeft, c.Cache)
		}
		if capLeft != 0 {
			from, count := h+1, c.Cache
			if lq >= from {
				count = min(count, capLeft)
				from = lq + 1
			}
			for i := from; i < from+uint32(count) && i <= top && i <= h+uint32(c.Cache); i++ {
				_ = bq.Put(&qb{idx: i})
			}
		}
		backoff(stall)
		if nh := led.peek(); nh != lastH {
			lastH, stall = nh, 0
			continue
		}
		stall++
		if stall >= qStallRounds {
			lq, capLeft = bq.LastQueued()
			return fmt.Errorf("stall: Run was held after reading height %d while %d direct adds and the drawn Puts happened; afterwards no progress in %d request rounds at height %d: LastQueued() = (%d, capacity left %d), cache %d (calls: %s)",
				c.H0, directs, stall, lastH, lq, capLeft, c.Cache, ledCalls(led))
		}
	}
	led.mu.Lock()
	calls := append([]addCall{}, led.calls...)
	led.mu.Unlock()
	for i, cl := range calls {
		if !cl.ok && cl.idx > cl.height+1 {
			return fmt.Errorf("call %d: the queue offered block %d to a ledger at height %d: an element of the next lap was taken out of the slot of height+1 (calls: %s)", i, cl.idx, cl.height, fmtCalls(calls, i))
		}
	}
	o.Units(len(calls))
	if directs > 0 {
		o.Label("direct-while-held")
	}
	if laps {
		o.Label("next-lap-put-while-held")
	}
	if directs > 0 && laps {
		o.NonTrivial()
	}
	return nil
}

func ledCalls(l *ledger) string {
	l.mu.Lock()
	defer l.mu.Unlock()
	return fmtCalls(l.calls, max(0, len(l.calls)-3))
}
