package c20

// statesync: a fresh node bootstraps by state synchronisation from a generated source chain. The harness plays the
// role of pkg/network/server.go: tryInitStateSync (Init with the peer's height), requestHeaders / handleHeadersCmd
// (AddHeaders), requestMPTNodes / handleGetMPTDataCmd on the source / handleMPTDataCmd (GetUnknownMPTNodesBatch,
// source-side Traverse, AddMPTNodes) or the NeoFS state fetcher (InitContractStorageSync, AddContractStorageItems),
// requestBlocks + bSyncQueue (AddBlock in index order), then ordinary block processing.

import (
	"bytes"
	"errors"
	"fmt"
	"os"
	"path/filepath"
	"runtime"
	"sort"
	"strings"

	"github.com/nspcc-dev/neo-go/pkg/config"
	"github.com/nspcc-dev/neo-go/pkg/core"
	"github.com/nspcc-dev/neo-go/pkg/core/block"
	"github.com/nspcc-dev/neo-go/pkg/core/mpt"
	"github.com/nspcc-dev/neo-go/pkg/core/state"
	"github.com/nspcc-dev/neo-go/pkg/core/statesync"
	"github.com/nspcc-dev/neo-go/pkg/core/storage"
	"github.com/nspcc-dev/neo-go/pkg/core/storage/dbconfig"
	"github.com/nspcc-dev/neo-go/pkg/crypto/hash"
	"github.com/nspcc-dev/neo-go/pkg/util"
	"go.uber.org/zap"
	"pgregory.net/rapid"
	ck "verifharness/chainkit"
	"verifharness/vt"
)

// Step is one event in the life of the syncing node. The meaning of "feed" depends on the stage the node is in.
type Step struct {
	Kind    string `json:"k"`           // feed | restart | crash | flush | grow
	A       int    `json:"a,omitempty"` // headers: overlap with known headers; mpt: hashes asked (1-8); blocks: 0 next, 1 an old one first, 2 a future one first; grow: delta
	B       int    `json:"b,omitempty"` // headers: chunk length; mpt: nodes in the answer (1-20); storage: batch size
	Seed    uint64 `json:"seed,omitempty"`
	Shuffle bool   `json:"shuffle,omitempty"` // mpt: deliver the answer in a drawn permutation
	Dup     int    `json:"dup,omitempty"`     // mpt: duplicated nodes added to the answer
	Wrong   []int  `json:"wrong,omitempty"`   // mpt: 1 altered byte, 2 node of another height's trie, 3 valid node nobody asked for, 4 truncated node, 5 serialised empty node, 6 requested node sent ONLY in a form with one child serialised inline (same hash)
	Gap     bool   `json:"gap,omitempty"`     // headers: chunk that does not connect (must be rejected)
	// Race (feed in the state stage, memory backend): the node's periodic flush (persist timer of Blockchain.Run) is
	// played by a goroutine flushing in a tight loop while the data is added, so that commits fall BETWEEN the writes
	// of one operation; up to two of the commits made meanwhile are then examined as crash points.
	Race bool `json:"race,omitempty"`
	// Forge (blocks stage): before the genuine next block a copy of it with a forged witness is offered (1: the
	// verification script replaced by PUSH1, 2: one bit of the invocation script flipped); it must be refused.
	Forge int `json:"forge,omitempty"`
}

// SCase is one state-sync scenario.
type SCase struct {
	Chain     ck.ChainCfg    `json:"chain"`
	Blocks    []ck.BlockSpec `json:"blocks"`
	Storage   bool           `json:"storage"` // ContractStorageBased sync (NeoFSStateSyncExtensions) instead of MPT-based
	Node      ck.NodeCfg     `json:"node"`
	InitAt    int            `json:"init_at"` // height of the source when the syncing node starts
	Steps     []Step         `json:"steps"`
	CrashJump bool           `json:"crash_jump"`          // enumerate crash points inside the last AddBlock / state jump
	RaceJump  bool           `json:"race_jump,omitempty"` // ... with the periodic flush racing against the jump (see Step.Race)
	Tail      []int          `json:"tail"`                // per block after P: bit0 flush+GC tick, bit1 restart
	FinalBad  int            `json:"final_bad,omitempty"` // !=0: the batch that completes the MPT (sent once <= FinalAt nodes are unknown) ends with a wrong node of this kind
	FinalAt   int            `json:"final_at,omitempty"`
	Trusted   int            `json:"trusted,omitempty"` // 0: headers from genesis; k>0: TrustedHeader configured, k selects its height among the admissible ones
	// TrustedHigh (k>0, overrides Trusted): a TrustedHeader that passes every configuration rule but is RECENT: k selects
	// its height from F = P-MaxTraceableBlocks+1 (the first block the blocks stage asks for: still fine) up to two above
	// the sync point (never above the peer). Above F the headers of the blocks F.. are never fetched, so the node can
	// not finish: it must say so up front (NewBlockchain / Init fail) or complete the synchronisation all the same.
	TrustedHigh int `json:"trusted_high,omitempty"`
	// AltWitness: the genuine blocks of the blocks stage arrive with ANOTHER valid witness than the one of the headers
	// fetched before (any M of N validator signatures make a witness, peers hold different ones): they have to be
	// accepted all the same (chains with more than one validator only).
	AltWitness bool `json:"alt_witness,omitempty"`
}

func genStep(t *rapid.T) Step {
	s := Step{Seed: rapid.Uint64().Draw(t, "seed")}
	switch k := rapid.IntRange(0, 99).Draw(t, "kind"); {
	case k < 66:
		s.Kind = "feed"
	case k < 76:
		s.Kind = "restart"
	case k < 84:
		s.Kind = "crash"
	case k < 95:
		s.Kind = "flush"
	default:
		s.Kind = "grow"
	}
	switch s.Kind {
	case "feed":
		s.A = rapid.IntRange(0, 8).Draw(t, "a")
		s.B = rapid.IntRange(1, 20).Draw(t, "b")
		s.Shuffle = rapid.Bool().Draw(t, "shuffle")
		if rapid.IntRange(0, 2).Draw(t, "hasdup") == 0 {
			s.Dup = rapid.IntRange(1, 4).Draw(t, "dup")
		}
		if rapid.IntRange(0, 2).Draw(t, "haswrong") == 0 {
			s.Wrong = rapid.SliceOfN(rapid.IntRange(1, 6), 1, 3).Draw(t, "wrong")
		}
		s.Gap = rapid.IntRange(0, 9).Draw(t, "gap") == 0
		s.Race = rapid.IntRange(0, 5).Draw(t, "race") == 0
		s.Forge = rapid.SampledFrom([]int{0, 0, 0, 1, 2}).Draw(t, "forge")
	case "grow":
		s.A = rapid.IntRange(1, 3).Draw(t, "delta")
	}
	return s
}

func genSCase(t *rapid.T) SCase {
	c := SCase{Chain: ck.GenChainCfg(t, false)}
	c.Chain.SRIH = true
	c.Chain.StateExchange = true
	c.Chain.StateSyncInterval = rapid.IntRange(4, 8).Draw(t, "interval")
	c.Chain.MTB = uint32(rapid.IntRange(4, 8).Draw(t, "mtb"))
	c.Storage = rapid.IntRange(0, 3).Draw(t, "mode") == 0
	c.Node = ck.NodeCfg{
		Backend:           rapid.SampledFrom([]string{"mem", "mem", "bolt"}).Draw(t, "backend"),
		RemoveUntraceable: true,
		KeepOnlyLatest:    rapid.Bool().Draw(t, "latest"),
		GCPeriod:          uint32(rapid.IntRange(1, 4).Draw(t, "gcp")),
		SaveStorageBatch:  rapid.IntRange(0, 4).Draw(t, "ssb") == 0,
	}
	bias := ck.BalancedBias(c.Chain.P2PSig)
	bias.Storage = 12
	bias.Faults = 1
	nb := rapid.IntRange(20, 60).Draw(t, "nblocks")
	for i := 0; i < nb; i++ {
		bs := ck.GenBlock(t, bias, 4)
		// Shared leaves / subtrees: the same value under many keys, in two contracts.
		if rapid.IntRange(0, 2).Draw(t, "shared") == 0 {
			bs.Txs = append(bs.Txs, ck.Action{Kind: "multi_put", From: rapid.IntRange(0, 5).Draw(t, "sfrom"), A: rapid.IntRange(0, 1).Draw(t, "scontract"),
				N: 5, K: vt.Bytes{byte(rapid.IntRange(0, 3).Draw(t, "skey"))}, V: vt.Bytes("shared-value"), Nonce: rapid.Uint32().Draw(t, "snonce")})
		}
		c.Blocks = append(c.Blocks, bs)
	}
	// Governance storyline (aimed at native caches rebuilt by the state jump): a candidate registers, the genesis
	// holder votes for it, then its account is blocked by Policy; whether it sits in the next committee depends on
	// the blocked list of the state the node jumps to.
	if rapid.IntRange(0, 2).Draw(t, "gov_story") == 0 {
		cand := rapid.IntRange(0, ck.NCandidates-1).Draw(t, "gov_cand")
		at := rapid.IntRange(0, 4).Draw(t, "gov_at")
		nonce := rapid.Uint32().Draw(t, "gov_nonce")
		c.Blocks[at].Txs = append(c.Blocks[at].Txs, ck.Action{Kind: "register", From: ck.NAccounts + cand, A: cand, Nonce: nonce})
		c.Blocks[at+1].Txs = append(c.Blocks[at+1].Txs, ck.Action{Kind: "vote", From: ck.PValidators, A: cand, Nonce: nonce + 1})
		bl := at + 2 + rapid.IntRange(0, 3).Draw(t, "gov_gap")
		c.Blocks[bl].Txs = append(c.Blocks[bl].Txs, ck.Action{Kind: "policy", S: "blockCandidate", From: 4, A: cand, Nonce: nonce + 2})
	}
	total := nb + 2
	I := c.Chain.StateSyncInterval
	// The block right after every synchronisation point asks the Ledger contract about the point's block (the
	// in-memory top block of the node is rebuilt by the state jump). Blocks[i] is the block of height i+3.
	if rapid.Bool().Draw(t, "ask_top") {
		for h := I + 1; h-3 < len(c.Blocks); h += I {
			if h-3 < 0 {
				continue
			}
			q := ck.Action{Kind: "ledger_q", From: rapid.IntRange(0, 3).Draw(t, "asker"), A: 0, B: rapid.IntRange(0, 1).Draw(t, "txidx"),
				N: rapid.Int64Range(0, 1).Draw(t, "q"), Nonce: rapid.Uint32().Draw(t, "qnonce")}
			c.Blocks[h-3].Txs = append([]ck.Action{q}, c.Blocks[h-3].Txs...)
		}
	}
	c.InitAt = rapid.IntRange(2*I, total-1).Draw(t, "init_at")
	if rapid.IntRange(0, 3).Draw(t, "exact") == 0 { // the peer is exactly at a sync point: header P+1 does not exist yet
		c.InitAt = (c.InitAt / I) * I
	}
	c.Steps = rapid.SliceOfN(rapid.Custom(genStep), 20, 70).Draw(t, "steps")
	c.CrashJump = rapid.Bool().Draw(t, "crash_jump")
	c.RaceJump = c.CrashJump && rapid.Bool().Draw(t, "race_jump")
	c.FinalBad = rapid.SampledFrom([]int{0, 0, 0, 4, 5, 1}).Draw(t, "final_bad")
	c.FinalAt = rapid.IntRange(1, 6).Draw(t, "final_at")
	if rapid.IntRange(0, 2).Draw(t, "has_trusted") == 0 {
		c.Trusted = rapid.IntRange(1, 40).Draw(t, "trusted")
	}
	for i := 0; i < total; i++ {
		c.Tail = append(c.Tail, rapid.SampledFrom([]int{0, 0, 0, 1, 1, 2, 3}).Draw(t, "tail"))
	}
	if rapid.IntRange(0, 5).Draw(t, "has_trusted_high") == 0 {
		c.TrustedHigh = rapid.IntRange(1, 40).Draw(t, "trusted_high")
	}
	c.AltWitness = rapid.IntRange(0, 2).Draw(t, "alt_witness") == 0
	return c
}

// ---- the syncing node (own wrapper: chainkit.Node cannot express NeoFSStateSyncExtensions) --------------------------

type noClose struct{ storage.Store }

func (noClose) Close() error { return nil }

type syncNode struct {
	cfg     config.Blockchain
	bc      *core.Blockchain
	dir     string        // bolt only
	mem     storage.Store // memory backend (possibly a RecStore); survives restarts
	rec     *ck.RecStore  // memory backend: commit log
	running bool
}

func (n *syncNode) open() error {
	var st storage.Store
	if n.dir != "" {
		b, err := storage.NewBoltDBStore(dbconfig.BoltDBOptions{FilePath: filepath.Join(n.dir, "chain.bolt")})
		if err != nil {
			return err
		}
		st = b
	} else {
		st = noClose{n.mem}
	}
	bc, err := core.NewBlockchain(st, n.cfg, zap.NewNop())
	if err != nil {
		if n.dir != "" {
			_ = st.Close()
		}
		return err
	}
	n.bc = bc
	go bc.Run()
	n.running = true
	return nil
}

func (n *syncNode) stop() {
	if n.running {
		n.bc.Close()
		n.running = false
	}
}

func (n *syncNode) close() {
	n.stop()
	if n.dir != "" {
		_ = os.RemoveAll(n.dir)
	}
}

func (n *syncNode) restart() error {
	n.stop()
	return n.open()
}

func newSyncNode(cfg config.Blockchain, backend string) (*syncNode, error) {
	n := &syncNode{cfg: cfg}
	if backend == "bolt" {
		d, err := os.MkdirTemp("", "verif-c20-")
		if err != nil {
			return nil, err
		}
		n.dir = d
	} else {
		n.rec = ck.NewRecStore(storage.NewMemoryStore())
		n.mem = n.rec
	}
	if err := n.open(); err != nil {
		n.close()
		return nil, err
	}
	return n, nil
}

// startFlusher plays the persist timer of Blockchain.Run at the highest possible rate: a goroutine flushing the node's
// write cache in a loop until the returned function is called (which waits for it).
func (n *syncNode) startFlusher() func() {
	stop := make(chan struct{})
	done := make(chan struct{})
	bc := n.bc
	go func() {
		defer close(done)
		for {
			select {
			case <-stop:
				return
			default:
				_ = bc.VerifPersist()
				runtime.Gosched()
			}
		}
	}()
	return func() { close(stop); <-done }
}

// crashCopy returns a stopped-less twin of a memory node as it would be found after a crash that kept exactly the
// first k commits (everything unflushed is lost). The twin has its own commit log seeded with those k commits.
func (n *syncNode) crashCopy(k int) (*syncNode, error) {
	if n.rec == nil {
		return nil, errors.New("crashCopy needs the memory backend")
	}
	mat := n.rec.Materialise(k)
	rec := ck.NewRecStore(mat)
	rec.Commits = append(rec.Commits, n.rec.Commits[:min(k, len(n.rec.Commits))]...)
	t := &syncNode{cfg: n.cfg, rec: rec, mem: rec}
	if err := t.open(); err != nil {
		return nil, err
	}
	return t, nil
}

// ---- the source ---------------------------------------------------------------------------------------------------

type source struct {
	b      *ck.Builder
	raws   [][]byte // raws[i]: block i+1
	srih   bool
	total  uint32
	P      uint32
	dumpP  ck.Dump
	mtbP   uint32 // MaxTraceableBlocks in force at P
	dumpT  ck.Dump
	rootP  util.Uint256
	nodesP map[util.Uint256][]byte // every node of the trie at P
	visits map[util.Uint256]int    // tree visits per hash (>1: shared node)
	order  []util.Uint256          // pre-order of first visits
	other  [][]byte                // nodes of other heights' tries that are not part of P's trie
	kvP    []storage.KeyValue      // storage mode: items at P in SeekStates order
}

func (s *source) blk(i uint32) *block.Block {
	b, err := ck.DecodeBlock(s.raws[i-1], s.srih)
	if err != nil {
		panic(err)
	}
	return b
}

func (s *source) root(h uint32) util.Uint256 {
	r, err := s.b.N.BC.GetStateModule().GetStateRoot(h)
	if err != nil {
		panic(fmt.Sprintf("source has no state root %d: %v", h, err))
	}
	return r.Root
}

// walk collects the nodes below root the way a serving peer sees them (statesync.Module.Traverse).
func walk(bc *core.Blockchain, root util.Uint256, f func(h util.Uint256, b []byte)) error {
	return bc.GetStateSyncModule().Traverse(root, func(n mpt.Node, nb []byte) bool {
		f(n.Hash(), nb)
		return false
	})
}

func (s *source) prepare() error {
	s.rootP = s.root(s.P)
	s.nodesP = map[util.Uint256][]byte{}
	s.visits = map[util.Uint256]int{}
	if err := walk(s.b.N.BC, s.rootP, func(h util.Uint256, b []byte) {
		if _, ok := s.nodesP[h]; !ok {
			s.nodesP[h] = b
			s.order = append(s.order, h)
		}
		s.visits[h]++
	}); err != nil {
		return fmt.Errorf("source cannot traverse its own trie at %d: %v", s.P, err)
	}
	for _, h := range []uint32{s.P - 1, s.P + 1, s.total} {
		if h == s.P || h > s.total {
			continue
		}
		seen := map[util.Uint256]bool{}
		_ = walk(s.b.N.BC, s.root(h), func(hh util.Uint256, b []byte) {
			if _, in := s.nodesP[hh]; !in && !seen[hh] && len(s.other) < 60 {
				seen[hh] = true
				s.other = append(s.other, b)
			}
		})
	}
	s.b.N.BC.GetStateModule().SeekStates(s.rootP, nil, func(k, v []byte) bool {
		s.kvP = append(s.kvP, storage.KeyValue{Key: bytes.Clone(k), Value: bytes.Clone(v)})
		return true
	})
	return nil
}

// serve answers a GetMPTData request like handleGetMPTDataCmd: every requested node followed by its descendants in
// traversal order, no node twice, capped (by count here, by payload size there).
func (s *source) serve(hashes []util.Uint256, maxNodes int) ([][]byte, error) {
	var out [][]byte
	added := map[util.Uint256]bool{}
	for _, h := range hashes {
		if len(out) >= maxNodes {
			break
		}
		err := s.b.N.BC.GetStateSyncModule().Traverse(h, func(n mpt.Node, nb []byte) bool {
			if added[n.Hash()] {
				return false
			}
			if len(out) >= maxNodes {
				return true
			}
			out = append(out, nb)
			added[n.Hash()] = true
			return false
		})
		if err != nil {
			return nil, fmt.Errorf("source failed to traverse from requested node %s: %v", h.StringBE(), err)
		}
	}
	return out, nil
}

// ---- deterministic helper randomness derived from case data -------------------------------------------------------

type prng uint64

func (p *prng) next() uint64 {
	*p += 0x9e3779b97f4a7c15
	z := uint64(*p)
	z = (z ^ (z >> 30)) * 0xbf58476d1ce4e5b9
	z = (z ^ (z >> 27)) * 0x94d049bb133111eb
	return z ^ (z >> 31)
}

func (p *prng) intn(n int) int {
	if n <= 1 {
		return 0
	}
	return int(p.next() % uint64(n))
}

// ---- driver -------------------------------------------------------------------------------------------------------

type driver struct {
	c     SCase
	o     *vt.Obs
	src   *source
	n     *syncNode
	mod   *statesync.Module
	peerH uint32
	capH  uint32
	plain bool // no more injections / restarts (termination phase or crash twin)
	// jumpHook is called right before the AddBlock of the sync point block (which triggers the state jump).
	jumpHook func()

	storageInit   bool
	trusted       uint32 // height of the configured TrustedHeader (0: none)
	kF1, kF2, kF3 bool   // listed known findings (see register.go)
	// pointSaved: the chosen sync point has reached the database (a flush happened since the first Init). Before
	// that a crash legitimately makes the node choose again, so the peer must not leave P's interval yet.
	pointSaved    bool
	finalDone     bool // the completing batch with a bad tail was sent
	mptCallsStage int  // AddMPTNodes calls made by this driver
	stats         struct {
		restartsMPT, crashesMPT, wrong, restarts, crashes, flushes, mptCalls, hdrCalls, blkCalls int
		restartStage                                                                             map[string]int
	}
}

func hashesKey(hs []util.Uint256) string {
	s := make([]string, len(hs))
	for i, h := range hs {
		s[i] = h.StringBE()
	}
	return strings.Join(s, ",")
}

func (d *driver) unknown() []util.Uint256 {
	u := d.mod.GetUnknownMPTNodesBatch(1 << 30)
	sort.Slice(u, func(i, j int) bool { return bytes.Compare(u[i][:], u[j][:]) < 0 })
	return u
}

func (d *driver) stage() string {
	switch {
	case !d.mod.IsActive():
		return "inactive"
	case !d.mod.IsInitialized():
		return "none"
	case d.mod.NeedHeaders():
		return "headers"
	case d.mod.NeedStorageData():
		return "state"
	case d.mod.NeedBlocks():
		return "blocks"
	}
	return "?"
}

// getters checks the implications the getters' definitions document.
func (d *driver) getters(where string) error {
	m := d.mod
	act, ini, nh, ns, nb := m.IsActive(), m.IsInitialized(), m.NeedHeaders(), m.NeedStorageData(), m.NeedBlocks()
	cnt := 0
	for _, b := range []bool{nh, ns, nb} {
		if b {
			cnt++
		}
	}
	desc := fmt.Sprintf("IsActive=%v IsInitialized=%v NeedHeaders=%v NeedStorageData=%v NeedBlocks=%v", act, ini, nh, ns, nb)
	if cnt > 1 {
		return fmt.Errorf("%s: more than one stage is needed at once: %s", where, desc)
	}
	if !act && cnt != 0 {
		return fmt.Errorf("%s: inactive module still needs data: %s", where, desc)
	}
	if act && ini && cnt != 1 {
		return fmt.Errorf("%s: active initialised module needs nothing: %s", where, desc)
	}
	if !ini && cnt != 0 {
		return fmt.Errorf("%s: uninitialised module needs data: %s", where, desc)
	}
	return nil
}

// initError is an error returned by Module.Init (the server logs it as fatal and exits).
type initError struct{ error }

// attach does what tryInitStateSync does after a (re)start.
func (d *driver) attach(where string) error {
	d.mod = d.n.bc.GetStateSyncModule()
	d.storageInit = false
	if d.mod.IsActive() && !d.mod.IsInitialized() {
		if err := d.mod.Init(d.peerH); err != nil {
			return initError{fmt.Errorf("%s: Init(%d) failed (block height %d, header height %d): %v", where, d.peerH, d.n.bc.BlockHeight(), d.n.bc.HeaderHeight(), err)}
		}
		if d.mod.IsActive() {
			if p := d.mod.GetStateSyncPoint(); p != d.src.P {
				return fmt.Errorf("%s: Init(%d) chose sync point %d, expected %d", where, d.peerH, p, d.src.P)
			}
		}
	}
	return d.getters(where)
}

// raceTwins examines up to two of the commits c0 < k <= c1 made while data was added with the periodic flush racing:
// a node that crashed keeping exactly k commits must start, finish the synchronisation with faithful peers and end
// equal to the source at the sync point (and stay in lockstep for a few blocks).
func (d *driver) raceTwins(c0, c1 int, seed uint64) error {
	if c1 <= c0 {
		return nil
	}
	d.o.Labelf("raced-feed-commits:%s", bucket(c1-c0))
	rnd := prng(seed ^ 0x5ace)
	picks := map[int]bool{c0 + 1 + rnd.intn(c1-c0): true, c0 + 1 + rnd.intn(c1-c0): true}
	for k := range picks {
		t, err := d.n.crashCopy(k)
		who := fmt.Sprintf("node crashed in the state stage keeping %d of the %d commits made while a batch was added with the periodic flush racing", k-c0, c1-c0)
		if err != nil {
			return fmt.Errorf("%s: node does not start: %v", who, err)
		}
		td := &driver{c: d.c, o: d.o, src: d.src, n: t, peerH: d.peerH, capH: d.capH, plain: true, trusted: d.trusted}
		td.stats.restartStage = map[string]int{}
		err = func() error {
			if err := td.attach(who); err != nil {
				return err
			}
			if err := td.run(); err != nil {
				return fmt.Errorf("%s: %v", who, err)
			}
			if err := td.atSyncPoint(who); err != nil {
				return err
			}
			return td.lockstep(who, min(d.src.P+3, d.src.total), false)
		}()
		td.n.close()
		d.o.Units(1)
		d.o.Label("raced-feed-crash-twin")
		if err != nil {
			return err
		}
	}
	return nil
}

var stageRank = map[string]int{"none": 0, "headers": 1, "state": 2, "blocks": 3, "inactive": 4}

func (d *driver) run() error {
	steps := d.c.Steps
	budget := 6000
	for i := 0; d.mod.IsActive(); i++ {
		if budget--; budget < 0 {
			return fmt.Errorf("node stuck: state sync not completed after 6000 events (stage %s, header height %d, %d unknown nodes)", d.stage(), d.n.bc.HeaderHeight(), len(d.unknown()))
		}
		var st Step
		if i < len(steps) && !d.plain {
			st = steps[i]
		} else {
			// termination phase: plain feeding (the peer grows on demand inside feedHeaders)
			st = Step{Kind: "feed", A: 4, B: 20, Seed: uint64(i)}
		}
		before := d.stage()
		switch st.Kind {
		case "grow":
			d.peerH = min(d.peerH+uint32(st.A), d.growCap())
			continue
		case "flush":
			if err := d.n.bc.VerifPersist(); err != nil {
				return fmt.Errorf("persist: %v", err)
			}
			d.stats.flushes++
			d.pointSaved = true
			continue
		case "restart", "crash":
			kind := st.Kind
			if kind == "crash" && d.n.rec == nil {
				kind = "restart"
			}
			if d.kF1 && !d.c.Storage && (before == "state" || before == "blocks") {
				d.o.Excluded()
				d.o.Label("known:statesync-reinit-shared-node")
				continue
			}
			var ub []util.Uint256
			hh := d.n.bc.HeaderHeight()
			if before == "state" && !d.c.Storage {
				ub = d.unknown()
			}
			if kind == "restart" {
				if err := d.n.restart(); err != nil {
					return fmt.Errorf("restart in stage %s: node does not start: %v", before, err)
				}
				d.stats.restarts++
				d.pointSaved = true
			} else {
				t, err := d.n.crashCopy(d.n.rec.Count())
				if err != nil {
					return fmt.Errorf("crash in stage %s (%d commits kept): node does not start: %v", before, d.n.rec.Count(), err)
				}
				d.n.close()
				d.n = t
				d.stats.crashes++
			}
			if before == "state" {
				if kind == "restart" {
					d.stats.restartsMPT++
				} else {
					d.stats.crashesMPT++
				}
			}
			d.stats.restartStage[kind+"@"+before]++
			if err := d.attach(kind + " in stage " + before); err != nil {
				return err
			}
			after := d.stage()
			if kind == "restart" {
				// A graceful restart flushes everything: nothing may be lost.
				if stageRank[after] < stageRank[before] && before != "none" {
					return fmt.Errorf("graceful restart moved the node from stage %q back to %q", before, after)
				}
				if d.n.bc.HeaderHeight() != hh {
					return fmt.Errorf("graceful restart in stage %s changed the header height from %d to %d", before, hh, d.n.bc.HeaderHeight())
				}
				if ub != nil && after == "state" {
					if ua := d.unknown(); hashesKey(ua) != hashesKey(ub) {
						return fmt.Errorf("graceful restart in the MPT stage changed the set of unknown nodes: %d before, %d after (before %s; after %s)", len(ub), len(ua), clipS(hashesKey(ub)), clipS(hashesKey(ua)))
					}
				}
			}
			continue
		}
		// feed
		var err error
		switch before {
		case "headers":
			err = d.feedHeaders(st)
		case "state":
			racing := st.Race && !d.plain && d.n.rec != nil
			var stopFlusher func()
			c0 := 0
			if racing {
				c0 = d.n.rec.Count()
				stopFlusher = d.n.startFlusher()
			}
			if d.c.Storage {
				err = d.feedStorage(st)
			} else {
				err = d.feedMPT(st)
			}
			if racing {
				stopFlusher()
				if err == nil {
					err = d.raceTwins(c0, d.n.rec.Count(), st.Seed)
				}
			}
		case "blocks":
			err = d.feedBlock(st)
		default:
			err = fmt.Errorf("active module in stage %q", before)
		}
		if err != nil {
			return err
		}
		if err := d.getters("after feeding in stage " + before); err != nil {
			return err
		}
		if after := d.stage(); stageRank[after] < stageRank[before] {
			return fmt.Errorf("feeding moved the node from stage %q back to %q", before, after)
		}
	}
	return nil
}

// growCap bounds the peer's height: within P's interval until the sync point is saved, below P+2*interval afterwards
// (a later Init then keeps the saved point; beyond that the module asks for a database drop by documentation).
func (d *driver) growCap() uint32 {
	if d.pointSaved {
		return d.capH
	}
	return min(d.capH, d.src.P+uint32(d.c.Chain.StateSyncInterval)-1)
}

func clipS(s string) string {
	if len(s) > 300 {
		return s[:300] + "..."
	}
	return s
}

func (d *driver) feedHeaders(st Step) error {
	bc := d.n.bc
	hh := bc.HeaderHeight()
	if hh >= d.peerH {
		// the server requests headers only from a higher peer; the peer eventually grows
		d.peerH = min(d.peerH+1, d.growCap())
		if hh >= d.peerH {
			return fmt.Errorf("harness: peer cannot grow beyond %d while headers are needed (header height %d, P %d)", d.capH, hh, d.src.P)
		}
	}
	from := hh + 1
	if st.Gap && !d.plain && hh+2+uint32(st.A) <= d.peerH {
		from = hh + 2 + uint32(st.A)
	} else {
		st.Gap = false
		from -= min(uint32(st.A), hh) // overlap / repeat of known headers (never below 1)
		if from < 1 {
			from = 1
		}
	}
	to := min(from+uint32(max(st.B, 1))-1, d.peerH)
	if to < hh+1 && !st.Gap {
		to = min(hh+1, d.peerH)
	}
	var hs []*block.Header
	for i := from; i <= to; i++ {
		h := d.src.blk(i).Header
		hs = append(hs, &h)
	}
	d.stats.hdrCalls++
	d.o.Units(1)
	err := d.mod.AddHeaders(hs...)
	nh := bc.HeaderHeight()
	if st.Gap {
		d.o.Label("headers-gap-chunk")
		if err == nil {
			return fmt.Errorf("AddHeaders accepted headers %d..%d that do not connect to header height %d", from, to, hh)
		}
		if nh != hh {
			return fmt.Errorf("rejected AddHeaders(%d..%d) changed the header height from %d to %d", from, to, hh, nh)
		}
		return nil
	}
	if err != nil {
		return fmt.Errorf("AddHeaders(%d..%d) of genuine headers failed at header height %d (sync point %d): %v", from, to, hh, d.src.P, err)
	}
	if nh != max(hh, to) {
		return fmt.Errorf("AddHeaders(%d..%d) at header height %d left header height %d", from, to, hh, nh)
	}
	if from <= hh {
		d.o.Label("headers-overlap")
	}
	if to == d.src.P {
		d.o.Label("headers-chunk-ends-at-P")
	}
	if nh > d.src.P {
		d.pointSaved = true // AddHeaders persists synchronously when the headers stage ends
	}
	if need := d.mod.NeedHeaders(); need != (nh <= d.src.P) {
		return fmt.Errorf("header height %d, sync point %d, but NeedHeaders() = %v", nh, d.src.P, need)
	}
	return nil
}

func (d *driver) feedMPT(st Step) error {
	unk := d.unknown()
	if len(unk) == 0 {
		return errors.New("NeedStorageData() is true but GetUnknownMPTNodesBatch returns nothing")
	}
	rnd := prng(st.Seed)
	// No unknown node may already be in the node's store (it would be restored twice): ask the node itself, the
	// way it serves peers.
	for i := 0; i < 6 && i < len(unk); i++ {
		h := unk[rnd.intn(len(unk))]
		found := false
		if err := d.mod.Traverse(h, func(mpt.Node, []byte) bool { found = true; return true }); err == nil && found {
			return fmt.Errorf("GetUnknownMPTNodesBatch names node %s which the node already stores", h.StringBE())
		}
	}
	for _, h := range unk {
		if _, ok := d.src.nodesP[h]; !ok {
			return fmt.Errorf("GetUnknownMPTNodesBatch names %s which is not a node of the trie at the sync point", h.StringBE())
		}
	}
	// the request: a subset of the pool (the pool iterates a Go map; any subset may be asked for)
	k := min(max(st.A, 1), len(unk))
	idx := map[int]bool{}
	var req []util.Uint256
	for len(req) < k {
		j := rnd.intn(len(unk))
		if !idx[j] {
			idx[j] = true
			req = append(req, unk[j])
		}
	}
	// (not at the start of the stage, when the pool holds just the root and its first descendants)
	final := !d.plain && d.c.FinalBad != 0 && !d.finalDone && d.mptCallsStage >= 8 && len(unk) <= max(d.c.FinalAt, 1)
	if final {
		// Ask for everything that is left and get complete subtrees: this batch completes the trie.
		req = unk
		st.B = 1 << 30
		st.Dup, st.Shuffle, st.Wrong = 0, false, []int{d.c.FinalBad}
		d.finalDone = true
	}
	resp, err := d.src.serve(req, max(st.B, 1))
	if err != nil {
		return err
	}
	type item struct {
		b     []byte
		wrong int
		orig  util.Uint256
	}
	var items []item
	for _, b := range resp {
		items = append(items, item{b: bytes.Clone(b)})
	}
	if !d.plain {
		for i := 0; i < st.Dup && len(resp) > 0; i++ {
			items = append(items, item{b: bytes.Clone(resp[rnd.intn(len(resp))])})
		}
		for _, w := range st.Wrong {
			switch w {
			case 1: // altered byte in a node that is asked for
				h := req[rnd.intn(len(req))]
				b := bytes.Clone(d.src.nodesP[h])
				b[rnd.intn(len(b))] ^= byte(1 << uint(rnd.intn(8)))
				items = append(items, item{b: b, wrong: 1, orig: h})
			case 2:
				if len(d.src.other) > 0 {
					items = append(items, item{b: bytes.Clone(d.src.other[rnd.intn(len(d.src.other))]), wrong: 2})
				}
			case 3:
				h := d.src.order[rnd.intn(len(d.src.order))]
				items = append(items, item{b: bytes.Clone(d.src.nodesP[h]), wrong: 3})
			case 4: // a node asked for, cut short
				h := req[rnd.intn(len(req))]
				b := bytes.Clone(d.src.nodesP[h])
				items = append(items, item{b: b[:len(b)-1-rnd.intn(min(3, len(b)-1))], wrong: 4, orig: h})
			case 5: // the (valid) serialisation of an empty node: nothing that can be asked for
				items = append(items, item{b: []byte{0x04}, wrong: 5})
			case 6: // a node asked for, answered only in a non-canonical form: one child is serialised inline instead
				// of by hash. The node's hash (taken over the canonical form) is the expected one, but accepting it
				// would leave the inlined child unrequested and unstored.
				for try := 0; try < 8; try++ {
					k := rnd.intn(len(items))
					h := hashOfNode(items[k].b)
					if items[k].wrong != 0 || d.src.nodesP[h] == nil {
						continue
					}
					if nb, ok := inlineChild(items[k].b, d.src.nodesP, rnd.intn(17)); ok {
						for j := range items { // every copy of the node in this answer
							if items[j].wrong == 0 && bytes.Equal(items[j].b, d.src.nodesP[h]) {
								items[j] = item{b: bytes.Clone(nb), wrong: 6, orig: h}
							}
						}
						break
					}
				}
			}
		}
		if st.Shuffle {
			for i := len(items) - 1; i > 0; i-- {
				j := rnd.intn(i + 1)
				items[i], items[j] = items[j], items[i]
			}
		}
	}
	var nodes [][]byte
	altered := false
	for _, it := range items {
		nodes = append(nodes, it.b)
		if it.wrong != 0 {
			d.stats.wrong++
			d.o.Labelf("wrong-node:%d", it.wrong)
		}
		if it.wrong == 1 || it.wrong == 4 || it.wrong == 5 || it.wrong == 6 {
			altered = true
		}
	}
	d.stats.mptCalls++
	d.mptCallsStage++
	d.o.Units(len(nodes))
	err = d.mod.AddMPTNodes(nodes)
	if err != nil && !altered {
		return fmt.Errorf("AddMPTNodes failed on a batch of %d genuine nodes of the source (requested %d, %d unknown before): %v", len(nodes), len(req), len(unk), err)
	}
	if err != nil {
		d.o.Label("altered-node-rejected-with-error")
	} else if altered {
		d.o.Label("altered-node-ignored")
	}
	// Progress: when the batch was processed completely, every requested node that was delivered must be gone from the pool.
	if d.mod.NeedStorageData() {
		after := map[util.Uint256]bool{}
		for _, h := range d.unknown() {
			after[h] = true
		}
		if err == nil {
			delivered := map[util.Uint256]bool{}
			for _, b := range resp {
				delivered[hashOfNode(b)] = true
			}
			for _, h := range req {
				if delivered[h] && after[h] {
					return fmt.Errorf("node %s was requested, delivered and accepted without error, but is still unknown", h.StringBE())
				}
			}
		}
	} else if len(d.unknown()) != 0 {
		return fmt.Errorf("MPT stage is over but %d nodes are still unknown", len(d.unknown()))
	} else if final {
		d.o.Label("completing-batch-with-bad-tail")
		if err != nil {
			d.o.Label("completing-batch-returned-error")
		}
	}
	return nil
}

// inlineChild rewrites the serialisation of a branch or extension node so that one of its by-hash children (the
// first one at or after position `from` that the source knows) is serialised inline: type byte + payload of the child
// instead of 0x03 + hash. ok is false when the node has no such child.
func inlineChild(b []byte, nodes map[util.Uint256][]byte, from int) ([]byte, bool) {
	if len(b) == 0 {
		return nil, false
	}
	type ent struct{ off int }
	var ents []ent
	i := 1
	switch b[0] {
	case 0x00: // branch: 17 children
		for c := 0; c < 17 && i < len(b); c++ {
			switch b[i] {
			case 0x03:
				ents = append(ents, ent{i})
				i += 33
			case 0x04:
				i++
			default:
				return nil, false
			}
		}
	case 0x01: // extension: key, child
		if len(b) < 2 || b[1] >= 0xfd {
			return nil, false
		}
		i = 2 + int(b[1])
		if i < len(b) && b[i] == 0x03 {
			ents = append(ents, ent{i})
		}
	default:
		return nil, false
	}
	for k := 0; k < len(ents); k++ {
		e := ents[(from+k)%len(ents)]
		if e.off+33 > len(b) {
			continue
		}
		var h util.Uint256
		copy(h[:], b[e.off+1:e.off+33])
		// hashes are stored big-endian in node serialisations; the map is keyed by the value
		child := nodes[h]
		if child == nil {
			hr := h.Reverse()
			child = nodes[hr]
		}
		if child == nil {
			continue
		}
		out := append([]byte{}, b[:e.off]...)
		out = append(out, child...)
		out = append(out, b[e.off+33:]...)
		return out, true
	}
	return nil, false
}

func hashOfNode(b []byte) util.Uint256 {
	// The hash of an MPT node is the double SHA-256 of its serialisation.
	return hash.DoubleSha256(b)
}

func (d *driver) feedStorage(st Step) error {
	if !d.storageInit {
		if err := d.mod.InitContractStorageSync(state.MPTRoot{Index: d.src.P, Root: d.src.rootP}); err != nil {
			return fmt.Errorf("InitContractStorageSync(%d, %s) failed: %v", d.src.P, d.src.rootP.StringLE(), err)
		}
		d.storageInit = true
	}
	last := d.mod.GetLastStoredKey()
	start := 0
	if len(last) > 0 {
		start = -1
		for i, kv := range d.src.kvP {
			if bytes.Equal(kv.Key, last) {
				start = i + 1
				break
			}
		}
		if start < 0 {
			return fmt.Errorf("GetLastStoredKey() = %x is not a key of the state at the sync point", last)
		}
	}
	if start >= len(d.src.kvP) {
		return fmt.Errorf("all %d storage items were delivered but NeedStorageData() is still true (last stored key %x)", len(d.src.kvP), last)
	}
	end := min(start+max(st.B, 1), len(d.src.kvP))
	var batch []storage.KeyValue
	for _, kv := range d.src.kvP[start:end] {
		batch = append(batch, storage.KeyValue{Key: bytes.Clone(kv.Key), Value: bytes.Clone(kv.Value)})
	}
	d.stats.mptCalls++
	d.o.Units(len(batch))
	if err := d.mod.AddContractStorageItems(batch); err != nil {
		return fmt.Errorf("AddContractStorageItems(items %d..%d of %d) failed: %v", start, end-1, len(d.src.kvP), err)
	}
	if got := d.mod.GetLastStoredKey(); !bytes.Equal(got, batch[len(batch)-1].Key) {
		return fmt.Errorf("GetLastStoredKey() = %x after storing a batch ending with %x", got, batch[len(batch)-1].Key)
	}
	if done := !d.mod.NeedStorageData(); done != (end == len(d.src.kvP)) {
		return fmt.Errorf("%d of %d storage items delivered, NeedStorageData() = %v", end, len(d.src.kvP), !done)
	}
	return nil
}

func (d *driver) feedBlock(st Step) error {
	next := d.mod.BlockHeight() + 1
	if next > d.src.P {
		return fmt.Errorf("NeedBlocks() with module block height %d at sync point %d", next-1, d.src.P)
	}
	try := func(i uint32, what string) error {
		err := d.mod.AddBlock(d.src.blk(i))
		d.o.Label("block-" + what)
		if bh := d.mod.BlockHeight(); bh != next-1 {
			return fmt.Errorf("AddBlock(%d) (%s block, expected %d) moved the module's block height to %d (err %v)", i, what, next, bh, err)
		}
		return nil
	}
	if !d.plain {
		switch st.A % 3 {
		case 1:
			if next > 1 {
				if err := try(max(next-1-min(uint32(st.Seed%3), next-2), 1), "old"); err != nil {
					return err
				}
			}
		case 2:
			if next+1 <= d.src.P {
				if err := try(next+1, "future"); err != nil {
					return err
				}
			}
		}
	}
	d.stats.blkCalls++
	d.o.Units(1)
	if next == d.src.P && d.jumpHook != nil {
		d.jumpHook()
	}
	var stopFlusher func()
	if next == d.src.P && d.c.RaceJump && !d.plain && d.n.rec != nil {
		stopFlusher = d.n.startFlusher()
		d.o.Label("jump-raced-by-the-periodic-flush")
	}
	if st.Forge != 0 && !d.plain {
		forged := d.src.blk(next)
		if st.Forge == 1 {
			forged.Script.VerificationScript = []byte{0x11}
			forged.Script.InvocationScript = []byte{}
		} else if n := len(forged.Script.InvocationScript); n > 10 {
			inv := bytes.Clone(forged.Script.InvocationScript)
			inv[5+int(st.Seed%uint64(n-10))] ^= 0x10
			forged.Script.InvocationScript = inv
		}
		if err := d.mod.AddBlock(forged); err == nil {
			return fmt.Errorf("AddBlock(%d) accepts a copy of the genuine block with a forged witness (kind %d; sync point %d, first block of the blocks stage %v): the hash of a block does not cover its witness", next, st.Forge, d.src.P, next == d.mod.BlockHeight())
		}
		if bh := d.mod.BlockHeight(); bh != next-1 {
			return fmt.Errorf("a refused block with a forged witness moved the module's block height to %d", bh)
		}
		d.o.Labelf("forged-witness-%d-refused", st.Forge)
	}
	genuine := d.src.blk(next)
	if d.c.AltWitness && ck.AltBlockWitness(genuine) {
		d.o.Label("genuine-block-with-another-valid-witness")
	}
	err := d.mod.AddBlock(genuine)
	if stopFlusher != nil {
		stopFlusher()
	}
	if err != nil {
		return fmt.Errorf("AddBlock(%d) of the genuine next block failed (sync point %d): %v", next, d.src.P, err)
	}
	if next < d.src.P {
		if bh := d.mod.BlockHeight(); bh != next {
			return fmt.Errorf("after AddBlock(%d) the module's block height is %d", next, bh)
		}
	} else if d.mod.IsActive() {
		return fmt.Errorf("last block %d added but the module is still active (stage %s)", next, d.stage())
	}
	return nil
}

// ---- oracle -------------------------------------------------------------------------------------------------------

// nodeMultiset walks the whole trie below root on the given chain.
func nodeMultiset(bc *core.Blockchain, root util.Uint256) (map[util.Uint256]int, error) {
	m := map[util.Uint256]int{}
	err := walk(bc, root, func(h util.Uint256, _ []byte) { m[h]++ })
	return m, err
}

func storageDiff(want, got map[string][]byte) string {
	var out []string
	for k, v := range want {
		g, ok := got[k]
		if !ok {
			out = append(out, fmt.Sprintf("missing %s", k))
		} else if !bytes.Equal(g, v) {
			out = append(out, fmt.Sprintf("%s: %x vs %x", k, g, v))
		}
	}
	for k := range got {
		if _, ok := want[k]; !ok {
			out = append(out, fmt.Sprintf("extra %s", k))
		}
	}
	sort.Strings(out)
	if len(out) > 6 {
		out = append(out[:6], "...")
	}
	return strings.Join(out, "; ")
}

// atSyncPoint checks a node that claims to have completed the sync.
func (d *driver) atSyncPoint(who string) error {
	bc := d.n.bc
	P := d.src.P
	if h := bc.BlockHeight(); h != P {
		return fmt.Errorf("%s: state sync completed but the node is at height %d, sync point %d", who, h, P)
	}
	sr, err := bc.GetStateModule().GetStateRoot(P)
	if err != nil {
		return fmt.Errorf("%s: no state root at the sync point %d: %v", who, P, err)
	}
	if sr.Root != d.src.rootP {
		return fmt.Errorf("%s: state root at %d is %s, source has %s", who, P, sr.Root.StringLE(), d.src.rootP.StringLE())
	}
	if diff := ck.Diff(d.src.dumpP, ck.FullDump(bc, nil)); diff != "" {
		return fmt.Errorf("%s: state at the sync point %d differs from the source (source vs synced): %s", who, P, diff)
	}
	ms, err := nodeMultiset(bc, d.src.rootP)
	if err != nil {
		return fmt.Errorf("%s: the synced trie at %d cannot be traversed: %v", who, P, err)
	}
	if len(ms) != len(d.src.visits) {
		return fmt.Errorf("%s: synced trie at %d has %d distinct nodes, source %d", who, P, len(ms), len(d.src.visits))
	}
	for h, c := range d.src.visits {
		if ms[h] != c {
			return fmt.Errorf("%s: node %s is visited %d times in the synced trie, %d times in the source's", who, h.StringBE(), ms[h], c)
		}
	}
	m := bc.GetStateSyncModule()
	if m.IsActive() {
		if err := m.Init(d.peerH); err != nil {
			return fmt.Errorf("%s: Init(%d) on the synced node failed: %v", who, d.peerH, err)
		}
		if m.IsActive() {
			return fmt.Errorf("%s: a fresh module on the synced node is still active after Init", who)
		}
	}
	if u := m.GetUnknownMPTNodesBatch(10); len(u) != 0 {
		return fmt.Errorf("%s: %d unknown MPT nodes on the synced node", who, len(u))
	}
	return nil
}

// explain replays the source blocks 1..h on a fresh node and reports how the synced node's state differs from it
// (diagnostics for a failure message only).
func (d *driver) explain(h uint32) string {
	ref, err := ck.NewNode(d.c.Chain, ck.NodeCfg{Backend: "mem"}, nil)
	if err != nil {
		return ""
	}
	defer ref.Close()
	for i := uint32(1); i <= h; i++ {
		if err := ref.BC.AddBlock(d.src.blk(i)); err != nil {
			return fmt.Sprintf("; (a replaying node rejects block %d: %v)", i, err)
		}
	}
	return "; replayed node vs synced node: " + ck.Diff(ck.FullDump(ref.BC, nil), ck.FullDump(d.n.bc, nil))
}

// lockstep feeds blocks P+1..upTo through ordinary block processing and compares roots.
func (d *driver) lockstep(who string, upTo uint32, sched bool) error {
	for i := d.src.P + 1; i <= upTo; i++ {
		if err := d.n.bc.AddBlock(d.src.blk(i)); err != nil {
			return fmt.Errorf("%s: synced node rejects block %d of the source: %v", who, i, err)
		}
		sr, err := d.n.bc.GetStateModule().GetStateRoot(i)
		if err != nil {
			return fmt.Errorf("%s: no state root for block %d: %v", who, i, err)
		}
		if want := d.src.root(i); sr.Root != want {
			return fmt.Errorf("%s: state root of block %d is %s, source has %s%s", who, i, sr.Root.StringLE(), want.StringLE(), d.explain(i))
		}
		d.o.Units(1)
		if !sched || int(i) >= len(d.c.Tail) {
			continue
		}
		if d.c.Tail[i]&1 != 0 {
			if err := d.n.bc.VerifPersistAndGC(); err != nil {
				return fmt.Errorf("%s: persist+GC after block %d: %v", who, i, err)
			}
		}
		if d.c.Tail[i]&2 != 0 {
			if d.kF3 && d.trusted == 0 {
				d.o.Excluded()
				d.o.Label("known:statesync-restart-lt2000-headers")
				continue
			}
			d.o.Label("restart-after-sync")
			if err := d.n.restart(); err != nil {
				return fmt.Errorf("%s: restart after block %d: %v", who, i, err)
			}
			if h := d.n.bc.BlockHeight(); h != i {
				return fmt.Errorf("%s: restarted after block %d, node is at %d", who, i, h)
			}
		}
	}
	return nil
}

func checkSCase(c SCase, o *vt.Obs) error {
	I := c.Chain.StateSyncInterval
	if I < 1 || len(c.Blocks) == 0 {
		return nil
	}
	total := uint32(len(c.Blocks) + 2)
	initAt := uint32(min(max(c.InitAt, 2*I), int(total)-1))
	P := (initAt / uint32(I)) * uint32(I)
	if P < 2*uint32(I) || P+1 > total {
		o.Label("chain-too-short")
		return nil
	}

	// ---- source ----
	b, err := ck.NewBuilder(c.Chain)
	if err != nil {
		return fmt.Errorf("builder: %v", err)
	}
	defer b.Close()
	src := &source{b: b, srih: c.Chain.SRIH, total: total, P: P}
	boot, err := b.Bootstrap()
	if err != nil {
		return fmt.Errorf("bootstrap: %v", err)
	}
	src.raws = append(src.raws, boot...)
	for _, spec := range c.Blocks {
		raw, _, err := b.BuildBlock(spec)
		if err != nil {
			return fmt.Errorf("build block %d: %v", len(src.raws)+1, err)
		}
		src.raws = append(src.raws, raw)
		if uint32(len(src.raws)) == P {
			src.dumpP = ck.FullDump(b.N.BC, nil)
			src.mtbP = b.N.BC.GetMaxTraceableBlocks()
		}
	}
	src.dumpT = ck.FullDump(b.N.BC, nil)
	if err := src.prepare(); err != nil {
		return err
	}
	if b.Excluded > 0 { // responses to requests whose transaction is no longer traceable: listed known finding
		o.Excluded()
		o.Label("excluded/" + ck.KnownOracleOrigTx)
	}
	for _, l := range b.FlowLabels() {
		o.Label("history/" + l)
	}
	shared := false
	for _, v := range src.visits {
		if v > 1 {
			shared = true
		}
	}

	// ---- syncing node ----
	cfg := c.Chain.Blockchain(c.Node)
	if c.Storage {
		cfg.P2PStateExchangeExtensions = false
		cfg.NeoFSStateSyncExtensions = true
		cfg.NeoFSBlockFetcher.Enabled = true
		cfg.NeoFSStateFetcher.Enabled = true
	}
	// TrustedHeader: NewBlockchain wants Index > max(2*StateSyncInterval, MaxTraceableBlocks); every block of the blocks
	// stage (P-MTB(P)+1..P) must lie at or above it.
	var trusted uint32
	tooRecent := false // the trusted header is above the first block of the blocks stage
	switch {
	case c.TrustedHigh > 0 && vt.Known(knownTrustedTooRecent):
		o.Excluded()
		o.Label("excluded/" + knownTrustedTooRecent)
	case c.TrustedHigh > 0:
		mtb := max(src.mtbP, c.Chain.MTB)
		lo := max(uint32(2*I), c.Chain.MTB) + 1
		first := uint32(1)
		if P > mtb {
			first = P - mtb + 1
		}
		lo = max(lo, first)
		if hi := min(P+2, initAt); lo <= hi {
			trusted = lo + uint32(c.TrustedHigh)%(hi-lo+1)
			cfg.TrustedHeader = config.HashIndex{Hash: src.blk(trusted).Hash(), Index: trusted}
			tooRecent = trusted > first
			switch {
			case !tooRecent:
				o.Label("trusted-header: the first block of the blocks stage")
			case trusted <= P:
				o.Label("trusted-header-too-recent: above the first block of the blocks stage, at or below P")
			default:
				o.Labelf("trusted-header-too-recent: P+%d", trusted-P)
			}
		} else {
			o.Label("trusted-header-infeasible")
		}
	case c.Trusted > 0:
		mtb := max(src.mtbP, c.Chain.MTB)
		lo := max(uint32(2*I), c.Chain.MTB) + 1
		if P > mtb && lo <= P-mtb {
			trusted = lo + uint32(c.Trusted)%(P-mtb-lo+1)
			cfg.TrustedHeader = config.HashIndex{Hash: src.blk(trusted).Hash(), Index: trusted}
			o.Label("trusted-header")
		} else {
			o.Label("trusted-header-infeasible")
		}
	}
	n, err := newSyncNode(cfg, c.Node.Backend)
	if err != nil {
		if tooRecent {
			o.Label("trusted-header-too-recent: refused by NewBlockchain")
			return nil
		}
		return fmt.Errorf("syncing node: %v", err)
	}
	d := &driver{c: c, o: o, src: src, n: n, peerH: initAt, capH: min(total, P+2*uint32(I)-1), trusted: trusted,
		kF1: vt.Known("statesync-reinit-shared-node"), kF2: vt.Known("statesync-crash-before-jump"), kF3: vt.Known("statesync-restart-lt2000-headers")}
	d.stats.restartStage = map[string]int{}
	defer func() { d.n.close() }()
	if err := d.attach("start"); err != nil {
		if ie := (initError{}); tooRecent && errors.As(err, &ie) {
			o.Label("trusted-header-too-recent: refused by Init")
			return nil
		}
		return err
	}
	if tooRecent {
		o.Label("trusted-header-too-recent: accepted (the synchronisation must complete)")
	}
	if !d.mod.IsActive() || !d.mod.NeedHeaders() {
		return fmt.Errorf("fresh node after Init(%d): stage %s, expected to need headers", initAt, d.stage())
	}
	if c.Storage {
		o.Label("mode:storage")
	} else {
		o.Label("mode:mpt")
	}
	o.Label("backend:" + c.Node.Backend)

	// Everything up to (not including) the last block of the blocks stage; the last AddBlock triggers the jump and is
	// handled apart so that its commits can be enumerated.
	var twins []*driver
	cBefore, cAfter := -1, -1
	d.jumpHook = func() {
		if d.n.rec != nil {
			cBefore = d.n.rec.Count()
		}
	}
	if err := d.run(); err != nil {
		return err
	}
	if d.n.rec != nil && cBefore >= 0 {
		cAfter = d.n.rec.Count()
	}
	if err := d.atSyncPoint("synced node"); err != nil {
		return err
	}

	// ---- crash points inside the last AddBlock + jump ----
	// k commits survive, everything written only to the in-memory layers afterwards is lost. k = cAfter is the window
	// right behind the jump: its last commit (which removes the stage marker) is on disk, nothing is resumed on
	// start, and whatever the jump or the module wrote after that commit is gone. That point is examined for every
	// memory-backed case (MPT and storage mode alike), the points in between when CrashJump is drawn. cAfter was
	// read when AddBlock returned, before any flush issued by the harness.
	if cBefore >= 0 && cAfter > cBefore {
		from := cAfter
		if c.CrashJump {
			from = cBefore
			o.Label("jump-crash-enumeration")
		}
		o.Label("crash-right-after-jump")
		for k := from; k <= cAfter; k++ {
			if (d.kF1 && !c.Storage && k <= cBefore+1) || (d.kF2 && k == cBefore+1) || (d.kF3 && trusted == 0 && k >= cBefore+4) {
				o.Excluded()
				o.Label("known:jump-crash-point-skipped")
				continue
			}
			t, err := d.n.crashCopy(k)
			if err != nil {
				return fmt.Errorf("crash inside the final AddBlock/jump keeping %d of its %d commits: node does not start: %v", k-cBefore, cAfter-cBefore, err)
			}
			td := &driver{c: c, o: o, src: src, n: t, peerH: d.peerH, capH: d.capH, plain: true, trusted: trusted}
			td.stats.restartStage = map[string]int{}
			twins = append(twins, td)
			who := fmt.Sprintf("node crashed inside the final AddBlock/jump keeping %d of its %d commits", k-cBefore, cAfter-cBefore)
			err = func() error {
				if err := td.attach(who); err != nil {
					return err
				}
				if td.mod.IsActive() {
					o.Labelf("jump-crash-resumes-sync:%s", td.stage())
				} else if t.bc.BlockHeight() == P {
					o.Label("jump-crash-completed-on-open")
				}
				if !td.mod.IsActive() && t.bc.BlockHeight() != P {
					h := t.bc.BlockHeight()
					regular := t.bc.AddBlock(src.blk(h + 1))
					return fmt.Errorf("%s: after restart the state sync module is inactive but the node is at height %d (sync point %d, header height %d): the sync is neither resumed nor completed; ordinary processing of block %d then gives: %v", who, h, P, t.bc.HeaderHeight(), h+1, regular)
				}
				if err := td.run(); err != nil {
					return fmt.Errorf("%s: %v", who, err)
				}
				if err := td.atSyncPoint(who); err != nil {
					return err
				}
				upTo := min(P+3, total)
				if k == cAfter {
					upTo = min(P+8, total)
				}
				return td.lockstep(who, upTo, false)
			}()
			td.n.close()
			o.Units(1)
			if err != nil {
				return err
			}
		}
	}

	// ---- lockstep with the source from P on ----
	if err := d.lockstep("synced node", total, true); err != nil {
		return err
	}
	if err := d.n.bc.VerifPersistAndGC(); err != nil {
		return err
	}
	if diff := ck.Diff(src.dumpT, ck.FullDump(d.n.bc, nil)); diff != "" {
		return fmt.Errorf("final state at height %d differs from the source (source vs synced): %s", total, diff)
	}
	// Exactly one of the two contract storage prefixes may be populated once the jump is over and flushed (the old
	// state must not linger under the spare prefix).
	if d.n.rec != nil {
		cnt := [2]int{}
		for i, pfx := range []storage.KeyPrefix{storage.STStorage, storage.STTempStorage} {
			d.n.rec.Store.Seek(storage.SeekRange{Prefix: []byte{byte(pfx)}}, func(_, _ []byte) bool { cnt[i]++; return true })
		}
		if cnt[0] != 0 && cnt[1] != 0 {
			return fmt.Errorf("after the state jump both storage prefixes are populated in the database (%d items under STStorage, %d under STTempStorage): stale state was left behind", cnt[0], cnt[1])
		}
	}
	want, err := nodeMultiset(b.N.BC, src.root(total))
	if err != nil {
		return fmt.Errorf("source trie at %d: %v", total, err)
	}
	got, err := nodeMultiset(d.n.bc, src.root(total))
	if err != nil {
		return fmt.Errorf("the latest trie (height %d) of the synced node cannot be traversed after garbage collection: %v", total, err)
	}
	if len(got) != len(want) {
		return fmt.Errorf("latest trie of the synced node has %d distinct nodes, source %d", len(got), len(want))
	}

	// ---- classification ----
	for k, v := range d.stats.restartStage {
		if v > 0 {
			o.Label(k)
		}
	}
	if shared {
		o.Label("shared-node")
	}
	if d.stats.wrong > 0 {
		o.Label("wrong-data")
	}
	if initAt == P {
		o.Label("peer-exactly-at-P")
	}
	if total > P {
		o.Labelf("tail-blocks:%s", bucket(int(total-P)))
	}
	o.Labelf("trie-nodes:%s", bucket(len(src.nodesP)))
	if d.stats.restartsMPT+d.stats.crashesMPT > 0 && d.stats.wrong > 0 && shared && !c.Storage {
		o.NonTrivial()
	}
	return nil
}

func bucket(n int) string {
	switch {
	case n < 10:
		return "<10"
	case n < 50:
		return "10-49"
	case n < 150:
		return "50-149"
	case n < 400:
		return "150-399"
	}
	return ">=400"
}
