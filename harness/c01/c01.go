// Package c01 checks property C01: replicated state transition is deterministic and restart-transparent.
package c01

import (
	"fmt"

	"github.com/nspcc-dev/neo-go/pkg/core/native/noderoles"
	"github.com/nspcc-dev/neo-go/pkg/core/transaction"
	"github.com/nspcc-dev/neo-go/pkg/io"
	"pgregory.net/rapid"
	ck "verifharness/chainkit"
	"verifharness/vt"
)

// Replica is one node-local configuration plus its flush / restart schedule.
type Replica struct {
	Opts  ck.NodeCfg `json:"opts"`
	Sched []int      `json:"sched"` // per generated block: bit0 flush, bit1 restart, bit2 flush+GC tick (applied after the block)
	Pool  int        `json:"pool"`  // 0 empty mempool, 1 pre-filled with the next block's txs, 2 with unrelated valid txs
}

// Case is a history plus replicas.
type Case struct {
	Chain    ck.ChainCfg    `json:"chain"`
	Blocks   []ck.BlockSpec `json:"blocks"`
	Extras   [][]ck.Action  `json:"extras"` // per block: valid txs built at that height but not included (mempool noise)
	Replicas []Replica      `json:"replicas"`
}

func isGov(b ck.BlockSpec) bool {
	for _, a := range b.Txs {
		switch a.Kind {
		case "vote", "register", "register_pay", "unregister", "policy", "neo_transfer":
			return true
		}
	}
	return false
}

func genReplica(t *rapid.T, blocks []ck.BlockSpec, allowDisk bool) Replica {
	nblocks := len(blocks)
	r := Replica{Pool: rapid.IntRange(0, 2).Draw(t, "pool")}
	backends := []string{"mem", "mem", "mem"}
	if allowDisk {
		backends = []string{"mem", "mem", "bolt", "leveldb"}
	}
	r.Opts.Backend = rapid.SampledFrom(backends).Draw(t, "backend")
	switch rapid.IntRange(0, 3).Draw(t, "mode") {
	case 1:
		r.Opts.KeepOnlyLatest = true
	case 2:
		r.Opts.RemoveUntraceable = true
		r.Opts.GCPeriod = uint32(rapid.IntRange(1, 5).Draw(t, "gcp"))
	case 3:
		r.Opts.KeepOnlyLatest = true
		r.Opts.RemoveUntraceable = true
		r.Opts.GCPeriod = uint32(rapid.IntRange(1, 5).Draw(t, "gcp"))
	}
	r.Opts.NoVerifyTx = rapid.IntRange(0, 3).Draw(t, "noverify") == 0
	r.Opts.SaveStorageBatch = rapid.IntRange(0, 3).Draw(t, "ssb") == 0
	r.Opts.SaveInvocations = rapid.IntRange(0, 2).Draw(t, "saveinv") == 0
	style := rapid.IntRange(0, 5).Draw(t, "style") // 0 never flush, 1 every block, 2/3 drawn, 4/5 restart/flush right after governance blocks
	for i := 0; i < nblocks; i++ {
		s := 0
		switch style {
		case 1:
			s = 1
		case 2, 3:
			s = rapid.SampledFrom([]int{0, 0, 0, 1, 1, 2, 4, 4, 6}).Draw(t, "s")
		case 4, 5:
			if isGov(blocks[i]) {
				s = rapid.SampledFrom([]int{2, 2, 1, 6, 0}).Draw(t, "s")
			}
		}
		r.Sched = append(r.Sched, s)
	}
	return r
}

func genCase(t *rapid.T) Case {
	c := Case{Chain: ck.GenChainCfg(t, true)}
	if rapid.IntRange(0, 3).Draw(t, "genesis_roles") == 0 { // roles designated in the genesis block (NeoGo extension)
		c.Chain.GenesisRoles = rapid.IntRange(1, 15).Draw(t, "roles_mask")
	}
	bias := ck.BalancedBias(c.Chain.P2PSig)
	bias.Governance = 6
	n := rapid.IntRange(3, 28).Draw(t, "nblocks")
	for i := 0; i < n; i++ {
		c.Blocks = append(c.Blocks, ck.GenBlock(t, bias, 5))
		var ex []ck.Action
		for j := rapid.IntRange(0, 2).Draw(t, "nextra"); j > 0; j-- {
			ex = append(ex, ck.GenAction(t, bias))
		}
		c.Extras = append(c.Extras, ex)
	}
	// Governance storyline (generator aimed at committee recalculation): a candidate registers, gets votes,
	// and later its account is blocked / it unregisters / the voter moves its NEO.
	if n >= 4 && rapid.IntRange(0, 2).Draw(t, "story") == 0 {
		cand := rapid.IntRange(0, ck.NCandidates+1).Draw(t, "story_cand")
		voter := rapid.IntRange(0, ck.NAccounts-1).Draw(t, "story_voter")
		i := rapid.IntRange(0, n-3).Draw(t, "story_at")
		j := rapid.IntRange(i+2, n-1).Draw(t, "story_end")
		nonce := rapid.Uint32().Draw(t, "story_nonce")
		c.Blocks[i].Txs = append(c.Blocks[i].Txs, ck.Action{Kind: "register", From: ck.NAccounts + cand%ck.NCandidates, A: cand, Nonce: nonce})
		c.Blocks[i+1].Txs = append(c.Blocks[i+1].Txs, ck.Action{Kind: "vote", From: voter, A: cand, Nonce: nonce + 1})
		end := ck.Action{From: rapid.IntRange(0, ck.NAccounts-1).Draw(t, "story_payer"), Nonce: nonce + 2}
		switch rapid.IntRange(0, 3).Draw(t, "story_kind") {
		case 0, 1:
			end.Kind, end.S, end.A = "policy", "blockCandidate", cand
		case 2:
			end.Kind, end.A = "unregister", cand
		default:
			end.Kind, end.S, end.A = "policy", "blockAccount", voter
		}
		c.Blocks[j].Txs = append(c.Blocks[j].Txs, end)
	}
	// Re-election storyline (aimed at per-candidate cached values that must die with the candidate): the genesis
	// holder votes a candidate into the committee, rewards accrue for some blocks, the candidate loses the votes
	// and unregisters (its records are dropped), later it registers again and is voted in again.
	reelect := -1
	cs, _ := c.Chain.Sizes()
	if rapid.IntRange(0, 5).Draw(t, "reelect") == 0 {
		for len(c.Blocks) < 3*cs+12 {
			c.Blocks = append(c.Blocks, ck.GenBlock(t, bias, 2))
			c.Extras = append(c.Extras, nil)
		}
		n = len(c.Blocks)
		cand := rapid.IntRange(0, ck.NCandidates-1).Draw(t, "re_cand")
		nonce := rapid.Uint32().Draw(t, "re_nonce")
		at := rapid.IntRange(0, 2).Draw(t, "re_at")
		drop := at + 2 + cs + rapid.IntRange(1, 3).Draw(t, "re_hold")
		again := drop + 2 + rapid.IntRange(0, 2).Draw(t, "re_gap")
		add := func(i int, a ck.Action) {
			if i < n {
				a.Nonce = nonce
				nonce++
				c.Blocks[i].Txs = append(c.Blocks[i].Txs, a)
			}
		}
		add(at, ck.Action{Kind: "register", From: ck.NAccounts + cand, A: cand})
		add(at+1, ck.Action{Kind: "vote", From: ck.PValidators, A: cand})
		if rapid.Bool().Draw(t, "re_unvote_first") {
			add(drop, ck.Action{Kind: "vote", From: ck.PValidators, A: -1})
			add(drop+1, ck.Action{Kind: "unregister", From: ck.NAccounts + cand, A: cand})
		} else {
			add(drop, ck.Action{Kind: "unregister", From: ck.NAccounts + cand, A: cand})
			add(drop+1, ck.Action{Kind: "vote", From: ck.PValidators, A: -1})
		}
		add(again, ck.Action{Kind: "register", From: ck.NAccounts + cand, A: cand})
		add(again+1, ck.Action{Kind: "vote", From: ck.PValidators, A: cand})
		reelect = drop + 1
	}
	// Find storyline (aimed at range reads served by the backend): several items under one prefix are written,
	// later (after flushes on the replicas) a transaction iterates over them and returns what it found.
	if n >= 4 && rapid.IntRange(0, 3).Draw(t, "findstory") == 0 {
		ct := rapid.IntRange(0, 1).Draw(t, "fs_contract")
		pfx := rapid.SampledFrom([]string{"s", "st", "q"}).Draw(t, "fs_prefix")
		nonce := rapid.Uint32().Draw(t, "fs_nonce")
		i := rapid.IntRange(0, n-2).Draw(t, "fs_at")
		c.Blocks[i].Txs = append(c.Blocks[i].Txs, ck.Action{Kind: "multi_put", From: rapid.IntRange(0, 3).Draw(t, "fs_from"), A: ct, N: int64(rapid.IntRange(2, 7).Draw(t, "fs_n")), K: vt.Bytes(pfx), V: vt.Bytes("value-" + pfx), Nonce: nonce})
		for k := rapid.IntRange(1, 3).Draw(t, "fs_finds"); k > 0; k-- {
			j := rapid.IntRange(i+1, n-1).Draw(t, "fs_find_at")
			c.Blocks[j].Txs = append(c.Blocks[j].Txs, ck.Action{Kind: "invoke", S: "find", From: rapid.IntRange(0, 3).Draw(t, "fs_from2"), A: ct, K: vt.Bytes(pfx[:1]), N: int64(rapid.SampledFrom([]int{0, 0, 2, 4, 8, 16}).Draw(t, "fs_opts")), Nonce: nonce + uint32(k)})
		}
	}
	// Whitelist storyline (aimed at cached policy records that are updated in place): a fixed fee is set for a
	// contract method, changed later, and the method is invoked after each change.
	if n >= 5 && rapid.IntRange(0, 4).Draw(t, "wlstory") == 0 {
		ct := rapid.IntRange(0, 1).Draw(t, "wl_contract")
		nonce := rapid.Uint32().Draw(t, "wl_nonce")
		i := rapid.IntRange(0, n-4).Draw(t, "wl_at")
		j := rapid.IntRange(i+2, n-2).Draw(t, "wl_change")
		payer := 4 + rapid.IntRange(0, 1).Draw(t, "wl_payer")
		set := func(at int, fee int64, k uint32) {
			c.Blocks[at].Txs = append(c.Blocks[at].Txs, ck.Action{Kind: "policy", S: "setWhitelistFeeContract", From: payer, A: ct, K: vt.Bytes("put"), N: fee, Nonce: nonce + k})
		}
		use := func(at int, k uint32) {
			c.Blocks[at].Txs = append(c.Blocks[at].Txs, ck.Action{Kind: "invoke", S: "put", From: rapid.IntRange(0, 3).Draw(t, "wl_user"), A: ct, K: vt.Bytes("wl"), V: vt.Bytes("v"), Nonce: nonce + k})
		}
		set(i, rapid.SampledFrom([]int64{0, 1000, 5000000}).Draw(t, "wl_fee1"), 0)
		use(i+1, 1)
		set(j, rapid.SampledFrom([]int64{1, 77777, 20000000}).Draw(t, "wl_fee2"), 2)
		use(j+1, 3)
	}
	// Faulted-setter storyline (aimed at native caches that are updated in place): a committee setter changes a cached
	// value in a transaction that HALTs, a second transaction of the same block (or a later one) sets another value
	// and then throws. The running node must go on with the first value, like a node restarted afterwards.
	if n >= 3 && rapid.IntRange(0, 3).Draw(t, "fsstory") == 0 {
		nonce := rapid.Uint32().Draw(t, "fss_nonce")
		i := rapid.IntRange(0, n-2).Draw(t, "fss_at")
		payer := 4 + rapid.IntRange(0, 1).Draw(t, "fss_payer")
		type setter struct {
			kind, s string
			vals    []int64
		}
		st := rapid.SampledFrom([]setter{
			{"neo_set", "setGasPerBlock", []int64{1_0000_0000, 3_0000_0000, 7_0000_0000, 10_0000_0000}},
			{"neo_set", "setRegisterPrice", []int64{500_0000_0000, 900_0000_0000, 1200_0000_0000}},
			{"policy", "setFeePerByte", []int64{500, 2000, 3000}},
			{"policy", "setStoragePrice", []int64{50000, 200000, 300000}},
			{"policy", "setExecFeeFactor", []int64{20, 40, 50}},
			{"native_set", "Oracle.setPrice", []int64{2000_0000, 7000_0000, 1_0000_0000}},
			{"native_set", "Notary.setMaxNotValidBeforeDelta", []int64{30, 60, 100}},
		}).Draw(t, "fss_setter")
		v1 := rapid.SampledFrom(st.vals).Draw(t, "fss_v1")
		v2 := rapid.SampledFrom(st.vals).Draw(t, "fss_v2")
		same := rapid.IntRange(0, 2).Draw(t, "fss_sameblock") != 0
		c.Blocks[i].Txs = append(c.Blocks[i].Txs, ck.Action{Kind: st.kind, S: st.s, From: payer, N: v1, Nonce: nonce})
		j := i
		if !same {
			j = min(i+1, n-1)
		}
		c.Blocks[j].Txs = append(c.Blocks[j].Txs, ck.Action{Kind: st.kind, S: st.s, From: payer, N: v2, Nonce: nonce + 1, Fail: true})
	}
	// Nested-block storyline (aimed at native caches updated around a callback): a contract holds NEO and votes, its
	// payment callback is told to block ANOTHER account when GAS is minted to it, then the committee blocks the
	// contract's account: revoking its vote pays its reward, the callback runs in the middle of Policy.blockAccount.
	if n >= 5 && rapid.IntRange(0, 4).Draw(t, "nbstory") == 0 {
		ct := rapid.IntRange(0, 1).Draw(t, "nb_contract")
		cand := rapid.IntRange(0, ck.NCandidates-1).Draw(t, "nb_cand")
		other := rapid.IntRange(0, ck.NAccounts-1).Draw(t, "nb_other")
		nonce := rapid.Uint32().Draw(t, "nb_nonce")
		i := rapid.IntRange(0, n-5).Draw(t, "nb_at")
		put := func(at int, a ck.Action) {
			a.Nonce = nonce
			nonce++
			c.Blocks[min(at, n-1)].Txs = append(c.Blocks[min(at, n-1)].Txs, a)
		}
		put(i, ck.Action{Kind: "register", From: ck.NAccounts + cand, A: cand})
		put(i, ck.Action{Kind: "neo_transfer", From: ck.PValidators, A: ck.PContract0 + ct, N: int64(rapid.IntRange(1, 500).Draw(t, "nb_neo"))})
		put(i+1, ck.Action{Kind: "invoke", S: "vote_self", From: rapid.IntRange(0, 3).Draw(t, "nb_from"), A: ct, B: cand})
		put(i+1+rapid.IntRange(0, 1).Draw(t, "nb_set_d"), ck.Action{Kind: "invoke", S: "set_onmint", From: rapid.IntRange(0, 3).Draw(t, "nb_from2"), A: ct, B: other})
		put(i+3+rapid.IntRange(0, 1).Draw(t, "nb_blk_d"), ck.Action{Kind: "policy", S: "blockAccount", From: 4 + rapid.IntRange(0, 1).Draw(t, "nb_payer"), A: ck.PContract0 + ct})
	}
	// Oracle storyline (requests pending across flushes and restarts, answered later; the designated oracle nodes may
	// change in between; the callback stores the result, or throws after doing so).
	if n >= 3 && rapid.IntRange(0, 3).Draw(t, "orstory") == 0 {
		nonce := rapid.Uint32().Draw(t, "or_nonce")
		i := rapid.IntRange(0, n-2).Draw(t, "or_at")
		put := func(at int, a ck.Action) {
			a.Nonce = nonce
			nonce++
			c.Blocks[min(at, n-1)].Txs = append(c.Blocks[min(at, n-1)].Txs, a)
		}
		nreq := rapid.IntRange(1, 3).Draw(t, "or_nreq")
		for k := 0; k < nreq; k++ {
			a := ck.Action{From: rapid.IntRange(0, ck.NAccounts-1).Draw(t, "or_from")}
			ck.GenOracleRequest(t, &a)
			put(i, a)
		}
		if rapid.IntRange(0, 3).Draw(t, "or_redesignate") == 0 {
			put(i+rapid.IntRange(0, 2).Draw(t, "or_des_d"), ck.Action{Kind: "designate", From: rapid.IntRange(0, ck.NAccounts-1).Draw(t, "or_payer"), A: int(noderoles.Oracle), B: rapid.IntRange(1, 7).Draw(t, "or_keys")})
		}
		for k := rapid.IntRange(1, nreq).Draw(t, "or_nresp"); k > 0; k-- {
			a := ck.Action{}
			ck.GenOracleResponse(t, &a)
			put(i+rapid.IntRange(1, 4).Draw(t, "or_resp_d"), a)
		}
	}
	nr := rapid.IntRange(1, 3).Draw(t, "nreplicas")
	disk := rapid.IntRange(0, 2).Draw(t, "disk") == 0
	for i := 0; i < nr; i++ {
		c.Replicas = append(c.Replicas, genReplica(t, c.Blocks, disk))
	}
	if reelect >= 0 && reelect < len(c.Replicas[0].Sched) {
		// the first replica forgets everything it carried in memory once the candidate is gone
		c.Replicas[0].Sched[reelect] |= 2
	}
	return c
}

type refPoint struct {
	raw    []byte
	dump   ck.Dump
	aers   ck.Dump
	extras [][]byte
	nTx    int
}

func encodeTx(tx *transaction.Transaction) []byte {
	w := io.NewBufBinWriter()
	tx.EncodeBinary(w.BinWriter)
	return w.Bytes()
}

func checkCase(c Case, o *vt.Obs) error {
	b, err := ck.NewBuilder(c.Chain)
	if err != nil {
		return fmt.Errorf("builder: %v", err)
	}
	defer b.Close()
	boot, err := b.Bootstrap()
	if err != nil {
		return fmt.Errorf("bootstrap: %v", err)
	}
	cs, _ := c.Chain.Sizes()
	var pts []refPoint
	for _, raw := range boot {
		pts = append(pts, refPoint{raw: raw})
	}
	govInEpoch, govEpochCrossed := false, false
	nTx := 0
	for i, spec := range c.Blocks {
		var extras [][]byte
		if i < len(c.Extras) {
			for _, a := range c.Extras[i] {
				if tx, err := b.MakeTx(a); err == nil {
					extras = append(extras, encodeTx(tx))
				}
			}
		}
		raw, blk, err := b.BuildBlock(spec)
		if err != nil {
			return fmt.Errorf("block spec %d: %v", i, err)
		}
		nTx += len(blk.Transactions)
		for _, a := range spec.Txs {
			switch a.Kind {
			case "vote", "register", "register_pay", "unregister":
				govInEpoch = true
			case "policy":
				if a.S == "blockAccount" || a.S == "blockCandidate" || a.S == "unblockAccount" || a.S == "unblockCandidate" {
					govInEpoch = true
				}
			case "neo_transfer":
				govInEpoch = true
			}
		}
		if int(blk.Index)%cs == 0 {
			if govInEpoch {
				govEpochCrossed = true
			}
			govInEpoch = false
		}
		pts = append(pts, refPoint{
			raw:    raw,
			dump:   ck.FullDump(b.N.BC, nil),
			aers:   ck.AERs(b.N.BC, blk.Hash(), blk.Transactions, false),
			extras: extras,
			nTx:    len(blk.Transactions),
		})
	}
	o.Units(nTx)
	interesting := false
	backends := map[string]bool{"mem": true}
	for ri, rep := range c.Replicas {
		backends[rep.Opts.Backend] = true
		n, err := ck.NewNode(c.Chain, rep.Opts, nil)
		if err == nil {
			// the genesis block is executed by every node on its own
			g0, g1 := b.N.BC.GetHeaderHash(0), n.BC.GetHeaderHash(0)
			if g0 != g1 {
				n.Close()
				return fmt.Errorf("replica %d: genesis block %s, the reference node has %s", ri, g1.StringLE(), g0.StringLE())
			}
			if d := ck.Diff(ck.AERs(b.N.BC, g0, nil, false), ck.AERs(n.BC, g1, nil, false)); d != "" {
				n.Close()
				return fmt.Errorf("replica %d (%+v): execution results of the genesis block differ from the reference node's: %s", ri, rep.Opts, d)
			}
		}
		if err != nil {
			return fmt.Errorf("replica %d: cannot start: %v", ri, err)
		}
		err = func() error {
			defer n.Close()
			for pi, pt := range pts {
				gi := pi - len(boot) // index into generated blocks
				blk, err := ck.DecodeBlock(pt.raw, c.Chain.SRIH)
				if err != nil {
					return fmt.Errorf("decode block %d: %v", pi+1, err)
				}
				if gi >= 0 {
					switch rep.Pool {
					case 1:
						for _, tx := range blk.Transactions {
							cp, err := transaction.NewTransactionFromBytes(encodeTx(tx))
							if err == nil {
								_ = n.BC.PoolTx(cp)
							}
						}
					case 2:
						for _, raw := range pt.extras {
							if tx, err := transaction.NewTransactionFromBytes(raw); err == nil {
								_ = n.BC.PoolTx(tx)
							}
						}
					}
				}
				if err := n.BC.AddBlock(blk); err != nil {
					return fmt.Errorf("replica %d (%+v) rejects block %d accepted by the builder: %v", ri, rep.Opts, blk.Index, err)
				}
				if gi < 0 {
					continue
				}
				where := fmt.Sprintf("replica %d (%+v pool=%d) after block %d", ri, rep.Opts, rep.Pool, blk.Index)
				if d := ck.Diff(pt.dump, ck.FullDump(n.BC, nil)); d != "" {
					return fmt.Errorf("%s: state differs from the reference node: %s", where, d)
				}
				if d := ck.Diff(pt.aers, ck.AERs(n.BC, blk.Hash(), blk.Transactions, false)); d != "" {
					return fmt.Errorf("%s: execution results differ: %s", where, d)
				}
				s := 0
				if gi < len(rep.Sched) {
					s = rep.Sched[gi]
				}
				if s&4 != 0 {
					if err := n.BC.VerifPersistAndGC(); err != nil {
						return fmt.Errorf("%s: persist+GC: %v", where, err)
					}
				} else if s&1 != 0 {
					if err := n.BC.VerifPersist(); err != nil {
						return fmt.Errorf("%s: persist: %v", where, err)
					}
				}
				if s&2 != 0 {
					if err := n.Restart(); err != nil {
						return fmt.Errorf("%s: restart failed: %v", where, err)
					}
					o.Label("restart")
					if int(blk.Index)%cs == 0 {
						o.Label("restart-at-epoch-end")
					}
				}
				if s != 0 {
					if gi+1 < len(pts)-len(boot) {
						interesting = true
					}
					// Rebuilt-from-storage / flushed state must equal the carried one, before the next block.
					if d := ck.Diff(pt.dump, ck.FullDump(n.BC, nil)); d != "" {
						return fmt.Errorf("%s, after flush/restart (sched %d): state differs from the reference node: %s", where, s, d)
					}
				}
			}
			// Archival replicas: every historic state root equals the reference.
			if !rep.Opts.KeepOnlyLatest && !rep.Opts.RemoveUntraceable {
				for h := uint32(0); h <= n.BC.BlockHeight(); h++ {
					a, err1 := b.N.BC.GetStateRoot(h)
					r, err2 := n.BC.GetStateRoot(h)
					if err1 != nil || err2 != nil || a.Root != r.Root {
						return fmt.Errorf("replica %d: state root of height %d: %v/%v vs reference %v/%v", ri, h, r, err2, a, err1)
					}
				}
			}
			return nil
		}()
		if err != nil {
			return err
		}
	}
	o.Labelf("profile-%s", c.Chain.Profile)
	if c.Chain.GenesisRoles != 0 {
		o.Label("genesis-roles")
	}
	if govEpochCrossed {
		o.Label("gov-epoch-crossed")
	}
	if len(backends) > 1 {
		o.Label("two-backends")
		interesting = true
	}
	for _, l := range b.FlowLabels() {
		o.Label(l)
	}
	for k, v := range b.Rejected {
		if v > 0 {
			o.Label("rejected/" + k)
		}
	}
	if govEpochCrossed && interesting {
		o.NonTrivial()
	}
	return nil
}

func init() {
	vt.PropertyID = "C01"
	vt.Register("replicas", 1.0, genCase, checkCase)
}
