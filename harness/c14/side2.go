package c14

import "fmt"

// Constructs added after a review of the repairs of the function-value calls and of the tuple assignments: each is a
// sibling of a shape generated before, reached by the compiler on another path.
//
//	hv0(x), hz0()                       a call through a package variable of function type that another FILE of the package declares
//	lib.V0(x), lib.W0()                 ... that an imported package declares (stLibFunc in side.go)
//	convert.BytesToUint8(w.f())         a call through a field / a promoted method / a variable as the argument of a function the
//	                                    compiler inlines (the parameter is used twice in its body)
//	tickw().f(tick(7)), tickf()(tick(7)), fs[tick(1)](tick(7))
//	                                    calls in the operand that gives the function and in its arguments (Go: lexical order)
//	t, t.x = T1{...}, e                 a struct or array VARIABLE assigned together with its own field / element
//
// The helpers with effects (declared only in the programs that call them) move the counter g9 like tick does:
//
//	func tickb() []byte { g9++; return []byte{byte(g9 & 255)} }
//	func (t T1) tickm() []byte { g9++; return []byte{byte(g9 & 255)} }
//	func tfa(x int) int { return x + 1000 }        func tfb(x int) int { return x*2 + 1 }
//	func tickf() func(int) int { g9++; if g9&1 == 0 { return tfa }; return tfb }
//	func tickw() TFk { g9++; if g9&1 == 0 { return TFk{n: 1, f: tfa} }; return TFk{n: 2, f: tfb} }
//	func tickt(k int) (T1, int) { g9++; return T1{x: g9 & k, y: k}, g9&k + 100 }
//	func ticka(k int) ([3]int, int) { g9++; return [3]int{g9 & k, k, 3}, g9&k + 100 }
const (
	tickbName = "tickb"
	tickmName = "tickm"
	tickfName = "tickf"
	tickwName = "tickw"
	ticktName = "tickt"
	tickaName = "ticka"
	tfaName   = "tfa"
	tfbName   = "tfb"
	intFuncT  = "func(int) int"
	bytesFnT  = "func() []byte"
)

// funcStruct: the struct type TFk { n int; f <ft> } of the program (declared on first use).
func (g *gen) funcStruct(ft string) string {
	for _, sd := range g.pr.FuncStructs {
		if sd.Fields[1].Type == ft {
			return sd.Name
		}
	}
	sn := fmt.Sprintf("TF%d", len(g.pr.FuncStructs))
	g.pr.FuncStructs = append(g.pr.FuncStructs, StructDef{Name: sn, Fields: []Field{{Name: "n", Type: "int"}, {Name: "f", Type: ft}}})
	return sn
}

func retN(e ...*Node) *Node { return &Node{K: "return", A: e} }

func g9inc() *Node { return &Node{K: "incdec", S: "++", A: []*Node{vr(tickCtr)}} }

func stl(typ string, kv ...any) *Node {
	n := &Node{K: "stlit", T: typ}
	for i := 0; i+1 < len(kv); i += 2 {
		n.A = append(n.A, &Node{S: kv[i].(string), A: []*Node{kv[i+1].(*Node)}})
	}
	return n
}

// extraFuncs: the helpers of this file the program calls, and the package variables of function type made by stFuncVar.
func (g *gen) extraFuncs() []Func {
	var out []Func
	ir := []Field{{Type: "int"}}
	ip := []Field{{Name: "x", Type: "int"}}
	g9b := &Node{K: "slit", T: "[]byte", A: []*Node{{K: "conv", T: "byte", A: []*Node{bin("&", vr(tickCtr), ilit(255))}}}}
	even := bin("==", bin("&", vr(tickCtr), ilit(1)), ilit(0))
	iff := func(c *Node, then ...*Node) *Node {
		return &Node{K: "if", A: []*Node{none(), c}, B: []*Node{blk(then), none()}}
	}
	if g.tickbFn {
		out = append(out, Func{Name: tickbName, Results: []Field{{Type: "[]byte"}}, Body: []*Node{g9inc(), retN(g9b)}})
	}
	if g.tickmFn {
		out = append(out, Func{Name: tickmName, Recv: &Field{Name: "t", Type: "T1"}, Results: []Field{{Type: "[]byte"}}, Body: []*Node{g9inc(), retN(g9b)}})
	}
	if g.tickfFn || g.tickwFn {
		out = append(out,
			Func{Name: tfaName, Params: ip, Results: ir, Body: []*Node{retN(bin("+", vr("x"), ilit(1000)))}},
			Func{Name: tfbName, Params: ip, Results: ir, Body: []*Node{retN(bin("+", bin("*", vr("x"), ilit(2)), ilit(1)))}})
	}
	if g.tickfFn {
		out = append(out, Func{Name: tickfName, Results: []Field{{Type: intFuncT}}, Body: []*Node{
			g9inc(), iff(even, retN(vr(tfaName))), retN(vr(tfbName))}})
	}
	if g.tickwFn {
		sn := g.funcStruct(intFuncT)
		out = append(out, Func{Name: tickwName, Results: []Field{{Type: sn}}, Body: []*Node{
			g9inc(), iff(even, retN(stl(sn, "n", ilit(1), "f", vr(tfaName)))), retN(stl(sn, "n", ilit(2), "f", vr(tfbName)))}})
	}
	mk := bin("&", vr(tickCtr), vr("k"))
	kp := []Field{{Name: "k", Type: "int"}}
	if g.ticktFn {
		out = append(out, Func{Name: ticktName, Params: kp, Results: []Field{{Type: "T1"}, {Type: "int"}}, Body: []*Node{
			g9inc(), retN(stl("T1", "x", mk, "y", vr("k")), bin("+", mk, ilit(100)))}})
	}
	if g.tickaFn {
		out = append(out, Func{Name: tickaName, Params: kp, Results: []Field{{Type: "[3]int"}, {Type: "int"}}, Body: []*Node{
			g9inc(), retN(&Node{K: "alit", T: "[3]int", A: []*Node{mk, vr("k"), ilit(3)}}, bin("+", mk, ilit(100)))}})
	}
	out = append(out, g.extraFuncs3()...)
	for _, k := range g.fvOrder {
		out = append(out, *g.funcVars[k])
	}
	return out
}

// funcVar: the package variable of function type that holds `what` (made on first use): in the second file of the
// package when the program has one (most of the time), sometimes declared without a value and set by an init() function.
func (g *gen) funcVar(what string, mk func(name string) Func) *Func {
	if g.funcVars == nil {
		g.funcVars = map[string]*Func{}
	}
	if fv := g.funcVars[what]; fv != nil {
		if fv.ViaInit && g.f.noGlobals {
			return nil
		}
		return fv
	}
	f := mk(fmt.Sprintf("hv%d", len(g.fvOrder)))
	f.AsVar = true
	if g.file2 != "" && g.chance(75) {
		f.File2 = true
		g.file2Used = true
	}
	// (an init() function of a file that comes after prog.go would run after the init() functions that may call the variable)
	// ... nor may a function that the initialisers of package variables call (noGlobals) depend on an init() function
	if g.chance(20) && g.on(kMultiInit) && !(f.File2 && g.file2 > "prog.go") && !g.f.noGlobals {
		f.ViaInit = true
	}
	g.funcVars[what] = &f
	g.fvOrder = append(g.fvOrder, what)
	return &f
}

func (g *gen) markFuncVar(fv *Func, noargs bool) {
	l := "func-var-call"
	if fv.File2 {
		l += "-other-file"
	}
	if noargs {
		l += "-noargs"
	}
	g.mark(l)
	if fv.ViaInit {
		g.mark("func-var-set-by-init")
	}
}

// stFuncVar: a call through a package variable of function type that holds a declared function, t = hv0(args), or a
// literal without parameters, t = hv1().
func (g *gen) stFuncVar() *Node {
	t, ok := g.accTarget()
	if !ok || !g.room(8) || !g.on(kFuncVarFile) {
		return nil
	}
	var cs []*fsig
	for _, f := range g.callables([]string{"int"}, true) {
		if !g.pr.Funcs[f.idx].AsVar && f != g.f.sig {
			cs = append(cs, f)
		}
	}
	var call *Node
	if len(cs) > 0 && g.chance(85) {
		f := cs[g.n(len(cs), "fvf")]
		args, acc, ok := g.genArgs(f, 1)
		if !ok {
			return nil
		}
		g.noteExpr(acc)
		g.noteCall(f)
		fv := g.funcVar(f.name, func(name string) Func {
			return Func{Name: name, Alias: f.name, Params: f.params, Results: []Field{{Type: "int"}}}
		})
		if fv == nil {
			return nil
		}
		g.markFuncVar(fv, false)
		call = &Node{K: "call", S: fv.Name, A: args}
		if f.soft {
			g.f.sig.soft, g.f.sig.dirty = true, true
		}
	} else {
		fv := g.funcVar("#noargs", func(name string) Func {
			return Func{Name: name, Results: []Field{{Type: "int"}}, Body: []*Node{retN(ilit(smallInts[g.n(len(smallInts), "fvc")]))}}
		})
		if fv == nil {
			return nil
		}
		g.markFuncVar(fv, true)
		call = &Node{K: "call", S: fv.Name}
	}
	g.noteWrite(t)
	g.account(3)
	if g.chance(30) {
		return &Node{K: "assign", S: "+=", A: []*Node{t, bin("%", call, ilit(1009))}}
	}
	return &Node{K: "assign", S: "=", A: []*Node{t, call}}
}

// stConvertArg: v := int(convert.BytesToUint8(<call>)); acc += v. The compiler inlines the functions of the interop
// packages: an argument it takes for free of calls is not evaluated once into a local but compiled again at every use
// of the parameter, and BytesToUint8 uses its parameter twice. The call is one that moves the counter g9:
//
//	tickb()        w.f() with w := TFk{f: tickb}        v.tickm() declared on T1, v a T1 or (promoted) a T0        hv0() with var hv0 = tickb
func (g *gen) stConvertArg() *Node {
	if !g.tickOK() || !g.room(12) || g.f.inLambda || !g.on(kInlineArgCall) {
		return nil
	}
	// (a receiver of its own when no variable of the type is in sight)
	recv := func(typ string) *vinfo {
		c := append(g.varsOf(typ), g.varsOf("*"+typ)...)
		if len(c) > 0 {
			return c[g.n(len(c), "car")]
		}
		return nil
	}
	w := []int{8, 34, 0, 0, 26}
	if g.structDef("T1") != nil {
		w[2] = 12
		if sd := g.structDef("T0"); sd != nil && sd.Emb == "T1" && g.on(kPromotedMethod) {
			w[3] = 200
		}
	}
	var pre []*Node
	var call *Node
	k := g.weighted(w, "cak")
	switch k {
	case 0:
		g.tickbFn = true
		call = &Node{K: "call", S: tickbName}
		g.mark("inline-arg-func-call")
	case 1:
		g.tickbFn = true
		sn := g.funcStruct(bytesFnT)
		wn := g.newName(false)
		lit := stl(sn, "n", ilit(1), "f", vr(tickbName))
		if g.chance(40) {
			lit.S = "&"
		}
		pre = append(pre, &Node{K: "define", S: wn, A: []*Node{lit}})
		call = &Node{K: "call", S: wn + ".f"}
		g.mark("inline-arg-field-call")
	case 2, 3:
		g.tickmFn = true
		typ, lbl := "T1", "inline-arg-method-call"
		if k == 3 {
			typ, lbl = "T0", "inline-arg-promoted-method-call"
		}
		v := recv(typ)
		if v == nil {
			e, _ := g.genFreshOf(typ, 1)
			g.noteExpr(e)
			nm := g.newName(false)
			pre = append(pre, &Node{K: "define", S: nm, A: []*Node{e.n}})
			v = g.declare(nm, typ, e)
		}
		g.useVar(v)
		call = &Node{K: "mcall", S: tickmName, A: []*Node{vr(v.name)}}
		g.mark(lbl)
	default:
		g.tickbFn = true
		fv := g.funcVar(tickbName, func(name string) Func {
			return Func{Name: name, Alias: tickbName, Results: []Field{{Type: "[]byte"}}}
		})
		g.markFuncVar(fv, true)
		call = &Node{K: "call", S: fv.Name}
		g.mark("inline-arg-func-var-call")
	}
	g.tickUse()
	g.account(4)
	g.mark("inline-arg-call")
	nm := g.newName(false)
	conv := &Node{K: "conv", T: "int", A: []*Node{{K: "call", S: convertAlias + ".BytesToUint8", A: []*Node{call}}}}
	out := append(pre, &Node{K: "define", S: nm, A: []*Node{conv}})
	g.add(&vinfo{name: nm, typ: "int", lo: 0, hi: 255})
	if acc, ok := g.accTarget(); ok {
		g.noteWrite(acc)
		out = append(out, &Node{K: "assign", S: "+=", A: []*Node{acc, vr(nm)}})
	}
	return &Node{K: "seq", B: out}
}

// stFuncValueOrder: v := tickw().f(tick(7)) and its relatives: the operand that gives the function called and the
// argument both contain a call that moves g9. Go runs the calls of one expression in lexical order, the one in the function
// operand first.
func (g *gen) stFuncValueOrder() *Node {
	if !g.tickOK() || !g.room(14) || g.f.inLambda || !g.on(kFuncValueOrder) {
		return nil
	}
	arg := g.tickCall(7).n
	var pre []*Node
	var fun string
	switch g.weighted([]int{30, 25, 30, 15}, "fvo") {
	case 0:
		g.tickwFn = true
		g.funcStruct(intFuncT)
		fun = tickwName + "().f"
		g.mark("func-value-order-field")
	case 1:
		g.tickfFn = true
		fun = tickfName + "()"
		g.mark("func-value-order-result")
	case 2:
		g.tickfFn = true
		fs := g.newName(false)
		pre = append(pre, &Node{K: "define", S: fs, A: []*Node{{K: "slit", T: "[]" + intFuncT, A: []*Node{vr(tfaName), vr(tfbName)}}}})
		fun = fs + "[" + expr(g.tickCall(1).n) + "]"
		g.mark("func-value-order-index")
	default:
		g.tickfFn = true
		fun = "(" + tickfName + "())"
		g.mark("func-value-order-paren")
	}
	g.tickUse()
	g.account(4)
	g.mark("func-value-order")
	nm := g.newName(false)
	out := append(pre, &Node{K: "define", S: nm, A: []*Node{{K: "call", S: fun, A: []*Node{arg}}}})
	g.add(&vinfo{name: nm, typ: "int", lo: 0, hi: 1007})
	if acc, ok := g.accTarget(); ok {
		g.noteWrite(acc)
		out = append(out, &Node{K: "assign", S: "+=", A: []*Node{acc, vr(nm)}})
	}
	return &Node{K: "seq", B: out}
}

// stTupleValueVar: a variable of struct or array type assigned together with one of its own fields / elements:
//
//	t, t.x = T1{...}, e        t.x, t = e, T1{...}        t, t.y = tickt(3)        u.n, u.n.x = T1{...}, e
//	a, a[i] = [3]int{...}, e   a[i], a = e, [3]int{...}   a, a[i] = ticka(3)       m, m[i][j] = [2][3]int{...}, e
//
// t.x and a[i] are parts of the variable, not of a value read in the first phase of the assignment: Go stores from left to
// right, so the part assigned after the whole lands in the new value and the part assigned before it is overwritten.
func (g *gen) stTupleValueVar() *Node {
	if g.f.pure || !g.room(10) || !g.on(kTupleValueVar) {
		return nil
	}
	type cand struct {
		v    *vinfo
		base *Node  // the struct / array assigned as a whole
		typ  string // its type
	}
	var cs []cand
	var pre []*Node
	if sd := g.structDef("T0"); sd != nil && g.chance(20) {
		// a T0 of its own (held by value) for the nested form
		for _, f := range sd.Fields {
			if f.Type == "T1" {
				e, _ := g.genFreshOf("T0", 1)
				g.noteExpr(e)
				nm := g.newName(false)
				pre = append(pre, &Node{K: "define", S: nm, A: []*Node{e.n}})
				v := g.declare(nm, "T0", e)
				cs = append(cs, cand{v, &Node{K: "field", S: f.Name, A: []*Node{selBase(v)}}, "T1"})
				break
			}
		}
	}
	for _, v := range g.visible() {
		if !g.writable(v) || len(pre) > 0 {
			continue
		}
		switch {
		case v.typ == "T1":
			cs = append(cs, cand{v, vr(v.name), "T1"}, cand{v, vr(v.name), "T1"})
		case isArray(v.typ):
			cs = append(cs, cand{v, vr(v.name), v.typ}, cand{v, vr(v.name), v.typ})
		case baseStruct(v.typ) == "T0":
			// the struct held by value in a field of a variable (or of what a pointer points to)
			for _, f := range g.structDef("T0").Fields {
				if f.Type == "T1" {
					cs = append(cs, cand{v, &Node{K: "field", S: f.Name, A: []*Node{selBase(v)}}, "T1"})
				}
			}
		}
	}
	if len(cs) == 0 {
		return nil
	}
	c := cs[g.n(len(cs), "tvv")]
	g.useVar(c.v)
	g.noteWrite(c.base)
	var part, fold *Node
	switch {
	case c.typ == "T1":
		fld := []string{"x", "y"}[g.n(2, "tvf")]
		base := c.base
		if base.K == "var" {
			base = selBase(c.v)
		}
		part = &Node{K: "field", S: fld, A: []*Node{base}}
		fold = bin("+", &Node{K: "field", S: "x", A: []*Node{base}}, bin("*", &Node{K: "field", S: "y", A: []*Node{base}}, ilit(3)))
		switch {
		case c.base.K != "var" && c.v.typ[0] == '*':
			g.mark("tuple-value-var-pointer-field")
		case c.base.K != "var":
			g.mark("tuple-value-var-nested")
		default:
			g.mark("tuple-value-var-struct")
		}
	default:
		var acc ex
		part, acc = g.arrLoc(c.v, 1, -1)
		g.noteExpr(acc)
		fold = g.arrFold(c.v, constIndex(part))
		if c.typ == "[3]int" {
			g.mark("tuple-value-var-array")
		} else {
			g.mark("tuple-value-var-array-nested")
		}
	}
	var st *Node
	if (c.typ == "T1" || c.typ == "[3]int") && g.tickOK() && g.chance(75) {
		// one call gives both values
		g.tickUse()
		fn := ticktName
		if c.typ == "T1" {
			g.ticktFn = true
		} else {
			fn = tickaName
			g.tickaFn = true
		}
		st = &Node{K: "mret", S: "=", N: 2, A: []*Node{c.base, part, {K: "call", S: fn, A: []*Node{ilit([]int64{3, 7, 15}[g.n(3, "tvk")])}}}}
		g.mark("tuple-value-var-call")
	} else {
		var whole ex
		if c.typ == "T1" {
			whole, _ = g.genFreshOf("T1", 1)
		} else {
			whole = g.arrLit(c.typ, 1)
		}
		e := fitStore(g.genInt(1))
		g.noteExpr(whole)
		g.noteExpr(e)
		st = &Node{K: "tassign", S: "=", N: 2, A: []*Node{c.base, part, whole.n, e.n}}
		if g.chance(35) {
			st.A = []*Node{part, c.base, e.n, whole.n}
			g.mark("tuple-value-var-part-first")
		}
	}
	g.account(3)
	g.mark("tuple-assign-value-variable")
	out := append(pre, st)
	if acc, ok := g.accTarget(); ok {
		g.noteWrite(acc)
		out = append(out, &Node{K: "assign", S: "+=", A: []*Node{acc, bin("%", fold, ilit(1009))}})
	}
	return &Node{K: "seq", B: out}
}
