package c14

import (
	"encoding/json"
	"fmt"
	"os"
	"path/filepath"
	"sort"
	"strconv"
	"strings"
	"testing"

	"github.com/nspcc-dev/neo-go/pkg/compiler"
	"github.com/nspcc-dev/neo-go/pkg/smartcontract/scparser"

	"pgregory.net/rapid"
)

// TestDump prints generated programs (development aid): C14_DUMP=<n> [C14_DUMP_SEED=<s>].
func TestDump(t *testing.T) {
	n, _ := strconv.Atoi(os.Getenv("C14_DUMP"))
	if n == 0 {
		t.Skip("C14_DUMP not set")
	}
	seed, _ := strconv.Atoi(os.Getenv("C14_DUMP_SEED"))
	gen := rapid.Custom(genProg)
	for i := 0; i < n; i++ {
		p := gen.Example(seed + i)
		fmt.Printf("// ===== program %d feats=%v\n%s\n// --- harness\n%s\n", i, p.Feat, p.Source("p0"), harnessSource(&p, "p0"))
	}
}

// TestOne compiles the file named by C14_SRC and runs C14_FN with the integer arguments C14_ARGS (comma separated).
func TestOne(t *testing.T) {
	src := os.Getenv("C14_SRC")
	if src == "" {
		t.Skip("C14_SRC not set")
	}
	b, err := os.ReadFile(src)
	if err != nil {
		t.Fatal(err)
	}
	nf, di, err := compiler.CompileWithOptions(src, strings.NewReader(string(b)), nil)
	if err != nil {
		fmt.Println("COMPILE ERROR:", err)
		return
	}
	var args []Arg
	for _, a := range strings.Split(os.Getenv("C14_ARGS"), ",") {
		if a == "" {
			continue
		}
		v, _ := strconv.ParseInt(a, 10, 64)
		args = append(args, Arg{T: "int", I: v})
	}
	off, ioff := -1, -1
	for _, m := range di.Methods {
		if m.ID == os.Getenv("C14_FN") {
			off = int(m.Range.Start)
		}
		if m.ID == "_initialize" {
			ioff = int(m.Range.Start)
		}
	}
	if os.Getenv("C14_DIS") != "" {
		ctx := scparser.NewContext(nf.Script, 0)
		for ctx.NextIP() < len(nf.Script) {
			op, par, _ := ctx.Next()
			fmt.Printf("%4d %s %x\n", ctx.IP(), op, par)
		}
	}
	for _, m := range di.Methods {
		fmt.Printf("debug method %-12s range %d..%d params %d\n", m.ID, m.Range.Start, m.Range.End, len(m.Parameters))
	}
	r := runVM(nf.Script, off, ioff, -1, args, "int")
	fmt.Printf("VM: fault=%q depth=%d val=%s type=%s\n", r.fault, r.depth, r.val, r.typ)
}

// TestSrc prints the sources of a saved case (C14_CASE=<replay file>).
func TestSrc(t *testing.T) {
	f := os.Getenv("C14_CASE")
	if f == "" {
		t.Skip("C14_CASE not set")
	}
	b, _ := os.ReadFile(f)
	var env struct {
		Case Case `json:"case"`
	}
	if err := json.Unmarshal(b, &env); err != nil {
		t.Fatal(err)
	}
	for i := range env.Case.Progs {
		fmt.Printf("// ===== program %d\n%s\n", i, env.Case.Progs[i].Source(pkgName(i)))
	}
}

// TestFindingsGo (development aid, C14_VERIFY_FINDINGS=1) runs every reproduction of known.go with the standard Go
// toolchain and with neo-go and prints both outcomes next to the recorded expectation.
func TestFindingsGo(t *testing.T) {
	if os.Getenv("C14_VERIFY_FINDINGS") == "" {
		t.Skip("C14_VERIFY_FINDINGS not set")
	}
	if err := goSetup(); err != nil {
		t.Fatal(err)
	}
	dir, err := os.MkdirTemp(goWork, "find")
	if err != nil {
		t.Fatal(err)
	}
	defer os.RemoveAll(dir)
	_ = os.WriteFile(filepath.Join(dir, "go.mod"), []byte("module c14mod\n\ngo 1.25.0\n"), 0o644)
	for i, f := range findings {
		if f.Fn == "" {
			f.Fn, f.Res = "Main", "int"
		}
		pd := filepath.Join(dir, pkgName(i))
		_ = os.MkdirAll(pd, 0o755)
		src := strings.Replace(f.Src, "package foo", "package "+pkgName(i), 1)
		_ = os.WriteFile(filepath.Join(pd, "prog.go"), []byte(src), 0o644)
		pr := &Prog{Funcs: []Func{{Name: f.Fn, Results: []Field{{Type: f.Res}}}}, Calls: []Call{{F: 0, Args: f.Args}}}
		_ = os.WriteFile(filepath.Join(pd, "harness.go"), []byte(harnessSource(pr, pkgName(i))), 0o644)
	}
	_ = os.WriteFile(filepath.Join(dir, "main.go"), []byte(mainSource(len(findings))), 0o644)
	res, err := runGo(dir, len(findings))
	if err != nil {
		t.Fatal(err)
	}
	for i, f := range findings {
		goGot := strings.TrimPrefix(res.lines[i][0], "OK ")
		mark := ""
		if goGot != f.GoWant {
			mark = "   <<<<< recorded expectation is WRONG"
		}
		vm := runFinding(f)
		div := "DIVERGES"
		if vm == goGot {
			div = "agrees"
		}
		fmt.Printf("%-28s Go=%-8s recorded=%-8s neo-go=%-40s %s%s\n", f.Key, goGot, f.GoWant, vm, div, mark)
	}
}

// TestFindingsJSON (development aid, C14_FINDINGS_JSON=1) prints the entries proposed for known_findings.json.
func TestFindingsJSON(t *testing.T) {
	if os.Getenv("C14_FINDINGS_JSON") == "" {
		t.Skip("C14_FINDINGS_JSON not set")
	}
	seen := map[string]bool{}
	for _, f := range findings {
		if seen[f.Key] {
			continue
		}
		seen[f.Key] = true
		b, _ := json.Marshal(map[string]string{"property": "C14", "key": f.Key, "status": "known", "what": "known: property=C14 " + f.What})
		fmt.Printf("  %s,\n", b)
	}
}

// TestIsolate (development aid, C14_CASE=<replay file> C14_OUT=<file>) writes a case that holds only the first program
// of a saved failing case that fails on its own (regression files stay small and name one program).
func TestIsolate(t *testing.T) {
	f, out := os.Getenv("C14_CASE"), os.Getenv("C14_OUT")
	if f == "" || out == "" {
		t.Skip("C14_CASE / C14_OUT not set")
	}
	b, _ := os.ReadFile(f)
	var env struct {
		Case Case `json:"case"`
	}
	if err := json.Unmarshal(b, &env); err != nil {
		t.Fatal(err)
	}
	for i := range env.Case.Progs {
		c := Case{Progs: []Prog{env.Case.Progs[i]}}
		err := checkCase(c, nil)
		for k := 0; k < 6 && err == nil && os.Getenv("C14_RETRY") != ""; k++ {
			err = checkCase(c, nil) // (a compiler that is not deterministic fails only now and then)
		}
		if err == nil {
			continue
		}
		raw, _ := json.Marshal(c)
		e, _ := json.MarshalIndent(map[string]any{"property": "C14", "check": "diff", "case": json.RawMessage(raw)}, "", " ")
		if err := os.WriteFile(out, e, 0o644); err != nil {
			t.Fatal(err)
		}
		fmt.Printf("program %d fails alone: %s\n", i, firstLine(err.Error()))
		return
	}
	t.Fatal("no program of the case fails alone")
}

// TestCount (development aid, C14_COUNT=<n>): how many of n generated programs carry each label.
func TestCount(t *testing.T) {
	n, _ := strconv.Atoi(os.Getenv("C14_COUNT"))
	if n == 0 {
		t.Skip("C14_COUNT not set")
	}
	gen := rapid.Custom(genProg)
	cnt := map[string]int{}
	for i := 0; i < n; i++ {
		p := gen.Example(i)
		for _, f := range p.Feat {
			cnt[f]++
		}
	}
	var ks []string
	for k := range cnt {
		ks = append(ks, k)
	}
	sort.Strings(ks)
	pre := strings.Split(os.Getenv("C14_COUNT_PREFIX"), ",")
	for _, k := range ks {
		for _, p := range pre {
			if strings.HasPrefix(k, p) {
				fmt.Printf("%-42s %5d %5.1f%%\n", k, cnt[k], 100*float64(cnt[k])/float64(n))
				break
			}
		}
	}
}
