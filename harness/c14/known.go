package c14

import (
	"fmt"
	"strings"

	"github.com/nspcc-dev/neo-go/pkg/smartcontract/manifest"
)

// finding is a minimal reproduction of a divergence between the Go meaning of a program and the behaviour of the
// compiled contract. GoWant is what the standard toolchain produces (verified once with `go run`, see the
// FindingsGoSource helper); the probe re-runs the neo-go side.
type finding struct {
	Key    string
	What   string
	Src    string
	Fn     string
	Args   []Arg
	Res    string // result type of Fn
	GoWant string // "PANIC" or the value in the notation of the differential check
}

var findings = []finding{
	{kEarlyDefault, "switch: a default clause that is not the last one is moved to the end before code generation (codegen.go:980-986), so clauses after it are tested in a different order and fallthrough reaches the wrong clause",
		`package foo

func Main(a int) int {
	r := 0
	switch {
	case a > 10:
		r = 1
	default:
		r = 9
	case a > 5:
		r = 2
	case a > 0:
		r = 3
	}
	return r
}
`, "Main", []Arg{{T: "int", I: 7}}, "int", "i:2"},
	{kMapMissing, "m[k] for an absent key faults (PICKITEM) instead of yielding the zero value (codegen.go IndexExpr)",
		`package foo

func Main(a int) int {
	m := map[int]int{1: 2}
	return m[a] + 5
}
`, "Main", []Arg{{T: "int", I: 3}}, "int", "i:5"},
	{kStructAlias, "assigning a struct value (q := p), a value receiver, or a range value does not copy the struct: writes through the copy change the original",
		`package foo

type T struct {
	x int
}

func Main(a int) int {
	p := T{x: 1}
	q := p
	q.x = a
	return p.x
}
`, "Main", []Arg{{T: "int", I: 50}}, "int", "i:1"},
	{kDeferArg, "arguments of a deferred call are evaluated when the function exits, not at the defer statement (codegen.go processDefers walks the call expression at exit)",
		`package foo

var g int

func add(x int) {
	g += x
}

func f() int {
	x := 1
	defer add(x)
	x = 50
	return x
}

func Main(a int) int {
	r := f()
	return r*1000 + g
}
`, "Main", []Arg{{T: "int", I: 0}}, "int", "i:50001"},
	{kRecoverNamed, "after a recovered panic a function with named results returns zero values instead of the current values of the named results (codegen.go:1723-1731)",
		`package foo

func f(a int) (r int) {
	defer func() {
		recover()
	}()
	r = 7
	if a > 0 {
		panic("boom")
	}
	return r
}

func Main(a int) int {
	return f(a)
}
`, "Main", []Arg{{T: "int", I: 3}}, "int", "i:7"},
	{kDeferLoop, "a defer statement executed several times (in a loop) runs its call once",
		`package foo

var g int

func inc() {
	g++
}

func f() {
	for i := 0; i < 3; i++ {
		defer inc()
	}
}

func Main(a int) int {
	f()
	return g
}
`, "Main", []Arg{{T: "int", I: 0}}, "int", "i:3"},
	{kStringOrder, "ordering comparison of strings (<, <=, >, >=) compares the byte strings as little-endian integers",
		`package foo

func Main(a int) bool {
	s := "b"
	t := "ab"
	return s < t
}
`, "Main", []Arg{{T: "int", I: 0}}, "bool", "b:false"},
	{kGlobalOrder, "package variables are initialised in source order, not in dependency order",
		`package foo

var b = a + 1
var a = f()

func f() int {
	return 41
}

func Main(x int) int {
	return a*100 + b
}
`, "Main", []Arg{{T: "int", I: 0}}, "int", "i:4142"},
	{kRecoverHard, "recover() does not stop run-time errors other than index/key errors: division by zero (negative shift count, slice bounds) faults although a deferred function recovers",
		`package foo

var g int

func f(a int) int {
	defer func() {
		if r := recover(); r != nil {
			g = 5
		}
	}()
	x := 10 / a
	return x
}

func Main(a int) int {
	r := f(a)
	return r + g
}
`, "Main", []Arg{{T: "int", I: 0}}, "int", "i:5"},
	{kVarShadow, "var x T = <expression using an outer x>: the new variable is registered before its initialiser is compiled (codegen.go:738-745), so the initialiser reads the new, still unset variable",
		`package foo

func Main(a int) int {
	x := 10
	{
		var x int = x + 1
		a = x
	}
	return a
}
`, "Main", []Arg{{T: "int", I: 0}}, "int", "i:11"},
	{kConcatCmp, "a string produced by concatenation (+, +=) is a Buffer in the VM: ==, != and switch compare Buffers by reference, so comparing such a value (directly or after storing it in a variable) gives wrong answers; as a map key it faults",
		`package foo

func Main(a int) bool {
	s := "a"
	t := "b"
	return s+t == "ab"
}
`, "Main", []Arg{{T: "int", I: 0}}, "bool", "b:true"},
	{kDeferResult, "the result of a deferred call of a function with results is left on the evaluation stack",
		`package foo

func h() int {
	return 1
}

func Main(a int) int {
	defer h()
	return 7
}
`, "Main", []Arg{{T: "int", I: 0}}, "int", "i:7"},
	{kDeferSwallow, "a panic in a function that has a defer but does not call recover() is swallowed: the function returns zero values and the caller continues (no re-throw after the deferred calls, codegen.go processDefers)",
		`package foo

var g int

func f(a int) int {
	defer func() {
		g = 1
	}()
	if a > 0 {
		panic("x")
	}
	return 5
}

func Main(a int) int {
	return f(a) + 10
}
`, "Main", []Arg{{T: "int", I: 3}}, "int", "PANIC"},
	{kMultiInit, "with several init() functions only the last one is analysed for the use of package variables (analysis.go nodeCache is keyed by name): a variable used only in an earlier init() is dropped and read as an unset local",
		`package foo

var g0 int = 2
var g1 int
var g2 int

func init() {
	g0 *= g1 % 1009
}

func init() {
	v1 := g2
	_ = v1
}

func Main(a int) int {
	return g0
}
`, "Main", []Arg{{T: "int", I: 0}}, "int", "i:0"},
	{kMultiDefer, "with two or more defers in a function with results, a recovered panic makes the function return without pushing its (zero) results (defaults are emitted only in the catch block of the first defer, codegen.go:1723)",
		`package foo

func f(a int) int {
	defer func() {
		recover()
	}()
	defer func() {
		recover()
	}()
	if a > 0 {
		panic("x")
	}
	return 5
}

func Main(a int) int {
	return f(a) + 10
}
`, "Main", []Arg{{T: "int", I: 1}}, "int", "i:10"},
	{kResidue, "a panic raised in the middle of an expression (or inside a range loop / switch) and recovered leaves the operands (loop state) on the evaluation stack of the returning function; the same happens to the results already pushed by a return statement when a deferred call panics and an earlier defer recovers, and to the values of a tuple assignment not stored yet when a store faults (s[5], x = two(): since the stores run from left to right the value meant for x is still there)",
		`package foo

func Main(a int) int {
	defer func() {
		recover()
	}()
	s := []int{1}
	x := 7 + s[a]
	return x
}
`, "Main", []Arg{{T: "int", I: 1}}, "int", "i:0"},
}

func init() {
	findings = append(findings, finding{Key: kDebugUnused,
		What: "a function that is never compiled (unused) gets a debug info entry with the range 0..65535 when the script starts with an optimised-away INITSLOT (codegen.go correctRange + debug.go addMethodsToDebugInfo)",
		Src: `package foo

func unused() int {
	return 2
}

func Main() int {
	return 3
}
`, GoWant: "every debug info range lies in the script"})
}

func init() {
	findings = append(findings, finding{Key: kNilBytes,
		What: "string(b) of a nil []byte (zero value) stays Null in the VM: concatenating it faults (len and append of a nil slice are handled, the conversion is not)",
		Src: `package foo

func Main(a int) int {
	var b []byte
	s := string(b) + "x"
	return len(s)
}
`, Fn: "Main", Args: []Arg{{T: "int", I: 0}}, Res: "int", GoWant: "i:1"})
}

func init() {
	findings = append(findings, finding{Key: kAppendArgs,
		What: "append(s, a, b): the elements are appended one by one while the arguments are evaluated, so a later argument that reads s (len(s), s[i]) sees the elements appended before it (codegen.go convertBuiltin append); Go evaluates all arguments first",
		Src: `package foo

func Main(a int) int {
	s := []int{1, 2}
	s = append(s, 7, len(s))
	return s[3]
}
`, Fn: "Main", Args: []Arg{{T: "int", I: 0}}, Res: "int", GoWant: "i:2"})
}

func init() {
	findings = append(findings, finding{Key: kEarlyDefault,
		What: "switch: a default clause that is not the last one and ends with fallthrough makes the compiler panic (index out of range, codegen.go:1016: startLabels[i+1] after the default clause was moved to the end)",
		Src: `package foo

func Main(a int) int {
	r := 0
	switch a {
	case 1:
		r = 1
	default:
		r = 2
		fallthrough
	case 3:
		r += 10
	}
	return r
}
`, Fn: "Main", Args: []Arg{{T: "int", I: 7}}, Res: "int", GoWant: "i:12"})
}

func init() {
	findings = append(findings, finding{Key: kNestedRecov,
		What: "recover() in a function literal deferred by a function that is itself running as (or called from) a deferred call takes the panic of the outer frame: Go returns nil there (the literal is run by the normal return of the inner function, not by the panic sequence) and the outer panic goes on; the compiled code keeps the pending exception in one static slot shared by all frames (codegen.go convertBuiltin recover / processDefers), so the inner recover() clears it and nothing is thrown again",
		Src: `package foo

var g int

func f1() {
	defer func() {
		if r := recover(); r != nil {
			g = 1
		}
	}()
}

func f(a int) int {
	defer f1()
	if a > 0 {
		panic("x")
	}
	return 5
}

func Main(a int) int {
	return f(a) + 10
}
`, Fn: "Main", Args: []Arg{{T: "int", I: 1}}, Res: "int", GoWant: "PANIC"})
}

// Findings that came out of the side notes of the round-4 readers (generator: side.go). All of them had a small
// repair; the reproductions document what the unrepaired compiler did.
func init() {
	iarg := func(v int64) []Arg { return []Arg{{T: "int", I: v}} }
	findings = append(findings,
		finding{Key: kGoto, What: "goto is compiled to nothing (codegen.go BranchStmt: only break and continue emit a jump), so statements that should be skipped or repeated run in source order; repaired by refusing to compile goto",
			Src: `package foo

func Main(a int) int {
	i := 0
L:
	i++
	if i < 3 {
		goto L
	}
	return i + a
}
`, Fn: "Main", Args: iarg(0), Res: "int", GoWant: "i:3"},
		finding{Key: kCompoundIdx, What: "s[f()] += v and s[f()]++ evaluate the container and index expressions twice: once to load the element, once to store it (codegen.go AssignStmt / IncDecStmt + emitStoreIndexExpr)",
			Src: `package foo

var n int

func next() int {
	n++
	return n & 1
}

func Main(a int) int {
	s := []int{10, 20}
	s[next()] += 5
	return s[0]*1000 + s[1]*10 + n + a
}
`, Fn: "Main", Args: iarg(0), Res: "int", GoWant: "i:10251"},
		finding{Key: kTupleOrder, What: "a tuple assignment stores from right to left and evaluates the index operands on the left when it stores: s[i], i = 5, 2 writes s[2], and a, a = 1, 2 leaves 1 (Go: operands on the left first, then the right-hand side, then stores from left to right)",
			Src: `package foo

func Main(a int) int {
	s := []int{0, 0, 0}
	i := 0
	s[i], i = 5, 2
	x := 0
	x, x = 1, 2
	return s[0]*100 + s[2]*10 + x + a
}
`, Fn: "Main", Args: iarg(0), Res: "int", GoWant: "i:502"},
		finding{Key: kAppendSelf, What: "append(s, s...) never ends: the copy loop reads the length of the second argument on every iteration and both arguments are the same Array (FAULT: stack is too big)",
			Src: `package foo

func Main(a int) int {
	s := []int{1, 2}
	s = append(s, s...)
	return len(s)*10 + s[3] + a
}
`, Fn: "Main", Args: iarg(0), Res: "int", GoWant: "i:42"},
		finding{Key: kBytesLitOrder, What: "the non-constant elements of []byte{f(), g()} are evaluated in the order of a Go map iteration (codegen.go convertByteSliceOrArray): the calls run in a random order and two compilations of one source give different scripts",
			Src: `package foo

var n int

func next() int {
	n++
	return n
}

func Main(a int) int {
	b := []byte{byte(next()), byte(next()), byte(next()), byte(next())}
	return int(b[0])*1000 + int(b[1])*100 + int(b[2])*10 + int(b[3]) + a
}
`, Fn: "Main", Args: iarg(0), Res: "int", GoWant: "i:1234"},
		finding{Key: kRangeMapDel, What: "range over a map collects the keys first; an entry deleted by the loop body before it is reached is visited all the same: the value lookup faults (Key not found in Map), a loop without value variable runs its body for it",
			Src: `package foo

func Main(a int) int {
	m := map[int]int{1: 1, 2: 2, 3: 3}
	c := 0
	for k, v := range m {
		_ = v
		_ = k
		for k2 := range m {
			delete(m, k2)
		}
		c++
	}
	return c + a
}
`, Fn: "Main", Args: iarg(0), Res: "int", GoWant: "i:1"},
		finding{Key: kDeleteNilMap, What: "delete(m, k) with a nil map faults in REMOVE (Go: no-op)",
			Src: `package foo

func Main(a int) int {
	var m map[int]int
	delete(m, 1)
	return len(m) + 7 + a
}
`, Fn: "Main", Args: iarg(0), Res: "int", GoWant: "i:7"},
		finding{Key: kNamedRedecl, What: "r, x := 5, 6 at the top level of a function body assigns the named result r in Go (results and body share one scope); the compiler opened a new scope for the body and made a second r, so after a recovered panic the function returned the first one",
			Src: `package foo

func f(a int) (r int) {
	defer func() {
		recover()
	}()
	r, x := 5, 6
	_ = x
	if a > 0 {
		panic("boom")
	}
	return r
}

func Main(a int) int {
	return f(a)
}
`, Fn: "Main", Args: iarg(1), Res: "int", GoWant: "i:5"},
		finding{Key: kNilMapRead, What: "m[k] and v, ok := m[k] with a nil map fault in HASKEY (Go: zero value, false)",
			Src: `package foo

func Main(a int) int {
	var m map[int]int
	v, ok := m[a]
	if ok {
		return 1
	}
	return m[a] + v + 7
}
`, Fn: "Main", Args: iarg(0), Res: "int", GoWant: "i:7"},
		finding{Key: kAppendNil, What: "append(s, t...) with a nil slice t faults in SIZE (Go: nothing is appended)",
			Src: `package foo

func Main(a int) int {
	var t []int
	s := []int{1}
	s = append(s, t...)
	return len(s) + 6 + a
}
`, Fn: "Main", Args: iarg(0), Res: "int", GoWant: "i:7"},
		finding{Key: kLitOrder, What: "the elements of slice, map and struct literals and the operands of a multi-value return are compiled from the last to the first (the first one has to end up on top of the stack for PACK / PACKMAP / RET), so calls in them run from right to left; Go runs them from left to right. Call arguments, binary expressions, tuple assignments, append arguments and []byte literals are in order. A repair has to touch four code generators (emitArrayOrSlice, convertMap, convertStruct, ReturnStmt) and costs a REVERSE per literal",
			Src: `package foo

var n int

func next() int {
	n++
	return n
}

func Main(a int) int {
	s := []int{next(), next()}
	return s[0]*10 + s[1] + a
}
`, Fn: "Main", Args: iarg(0), Res: "int", GoWant: "i:12"},
		finding{Key: kLambdaOrder, What: "the bodies of function literals are emitted by ranging over a Go map (codegen.go convertFuncDecl): with two literals in one function two compilations of one source give different scripts",
			Src: `package foo

var g int

func Main(a int) int {
	defer func() {
		g++
	}()
	defer func() {
		g += 2
	}()
	return 7 + a
}
`, Fn: "Main", Args: iarg(0), Res: "int", GoWant: "i:7"},
	)
}

// Findings of the audit round (NOTES.md of the seeding agent, items 10 and 12) and what the shapes added for them ran
// into. All of them had a small repair.
func init() {
	iarg := func(v int64) []Arg { return []Arg{{T: "int", I: v}} }
	findings = append(findings,
		finding{Key: kUsedGlobalDropped, What: "the usage analysis (analysis.go pickVarsFromNodes) does not look into the operand of a field selector unless it is an identifier, a literal or a selector (gs[0].x, (g).x, (*gp).x), into the keys of map literals, into the arguments of a deferred call and at a variable called as a function (f()): a package variable used only there is renamed to _, never initialised, and the reference reads Null",
			Src: `package foo

type T struct {
	x int
}

var gs = [2]T{{x: 7}, {x: 1}}
var k = 3
var f = func() int { return 5 }

func Main(a int) int {
	m := map[int]int{k: 1}
	return gs[0].x*100 + f()*10 + len(m) + a
}
`, Fn: "Main", Args: iarg(0), Res: "int", GoWant: "i:751"},
		finding{Key: kLambdaInInit, What: "the body of a function literal met in init() or in the initialiser of a package variable is emitted right after the next init() body, in the middle of _initialize: execution falls into it, its RET ends _initialize (the remaining init() functions are skipped, an item stays on the stack) and the debug ranges of _initialize and the lambda overlap",
			Src: `package foo

var a int

func init() {
	g := func() int { return 3 }
	a = g()
}

func init() {
	a += 10
}

func Main(x int) int {
	return a + x
}
`, Fn: "Main", Args: iarg(0), Res: "int", GoWant: "i:13"},
		finding{Key: kInitReturn, What: "return inside init() is compiled to RET of the whole _initialize method: the init() functions after it never run",
			Src: `package foo

var a = 1

func init() {
	if a == 1 {
		return
	}
	a = 2
}

func init() {
	a += 10
}

func Main(x int) int {
	return a + x
}
`, Fn: "Main", Args: iarg(0), Res: "int", GoWant: "i:11"},
		finding{Key: kFuncLitVarDecl, What: "registerGlobals / convertGlobals walk into the body of a function literal assigned to a package variable: a var declaration there is registered as a global (a static slot nobody counted: STSFLD out of range) and its initialiser is compiled without a function scope (nil pointer dereference in the compiler when it reads a parameter)",
			Src: `package foo

var f = func(a0 int) int {
	var v int
	v += a0
	return v
}

func Main(a int) int {
	return f(a) + 1
}
`, Fn: "Main", Args: iarg(4), Res: "int", GoWant: "i:5"},
		finding{Key: kFuncValueArgs, What: "the arguments of a call through a function value (a variable holding a function literal, a literal called in place, the result of another call) are not reversed in front of CALLA the way they are for declared functions: f(a, b) runs as f(b, a)",
			Src: `package foo

func Main(a int) int {
	f := func(x int, y int) int { return x*10 + y }
	return f(a, 2)
}
`, Fn: "Main", Args: iarg(3), Res: "int", GoWant: "i:32"},
		finding{Key: kXorAssign, What: "x ^= y is refused (compiler could not convert token: ^=) although x = x ^ y and &=, |= compile (convertToken has no case for token.XOR_ASSIGN); &^ and &^= are refused the same way and stay outside the generated dialect",
			Src: `package foo

func Main(a int) int {
	x := 170
	x ^= a
	return x
}
`, Fn: "Main", Args: iarg(240), Res: "int", GoWant: "i:90"},
		finding{Key: kDerefStore, What: "(*p).f = v, (*p).f += v and (*p).f++ load *p (CONVERT to Struct: a copy of what p points to) and set the field of the copy: the store is lost",
			Src: `package foo

type T struct {
	x int
}

func Main(a int) int {
	p := &T{x: 1}
	(*p).x = a
	return p.x
}
`, Fn: "Main", Args: iarg(9), Res: "int", GoWant: "i:9"},
	)
}

// The rest of the audit round (items 4-8 and 13 of the notes).
func init() {
	iarg := func(v int64) []Arg { return []Arg{{T: "int", I: v}} }
	findings = append(findings,
		finding{Key: kPromotedMethod, What: "a call of a method promoted from an embedded struct (b.M(1), M declared on the embedded A) is looked up as B.M, not found, and compiled as a type conversion of its first argument: the call returns its argument; without arguments the compiler itself panics (index out of range)",
			Src: `package foo

type A struct {
	v int
}

func (a A) M(x int) int {
	return a.v + x
}

type B struct {
	A
}

func Main(a int) int {
	b := B{A{7}}
	return b.M(a)
}
`, Fn: "Main", Args: iarg(1), Res: "int", GoWant: "i:8"},
		finding{Key: kNamedFuncValue, What: "a declared function used as a value (f := helper; f(3), (helper)(3)) compiles to a load of a fresh, unset local and faults at CALLA on Null; the usage analysis looks at calls only and drops helper when nothing calls it directly",
			Src: `package foo

func helper(a int) int {
	return a + 1
}

func Main(a int) int {
	f := helper
	return f(a)
}
`, Fn: "Main", Args: iarg(3), Res: "int", GoWant: "i:4"},
		finding{Key: kTypeSwitch, What: "a type switch (switch v.(type)) makes the compiler itself panic with a nil pointer dereference (no case for TypeSwitchStmt in Visit); repaired by refusing the construct by name, which the harness accepts as a documented rejection (stack items do not keep Go types)",
			Src: `package foo

func Main(a int) int {
	var v any = a
	switch v.(type) {
	case int:
		return 1
	}
	return 2
}
`, Fn: "Main", Args: iarg(3), Res: "int", GoWant: "i:1"},
		finding{Key: kAndNot, What: "x &^ y and x &^= y are refused (compiler could not convert token) although every other bitwise operator compiles",
			Src: `package foo

func Main(a int) int {
	x := 255
	x &^= a
	return x &^ 1
}
`, Fn: "Main", Args: iarg(240), Res: "int", GoWant: "i:14"},
		finding{Key: kShiftCount, What: "a >> n with n above 256 faults in the VM (SHR: operand must be between 0 and 256); Go defines the result for every non-negative count (0, or -1 for a negative operand)",
			Src: `package foo

func Main(a int) int {
	x := -5
	return x>>a + 7
}
`, Fn: "Main", Args: iarg(300), Res: "int", GoWant: "i:6"},
		finding{Key: kRangeArrayCopy, What: "range over an array value with a value variable iterates the array itself, not a copy made before the first iteration: an element written by the loop body before it is reached is produced with the new value",
			Src: `package foo

func Main(a int) int {
	arr := [3]int{1, 2, 3}
	sum := 0
	for _, v := range arr {
		arr[2] = a
		sum += v
	}
	return sum
}
`, Fn: "Main", Args: iarg(10), Res: "int", GoWant: "i:6"},
		finding{Key: kAppendAlias, What: "b := append(a, x) appends to the array item of a in place (APPEND) and b is the same item: len(a) grows and writes through b reach a even when Go allocates a new array (capacity exhausted); s = append(s, x) through one variable is unaffected. Slices are one VM Array without a length / capacity of their own: a repair needs a slice representation (array, offset, length), a redesign",
			Src: `package foo

func Main(a int) int {
	s := []int{1, 2, 3}
	b := append(s, a)
	b[0] = 9
	return len(s)*100 + len(b)*10 + s[0]
}
`, Fn: "Main", Args: iarg(4), Res: "int", GoWant: "i:341"},
		finding{Key: kSubsliceCopy, What: "b := a[1:3] of a byte slice is a copy (SUBSTR + CONVERT to Buffer): b[0] = 9 does not write through to a[1], and a later write to a is not seen through b; Go sub-slices share the array. Same root as append-extends-operand: slices have no offset / length of their own",
			Src: `package foo

func Main(a int) int {
	s := []byte{1, 2, 3, 4}
	b := s[1:3]
	b[0] = byte(a)
	return int(s[1])
}
`, Fn: "Main", Args: iarg(9), Res: "int", GoWant: "i:9"},
		finding{Key: kStringRunes, What: "range over a string iterates its bytes: a string with multi-byte characters gives one iteration per byte (and byte values as the range value) where Go gives one per character (rune) with the offset of its first byte. Strings are plain byte strings in the VM and there is no UTF-8 decoder in the generated code ([]rune(s) is documented as unsupported, range is not): a repair has to emit a decoder loop, a feature rather than a patch",
			Src: `package foo

func Main(a int) int {
	n := 0
	for i := range "aé" {
		n += 10 + i
	}
	return n + a
}
`, Fn: "Main", Args: iarg(0), Res: "int", GoWant: "i:21"},
		finding{Key: kMethodValue, What: "a method value (f := a.M) or a method expression (T.M) outside of a call is reported as a missing field (field M not found in type T); repaired by naming the construct in the error, which the harness accepts as a documented rejection (a method value is a closure over its receiver)",
			Src: `package foo

type T struct {
	x int
}

func (t T) M(a int) int {
	return t.x + a
}

func Main(a int) int {
	t := T{x: 5}
	f := t.M
	return f(a)
}
`, Fn: "Main", Args: iarg(3), Res: "int", GoWant: "i:8"},
	)
}

func init() {
	// (more than 64 KiB of code in front of Main: 262 assignments of a 250 byte literal)
	pad := ""
	for i := 0; i < 262; i++ {
		pad += "\ts = \"" + strings.Repeat("abcdefghij", 25) + "\"\n"
	}
	findings = append(findings, finding{Key: kBigOffsets,
		What: "the range of a method is kept in 16 bits: a method that starts above 65535 gets its offset modulo 65536 in debug info and manifest; most such builds are refused by the final script check (some methods point to wrong offsets), for some paddings the contract is built and a method invoked through the manifest runs other code",
		Src:  "package foo\n\nfunc Big(a int) int {\n\ts := \"\"\n" + pad + "\treturn len(s) + a\n}\n\nfunc Main(a int) int {\n\treturn a + 42\n}\n",
		Fn:   "Main", Args: []Arg{{T: "int", I: 1}}, Res: "int", GoWant: "i:43"})
}

// What a review of the repairs found left over: each of these is a second code path of a defect repaired before.
func init() {
	iarg := func(v int64) []Arg { return []Arg{{T: "int", I: v}} }
	findings = append(findings,
		finding{Key: kSelectorTwice, What: "a compound assignment or ++ / -- whose target is a field selector over an index expression or a call (ts[idx()].n += v, ts[idx()].n++, get().n += v) evaluates the operand of the selector twice, once to load the field and once more to store it: the call runs twice and the result lands in another object than the one read (the earlier repair of s[f()] += v covered index expressions as targets only)",
			Src: `package foo

type T struct {
	n int
}

var cnt int

func idx() int {
	cnt++
	return cnt - 1
}

func Main(a int) int {
	ts := [4]T{{1}, {2}, {3}, {4}}
	ts[idx()].n += 10
	ts[idx()].n++
	return ts[0].n + ts[1].n*100 + ts[2].n*10000 + cnt*1000000 + a
}
`, Fn: "Main", Args: iarg(0), Res: "int", GoWant: "i:2030311"},
		finding{Key: kTupleMultiRet, What: "a tuple assignment fed by one call with several results (s[i], i = two(); w, w = two()) stores from right to left and evaluates the index operands on the left when it stores (the earlier repair of the tuple assignment covered a, b = x, y only)",
			Src: `package foo

func two() (int, int) {
	return 5, 2
}

func Main(a int) int {
	s := []int{10, 20, 30}
	i := 0
	s[i], i = two()
	return s[0] + s[1]*10 + s[2]*100 + i*1000 + a
}
`, Fn: "Main", Args: iarg(0), Res: "int", GoWant: "i:5205"},
		finding{Key: kAppendNilBytes, What: "append(b, t...) with a nil []byte t faults in CAT (Null operand); the earlier repair of append(s, nilSlice...) covered the slices that are Arrays only",
			Src: `package foo

func Main(a int) int {
	c := []byte{1, 2}
	var d []byte
	c = append(c, d...)
	return len(c) + a
}
`, Fn: "Main", Args: iarg(0), Res: "int", GoWant: "i:2"},
		finding{Key: kTupleDeref, What: "(*p).b, s[0] = 50, 1: a field of an explicitly dereferenced pointer as a target of a tuple assignment is set in a copy of *p, the store is lost (the earlier repair of (*p).f = v did not reach the tuple assignment)",
			Src: `package foo

type T struct {
	a, b int
}

func Main(a int) int {
	p := &T{1, 2}
	s := []int{0}
	(*p).b, s[0] = 50, 1
	return p.b*10 + s[0] + a
}
`, Fn: "Main", Args: iarg(0), Res: "int", GoWant: "i:501"},
		finding{Key: kImportedFuncVal, What: "a function of an imported package used as a value (f := foo.NewBar; f(), apply(foo.NewBar)) is compiled to a load of an unset variable of that package and faults at CALLA on Null; the usage analysis drops the function when nothing calls it directly (the earlier repair of f := helper covered identifiers of the same package only)",
			Src: `package foo

import "github.com/nspcc-dev/neo-go/pkg/compiler/testdata/foo"

func Main(a int) int {
	f := foo.NewBar
	return f() + a
}
`, Fn: "Main", Args: iarg(0), Res: "int", GoWant: "i:10"},
	)
}

// What a review of those repairs found left over in turn. Three of the five have reproductions of more than one file
// (a second file of the package, an imported package of the module, the interop module) and live in the replay files
// imported-func-var-call, func-var-other-file and inline-arg-call-twice only.
func init() {
	iarg := func(v int64) []Arg { return []Arg{{T: "int", I: v}} }
	findings = append(findings,
		finding{Key: kFuncValueOrder, What: "mk().f(idx(5)), getf()(idx(5)), fs[idx(1)](idx(5)): the operand that gives the function called is compiled after the arguments, so the calls in it run after the calls in the arguments (Go: lexical order)",
			Src: `package foo

type T struct {
	f func(int) int
}

var n int

func next() int {
	n++
	return n
}

func add(x int) int {
	return x + 100
}

func mk() T {
	n *= 10
	return T{f: add}
}

func Main(a int) int {
	n = 1
	r := mk().f(next())
	return r*1000 + n + a
}
`, Fn: "Main", Args: iarg(0), Res: "int", GoWant: "i:111011"},
		finding{Key: kTupleValueVar, What: "t, t.x = f() with t a VARIABLE of struct type (a, a[0] = f() with an array; fields of structures held by value in fields, elements of arrays of arrays): the field is a part of the variable, not of a value read in the first phase of the assignment, but the structure the variable held when the statement started is kept and written, so the field assigned after the whole variable is lost",
			Src: `package foo

type T struct {
	x, y int
}

func pf() (T, int) {
	return T{x: 1, y: 2}, 7
}

func Main(a int) int {
	t := T{}
	t, t.x = pf()
	arr := [3]int{}
	arr, arr[0] = [3]int{1, 2, 3}, 9
	return t.x*1000 + t.y*100 + arr[0]*10 + arr[1] + a
}
`, Fn: "Main", Args: iarg(0), Res: "int", GoWant: "i:7292"},
	)
}

// What a review of the repairs above found (a regression of the function-value repair, byte arrays left out of the tuple
// repair); the generated shapes are in side3.go.
func init() {
	iarg := func(v int64) []Arg { return []Arg{{T: "int", I: v}} }
	findings = append(findings,
		finding{Key: kFuncValueMulti, What: "t.g(pair()), fs[0](pair()): a call through a function value (field, element, parenthesised variable, literal, call result, variable of an imported package) whose argument list is one call with several results faults at CALLA: the function value evaluated first is rolled from the depth len(n.Args), not from the number of items",
			Src: `package foo

type T struct {
	g func(a, b int) int
}

func pair() (int, int) {
	return 3, 4
}

func mul(a, b int) int {
	return a*10 + b
}

func Main(a int) int {
	t := T{g: mul}
	fs := []func(a, b int) int{mul}
	return t.g(pair()) + fs[0](pair())*100 + a
}
`, Fn: "Main", Args: iarg(0), Res: "int", GoWant: "i:3434"},
		finding{Key: kTupleByteArray, What: "b, b[0] = [3]byte{1, 2, 3}, 7 with b an array of bytes: the Buffer the variable held when the statement started is kept and written, the element assigned after the whole array is lost (the repair of t, t.x = ... left arrays of bytes out)",
			Src: `package foo

func Main(a int) int {
	var b [3]byte
	b, b[0] = [3]byte{1, 2, 3}, 7
	return int(b[0])*100 + int(b[1])*10 + int(b[2]) + a
}
`, Fn: "Main", Args: iarg(0), Res: "int", GoWant: "i:723"},
	)
}

// runFinding executes the neo-go side of a reproduction and renders the outcome in the notation of the check.
func runFinding(f finding) string {
	nf, di, err, crash := compileProg("finding.go", f.Src)
	if crash != "" {
		return "COMPILER-PANIC " + crash
	}
	if err != nil {
		return "COMPILE-ERROR " + err.Error()
	}
	if f.Fn == "" {
		// a finding about debug information only
		for _, m := range di.Methods {
			if int(m.Range.End) >= len(nf.Script) {
				return fmt.Sprintf("method %s has the range %d..%d in a script of %d bytes", m.ID, m.Range.Start, m.Range.End, len(nf.Script))
			}
		}
		return f.GoWant
	}
	off, initOff := -1, -1
	for _, m := range di.Methods {
		if m.ID == f.Fn {
			off = int(m.Range.Start)
		}
		if m.ID == manifest.MethodInit {
			initOff = int(m.Range.Start)
		}
	}
	if off < 0 {
		return "NO-METHOD"
	}
	r := runVM(nf.Script, off, initOff, -1, f.Args, f.Res)
	switch {
	case r.fault != "":
		return "PANIC"
	case r.depth != 1:
		return fmt.Sprintf("%s with %d items on the stack", r.val, r.depth)
	}
	return r.val
}
