package c14

import (
	"fmt"
	"sort"
)

func (g *gen) push() { g.f.scopes = append(g.f.scopes, nil) }
func (g *gen) pop()  { g.f.scopes = g.f.scopes[:len(g.f.scopes)-1] }
func (g *gen) add(v *vinfo) *vinfo {
	top := len(g.f.scopes) - 1
	for _, o := range g.f.scopes[top] {
		if o.name == v.name {
			panic("c14 generator: redeclaration of " + v.name)
		}
	}
	g.f.scopes[top] = append(g.f.scopes[top], v)
	return v
}

// newName returns a fresh local name, or (sometimes) the name of a variable of an enclosing scope (shadowing).
func (g *gen) newName(shadow bool) string {
	if shadow && len(g.f.scopes) > 1 && g.chance(12) {
		cur := map[string]bool{}
		for _, v := range g.f.scopes[len(g.f.scopes)-1] {
			cur[v.name] = true
		}
		var c []string
		for i := 0; i < len(g.f.scopes)-1; i++ {
			for _, v := range g.f.scopes[i] {
				if !cur[v.name] && !v.ro && v.idxOf == nil && !g.isResult(v.name) && (g.f.fuel == nil || g.f.fuel.name != v.name) {
					c = append(c, v.name)
				}
			}
		}
		if len(c) > 0 {
			g.mark("shadowing")
			return c[g.n(len(c), "shadow")]
		}
	}
	g.f.nameCtr++
	return fmt.Sprintf("v%d", g.f.nameCtr)
}

// newNameAvoid is newName that never returns one of the given names.
func (g *gen) newNameAvoid(shadow bool, avoid ...string) string {
	nm := g.newName(shadow)
	for _, a := range avoid {
		if a == nm {
			return g.newName(false)
		}
	}
	return nm
}

func (g *gen) isResult(name string) bool {
	for _, r := range g.f.results {
		if r.Name == name {
			return true
		}
	}
	return false
}

var localTypes = []string{"int", "int", "int", "bool", "string", "[]byte", "[]int", "map[int]int", "map[string]int"}

func (g *gen) localType() string {
	ts := localTypes
	for _, s := range g.pr.Structs {
		ts = append(append([]string{}, ts...), s.Name, "*"+s.Name)
	}
	if g.chance(12) {
		ts = g.arrTypes()
	}
	return ts[g.n(len(ts), "lt")]
}

// declare registers a new variable initialised from e.
func (g *gen) declare(name, typ string, e ex) *vinfo {
	v := &vinfo{name: name, typ: typ}
	switch typ {
	case "int":
		if g.chance(40) {
			v.wide, v.lo, v.hi = true, -wideB, wideB
		} else {
			v.lo, v.hi = e.lo, e.hi
		}
	case "string":
		v.ascii = e.ascii
		v.growing = !e.short || g.chance(30)
		v.minLen = min(e.minLen, 3)
		switch {
		case !v.growing:
			v.maxLen = 16
		case e.maxLen <= strStore:
			v.maxLen = strVar
		default:
			v.maxLen, v.noAppend = e.maxLen, true
		}
	case "[]byte":
		v.growing = !e.short || g.chance(30)
		v.minLen = min(e.minLen, 3)
		v.maxLen = 16
		if v.growing {
			v.maxLen = e.maxLen + costCap
		}
	case "[]int":
		v.growing = g.chance(50)
		v.minLen = e.minLen
		v.appends = e.minLen
		v.fromLit = e.n != nil && e.n.K == "slit"
	default:
		if isArray(typ) {
			v.minLen, _ = arrSplit(typ)
		}
	case "map[int]int", "map[string]int":
		if e.n != nil && e.n.K == "mlit" {
			for i := 0; i+1 < len(e.n.A); i += 2 {
				if e.n.A[i].K != "lit" {
					continue
				}
				if typ == "map[int]int" {
					v.sureI = append(v.sureI, e.n.A[i].N)
				} else {
					v.sureS = append(v.sureS, e.n.A[i].S)
				}
			}
		}
	}
	g.selStyle(v)
	return g.add(v)
}

// ---- statements ------------------------------------------------------------------------------------

// genBlock generates the statements of a nested block in a new scope. The second result tells whether control
// can not reach the end of the block.
func (g *gen) genBlock(maxN int) ([]*Node, bool) {
	g.push()
	defer g.pop()
	g.f.depth++
	defer func() { g.f.depth-- }()
	if g.chance(6) {
		// an empty body: `if c {}`, `for … {}`, `case x:` compile to jumps to the very next instruction
		g.mark("empty-block")
		return nil, false
	}
	tp := g.tracePoint()
	st, term := g.genStmts(maxN)
	if tp != nil {
		st = append([]*Node{tp}, st...)
	}
	return st, term
}

// tracePoint returns a statement that folds a fresh constant into the path trace of the function (or nil).
func (g *gen) tracePoint() *Node {
	if g.f.trace == "" || g.f.inLambda || !g.chance(60) {
		return nil
	}
	g.f.traceCtr++
	g.account(1)
	t := vr(g.f.trace)
	return &Node{K: "assign", S: "=", A: []*Node{t, bin("%", bin("+", bin("*", vr(g.f.trace), ilit(7)), ilit(int64(g.f.traceCtr))), ilit(1000003))}}
}

func (g *gen) genStmts(maxN int) ([]*Node, bool) {
	if g.stmts > 70 {
		maxN = 1
	}
	k := g.rng(1, maxN, "nst")
	var out []*Node
	for i := 0; i < k; i++ {
		s, term := g.genStmt()
		if s == nil {
			continue
		}
		out = append(out, s)
		if term {
			return out, true
		}
	}
	return out, false
}

func (g *gen) inLoop() bool {
	for _, l := range g.f.loops {
		if l.kind == "for" {
			return true
		}
	}
	return false
}

func (g *gen) genStmt() (n *Node, term bool) {
	depth0, f0 := len(g.f.scopes), g.f
	defer func() {
		if g.f != f0 || len(g.f.scopes) != depth0 {
			panic(fmt.Sprintf("c14 generator: scope stack unbalanced by %v", n))
		}
	}()
	g.account(1)
	g.stmts++
	deep := g.f.depth >= 4 || !g.room(12) || g.stmts > 70
	w := []int{
		18, // 0 define
		22, // 1 assign family
		12, // 2 if
		10, // 3 loop
		8,  // 4 switch
		8,  // 5 break/continue
		3,  // 6 early return
		8,  // 7 call statement
		5,  // 8 defer
		2,  // 9 panic
		3,  // 10 block
		12, // 11 container statement
		3,  // 12 tuple assign
		4,  // 13 guarded index
		6,  // 14 struct statement
		9,  // 15 side-note statements (side.go)
		0,  // 16 goto
		0,  // 17 array statement
		0,  // 18 type switch
		0,  // 19 method value
	}
	if g.tswProg && !g.f.inInit && g.on(kTypeSwitch) {
		w[18] = 8
	}
	if g.mvalProg && !g.f.inInit && !g.f.inLambda && g.on(kMethodValue) {
		w[19] = 8
	}
	if len(g.arrayVars(nil)) > 0 {
		w[17] = 12
	}
	if g.gotoProg && g.on(kGoto) {
		w[16] = 6
	}
	if g.f.sig.exported && !g.f.inLambda {
		w[7] = 14 // the exported functions are where the effects of the helpers become results
	}
	if deep {
		w[2], w[3], w[4], w[10], w[13], w[16], w[18] = 2, 0, 0, 0, 0, 0, 0
	}
	if len(g.f.loops) == 0 {
		w[5] = 0
	}
	if g.f.inInit {
		w[8], w[9] = 0, 0
		if g.f.noGlobals {
			w[6] = 0 // (the context of package variable initialisers is not a function body)
		}
	}
	if !g.softStmtOK() {
		w[9] = 0
	}
	if g.f.pure || g.f.inLambda {
		w[8] = 0
	}
	if !g.f.hasDefer {
		w[8] = 0
	}
	if len(g.pr.Structs) == 0 {
		w[14] = 0
	}
	if g.f.depth == 0 {
		w[6], w[9] = 0, 0 // unconditional return/panic at the top level would cut the body short
	}
	switch g.weighted(w, "stk") {
	case 0:
		return g.stDefine(), false
	case 1:
		return g.stAssign(), false
	case 2:
		return g.stIf()
	case 3:
		// (stLoop works in a scope of its own: its fall-back must run after that scope is gone)
		if n := g.stLoop(); n != nil {
			return n, false
		}
		return g.stAssign(), false
	case 4:
		return g.stSwitch(), false
	case 5:
		return g.stBranch()
	case 6:
		if g.f.inLambda {
			return &Node{K: "return"}, true
		}
		return g.stReturn(), true
	case 7:
		return g.stCall(), false
	case 8:
		return g.stDefer(), false
	case 9:
		return g.stPanic(), true
	case 10:
		b, term := g.genBlock(3)
		g.mark("block")
		return blk(b), term
	case 11:
		return g.stContainer(), false
	case 12:
		return g.stTuple(), false
	case 13:
		return g.stGuard(), false
	case 15:
		if n := g.stSide(); n != nil {
			return n, false
		}
		return g.stAssign(), false
	case 16:
		return g.stGoto(), false
	case 17:
		if n := g.stArray(); n != nil {
			return n, false
		}
		return g.stAssign(), false
	case 18:
		return g.stTypeSwitch(), false
	case 19:
		if n := g.stMethodValue(); n != nil {
			return n, false
		}
		return g.stAssign(), false
	default:
		return g.stStruct(), false
	}
}

func (g *gen) stDefine() *Node {
	typ := g.localType()
	if g.f.noGlobals && g.f.inInit {
		typ = "int"
	}
	e, ok := g.genOfFresh(typ, 2)
	if !ok {
		typ = "int"
		e = g.genInt(2)
	}
	if typ == "int" {
		e = fitStore(e)
	}
	g.noteExpr(e)
	useVar := g.chance(20) || isArray(typ) && g.chance(40)
	name := g.newName(!useVar || g.on(kVarShadow))
	var n *Node
	if useVar {
		n = &Node{K: "vardecl", S: name, T: typ, A: []*Node{e.n}}
		if g.chance(25) && (typ == "int" || typ == "bool" || typ == "string") || isArray(typ) && g.chance(60) {
			n.A = nil // zero value
			e = ex{ascii: true, short: true}
			if isArray(typ) {
				g.mark("array-zero-var")
			}
		}
		g.mark("var-decl")
	} else {
		n = &Node{K: "define", S: name, A: []*Node{e.n}}
	}
	g.declare(name, typ, e)
	return n
}

// genOfFresh is genOf for a value that becomes a new variable: containers must not alias existing ones.
func (g *gen) genOfFresh(typ string, d int) (ex, bool) {
	switch typ {
	case "int", "bool", "string":
		return g.genOf(typ, d)
	case "[]byte":
		e := g.genBytes(d)
		if !e.fresh {
			// []byte(string(b)) copies
			e = ex{n: &Node{K: "conv", T: "[]byte", A: []*Node{{K: "conv", T: "string", A: []*Node{e.n}}}}, pan: e.pan, hard: e.hard, minLen: e.minLen, short: e.short, fresh: true, maxLen: e.maxLen}
		}
		return e, true
	}
	if isArray(typ) {
		return g.arrFresh(typ, d), true
	}
	if typ[0] == '*' {
		// pointers alias in both worlds
		if v := g.pickVar(typ, nil); v != nil && g.chance(30) {
			g.useVar(v)
			g.mark("pointer-alias")
			return ex{n: vr(v.name)}, true
		}
	}
	if g.structDef(typ) != nil {
		// struct value from another variable / field / call
		if g.chance(30) {
			if v := g.pickVar(typ, nil); v != nil && g.on(kStructAlias) {
				g.useVar(v)
				g.mark("struct-copy")
				return ex{n: vr(v.name)}, true
			}
		}
		if g.chance(25) {
			if e, ok := g.genCall(typ, d); ok {
				return e, true
			}
		}
	}
	return g.genFreshOf(typ, d)
}

func (g *gen) noteExpr(e ex) {
	if e.pan {
		g.f.sig.soft = true
		g.f.sig.dirty = true
	}
	if e.hard {
		g.f.sig.hard = true
	}
}

// intTargets lists assignable int locations.
func (g *gen) intTarget() (*Node, bool) {
	type tgt struct {
		n *Node
	}
	var c []*Node
	for _, v := range g.varsOf("int") {
		if v.wide && !v.ro && g.writable(v) {
			c = append(c, vr(v.name))
		}
	}
	for _, v := range g.visible() {
		if !g.writable(v) {
			continue
		}
		if sd := g.structDef(baseStruct(v.typ)); sd != nil {
			for _, f := range sd.Fields {
				if f.Type == "int" {
					c = append(c, &Node{K: "field", S: f.Name, A: []*Node{selBase(v)}})
				}
				if nd := g.structDef(f.Type); nd != nil {
					for _, nf := range nd.Fields {
						if nf.Type == "int" {
							c = append(c, &Node{K: "field", S: nf.Name, A: []*Node{{K: "field", S: f.Name, A: []*Node{selBase(v)}}}})
							if f.Name == sd.Emb {
								c = append(c, &Node{K: "field", S: nf.Name, A: []*Node{selBase(v)}}) // promoted field
							}
						}
					}
				}
			}
		}
	}
	if len(c) == 0 {
		return nil, false
	}
	n := c[g.n(len(c), "tgt")]
	if n.K == "field" {
		g.mark("field-assign")
	}
	return n, true
}

// writable tells whether writing to (or through) v is allowed in the current function.
func (g *gen) writable(v *vinfo) bool {
	if v.ro {
		return false
	}
	if v.global {
		if g.f.pure {
			return false
		}
		return true
	}
	return true
}

func (g *gen) noteWrite(n *Node) {
	root := rootVar(n)
	for _, v := range g.globals {
		if v.name == root.S && g.lookup(root.S) == v {
			g.f.sig.writesG = true
			g.f.sig.pure = false
			g.mark("global-write")
		}
	}
}

func (g *gen) lookup(name string) *vinfo {
	for _, v := range g.visible() {
		if v.name == name {
			return v
		}
	}
	return nil
}

func (g *gen) stAssign() *Node {
	// choose among typed assignment forms
	switch g.weighted([]int{60, 10, 15, 15}, "ak") {
	case 1:
		if v := g.pickVar("bool", func(v *vinfo) bool { return g.writable(v) && g.paramWritable(v) }); v != nil {
			e := g.genBool(2)
			g.noteExpr(e)
			n := &Node{K: "assign", S: "=", A: []*Node{vr(v.name), e.n}}
			g.noteWrite(n.A[0])
			return n
		}
	case 2:
		if v := g.pickVar("string", func(v *vinfo) bool { return g.writable(v) && g.paramWritable(v) }); v != nil {
			e := g.genStr(2)
			op := "="
			if v.growing && !v.noAppend && g.chance(60) {
				op = "+="
				g.mark("string-append")
				if !e.short {
					e = g.shortStr() // growth per execution stays below 16 bytes
				}
			}
			if (!v.ascii || e.ascii) && (op == "+=" || (e.minLen >= v.minLen && (v.growing && e.maxLen <= strStore || e.short))) {
				g.noteExpr(e)
				n := &Node{K: "assign", S: op, A: []*Node{vr(v.name), e.n}}
				g.noteWrite(n.A[0])
				return n
			}
		}
	case 3:
		if n := g.stSliceElem(); n != nil {
			return n
		}
	}
	t, ok := g.intTarget()
	if !ok || !g.pureOKTarget(t) {
		return g.stDefine()
	}
	g.noteWrite(t)
	switch g.weighted([]int{30, 25, 12, 8, 8, 5, 4, 4, 4}, "aop") {
	case 0:
		e := fitStore(g.genInt(3))
		g.noteExpr(e)
		return &Node{K: "assign", S: "=", A: []*Node{t, e.n}}
	case 1:
		e := fitAdd(g.genInt(2))
		g.noteExpr(e)
		g.mark("compound-assign")
		return &Node{K: "assign", S: []string{"+=", "-="}[g.n(2, "pm")], A: []*Node{t, e.n}}
	case 2:
		g.mark("incdec")
		return &Node{K: "incdec", S: []string{"++", "--"}[g.n(2, "id")], A: []*Node{t}}
	case 3:
		// multiplicative update brought back into range immediately
		e := shrinkTo(g.genInt(1), 1<<16, 1009)
		g.noteExpr(e)
		g.mark("compound-assign")
		return &Node{K: "seq", B: []*Node{
			{K: "assign", S: "*=", A: []*Node{t, e.n}},
			{K: "assign", S: "%=", A: []*Node{t, ilit(1000003)}},
		}}
	case 4:
		var e ex
		if g.mayHard() && g.chance(25) {
			e = g.genInt(1)
			if e.konst && e.lo <= 0 && e.hi >= 0 {
				e = g.nonZero(1)
			} else if e.lo <= 0 && e.hi >= 0 {
				e.hard = true
			}
		} else {
			e = g.nonZero(1)
		}
		g.noteExpr(e)
		g.mark("compound-assign")
		return &Node{K: "assign", S: []string{"/=", "%="}[g.n(2, "dm")], A: []*Node{t, e.n}}
	case 5:
		g.mark("compound-assign")
		if g.chance(20) && g.on(kShiftCount) {
			g.mark("shift-count-large")
			return &Node{K: "assign", S: ">>=", A: []*Node{t, ilit([]int64{64, 256, 257, 300}[g.n(4, "shrb")])}}
		}
		return &Node{K: "assign", S: ">>=", A: []*Node{t, ilit(int64(g.n(6, "shr")))}}
	case 6:
		g.mark("compound-assign")
		op := "&="
		if g.chance(40) && g.on(kAndNot) {
			// (clearing bits moves a negative value away from zero by at most the mask: an additive update)
			op = "&^="
			g.mark("and-not")
		}
		return &Node{K: "assign", S: op, A: []*Node{t, ilit([]int64{1, 3, 7, 15, 255, 65535}[g.n(6, "andc")])}}
	case 7:
		g.mark("compound-assign")
		return &Node{K: "seq", B: []*Node{
			{K: "assign", S: "<<=", A: []*Node{t, ilit(int64(g.n(5, "shl")))}},
			{K: "assign", S: "%=", A: []*Node{t, ilit(1000003)}},
		}}
	default:
		g.mark("compound-assign")
		return &Node{K: "seq", B: []*Node{
			{K: "assign", S: []string{"|=", "^="}[g.n(2, "orx")], A: []*Node{t, ilit([]int64{1, 2, 8, 255}[g.n(4, "orc")])}},
			{K: "assign", S: "%=", A: []*Node{t, ilit(1000003)}},
		}}
	}
}

// paramWritable: parameters of reference kinds are only written through in impure functions (always true for scalars).
func (g *gen) paramWritable(v *vinfo) bool { return true }

// pureOKTarget: pure functions write only their own locals (never through pointer parameters or globals).
func (g *gen) pureOKTarget(t *Node) bool {
	if !g.f.pure {
		return true
	}
	root := rootVar(t)
	v := g.lookup(root.S)
	if v == nil || v.global {
		return false
	}
	if t.K != "var" && v.typ != "" && v.typ[0] == '*' {
		return g.ownPtr(v)
	}
	return true
}

// ownPtr: pointer variables created in this function from a literal would be safe to write through, but a
// pointer may also be copied from a parameter; keep pure functions away from pointer writes altogether.
func (g *gen) ownPtr(v *vinfo) bool { return false }

func (g *gen) stSliceElem() *Node {
	v := g.pickVar("[]int", func(v *vinfo) bool {
		return g.writable(v) && (v.minLen > 0 || g.hasIdx(v)) && (!g.f.pure || !g.isParam(v))
	})
	if v == nil {
		return nil
	}
	if g.f.noPanic && v.minLen == 0 {
		return nil
	}
	i := g.indexFor(v, 2)
	if i.pan && !g.mayPanic() {
		return nil
	}
	e := fitStore(g.genInt(2))
	g.noteExpr(e)
	g.noteExpr(i)
	if !(i.lo >= 0 && i.hi < float64(v.minLen)) && !g.hasIdxExpr(i, v) {
		if !g.mayPanic() {
			return nil
		}
		g.f.sig.soft = true
		g.f.sig.dirty = true
	}
	t := &Node{K: "index", A: []*Node{vr(v.name), i.n}}
	g.noteWrite(t)
	g.mark("slice-store")
	if g.chance(30) {
		a := fitAdd(g.genInt(1))
		g.noteExpr(a)
		return &Node{K: "assign", S: "+=", A: []*Node{t, a.n}}
	}
	return &Node{K: "assign", S: "=", A: []*Node{t, e.n}}
}

func (g *gen) isParam(v *vinfo) bool { return v.param }

func (g *gen) stIf() (*Node, bool) {
	n := &Node{K: "if"}
	g.push() // scope of the init statement
	defer g.pop()
	init := none()
	if g.chance(20) {
		e := fitStore(g.genInt(2))
		g.noteExpr(e)
		name := g.newName(true)
		init = &Node{K: "define", S: name, A: []*Node{e.n}}
		v := g.add(&vinfo{name: name, typ: "int", lo: e.lo, hi: e.hi})
		_ = v
		g.mark("if-init")
	}
	c := g.genBool(3)
	if c.konst {
		c = g.genBool(1)
	}
	g.noteExpr(c)
	n.A = []*Node{init, c.n}
	then, t1 := g.genBlock(4)
	els := none()
	t2 := false
	switch g.weighted([]int{50, 30, 20}, "else") {
	case 1:
		b, t := g.genBlock(3)
		els, t2 = blk(b), t
	case 2:
		if g.f.depth < 4 {
			g.f.depth++
			els, t2 = g.stIf()
			g.f.depth--
			g.mark("else-if")
		}
	}
	n.B = []*Node{blk(then), els}
	g.mark("if")
	return n, t1 && t2 && els.K != "none"
}

func (g *gen) newLabel() string {
	g.f.labelCtr++
	return fmt.Sprintf("L%d", g.f.labelCtr)
}

func (g *gen) enterLoop(kind string) *loopctx {
	l := &loopctx{kind: kind, label: g.newLabel()}
	g.f.loops = append(g.f.loops, l)
	return l
}

func (g *gen) leaveLoop(n *Node) {
	l := g.f.loops[len(g.f.loops)-1]
	g.f.loops = g.f.loops[:len(g.f.loops)-1]
	if l.used {
		n.S = l.label
	}
}

func (g *gen) nest() {
	if len(g.f.loops) >= 2 {
		g.mark("nested-control")
	}
	kinds := ""
	for _, l := range g.f.loops {
		kinds += l.kind[:1]
	}
	if len(kinds) >= 3 && kinds[len(kinds)-1] == 's' {
		g.mark("switch-in-nested-loop")
	}
}

// stLoop generates one of the loop forms with a static bound on the number of iterations.
func (g *gen) stLoop() *Node {
	if !g.room(20) {
		return nil
	}
	g.push()
	defer g.pop()
	g.f.loopDepth++
	defer func() { g.f.loopDepth-- }()
	oldMult := g.f.mult
	defer func() { g.f.mult = oldMult }()

	kind := g.weighted([]int{25, 12, 10, 20, 10, 10, 8, 5}, "lk")
	var n *Node
	switch kind {
	case 0: // three-clause loop with a constant bound
		N := g.rng(1, 5, "N")
		if g.f.mult*N*4 > g.f.budget {
			N = 2
		}
		name := g.newName(true)
		start := g.rng(-1, 2, "st")
		step := 1
		if g.chance(20) {
			step = 2
		}
		down := g.chance(25)
		var init, cond, post *Node
		iv := &vinfo{name: name, typ: "int", ro: true}
		if !down {
			end := start + N*step
			init = &Node{K: "define", S: name, A: []*Node{ilit(int64(start))}}
			cond = bin([]string{"<", "!="}[btoi(step == 1 && g.chance(20))], vr(name), ilit(int64(end)))
			iv.lo, iv.hi = float64(start), float64(end)
			if step == 1 {
				post = &Node{K: "incdec", S: "++", A: []*Node{vr(name)}}
			} else {
				post = &Node{K: "assign", S: "+=", A: []*Node{vr(name), ilit(int64(step))}}
				iv.hi = float64(end + 1)
			}
		} else {
			end := start - N*step
			init = &Node{K: "define", S: name, A: []*Node{ilit(int64(start))}}
			cond = bin(">", vr(name), ilit(int64(end)))
			iv.lo, iv.hi = float64(end-1), float64(start)
			if step == 1 {
				post = &Node{K: "incdec", S: "--", A: []*Node{vr(name)}}
			} else {
				post = &Node{K: "assign", S: "-=", A: []*Node{vr(name), ilit(int64(step))}}
			}
		}
		g.add(iv)
		g.f.mult *= N
		n = &Node{K: "for3", A: []*Node{init, cond, post}}
		g.enterLoop("for")
		g.nest()
		n.B, _ = g.genBlock(4)
		g.leaveLoop(n)
		g.mark("for-3clause")
	case 1: // index loop over a container: for i := 0; i < len(s); i++
		v := g.loopContainer()
		if v == nil {
			return nil
		}
		N := g.lenBound(v)
		name := g.newNameAvoid(true, v.name)
		iv := &vinfo{name: name, typ: "int", ro: true, lo: 0, hi: float64(N), idxOf: v}
		g.add(iv)
		oldRo := v.ro
		v.ro = v.ro || !isArray(v.typ) // (the length of an array does not change: its elements may be written)
		g.f.mult *= max(N, 1)
		n = &Node{K: "for3", A: []*Node{
			{K: "define", S: name, A: []*Node{ilit(0)}},
			bin("<", vr(name), &Node{K: "len", A: []*Node{vr(v.name)}}),
			{K: "incdec", S: "++", A: []*Node{vr(name)}},
		}}
		g.enterLoop("for")
		g.nest()
		n.B, _ = g.genBlock(4)
		g.leaveLoop(n)
		v.ro = oldRo
		g.mark("for-len")
	case 2, 6: // condition-only loop / infinite loop with break, both driven by a dedicated counter
		N := g.rng(1, 4, "N")
		name := g.newName(false)
		cv := &vinfo{name: name, typ: "int", ro: true, lo: 0, hi: float64(N + 1)}
		// the counter lives in the enclosing scope
		outer := len(g.f.scopes) - 2
		g.f.scopes[outer] = append(g.f.scopes[outer], cv)
		decl := &Node{K: "define", S: name, A: []*Node{ilit(0)}}
		g.f.mult *= N
		inc := &Node{K: "incdec", S: "++", A: []*Node{vr(name)}}
		var loop *Node
		if kind == 2 {
			loop = &Node{K: "forc", A: []*Node{bin("<", vr(name), ilit(int64(N)))}}
			g.enterLoop("for")
			g.nest()
			body, _ := g.genBlock(4)
			loop.B = append([]*Node{inc}, body...)
			g.leaveLoop(loop)
			g.mark("for-cond")
		} else {
			loop = &Node{K: "forever"}
			g.enterLoop("for")
			g.nest()
			body, _ := g.genBlock(4)
			guard := &Node{K: "if", A: []*Node{none(), bin(">", vr(name), ilit(int64(N)))}, B: []*Node{blk([]*Node{{K: "break"}}), none()}}
			loop.B = append([]*Node{inc, guard}, body...)
			g.leaveLoop(loop)
			g.mark("for-infinite")
		}
		n = &Node{K: "seq", B: []*Node{decl, loop}}
	case 3: // range over a slice / string / []byte
		v := g.loopContainer()
		if v == nil {
			return nil
		}
		N := g.lenBound(v)
		key, val := none(), none()
		form := g.weighted([]int{30, 40, 25, 5}, "rf")
		if v.typ == "string" && !v.ascii && form != 0 && form != 3 {
			form = 0 // the value of a string range is a rune: only equal to the byte for ASCII content
		}
		if isArray(v.typ) && v.typ != "[3]int" && form != 3 {
			form = 0 // elements that are arrays or structs are reached through the index
		}
		if form == 0 || form == 1 {
			nm := g.newNameAvoid(true, v.name)
			key = vr(nm)
			g.add(&vinfo{name: nm, typ: "int", ro: true, lo: 0, hi: float64(N), idxOf: v})
		}
		if form == 1 || form == 2 {
			nm := g.newNameAvoid(true, v.name, key.S)
			val = vr(nm)
			switch v.typ {
			case "[]int", "[3]int":
				g.add(&vinfo{name: nm, typ: "int", lo: -wideB, hi: wideB, ro: true})
			case "string":
				g.add(&vinfo{name: nm, typ: "rune", ro: true})
			default:
				g.add(&vinfo{name: nm, typ: "byte", ro: true})
			}
		}
		oldRo := v.ro
		// (Go ranges over a copy of an array: the body may write the elements without changing what the loop sees)
		v.ro = v.ro || !isArray(v.typ)
		g.f.mult *= max(N, 1)
		n = &Node{K: "range", T: ":=", A: []*Node{key, val, vr(v.name)}}
		g.useVar(v)
		g.f.stackItems++
		defer func() { g.f.stackItems-- }()
		g.enterLoop("for")
		g.nest()
		g.push()
		pre := []*Node{}
		if val.K != "none" && v.typ != "[]int" && v.typ != "[3]int" {
			// make the element usable as an int
			nm := g.newName(false)
			pre = append(pre, &Node{K: "define", S: nm, A: []*Node{{K: "conv", T: "int", A: []*Node{vr(val.S)}}}})
			g.add(&vinfo{name: nm, typ: "int", lo: 0, hi: 255})
		}
		g.f.depth++
		body, _ := g.genStmts(4)
		g.f.depth--
		g.pop()
		n.B = append(pre, body...)
		g.leaveLoop(n)
		v.ro = oldRo
		if isArray(v.typ) {
			g.mark("range-array")
		} else {
			g.mark("range-" + map[string]string{"[]int": "slice", "string": "string", "[]byte": "bytes"}[v.typ])
		}
	case 4: // range over an integer
		N := g.rng(1, 5, "N")
		bound := ilit(int64(N))
		if g.chance(30) {
			// bound from an expression with a known small range
			e := g.genInt(1)
			g.noteExpr(e)
			bound = bin("&", e.n, ilit(int64(N)))
		}
		nm := g.newName(true)
		g.add(&vinfo{name: nm, typ: "int", ro: true, lo: 0, hi: float64(N)})
		g.f.mult *= N
		n = &Node{K: "range", T: ":=", A: []*Node{vr(nm), none(), bound}}
		g.f.stackItems++
		defer func() { g.f.stackItems-- }()
		g.enterLoop("for")
		g.nest()
		n.B, _ = g.genBlock(4)
		g.leaveLoop(n)
		g.mark("range-int")
	case 5, 7: // range over a map with an order-insensitive body
		mv := g.pickMap()
		acc, ok := g.accTarget()
		if mv == nil || !ok {
			return nil
		}
		g.noteWrite(acc)
		g.useVar(mv)
		kn, vn := g.newName(false), g.newName(false)
		g.f.mult *= 8
		var kterm *Node
		if mv.typ == "map[int]int" {
			kterm = bin("*", bin("%", vr(kn), ilit(1009)), ilit(int64(g.rng(1, 5, "kc"))))
		} else {
			kterm = &Node{K: "len", A: []*Node{vr(kn)}}
		}
		sum := bin("+", kterm, bin("%", vr(vn), ilit(1013)))
		upd := &Node{K: "assign", S: "+=", A: []*Node{acc, sum}}
		var body []*Node
		switch g.n(3, "mb") {
		case 0:
			body = []*Node{upd}
		case 1:
			body = []*Node{{K: "if", A: []*Node{none(), bin(">", bin("%", vr(vn), ilit(1013)), ilit(int64(g.rng(-2, 3, "thr"))))}, B: []*Node{blk([]*Node{upd}), none()}}}
		default:
			body = []*Node{{K: "if", A: []*Node{none(), bin("<", bin("%", vr(vn), ilit(1013)), ilit(int64(g.rng(-2, 3, "thr"))))}, B: []*Node{blk([]*Node{{K: "continue"}}), none()}}, upd}
		}
		n = &Node{K: "range", T: ":=", A: []*Node{vr(kn), vr(vn), vr(mv.name)}, B: body}
		g.account(3)
		g.mark("range-map")
	}
	g.mark("loop")
	return n
}

func (g *gen) pickMap() *vinfo {
	var c []*vinfo
	for _, v := range g.visible() {
		if v.typ == "map[int]int" || v.typ == "map[string]int" {
			c = append(c, v)
		}
	}
	if len(c) == 0 {
		return nil
	}
	return c[g.n(len(c), "map")]
}

// accTarget picks a wide int location for an additive accumulator.
func (g *gen) accTarget() (*Node, bool) {
	var c []*vinfo
	for _, v := range g.varsOf("int") {
		if v.wide && !v.ro && g.writable(v) {
			c = append(c, v)
		}
	}
	if len(c) == 0 {
		return nil, false
	}
	return vr(c[g.n(len(c), "acc")].name), true
}

func (g *gen) loopContainer() *vinfo {
	var c []*vinfo
	for _, v := range g.visible() {
		switch v.typ {
		case "[]int":
			c = append(c, v)
		case "string", "[]byte":
			if !v.growing && !v.maybeNil {
				c = append(c, v)
			}
		default:
			if isArray(v.typ) {
				c = append(c, v)
			}
		}
	}
	if len(c) == 0 {
		return nil
	}
	return c[g.n(len(c), "lc")]
}

func (g *gen) lenBound(v *vinfo) int {
	if isArray(v.typ) {
		return v.minLen
	}
	switch v.typ {
	case "[]int":
		if v.growing {
			return 12
		}
		return max(v.appends, 6)
	}
	return 16
}

func (g *gen) stSwitch() *Node {
	g.push()
	defer g.pop()
	n := &Node{K: "switch", A: []*Node{none(), none()}}
	kind := g.weighted([]int{45, 15, 40}, "swk") // int tag, string tag, tagless
	nc := g.rng(1, 4, "ncase")
	usedI := map[int64]bool{}
	usedS := map[string]bool{}
	switch kind {
	case 0:
		tag := g.genInt(2)
		if tag.konst {
			if e, ok := g.intVar(); ok {
				tag = e
			}
		}
		g.noteExpr(tag)
		if g.chance(20) {
			nm := g.newName(true)
			t := fitStore(tag)
			n.A[0] = &Node{K: "define", S: nm, A: []*Node{t.n}}
			g.add(&vinfo{name: nm, typ: "int", lo: t.lo, hi: t.hi})
			n.A[1] = vr(nm)
			g.mark("switch-init")
		} else {
			n.A[1] = tag.n
		}
	case 1:
		tag := g.genStr(1)
		if !tag.short && !g.on(kConcatCmp) {
			tag = g.shortStr()
		}
		g.noteExpr(tag)
		n.A[1] = tag.n
	}
	l := g.enterLoop("switch")
	_ = l
	g.f.stackItems++
	defer func() { g.f.stackItems-- }()
	g.nest()
	defPos := -1
	if g.chance(65) {
		defPos = nc // last
		if g.chance(45) {
			if g.on(kEarlyDefault) {
				defPos = g.n(nc+1, "defpos")
				if defPos != nc {
					g.mark("switch-early-default")
				}
			}
		}
	}
	total := nc
	if defPos >= 0 {
		total++
	}
	ci := 0
	for pos := 0; pos < total; pos++ {
		c := &Node{K: "case"}
		if pos != defPos {
			ci++
			ne := 1
			if g.chance(20) {
				ne = 2
			}
			for k := 0; k < ne; k++ {
				switch kind {
				case 0:
					if g.chance(75) {
						v := int64(g.rng(-2, 6, "cv"))
						if usedI[v] {
							continue
						}
						usedI[v] = true
						c.A = append(c.A, ilit(v))
					} else {
						e := g.genInt(1)
						if e.konst {
							// constant case expressions must be distinct: use a variable instead
							ve, ok := g.intVar()
							if !ok {
								continue
							}
							e = ve
						}
						g.noteExpr(e)
						c.A = append(c.A, e.n)
					}
				case 1:
					s := strLits[g.n(len(strLits), "cs")]
					if usedS[s] {
						continue
					}
					usedS[s] = true
					c.A = append(c.A, slitS(s))
				default:
					e := g.genBool(2)
					for tries := 0; e.konst && tries < 3; tries++ {
						e = g.genBool(2)
					}
					if e.konst {
						a, _ := g.intVar()
						if a.n == nil {
							continue
						}
						e = ex{n: bin(">", a.n, ilit(int64(g.rng(-3, 3, "tl"))))}
					}
					g.noteExpr(e)
					c.A = append(c.A, e.n)
				}
			}
			if len(c.A) == 0 {
				// could not produce a fresh case value: turn into a never-colliding one
				switch kind {
				case 0:
					v := int64(100 + pos)
					c.A = append(c.A, ilit(v))
				case 1:
					c.A = append(c.A, slitS(fmt.Sprintf("k%d", pos)))
				default:
					c.A = append(c.A, blitVar(g))
				}
			}
		}
		body, term := g.genBlock(3)
		c.B = body
		if !term && pos < total-1 && g.chance(18) {
			c.N = 1
			g.mark("fallthrough")
		}
		n.B = append(n.B, c)
	}
	g.leaveLoop(n)
	g.mark("switch")
	if kind == 2 {
		g.mark("switch-tagless")
	}
	return n
}

// blitVar builds a non-constant boolean that is false.
func blitVar(g *gen) *Node {
	if a, ok := g.intVar(); ok {
		return bin("!=", a.n, a.n)
	}
	// (the length of a slice literal is not a constant expression)
	return bin("!=", &Node{K: "len", A: []*Node{{K: "slit", T: "[]int"}}}, ilit(0))
}

func (g *gen) stBranch() (*Node, bool) {
	loops := g.f.loops
	top := loops[len(loops)-1]
	// candidates
	type cand struct {
		kind string
		l    *loopctx
		lab  bool
	}
	var c []cand
	if !top.noBreak {
		c = append(c, cand{"break", top, false})
	}
	hasFor := false
	for i := len(loops) - 1; i >= 0; i-- {
		if loops[i].kind == "for" {
			if !hasFor {
				c = append(c, cand{"continue", loops[i], false}, cand{"continue", loops[i], false})
			}
			hasFor = true
		}
	}
	for i := len(loops) - 1; i >= 0; i-- {
		c = append(c, cand{"break", loops[i], true})
		if loops[i].kind == "for" {
			c = append(c, cand{"continue", loops[i], true})
		}
	}
	ch := c[g.n(len(c), "br")]
	n := &Node{K: ch.kind}
	if ch.lab {
		ch.l.used = true
		n.S = ch.l.label
		g.mark("labelled-" + ch.kind)
		if ch.l != top {
			g.mark("labelled-outer-" + ch.kind)
		}
	}
	if ch.kind == "continue" && top.kind == "switch" {
		g.mark("continue-in-switch")
	}
	if ch.kind == "break" && top.kind == "switch" && !ch.lab {
		g.mark("break-in-switch")
	}
	g.mark(ch.kind)
	// make it conditional most of the time so that the rest of the block stays reachable
	if g.chance(75) {
		c := g.genBool(2)
		if c.konst {
			c = g.genBool(0)
		}
		g.noteExpr(c)
		return &Node{K: "if", A: []*Node{none(), c.n}, B: []*Node{blk([]*Node{n}), none()}}, false
	}
	return n, true
}

// stReturn generates a return statement for the current function.
func (g *gen) stReturn() *Node {
	n := &Node{K: "return"}
	if len(g.f.results) == 0 {
		return n
	}
	if g.f.named && g.chance(50) {
		g.mark("bare-return")
		fold := g.stateFold()
		if (g.f.trace != "" || fold != nil) && !g.f.inLambda {
			for _, r := range g.f.results {
				if r.Type == "int" {
					sum := vr(r.Name)
					if g.f.trace != "" {
						sum = bin("+", sum, vr(g.f.trace))
					}
					if fold != nil {
						sum = bin("+", sum, fold)
					}
					mix := &Node{K: "assign", S: "=", A: []*Node{vr(r.Name), bin("%", sum, ilit(1000003))}}
					return &Node{K: "seq", B: []*Node{mix, n}}
				}
			}
		}
		return n
	}
	old := g.f.noPanic
	if g.f.hasDefer {
		// documented restriction: no panic inside a return statement of a function with defers
		g.f.noPanic = true
	}
	for _, r := range g.f.results {
		e, ok := g.genOf(r.Type, 2)
		if !ok {
			e, _ = g.genFreshOf(r.Type, 1)
		}
		if r.Type == "int" {
			e = fitStore(e)
			if g.f.trace != "" && !g.f.inLambda {
				e = ex{n: bin("%", bin("+", e.n, vr(g.f.trace)), ilit(1000003)), lo: -1000002, hi: 1000002, pan: e.pan, hard: e.hard}
			}
			if fold := g.stateFold(); fold != nil {
				e = ex{n: bin("%", bin("+", e.n, fold), ilit(1000003)), lo: -1000002, hi: 1000002, pan: e.pan, hard: e.hard}
			}
		}
		if r.Type == "bool" && g.f.trace != "" && !g.f.inLambda {
			e = ex{n: bin("!=", e.n, bin("==", bin("%", vr(g.f.trace), ilit(2)), ilit(0))), pan: e.pan, hard: e.hard}
		}
		if r.Type == "string" && e.maxLen > strRes {
			e = g.shortStr()
		}
		if g.structDef(r.Type) != nil && !e.fresh && !g.localOwned(e) {
			e, _ = g.genFreshOf(r.Type, 1)
		}
		g.noteExpr(e)
		n.A = append(n.A, e.n)
	}
	g.f.noPanic = old
	return n
}

// stateFold: the package state (up to two int variables) folded into a small int, for the results of exported
// functions: what the functions called before left behind shows in the value compared with Go. Nil when not wanted.
func (g *gen) stateFold() *Node {
	if g.f.inLambda || !g.f.sig.exported || g.f.noGlobals || !g.chance(60) {
		return nil
	}
	var c []*vinfo
	for _, v := range g.visible() {
		if v.global && v.typ == "int" {
			c = append(c, v)
		}
	}
	if len(c) == 0 {
		return nil
	}
	// the trace of the deferred calls first
	sort.SliceStable(c, func(i, j int) bool { return c[i] == g.markV && c[j] != g.markV })
	if len(c) > 2 && g.markV != nil {
		c = append(c[:1], c[1+g.n(len(c)-1, "sf")])
	} else if len(c) > 2 {
		i := g.n(len(c)-1, "sf")
		c = c[i : i+2]
	}
	var sum *Node
	for i, v := range c {
		g.useVar(v)
		t := bin("%", vr(v.name), ilit([]int64{1009, 1013}[i]))
		if sum == nil {
			sum = t
		} else {
			sum = bin("+", sum, t)
		}
	}
	g.mark("state-fold")
	return sum
}

// localOwned: a struct value held by a local variable or value parameter may be returned (nobody else sees it).
func (g *gen) localOwned(e ex) bool {
	if e.n.K != "var" {
		return false
	}
	v := g.lookup(e.n.S)
	return v != nil && !v.global
}

func (g *gen) stPanic() *Node {
	g.f.sig.soft = true
	if g.f.stackItems > 0 {
		g.f.sig.dirty = true
	}
	g.mark("panic")
	if g.chance(50) {
		return &Node{K: "panic", A: []*Node{slitS([]string{"boom", "bad", ""}[g.n(3, "pm")])}}
	}
	old := g.f.noPanic
	g.f.noPanic = true
	e := g.genInt(1)
	g.f.noPanic = old
	return &Node{K: "panic", A: []*Node{e.n}}
}

// stCall: a call used as a statement (the only place for functions with effects), possibly binding results.
func (g *gen) stCall() *Node {
	var cs []*fsig
	for _, f := range g.funcs {
		if f.exported {
			continue
		}
		if f.recv != "" && len(g.recvVars(f)) == 0 {
			continue
		}
		if g.callOK(f, false) {
			cs = append(cs, f)
		}
	}
	self := false
	if g.f.fuel != nil && g.f.selfCalls < 2 && !g.f.inLambda && g.f.loopDepth == 0 && g.room(4) && g.softStmtOK() {
		cs = append(cs, g.f.sig)
		self = true
	}
	_ = self
	if len(cs) == 0 {
		return g.stAssign()
	}
	if g.chance(35) {
		// rather a function with effects on the package state
		var ws []*fsig
		for _, f := range cs {
			if f.writesG && f != g.f.sig {
				ws = append(ws, f)
			}
		}
		if len(ws) > 0 {
			cs = ws
		}
	}
	f := cs[g.n(len(cs), "callee")]
	args, acc, ok := g.genArgs(f, 2)
	if !ok {
		return g.stAssign()
	}
	g.noteExpr(acc)
	if f == g.f.sig {
		g.f.selfCalls++
		g.mark("recursion")
		if g.f.stackItems > 0 {
			g.f.sig.dirty = true
		}
	} else {
		g.noteCall(f)
		if !f.pure {
			g.f.sig.pure = false
			g.mark("effect-call")
		}
	}
	var call *Node
	if f.recv != "" {
		rv := g.pickRecv(f)
		g.useVar(rv)
		if f.mutRecv {
			g.noteWrite(vr(rv.name))
		}
		call = &Node{K: "mcall", S: f.name, A: append([]*Node{vr(rv.name)}, args...)}
		g.mark("method-call")
	} else {
		call = &Node{K: "call", S: f.name, A: args}
	}
	if len(f.results) == 0 || g.chance(15) || len(f.results) > 1 && g.chance(20) {
		if len(f.results) > 1 {
			g.mark("discarded-multi-result")
		}
		return &Node{K: "expr", A: []*Node{call}}
	}
	// bind the results to new variables (or blank)
	n := &Node{K: "mret", S: ":=", N: int64(len(f.results))}
	anyNew := false
	var lhs []*Node
	for i, rt := range f.results {
		if g.chance(15) && (anyNew || i < len(f.results)-1) {
			lhs = append(lhs, vr("_"))
			continue
		}
		nm := g.newName(false)
		anyNew = true
		lhs = append(lhs, vr(nm))
		v := &vinfo{name: nm, typ: rt}
		if rt == "int" {
			v.wide, v.lo, v.hi = true, -wideB, wideB
		}
		if rt == "string" {
			v.growing, v.ascii, v.maxLen, v.noAppend = true, f.resAscii, strRes, true
		}
		defer g.add(v)
	}
	if !anyNew {
		lhs[0] = vr(g.newName(false))
		v := &vinfo{name: lhs[0].S, typ: f.results[0]}
		if v.typ == "int" {
			v.wide, v.lo, v.hi = true, -wideB, wideB
		}
		if v.typ == "string" {
			v.growing, v.maxLen, v.noAppend = true, strRes, true
		}
		defer g.add(v)
	}
	n.A = append(lhs, call)
	if len(f.results) > 1 {
		g.mark("multi-return")
	}
	if len(f.results) == 1 {
		return &Node{K: "define", S: lhs[0].S, A: []*Node{call}}
	}
	return n
}

// stDefer generates a defer statement: a call of a function, or a function literal working on globals.
func (g *gen) stDefer() *Node {
	if g.f.loopDepth > 0 {
		if !g.on(kDeferLoop) {
			return g.stAssign()
		}
		g.mark("defer-in-loop")
	}
	if g.f.recovers && g.f.nDefers > 0 {
		if !g.on(kMultiDefer) {
			return g.stAssign()
		}
		g.mark("multi-defer-recover")
	}
	g.f.nDefers++
	if g.f.nDefers > 1 {
		g.mark("multi-defer")
	}
	g.mark("defer")
	g.f.sig.pure = false
	if g.chance(25) {
		// the trace helper: which deferred calls ran, and in which order, shows in g8
		g.mark("defer-call")
		return &Node{K: "defer", A: []*Node{g.markCall()}}
	}
	if g.chance(50) && !(g.f.recovers && !g.on(kDeferSwallow)) {
		// deferred call of a named function
		var cs []*fsig
		for _, f := range g.funcs {
			if !f.exported && f.recv == "" && !f.fuel && g.callOK(f, false) {
				if len(f.results) > 0 && !g.on(kDeferResult) {
					continue
				}
				if f.soft && g.f.noSoftExpr {
					// (finding recover-stack-residue) the deferred call runs when the results of the function are
					// already on the stack: a panic raised by it and recovered by an earlier defer leaves them there
					continue
				}
				if f.mayRecover {
					if !g.on(kNestedRecov) {
						continue
					}
					g.mark("nested-recover-call")
				}
				cs = append(cs, f)
			}
		}
		if len(cs) > 0 {
			f := cs[g.n(len(cs), "dcallee")]
			oldNP := g.f.noPanic
			args, _, ok := g.genDeferArgs(f)
			g.f.noPanic = oldNP
			if ok {
				g.noteCall(f)
				if f.soft && len(g.f.sig.results) > 0 {
					// the results of this function are on the stack when the deferred call runs: a panic leaving
					// this frame from there leaves them behind (finding recover-stack-residue in a recovering caller)
					g.f.sig.dirty = true
				}
				if !f.safe {
					g.f.sig.safe = false
				}
				g.mark("defer-call")
				return &Node{K: "defer", A: []*Node{{K: "call", S: f.name, A: args}}}
			}
		}
	}
	// function literal: closures are not supported by the dialect, so the body sees globals only
	outer := g.f
	lf := &fctx{sig: outer.sig, budget: outer.budget, cost: outer.cost, mult: outer.mult, inLambda: true,
		hasDefer: false, protected: outer.protected, noPanic: outer.noPanic, noSoft: outer.noSoft || outer.noSoftExpr, nameCtr: outer.nameCtr + 100, labelCtr: outer.labelCtr + 100}
	if len(outer.sig.results) > 0 {
		// the literal runs when the results of the function are already on the evaluation stack: a panic that
		// leaves the frame from here makes the function "dirty" (finding recover-stack-residue in a recovering caller)
		lf.stackItems = 1
	}
	g.f = lf
	g.push()
	var body []*Node
	// recover() in any of the deferred literals of a recovering function (always in the first one generated)
	rec := outer.recovers && (!outer.hasRecover || g.chance(60))
	if rec {
		outer.hasRecover = true
		g.mark("recover")
		switch g.n(3, "rk") {
		case 0:
			body = append(body, &Node{K: "expr", A: []*Node{{K: "recover"}}})
		default:
			nm := g.newName(false)
			g.push()
			in, _ := g.genStmts(2)
			g.pop()
			body = append(body, &Node{K: "if", A: []*Node{
				{K: "define", S: nm, A: []*Node{{K: "recover"}}},
				bin("!=", vr(nm), &Node{K: "lit", T: "nil"})},
				B: []*Node{blk(in), none()}})
		}
	}
	if !rec || g.chance(60) {
		st, _ := g.genStmts(2)
		if g.chance(60) {
			st = append([]*Node{g.markStmt()}, st...)
		}
		// statements in front of the recover() call may leave the literal early (return, panic): then nothing is
		// recovered in Go, while the compiled code swallows the panic (finding defer-swallows-panic)
		if g.chance(50) && (!rec || g.on(kDeferSwallow)) {
			body = append(st, body...)
		} else {
			body = append(body, st...)
		}
	}
	g.pop()
	outer.cost = lf.cost
	g.f = outer
	g.mark("defer-literal")
	return &Node{K: "deferlit", B: body}
}

// genDeferArgs: arguments of a deferred call. Go evaluates them at the defer statement.
func (g *gen) genDeferArgs(f *fsig) ([]*Node, ex, bool) {
	if g.on(kDeferArg) {
		return g.genArgs(f, 1)
	}
	// only arguments whose value can not change between the defer statement and the function exit
	var args []*Node
	for _, p := range f.params {
		switch p.Type {
		case "int":
			var c []*vinfo
			for _, v := range g.varsOf("int") {
				if !v.wide && !v.global && v.idxOf == nil && g.isParam(v) || v.global && v.ro && v != g.markV {
					c = append(c, v)
				}
			}
			if len(c) > 0 && g.chance(50) {
				av := c[g.n(len(c), "da")]
				g.useVar(av)
				args = append(args, vr(av.name))
			} else {
				args = append(args, g.intLit().n)
			}
		case "bool":
			args = append(args, blit(g.chance(50)))
		case "string":
			args = append(args, slitS(strLits[g.n(len(strLits), "ds")]))
		default:
			return nil, ex{}, false
		}
	}
	return args, ex{}, true
}

// stContainer: append / map store / delete / comma-ok lookup.
func (g *gen) stContainer() *Node {
	switch g.weighted([]int{25, 25, 10, 25, 15}, "ck") {
	case 0: // s = append(s, ...)
		v := g.pickVar("[]int", func(v *vinfo) bool { return v.growing && g.writable(v) && !v.global && !g.isParam(v) })
		if v != nil {
			k := g.rng(1, 2, "apn")
			if v.appends+k*g.f.mult <= 12 {
				v.appends += k * g.f.mult
				n := &Node{K: "append", A: []*Node{vr(v.name)}}
				for i := 0; i < k; i++ {
					if i > 0 {
						// Go evaluates all arguments first; the compiled code appends one by one, so a later
						// argument reading the slice would see the elements appended before it
						if g.on(kAppendArgs) {
							g.mark("append-args-read-slice")
						} else {
							v.hidden = true
						}
					}
					e := fitStore(g.genInt(2))
					g.noteExpr(e)
					n.A = append(n.A, e.n)
				}
				v.hidden = false
				g.mark("append")
				return &Node{K: "assign", S: "=", A: []*Node{vr(v.name), n}}
			}
		}
		b := g.pickVar("[]byte", func(v *vinfo) bool { return v.growing && g.writable(v) && !v.global && !g.isParam(v) })
		if b != nil {
			e := g.genInt(1)
			g.noteExpr(e)
			g.mark("append-bytes")
			return &Node{K: "assign", S: "=", A: []*Node{vr(b.name), {K: "append", A: []*Node{vr(b.name), {K: "conv", T: "byte", A: []*Node{bin("&", e.n, ilit(255))}}}}}}
		}
	case 1: // m[k] = e
		if mv := g.pickMapW(); mv != nil {
			k := g.mapKey(mv)
			e := fitStore(g.genInt(2))
			g.noteExpr(e)
			g.noteExpr(k)
			t := &Node{K: "index", A: []*Node{vr(mv.name), k.n}}
			g.noteWrite(t)
			g.mark("map-store")
			return &Node{K: "assign", S: "=", A: []*Node{t, e.n}}
		}
	case 2: // delete
		if mv := g.pickMapW(); mv != nil && !mv.nodel {
			var k ex
			if len(mv.sureI)+len(mv.sureS) > 0 {
				if mv.typ == "map[int]int" {
					k = ex{n: ilit(int64(50 + g.n(3, "dk"))), konst: true}
				} else {
					k = ex{n: slitS("none"), konst: true}
				}
			} else {
				k = g.mapKey(mv)
			}
			g.noteExpr(k)
			g.noteWrite(vr(mv.name))
			g.mark("map-delete")
			return &Node{K: "delete", A: []*Node{vr(mv.name), k.n}}
		}
	case 3: // v, ok := m[k]
		if mv := g.pickMap(); mv != nil {
			g.useVar(mv)
			k := g.mapKey(mv)
			g.noteExpr(k)
			vn, on := g.newName(false), g.newName(false)
			g.add(&vinfo{name: vn, typ: "int", wide: true, lo: -wideB, hi: wideB})
			g.add(&vinfo{name: on, typ: "bool"})
			g.mark("map-comma-ok")
			return &Node{K: "mapok", S: ":=", A: []*Node{vr(vn), vr(on), vr(mv.name), k.n}}
		}
	case 4: // m[k] += e / m[k]++
		if mv := g.pickMapW(); mv != nil {
			var k ex
			if len(mv.sureI) > 0 {
				k = ex{n: ilit(mv.sureI[g.n(len(mv.sureI), "sk")])}
			} else if len(mv.sureS) > 0 {
				k = ex{n: slitS(mv.sureS[g.n(len(mv.sureS), "sk")])}
			} else if g.on(kMapMissing) {
				k = g.mapKey(mv)
				g.mark("map-missing-read")
			} else {
				return g.stAssign()
			}
			g.noteExpr(k)
			t := &Node{K: "index", A: []*Node{vr(mv.name), k.n}}
			g.noteWrite(t)
			g.mark("map-update")
			if g.chance(40) {
				return &Node{K: "incdec", S: "++", A: []*Node{t}}
			}
			e := fitAdd(g.genInt(1))
			g.noteExpr(e)
			return &Node{K: "assign", S: "+=", A: []*Node{t, e.n}}
		}
	}
	return g.stAssign()
}

func (g *gen) pickMapW() *vinfo {
	var c []*vinfo
	for _, v := range g.visible() {
		if (v.typ == "map[int]int" || v.typ == "map[string]int") && g.writable(v) && (!g.f.pure || !g.isParam(v)) && !(g.f.pure && v.global) {
			c = append(c, v)
		}
	}
	if len(c) == 0 {
		return nil
	}
	return c[g.n(len(c), "mapw")]
}

func (g *gen) mapKey(mv *vinfo) ex {
	if mv.typ == "map[int]int" {
		if g.chance(60) {
			return ex{n: ilit(int64(g.rng(-1, 4, "mk"))), konst: true}
		}
		e := g.genInt(1)
		return ex{n: bin("&", e.n, ilit(3)), lo: 0, hi: 3, pan: e.pan, hard: e.hard}
	}
	// string keys must stay short (documented limit: 64 bytes)
	if v := g.pickVar("string", func(v *vinfo) bool { return !v.growing }); v != nil && g.chance(40) {
		g.useVar(v)
		return ex{n: vr(v.name)}
	}
	return ex{n: slitS([]string{"a", "b", "", "key", "zz"}[g.n(5, "msk")]), konst: true}
}

func (g *gen) stTuple() *Node {
	var ws []*vinfo
	for _, v := range g.varsOf("int") {
		if v.wide && !v.ro && g.writable(v) && !(g.f.pure && v.global) {
			ws = append(ws, v)
		}
	}
	if len(ws) >= 2 && g.chance(60) {
		a := ws[g.n(len(ws), "ta")]
		b := ws[g.n(len(ws), "tb")]
		if a != b {
			g.noteWrite(vr(a.name))
			g.noteWrite(vr(b.name))
			g.mark("tuple-assign")
			if g.chance(50) {
				return &Node{K: "tassign", S: "=", N: 2, A: []*Node{vr(a.name), vr(b.name), vr(b.name), vr(a.name)}}
			}
			e1, e2 := fitStore(g.genInt(1)), fitStore(g.genInt(1))
			g.noteExpr(e1)
			g.noteExpr(e2)
			return &Node{K: "tassign", S: "=", N: 2, A: []*Node{vr(a.name), vr(b.name), e1.n, e2.n}}
		}
	}
	e1, e2 := fitStore(g.genInt(2)), g.genBool(1)
	g.noteExpr(e1)
	g.noteExpr(e2)
	n1, n2 := g.newName(false), g.newName(false)
	g.add(&vinfo{name: n1, typ: "int", lo: e1.lo, hi: e1.hi})
	g.add(&vinfo{name: n2, typ: "bool"})
	g.mark("tuple-define")
	return &Node{K: "tassign", S: ":=", N: 2, A: []*Node{vr(n1), vr(n2), e1.n, e2.n}}
}

// stGuard: if len(s) > k { ... s[k] ... }
func (g *gen) stGuard() *Node {
	var c []*vinfo
	for _, v := range g.visible() {
		switch v.typ {
		case "string", "[]byte", "[]int":
			if !v.ro {
				c = append(c, v)
			}
		}
	}
	if len(c) == 0 {
		return g.stAssign()
	}
	v := c[g.n(len(c), "gv")]
	g.useVar(v)
	k := g.rng(0, 3, "gk")
	oldMin, oldRo := v.minLen, v.ro
	v.minLen, v.ro = max(v.minLen, k+1), true
	body, _ := g.genBlock(3)
	v.minLen, v.ro = oldMin, oldRo
	g.mark("len-guard")
	return &Node{K: "if", A: []*Node{none(), bin(">", &Node{K: "len", A: []*Node{vr(v.name)}}, ilit(int64(k)))}, B: []*Node{blk(body), none()}}
}

// stStruct: struct specific statements.
func (g *gen) stStruct() *Node {
	// nested struct value store: p.n = T1{...} / p.n = v
	for _, v := range g.visible() {
		sd := g.structDef(baseStruct(v.typ))
		if sd == nil || !g.writable(v) || (g.f.pure && (v.global || v.typ[0] == '*')) {
			continue
		}
		for _, f := range sd.Fields {
			if g.structDef(f.Type) != nil && g.chance(35) {
				var e ex
				if sv := g.pickVar(f.Type, nil); sv != nil && g.chance(50) {
					g.useVar(sv)
					e = ex{n: vr(sv.name)}
					g.mark("struct-field-store-var")
				} else {
					e, _ = g.genFreshOf(f.Type, 1)
				}
				g.noteExpr(e)
				t := &Node{K: "field", S: f.Name, A: []*Node{selBase(v)}}
				g.noteWrite(t)
				g.mark("struct-field-store")
				return &Node{K: "assign", S: "=", A: []*Node{t, e.n}}
			}
		}
	}
	// v = w / v = p.n (value copy) or v = literal
	for _, s := range g.pr.Structs {
		if v := g.pickVar(s.Name, func(v *vinfo) bool { return g.writable(v) && !v.global }); v != nil && g.chance(60) {
			if w := g.pickVar(s.Name, func(w *vinfo) bool { return w != v }); w != nil && g.chance(50) && g.on(kStructAlias) {
				g.useVar(w)
				g.mark("struct-copy")
				return &Node{K: "assign", S: "=", A: []*Node{vr(v.name), vr(w.name)}}
			}
			e, _ := g.genFreshOf(s.Name, 1)
			g.noteExpr(e)
			return &Node{K: "assign", S: "=", A: []*Node{vr(v.name), e.n}}
		}
	}
	return g.stAssign()
}
