package c14

import (
	"fmt"
	"verifharness/vt"
)

// Constructs added after the side notes of the round-4 readers (evaluation order of assignments, goto, appending a
// slice to itself, composite byte literals with calls, maps changed while they are ranged over).
//
// Everything here that has an effect inside an expression goes through ONE helper,
//
//	func tick(k int) int { g9++; return g9 & k }
//
// whose only effect is on the dedicated counter g9. Go fixes the order of function calls inside a statement
// (lexical, left to right) but not the order of a call relative to a plain variable read, so the statements built
// here never read g9 directly next to a call of tick (the counter is hidden while their operands are generated),
// and tick is never used by the general expression generator.

const (
	tickName = "tick"
	tickCtr  = "g9"
)

// tickOK: may the current function call tick here?
func (g *gen) tickOK() bool {
	return g.tickProg && g.f != nil && !g.f.pure && !g.f.noGlobals && !g.f.inInit && g.room(4)
}

// tickCall builds tick(mask): a value in [0, mask]; each evaluation moves the counter by one.
func (g *gen) tickCall(mask int64) ex {
	g.tickUse()
	return ex{n: &Node{K: "call", S: tickName, A: []*Node{ilit(mask)}}, lo: 0, hi: float64(mask)}
}

// tickUse declares the counter (once) and books a call of one of the helpers that move it.
func (g *gen) tickUse() {
	if g.tickV == nil {
		g.tickV = &vinfo{name: tickCtr, typ: "int", global: true, wide: true, lo: -wideB, hi: wideB, gidx: len(g.pr.Globals)}
		g.globals = append(g.globals, g.tickV)
		g.pr.Globals = append(g.pr.Globals, Global{Name: tickCtr, Type: "int"})
	}
	g.account(3)
	g.f.sig.readsG, g.f.sig.writesG, g.f.sig.pure = true, true, false
	g.mark("tick-call")
}

// Two more helpers of the same kind (declared only in the programs that call them):
//
//	func tickp(p, q *T1) *T1 { g9++; if g9&1 == 0 { return p }; return q }      a pointer picked by the counter
//	func tick2(k int) (int, int) { g9++; return g9 & k, g9 >> 1 & k }            two values for a tuple assignment
const (
	tickpName = "tickp"
	tick2Name = "tick2"
)

func tickpFunc() Func {
	return Func{Name: tickpName, Group: true, Params: []Field{{"p", "*T1"}, {"q", "*T1"}}, Results: []Field{{"", "*T1"}}, Body: []*Node{
		{K: "incdec", S: "++", A: []*Node{vr(tickCtr)}},
		{K: "if", A: []*Node{none(), bin("==", bin("&", vr(tickCtr), ilit(1)), ilit(0))}, B: []*Node{blk([]*Node{{K: "return", A: []*Node{vr("p")}}}), none()}},
		{K: "return", A: []*Node{vr("q")}},
	}}
}

func tick2Func() Func {
	return Func{Name: tick2Name, Params: []Field{{"k", "int"}}, Results: []Field{{"", "int"}, {"", "int"}}, Body: []*Node{
		{K: "incdec", S: "++", A: []*Node{vr(tickCtr)}},
		{K: "return", A: []*Node{bin("&", vr(tickCtr), vr("k")), bin("&", bin(">>", vr(tickCtr), ilit(1)), vr("k"))}},
	}}
}

func tickFunc() Func {
	return Func{Name: tickName, Params: []Field{{"k", "int"}}, Results: []Field{{"", "int"}}, Body: []*Node{
		{K: "incdec", S: "++", A: []*Node{vr(tickCtr)}},
		{K: "return", A: []*Node{bin("&", vr(tickCtr), vr("k"))}},
	}}
}

// Deferred calls are made observable through a second helper,
//
//	func mark(k int) { g8 = (g8*7 + k) % 1000003 }
//
// (or the same statement written out in a deferred function literal): the final value of g8 depends on which of the
// deferred calls of a function ran and in which order. The rest of the generator only reads g8.
const (
	markName = "mark"
	markCtr  = "g8"
)

func (g *gen) markVar() *vinfo {
	if g.markV == nil {
		g.markV = &vinfo{name: markCtr, typ: "int", global: true, ro: true, lo: 0, hi: 1000002, gidx: len(g.pr.Globals)}
		g.globals = append(g.globals, g.markV)
		g.pr.Globals = append(g.pr.Globals, Global{Name: markCtr, Type: "int"})
	}
	return g.markV
}

func markUpdate(k *Node) *Node {
	return &Node{K: "assign", S: "=", A: []*Node{vr(markCtr), bin("%", bin("+", bin("*", vr(markCtr), ilit(7)), k), ilit(1000003))}}
}

// markStmt is the trace update written out (for the body of a deferred function literal).
func (g *gen) markStmt() *Node {
	g.markVar()
	g.account(1)
	g.f.sig.readsG, g.f.sig.writesG, g.f.sig.pure = true, true, false
	g.mark("defer-mark")
	return markUpdate(ilit(int64(g.rng(1, 9, "mk"))))
}

// markCall builds mark(k) with a constant k.
func (g *gen) markCall() *Node {
	g.markVar()
	g.markFn = true
	g.account(3)
	g.f.sig.readsG, g.f.sig.writesG, g.f.sig.pure = true, true, false
	g.mark("defer-mark")
	return &Node{K: "call", S: markName, A: []*Node{ilit(int64(g.rng(1, 9, "mk")))}}
}

func markFunc() Func {
	return Func{Name: markName, Params: []Field{{"k", "int"}}, Body: []*Node{markUpdate(vr("k"))}}
}

// observer builds an exported function that calls the exported function f and returns its result folded together with
// the package state f left behind: the effects of the deferred calls of f itself become part of a compared value.
func (g *gen) observer(fi int) {
	f := g.funcs[fi]
	sig := &fsig{name: "W" + f.name[1:], exported: true, params: f.params, results: []string{"int"}, idx: len(g.funcs)}
	var args []*Node
	for _, p := range f.params {
		args = append(args, vr(p.Name))
	}
	var sum *Node
	switch f.results[0] {
	case "int":
		sum = bin("%", vr("v1"), ilit(1009))
	case "string", "[]byte":
		sum = &Node{K: "len", A: []*Node{vr("v1")}}
	default:
		sum = ilit(0)
	}
	primes := []int64{1013, 1019, 1021}
	k := 0
	for _, v := range g.globals {
		if v.typ == "int" && k < len(primes) && (v == g.markV || g.chance(50)) {
			sum = bin("+", sum, bin("%", vr(v.name), ilit(primes[k])))
			k++
		}
	}
	fn := Func{Name: sig.name, Params: f.params, Results: []Field{{Type: "int"}}, Body: []*Node{
		{K: "define", S: "v1", A: []*Node{{K: "call", S: f.name, A: args}}},
		{K: "return", A: []*Node{sum}},
	}}
	g.funcs = append(g.funcs, sig)
	g.pr.Funcs = append(g.pr.Funcs, fn)
	g.mark("observer")
}

// hideTick hides the counter from the expression generator; the result restores it.
func (g *gen) hideTick() func() {
	if g.tickV == nil {
		return func() {}
	}
	old := g.tickV.hidden
	g.tickV.hidden = true
	return func() { g.tickV.hidden = old }
}

func idxMask(minLen int) int64 {
	if minLen >= 4 {
		return 3
	}
	return 1
}

// sliceW picks an []int whose elements may be written here and that has at least two elements.
func (g *gen) sliceW() *vinfo {
	return g.pickVar("[]int", func(v *vinfo) bool {
		return g.writable(v) && v.minLen >= 2 && (!g.f.pure || !g.isParam(v) && !v.global)
	})
}

// observe returns st followed by a statement that folds the first two elements of the slice into a wide int variable
// (when there is one), so that a store into the wrong element shows in the results.
func (g *gen) observe(st *Node, v *vinfo) *Node {
	acc, ok := g.accTarget()
	if !ok || g.f.pure {
		return st
	}
	g.noteWrite(acc)
	g.account(1)
	el := func(i int64) *Node { return &Node{K: "index", A: []*Node{vr(v.name), ilit(i)}} }
	fold := bin("%", bin("+", el(0), bin("*", el(1), ilit(3))), ilit(1009))
	return &Node{K: "seq", B: []*Node{st, {K: "assign", S: "+=", A: []*Node{acc, fold}}}}
}

// stSide: one of the side-note statements (nil when none is possible here).
func (g *gen) stSide() *Node {
	for tries := 0; tries < 3; tries++ {
		var n *Node
		w := []int{25, 25, 15, 12, 15, 8, 10, 14, 10, 10, 8, 16, 14, 8, 12, 0, 12, 18, 14, 12, 18, 12}
		if len(g.libFuncs) > 0 {
			w[15] = 60
		}
		if g.file2 != "" {
			w[16] = 70
		}
		switch g.weighted(w, "side") {
		case 16:
			n = g.stFuncVar()
		case 17:
			n = g.stConvertArg()
		case 18:
			n = g.stFuncValueOrder()
		case 19:
			n = g.stTupleValueVar()
		case 20:
			n = g.stFuncValueMulti()
		case 21:
			n = g.stTupleByteArray()
		case 0:
			n = g.stCompoundIdx()
		case 1:
			n = g.stTupleIdx()
		case 2:
			n = g.stAppendSpread()
		case 3:
			n = g.stBytesCalls()
		case 4:
			n = g.stMapRangeDelete()
		case 5:
			n = g.stDeleteNil()
		case 6:
			n = g.stLitCalls()
		case 8:
			n = g.stAppendCopy()
		case 9:
			n = g.stSubsliceWrite()
		case 10:
			n = g.stRangeRunes()
		case 11:
			n = g.stCompoundSel()
		case 12:
			n = g.stTupleMultiRet()
		case 13:
			n = g.stAppendNilBytes()
		case 14:
			n = g.stTupleField()
		case 15:
			n = g.stLibFunc()
		default:
			n = g.stFuncLit()
		}
		if n != nil {
			return n
		}
	}
	return nil
}

// stCompoundIdx: s[tick(m)] op= e, s[tick(m)]++, m[tick(3)] op= e. Go evaluates the index once.
func (g *gen) stCompoundIdx() *Node {
	if !g.tickOK() || !g.on(kCompoundIdx) {
		return nil
	}
	var t *Node
	if g.chance(65) {
		v := g.sliceW()
		if v == nil {
			return nil
		}
		g.useVar(v)
		t = &Node{K: "index", A: []*Node{vr(v.name), g.tickCall(idxMask(v.minLen)).n}}
	} else {
		var c []*vinfo
		for _, v := range g.visible() {
			if v.typ == "map[int]int" && g.writable(v) {
				c = append(c, v)
			}
		}
		if len(c) == 0 || vt.Known(kMapMissing) {
			return nil
		}
		mv := c[g.n(len(c), "cim")]
		g.useVar(mv)
		t = &Node{K: "index", A: []*Node{vr(mv.name), g.tickCall(3).n}}
	}
	g.noteWrite(t)
	g.mark("compound-index-call")
	if g.chance(35) {
		return &Node{K: "incdec", S: []string{"++", "--"}[g.n(2, "id")], A: []*Node{t}}
	}
	restore := g.hideTick()
	e := fitAdd(g.genInt(1))
	restore()
	g.noteExpr(e)
	return &Node{K: "assign", S: []string{"+=", "-="}[g.n(2, "pm")], A: []*Node{t, e.n}}
}

// stCompoundSel: a[tick(1)].x op= e, a[tick(1)].x++, tickp(p, q).x op= e: a compound assignment whose target is a field
// selector over an index expression or a call. Go evaluates the operand of the selector once.
func (g *gen) stCompoundSel() *Node {
	if !g.tickOK() || g.structDef("T1") == nil || !g.on(kSelectorTwice) {
		return nil
	}
	fld := []string{"x", "y"}[g.n(2, "csf")]
	sel := func(n *Node) *Node { return &Node{K: "field", S: fld, A: []*Node{n}} }
	var t, fold *Node
	as := g.arrayVars(func(v *vinfo) bool { _, el := arrSplit(v.typ); return el == "T1" && g.writable(v) })
	var ps []*vinfo
	for _, v := range g.varsOf("*T1") {
		if g.writable(v) {
			ps = append(ps, v)
		}
	}
	var pre []*Node
	if len(as) == 0 && (len(ps) == 0 || g.chance(40)) {
		// an array of its own
		typ := arrTypesStruct[g.n(len(arrTypesStruct), "cst")]
		name := g.newName(false)
		if g.chance(50) {
			pre = append(pre, &Node{K: "vardecl", S: name, T: typ})
			as = append(as, g.declare(name, typ, ex{}))
		} else {
			e := g.arrLit(typ, 1)
			g.noteExpr(e)
			pre = append(pre, &Node{K: "define", S: name, A: []*Node{e.n}})
			as = append(as, g.declare(name, typ, e))
		}
		g.account(1)
	}
	switch {
	case len(as) > 0 && (len(ps) == 0 || len(pre) > 0 || g.chance(50)):
		v := as[g.n(len(as), "csa")]
		g.useVar(v)
		el := func(i int64) *Node { return sel(&Node{K: "index", A: []*Node{vr(v.name), ilit(i)}}) }
		t = sel(&Node{K: "index", A: []*Node{vr(v.name), g.tickCall(1).n}})
		fold = bin("+", el(0), bin("*", el(1), ilit(3)))
		g.noteWrite(vr(v.name))
		g.mark("compound-selector-index-call")
	case len(ps) > 0:
		p, q := ps[g.n(len(ps), "csp")], ps[g.n(len(ps), "csq")]
		g.useVar(p)
		g.useVar(q)
		g.tickUse()
		g.tickpFn = true
		t = sel(&Node{K: "call", S: tickpName, A: []*Node{vr(p.name), vr(q.name)}})
		fold = bin("+", sel(selBase(p)), bin("*", sel(selBase(q)), ilit(3)))
		g.noteWrite(vr(p.name))
		g.noteWrite(vr(q.name))
		g.mark("compound-selector-call")
	default:
		return nil
	}
	var st *Node
	if g.chance(35) {
		st = &Node{K: "incdec", S: []string{"++", "--"}[g.n(2, "id")], A: []*Node{t}}
	} else {
		restore := g.hideTick()
		e := fitAdd(g.genInt(1))
		restore()
		g.noteExpr(e)
		st = &Node{K: "assign", S: []string{"+=", "-="}[g.n(2, "pm")], A: []*Node{t, e.n}}
	}
	out := append(pre, st)
	if acc, ok := g.accTarget(); ok {
		g.noteWrite(acc)
		g.account(1)
		out = append(out, &Node{K: "assign", S: "+=", A: []*Node{acc, bin("%", fold, ilit(1009))}})
	}
	return &Node{K: "seq", B: out}
}

// stTupleMultiRet: the tuple forms of stTupleIdx fed by ONE call with two results:
//
//	i := 1; s[i], i = f()        i, s[i] = f()        s[1], s[1] = f()        w, w = f()
//
// f is a generated function with the results (int, int) or the helper tick2.
func (g *gen) stTupleMultiRet() *Node {
	if g.f.pure || g.f.inInit || !g.room(8) || !g.on(kTupleMultiRet) {
		return nil
	}
	var call *Node
	small := false
	var cs []*fsig
	for _, f := range g.callables([]string{"int", "int"}, false) {
		// (the operands of the targets are on the evaluation stack while f runs)
		if !(f.soft && g.f.noSoftExpr) {
			cs = append(cs, f)
		}
	}
	if len(cs) > 0 && (!g.tickOK() || g.chance(50)) {
		f := cs[g.n(len(cs), "tmf")]
		args, acc, ok := g.genArgs(f, 1)
		if !ok {
			return nil
		}
		g.noteExpr(acc)
		g.f.stackItems++
		g.noteCall(f)
		g.f.stackItems--
		if !f.pure {
			g.f.sig.pure = false
			g.mark("effect-call")
		}
		call = &Node{K: "call", S: f.name, A: args}
	} else if g.tickOK() {
		g.tickUse()
		g.tick2Fn = true
		small = true
		call = &Node{K: "call", S: tick2Name, A: []*Node{ilit(1)}}
	} else {
		return nil
	}
	g.mark("tuple-multi-value-call")
	form := g.n(4, "tmk")
	v := g.sliceW()
	if form == 3 || v == nil {
		var ws []*vinfo
		for _, w := range g.varsOf("int") {
			if w.wide && !w.ro && g.writable(w) {
				ws = append(ws, w)
			}
		}
		if len(ws) == 0 {
			return nil
		}
		w := ws[g.n(len(ws), "tw")]
		g.noteWrite(vr(w.name))
		return &Node{K: "mret", S: "=", N: 2, A: []*Node{vr(w.name), vr(w.name), call}}
	}
	g.useVar(v)
	g.noteWrite(&Node{K: "index", A: []*Node{vr(v.name), ilit(0)}})
	top := int(idxMask(v.minLen))
	if small {
		call.A[0] = ilit(int64(top))
	}
	if form == 2 {
		c1 := int64(g.rng(0, top, "c1"))
		return g.observe(&Node{K: "mret", S: "=", N: 2, A: []*Node{
			{K: "index", A: []*Node{vr(v.name), ilit(c1)}}, {K: "index", A: []*Node{vr(v.name), ilit(c1)}}, call}}, v)
	}
	name := g.newName(false)
	decl := &Node{K: "define", S: name, A: []*Node{ilit(int64(g.rng(0, top, "i0")))}}
	iv := g.add(&vinfo{name: name, typ: "int", lo: -storeB, hi: storeB})
	if small {
		iv.lo, iv.hi = 0, float64(top)
	}
	el := &Node{K: "index", A: []*Node{vr(v.name), vr(name)}}
	g.account(1)
	lhs := []*Node{el, vr(name)}
	if form == 1 {
		lhs = []*Node{vr(name), el}
	}
	return g.observe(&Node{K: "seq", B: []*Node{decl, {K: "mret", S: "=", N: 2, A: append(lhs, call)}}}, v)
}

// stTupleField: a tuple assignment with a struct field reached through a pointer among its targets, the pointer written
// in any of the styles p.x, (p).x, (*p).x:    (*p).x, w = e1, e2        s[0], p.y = e1, e2        (*p).x, (*p).y = e1, e2
func (g *gen) stTupleField() *Node {
	if g.f.pure || !g.on(kTupleDeref) {
		return nil
	}
	var ps []*vinfo
	for _, v := range g.visible() {
		if len(v.typ) > 0 && v.typ[0] == '*' && g.structDef(baseStruct(v.typ)) != nil && g.writable(v) {
			ps = append(ps, v)
		}
	}
	if len(ps) == 0 {
		return nil
	}
	p := ps[g.n(len(ps), "tfp")]
	g.useVar(p)
	var ints []string
	for _, f := range g.structDef(baseStruct(p.typ)).Fields {
		if f.Type == "int" {
			ints = append(ints, f.Name)
		}
	}
	field := func() *Node {
		base := vr(p.name)
		switch g.weighted([]int{60, 25, 15}, "tfs") {
		case 0:
			base = &Node{K: "deref", A: []*Node{base}}
			g.mark("tuple-deref-field")
		case 2:
			base = &Node{K: "paren", A: []*Node{base}}
		}
		return &Node{K: "field", S: ints[g.n(len(ints), "tff")], A: []*Node{base}}
	}
	t1 := field()
	var t2 *Node
	switch g.n(3, "tf2") {
	case 0:
		t2 = field()
	case 1:
		if v := g.sliceW(); v != nil {
			g.useVar(v)
			t2 = &Node{K: "index", A: []*Node{vr(v.name), ilit(int64(g.rng(0, int(idxMask(v.minLen)), "tfi")))}}
		}
	}
	if t2 == nil {
		if w, ok := g.accTarget(); ok {
			t2 = w
		} else {
			t2 = field()
		}
	}
	g.noteWrite(t1)
	g.noteWrite(t2)
	e1, e2 := fitStore(g.genInt(1)), fitStore(g.genInt(1))
	g.noteExpr(e1)
	g.noteExpr(e2)
	st := &Node{K: "tassign", S: "=", N: 2, A: []*Node{t1, t2, e1.n, e2.n}}
	if g.chance(40) {
		st.A[0], st.A[1] = t2, t1
	}
	g.mark("tuple-field-assign")
	if acc, ok := g.accTarget(); ok {
		g.noteWrite(acc)
		g.account(1)
		read := &Node{K: "field", S: t1.S, A: []*Node{selBase(p)}}
		return &Node{K: "seq", B: []*Node{st, {K: "assign", S: "+=", A: []*Node{acc, bin("%", read, ilit(1009))}}}}
	}
	return st
}

// stAppendNilBytes: b = append(b, t...) with a nil []byte t appends nothing.
func (g *gen) stAppendNilBytes() *Node {
	if !g.on(kAppendNilBytes) {
		return nil
	}
	b := g.pickVar("[]byte", func(v *vinfo) bool { return v.growing && g.writable(v) && !v.global && !g.isParam(v) })
	if b == nil {
		return nil
	}
	g.account(2)
	tn := g.newName(false)
	g.mark("append-nil-bytes")
	return blk([]*Node{
		{K: "vardecl", S: tn, T: "[]byte"},
		{K: "assign", S: "=", A: []*Node{vr(b.name), {K: "append", S: "...", A: []*Node{vr(b.name), vr(tn)}}}},
	})
}

// stLibFunc: a function of the imported package called directly, t = lib.L0(x), used as a value:
// v := lib.L0; t = v(x)        t = (lib.L0)(x)
// or a variable of function type of that package called through the package selector: t = lib.V0(x)        t = lib.W0()
func (g *gen) stLibFunc() *Node {
	t, ok := g.accTarget()
	if !ok || len(g.libFuncs) == 0 || !g.room(6) {
		return nil
	}
	g.noteWrite(t)
	g.account(4)
	var fns, vars []*Func
	for i := range g.libFuncs {
		if g.libFuncs[i].AsVar {
			vars = append(vars, &g.libFuncs[i])
		} else {
			fns = append(fns, &g.libFuncs[i])
		}
	}
	g.libUsed = true
	if len(vars) > 0 && g.chance(50) && g.on(kImportedFuncVar) {
		v := vars[g.n(len(vars), "lv")]
		call := &Node{K: "call", S: libAlias + "." + v.Name}
		if len(v.Params) > 0 {
			for range v.Params {
				arg := fitStore(g.genInt(1))
				g.noteExpr(arg)
				call.A = append(call.A, arg.n)
			}
			g.mark("imported-func-var-call")
		} else {
			g.mark("imported-func-var-call-noargs")
		}
		if v.ViaInit {
			g.mark("imported-func-var-set-by-init")
		}
		if g.chance(30) {
			return &Node{K: "assign", S: "+=", A: []*Node{t, bin("%", call, ilit(1009))}}
		}
		return &Node{K: "assign", S: "=", A: []*Node{t, call}}
	}
	name := libAlias + "." + fns[g.n(len(fns), "lf")].Name
	arg := fitStore(g.genInt(1))
	g.noteExpr(arg)
	form := g.n(3, "lfk")
	if form > 0 && !g.on(kImportedFuncVal) {
		form = 0
	}
	switch form {
	case 0:
		g.mark("imported-func-call")
		return &Node{K: "assign", S: "=", A: []*Node{t, {K: "call", S: name, A: []*Node{arg.n}}}}
	case 1:
		g.mark("imported-func-value")
		return &Node{K: "assign", S: "=", A: []*Node{t, {K: "call", S: "(" + name + ")", A: []*Node{arg.n}}}}
	}
	g.mark("imported-func-value")
	v := g.newName(false)
	return &Node{K: "seq", B: []*Node{
		{K: "define", S: v, A: []*Node{vr(name)}},
		{K: "assign", S: "=", A: []*Node{t, {K: "call", S: v, A: []*Node{arg.n}}}},
	}}
}

// stTupleIdx: tuple assignments whose outcome depends on the two phases of a Go assignment (index operands on the
// left are evaluated first, then the stores happen from left to right):
//
//	i := 1; s[i], i = e, 0        i, s[i] = 0, e        s[1], s[1] = e1, e2        w, w = e1, e2
func (g *gen) stTupleIdx() *Node {
	if !g.on(kTupleOrder) {
		return nil
	}
	form := g.n(4, "tif")
	if form == 3 {
		var ws []*vinfo
		for _, v := range g.varsOf("int") {
			if v.wide && !v.ro && g.writable(v) && !(g.f.pure && v.global) {
				ws = append(ws, v)
			}
		}
		if len(ws) == 0 {
			return nil
		}
		w := ws[g.n(len(ws), "tw")]
		e1, e2 := fitStore(g.genInt(1)), fitStore(g.genInt(1))
		g.noteExpr(e1)
		g.noteExpr(e2)
		g.noteWrite(vr(w.name))
		g.mark("tuple-same-target")
		return &Node{K: "tassign", S: "=", N: 2, A: []*Node{vr(w.name), vr(w.name), e1.n, e2.n}}
	}
	v := g.sliceW()
	if v == nil {
		return nil
	}
	g.useVar(v)
	e1 := fitStore(g.genInt(1))
	g.noteExpr(e1)
	g.noteWrite(&Node{K: "index", A: []*Node{vr(v.name), ilit(0)}})
	top := int(idxMask(v.minLen))
	if form == 2 {
		c1 := int64(g.rng(0, top, "c1"))
		c2 := c1
		if g.chance(40) {
			c2 = int64(g.rng(0, top, "c2"))
		}
		e2 := fitStore(g.genInt(1))
		g.noteExpr(e2)
		g.mark("tuple-same-target")
		return g.observe(&Node{K: "tassign", S: "=", N: 2, A: []*Node{
			{K: "index", A: []*Node{vr(v.name), ilit(c1)}}, {K: "index", A: []*Node{vr(v.name), ilit(c2)}}, e1.n, e2.n}}, v)
	}
	// a dedicated index variable (never assigned by anything else, always a valid index of v)
	name := g.newName(false)
	i0 := int64(g.rng(0, top, "i0"))
	var e2 *Node
	if g.chance(50) {
		e2 = ilit(int64(g.rng(0, top, "i1")))
	} else {
		e2 = bin("&", bin("+", vr(name), ilit(1)), ilit(int64(top)))
	}
	decl := &Node{K: "define", S: name, A: []*Node{ilit(i0)}}
	g.add(&vinfo{name: name, typ: "int", lo: 0, hi: float64(top)})
	el := &Node{K: "index", A: []*Node{vr(v.name), vr(name)}}
	g.account(1)
	g.mark("tuple-index-assign")
	if form == 0 {
		return g.observe(&Node{K: "seq", B: []*Node{decl, {K: "tassign", S: "=", N: 2, A: []*Node{el, vr(name), e1.n, e2}}}}, v)
	}
	return g.observe(&Node{K: "seq", B: []*Node{decl, {K: "tassign", S: "=", N: 2, A: []*Node{vr(name), el, e2, e1.n}}}}, v)
}

// stAppendSpread: s = append(s, t...), t possibly s itself (Go takes the length of t before anything is appended).
func (g *gen) stAppendSpread() *Node {
	v := g.pickVar("[]int", func(v *vinfo) bool { return v.growing && g.writable(v) && !v.global && !g.isParam(v) })
	if v == nil {
		return nil
	}
	var c []*vinfo
	for _, t := range g.varsOf("[]int") {
		c = append(c, t)
	}
	t := v
	if g.chance(50) {
		t = c[g.n(len(c), "spt")]
	}
	var total int
	if t == v {
		if g.f.mult != 1 || g.f.loopDepth > 0 || !g.on(kAppendSelf) {
			return nil
		}
		total = 2 * v.appends
		g.mark("append-self")
	} else {
		total = v.appends + max(t.appends, t.minLen)*g.f.mult
	}
	if total > 12 {
		return nil
	}
	v.appends = total
	g.useVar(t)
	g.mark("append-spread")
	return &Node{K: "assign", S: "=", A: []*Node{vr(v.name), {K: "append", S: "...", A: []*Node{vr(v.name), vr(t.name)}}}}
}

// stBytesCalls: b := []byte{byte(tick(255)), 7, byte(tick(255))}: the calls happen from left to right.
func (g *gen) stBytesCalls() *Node {
	if !g.tickOK() || !g.room(16) || !g.on(kBytesLitOrder) {
		return nil
	}
	k := g.rng(2, 4, "bcl")
	n := &Node{K: "slit", T: "[]byte"}
	calls := 0
	for i := 0; i < k; i++ {
		if calls < 2 && i >= k-2 || g.chance(50) {
			n.A = append(n.A, &Node{K: "conv", T: "byte", A: []*Node{g.tickCall(255).n}})
			calls++
		} else {
			n.A = append(n.A, ilit(byteVals[g.n(len(byteVals), "bv")]))
		}
	}
	name := g.newName(false)
	v := g.declare(name, "[]byte", ex{minLen: k, short: true, fresh: true, maxLen: float64(k)})
	v.growing, v.maxLen = false, 16
	g.mark("bytes-literal-calls")
	return &Node{K: "define", S: name, A: []*Node{n}}
}

// stLitCalls: s := []int{tick(255), 7, tick(255)}: the calls happen from left to right.
func (g *gen) stLitCalls() *Node {
	if !g.tickOK() || !g.room(16) || !g.on(kLitOrder) {
		return nil
	}
	k := g.rng(2, 4, "lcl")
	n := &Node{K: "slit", T: "[]int"}
	calls := 0
	for i := 0; i < k; i++ {
		if calls < 2 && i >= k-2 || g.chance(50) {
			n.A = append(n.A, g.tickCall(255).n)
			calls++
		} else {
			n.A = append(n.A, ilit(smallInts[g.n(len(smallInts), "lcv")]))
		}
	}
	name := g.newName(false)
	v := g.declare(name, "[]int", ex{minLen: k, fresh: true})
	g.mark("slice-literal-calls")
	return g.observe(&Node{K: "define", S: name, A: []*Node{n}}, v)
}

// stMapRangeDelete: the body of a range over a map empties the map. Go does not produce removed entries, so the
// loop runs exactly once (for a non-empty map) whatever the iteration order is.
func (g *gen) stMapRangeDelete() *Node {
	if vt.Known(kMapMissing) || !g.room(40) || !g.on(kRangeMapDel) {
		return nil
	}
	var c []*vinfo
	for _, v := range g.visible() {
		if (v.typ == "map[int]int" || v.typ == "map[string]int") && g.writable(v) && !v.nodel && (!g.f.pure || !g.isParam(v) && !v.global) {
			c = append(c, v)
		}
	}
	acc, ok := g.accTarget()
	if len(c) == 0 || !ok {
		return nil
	}
	mv := c[g.n(len(c), "mrd")]
	g.useVar(mv)
	g.noteWrite(vr(mv.name))
	g.noteWrite(acc)
	g.account(24)
	kn, vn, k2 := g.newName(false), g.newName(false), g.newName(false)
	key, val := none(), none()
	switch g.n(3, "mrf") {
	case 1:
		key = vr(kn)
	case 2:
		key, val = vr(kn), vr(vn)
	}
	inner := &Node{K: "range", T: ":=", A: []*Node{vr(k2), none(), vr(mv.name)}, B: []*Node{{K: "delete", A: []*Node{vr(mv.name), vr(k2)}}}}
	upd := &Node{K: "assign", S: "+=", A: []*Node{acc, ilit(int64(g.rng(1, 9, "mrc")))}}
	mv.sureI, mv.sureS = nil, nil
	g.mark("range-map-delete")
	return &Node{K: "range", T: ":=", A: []*Node{key, val, vr(mv.name)}, B: []*Node{inner, upd}}
}

// stDeleteNil: a nil map behaves like an empty one for delete, len, reads and comma-ok reads; appending the
// elements of a nil slice appends nothing. The nil variables live in a block of their own (nothing else sees them).
func (g *gen) stDeleteNil() *Node {
	acc, ok := g.accTarget()
	if !ok || !g.on(kDeleteNilMap) {
		return nil
	}
	g.noteWrite(acc)
	g.account(6)
	name := g.newName(false)
	typ := []string{"map[int]int", "map[string]int"}[g.n(2, "dnt")]
	key := func() *Node {
		if typ == "map[int]int" {
			return ilit(int64(g.rng(-1, 4, "dnk")))
		}
		return slitS([]string{"a", "", "key"}[g.n(3, "dns")])
	}
	add := func(e *Node) *Node { return &Node{K: "assign", S: "+=", A: []*Node{acc, e}} }
	g.mark("delete-nil-map")
	body := []*Node{{K: "vardecl", S: name, T: typ}}
	if g.chance(60) {
		body = append(body, &Node{K: "delete", A: []*Node{vr(name), key()}})
	}
	if g.chance(50) && g.on(kNilMapRead) {
		body = append(body, add(bin("+", &Node{K: "index", A: []*Node{vr(name), key()}}, ilit(int64(g.rng(1, 9, "dnr"))))))
		g.mark("nil-map-read")
	}
	if g.chance(40) && g.on(kNilMapRead) {
		vn, on := g.newName(false), g.newName(false)
		body = append(body,
			&Node{K: "mapok", S: ":=", A: []*Node{vr(vn), vr(on), vr(name), key()}},
			&Node{K: "if", A: []*Node{none(), un("!", vr(on))}, B: []*Node{blk([]*Node{add(bin("+", vr(vn), ilit(2)))}), none()}})
		g.mark("nil-map-read")
	}
	body = append(body, add(bin("+", &Node{K: "len", A: []*Node{vr(name)}}, ilit(int64(g.rng(1, 9, "dnc"))))))
	if v := g.pickVar("[]int", func(v *vinfo) bool { return v.growing && g.writable(v) && !v.global && !g.isParam(v) }); v != nil && g.chance(50) && g.on(kAppendNil) {
		tn := g.newName(false)
		body = append(body,
			&Node{K: "vardecl", S: tn, T: "[]int"},
			&Node{K: "assign", S: "=", A: []*Node{vr(v.name), {K: "append", S: "...", A: []*Node{vr(v.name), vr(tn)}}}})
		g.mark("append-nil-slice")
	}
	return blk(body)
}

// stFuncLit: a function literal without free variables (closures are outside the dialect) held by a local variable
// and called at once: v := func(a0 int) int { return e }; w = v(x).
func (g *gen) stFuncLit() *Node {
	t, ok := g.accTarget()
	if !ok || !g.room(6) {
		return nil
	}
	g.noteWrite(t)
	if g.chance(35) && g.on(kNamedFuncValue) {
		if n := g.stNamedFuncValue(t); n != nil {
			return n
		}
	}
	g.account(4)
	// the body sees its parameter only
	outer := g.f
	g.f = &fctx{sig: &fsig{safe: true, pure: true}, noPanic: true, noGlobals: true, pure: true, inLambda: true, budget: 30, mult: 1}
	g.push()
	g.add(&vinfo{name: "p0", typ: "int", lo: -storeB, hi: storeB, param: true})
	body := fitStore(g.genInt(2))
	g.pop()
	g.f = outer
	arg := fitStore(g.genInt(1))
	g.noteExpr(arg)
	name := g.newName(false)
	lit := &Node{K: "funclit", A: []*Node{body.n}}
	g.mark("func-literal-local")
	return &Node{K: "seq", B: []*Node{
		{K: "define", S: name, A: []*Node{lit}},
		{K: "assign", S: "=", A: []*Node{t, {K: "call", S: name, A: []*Node{arg.n}}}},
	}}
}

// stNamedFuncValue: a declared function used as a value: v := f0; t = v(args), or called through parentheses: t = (f0)(args).
func (g *gen) stNamedFuncValue(t *Node) *Node {
	var cs []*fsig
	for _, f := range g.callables([]string{"int"}, true) {
		if !g.pr.Funcs[f.idx].AsVar {
			cs = append(cs, f)
		}
	}
	if len(cs) == 0 {
		return nil
	}
	f := cs[g.n(len(cs), "nfv")]
	args, acc, ok := g.genArgs(f, 1)
	if !ok {
		return nil
	}
	g.noteExpr(acc)
	g.noteCall(f)
	g.account(2)
	g.mark("named-func-value")
	if g.chance(25) {
		return &Node{K: "assign", S: "=", A: []*Node{t, {K: "call", S: "(" + f.name + ")", A: args}}}
	}
	if f.recv == "" && g.chance(40) && g.on(kFuncField) {
		// ... kept in a field of a struct and called through it: w := TFk{n: 1, f: f0}; t = w.f(args)
		ft := "func("
		for i, p := range f.params {
			if i > 0 {
				ft += ", "
			}
			ft += p.Type
		}
		ft += ") int"
		sn := ""
		for _, sd := range g.pr.FuncStructs {
			if sd.Fields[1].Type == ft {
				sn = sd.Name
			}
		}
		if sn == "" {
			sn = fmt.Sprintf("TF%d", len(g.pr.FuncStructs))
			g.pr.FuncStructs = append(g.pr.FuncStructs, StructDef{Name: sn, Fields: []Field{{Name: "n", Type: "int"}, {Name: "f", Type: ft}}})
		}
		g.mark("func-field-call")
		w := g.newName(false)
		lit := &Node{K: "stlit", T: sn, A: []*Node{{S: "n", A: []*Node{ilit(1)}}, {S: "f", A: []*Node{vr(f.name)}}}}
		if g.chance(40) {
			lit.S = "&"
		}
		return &Node{K: "seq", B: []*Node{
			{K: "define", S: w, A: []*Node{lit}},
			{K: "assign", S: "=", A: []*Node{t, {K: "call", S: w + ".f", A: args}}},
		}}
	}
	name := g.newName(false)
	return &Node{K: "seq", B: []*Node{
		{K: "define", S: name, A: []*Node{vr(f.name)}},
		{K: "assign", S: "=", A: []*Node{t, {K: "call", S: name, A: args}}},
	}}
}

// stTypeSwitch: switch any(e).(type) { case int: ... case string, bool: ... default: ... }. The compiler has no
// translation for it (the VM does not tell Go's types apart) and refuses it by name.
func (g *gen) stTypeSwitch() *Node {
	typ := []string{"int", "bool", "string"}[g.n(3, "tst")]
	e, _ := g.genOf(typ, 1)
	g.noteExpr(e)
	n := &Node{K: "typeswitch", A: []*Node{e.n}}
	g.push()
	defer g.pop()
	g.enterLoop("switch")
	g.f.stackItems++
	defer func() { g.f.stackItems-- }()
	lists := [][]string{{"int"}, {"string"}, {"bool", "[]byte"}, {""}}
	k := g.rng(1, len(lists), "tsn")
	start := g.n(len(lists), "tss")
	for i := 0; i < k; i++ {
		c := &Node{K: "tcase"}
		for j, tn := range lists[(start+i)%len(lists)] {
			if j > 0 {
				c.S += ", "
			}
			c.S += tn
		}
		c.B, _ = g.genBlock(2)
		n.B = append(n.B, c)
	}
	g.leaveLoop(n)
	g.mark("type-switch")
	return n
}

// stMethodValue: v := x.m; t = v(args). A method value binds its receiver (a closure): outside the dialect, the compiler
// refuses it by name.
func (g *gen) stMethodValue() *Node {
	t, ok := g.accTarget()
	if !ok {
		return nil
	}
	var ms []*fsig
	for _, f := range g.funcs {
		if f.recv != "" && len(f.results) == 1 && f.results[0] == "int" && g.callOK(f, true) && len(g.varsOf(f.recv)) > 0 {
			ms = append(ms, f)
		}
	}
	if len(ms) == 0 {
		return nil
	}
	f := ms[g.n(len(ms), "mvm")]
	args, acc, ok := g.genArgs(f, 1)
	if !ok {
		return nil
	}
	rv := g.pickVar(f.recv, nil)
	g.useVar(rv)
	g.noteExpr(acc)
	g.noteCall(f)
	g.noteWrite(t)
	g.account(2)
	name := g.newName(false)
	g.mark("method-value")
	return &Node{K: "seq", B: []*Node{
		{K: "define", S: name, A: []*Node{{K: "mval", S: f.name, A: []*Node{vr(rv.name)}}}},
		{K: "assign", S: "=", A: []*Node{t, {K: "call", S: name, A: args}}},
	}}
}

// stAppendCopy: w := append(v, e) for a slice v whose capacity equals its length (the value of a literal nobody has
// appended to): Go allocates a new array, so v keeps its length and a write through w does not reach v.
func (g *gen) stAppendCopy() *Node {
	if !g.on(kAppendAlias) {
		return nil
	}
	acc, ok := g.accTarget()
	v := g.pickVar("[]int", func(v *vinfo) bool { return v.fromLit && !v.growing && !v.global && !v.param })
	if !ok || v == nil || !g.room(8) {
		return nil
	}
	g.useVar(v)
	g.noteWrite(acc)
	g.account(5)
	e := fitStore(g.genInt(1))
	g.noteExpr(e)
	name := g.newName(false)
	out := []*Node{{K: "define", S: name, A: []*Node{{K: "append", A: []*Node{vr(v.name), e.n}}}}}
	g.add(&vinfo{name: name, typ: "[]int", minLen: v.minLen + 1, appends: v.minLen + 1})
	ln := func(x string) *Node { return &Node{K: "len", A: []*Node{vr(x)}} }
	fold := bin("+", bin("*", ln(v.name), ilit(16)), ln(name))
	if v.minLen > 0 {
		out = append(out, &Node{K: "assign", S: "=", A: []*Node{{K: "index", A: []*Node{vr(name), ilit(0)}}, ilit(int64(g.rng(100, 999, "acw")))}})
		fold = bin("+", fold, bin("%", &Node{K: "index", A: []*Node{vr(v.name), ilit(0)}}, ilit(1009)))
	}
	out = append(out, &Node{K: "assign", S: "+=", A: []*Node{acc, fold}})
	g.mark("append-to-new-variable")
	return &Node{K: "seq", B: out}
}

// stSubsliceWrite: w := b[lo:hi]; w[0] = c; acc += int(b[lo]): a sub-slice shares the array of its operand.
func (g *gen) stSubsliceWrite() *Node {
	if !g.on(kSubsliceCopy) {
		return nil
	}
	acc, ok := g.accTarget()
	v := g.pickVar("[]byte", func(v *vinfo) bool { return !v.ro && !v.maybeNil && v.minLen >= 2 && !v.global && !v.param })
	if !ok || !g.room(8) {
		return nil
	}
	var pre []*Node
	if v == nil || g.chance(40) {
		// a byte slice of its own
		k := g.rng(2, 4, "ssk")
		lit := &Node{K: "slit", T: "[]byte"}
		for i := 0; i < k; i++ {
			lit.A = append(lit.A, ilit(byteVals[g.n(len(byteVals), "ssb")]))
		}
		nm := g.newName(false)
		v = g.add(&vinfo{name: nm, typ: "[]byte", minLen: k, maxLen: 16})
		pre = append(pre, &Node{K: "define", S: nm, A: []*Node{lit}})
	}
	g.useVar(v)
	g.noteWrite(acc)
	g.account(4)
	lo := g.rng(0, v.minLen-1, "sslo")
	hi := g.rng(lo+1, v.minLen, "sshi")
	name := g.newName(false)
	g.add(&vinfo{name: name, typ: "[]byte", minLen: hi - lo, maxLen: 16, ro: true})
	g.mark("subslice-write")
	return &Node{K: "seq", B: append(pre, []*Node{
		{K: "define", S: name, A: []*Node{{K: "slice", A: []*Node{vr(v.name), ilit(int64(lo)), ilit(int64(hi))}}}},
		{K: "assign", S: "=", A: []*Node{{K: "index", A: []*Node{vr(name), ilit(0)}}, ilit(byteVals[g.n(len(byteVals), "ssv")])}},
		{K: "assign", S: "+=", A: []*Node{acc, {K: "conv", T: "int", A: []*Node{{K: "index", A: []*Node{vr(v.name), ilit(int64(lo))}}}}}},
	}...)}
}

// stRangeRunes: for i := range "aéz" { acc += i + 1 }: a range over a string produces one iteration per character (rune)
// with the byte offset of its first byte, not one per byte.
func (g *gen) stRangeRunes() *Node {
	if !g.on(kStringRunes) {
		return nil
	}
	acc, ok := g.accTarget()
	if !ok || !g.room(12) {
		return nil
	}
	g.noteWrite(acc)
	g.account(10)
	lit := slitS([]string{"aéz", "日本", "é", "xyü", "€5"}[g.n(5, "rrs")])
	g.mark("range-string-multibyte")
	if g.chance(40) {
		return &Node{K: "range", T: ":=", A: []*Node{none(), none(), lit}, B: []*Node{{K: "assign", S: "+=", A: []*Node{acc, ilit(int64(g.rng(1, 9, "rrc")))}}}}
	}
	kn := g.newName(false)
	return &Node{K: "range", T: ":=", A: []*Node{vr(kn), none(), lit}, B: []*Node{{K: "assign", S: "+=", A: []*Node{acc, bin("+", vr(kn), ilit(1))}}}}
}

// stGoto: a counting loop built with a backward goto, or a forward goto that skips a block. Label and goto are in
// the same block and nothing is declared between them at that level (what Go requires).
func (g *gen) stGoto() *Node {
	lab := g.newLabel()
	g.mark("goto")
	if g.chance(50) {
		N := g.rng(2, 4, "gN")
		name := g.newName(false)
		g.add(&vinfo{name: name, typ: "int", ro: true, lo: 0, hi: float64(N)})
		old := g.f.mult
		g.f.mult *= N
		body, _ := g.genBlock(3)
		g.account(2)
		g.f.mult = old
		g.mark("goto-backward")
		return &Node{K: "seq", B: []*Node{
			{K: "define", S: name, A: []*Node{ilit(0)}},
			{K: "label", S: lab},
			{K: "incdec", S: "++", A: []*Node{vr(name)}},
			blk(body),
			{K: "if", A: []*Node{none(), bin("<", vr(name), ilit(int64(N)))}, B: []*Node{blk([]*Node{{K: "goto", S: lab}}), none()}},
		}}
	}
	c := g.genBool(2)
	if c.konst {
		c = g.genBool(0)
	}
	g.noteExpr(c)
	body, _ := g.genBlock(3)
	g.mark("goto-forward")
	return &Node{K: "seq", B: []*Node{
		{K: "if", A: []*Node{none(), c.n}, B: []*Node{blk([]*Node{{K: "goto", S: lab}}), none()}},
		blk(body),
		{K: "label", S: lab},
		blk(nil), // (a label needs a statement after it, and the end of a case clause is none)
	}}
}
