// Package c14 checks property C14: compiled contracts behave like the Go source (differential execution of
// generated programs: neo-go compiler + NeoVM against the standard Go toolchain).
package c14

import (
	"fmt"
	"strconv"
	"strings"

	"verifharness/vt"
)

// Node is one node of the generated program tree (expression or statement). It is plain data; ast.go renders it
// to Go source text deterministically.
//
// Expressions: lit var bin un call mcall index slice field len conv minmax append slit mlit stlit alit recover none
// Statements:  define vardecl assign incdec tassign mret mapok if for3 forc forever range switch case break continue
//
//	return defer deferlit panic expr block delete label goto
type Node struct {
	K string  `json:"k"`
	S string  `json:"s,omitempty"` // identifier / operator / string literal / label
	N int64   `json:"n,omitempty"` // integer literal / flag
	T string  `json:"t,omitempty"` // type
	A []*Node `json:"a,omitempty"` // operands
	B []*Node `json:"b,omitempty"` // nested statements / clauses
}

// Field is a name with a type (struct field, parameter, result, receiver).
type Field struct {
	Name string `json:"name,omitempty"`
	Type string `json:"type"`
}

// StructDef is a generated struct type.
type StructDef struct {
	Name   string  `json:"name"`
	Fields []Field `json:"fields"`
	Emb    string  `json:"emb,omitempty"` // name of the field that is embedded (declared by its type only; its name is the type name)
}

// Global is a package-level variable; Init is nil for a zero-valued declaration.
type Global struct {
	Name string `json:"name"`
	Type string `json:"type"`
	Init *Node  `json:"init,omitempty"`
	Deps []int  `json:"deps,omitempty"` // indices of globals the initialiser reads (for the Go-side reset emulation)
}

// Func is a generated function or method.
type Func struct {
	Name  string `json:"name"`
	Group bool   `json:"group,omitempty"` // print adjacent named parameters / results of one type as "a, b int"
	AsVar bool   `json:"asvar,omitempty"` // declared as a package variable holding a function literal: var h0 = func(...) ... {...}
	// Alias (with AsVar): the variable holds a declared function instead of a literal: var hv0 = f3 (Params / Results give
	// the type, there is no body). ViaInit (with AsVar): the variable is declared without a value and set by an init()
	// function printed right after it: var hv0 func(int) int; func init() { hv0 = ... }. File2 (with AsVar): the
	// declaration goes to the second file of the package (Prog.File2Name).
	Alias   string  `json:"alias,omitempty"`
	ViaInit bool    `json:"via_init,omitempty"`
	File2   bool    `json:"file2,omitempty"`
	Recv    *Field  `json:"recv,omitempty"`
	Params  []Field `json:"params,omitempty"`
	Results []Field `json:"results,omitempty"`
	Body    []*Node `json:"body"`
}

// Arg is one argument value of a call of an exported function.
type Arg struct {
	T string   `json:"t"` // int bool string []byte
	I int64    `json:"i,omitempty"`
	B bool     `json:"b,omitempty"`
	S vt.Bytes `json:"s,omitempty"`
}

// Call is an exported function applied to an argument tuple.
type Call struct {
	F    int   `json:"f"` // index into Prog.Funcs
	Args []Arg `json:"args,omitempty"`
}

// Prog is one generated contract.
type Prog struct {
	Structs []StructDef `json:"structs,omitempty"`
	// FuncStructs: struct types with a field of function type (used by one statement shape only, never as the type
	// of a tracked variable).
	FuncStructs []StructDef `json:"func_structs,omitempty"`
	Globals     []Global    `json:"globals,omitempty"`
	Inits       [][]*Node   `json:"inits,omitempty"`
	// HasDeploy: the program declares func _deploy(data any, isUpdate bool) with the body Deploy (the method the
	// ContractManagement native contract calls after _initialize when a contract is deployed or updated); DeployLast
	// prints it after all other functions instead of after the init() functions.
	HasDeploy  bool    `json:"has_deploy,omitempty"`
	DeployLast bool    `json:"deploy_last,omitempty"`
	Deploy     []*Node `json:"deploy,omitempty"`
	Funcs      []Func  `json:"funcs"`
	// Lib: exported functions (and exported variables of function type: AsVar) of a second package of the module
	// (<pkg>lib) which the program imports under the name lib.
	Lib []Func `json:"lib,omitempty"`
	// File2Name: the package consists of two files, prog.go and this one; the second file holds the package variables of
	// function type marked File2 (the compilers see the files in the order of their names).
	File2Name string   `json:"file2_name,omitempty"`
	Calls     []Call   `json:"calls"`
	Feat      []string `json:"feat,omitempty"` // constructs the generator used (class labels)
}

// Case is a batch of programs built by one invocation of the Go toolchain.
type Case struct {
	Progs []Prog `json:"progs"`
}

// deployName is the function the compiler turns into the _deploy method of the contract; deployParams is the only
// signature it accepts for it.
const deployName = "_deploy"

var deployParams = []Field{{"data", "any"}, {"isUpdate", "bool"}}

// libAlias is the name the program imports its second package under; libPath is the import path of that package for
// the program rendered as package pkg (a directory next to it in the module of the case).
const libAlias = "lib"

func libPath(pkg string) string { return "c14mod/" + pkg + "lib" }

// convertAlias / convertPath: the one package of the interop module the programs use (its functions are inlined by the
// compiler; the two used here are plain Go for the standard toolchain).
const (
	convertAlias = "convert"
	convertPath  = "github.com/nspcc-dev/neo-go/pkg/interop/convert"
)

// usesConvert: the program text calls a function of the convert package (the module of the case needs the interop module).
func usesConvert(text string) bool { return strings.Contains(text, convertAlias+".") }

// withHeader puts the package clause and the imports the text needs in front of it.
func withHeader(pkg, text string) string {
	var imps []string
	if strings.Contains(text, libAlias+".") {
		imps = append(imps, fmt.Sprintf("%s %q", libAlias, libPath(pkg)))
	}
	if usesConvert(text) {
		imps = append(imps, fmt.Sprintf("%q", convertPath))
	}
	h := "package " + pkg + "\n\n"
	switch len(imps) {
	case 0:
	case 1:
		h += "import " + imps[0] + "\n\n"
	default:
		h += "import (\n"
		for _, i := range imps {
			h += "\t" + i + "\n"
		}
		h += ")\n\n"
	}
	return h + text
}

// LibSource renders the imported package.
func (pr *Prog) LibSource(pkg string) string {
	p := &printer{}
	p.line("package %slib", pkg)
	p.line("")
	for i := range pr.Lib {
		p.fn(&pr.Lib[i])
	}
	return p.sb.String()
}

// ---- printer ---------------------------------------------------------------------------------------

type printer struct {
	sb  strings.Builder
	ind int
}

func (p *printer) line(f string, a ...any) {
	for i := 0; i < p.ind; i++ {
		p.sb.WriteByte('\t')
	}
	fmt.Fprintf(&p.sb, f, a...)
	p.sb.WriteByte('\n')
}

func prec(op string) int {
	switch op {
	case "*", "/", "%", "<<", ">>", "&", "&^":
		return 5
	case "+", "-", "|", "^":
		return 4
	case "==", "!=", "<", "<=", ">", ">=":
		return 3
	case "&&":
		return 2
	case "||":
		return 1
	}
	return 0
}

func quote(s string) string { return strconv.Quote(s) }

// expr renders an expression; parentheses are emitted only where precedence requires them, so that nested
// && / || / comparison chains reach the compiler as plain binary expression trees.
func expr(n *Node) string {
	switch n.K {
	case "lit":
		switch n.T {
		case "int":
			return strconv.FormatInt(n.N, 10)
		case "bool":
			if n.N != 0 {
				return "true"
			}
			return "false"
		case "string":
			return quote(n.S)
		case "nil":
			return "nil"
		}
	case "var":
		return n.S
	case "bin":
		l, r := expr(n.A[0]), expr(n.A[1])
		pp := prec(n.S)
		if needParen(n.A[0], pp, false) {
			l = "(" + l + ")"
		}
		if needParen(n.A[1], pp, true) {
			r = "(" + r + ")"
		}
		return l + " " + n.S + " " + r
	case "un":
		x := expr(n.A[0])
		if n.A[0].K == "bin" || (n.A[0].K == "un") || (n.A[0].K == "lit" && n.A[0].T == "int" && n.A[0].N < 0) {
			x = "(" + x + ")"
		}
		return n.S + x
	case "call":
		return n.S + "(" + exprList(n.A) + ")"
	case "mcall":
		return postfixOperand(n.A[0]) + "." + n.S + "(" + exprList(n.A[1:]) + ")"
	case "index":
		return postfixOperand(n.A[0]) + "[" + expr(n.A[1]) + "]"
	case "slice":
		lo, hi := "", ""
		if n.A[1].K != "none" {
			lo = expr(n.A[1])
		}
		if n.A[2].K != "none" {
			hi = expr(n.A[2])
		}
		return postfixOperand(n.A[0]) + "[" + lo + ":" + hi + "]"
	case "field":
		return postfixOperand(n.A[0]) + "." + n.S
	case "len":
		return "len(" + expr(n.A[0]) + ")"
	case "conv":
		return n.T + "(" + expr(n.A[0]) + ")"
	case "minmax":
		return n.S + "(" + exprList(n.A) + ")"
	case "append":
		return "append(" + exprList(n.A) + n.S + ")" // S is "..." for append(s, t...)
	case "slit":
		return n.T + "{" + exprList(n.A) + "}"
	case "mlit":
		var parts []string
		for i := 0; i+1 < len(n.A); i += 2 {
			parts = append(parts, expr(n.A[i])+": "+expr(n.A[i+1]))
		}
		return n.T + "{" + strings.Join(parts, ", ") + "}"
	case "stlit":
		var parts []string
		for _, kv := range n.A {
			parts = append(parts, kv.S+": "+expr(kv.A[0]))
		}
		return n.S + n.T + "{" + strings.Join(parts, ", ") + "}"
	case "alit":
		return n.T + "{" + exprList(n.A) + "}"
	case "funclit":
		return "func(p0 int) int { return " + expr(n.A[0]) + " }"
	case "mval":
		return postfixOperand(n.A[0]) + "." + n.S // a method value: x.m
	case "recover":
		return "recover()"
	case "deref":
		return "*" + postfixOperand(n.A[0])
	case "paren":
		return "(" + expr(n.A[0]) + ")"
	}
	panic("c14 printer: unknown expression kind " + n.K)
}

func needParen(child *Node, parentPrec int, right bool) bool {
	switch child.K {
	case "bin":
		cp := prec(child.S)
		return cp < parentPrec || (right && cp == parentPrec)
	case "lit":
		return false
	}
	return false
}

func postfixOperand(n *Node) string {
	s := expr(n)
	switch n.K {
	case "bin", "un", "deref":
		return "(" + s + ")"
	}
	return s
}

func exprList(l []*Node) string {
	parts := make([]string, len(l))
	for i, e := range l {
		parts[i] = expr(e)
	}
	return strings.Join(parts, ", ")
}

// simple renders a statement usable in an if/for/switch header (no trailing uses, single line).
func simple(n *Node) string {
	switch n.K {
	case "none":
		return ""
	case "define":
		return n.S + " := " + expr(n.A[0])
	case "assign":
		return expr(n.A[0]) + " " + n.S + " " + expr(n.A[1])
	case "incdec":
		return expr(n.A[0]) + n.S
	case "mapok":
		return expr(n.A[0]) + ", " + expr(n.A[1]) + " " + n.S + " " + expr(n.A[2]) + "[" + expr(n.A[3]) + "]"
	}
	panic("c14 printer: not a simple statement: " + n.K)
}

func (p *printer) use(names ...string) {
	for _, nm := range names {
		if nm != "_" && nm != "" {
			p.line("_ = %s", nm)
		}
	}
}

func (p *printer) block(l []*Node) {
	p.ind++
	for _, s := range l {
		p.stmt(s)
	}
	p.ind--
}

func label(n *Node) string {
	if n.S != "" {
		return n.S + ":\n"
	}
	return ""
}

func (p *printer) labelLine(n *Node) {
	if n.S != "" {
		p.ind--
		p.line("%s:", n.S)
		p.ind++
	}
}

func (p *printer) stmt(n *Node) {
	switch n.K {
	case "define":
		p.line("%s", simple(n))
		p.use(n.S)
	case "vardecl":
		if len(n.A) > 0 {
			p.line("var %s %s = %s", n.S, n.T, expr(n.A[0]))
		} else {
			p.line("var %s %s", n.S, n.T)
		}
		p.use(n.S)
	case "assign", "incdec":
		p.line("%s", simple(n))
	case "tassign":
		k := int(n.N)
		p.line("%s %s %s", exprList(n.A[:k]), n.S, exprList(n.A[k:]))
		if n.S == ":=" {
			for _, l := range n.A[:k] {
				p.use(l.S)
			}
		}
	case "mret":
		k := int(n.N)
		p.line("%s %s %s", exprList(n.A[:k]), n.S, expr(n.A[k]))
		if n.S == ":=" {
			for _, l := range n.A[:k] {
				p.use(l.S)
			}
		}
	case "mapok":
		p.line("%s", simple(n))
		if n.S == ":=" {
			p.use(n.A[0].S, n.A[1].S)
		}
	case "if":
		p.ifStmt(n, "if ")
	case "for3":
		p.labelLine(n)
		p.line("for %s; %s; %s {", simple(n.A[0]), expr(n.A[1]), simple(n.A[2]))
		p.ind++
		if n.A[0].K == "define" {
			p.use(n.A[0].S)
		}
		p.ind--
		p.block(n.B)
		p.line("}")
	case "forc":
		p.labelLine(n)
		p.line("for %s {", expr(n.A[0]))
		p.block(n.B)
		p.line("}")
	case "forever":
		p.labelLine(n)
		p.line("for {")
		p.block(n.B)
		p.line("}")
	case "range":
		p.labelLine(n)
		k, v, x := n.A[0], n.A[1], n.A[2]
		switch {
		case k.K == "none" && v.K == "none":
			p.line("for range %s {", expr(x))
		case v.K == "none":
			p.line("for %s := range %s {", k.S, expr(x))
		default:
			ks := "_"
			if k.K != "none" {
				ks = k.S
			}
			p.line("for %s, %s := range %s {", ks, v.S, expr(x))
		}
		p.ind++
		if k.K != "none" {
			p.use(k.S)
		}
		if v.K != "none" {
			p.use(v.S)
		}
		p.ind--
		p.block(n.B)
		p.line("}")
	case "switch":
		p.labelLine(n)
		hdr := "switch "
		if n.A[0].K != "none" {
			hdr += simple(n.A[0]) + "; "
		}
		if n.A[1].K != "none" {
			hdr += expr(n.A[1]) + " "
		}
		p.line("%s{", strings.TrimRight(hdr, " ")+" ")
		for ci, c := range n.B {
			if len(c.A) == 0 {
				p.line("default:")
			} else {
				p.line("case %s:", exprList(c.A))
			}
			p.ind++
			if ci == 0 && n.A[0].K == "define" {
				// keep the header variable used whatever the clauses do
			}
			for _, s := range c.B {
				p.stmt(s)
			}
			if c.N == 1 {
				p.line("fallthrough")
			}
			p.ind--
		}
		p.line("}")
		if n.A[0].K == "define" {
			// the variable is scoped to the switch; its use is rendered inside the tag or the first clause by the generator
		}
	case "break", "continue":
		if n.S != "" {
			p.line("%s %s", n.K, n.S)
		} else {
			p.line("%s", n.K)
		}
	case "return":
		if len(n.A) == 0 {
			p.line("return")
		} else {
			p.line("return %s", exprList(n.A))
		}
	case "defer":
		p.line("defer %s", expr(n.A[0]))
	case "deferlit":
		p.line("defer func() {")
		p.block(n.B)
		p.line("}()")
	case "panic":
		p.line("panic(%s)", expr(n.A[0]))
	case "expr":
		p.line("%s", expr(n.A[0]))
	case "block":
		p.line("{")
		p.block(n.B)
		p.line("}")
	case "delete":
		p.line("delete(%s, %s)", expr(n.A[0]), expr(n.A[1]))
	case "use":
		p.use(n.S)
	case "typeswitch":
		p.labelLine(n)
		p.line("switch any(%s).(type) {", expr(n.A[0]))
		for _, c := range n.B {
			if c.S == "" {
				p.line("default:")
			} else {
				p.line("case %s:", c.S)
			}
			p.block(c.B)
		}
		p.line("}")
	case "label":
		p.ind--
		p.line("%s:", n.S)
		p.ind++
	case "goto":
		p.line("goto %s", n.S)
	case "seq":
		for _, s := range n.B {
			p.stmt(s)
		}
	default:
		panic("c14 printer: unknown statement kind " + n.K)
	}
}

func (p *printer) ifStmt(n *Node, kw string) {
	hdr := kw
	if n.A[0].K != "none" {
		hdr += simple(n.A[0]) + "; "
	}
	p.line("%s%s {", hdr, expr(n.A[1]))
	p.ind++
	if n.A[0].K == "define" {
		p.use(n.A[0].S)
	} else if n.A[0].K == "mapok" {
		p.use(n.A[0].A[0].S, n.A[0].A[1].S)
	}
	p.ind--
	p.block(n.B[0].B)
	els := n.B[1]
	switch els.K {
	case "none":
		p.line("}")
	case "block":
		p.line("} else {")
		p.block(els.B)
		p.line("}")
	case "if":
		// "} else if ... {" has to stay on one line
		p.closeElseIf(els)
	}
}

func (p *printer) closeElseIf(n *Node) {
	hdr := "} else if "
	if n.A[0].K != "none" {
		hdr += simple(n.A[0]) + "; "
	}
	p.line("%s%s {", hdr, expr(n.A[1]))
	p.ind++
	if n.A[0].K == "define" {
		p.use(n.A[0].S)
	} else if n.A[0].K == "mapok" {
		p.use(n.A[0].A[0].S, n.A[0].A[1].S)
	}
	p.ind--
	p.block(n.B[0].B)
	els := n.B[1]
	switch els.K {
	case "none":
		p.line("}")
	case "block":
		p.line("} else {")
		p.block(els.B)
		p.line("}")
	case "if":
		p.closeElseIf(els)
	}
}

func fieldList(fs []Field) string { return fieldListG(fs, false) }

// fieldListG: with group set, adjacent named fields of the same type share one type ("a, b int"), which is the same
// declaration for Go.
func fieldListG(fs []Field, group bool) string {
	var parts []string
	for i := 0; i < len(fs); i++ {
		f := fs[i]
		if f.Name == "" {
			parts = append(parts, f.Type)
			continue
		}
		names := f.Name
		for group && i+1 < len(fs) && fs[i+1].Name != "" && fs[i+1].Type == f.Type {
			i++
			names += ", " + fs[i].Name
		}
		parts = append(parts, names+" "+f.Type)
	}
	return strings.Join(parts, ", ")
}

func typesOnly(fs []Field) []Field {
	out := make([]Field, len(fs))
	for i, f := range fs {
		out[i] = Field{Type: f.Type}
	}
	return out
}

func (p *printer) fn(f *Func) {
	recv := ""
	if f.Recv != nil {
		recv = "(" + f.Recv.Name + " " + f.Recv.Type + ") "
	}
	res := ""
	switch {
	case len(f.Results) == 1 && f.Results[0].Name == "":
		res = " " + f.Results[0].Type
	case len(f.Results) > 0:
		res = " (" + fieldListG(f.Results, f.Group) + ")"
	}
	if f.AsVar && (f.Alias != "" || f.ViaInit) {
		typ := "func(" + fieldListG(typesOnly(f.Params), false) + ")" + res
		val := f.Alias
		switch {
		case f.Alias != "" && !f.ViaInit:
			p.line("var %s = %s", f.Name, f.Alias)
			p.line("")
			return
		case f.Alias != "":
			p.line("var %s %s", f.Name, typ)
			p.line("")
			p.line("func init() {")
			p.ind++
			p.line("%s = %s", f.Name, val)
			p.ind--
			p.line("}")
			p.line("")
			return
		}
		p.line("var %s %s", f.Name, typ)
		p.line("")
		p.line("func init() {")
		p.ind++
		p.line("%s = func(%s)%s {", f.Name, fieldListG(f.Params, f.Group), res)
		p.block(f.Body)
		p.line("}")
		p.ind--
		p.line("}")
		p.line("")
		return
	}
	if f.AsVar {
		p.line("var %s = func(%s)%s {", f.Name, fieldListG(f.Params, f.Group), res)
	} else {
		p.line("func %s%s(%s)%s {", recv, f.Name, fieldListG(f.Params, f.Group), res)
	}
	p.block(f.Body)
	p.line("}")
	p.line("")
}

// Source renders the contract text. The very same text (package clause included) is given to both compilers.
func (pr *Prog) Source(pkg string) string {
	p := &printer{}
	for _, s := range pr.Structs {
		p.line("type %s struct {", s.Name)
		p.ind++
		for _, f := range s.Fields {
			if f.Name == s.Emb {
				p.line("%s", f.Type)
				continue
			}
			p.line("%s %s", f.Name, f.Type)
		}
		p.ind--
		p.line("}")
		p.line("")
	}
	for _, s := range pr.FuncStructs {
		p.line("type %s struct {", s.Name)
		p.ind++
		for _, f := range s.Fields {
			p.line("%s %s", f.Name, f.Type)
		}
		p.ind--
		p.line("}")
		p.line("")
	}
	for i := range pr.Funcs {
		// (ahead of the other package variables: their initialisers may call it)
		if pr.Funcs[i].AsVar && !(pr.Funcs[i].File2 && pr.File2Name != "") {
			p.fn(&pr.Funcs[i])
		}
	}
	for _, g := range pr.Globals {
		if g.Init != nil {
			p.line("var %s %s = %s", g.Name, g.Type, expr(g.Init))
		} else {
			p.line("var %s %s", g.Name, g.Type)
		}
	}
	if len(pr.Globals) > 0 {
		p.line("")
	}
	for _, b := range pr.Inits {
		p.line("func init() {")
		p.block(b)
		p.line("}")
		p.line("")
	}
	deploy := func() {
		p.line("func %s(%s) {", deployName, fieldList(deployParams))
		p.block(pr.Deploy)
		p.line("}")
		p.line("")
	}
	if pr.HasDeploy && !pr.DeployLast {
		deploy()
	}
	for i := range pr.Funcs {
		if !pr.Funcs[i].AsVar {
			p.fn(&pr.Funcs[i])
		}
	}
	if pr.HasDeploy && pr.DeployLast {
		deploy()
	}
	return withHeader(pkg, p.sb.String())
}

// Source2 renders the second file of the package (only for programs with File2Name).
func (pr *Prog) Source2(pkg string) string {
	p := &printer{}
	for i := range pr.Funcs {
		if pr.Funcs[i].AsVar && pr.Funcs[i].File2 {
			p.fn(&pr.Funcs[i])
		}
	}
	return withHeader(pkg, p.sb.String())
}
