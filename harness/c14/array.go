package c14

import (
	"strconv"
	"strings"
)

// Fixed-size arrays: values in Go (assignment, parameter passing and range copy them), Struct items in the VM. The
// generated dialect has arrays of ints, arrays of arrays of ints and arrays of structs; they are declared with their
// zero value (var a [3]T1, [3]T1{}), from (partial) literals or as copies of other arrays, their elements are written
// (a[i].x = e, m[i][j] += e, m[i] = m[j], a[i] = T1{...}) and read back, mostly through a sibling of the element
// written last: the elements of an array are independent variables.

var arrTypesInt = []string{"[3]int", "[2][2]int", "[2][3]int"}
var arrTypesStruct = []string{"[2]T1", "[3]T1"}

func isArray(typ string) bool { return len(typ) > 2 && typ[0] == '[' && typ[1] != ']' }

// arrSplit: "[2][3]int" -> 2, "[3]int".
func arrSplit(typ string) (int, string) {
	i := strings.IndexByte(typ, ']')
	n, _ := strconv.Atoi(typ[1:i])
	return n, typ[i+1:]
}

func (g *gen) arrTypes() []string {
	ts := arrTypesInt
	if len(g.pr.Structs) > 0 {
		ts = append(append([]string{}, ts...), arrTypesStruct...)
	}
	return ts
}

func (g *gen) arrayVars(pred func(*vinfo) bool) []*vinfo {
	var out []*vinfo
	for _, v := range g.visible() {
		if isArray(v.typ) && (pred == nil || pred(v)) {
			out = append(out, v)
		}
	}
	return out
}

// arrIndex: an index into a dimension of n elements, always in range (a constant index out of range does not compile).
func (g *gen) arrIndex(v *vinfo, n int, first bool, d int) ex {
	if first {
		var idx []*vinfo
		for _, iv := range g.varsOf("int") {
			if iv.idxOf == v {
				idx = append(idx, iv)
			}
		}
		if len(idx) > 0 && g.chance(70) {
			iv := idx[g.n(len(idx), "aidx")]
			return ex{n: vr(iv.name), lo: iv.lo, hi: iv.hi}
		}
	}
	if d <= 0 || g.chance(65) {
		k := int64(g.n(n, "ai"))
		return ex{n: ilit(k), lo: float64(k), hi: float64(k), konst: true}
	}
	e := g.genInt(d - 1)
	r := ex{n: bin("&", e.n, ilit(1)), lo: 0, hi: 1, pan: e.pan, hard: e.hard}
	if n > 2 && g.chance(50) {
		r.n, r.lo, r.hi = bin("+", r.n, ilit(int64(n-2))), float64(n-2), float64(n-1)
	}
	return r
}

// arrLoc builds an int location inside the array variable v: v[i], v[i][j] or v[i].x. With fixed >= 0 the first index
// is that constant.
func (g *gen) arrLoc(v *vinfo, d int, fixed int) (*Node, ex) {
	n := vr(v.name)
	typ := v.typ
	acc := ex{}
	first := true
	for isArray(typ) {
		k, el := arrSplit(typ)
		var i ex
		if first && fixed >= 0 {
			i = ex{n: ilit(int64(fixed % k)), konst: true}
		} else {
			i = g.arrIndex(v, k, first, d)
		}
		acc.pan, acc.hard = acc.pan || i.pan, acc.hard || i.hard
		n = &Node{K: "index", A: []*Node{n, i.n}}
		typ, first = el, false
	}
	if sd := g.structDef(typ); sd != nil {
		var ints []string
		for _, f := range sd.Fields {
			if f.Type == "int" {
				ints = append(ints, f.Name)
			}
		}
		n = &Node{K: "field", S: ints[g.n(len(ints), "af")], A: []*Node{n}}
	}
	return n, acc
}

// genArrayRead: an element (field) of an array as an int expression.
func (g *gen) genArrayRead(d int) (ex, bool) {
	c := g.arrayVars(nil)
	if len(c) == 0 {
		return ex{}, false
	}
	v := c[g.n(len(c), "arv")]
	g.useVar(v)
	n, acc := g.arrLoc(v, d, -1)
	g.mark("array-read")
	return ex{n: n, lo: -wideB, hi: wideB, pan: acc.pan, hard: acc.hard}, true
}

// arrLit builds a literal of an array type: empty (the zero value), partial or complete.
func (g *gen) arrLit(typ string, d int) ex {
	n := &Node{K: "alit", T: typ}
	k, el := arrSplit(typ)
	r := ex{n: n, fresh: true, minLen: k}
	cnt := k
	switch g.n(4, "alk") {
	case 0:
		cnt = 0
		g.mark("array-zero-literal")
	case 1:
		cnt = g.n(k+1, "aln")
	}
	for i := 0; i < cnt; i++ {
		var e ex
		switch {
		case el == "int":
			e = fitStore(g.genInt(d - 1))
		case isArray(el):
			e = g.arrLit(el, d-1)
		default:
			e, _ = g.genFreshOf(el, d-1)
		}
		if e.n.K == "alit" || e.n.K == "stlit" {
			if g.chance(50) {
				// the element type may be left out inside a composite literal
				c := *e.n
				c.T = ""
				e.n = &c
			}
		}
		r.pan, r.hard = r.pan || e.pan, r.hard || e.hard
		n.A = append(n.A, e.n)
	}
	g.mark("array-literal")
	return r
}

// arrFresh: a new array value for a declaration: nothing (var a T), a literal, or a copy of another array variable.
func (g *gen) arrFresh(typ string, d int) ex {
	if v := g.pickVar(typ, nil); v != nil && g.chance(25) {
		g.useVar(v)
		g.mark("array-copy")
		return ex{n: vr(v.name)}
	}
	return g.arrLit(typ, d)
}

// arrFold: two int locations of v folded into a small value; at least one of them is a sibling of element `wrote`.
func (g *gen) arrFold(v *vinfo, wrote int) *Node {
	k, _ := arrSplit(v.typ)
	sib := (wrote + 1 + g.n(k-1, "sib")) % k
	a, _ := g.arrLoc(v, 0, sib)
	b, _ := g.arrLoc(v, 0, g.n(k, "sib2"))
	return bin("%", bin("+", a, bin("*", b, ilit(3))), ilit(1009))
}

// arrObserve: st followed by a statement that makes the contents of v part of the data flow.
func (g *gen) arrObserve(st *Node, v *vinfo, wrote int) *Node {
	if !g.chance(75) {
		return st
	}
	g.account(1)
	fold := g.arrFold(v, wrote)
	if acc, ok := g.accTarget(); ok && !(g.f.pure && g.lookup(acc.S) != nil && g.lookup(acc.S).global) {
		g.noteWrite(acc)
		return &Node{K: "seq", B: []*Node{st, {K: "assign", S: "+=", A: []*Node{acc, fold}}}}
	}
	name := g.newName(false)
	g.add(&vinfo{name: name, typ: "int", lo: -1008, hi: 1008})
	return &Node{K: "seq", B: []*Node{st, {K: "define", S: name, A: []*Node{fold}}}}
}

func constIndex(n *Node) int {
	// the first index of a location built by arrLoc, when it is a constant (otherwise 0)
	for n.K == "field" || n.K == "index" && n.A[0].K != "var" {
		n = n.A[0]
	}
	if n.K == "index" && n.A[1].K == "lit" {
		return int(n.A[1].N)
	}
	return 0
}

// stArray: statements on arrays (nil when there is no array to work on).
func (g *gen) stArray() *Node {
	c := g.arrayVars(func(v *vinfo) bool { return g.writable(v) && !(g.f.pure && v.global) })
	if len(c) == 0 {
		return nil
	}
	v := c[g.n(len(c), "stav")]
	g.useVar(v)
	k, el := arrSplit(v.typ)
	g.noteWrite(vr(v.name))
	if (v.typ == "[3]int" || v.typ == "[2][3]int") && !v.ro && g.room(12) && g.chance(18) && g.on(kRangeArrayCopy) {
		if n := g.stRangeArrayWrite(v); n != nil {
			return n
		}
	}
	switch g.weighted([]int{60, 14, 13, 13}, "stak") {
	case 1:
		// the whole array: a = b copies
		var e ex
		if w := g.pickVar(v.typ, func(w *vinfo) bool { return w != v }); w != nil && g.chance(60) {
			g.useVar(w)
			e = ex{n: vr(w.name)}
			g.mark("array-copy")
		} else {
			e = g.arrLit(v.typ, 1)
		}
		g.noteExpr(e)
		g.mark("array-assign")
		return g.arrObserve(&Node{K: "assign", S: "=", A: []*Node{vr(v.name), e.n}}, v, g.n(k, "w"))
	case 2:
		if isArray(el) {
			// one row: m[i] = m[j] copies, m[i] = [3]int{...}
			i := g.n(k, "ri")
			var e ex
			if g.chance(50) {
				e = ex{n: &Node{K: "index", A: []*Node{vr(v.name), ilit(int64(g.n(k, "rj")))}}}
				g.mark("array-copy")
			} else {
				e = g.arrLit(el, 1)
			}
			g.noteExpr(e)
			g.mark("array-row-assign")
			return g.arrObserve(&Node{K: "assign", S: "=", A: []*Node{{K: "index", A: []*Node{vr(v.name), ilit(int64(i))}}, e.n}}, v, i)
		}
	case 3:
		if g.structDef(el) != nil {
			i := g.n(k, "si")
			e, _ := g.genFreshOf(el, 1)
			g.noteExpr(e)
			g.mark("array-elem-assign")
			return g.arrObserve(&Node{K: "assign", S: "=", A: []*Node{{K: "index", A: []*Node{vr(v.name), ilit(int64(i))}}, e.n}}, v, i)
		}
	}
	t, acc := g.arrLoc(v, 2, -1)
	g.noteExpr(acc)
	g.mark("array-store")
	var st *Node
	switch g.weighted([]int{50, 30, 20}, "staop") {
	case 0:
		e := fitStore(g.genInt(2))
		g.noteExpr(e)
		st = &Node{K: "assign", S: "=", A: []*Node{t, e.n}}
	case 1:
		e := fitAdd(g.genInt(1))
		g.noteExpr(e)
		st = &Node{K: "assign", S: []string{"+=", "-="}[g.n(2, "pm")], A: []*Node{t, e.n}}
	default:
		st = &Node{K: "incdec", S: []string{"++", "--"}[g.n(2, "id")], A: []*Node{t}}
	}
	return g.arrObserve(st, v, constIndex(t))
}

// stRangeArrayWrite: for i, x := range a { a[j] = e; acc += x }: range with a value variable works on a copy of the
// array made before the first iteration, so the values produced do not depend on what the body writes to a.
func (g *gen) stRangeArrayWrite(v *vinfo) *Node {
	acc, ok := g.accTarget()
	if !ok || g.f.pure && g.lookup(acc.S) != nil && g.lookup(acc.S).global {
		return nil
	}
	g.noteWrite(acc)
	k, el := arrSplit(v.typ)
	g.account(4 * k)
	kn, vn := g.newName(false), g.newName(false)
	key := none()
	if g.chance(50) {
		key = vr(kn)
	}
	// the element written is one the loop has not produced yet (for the first iterations at least)
	var t, read *Node
	if isArray(el) {
		k2, _ := arrSplit(el)
		j := int64(g.n(k2, "raj"))
		t = &Node{K: "index", A: []*Node{{K: "index", A: []*Node{vr(v.name), ilit(int64(k - 1))}}, ilit(j)}}
		read = &Node{K: "index", A: []*Node{vr(vn), ilit(j)}}
	} else {
		t = &Node{K: "index", A: []*Node{vr(v.name), ilit(int64(1 + g.n(k-1, "rai")))}}
		if key.K != "none" && g.chance(50) {
			t = &Node{K: "index", A: []*Node{vr(v.name), bin("%", bin("+", vr(kn), ilit(1)), ilit(int64(k)))}}
		}
		read = vr(vn)
	}
	var w *Node
	if g.chance(50) {
		w = &Node{K: "assign", S: "+=", A: []*Node{t, ilit(int64(g.rng(1, 9, "rac")))}}
	} else {
		w = &Node{K: "assign", S: "=", A: []*Node{t, ilit(int64(g.rng(10, 99, "rac")))}}
	}
	upd := &Node{K: "assign", S: "+=", A: []*Node{acc, bin("%", read, ilit(1009))}}
	g.mark("range-array-write")
	return &Node{K: "range", T: ":=", A: []*Node{key, vr(vn), vr(v.name)}, B: []*Node{w, upd}}
}
