package c14

import (
	"math"
	"sort"

	"pgregory.net/rapid"
	"verifharness/vt"
)

// Interval discipline (all bounds are magnitudes, kept as float64: exact below 2^53, and the factor-2 slack between
// lim and the real 2^63 limit dwarfs the rounding error above it):
//
//	lim    every intermediate value of every generated expression stays within +-2^62;
//	store  a value written to an int storage location by a plain store is within +-2^31;
//	addB   an additive update (+=, -=, ++, --) changes a location by at most 2^16, and at most costCap (2^11)
//	       statements execute per exported call, so every location stays within +-(2^31+2^27) < wide = 2^32.
const (
	lim     = float64(1 << 62)
	storeB  = float64(1 << 31)
	wideB   = float64(1 << 32)
	addB    = float64(1 << 16)
	costCap = 1 << 11
	// Byte strings: the VM refuses items above 131070 bytes (a resource limit outside the Go semantics), so the
	// lengths are bounded the same way: a stored string is at most strStore long when stored by a plain store and
	// grows by at most 16 per += (strVar in total); a function result is at most strRes; the operands of one
	// concatenation add up to at most strLim.
	strStore = 4096
	strVar   = 4096 + 16*costCap // 36864
	strRes   = 60000
	strLim   = 120000
)

// Keys of known findings: when a key is listed as "known" in known_findings.json the generator never produces
// the construct (and counts the exclusion); otherwise the construct is generated.
const (
	kEarlyDefault = "switch-early-default"
	kMapMissing   = "map-missing-key"
	kStructAlias  = "struct-value-alias"
	kDeferArg     = "defer-arg-eval"
	kRecoverNamed = "recover-named-result"
	kDeferLoop    = "defer-in-loop"
	kStringOrder  = "string-order"
	kGlobalOrder  = "global-init-order"
	kRecoverHard  = "recover-hard-fault"
	kVarShadow    = "var-self-shadow"
	kConcatCmp    = "string-concat-compare"
	kDeferResult  = "defer-call-result"
	kDeferSwallow = "defer-swallows-panic"
	kMultiInit    = "multi-init-global-usage"
	kMultiDefer   = "multi-defer-recover-result"
	kResidue      = "recover-stack-residue"
	kDebugUnused  = "debug-unused-func-range"
	kNilBytes     = "nil-bytes-conversion"
	kAppendArgs   = "append-args-see-appended"
	kNestedRecov  = "recover-in-nested-deferred-call"
	// side notes of the round-4 readers (side.go)
	kGoto          = "goto-ignored"
	kCompoundIdx   = "compound-assign-index-twice"
	kTupleOrder    = "tuple-assign-order"
	kAppendSelf    = "append-self-spread"
	kBytesLitOrder = "bytes-literal-eval-order"
	kLambdaOrder   = "lambda-emit-order"
	kRangeMapDel   = "range-map-delete"
	kDeleteNilMap  = "delete-nil-map"
	kNamedRedecl   = "named-result-redeclare"
	kNilMapRead    = "nil-map-read"
	kAppendNil     = "append-nil-slice"
	kLitOrder      = "literal-eval-order"
	// audit of the unmodified compiler by a seeding agent + what the new shapes (arrays, function literals held by
	// variables, selector styles, observers) ran into; all repaired
	kUsedGlobalDropped = "used-global-dropped"
	kLambdaInInit      = "lambda-inside-initialize"
	kInitReturn        = "init-return-leaves-initialize"
	kFuncLitVarDecl    = "global-funclit-var-decl"
	kFuncValueArgs     = "func-value-args-reversed"
	kDerefStore        = "deref-field-store-lost"
	kXorAssign         = "xor-assign-rejected"
	// the rest of that audit (second builder): embedded structs, function values, shifts, slices, big scripts
	kPromotedMethod = "promoted-method-call"
	kNamedFuncValue = "named-func-value"
	kFuncField      = "func-field-call"
	kTypeSwitch     = "type-switch-compiler-panic"
	kAndNot         = "and-not-rejected"
	kMethodValue    = "method-value-misleading-error"
	kBigOffsets     = "method-offset-above-64k"
	kShiftCount     = "shift-count-above-256"
	kRangeArrayCopy = "range-array-not-copied"
	kAppendAlias    = "append-extends-operand"
	kSubsliceCopy   = "byte-subslice-copy"
	kStringRunes    = "string-range-bytes"
	// what a review of the repairs found left over (the repairs covered one of several code paths)
	kSelectorTwice   = "compound-assign-selector-operand-twice"
	kTupleMultiRet   = "tuple-assign-multi-value-call"
	kAppendNilBytes  = "append-nil-byte-slice"
	kTupleDeref      = "tuple-assign-deref-field"
	kImportedFuncVal = "imported-func-value"
	// what a review of those repairs found left over in turn
	kImportedFuncVar = "imported-func-var-call"
	kFuncVarFile     = "func-var-other-file"
	kInlineArgCall   = "inline-arg-call-twice"
	kFuncValueOrder  = "func-value-after-args"
	kTupleValueVar   = "tuple-assign-value-variable"
	// what a review of the last repairs found: a regression of the function-value repair, byte arrays left out of the
	// tuple repair
	kFuncValueMulti = "func-value-multi-value-arg"
	kTupleByteArray = "tuple-assign-byte-array"
)

type vinfo struct {
	name     string
	typ      string
	lo, hi   float64 // int: value range (tight variables: range of the only value; wide: +-wideB)
	wide     bool    // int: assignable
	ro       bool    // must not be assigned / appended / element-written at this point
	growing  bool    // string/[]byte/[]int: may be appended to (then it is never ranged over)
	minLen   int     // string/[]byte/[]int: statically known minimal length
	ascii    bool    // string: only ASCII content is ever stored
	sureI    []int64 // map[int]int: keys certainly present
	sureS    []string
	global   bool
	gidx     int
	idxOf    *vinfo // int: index variable of a loop over this container
	appends  int    // []int: appended elements accounted so far
	nodel    bool
	param    bool
	maybeNil bool    // []byte: may hold the zero value (nil)
	maxLen   float64 // string / []byte: upper bound of the length
	noAppend bool    // string: += is not allowed (the bound has no room for growth)
	hidden   bool    // temporarily not usable in expressions
	fromLit  bool    // []int: holds the value of a slice literal (capacity == length) as long as nothing is appended
	sel      string  // struct / pointer: how selectors on this variable are written: v.x, "paren": (v).x, "deref": (*v).x
}

type fsig struct {
	name       string
	recv       string // "" | "T0" | "*T0"
	params     []Field
	results    []string
	pure       bool // no writes to globals or through arguments, no defers, no impure calls
	readsG     bool
	safe       bool // can not panic
	soft       bool // may raise an exception the VM can catch (explicit panic, index out of range)
	mayRecover bool // executes recover() itself (in a deferred literal) or calls a function that does
	dirty      bool // ... and may do so while it has items on the evaluation stack (mid-expression, in a range loop or switch)
	hard       bool // may raise a fault the VM can not catch (division by zero, shift, slicing)
	cost       int
	fuel       bool // first parameter is a recursion fuel in [0,5]
	mutRecv    bool
	exported   bool
	writesG    bool
	recovers   bool
	hasDefer   bool
	idx        int
	resAscii   bool
	resMinLen  int
}

type loopctx struct {
	kind    string // for | switch
	label   string
	used    bool
	noBreak bool // map range: neither break nor continue may leave it
}

type fctx struct {
	sig       *fsig
	scopes    [][]*vinfo
	results   []Field
	named     bool
	hasDefer  bool
	recovers  bool
	pure      bool
	noPanic   bool
	noSoft    bool // no catchable exceptions (a defer without recover is active)
	noGlobals bool
	protected bool
	loops     []*loopctx
	mult      int
	cost      int
	budget    int
	nameCtr   int
	labelCtr  int
	loopDepth int
	depth     int
	fuel      *vinfo
	selfCalls int
	inLambda  bool
	inInit    bool
	nDefers   int
	// hasRecover: some deferred literal generated so far calls recover()
	hasRecover bool
	// noSoftExpr: catchable exceptions may only be raised by statements executed with an empty evaluation
	// stack (a recovering function would otherwise return with residue on the stack); stackItems counts the
	// enclosing range loops and switches, which keep their state on the evaluation stack.
	noSoftExpr bool
	stackItems int
	// trace: name of a local int that records the path taken through the function ("" = none); it is mixed into
	// the int / bool results so that a wrong jump is visible in the returned value.
	trace    string
	traceCtr int
}

type gen struct {
	t       *rapid.T
	pr      *Prog
	funcs   []*fsig
	globals []*vinfo
	f       *fctx
	feat    map[string]bool
	stmts   int
	// gotoProg: this program may contain goto statements; tickProg: it may call the side-effecting helper tick
	// (tickV is the counter g9 once the helper has been used), see side.go
	gotoProg bool
	tickProg bool
	// tswProg / mvalProg: this program may contain a type switch / a method value (constructs the compiler refuses by name)
	tswProg  bool
	mvalProg bool
	tickV    *vinfo
	// markV: the trace g8 of the deferred calls (side.go), markFn: the helper mark is called somewhere
	markV  *vinfo
	markFn bool
	// tickpFn / tick2Fn: the helpers tickp / tick2 are called somewhere (side.go)
	tickpFn bool
	tick2Fn bool
	// libFuncs: the functions of the imported package (when the program may have one), libUsed: some statement uses one
	libFuncs []Func
	libUsed  bool
	// file2: the name of the second file of the package ("" when the program is not allowed to have one), file2Used:
	// something is declared there; funcVars: the package variables of function type made by stFuncVar, by the name of
	// what they hold
	file2     string
	file2Used bool
	funcVars  map[string]*Func
	fvOrder   []string
	// helpers declared only in the programs that call them (side.go, extraFuncs)
	tickbFn, tickmFn, tickfFn, tickwFn, ticktFn, tickaFn bool
	// ... of side3.go: tf2a / tf2b, tickf2, tickw2, tickba
	tf2Fn, tickf2Fn, tickw2Fn, tickbaFn bool
}

func (g *gen) mark(s string) { g.feat[s] = true }

// on reports whether the construct guarded by a known-finding key may be generated.
func (g *gen) on(key string) bool {
	if vt.Known(key) {
		g.mark("excl:" + key)
		return false
	}
	return true
}

// rapid's integer generators are biased towards small values, which would distort every probability below;
// choices are therefore assembled from unbiased boolean draws. All-false (what shrinking moves towards) means
// index 0 / the lower bound / "no": the simplest alternative is always listed first.
func (g *gen) bits(k int) int {
	v := 0
	for i := 0; i < k; i++ {
		v <<= 1
		if rapid.Bool().Draw(g.t, "b") {
			v |= 1
		}
	}
	return v
}

func (g *gen) n(hi int, label string) int {
	if hi <= 1 {
		return 0
	}
	k := 4
	for 1<<(k-4) < hi {
		k++
	}
	return g.bits(k) % hi
}

func (g *gen) chance(pct int) bool { return g.n(100, "pct") >= 100-pct }

func (g *gen) rng(lo, hi int, l string) int {
	if hi < lo {
		hi = lo
	}
	return lo + g.n(hi-lo+1, l)
}

// weighted picks an index according to weights (zero weights are never picked).
func (g *gen) weighted(w []int, label string) int {
	tot := 0
	for _, x := range w {
		tot += x
	}
	if tot == 0 {
		return -1
	}
	r := g.n(tot, label)
	for i, x := range w {
		if r < x {
			return i
		}
		r -= x
	}
	return len(w) - 1
}

// ---- node constructors -----------------------------------------------------------------------------

func none() *Node          { return &Node{K: "none"} }
func ilit(v int64) *Node   { return &Node{K: "lit", T: "int", N: v} }
func slitS(s string) *Node { return &Node{K: "lit", T: "string", S: s} }
func vr(name string) *Node { return &Node{K: "var", S: name} }
func bin(op string, a, b *Node) *Node {
	return &Node{K: "bin", S: op, A: []*Node{a, b}}
}
func un(op string, a *Node) *Node { return &Node{K: "un", S: op, A: []*Node{a}} }
func blit(b bool) *Node {
	if b {
		return &Node{K: "lit", T: "bool", N: 1}
	}
	return &Node{K: "lit", T: "bool"}
}
func blk(l []*Node) *Node { return &Node{K: "block", B: l} }

// ---- expressions -----------------------------------------------------------------------------------

type ex struct {
	n      *Node
	lo, hi float64
	pan    bool // may raise an exception that the VM can catch (index out of range, explicit panic in a callee)
	hard   bool // may raise a fault that the VM can not catch (division by zero, negative shift, slice bounds)
	konst  bool
	minLen int
	ascii  bool
	short  bool
	fresh  bool    // struct values: not an alias of a stored value
	maxLen float64 // strings / byte slices: upper bound of the length
}

func mag(e ex) float64 { return math.Max(math.Abs(e.lo), math.Abs(e.hi)) }

func (g *gen) visible() []*vinfo {
	seen := map[string]bool{}
	var out []*vinfo
	for i := len(g.f.scopes) - 1; i >= 0; i-- {
		sc := g.f.scopes[i]
		for j := len(sc) - 1; j >= 0; j-- {
			if !seen[sc[j].name] {
				seen[sc[j].name] = true
				if !sc[j].hidden {
					out = append(out, sc[j])
				}
			}
		}
	}
	if !g.f.noGlobals {
		for _, v := range g.globals {
			if !seen[v.name] {
				seen[v.name] = true
				if !v.hidden {
					out = append(out, v)
				}
			}
		}
	}
	// deterministic order: as collected (innermost first)
	return out
}

func (g *gen) varsOf(typ string) []*vinfo {
	var out []*vinfo
	for _, v := range g.visible() {
		if v.typ == typ {
			out = append(out, v)
		}
	}
	return out
}

func (g *gen) pickVar(typ string, pred func(*vinfo) bool) *vinfo {
	var c []*vinfo
	for _, v := range g.varsOf(typ) {
		if pred == nil || pred(v) {
			c = append(c, v)
		}
	}
	if len(c) == 0 {
		return nil
	}
	return c[g.n(len(c), "var")]
}

func (g *gen) useVar(v *vinfo) {
	if v.global {
		g.f.sig.readsG = true
		g.mark("globals")
	}
}

var smallInts = []int64{0, 1, 2, 3, 5, 7, 10, -1, -2, -3, 4, 8, 16, 100, 255, 256, 1000, 65535, -100, 12345}

func (g *gen) intLit() ex {
	v := smallInts[g.n(len(smallInts), "lit")]
	return ex{n: ilit(v), lo: float64(v), hi: float64(v), konst: true}
}

func (g *gen) posLit(max int) ex {
	v := int64(g.rng(1, max, "plit"))
	return ex{n: ilit(v), lo: float64(v), hi: float64(v), konst: true}
}

func (g *gen) intVar() (ex, bool) {
	v := g.pickVar("int", nil)
	if v == nil {
		return ex{}, false
	}
	g.useVar(v)
	return ex{n: vr(v.name), lo: v.lo, hi: v.hi}, true
}

// shrinkTo makes |e| <= bound by applying % with a constant modulus when needed.
func shrinkTo(e ex, bound float64, mod int64) ex {
	if mag(e) <= bound {
		return e
	}
	m := float64(mod - 1)
	lo, hi := -m, m
	if e.lo >= 0 {
		lo = 0
	}
	if e.hi <= 0 {
		hi = 0
	}
	return ex{n: bin("%", e.n, ilit(mod)), lo: lo, hi: hi, pan: e.pan, hard: e.hard}
}

// fitStore makes e storable. A plain read of a stored location is always storable (a copy does not amplify).
func fitStore(e ex) ex {
	switch e.n.K {
	case "var", "field", "index", "call", "mcall":
		return e
	}
	return shrinkTo(e, storeB, 1000003)
}
func fitAdd(e ex) ex { return shrinkTo(e, addB, 1009) }

func pow2hull(a, b ex) (float64, float64) {
	m := math.Max(mag(a), mag(b))
	p := 1.0
	for p <= m {
		p *= 2
	}
	return -p, p - 1
}

func (g *gen) nonZero(d int) ex {
	// a divisor that is never zero
	switch g.n(3, "nz") {
	case 0:
		v := []int64{1, 2, 3, 7, 10, -1, -3, 16, 255}[g.n(9, "nzl")]
		return ex{n: ilit(v), lo: float64(v), hi: float64(v), konst: true}
	case 1:
		e := g.genInt(d - 1)
		e = shrinkTo(e, lim/4, 1000003)
		lo, hi := pow2hull(e, ex{lo: 1, hi: 1})
		return ex{n: bin("|", e.n, ilit(1)), lo: lo, hi: hi, pan: e.pan, hard: e.hard, konst: e.konst}
	default:
		e := g.genInt(d - 1)
		return ex{n: bin("+", bin("&", e.n, ilit(7)), ilit(1)), lo: 1, hi: 8, pan: e.pan, hard: e.hard, konst: e.konst}
	}
}

func (g *gen) arith(op string, a, b ex) ex {
	r := ex{pan: a.pan || b.pan, hard: a.hard || b.hard, konst: a.konst && b.konst}
	switch op {
	case "+":
		r.lo, r.hi = a.lo+b.lo, a.hi+b.hi
	case "-":
		r.lo, r.hi = a.lo-b.hi, a.hi-b.lo
	case "*":
		c := []float64{a.lo * b.lo, a.lo * b.hi, a.hi * b.lo, a.hi * b.hi}
		sort.Float64s(c)
		r.lo, r.hi = c[0], c[3]
	case "/":
		m := mag(a)
		r.lo, r.hi = -m, m
		if a.lo >= 0 && b.lo >= 0 {
			r.lo = 0
		}
		if b.lo <= 0 && b.hi >= 0 {
			r.hard = true
		}
	case "%":
		m := math.Min(mag(a), math.Max(mag(b)-1, 0))
		r.lo, r.hi = -m, m
		if a.lo >= 0 {
			r.lo = 0
		}
		if a.hi <= 0 {
			r.hi = 0
		}
		if b.lo <= 0 && b.hi >= 0 {
			r.hard = true
		}
	case "&":
		switch {
		case a.lo >= 0 && b.lo >= 0:
			r.lo, r.hi = 0, math.Min(a.hi, b.hi)
		case a.lo >= 0:
			r.lo, r.hi = 0, a.hi
		case b.lo >= 0:
			r.lo, r.hi = 0, b.hi
		default:
			r.lo, r.hi = pow2hull(a, b)
		}
	case "&^":
		r.lo, r.hi = pow2hull(a, b)
		if a.lo >= 0 {
			r.lo, r.hi = 0, a.hi
		}
	case "|", "^":
		r.lo, r.hi = pow2hull(a, b)
		if a.lo >= 0 && b.lo >= 0 {
			r.lo = 0
		}
	}
	r.n = bin(op, a.n, b.n)
	return r
}

func (g *gen) shift(op string, a ex, k ex) ex {
	r := ex{pan: a.pan || k.pan, hard: a.hard || k.hard || k.lo < 0, n: bin(op, a.n, k.n), konst: a.konst && k.konst}
	if op == "<<" {
		f := math.Pow(2, math.Max(k.hi, 0))
		r.lo, r.hi = math.Min(a.lo*f, a.lo), math.Max(a.hi*f, a.hi)
		if a.lo >= 0 {
			r.lo = a.lo
		}
	} else {
		r.lo, r.hi = math.Min(a.lo, 0), math.Max(a.hi, 0)
		if k.hi <= 0 && k.lo >= 0 {
			r.lo, r.hi = a.lo, a.hi
		}
	}
	return r
}

func (g *gen) mayPanic() bool { return !g.f.noPanic && !g.f.noSoft && !g.f.noSoftExpr }

// softStmtOK: may a statement raise a catchable exception here (explicit panic, call of a function that may)?
func (g *gen) softStmtOK() bool {
	return !g.f.noPanic && !g.f.noSoft && (!g.f.noSoftExpr || g.f.stackItems == 0)
}
func (g *gen) mayHard() bool   { return !g.f.noPanic && !g.f.protected }
func (g *gen) account(c int)   { g.f.cost += c * g.f.mult }
func (g *gen) room(c int) bool { return g.f.cost+c*g.f.mult <= g.f.budget }

// genInt produces an int expression whose interval is within lim.
func (g *gen) genInt(d int) ex {
	if d <= 0 {
		if g.chance(60) {
			if e, ok := g.intVar(); ok {
				return e
			}
		}
		return g.intLit()
	}
	w := []int{10, 25, 40, 6, 8, 6, 8, 4, 4, 5, 4}
	switch g.weighted(w, "ik") {
	case 0:
		return g.intLit()
	case 1:
		if e, ok := g.intVar(); ok {
			return e
		}
		return g.intLit()
	case 2:
		ops := []string{"+", "-", "*", "+", "-", "*", "/", "%", "&", "|", "^"}
		if g.on(kAndNot) {
			ops = append(ops, "&^")
		}
		op := ops[g.n(len(ops), "op")]
		if op == "&^" {
			g.mark("and-not")
		}
		a := g.genInt(d - 1)
		var b ex
		if op == "/" || op == "%" {
			if !g.mayHard() || g.chance(75) {
				b = g.nonZero(d)
			} else {
				b = g.genInt(d - 1)
				if b.konst && b.lo <= 0 && b.hi >= 0 {
					b = g.nonZero(d) // a constant zero divisor is a Go compile-time error
				}
			}
		} else {
			b = g.genInt(d - 1)
		}
		if a.konst && b.konst {
			// keep at least one non-constant operand most of the time (constant folding is type-checker work)
			if e, ok := g.intVar(); ok && g.chance(80) {
				a = e
			}
		}
		r := g.arith(op, a, b)
		if mag(r) > lim {
			a2, b2 := shrinkTo(a, 1<<20, 1021), shrinkTo(b, 1<<20, 1021)
			if (op == "/" || op == "%") && b2.lo <= 0 && b2.hi >= 0 && !(b.lo <= 0 && b.hi >= 0) {
				b2 = ex{n: ilit(3), lo: 3, hi: 3, konst: true}
			}
			if (op == "/" || op == "%") && !g.mayHard() && b2.lo <= 0 && b2.hi >= 0 {
				b2 = ex{n: ilit(3), lo: 3, hi: 3, konst: true}
			}
			r = g.arith(op, a2, b2)
		}
		g.mark("arith")
		return r
	case 3:
		return g.genLen()
	case 4:
		if g.chance(35) {
			if e, ok := g.genMapGet(d); ok {
				return e
			}
		}
		if g.chance(40) {
			if e, ok := g.genArrayRead(d); ok {
				return e
			}
		}
		if e, ok := g.genIndexInt(d); ok {
			return e
		}
		if e, ok := g.genArrayRead(d); ok {
			return e
		}
		return g.intLit()
	case 5:
		if e, ok := g.genFieldRead("int"); ok {
			return e
		}
		return g.intLit()
	case 6:
		if e, ok := g.genCall("int", d); ok {
			return e
		}
		return g.intLit()
	case 7:
		a := g.genInt(d - 1)
		if g.chance(70) {
			return ex{n: un("-", a.n), lo: -a.hi, hi: -a.lo, pan: a.pan, hard: a.hard, konst: a.konst}
		}
		return ex{n: un("^", a.n), lo: -a.hi - 1, hi: -a.lo - 1, pan: a.pan, hard: a.hard, konst: a.konst}
	case 8:
		a, b := g.genInt(d-1), g.genInt(d-1)
		if a.konst && b.konst {
			if e, ok := g.intVar(); ok {
				a = e
			}
		}
		op := []string{"min", "max"}[g.n(2, "mm")]
		r := ex{n: &Node{K: "minmax", S: op, A: []*Node{a.n, b.n}}, pan: a.pan || b.pan, hard: a.hard || b.hard, konst: a.konst && b.konst}
		if op == "min" {
			r.lo, r.hi = math.Min(a.lo, b.lo), math.Min(a.hi, b.hi)
		} else {
			r.lo, r.hi = math.Max(a.lo, b.lo), math.Max(a.hi, b.hi)
		}
		g.mark("minmax")
		return r
	case 9:
		a := g.genInt(d - 1)
		op := []string{"<<", ">>"}[g.n(2, "sh")]
		var k ex
		switch {
		case op == ">>" && g.chance(15) && g.on(kShiftCount):
			// a count beyond the width of any integer: Go gives 0 (-1 for a negative operand)
			if g.chance(40) {
				v := []int64{63, 64, 100, 255, 256, 257, 300, 1000}[g.n(8, "shb")]
				k = ex{n: ilit(v), lo: float64(v), hi: float64(v), konst: true}
			} else {
				e := g.genInt(d - 1)
				k = ex{n: bin("&", e.n, ilit(1023)), lo: 0, hi: 1023, pan: e.pan, hard: e.hard, konst: e.konst}
			}
			g.mark("shift-count-large")
		case g.chance(60):
			v := int64(g.n(9, "shc"))
			k = ex{n: ilit(v), lo: float64(v), hi: float64(v), konst: true}
		case g.mayHard() && g.chance(25):
			// count that may be negative: Go panics, the VM faults
			e := shrinkTo(g.genInt(d-1), 1<<20, 1021)
			if e.konst { // a negative constant shift count is a Go compile-time error
				if ve, ok := g.intVar(); ok {
					e = shrinkTo(ve, 1<<20, 1021)
				} else {
					e = ex{n: ilit(2), lo: 2, hi: 2, konst: true}
				}
			}
			k = ex{n: bin("%", e.n, ilit(5)), lo: math.Max(-4, -mag(e)), hi: 4, pan: e.pan, hard: e.hard, konst: e.konst}
			if e.lo >= 0 {
				k.lo = 0
			}
		default:
			e := g.genInt(d - 1)
			k = ex{n: bin("&", e.n, ilit(7)), lo: 0, hi: 7, pan: e.pan, hard: e.hard, konst: e.konst}
		}
		if a.konst {
			// an untyped constant on the left of a non-constant shift takes its type from the context
			// (e.g. byte(-2 >> n) does not compile): shift variables, or shift constants by constants
			if e, ok := g.intVar(); ok {
				a = e
			} else if !k.konst {
				k = ex{n: ilit(1), lo: 1, hi: 1, konst: true}
			}
		}
		if op == "<<" && mag(a)*math.Pow(2, k.hi) > lim {
			a = shrinkTo(a, 1<<20, 1021)
		}
		g.mark("shift")
		return g.shift(op, a, k)
	default:
		// bool-dependent value through a helper-free idiom is not expressible; use a conversion from a byte
		if e, ok := g.genByteAt(d); ok {
			return e
		}
		return g.intLit()
	}
}

func (g *gen) genLen() ex {
	var c []*vinfo
	for _, v := range g.visible() {
		switch v.typ {
		case "string", "[]byte", "[]int", "map[int]int", "map[string]int":
			c = append(c, v)
		}
	}
	if len(c) == 0 {
		return g.intLit()
	}
	v := c[g.n(len(c), "lenv")]
	g.useVar(v)
	hi := float64(1 << 20)
	return ex{n: &Node{K: "len", A: []*Node{vr(v.name)}}, lo: float64(v.minLen), hi: hi}
}

// indexFor produces an index into a container with the given static minimal length; mostly in range.
func (g *gen) indexFor(v *vinfo, d int) ex {
	// loop index variables bound to this container
	var idx []*vinfo
	for _, iv := range g.varsOf("int") {
		if iv.idxOf == v {
			idx = append(idx, iv)
		}
	}
	if len(idx) > 0 && g.chance(70) {
		iv := idx[g.n(len(idx), "idx")]
		return ex{n: vr(iv.name), lo: iv.lo, hi: iv.hi}
	}
	if g.mayPanic() && g.chance(8) {
		e := g.genInt(d - 1)
		e = shrinkTo(e, 1<<20, 7)
		if !(e.konst && e.lo < 0) { // a negative constant index is a Go compile-time error
			e.pan = true
			return e
		}
	}
	if v.minLen <= 0 {
		if !g.mayPanic() {
			return ex{n: ilit(0), pan: true}
		}
		e := ex{n: ilit(0), pan: true, konst: true}
		return e
	}
	if v.minLen == 1 || g.chance(45) {
		k := int64(g.n(v.minLen, "ci"))
		return ex{n: ilit(k), lo: float64(k), hi: float64(k), konst: true}
	}
	mask := int64(1)
	for mask*2+1 < int64(v.minLen) {
		mask = mask*2 + 1
	}
	if int(mask) >= v.minLen {
		return ex{n: ilit(0), konst: true}
	}
	e := g.genInt(d - 1)
	return ex{n: bin("&", e.n, ilit(mask)), lo: 0, hi: float64(mask), pan: e.pan, hard: e.hard}
}

func (g *gen) indexable(typ string) *vinfo {
	return g.pickVar(typ, func(v *vinfo) bool { return !v.maybeNil && (v.minLen > 0 || g.mayPanic() && g.hasIdx(v)) })
}

func (g *gen) hasIdx(v *vinfo) bool {
	for _, iv := range g.varsOf("int") {
		if iv.idxOf == v {
			return true
		}
	}
	return false
}

func (g *gen) genIndexInt(d int) (ex, bool) {
	v := g.indexable("[]int")
	if v == nil {
		return ex{}, false
	}
	g.useVar(v)
	i := g.indexFor(v, d)
	if i.pan && !g.mayPanic() {
		return ex{}, false
	}
	g.mark("slice-index")
	pan := i.pan || !(i.lo >= 0 && i.hi < float64(v.minLen))
	if g.hasIdxExpr(i, v) {
		pan = i.pan
	}
	if pan && !g.mayPanic() {
		return ex{}, false
	}
	return ex{n: &Node{K: "index", A: []*Node{vr(v.name), i.n}}, lo: -wideB, hi: wideB, pan: pan, hard: i.hard}, true
}

// genMapGet produces m[k]: with a key that is certainly present, or (unless the finding about absent keys is
// listed as known) with any key.
func (g *gen) genMapGet(d int) (ex, bool) {
	var c []*vinfo
	for _, v := range g.visible() {
		if v.typ == "map[int]int" || v.typ == "map[string]int" {
			c = append(c, v)
		}
	}
	if len(c) == 0 {
		return ex{}, false
	}
	mv := c[g.n(len(c), "mg")]
	var k ex
	switch {
	case len(mv.sureI) > 0 && g.chance(70):
		k = ex{n: ilit(mv.sureI[g.n(len(mv.sureI), "sk")])}
	case len(mv.sureS) > 0 && g.chance(70):
		k = ex{n: slitS(mv.sureS[g.n(len(mv.sureS), "sk")])}
	default:
		if !g.on(kMapMissing) {
			return ex{}, false
		}
		k = g.mapKey(mv)
		g.mark("map-missing-read")
	}
	g.useVar(mv)
	g.mark("map-get")
	return ex{n: &Node{K: "index", A: []*Node{vr(mv.name), k.n}}, lo: -wideB, hi: wideB, pan: k.pan, hard: k.hard}, true
}

func (g *gen) hasIdxExpr(i ex, v *vinfo) bool {
	if i.n.K != "var" {
		return false
	}
	for _, iv := range g.varsOf("int") {
		if iv.name == i.n.S && iv.idxOf == v {
			return true
		}
	}
	return false
}

// genByteAt produces int(s[i]) for a string or []byte.
func (g *gen) genByteAt(d int) (ex, bool) {
	typ := []string{"string", "[]byte"}[g.n(2, "bt")]
	v := g.indexable(typ)
	if v == nil {
		return ex{}, false
	}
	g.useVar(v)
	i := g.indexFor(v, d)
	pan := i.pan || !(i.lo >= 0 && i.hi < float64(v.minLen))
	if g.hasIdxExpr(i, v) {
		pan = i.pan
	}
	if pan && !g.mayPanic() {
		return ex{}, false
	}
	g.mark("byte-index")
	return ex{n: &Node{K: "conv", T: "int", A: []*Node{{K: "index", A: []*Node{vr(v.name), i.n}}}}, lo: 0, hi: 255, pan: pan, hard: i.hard}, true
}

func (g *gen) structDef(name string) *StructDef {
	for i := range g.pr.Structs {
		if g.pr.Structs[i].Name == name {
			return &g.pr.Structs[i]
		}
	}
	return nil
}

// selBase is the operand of a field selector on v, in the style chosen for the variable when it was declared.
func selBase(v *vinfo) *Node {
	switch v.sel {
	case "paren":
		return &Node{K: "paren", A: []*Node{vr(v.name)}}
	case "deref":
		return &Node{K: "deref", A: []*Node{vr(v.name)}}
	}
	return vr(v.name)
}

// selStyle draws the selector style of a new struct / pointer variable.
func (g *gen) selStyle(v *vinfo) {
	if g.structDef(baseStruct(v.typ)) == nil || !g.chance(12) {
		return
	}
	v.sel = "paren"
	if v.typ[0] == '*' && g.chance(60) {
		v.sel = "deref"
	}
	g.mark("selector-" + v.sel)
}

// rootVar strips selectors, indices, parentheses and dereferences.
func rootVar(n *Node) *Node {
	for n.K == "field" || n.K == "index" || n.K == "paren" || n.K == "deref" {
		n = n.A[0]
	}
	return n
}

func baseStruct(typ string) string {
	if len(typ) > 0 && typ[0] == '*' {
		return typ[1:]
	}
	return typ
}

// genFieldRead produces p.f (or p.n.f) of the wanted type.
func (g *gen) genFieldRead(typ string) (ex, bool) {
	type cand struct {
		v    *vinfo
		path []string
	}
	var cs []cand
	for _, v := range g.visible() {
		sd := g.structDef(baseStruct(v.typ))
		if sd == nil {
			continue
		}
		for _, f := range sd.Fields {
			if f.Type == typ {
				cs = append(cs, cand{v, []string{f.Name}})
			}
			if nd := g.structDef(f.Type); nd != nil {
				for _, nf := range nd.Fields {
					if nf.Type == typ {
						cs = append(cs, cand{v, []string{f.Name, nf.Name}})
						if f.Name == sd.Emb {
							cs = append(cs, cand{v, []string{nf.Name}}) // promoted field
						}
					}
				}
			}
		}
	}
	if len(cs) == 0 {
		return ex{}, false
	}
	c := cs[g.n(len(cs), "fld")]
	g.useVar(c.v)
	n := selBase(c.v)
	for _, p := range c.path {
		n = &Node{K: "field", S: p, A: []*Node{n}}
	}
	g.mark("struct-field")
	e := ex{n: n}
	if typ == "int" {
		e.lo, e.hi = -wideB, wideB
	}
	return e, true
}

// callable functions for the current context returning exactly the given result types.
func (g *gen) callables(results []string, exprCtx bool) []*fsig {
	var out []*fsig
	for _, f := range g.funcs {
		if f.exported || f.recv != "" {
			continue
		}
		if len(f.results) != len(results) {
			continue
		}
		ok := true
		for i := range results {
			if f.results[i] != results[i] {
				ok = false
			}
		}
		if !ok || !g.callOK(f, exprCtx) {
			continue
		}
		out = append(out, f)
	}
	return out
}

func (g *gen) callOK(f *fsig, exprCtx bool) bool {
	if exprCtx && !f.pure {
		return false
	}
	if g.f.pure && !f.pure {
		return false
	}
	if g.f.noPanic && !f.safe {
		return false
	}
	if g.f.noSoft && f.soft {
		return false
	}
	if f.soft && g.f.noSoftExpr && (exprCtx || g.f.stackItems > 0 || f.dirty) {
		return false
	}
	if g.f.inLambda && f.mayRecover {
		// a function reached from a deferred call that recovers on its own: recover() there must not see (Go) the
		// panic of the outer frame, but the compiled code keeps one pending exception for all frames
		if !g.on(kNestedRecov) {
			return false
		}
		g.mark("nested-recover-call")
	}
	if g.f.protected && f.hard {
		return false
	}
	if g.f.noGlobals && (f.readsG || f.writesG) {
		return false
	}
	if !g.room(f.cost + 1) {
		return false
	}
	return true
}

// recvVars lists the variables a method can be called on: those of the receiver type and, when the struct of the
// receiver is embedded in another one, the variables of the embedding struct (every variable is addressable, so both
// the value and the pointer methods are promoted).
func (g *gen) recvVars(f *fsig) []*vinfo {
	out := g.varsOf(f.recv)
	for i := range g.pr.Structs {
		sd := &g.pr.Structs[i]
		if sd.Emb != "" && sd.Emb == baseStruct(f.recv) && g.on(kPromotedMethod) {
			out = append(out, g.varsOf(sd.Name)...)
			out = append(out, g.varsOf("*"+sd.Name)...)
		}
	}
	return out
}

func (g *gen) pickRecv(f *fsig) *vinfo {
	c := g.recvVars(f)
	v := c[g.n(len(c), "recv")]
	if baseStruct(v.typ) != baseStruct(f.recv) {
		g.mark("promoted-method-call")
	}
	return v
}

// genArgs builds the argument list for a call of f; false when some argument can not be produced.
func (g *gen) genArgs(f *fsig, d int) ([]*Node, ex, bool) {
	var args []*Node
	acc := ex{}
	for i, p := range f.params {
		var a ex
		if i == 0 && f.fuel {
			if g.f.fuel != nil && f == g.f.sig {
				a = ex{n: bin("-", vr(g.f.fuel.name), ilit(1))}
			} else {
				e := g.genInt(d - 1)
				a = ex{n: bin("&", e.n, ilit(3)), pan: e.pan, hard: e.hard}
			}
		} else {
			var ok bool
			a, ok = g.genOf(p.Type, d-1)
			if !ok {
				return nil, ex{}, false
			}
			if p.Type == "int" {
				a = fitStore(a)
			}
			if p.Type == "string" && a.maxLen > strVar {
				a = g.shortStr()
			}
		}
		acc.pan = acc.pan || a.pan
		acc.hard = acc.hard || a.hard
		args = append(args, a.n)
	}
	return args, acc, true
}

func (g *gen) noteCall(f *fsig) {
	g.account(f.cost + 1)
	if f.readsG {
		g.f.sig.readsG = true
	}
	if f.writesG {
		g.f.sig.writesG = true
	}
	if f.hard {
		g.f.sig.hard = true
	}
	if f.mayRecover {
		g.f.sig.mayRecover = true
	}
	if f.soft {
		g.f.sig.soft = true
		if f.dirty || g.f.stackItems > 0 {
			g.f.sig.dirty = true
		}
	}
	g.mark("call")
}

func (g *gen) genCall(typ string, d int) (ex, bool) {
	cs := g.callables([]string{typ}, true)
	// self recursion (pure functions only inside expressions)
	if g.f.fuel != nil && g.f.sig.pure && len(g.f.sig.results) == 1 && g.f.sig.results[0] == typ && g.f.selfCalls < 2 && !g.f.inLambda && g.f.loopDepth == 0 && !g.f.noSoftExpr && !g.f.noSoft && !g.f.noPanic {
		cs = append(cs, g.f.sig)
	}
	var ms []*fsig
	for _, f := range g.funcs {
		if f.recv != "" && len(f.results) == 1 && f.results[0] == typ && g.callOK(f, true) && len(g.recvVars(f)) > 0 {
			ms = append(ms, f)
		}
	}
	if len(cs)+len(ms) == 0 {
		return ex{}, false
	}
	k := g.n(len(cs)+len(ms), "callee")
	var f *fsig
	if k < len(cs) {
		f = cs[k]
	} else {
		f = ms[k-len(cs)]
	}
	args, acc, ok := g.genArgs(f, d)
	if !ok {
		return ex{}, false
	}
	if f == g.f.sig {
		g.f.selfCalls++
		g.mark("recursion")
	} else {
		g.noteCall(f)
	}
	var n *Node
	if f.recv != "" {
		rv := g.pickRecv(f)
		g.useVar(rv)
		n = &Node{K: "mcall", S: f.name, A: append([]*Node{vr(rv.name)}, args...)}
		g.mark("method-call")
	} else {
		n = &Node{K: "call", S: f.name, A: args}
	}
	e := ex{n: n, pan: acc.pan || f.soft || f == g.f.sig, hard: acc.hard || f.hard || f == g.f.sig, fresh: true}
	if typ == "int" {
		e.lo, e.hi = -storeB, storeB
	}
	if typ == "string" {
		e.ascii, e.minLen = f.resAscii, 0
	}
	return e, true
}

func (g *gen) genOf(typ string, d int) (ex, bool) {
	switch typ {
	case "int":
		return g.genInt(d), true
	case "bool":
		return g.genBool(d), true
	case "string":
		return g.genStr(d), true
	case "[]byte":
		return g.genBytes(d), true
	}
	// containers, structs and pointers are passed as variables (or literals)
	if v := g.pickVar(typ, nil); v != nil && g.chance(80) {
		g.useVar(v)
		return ex{n: vr(v.name)}, true
	}
	return g.genFreshOf(typ, d)
}

// genFreshOf builds a new value of a composite type from a literal.
func (g *gen) genFreshOf(typ string, d int) (ex, bool) {
	switch typ {
	case "[]int":
		k := g.rng(0, 4, "sl")
		n := &Node{K: "slit", T: "[]int"}
		pan, hard := false, false
		for i := 0; i < k; i++ {
			e := fitStore(g.genInt(d - 1))
			pan, hard = pan || e.pan, hard || e.hard
			n.A = append(n.A, e.n)
		}
		return ex{n: n, minLen: k, pan: pan, hard: hard, fresh: true}, true
	case "map[int]int":
		k := g.rng(0, 3, "ml")
		n := &Node{K: "mlit", T: typ}
		used := map[int64]bool{}
		for i := 0; i < k; i++ {
			key := int64(g.rng(-1, 4, "mk"))
			if used[key] {
				continue
			}
			used[key] = true
			e := fitStore(g.genInt(0))
			n.A = append(n.A, ilit(key), e.n)
		}
		if kv := g.pickVar("int", nil); kv != nil && g.chance(15) {
			// a key that is not a constant (far away from the constant ones: equal keys in one literal are another matter)
			g.useVar(kv)
			e := fitStore(g.genInt(0))
			n.A = append(n.A, bin("+", bin("&", vr(kv.name), ilit(7)), ilit(100)), e.n)
			if g.chance(50) && kv.lo >= 100 {
				n.A[len(n.A)-2] = vr(kv.name)
			}
			g.mark("map-literal-var-key")
		}
		return ex{n: n, fresh: true}, true
	case "map[string]int":
		k := g.rng(0, 3, "ml")
		n := &Node{K: "mlit", T: typ}
		used := map[string]bool{}
		for i := 0; i < k; i++ {
			key := []string{"a", "b", "", "key", "zz"}[g.n(5, "msk")]
			if used[key] {
				continue
			}
			used[key] = true
			e := fitStore(g.genInt(0))
			n.A = append(n.A, slitS(key), e.n)
		}
		return ex{n: n, fresh: true}, true
	}
	if isArray(typ) {
		return g.arrLit(typ, d), true
	}
	base := baseStruct(typ)
	sd := g.structDef(base)
	if sd == nil {
		return ex{}, false
	}
	n := &Node{K: "stlit", T: base}
	if typ[0] == '*' {
		n.S = "&"
	}
	pan, hard := false, false
	for _, f := range sd.Fields {
		if g.chance(30) {
			continue // zero value
		}
		var e ex
		switch f.Type {
		case "int":
			e = fitStore(g.genInt(d - 1))
		case "bool":
			e = g.genBool(d - 1)
		case "string":
			e = g.genStr(d - 1)
			if e.maxLen > strVar {
				e = g.shortStr()
			}
		default:
			var ok bool
			e, ok = g.genFreshOf(f.Type, d-1)
			if !ok {
				continue
			}
		}
		pan, hard = pan || e.pan, hard || e.hard
		n.A = append(n.A, &Node{K: "kv", S: f.Name, A: []*Node{e.n}})
	}
	g.mark("struct-literal")
	return ex{n: n, fresh: true, pan: pan, hard: hard}, true
}

func (g *gen) genBool(d int) ex {
	if d <= 0 {
		if v := g.pickVar("bool", nil); v != nil && g.chance(50) {
			g.useVar(v)
			return ex{n: vr(v.name)}
		}
		a, _ := g.intVar()
		if a.n == nil {
			return ex{n: blit(g.chance(50)), konst: true}
		}
		b := g.intLit()
		return ex{n: bin([]string{"<", ">", "==", "!=", "<=", ">="}[g.n(6, "cmp")], a.n, b.n)}
	}
	switch g.weighted([]int{45, 10, 22, 8, 6, 5, 4}, "bk") {
	case 0:
		a, b := g.genInt(d-1), g.genInt(d-1)
		if a.konst && b.konst {
			if e, ok := g.intVar(); ok {
				a = e
			}
		}
		op := []string{"<", ">", "==", "!=", "<=", ">="}[g.n(6, "cmp")]
		return ex{n: bin(op, a.n, b.n), pan: a.pan || b.pan, hard: a.hard || b.hard, konst: a.konst && b.konst}
	case 1:
		if v := g.pickVar("bool", nil); v != nil {
			g.useVar(v)
			return ex{n: vr(v.name)}
		}
		return g.genBool(d - 1)
	case 2:
		a, b := g.genBool(d-1), g.genBool(d-1)
		op := []string{"&&", "||"}[g.n(2, "lop")]
		g.mark("logic")
		return ex{n: bin(op, a.n, b.n), pan: a.pan || b.pan, hard: a.hard || b.hard, konst: a.konst && b.konst}
	case 3:
		a := g.genBool(d - 1)
		return ex{n: un("!", a.n), pan: a.pan, hard: a.hard, konst: a.konst}
	case 4:
		a, b := g.genStr(d-1), g.genStr(d-1)
		ops := []string{"==", "!="}
		if g.chance(25) && g.on(kStringOrder) {
			ops = []string{"<", ">", "<=", ">="}
			g.mark("string-order")
		}
		if (!a.short || !b.short) && !g.on(kConcatCmp) {
			// a value that may come from a concatenation (a Buffer in the VM) would be compared
			a = g.shortStr()
			b = g.shortStr()
		}
		g.mark("string-compare")
		return ex{n: bin(ops[g.n(len(ops), "sop")], a.n, b.n), pan: a.pan || b.pan, hard: a.hard || b.hard, konst: a.konst && b.konst}
	case 5:
		if e, ok := g.genCall("bool", d); ok {
			return e
		}
		return g.genBool(d - 1)
	default:
		if e, ok := g.genFieldRead("bool"); ok {
			return e
		}
		return g.genBool(d - 1)
	}
}

var strLits = []string{"", "a", "b", "ab", "abc", "hello", "zz", "x1", "Neo", "0"}

func (g *gen) strLeaf() ex {
	if v := g.pickVar("string", nil); v != nil && g.chance(60) {
		g.useVar(v)
		return ex{n: vr(v.name), minLen: v.minLen, ascii: v.ascii, short: !v.growing, maxLen: v.maxLen}
	}
	s := strLits[g.n(len(strLits), "slit")]
	return ex{n: slitS(s), konst: true, minLen: len(s), ascii: true, short: true, maxLen: float64(len(s))}
}

// shortStr is a string leaf that certainly does not stem from a concatenation.
func (g *gen) shortStr() ex {
	if v := g.pickVar("string", func(v *vinfo) bool { return !v.growing }); v != nil && g.chance(60) {
		g.useVar(v)
		return ex{n: vr(v.name), minLen: v.minLen, ascii: v.ascii, short: true, maxLen: v.maxLen}
	}
	s := strLits[g.n(len(strLits), "slit")]
	return ex{n: slitS(s), konst: true, minLen: len(s), ascii: true, short: true, maxLen: float64(len(s))}
}

func (g *gen) genStr(d int) ex {
	if d <= 0 {
		return g.strLeaf()
	}
	switch g.weighted([]int{40, 25, 12, 8, 8, 7}, "sk") {
	case 0:
		return g.strLeaf()
	case 1:
		a, b := g.genStr(d-1), g.genStr(d-1)
		if a.konst && b.konst {
			a = g.strLeaf()
		}
		g.mark("string-concat")
		if a.maxLen+b.maxLen > strLim {
			b = g.shortStr()
		}
		if a.maxLen+b.maxLen > strLim {
			a = g.shortStr()
		}
		return ex{n: bin("+", a.n, b.n), pan: a.pan || b.pan, hard: a.hard || b.hard, konst: a.konst && b.konst,
			minLen: a.minLen + b.minLen, ascii: a.ascii && b.ascii, maxLen: a.maxLen + b.maxLen}
	case 2:
		// substring of a variable
		v := g.pickVar("string", nil)
		if v == nil {
			return g.strLeaf()
		}
		g.useVar(v)
		lo, hi := none(), none()
		pan := false
		l, h := 0, v.minLen
		if g.chance(70) {
			l = g.rng(0, v.minLen+btoi(g.mayHard() && g.chance(15)), "lo")
			lo = ilit(int64(l))
		}
		if g.chance(60) {
			h = g.rng(l, v.minLen+btoi(g.mayHard() && g.chance(15)), "hi")
			hi = ilit(int64(h))
			if h < l {
				h = l
			}
		}
		if l > v.minLen || h > v.minLen {
			pan = true
		}
		if pan && !g.mayHard() {
			return g.strLeaf()
		}
		g.mark("substring")
		return ex{n: &Node{K: "slice", A: []*Node{vr(v.name), lo, hi}}, hard: pan, ascii: v.ascii, short: !v.growing, minLen: max(h-l, 0), maxLen: v.maxLen}
	case 3:
		b := g.genBytes(d - 1)
		g.mark("bytes-to-string")
		return ex{n: &Node{K: "conv", T: "string", A: []*Node{b.n}}, pan: b.pan, hard: b.hard, minLen: b.minLen, short: b.short, maxLen: b.maxLen}
	case 4:
		if e, ok := g.genCall("string", d); ok {
			e.maxLen = strRes
			return e
		}
		return g.strLeaf()
	default:
		if e, ok := g.genFieldRead("string"); ok {
			e.maxLen = strVar
			return e
		}
		return g.strLeaf()
	}
}

func btoi(b bool) int {
	if b {
		return 1
	}
	return 0
}

var byteVals = []int64{0, 1, 2, 97, 127, 128, 255, 48}

func (g *gen) genBytes(d int) ex {
	if v := g.pickVar("[]byte", func(v *vinfo) bool { return !v.maybeNil || g.on(kNilBytes) }); v != nil && g.chance(55) {
		g.useVar(v)
		if v.maybeNil {
			g.mark("nil-bytes-use")
		}
		return ex{n: vr(v.name), minLen: v.minLen, short: !v.growing, maxLen: v.maxLen}
	}
	if d > 0 && g.chance(40) {
		s := g.genStr(d - 1)
		g.mark("string-to-bytes")
		return ex{n: &Node{K: "conv", T: "[]byte", A: []*Node{s.n}}, pan: s.pan, hard: s.hard, minLen: s.minLen, short: s.short, fresh: true, maxLen: s.maxLen}
	}
	k := g.rng(0, 4, "bl")
	n := &Node{K: "slit", T: "[]byte"}
	pan, hard := false, false
	for i := 0; i < k; i++ {
		if d > 0 && g.chance(25) {
			e := g.genInt(d - 1)
			n.A = append(n.A, &Node{K: "conv", T: "byte", A: []*Node{bin("&", e.n, ilit(255))}})
			pan, hard = pan || e.pan, hard || e.hard
		} else {
			n.A = append(n.A, ilit(byteVals[g.n(len(byteVals), "bv")]))
		}
	}
	g.mark("bytes-literal")
	return ex{n: n, minLen: k, short: true, fresh: true, pan: pan, hard: hard, maxLen: float64(k)}
}
