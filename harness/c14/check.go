package c14

import (
	"bytes"
	"context"
	"encoding/hex"
	"errors"
	"fmt"
	"os"
	"os/exec"
	"path/filepath"
	"reflect"
	"regexp"
	"runtime"
	"runtime/debug"
	"sort"
	"strconv"
	"strings"
	"sync"
	"time"
	"unicode"

	"github.com/nspcc-dev/neo-go/pkg/compiler"
	"github.com/nspcc-dev/neo-go/pkg/smartcontract"
	"github.com/nspcc-dev/neo-go/pkg/smartcontract/callflag"
	"github.com/nspcc-dev/neo-go/pkg/smartcontract/manifest"
	"github.com/nspcc-dev/neo-go/pkg/smartcontract/nef"
	"github.com/nspcc-dev/neo-go/pkg/smartcontract/scparser"
	"github.com/nspcc-dev/neo-go/pkg/vm"
	"github.com/nspcc-dev/neo-go/pkg/vm/opcode"
	"github.com/nspcc-dev/neo-go/pkg/vm/stackitem"
	"verifharness/vt"
)

// errHarness marks trouble of the machinery itself (Go toolchain, generator producing invalid Go): reported as
// a failure of the check so that it gets fixed, but worded so that nobody mistakes it for a compiler defect.
var errHarness = errors.New("HARNESS ERROR (not a finding about the compiler)")

// ---- Go toolchain side -----------------------------------------------------------------------------

var (
	goOnce  sync.Once
	goBin   string
	goCache string
	goWork  string // parent of the per-case module directories of this process
	goEnv   []string
	goT0    time.Time
	goErr   error
)

// goSetup finds the toolchain that built this binary and primes a private build cache (so that generated
// packages never accumulate in the user's cache).
func goSetup() error {
	goOnce.Do(func() {
		goBin = "go"
		if p := filepath.Join(runtime.GOROOT(), "bin", "go"); runtime.GOROOT() != "" {
			if _, err := os.Stat(p); err == nil {
				goBin = p
			}
		}
		// directories left behind by killed processes
		for _, pat := range []string{"c14-gocache-", "c14-work-"} {
			old, _ := filepath.Glob(filepath.Join(os.TempDir(), pat+"*"))
			for _, d := range old {
				pid := strings.TrimPrefix(filepath.Base(d), pat)
				if _, err := os.Stat("/proc/" + pid); err != nil {
					_ = os.RemoveAll(d)
				}
			}
		}
		goWork = filepath.Join(os.TempDir(), fmt.Sprintf("c14-work-%d", os.Getpid()))
		if err := os.MkdirAll(goWork, 0o755); err != nil {
			goErr = err
			return
		}
		goCache = filepath.Join(os.TempDir(), fmt.Sprintf("c14-gocache-%d", os.Getpid()))
		_ = os.RemoveAll(goCache)
		if err := os.MkdirAll(goCache, 0o755); err != nil {
			goErr = err
			return
		}
		for _, kv := range os.Environ() {
			k := strings.SplitN(kv, "=", 2)[0]
			switch k {
			case "GOFLAGS", "GOCACHE", "GOPROXY", "GO111MODULE", "GOWORK", "GOOS", "GOARCH", "CGO_ENABLED":
				continue
			}
			goEnv = append(goEnv, kv)
		}
		goEnv = append(goEnv, "GOFLAGS=-mod=mod", "GOPROXY=off", "GOCACHE="+goCache, "GOWORK=off", "CGO_ENABLED=0", "GO111MODULE=on")
		if goBin != "go" {
			goEnv = append(goEnv, "GOTOOLCHAIN=local")
		}
		// warm-up: compiles the runtime once into the private cache
		dir, err := os.MkdirTemp(goWork, "warm")
		if err != nil {
			goErr = err
			return
		}
		defer os.RemoveAll(dir)
		_ = os.WriteFile(filepath.Join(dir, "go.mod"), []byte("module c14warm\n\ngo 1.25.0\n"), 0o644)
		_ = os.WriteFile(filepath.Join(dir, "main.go"), []byte("package main\n\nfunc main() { println(\"ok\") }\n"), 0o644)
		cmd := exec.Command(goBin, "build", "-o", filepath.Join(dir, "w"), ".")
		cmd.Dir = dir
		cmd.Env = goEnv
		if out, err := cmd.CombinedOutput(); err != nil {
			goErr = fmt.Errorf("warm-up build failed: %v\n%s", err, out)
			return
		}
		time.Sleep(1100 * time.Millisecond) // mtime granularity
		goT0 = time.Now()
	})
	return goErr
}

// goCleanup removes the private build cache (called from TestMain).
func goCleanup() {
	if goCache != "" {
		_ = os.RemoveAll(goCache)
	}
	if goWork != "" {
		_ = os.RemoveAll(goWork)
	}
}

// trimCache deletes the cache entries created after the warm-up (the packages of finished batches).
func trimCache() {
	ents, err := os.ReadDir(goCache)
	if err != nil {
		return
	}
	for _, d := range ents {
		if !d.IsDir() || len(d.Name()) != 2 {
			continue
		}
		sub := filepath.Join(goCache, d.Name())
		fs, err := os.ReadDir(sub)
		if err != nil {
			continue
		}
		for _, f := range fs {
			if info, err := f.Info(); err == nil && info.ModTime().After(goT0) {
				_ = os.Remove(filepath.Join(sub, f.Name()))
			}
		}
	}
}

var trimMu sync.Mutex

func pkgName(i int) string { return fmt.Sprintf("p%d", i) }

func goArg(a Arg) string {
	switch a.T {
	case "int":
		return strconv.FormatInt(a.I, 10)
	case "bool":
		return strconv.FormatBool(a.B)
	case "string":
		return strconv.Quote(string(a.S))
	default:
		parts := make([]string, len(a.S))
		for i, b := range a.S {
			parts[i] = strconv.Itoa(int(b))
		}
		return "[]byte{" + strings.Join(parts, ", ") + "}"
	}
}

// initOrder emulates the package initialisation order of the Go specification: repeatedly the earliest variable
// in declaration order that has no uninitialised dependency. (The emulation is validated at run time: the state
// after the real package initialisation must print the same as the state after c14reset.)
func initOrder(gs []Global) []int {
	done := make([]bool, len(gs))
	var order []int
	for len(order) < len(gs) {
		progress := false
		for i := range gs {
			if done[i] {
				continue
			}
			ready := true
			for _, d := range gs[i].Deps {
				if !done[d] {
					ready = false
				}
			}
			if ready {
				done[i] = true
				order = append(order, i)
				progress = true
				break
			}
		}
		if !progress {
			break
		}
	}
	return order
}

func zeroOf(typ string) string {
	switch typ {
	case "int":
		return "0"
	case "bool":
		return "false"
	case "string":
		return `""`
	}
	if isArray(typ) {
		return typ + "{}"
	}
	if typ[0] == '*' || typ[0] == '[' || strings.HasPrefix(typ, "map") {
		return "nil"
	}
	return typ + "{}"
}

const harnessHelpers = `
const c14hex = "0123456789abcdef"

func c14h(b []byte) string {
	o := make([]byte, 0, 2*len(b))
	for _, x := range b {
		o = append(o, c14hex[x>>4], c14hex[x&15])
	}
	return string(o)
}

func c14i(v int) string {
	if v == 0 {
		return "0"
	}
	neg := v < 0
	var u uint64
	if neg {
		u = uint64(-(v + 1)) + 1
	} else {
		u = uint64(v)
	}
	var b [24]byte
	i := len(b)
	for u > 0 {
		i--
		b[i] = byte('0' + u%10)
		u /= 10
	}
	if neg {
		i--
		b[i] = '-'
	}
	return string(b[i:])
}

func c14b(v bool) string {
	if v {
		return "true"
	}
	return "false"
}

func c14is(s []int) string {
	if s == nil {
		return "nil"
	}
	o := "["
	for _, x := range s {
		o += c14i(x) + " "
	}
	return o + "]"
}

func c14mi(m map[int]int) string {
	o, n := 0, 0
	for k, v := range m {
		o += (k*31 + 7) * (v%1000003 + 13)
		n++
	}
	return c14i(n) + "#" + c14i(o)
}

func c14ms(m map[string]int) string {
	o, n := 0, 0
	for k, v := range m {
		h := 7
		for i := 0; i < len(k); i++ {
			h = h*31 + int(k[i])
		}
		o += h * (v%1000003 + 13)
		n++
	}
	return c14i(n) + "#" + c14i(o)
}

func c14call(out func(string), idx int, f func() string) {
	c14reset()
	defer func() {
		if r := recover(); r != nil {
			out("R " + c14i(idx) + " PANIC")
		}
	}()
	s := f()
	out("R " + c14i(idx) + " OK " + s)
}
`

func snapExpr(pr *Prog, name, typ string) string {
	switch typ {
	case "int":
		return "c14i(" + name + ")"
	case "bool":
		return "c14b(" + name + ")"
	case "string":
		return "c14h([]byte(" + name + "))"
	case "[]byte":
		return "c14h(" + name + ")"
	case "[]int":
		return "c14is(" + name + ")"
	case "map[int]int":
		return "c14mi(" + name + ")"
	case "map[string]int":
		return "c14ms(" + name + ")"
	}
	if isArray(typ) {
		k, el := arrSplit(typ)
		parts := []string{}
		for i := 0; i < k; i++ {
			parts = append(parts, snapExpr(pr, fmt.Sprintf("%s[%d]", name, i), el))
		}
		return `"[" + ` + strings.Join(parts, ` + "," + `) + ` + "]"`
	}
	base := baseStruct(typ)
	for _, s := range pr.Structs {
		if s.Name == base {
			parts := []string{}
			for _, f := range s.Fields {
				parts = append(parts, snapExpr(pr, name+"."+f.Name, f.Type))
			}
			return `"{" + ` + strings.Join(parts, ` + "," + `) + ` + "}"`
		}
	}
	return `"?"`
}

// harnessSource renders the Go-only companion file of a program: state reset, state snapshot and the calls.
func harnessSource(pr *Prog, pkg string) string {
	var sb strings.Builder
	// copies of the init() bodies (init itself can not be called)
	inits := ""
	for i, b := range pr.Inits {
		p := &printer{}
		p.line("func c14init%d() {", i)
		p.block(b)
		p.line("}")
		inits += p.sb.String() + "\n"
	}
	imp := ""
	if len(pr.Lib) > 0 && strings.Contains(inits, libAlias+".") {
		imp = fmt.Sprintf("\nimport %s %q\n", libAlias, libPath(pkg))
	}
	if usesConvert(inits) {
		imp += fmt.Sprintf("\nimport %q\n", convertPath)
	}
	fmt.Fprintf(&sb, "package %s\n%s%s\n%s", pkg, imp, harnessHelpers, inits)
	sb.WriteString("func c14init() {\n")
	for _, g := range pr.Globals {
		fmt.Fprintf(&sb, "\t%s = %s\n", g.Name, zeroOf(g.Type))
	}
	for _, i := range initOrder(pr.Globals) {
		if g := pr.Globals[i]; g.Init != nil {
			fmt.Fprintf(&sb, "\t%s = %s\n", g.Name, expr(g.Init))
		}
	}
	for i := range pr.Inits {
		fmt.Fprintf(&sb, "\tc14init%d()\n", i)
	}
	// c14init is the package initialisation again; a call works on the state of a freshly deployed contract
	sb.WriteString("}\n\nfunc c14reset() {\n\tc14init()\n")
	if pr.HasDeploy {
		fmt.Fprintf(&sb, "\t%s(nil, false)\n", deployName)
	}
	sb.WriteString("}\n\nfunc c14snap() string {\n\ts := \"\"\n")
	for _, g := range pr.Globals {
		fmt.Fprintf(&sb, "\ts += %s + \"|\"\n", snapExpr(pr, g.Name, g.Type))
	}
	sb.WriteString("\treturn s\n}\n\n")
	sb.WriteString("// C14Run executes every call under recover and reports one line per call.\nfunc C14Run(out func(string)) {\n")
	sb.WriteString("\tout(\"S0 \" + c14snap())\n\tc14init()\n\tout(\"S1 \" + c14snap())\n")
	for ci, c := range pr.Calls {
		f := pr.Funcs[c.F]
		args := make([]string, len(c.Args))
		for i, a := range c.Args {
			args[i] = goArg(a)
		}
		call := f.Name + "(" + strings.Join(args, ", ") + ")"
		var conv string
		switch f.Results[0].Type {
		case "int":
			conv = `"i:" + c14i(` + call + ")"
		case "bool":
			conv = `"b:" + c14b(` + call + ")"
		case "string":
			conv = `"s:" + c14h([]byte(` + call + "))"
		default:
			conv = `"s:" + c14h(` + call + ")"
		}
		fmt.Fprintf(&sb, "\tc14call(out, %d, func() string { return %s })\n", ci, conv)
	}
	sb.WriteString("}\n")
	return sb.String()
}

func mainSource(n int) string {
	var sb strings.Builder
	sb.WriteString("package main\n\nimport (\n")
	for i := 0; i < n; i++ {
		fmt.Fprintf(&sb, "\t%s \"c14mod/%s\"\n", pkgName(i), pkgName(i))
	}
	sb.WriteString(")\n\nfunc main() {\n")
	for i := 0; i < n; i++ {
		fmt.Fprintf(&sb, "\t%s.C14Run(func(s string) { print(\"P%d \", s, \"\\n\") })\n", pkgName(i), i)
	}
	sb.WriteString("\tprint(\"DONE\\n\")\n}\n")
	return sb.String()
}

type goResult struct {
	lines map[int]map[int]string // program -> call -> "OK i:5" | "PANIC"
	snap0 map[int]string
	snap1 map[int]string
}

// runGo builds the module with the standard toolchain and runs it.
func runGo(dir string, n int) (*goResult, error) {
	if err := goSetup(); err != nil {
		return nil, fmt.Errorf("%w: go toolchain set-up: %v", errHarness, err)
	}
	ctx, cancel := context.WithTimeout(context.Background(), 10*time.Minute)
	defer cancel()
	bin := filepath.Join(dir, "c14bin")
	cmd := exec.CommandContext(ctx, goBin, "build", "-o", bin, ".")
	cmd.Dir = dir
	cmd.Env = goEnv
	out, err := cmd.CombinedOutput()
	trimMu.Lock()
	trimCache()
	trimMu.Unlock()
	if err != nil {
		return nil, fmt.Errorf("%w: go build failed: %v\n%s%s", errHarness, err, out, buildContext(dir, string(out)))
	}
	run := exec.CommandContext(ctx, bin)
	run.Dir = dir
	var stderr, stdout bytes.Buffer
	run.Stderr, run.Stdout = &stderr, &stdout
	if err := run.Run(); err != nil {
		s := stderr.String()
		if len(s) > 3000 {
			s = s[len(s)-3000:]
		}
		return nil, fmt.Errorf("%w: generated Go program died: %v\n%s", errHarness, err, s)
	}
	res := &goResult{lines: map[int]map[int]string{}, snap0: map[int]string{}, snap1: map[int]string{}}
	done := false
	for _, l := range strings.Split(stderr.String(), "\n") {
		if l == "DONE" {
			done = true
			continue
		}
		if !strings.HasPrefix(l, "P") {
			continue
		}
		f := strings.SplitN(l, " ", 4)
		if len(f) < 3 {
			continue
		}
		pi, _ := strconv.Atoi(f[0][1:])
		switch f[1] {
		case "S0":
			res.snap0[pi] = strings.Join(f[2:], " ")
		case "S1":
			res.snap1[pi] = strings.Join(f[2:], " ")
		case "R":
			ci, _ := strconv.Atoi(f[2])
			if res.lines[pi] == nil {
				res.lines[pi] = map[int]string{}
			}
			rest := ""
			if len(f) > 3 {
				rest = f[3]
			}
			res.lines[pi][ci] = rest
		}
	}
	if !done {
		return nil, fmt.Errorf("%w: generated Go program did not finish:\n%s", errHarness, stderr.String())
	}
	return res, nil
}

var buildLoc = regexp.MustCompile(`(p[0-9]+/prog\.go):([0-9]+):`)

// buildContext quotes the source lines a compiler message points at.
func buildContext(dir, out string) string {
	var sb strings.Builder
	for i, m := range buildLoc.FindAllStringSubmatch(out, 4) {
		if i > 3 {
			break
		}
		b, err := os.ReadFile(filepath.Join(dir, m[1]))
		if err != nil {
			continue
		}
		ln, _ := strconv.Atoi(m[2])
		lines := strings.Split(string(b), "\n")
		fmt.Fprintf(&sb, "--- %s:%d\n", m[1], ln)
		for j := max(ln-8, 1); j <= min(ln+3, len(lines)); j++ {
			fmt.Fprintf(&sb, "%4d %s\n", j, lines[j-1])
		}
	}
	return sb.String()
}

// ---- neo-go side -----------------------------------------------------------------------------------

var rejectClass = regexp.MustCompile(`[0-9]+|"[^"]*"|'[^']*'|` + "`[^`]*`")

func classify(err error) string {
	s := err.Error()
	if i := strings.LastIndex(s, ".go:"); i >= 0 {
		// type checker message: file:line:col: text
		rest := s[i+4:]
		if j := strings.Index(rest, ": "); j >= 0 {
			s = "typecheck: " + rest[j+2:]
		}
	}
	s = rejectClass.ReplaceAllString(s, "#")
	if len(s) > 80 {
		s = s[:80]
	}
	return s
}

// compileProg runs the neo-go compiler; a Go panic inside the compiler is reported separately from a rejection.
func compileProg(name, src string) (nf *nef.File, di *compiler.DebugInfo, err error, crash string) {
	defer func() {
		if r := recover(); r != nil {
			st := strings.Split(string(debug.Stack()), "\n")
			var at []string
			for _, l := range st {
				if strings.Contains(l, "/pkg/compiler/") && len(at) < 3 {
					at = append(at, strings.TrimSpace(l))
				}
			}
			crash = fmt.Sprintf("%v (%s)", r, strings.Join(at, " <- "))
		}
	}()
	if src == "" {
		// name is a directory: every file of the package in it
		nf, di, err = compiler.CompileWithOptions(name, nil, nil)
		return
	}
	nf, di, err = compiler.CompileWithOptions(name, strings.NewReader(src), nil)
	return
}

// repoRoot is the source tree of the compiler this binary was built from (the module of a case that uses the interop
// packages points there).
func repoRoot() string {
	if fn := runtime.FuncForPC(reflect.ValueOf(compiler.CompileWithOptions).Pointer()); fn != nil {
		file, _ := fn.FileLine(fn.Entry())
		if i := strings.Index(file, "/pkg/compiler/"); i > 0 {
			if _, err := os.Stat(filepath.Join(file[:i], "pkg", "interop", "go.mod")); err == nil {
				return file[:i]
			}
		}
	}
	if r := os.Getenv("VERIF_REPO"); r != "" {
		return r
	}
	return "/repo"
}

// caseGoMod is the go.mod of the module of a case: nothing but the standard library, unless a program calls the convert
// package of the interop module (a module of its own without dependencies, taken from the tree under test).
func caseGoMod(interop bool) string {
	m := "module c14mod\n\ngo 1.25.0\n"
	if interop {
		const im = "github.com/nspcc-dev/neo-go/pkg/interop"
		m += fmt.Sprintf("\nrequire %s v0.0.0\n\nreplace %s => %s\n", im, im, filepath.Join(repoRoot(), "pkg", "interop"))
	}
	return m
}

type vmResult struct {
	fault string // non-empty: FAULT with this message
	typ   stackitem.Type
	val   string // i:..., b:..., s:hex
	depth int
}

// gasCap bounds the number of VM instructions per call (every instruction is priced one unit). Generated calls
// execute at most costCap statements, i.e. a few tens of thousands of instructions.
const gasCap = 2_000_000

// runVM executes one call the way a transaction invoking a freshly deployed contract sees it: _initialize (when the
// contract has one), then _deploy(Null, false) at deployOffset (when the contract has one; -1 otherwise), then the method
// at offset with args.
func runVM(script []byte, offset, initOffset, deployOffset int, args []Arg, resType string) vmResult {
	v := vm.New()
	v.SetPriceGetter(func(opcode.Opcode, []byte) int64 { return vm.ExecFeeFactorMultiplier })
	v.SetGasLimit(gasCap)
	v.LoadScriptWithFlags(script, callflag.All)
	for i := len(args) - 1; i >= 0; i-- {
		a := args[i]
		switch a.T {
		case "int":
			v.Estack().PushVal(a.I)
		case "bool":
			v.Estack().PushVal(a.B)
		default:
			v.Estack().PushVal([]byte(a.S))
		}
	}
	v.Context().Jump(offset)
	// (the frame called last runs first; the arguments of _deploy lie above those of the method)
	if deployOffset >= 0 {
		v.Estack().PushVal(false)
		v.Estack().PushItem(stackitem.Null{})
		v.Call(deployOffset)
	}
	if initOffset >= 0 {
		v.Call(initOffset)
	}
	if err := v.Run(); err != nil {
		return vmResult{fault: err.Error()}
	}
	r := vmResult{depth: v.Estack().Len()}
	if r.depth == 0 {
		return r
	}
	it := v.Estack().Peek(0).Item()
	r.typ = it.Type()
	switch it.Type() {
	case stackitem.IntegerT:
		bi, _ := it.TryInteger()
		r.val = "i:" + bi.String()
	case stackitem.BooleanT:
		b, _ := it.TryBool()
		r.val = "b:" + strconv.FormatBool(b)
	case stackitem.ByteArrayT, stackitem.BufferT:
		b, _ := it.TryBytes()
		r.val = "s:" + hex.EncodeToString(b)
	default:
		r.val = "?:" + it.Type().String()
		if resType == "[]byte" && it.Type() == stackitem.AnyT {
			r.val = "s:" // a nil byte slice is Null in the VM; nil and empty are not told apart
		}
	}
	return r
}

func scType(t string) smartcontract.ParamType {
	switch t {
	case "int":
		return smartcontract.IntegerType
	case "bool":
		return smartcontract.BoolType
	case "string":
		return smartcontract.StringType
	case "[]byte":
		return smartcontract.ByteArrayType
	}
	return smartcontract.AnyType
}

func lowerFirst(s string) string {
	r := []rune(s)
	r[0] = unicode.ToLower(r[0])
	return string(r)
}

var globalRef = regexp.MustCompile(`\bg[0-9]+\b`)

// checkABI compares manifest, debug information and script (second sentence of the property).
func checkABI(pr *Prog, nf *nef.File, di *compiler.DebugInfo, m *manifest.Manifest) (exclUnused bool, err error) {
	script := nf.Script
	// instruction boundaries
	starts := map[int]opcode.Opcode{}
	params := map[int][]byte{}
	ctx := scparser.NewContext(script, 0)
	for ctx.NextIP() < len(script) {
		op, par, err := ctx.Next()
		if err != nil {
			return exclUnused, fmt.Errorf("script does not decode: %v", err)
		}
		starts[ctx.IP()] = op
		params[ctx.IP()] = par
	}
	byID := map[string]*compiler.MethodDebugInfo{}
	type rg struct {
		s, e int
		id   string
	}
	var ranges []rg
	for i := range di.Methods {
		dm := &di.Methods[i]
		if byID[dm.ID] != nil {
			return exclUnused, fmt.Errorf("debug info lists method %q twice", dm.ID)
		}
		byID[dm.ID] = dm
		s, e := int(dm.Range.Start), int(dm.Range.End)
		if s == 0 && e == 65535 && vt.Known(kDebugUnused) {
			// known finding: a function that is not compiled (unused) is listed with the range 0..65535
			delete(byID, dm.ID)
			exclUnused = true
			continue
		}
		if _, ok := starts[s]; !ok {
			return exclUnused, fmt.Errorf("debug info: start %d of method %q is not an instruction boundary", s, dm.ID)
		}
		if op, ok := starts[e]; !ok {
			return exclUnused, fmt.Errorf("debug info: end %d of method %q is not an instruction boundary", e, dm.ID)
		} else if op != opcode.RET {
			return exclUnused, fmt.Errorf("debug info: method %q ends at %d with %s, not RET", dm.ID, e, op)
		}
		if e < s {
			return exclUnused, fmt.Errorf("debug info: method %q has range %d..%d", dm.ID, s, e)
		}
		ranges = append(ranges, rg{s, e, dm.ID})
	}
	sort.Slice(ranges, func(i, j int) bool { return ranges[i].s < ranges[j].s })
	for i := 1; i < len(ranges); i++ {
		if ranges[i].s <= ranges[i-1].e {
			return exclUnused, fmt.Errorf("debug info: ranges of %q (%d..%d) and %q (%d..%d) overlap", ranges[i-1].id, ranges[i-1].s, ranges[i-1].e, ranges[i].id, ranges[i].s, ranges[i].e)
		}
	}
	known := map[string]*Func{}
	for i := range pr.Funcs {
		known[pr.Funcs[i].Name] = &pr.Funcs[i]
	}
	if pr.HasDeploy {
		known[deployName] = &Func{Name: deployName, Params: deployParams}
	}
	for i := range pr.Lib {
		// (the functions of other packages are listed under their bare names)
		known[pr.Lib[i].Name] = &pr.Lib[i]
	}
	ids := make([]string, 0, len(byID))
	for id := range byID {
		ids = append(ids, id)
	}
	sort.Strings(ids)
	for _, id := range ids {
		dm := byID[id]
		if id == manifest.MethodInit || strings.HasPrefix(id, "lambda@") {
			continue
		}
		f := known[id]
		if f == nil {
			return exclUnused, fmt.Errorf("debug info names method %q which the source does not declare", id)
		}
		if len(dm.Parameters) != len(f.Params) {
			return exclUnused, fmt.Errorf("debug info: method %q has %d parameters, source has %d", id, len(dm.Parameters), len(f.Params))
		}
		for i := range f.Params {
			if dm.Parameters[i].Name != f.Params[i].Name {
				return exclUnused, fmt.Errorf("debug info: parameter %d of %q is named %q, source says %q", i, id, dm.Parameters[i].Name, f.Params[i].Name)
			}
		}
		nargs := len(f.Params)
		if f.Recv != nil {
			nargs++
		}
		s := int(dm.Range.Start)
		op := starts[s]
		switch {
		case nargs > 0 && op != opcode.INITSLOT:
			return exclUnused, fmt.Errorf("method %q takes %d arguments but starts with %s at %d, not INITSLOT", id, nargs, op, s)
		case nargs > 0 && int(params[s][1]) != nargs:
			return exclUnused, fmt.Errorf("method %q takes %d arguments but INITSLOT at %d reserves %d", id, nargs, s, params[s][1])
		case nargs == 0 && op == opcode.INITSLOT && (params[s][1] != 0 || params[s][0] == 0):
			return exclUnused, fmt.Errorf("method %q takes no arguments but starts with INITSLOT %d locals %d args", id, params[s][0], params[s][1])
		}
	}
	// manifest <-> source <-> debug info
	seen := map[string]bool{}
	for _, mm := range m.ABI.Methods {
		if mm.Name == manifest.MethodInit {
			dm := byID[manifest.MethodInit]
			if dm == nil || int(dm.Range.Start) != mm.Offset {
				return exclUnused, fmt.Errorf("manifest lists _initialize at %d, debug info disagrees", mm.Offset)
			}
			continue
		}
		if mm.Name == manifest.MethodDeploy {
			// func _deploy(data any, isUpdate bool) is the one unexported function that is a method of the contract
			dm := byID[deployName]
			switch {
			case !pr.HasDeploy:
				return exclUnused, fmt.Errorf("manifest lists %s which the source does not declare", mm.Name)
			case seen[mm.Name]:
				return exclUnused, fmt.Errorf("manifest lists method %q twice", mm.Name)
			case len(mm.Parameters) != 2 || mm.Parameters[0].Type != smartcontract.AnyType || mm.Parameters[1].Type != smartcontract.BoolType ||
				mm.Parameters[0].Name != deployParams[0].Name || mm.Parameters[1].Name != deployParams[1].Name:
				return exclUnused, fmt.Errorf("manifest: %s has the parameters %v, the source says (%s)", mm.Name, mm.Parameters, fieldList(deployParams))
			case mm.ReturnType != smartcontract.VoidType:
				return exclUnused, fmt.Errorf("manifest: %s returns %s, the source says nothing", mm.Name, mm.ReturnType)
			case mm.Safe:
				return exclUnused, fmt.Errorf("manifest: %s is marked safe", mm.Name)
			case dm == nil:
				return exclUnused, fmt.Errorf("manifest method %s has no debug info entry", mm.Name)
			case int(dm.Range.Start) != mm.Offset:
				return exclUnused, fmt.Errorf("manifest: method %s at offset %d, debug info says %d", mm.Name, mm.Offset, dm.Range.Start)
			}
			seen[mm.Name] = true
			continue
		}
		var f *Func
		for i := range pr.Funcs {
			if pr.Funcs[i].Recv == nil && unicode.IsUpper(rune(pr.Funcs[i].Name[0])) && lowerFirst(pr.Funcs[i].Name) == mm.Name {
				f = &pr.Funcs[i]
			}
		}
		if f == nil {
			return exclUnused, fmt.Errorf("manifest lists method %q which is not an exported function of the source", mm.Name)
		}
		if seen[mm.Name] {
			return exclUnused, fmt.Errorf("manifest lists method %q twice", mm.Name)
		}
		seen[mm.Name] = true
		if len(mm.Parameters) != len(f.Params) {
			return exclUnused, fmt.Errorf("manifest: method %q has %d parameters, source has %d", mm.Name, len(mm.Parameters), len(f.Params))
		}
		for i, p := range f.Params {
			if mm.Parameters[i].Type != scType(p.Type) || mm.Parameters[i].Name != p.Name {
				return exclUnused, fmt.Errorf("manifest: parameter %d of %q is %s %s, source says %s %s", i, mm.Name, mm.Parameters[i].Name, mm.Parameters[i].Type, p.Name, p.Type)
			}
		}
		if want := scType(f.Results[0].Type); mm.ReturnType != want {
			return exclUnused, fmt.Errorf("manifest: method %q returns %s, source says %s", mm.Name, mm.ReturnType, want)
		}
		dm := byID[f.Name]
		if dm == nil {
			return exclUnused, fmt.Errorf("manifest method %q has no debug info entry", mm.Name)
		}
		if int(dm.Range.Start) != mm.Offset {
			return exclUnused, fmt.Errorf("manifest: method %q at offset %d, debug info says %d", mm.Name, mm.Offset, dm.Range.Start)
		}
	}
	needInit := len(pr.Inits) > 0
	src := ""
	if pr.HasDeploy {
		if !seen[manifest.MethodDeploy] {
			return exclUnused, fmt.Errorf("the source declares %s(%s) but the manifest has no such method", deployName, fieldList(deployParams))
		}
		p := &printer{}
		p.block(pr.Deploy)
		src += p.sb.String()
	}
	for i := range pr.Funcs {
		f := &pr.Funcs[i]
		if f.Recv == nil && unicode.IsUpper(rune(f.Name[0])) {
			if !seen[lowerFirst(f.Name)] {
				return exclUnused, fmt.Errorf("exported function %s is missing from the manifest", f.Name)
			}
			p := &printer{}
			p.fn(f)
			src += p.sb.String()
		}
	}
	if len(pr.Globals) > 0 && globalRef.MatchString(src) {
		needInit = true
	}
	_, hasInit := byID[manifest.MethodInit]
	switch {
	case needInit && !hasInit:
		return exclUnused, fmt.Errorf("the program has package state used by exported functions (or init functions, or _deploy) but no _initialize method")
	case hasInit && len(pr.Globals) == 0 && len(pr.Inits) == 0 && !usesDefer(pr) && !hasFuncVar(pr):
		// (a defer needs a static slot for the pending exception, which _initialize allocates)
		return exclUnused, fmt.Errorf("_initialize emitted for a program without package variables, init functions and defers")
	case hasInit && byID[manifest.MethodInit].Range.Start != 0:
		return exclUnused, fmt.Errorf("_initialize does not start at offset 0")
	}
	return exclUnused, nil
}

// scriptDiff describes the first difference of two scripts.
func scriptDiff(a, b []byte) string {
	if len(a) != len(b) {
		return fmt.Sprintf("%d and %d bytes", len(a), len(b))
	}
	for i := range a {
		if a[i] != b[i] {
			return fmt.Sprintf("first difference at offset %d of %d: %x / %x", i, len(a), a[i:min(i+8, len(a))], b[i:min(i+8, len(b))])
		}
	}
	return "none"
}

func hasFuncVar(pr *Prog) bool {
	for i := range pr.Funcs {
		if pr.Funcs[i].AsVar {
			return true
		}
	}
	for i := range pr.Lib {
		// (a variable of the imported package)
		if pr.Lib[i].AsVar {
			return true
		}
	}
	return false
}

func usesDefer(pr *Prog) bool {
	var walk func(l []*Node) bool
	walk = func(l []*Node) bool {
		for _, n := range l {
			if n == nil {
				continue
			}
			if n.K == "defer" || n.K == "deferlit" || walk(n.A) || walk(n.B) {
				return true
			}
		}
		return false
	}
	for i := range pr.Funcs {
		if walk(pr.Funcs[i].Body) {
			return true
		}
	}
	return false
}

// ---- the check ---------------------------------------------------------------------------------------

func fmtArgs(args []Arg) string {
	parts := make([]string, len(args))
	for i, a := range args {
		parts[i] = goArg(a)
	}
	return strings.Join(parts, ", ")
}

var ntFeat = map[string]bool{"nested-control": true, "switch-in-nested-loop": true, "continue-in-switch": true,
	"labelled-outer-break": true, "labelled-outer-continue": true, "defer": true, "recover": true}

func checkCase(c Case, o *vt.Obs) error {
	if len(c.Progs) == 0 {
		return nil
	}
	if err := goSetup(); err != nil {
		return fmt.Errorf("%w: go toolchain set-up: %v", errHarness, err)
	}
	dir, err := os.MkdirTemp(goWork, "c14")
	if err != nil {
		return fmt.Errorf("%w: %v", errHarness, err)
	}
	defer os.RemoveAll(dir)
	srcs := make([]string, len(c.Progs))
	neoAt := make([]string, len(c.Progs)) // what the neo-go compiler is given: prog.go, or a directory with the two files of the package
	interop := false
	for i := range c.Progs {
		pd := filepath.Join(dir, pkgName(i))
		_ = os.MkdirAll(pd, 0o755)
		srcs[i] = c.Progs[i].Source(pkgName(i))
		neoAt[i] = filepath.Join(pd, "prog.go")
		if err := os.WriteFile(filepath.Join(pd, "prog.go"), []byte(srcs[i]), 0o644); err != nil {
			return fmt.Errorf("%w: %v", errHarness, err)
		}
		if f2 := c.Progs[i].File2Name; f2 != "" {
			// A package of two files. The Go toolchain finds them next to the companion file harness.go, which is no part
			// of the contract: the neo-go compiler is given a directory that holds copies of the two files only.
			src2 := c.Progs[i].Source2(pkgName(i))
			nd := filepath.Join(dir, pkgName(i)+"neo")
			_ = os.MkdirAll(nd, 0o755)
			for _, w := range [][2]string{{filepath.Join(pd, f2), src2}, {filepath.Join(nd, "prog.go"), srcs[i]}, {filepath.Join(nd, f2), src2}} {
				if err := os.WriteFile(w[0], []byte(w[1]), 0o644); err != nil {
					return fmt.Errorf("%w: %v", errHarness, err)
				}
			}
			neoAt[i] = nd
			srcs[i] += "--- " + f2 + " ---\n" + src2
		}
		interop = interop || usesConvert(srcs[i])
		if err := os.WriteFile(filepath.Join(pd, "harness.go"), []byte(harnessSource(&c.Progs[i], pkgName(i))), 0o644); err != nil {
			return fmt.Errorf("%w: %v", errHarness, err)
		}
		if len(c.Progs[i].Lib) > 0 {
			// the package the program imports: a directory of the same module (both compilers find it through go.mod)
			ld := filepath.Join(dir, pkgName(i)+"lib")
			_ = os.MkdirAll(ld, 0o755)
			if err := os.WriteFile(filepath.Join(ld, "lib.go"), []byte(c.Progs[i].LibSource(pkgName(i))), 0o644); err != nil {
				return fmt.Errorf("%w: %v", errHarness, err)
			}
		}
	}
	if err := os.WriteFile(filepath.Join(dir, "main.go"), []byte(mainSource(len(c.Progs))), 0o644); err != nil {
		return fmt.Errorf("%w: %v", errHarness, err)
	}
	if err := os.WriteFile(filepath.Join(dir, "go.mod"), []byte(caseGoMod(interop)), 0o644); err != nil {
		return fmt.Errorf("%w: %v", errHarness, err)
	}
	// the Go toolchain works while this goroutine compiles with neo-go and runs the VM
	var gres *goResult
	var gerr error
	var wg sync.WaitGroup
	wg.Add(1)
	tStart := time.Now()
	var tGo time.Duration
	go func() {
		defer wg.Done()
		gres, gerr = runGo(dir, len(c.Progs))
		tGo = time.Since(tStart)
	}()

	type progRes struct {
		rejected   string
		crash      string
		abiErr     error
		unstable   string
		exclUnused bool
		res        []vmResult
	}
	prs := make([]progRes, len(c.Progs))
	for i := range c.Progs {
		pr := &c.Progs[i]
		neoSrc := srcs[i]
		if pr.File2Name != "" {
			neoSrc = ""
		}
		nf, di, err, crash := compileProg(neoAt[i], neoSrc)
		if crash != "" {
			prs[i].crash = crash
			continue
		}
		if err != nil {
			prs[i].rejected = classify(err)
			continue
		}
		// the same source must give the same script every time (the verdicts below would otherwise depend on the run)
		for k := 0; k < 2 && prs[i].unstable == "" && !vt.Known(kLambdaOrder) && !vt.Known(kBytesLitOrder); k++ {
			nf2, _, err2, crash2 := compileProg(neoAt[i], neoSrc)
			switch {
			case crash2 != "" || err2 != nil:
				prs[i].unstable = fmt.Sprintf("compiled the first time, then: %s %v", crash2, err2)
			case !bytes.Equal(nf.Script, nf2.Script):
				prs[i].unstable = "two compilations of the same source give different scripts: " + scriptDiff(nf.Script, nf2.Script)
			}
		}
		m, err := compiler.CreateManifest(di, &compiler.Options{Name: "c14", NoStandardCheck: true, NoEventsCheck: true, NoPermissionsCheck: true})
		if err != nil {
			prs[i].abiErr = fmt.Errorf("manifest: %v", err)
			continue
		}
		prs[i].exclUnused, prs[i].abiErr = checkABI(pr, nf, di, m)
		offs := map[string]int{}
		initOff, deployOff := -1, -1
		if pr.HasDeploy {
			// where a deployment would run it: the offset the manifest gives
			if mm := m.ABI.GetMethod(manifest.MethodDeploy, 2); mm != nil {
				deployOff = mm.Offset
			} else if prs[i].abiErr == nil {
				prs[i].abiErr = fmt.Errorf("the manifest has no %s method with two parameters", manifest.MethodDeploy)
			}
		}
		for _, dm := range di.Methods {
			offs[dm.ID] = int(dm.Range.Start)
			if dm.ID == manifest.MethodInit {
				initOff = int(dm.Range.Start)
			}
		}
		for _, call := range pr.Calls {
			off, ok := offs[pr.Funcs[call.F].Name]
			if !ok {
				prs[i].res = append(prs[i].res, vmResult{fault: "no debug info for the method"})
				continue
			}
			prs[i].res = append(prs[i].res, runVM(nf.Script, off, initOff, deployOff, call.Args, pr.Funcs[call.F].Results[0].Type))
		}
	}
	tNeo := time.Since(tStart)
	wg.Wait()
	if os.Getenv("C14_TIMING") != "" {
		fmt.Fprintf(os.Stderr, "c14 timing: %d programs, neo-go compile+VM %v, go build+run %v\n", len(c.Progs), tNeo, tGo)
	}
	if gerr != nil {
		return gerr
	}

	units := 0
	nt := false
	for i := range c.Progs {
		pr := &c.Progs[i]
		where := func(f string, a ...any) error {
			return fmt.Errorf("program %d: %s\n--- source ---\n%s", i, fmt.Sprintf(f, a...), srcs[i])
		}
		if gres.snap0[i] != gres.snap1[i] {
			return fmt.Errorf("%w: program %d: package state after real initialisation %q differs from the reset emulation %q\n%s", errHarness, i, gres.snap0[i], gres.snap1[i], srcs[i])
		}
		for _, f := range pr.Feat {
			if strings.HasPrefix(f, "excl:") {
				o.Excluded()
			}
			o.Label(f)
		}
		if prs[i].crash != "" {
			return where("the compiler itself panics on this program (valid for the Go toolchain): %s", prs[i].crash)
		}
		if prs[i].rejected != "" {
			expected := false
			for _, f := range pr.Feat {
				if f == "anon-exported-param" {
					expected = true
				}
				// goto is valid Go that the compiler refuses by name (it has no way to translate arbitrary jumps);
				// a program with goto that does compile is compared like any other
				if f == "goto" && strings.Contains(prs[i].rejected, "goto statement is not supported") {
					expected = true
				}
				// a type switch needs run-time type information the VM does not keep (all integer types are one Integer);
				// a method value is a closure over its receiver (closures are documented as unsupported)
				if f == "type-switch" && strings.Contains(prs[i].rejected, "type switch") {
					expected = true
				}
				if f == "method-value" && strings.Contains(prs[i].rejected, "method value") {
					expected = true
				}
			}
			if !expected {
				// the generator stays inside the documented dialect: a program the Go toolchain builds must compile
				return where("the compiler rejects a program of the documented dialect: %s", prs[i].rejected)
			}
			o.Label("rejected:" + prs[i].rejected)
			o.Label("prog-rejected")
			continue
		}
		o.Label("prog-compiled")
		if prs[i].exclUnused {
			o.Label("excl:" + kDebugUnused)
			o.Excluded()
		}
		if prs[i].unstable != "" {
			return where("the compiler is not deterministic: %s", prs[i].unstable)
		}
		if prs[i].abiErr != nil {
			return where("manifest / debug info / script disagree: %v", prs[i].abiErr)
		}
		progNT := false
		for _, f := range pr.Feat {
			if ntFeat[f] {
				progNT = true
			}
		}
		anyOK := false
		for ci, call := range pr.Calls {
			f := pr.Funcs[call.F]
			want, ok := gres.lines[i][ci]
			if !ok {
				return fmt.Errorf("%w: program %d call %d: no result line from the Go side", errHarness, i, ci)
			}
			got := prs[i].res[ci]
			units++
			desc := fmt.Sprintf("%s(%s)", f.Name, fmtArgs(call.Args))
			if strings.Contains(got.fault, "gas limit") || strings.Contains(got.fault, "GAS limit") {
				return where("%s does not finish within %d VM instructions (the program is loop-bounded by construction; Go: %s)", desc, gasCap, want)
			}
			switch {
			case want == "PANIC" && got.fault != "":
				o.Label("call-panic")
			case want == "PANIC":
				return where("%s panics in Go but the compiled contract HALTs with %s", desc, got.val)
			case got.fault != "":
				return where("%s returns %s in Go but the compiled contract FAULTs: %s", desc, strings.TrimPrefix(want, "OK "), got.fault)
			default:
				w := strings.TrimPrefix(want, "OK ")
				if got.depth != 1 {
					return where("%s: the compiled contract leaves %d items on the evaluation stack (Go returns %s)", desc, got.depth, w)
				}
				if got.val != w {
					return where("%s returns %s in Go but %s (%s) in the VM", desc, w, got.val, got.typ)
				}
				anyOK = true
				o.Label("call-ok")
			}
		}
		if anyOK && progNT {
			nt = true
			o.Label("prog-nontrivial")
		}
	}
	o.Units(units)
	if nt {
		o.NonTrivial()
	}
	return nil
}

func init() {
	vt.PropertyID = "C14"
	vt.Register("diff", 1.0, genCase, checkCase)
}
