package c14

import (
	"fmt"
	"sort"

	"pgregory.net/rapid"
	"verifharness/vt"
)

func genCase(t *rapid.T) Case {
	k := rapid.IntRange(1, 16).Draw(t, "nprog")
	if k < 8 {
		k = 16 - k // mostly large batches (one toolchain invocation each); shrinking still reaches 1..8
	}
	c := Case{}
	for i := 0; i < k; i++ {
		c.Progs = append(c.Progs, genProg(t))
	}
	return c
}

func genProg(t *rapid.T) Prog {
	g := &gen{t: t, pr: &Prog{}, feat: map[string]bool{}}
	g.gotoProg = g.chance(4)
	g.tickProg = g.chance(50)
	g.tswProg = g.chance(2)
	g.mvalProg = g.chance(2)
	if g.chance(24) && g.on(kFuncVarFile) {
		// a package of two files: package variables of function type may be declared in the second one. The compilers
		// take the files in the order of their names; the variables of the second file are initialised first unless the
		// order of initialisation is free to differ from the order of the source (finding global-init-order)
		g.file2 = "fvars.go"
		if g.chance(40) && g.on(kGlobalOrder) {
			g.file2 = "zvars.go"
		}
	}
	if g.chance(1) && g.on(kBigOffsets) {
		g.bigFirstFunc()
	}
	g.genLib()
	g.genStructs()
	// helpers usable by global initialisers come first
	if g.chance(60) {
		g.genFunc("safe")
		if g.chance(20) || g.file2 != "" && g.chance(50) {
			g.pr.Funcs[len(g.pr.Funcs)-1].AsVar = true
			g.mark("func-literal-var")
			if g.file2 != "" && g.chance(70) {
				g.pr.Funcs[len(g.pr.Funcs)-1].File2 = true
				g.file2Used = true
				g.mark("func-literal-var-other-file")
			}
		}
	}
	g.genGlobals()
	g.genInits()
	g.genDeploy()
	if len(g.pr.Structs) > 0 {
		nm := g.rng(1, 2, "nmeth")
		for i := 0; i < nm; i++ {
			g.genFunc("method")
		}
	}
	nh := g.rng(1, 3, "nhelp")
	for i := 0; i < nh; i++ {
		g.genFunc("helper")
	}
	ne := g.rng(1, 2, "nexp")
	for i := 0; i < ne; i++ {
		g.genFunc("exported")
	}
	for fi, n := 0, len(g.funcs); fi < n; fi++ {
		if f := g.funcs[fi]; f.exported && f.hasDefer && g.chance(60) {
			g.observer(fi)
		}
	}
	g.genCalls()
	if g.tickV != nil {
		g.pr.Funcs = append(g.pr.Funcs, tickFunc())
	}
	if g.markFn {
		g.pr.Funcs = append(g.pr.Funcs, markFunc())
	}
	if g.libUsed {
		g.pr.Lib = g.libFuncs
		g.mark("imported-package")
	}
	if g.tickpFn {
		g.pr.Funcs = append(g.pr.Funcs, tickpFunc())
	}
	if g.tick2Fn {
		g.pr.Funcs = append(g.pr.Funcs, tick2Func())
	}
	g.pr.Funcs = append(g.pr.Funcs, g.extraFuncs()...)
	if g.file2Used {
		g.pr.File2Name = g.file2
		g.mark("two-file-package")
	}
	if g.chance(3) {
		// An exported function with type-only or blank parameters is valid Go; the compiler documents that it refuses
		// such a method (the manifest could not name its parameters). Either it does, or manifest, debug information
		// and INITSLOT have to agree on the two parameters (checkABI compares with the source).
		nm := ""
		if g.chance(40) {
			nm = "_"
		}
		g.pr.Funcs = append(g.pr.Funcs, Func{Name: "Fanon", Params: []Field{{nm, "int"}, {nm, "string"}}, Results: []Field{{"", "int"}},
			Body: []*Node{{K: "return", A: []*Node{ilit(7)}}}})
		g.mark("anon-exported-param")
	}
	for f := range g.feat {
		g.pr.Feat = append(g.pr.Feat, f)
	}
	sort.Strings(g.pr.Feat)
	return *g.pr
}

// bigFirstFunc: an exported function of more than 64 KiB of code in front of everything else, so that every other
// function of the contract starts at an offset that needs more than 16 bits (scripts may be up to 512 KiB long). The
// padding is a run of cheap statements: assignments of a 250 byte literal (254 bytes of code each) and increments.
func (g *gen) bigFirstFunc() {
	sig := &fsig{name: "F0", exported: true, params: []Field{{"a0", "int"}}, results: []string{"int"}, idx: len(g.funcs)}
	lit := make([]byte, 250)
	for i := range lit {
		lit[i] = byte('a' + (i*7+i/26)%26)
	}
	body := []*Node{
		{K: "define", S: "v1", A: []*Node{slitS("")}},
		{K: "define", S: "v2", A: []*Node{ilit(0)}},
	}
	for i, k := 0, g.rng(262, 300, "bigk"); i < k; i++ {
		body = append(body, &Node{K: "assign", S: "=", A: []*Node{vr("v1"), slitS(string(lit))}})
	}
	for i, k := 0, g.rng(0, 120, "bigpad"); i < k; i++ {
		body = append(body, &Node{K: "incdec", S: "++", A: []*Node{vr("v2")}})
	}
	body = append(body, &Node{K: "return", A: []*Node{bin("+", bin("+", &Node{K: "len", A: []*Node{vr("v1")}}, vr("v2")), vr("a0"))}})
	g.funcs = append(g.funcs, sig)
	g.pr.Funcs = append(g.pr.Funcs, Func{Name: sig.name, Params: sig.params, Results: []Field{{Type: "int"}}, Body: body})
	g.mark("big-first-func")
}

// genLib: in some programs, one or two exported functions func Lk(p0 int) int { return e } of a package of their own that
// the program imports (when some statement uses them, see stLibFunc). They see their parameter only.
func (g *gen) genLib() {
	if !g.chance(14) {
		return
	}
	for i, k := 0, g.rng(1, 2, "nlib"); i < k; i++ {
		g.f = &fctx{sig: &fsig{safe: true, pure: true}, noPanic: true, noGlobals: true, pure: true, inLambda: true, budget: 30, mult: 1}
		g.push()
		g.add(&vinfo{name: "p0", typ: "int", lo: -storeB, hi: storeB, param: true})
		body := fitStore(g.genInt(2))
		g.pop()
		g.f = nil
		g.libFuncs = append(g.libFuncs, Func{Name: fmt.Sprintf("L%d", i), Params: []Field{{"p0", "int"}}, Results: []Field{{"", "int"}},
			Body: []*Node{{K: "return", A: []*Node{body.n}}}})
	}
	if !g.on(kImportedFuncVar) {
		return
	}
	// exported variables of function type: var V0 = L0, var V1 = func(p0 int) int { return e }, var W0 = func() int { return c },
	// one of them possibly declared without a value and set by an init() function of the package
	ip, ir := []Field{{"p0", "int"}}, []Field{{"", "int"}}
	var vars []Func
	if g.chance(70) {
		vars = append(vars, Func{Name: "V0", AsVar: true, Alias: g.libFuncs[g.n(len(g.libFuncs), "lva")].Name, Params: ip, Results: ir})
	}
	if g.chance(50) {
		g.f = &fctx{sig: &fsig{safe: true, pure: true}, noPanic: true, noGlobals: true, pure: true, inLambda: true, budget: 30, mult: 1}
		g.push()
		g.add(&vinfo{name: "p0", typ: "int", lo: -storeB, hi: storeB, param: true})
		body := fitStore(g.genInt(2))
		g.pop()
		g.f = nil
		vars = append(vars, Func{Name: "V1", AsVar: true, Params: ip, Results: ir, Body: []*Node{{K: "return", A: []*Node{body.n}}}})
	}
	if g.chance(60) || len(vars) == 0 {
		vars = append(vars, Func{Name: "W0", AsVar: true, Results: ir, Body: []*Node{{K: "return", A: []*Node{ilit(smallInts[g.n(len(smallInts), "lvc")])}}}})
	}
	if g.chance(25) {
		vars[g.n(len(vars), "lvi")].ViaInit = true
	}
	if g.chance(50) {
		// var V2 = func(p0 int, p1 int) int { return p0%1009*7 + p1%1009 }: two parameters (side3.go feeds it one call with two results)
		v2 := Func{Name: libV2Name, AsVar: true, Params: []Field{{"p0", "int"}, {"p1", "int"}}, Results: ir,
			Body: []*Node{retN(bin("+", bin("*", bin("%", vr("p0"), ilit(1009)), ilit(7)), bin("%", vr("p1"), ilit(1009))))}}
		if g.chance(20) {
			v2.ViaInit = true
		}
		vars = append(vars, v2)
	}
	g.libFuncs = append(g.libFuncs, vars...)
}

func (g *gen) genStructs() {
	if !g.chance(55) {
		return
	}
	t1 := StructDef{Name: "T1", Fields: []Field{{"x", "int"}, {"y", "int"}}}
	if g.chance(30) {
		t1.Fields = append(t1.Fields, Field{"z", "bool"})
	}
	t0 := StructDef{Name: "T0", Fields: []Field{{"a", "int"}}}
	if g.chance(60) {
		t0.Fields = append(t0.Fields, Field{"s", "string"})
	}
	if g.chance(50) {
		t0.Fields = append(t0.Fields, Field{"b", "bool"})
	}
	if g.chance(60) {
		t0.Fields = append(t0.Fields, Field{Name: "n", Type: "T1"})
		g.mark("nested-struct")
		if g.chance(40) {
			// T1 embedded in T0: its fields and methods are promoted (v.x is v.T1.x, v.m() is v.T1.m())
			t0.Fields[len(t0.Fields)-1] = Field{Name: "T1", Type: "T1"}
			t0.Emb = "T1"
			g.mark("embedded-struct")
		}
	}
	if g.chance(30) {
		t0.Fields = append(t0.Fields, Field{"c", "int"})
	}
	g.pr.Structs = []StructDef{t0, t1}
	g.mark("structs")
}

// genGlobals generates package-level variables. Initialisers read only globals generated earlier; the declaration
// order is permuted afterwards (unless the finding about initialisation order is listed as known).
func (g *gen) genGlobals() {
	k := g.rng(0, 4, "nglob")
	if k == 0 {
		return
	}
	g.f = &fctx{sig: &fsig{safe: true, pure: true}, noPanic: true, inInit: true, budget: 200, mult: 1}
	g.push()
	type gl struct {
		v    *vinfo
		init *Node
		deps map[string]bool
	}
	var gs []gl
	for i := 0; i < k; i++ {
		typs := []string{"int", "int", "int", "bool", "string", "[]int", "map[int]int", "map[string]int"}
		if len(g.pr.Structs) > 0 {
			typs = append(typs, "*T0", "T1")
		}
		typ := typs[g.n(len(typs), "gt")]
		if g.chance(15) {
			ats := g.arrTypes()
			typ = ats[g.n(len(ats), "gat")]
			g.mark("global-array")
		}
		name := fmt.Sprintf("g%d", i)
		v := &vinfo{name: name, typ: typ, global: true}
		var init *Node
		deps := map[string]bool{}
		zero := g.chance(25) && (typ == "int" || typ == "bool" || typ == "string" || typ == "T1") || isArray(typ) && g.chance(50)
		e := ex{ascii: true, short: true}
		if !zero {
			var ok bool
			e, ok = g.genOfFresh(typ, 2)
			if !ok {
				continue
			}
			if typ == "int" {
				e = fitStore(e)
			}
			init = e.n
			collectVars(init, deps)
		}
		g.selStyle(v)
		if isArray(typ) {
			v.minLen, _ = arrSplit(typ)
		}
		switch typ {
		case "int":
			v.wide, v.lo, v.hi = true, -wideB, wideB
			if !zero && g.chance(25) {
				// a package variable that nothing assigns (what a constant table or a configuration value is)
				v.wide, v.ro, v.lo, v.hi = false, true, e.lo, e.hi
				g.mark("global-readonly")
			}
		case "string":
			v.ascii, v.growing, v.minLen = e.ascii, !e.short, 0
			switch {
			case !v.growing:
				v.maxLen = 16
			case e.maxLen <= strStore:
				v.maxLen = strVar
			default:
				v.maxLen, v.noAppend = e.maxLen, true
			}
		case "[]int":
			v.minLen, v.appends = e.minLen, e.minLen
		case "map[int]int", "map[string]int":
			if init != nil && init.K == "mlit" {
				for j := 0; j+1 < len(init.A); j += 2 {
					if init.A[j].K != "lit" {
						continue
					}
					if typ == "map[int]int" {
						v.sureI = append(v.sureI, init.A[j].N)
					} else {
						v.sureS = append(v.sureS, init.A[j].S)
					}
				}
			}
		}
		gs = append(gs, gl{v, init, deps})
		g.globals = append(g.globals, v)
	}
	g.pop()
	g.f = nil
	// declaration order
	order := make([]int, len(gs))
	for i := range order {
		order[i] = i
	}
	if len(gs) > 1 && g.chance(50) {
		if g.on(kGlobalOrder) {
			order = rapid.Permutation(order).Draw(g.t, "gorder")
		}
	}
	pos := map[string]int{}
	for p, i := range order {
		pos[gs[i].v.name] = p
	}
	outOfOrder := false
	for p, i := range order {
		gd := Global{Name: gs[i].v.name, Type: gs[i].v.typ, Init: gs[i].init}
		var ds []int
		for d := range gs[i].deps {
			if q, ok := pos[d]; ok {
				ds = append(ds, q)
				if q > p {
					outOfOrder = true
				}
			}
		}
		sort.Ints(ds)
		gd.Deps = ds
		g.pr.Globals = append(g.pr.Globals, gd)
		gs[i].v.gidx = p
	}
	if outOfOrder {
		g.mark("global-init-out-of-order")
	}
	for _, x := range gs {
		if len(x.deps) > 0 {
			g.mark("global-init-dependency")
		}
	}
	g.mark("globals-declared")
}

func collectVars(n *Node, out map[string]bool) {
	if n == nil {
		return
	}
	if n.K == "var" {
		out[n.S] = true
	}
	for _, a := range n.A {
		collectVars(a, out)
	}
	for _, b := range n.B {
		collectVars(b, out)
	}
}

// genInits generates init() functions: they run after all variable initialisers and must not panic.
func (g *gen) genInits() {
	if len(g.globals) == 0 || !g.chance(50) {
		return
	}
	k := g.rng(1, 2, "ninit")
	if k > 1 && !g.on(kMultiInit) {
		k = 1
	}
	if k > 1 {
		g.mark("multi-init")
	}
	for i := 0; i < k; i++ {
		g.f = &fctx{sig: &fsig{safe: true}, noPanic: true, inInit: true, budget: 150, mult: 1}
		g.push()
		var body []*Node
		if g.chance(30) {
			// an early return guard: the rest of this init() is skipped, the other init() functions still run
			c := g.genBool(2)
			if c.konst {
				c = g.genBool(0)
			}
			if !c.konst {
				st, _ := g.genStmts(2)
				body = append(st, &Node{K: "if", A: []*Node{none(), c.n}, B: []*Node{blk([]*Node{{K: "return"}}), none()}})
				g.mark("init-return")
			}
		}
		st, _ := g.genStmts(4)
		body = append(body, st...)
		g.pop()
		g.pr.Inits = append(g.pr.Inits, body)
	}
	g.f = nil
	g.mark("init-func")
}

// genDeploy generates func _deploy(data any, isUpdate bool): the method ContractManagement calls right after
// _initialize when the contract is deployed. Its body is what an init() body is (statements over the package variables
// that can not panic, function literals included) and may read isUpdate. Both sides run it once after the
// initialisation, in front of every call: the package state the exported functions see depends on the compiler having
// put _deploy where the manifest says it is.
func (g *gen) genDeploy() {
	if len(g.globals) == 0 || !g.chance(19) {
		return
	}
	g.f = &fctx{sig: &fsig{safe: true}, noPanic: true, inInit: true, budget: 150, mult: 1}
	g.push()
	g.add(&vinfo{name: "isUpdate", typ: "bool", ro: true, param: true})
	var body []*Node
	if g.chance(25) {
		// an early return: the rest of _deploy is skipped, nothing else
		st, _ := g.genStmts(2)
		c := ex{n: vr("isUpdate")}
		if g.chance(70) {
			c = g.genBool(2)
			if c.konst {
				c = g.genBool(0)
			}
		}
		if c.konst {
			c = ex{n: un("!", vr("isUpdate"))}
		}
		body = append(st, &Node{K: "if", A: []*Node{none(), c.n}, B: []*Node{blk([]*Node{{K: "return"}}), none()}})
		g.mark("deploy-return")
	}
	st, _ := g.genStmts(4)
	body = append(body, st...)
	if !g.f.sig.writesG {
		// whatever the statements above did, a deployment leaves a mark on the package state
		if w := g.globalMark(); w != nil {
			if g.chance(50) {
				body = append([]*Node{w}, body...)
			} else {
				body = append(body, w)
			}
		}
	}
	g.pop()
	g.f = nil
	g.pr.HasDeploy, g.pr.Deploy, g.pr.DeployLast = true, body, g.chance(30)
	g.mark("deploy-func")
}

// globalMark is a statement that certainly changes a package variable (nil when no variable lends itself to it).
func (g *gen) globalMark() *Node {
	var c []*Node
	for _, v := range g.globals {
		if v.ro || v.hidden {
			continue
		}
		k := ilit(int64(g.rng(1, 9, "gmk")))
		switch v.typ {
		case "int":
			if v.wide {
				c = append(c, &Node{K: "assign", S: "=", A: []*Node{vr(v.name), bin("%", bin("+", bin("*", vr(v.name), ilit(7)), k), ilit(1000003))}})
			}
		case "bool":
			c = append(c, &Node{K: "assign", S: "=", A: []*Node{vr(v.name), un("!", vr(v.name))}})
		case "map[int]int":
			c = append(c, &Node{K: "assign", S: "=", A: []*Node{{K: "index", A: []*Node{vr(v.name), ilit(4)}}, k}})
		case "T1", "*T0":
			fld := "x"
			if v.typ == "*T0" {
				fld = "a"
			}
			t := &Node{K: "field", S: fld, A: []*Node{selBase(v)}}
			c = append(c, &Node{K: "assign", S: "=", A: []*Node{t, bin("%", bin("+", bin("*", t, ilit(7)), k), ilit(1000003))}})
		}
	}
	if len(c) == 0 {
		return nil
	}
	n := c[g.n(len(c), "gm")]
	g.noteWrite(n.A[0])
	g.account(1)
	g.mark("deploy-marks-state")
	return n
}

var paramTypes = []string{"int", "int", "int", "bool", "string", "[]int", "map[int]int"}
var resultTypes = []string{"int", "int", "int", "bool", "string"}
var expTypes = []string{"int", "int", "int", "bool", "string", "[]byte"}

func (g *gen) genFunc(kind string) {
	sig := &fsig{safe: true, pure: true, idx: len(g.funcs)}
	f := &fctx{sig: sig, mult: 1, budget: 250}
	g.f = f
	g.push() // parameter scope
	fn := Func{}
	switch kind {
	case "safe":
		sig.name = fmt.Sprintf("h%d", len(g.funcs))
		f.noPanic, f.noGlobals, f.pure = true, true, true
		np := g.rng(1, 2, "np")
		for i := 0; i < np; i++ {
			sig.params = append(sig.params, Field{fmt.Sprintf("a%d", i), "int"})
		}
		sig.results = []string{"int"}
		f.budget = 60
	case "method":
		sig.name = fmt.Sprintf("m%d", len(g.funcs))
		st := g.pr.Structs[g.n(len(g.pr.Structs), "mst")]
		ptr := g.chance(60)
		sig.recv = st.Name
		f.pure = true
		if ptr {
			sig.recv = "*" + st.Name
			if g.chance(60) {
				f.pure = false
				sig.mutRecv = true
			}
		} else if g.chance(30) && g.on(kStructAlias) {
			// value receiver that changes its own copy
			f.pure = false
			sig.mutRecv = true
			g.mark("value-receiver-mutation")
		}
		np := g.rng(0, 2, "np")
		for i := 0; i < np; i++ {
			sig.params = append(sig.params, Field{fmt.Sprintf("a%d", i), []string{"int", "int", "bool", "string"}[g.n(4, "pt")]})
		}
		if g.chance(80) {
			sig.results = []string{resultTypes[g.n(len(resultTypes), "rt")]}
		}
		f.budget = 80
	case "helper":
		sig.name = fmt.Sprintf("f%d", len(g.funcs))
		f.pure = g.chance(45)
		if g.chance(30) {
			sig.fuel = true
			sig.params = append(sig.params, Field{"n", "int"})
		}
		pts := paramTypes
		if len(g.pr.Structs) > 0 {
			pts = append(append([]string{}, pts...), "*T0", "T1", "T1")
		}
		np := g.rng(0, 3, "np")
		for i := 0; i < np; i++ {
			sig.params = append(sig.params, Field{fmt.Sprintf("a%d", i), pts[g.n(len(pts), "pt")]})
		}
		nr := g.weighted([]int{25, 48, 22, 5}, "nr")
		for i := 0; i < nr; i++ {
			rt := resultTypes[g.n(len(resultTypes), "rt")]
			if nr == 1 && len(g.pr.Structs) > 0 && g.chance(15) {
				rt = "T1"
			}
			sig.results = append(sig.results, rt)
		}
		if nr == 0 {
			f.pure = false // a pure function without results would be useless
		}
		if !f.pure && g.chance(55) {
			f.hasDefer = true
			f.recovers = g.chance(65)
		}
	case "exported":
		sig.name = fmt.Sprintf("F%d", len(g.funcs))
		sig.exported = true
		f.pure = false
		np := g.rng(0, 3, "np")
		for i := 0; i < np; i++ {
			sig.params = append(sig.params, Field{fmt.Sprintf("a%d", i), expTypes[g.n(len(expTypes), "pt")]})
		}
		sig.results = []string{expTypes[g.n(len(expTypes), "rt")]}
		if g.chance(35) {
			f.hasDefer = true
			f.recovers = g.chance(65)
		}
		f.budget = 700
	}
	sig.pure = f.pure
	sig.hasDefer = f.hasDefer
	sig.recovers = f.recovers
	sig.mayRecover = f.recovers
	if f.recovers && !g.on(kRecoverHard) {
		f.protected = true
	}
	if f.hasDefer && !f.recovers && !g.on(kDeferSwallow) {
		f.noSoft = true
	}
	if f.recovers && !g.on(kResidue) {
		f.noSoftExpr = true
	}
	// named results
	named := len(sig.results) > 0 && (g.chance(30) || len(sig.results) > 1 && g.chance(25)) && kind != "safe"
	if named && f.recovers && !g.on(kRecoverNamed) {
		named = false
	}
	f.named = named
	for i, rt := range sig.results {
		r := Field{Type: rt}
		if named {
			r.Name = fmt.Sprintf("r%d", i)
		}
		f.results = append(f.results, r)
	}
	if named {
		g.mark("named-results")
		if f.recovers {
			g.mark("named-results-with-recover")
		}
	}
	// receiver and parameters
	if sig.recv != "" {
		rv := &vinfo{name: "t", typ: sig.recv, param: true}
		if !sig.mutRecv {
			rv.ro = true
		}
		g.add(rv)
		fn.Recv = &Field{Name: "t", Type: sig.recv}
	}
	for i, p := range sig.params {
		v := &vinfo{name: p.Name, typ: p.Type, param: true}
		switch p.Type {
		case "int":
			switch {
			case i == 0 && sig.fuel:
				v.lo, v.hi, v.ro = -1, 5, true
				f.fuel = v
			case sig.exported:
				// the argument class decides the static range (see genCalls)
				if g.chance(25) {
					v.lo, v.hi = -storeB, storeB
					p.Name = "b" + p.Name[1:]
					v.name = p.Name
					sig.params[i].Name = p.Name
				} else {
					v.lo, v.hi = -64, 64
				}
			default:
				v.lo, v.hi = -storeB, storeB
			}
			if !v.ro && g.chance(20) {
				v.wide, v.lo, v.hi = true, -wideB, wideB // assignable parameter
			}
		case "string":
			v.ascii, v.maxLen = true, 16
			if !sig.exported {
				v.ascii = false
				v.growing = true // unknown length
				v.maxLen, v.noAppend = strVar, true
			}
		case "[]byte":
			v.maxLen = 16
			v.ro = true // arguments arrive as immutable byte strings in the VM
		case "[]int":
			v.ro = f.pure
			v.appends = 6
		case "map[int]int", "map[string]int":
			v.nodel = true
			v.ro = f.pure
		default:
			if p.Type[0] == '*' {
				v.ro = f.pure
			}
		}
		g.add(v)
	}
	for _, r := range f.results {
		if r.Name == "" {
			continue
		}
		v := &vinfo{name: r.Name, typ: r.Type}
		if r.Type == "int" {
			v.wide, v.lo, v.hi = true, -wideB, wideB
		}
		if r.Type == "string" {
			v.growing, v.ascii, v.maxLen = true, false, strVar
		}
		if r.Type == "[]byte" {
			v.maybeNil, v.growing, v.maxLen = true, true, costCap
		}
		g.add(v)
	}
	fn.Name = sig.name
	fn.Params = sig.params
	fn.Results = f.results
	if g.chance(35) {
		fn.Group = true
		if fieldListG(fn.Params, true) != fieldListG(fn.Params, false) {
			g.mark("grouped-params")
		}
		if fieldListG(fn.Results, true) != fieldListG(fn.Results, false) {
			g.mark("grouped-results")
		}
	}

	// (parameters and the function body share one scope in Go)
	var body []*Node
	if f.fuel != nil {
		// recursion guard
		old := f.noPanic
		f.noPanic = true
		ret := g.stReturnValues()
		f.noPanic = old
		body = append(body, &Node{K: "if", A: []*Node{none(), bin("<=", vr("n"), ilit(0))}, B: []*Node{blk([]*Node{ret}), none()}})
	}
	maxSt := 4
	if kind == "exported" {
		maxSt = 7
	}
	if kind == "safe" || kind == "method" {
		maxSt = 3
	}
	if kind != "safe" && g.chance(70) {
		for _, rt := range sig.results {
			if rt == "int" || rt == "bool" {
				f.trace = "tr"
			}
		}
		if f.trace != "" {
			body = append(body, &Node{K: "define", S: "tr", A: []*Node{ilit(0)}})
			g.add(&vinfo{name: "tr", typ: "int", ro: true, lo: -wideB, hi: wideB})
			g.mark("path-trace")
		}
	}
	// several defers up front: what the function leaves behind depends on every one of them being run, once, in
	// the reverse order, whichever of them recovers
	nd := 0
	if f.hasDefer {
		nd = g.weighted([]int{25, 35, 28, 12}, "ndef")
	}
	for i := 0; i < nd && i < 2; i++ {
		body = append(body, g.stDefer())
	}
	if kind == "exported" || kind == "helper" {
		body = append(body, g.prelude()...)
	}
	if nd > 2 {
		body = append(body, g.stDefer())
	}
	if f.hasDefer && g.softStmtOK() && g.chance(45) {
		// a guard that panics with all the defers above registered
		c := g.genBool(2)
		if c.konst {
			c = g.genBool(0)
		}
		if !c.konst {
			g.noteExpr(c)
			g.account(2)
			body = append(body, &Node{K: "if", A: []*Node{none(), c.n}, B: []*Node{blk([]*Node{g.stPanic()}), none()}})
			g.mark("panic-guard")
		}
	}
	if named && g.chance(30) && g.on(kNamedRedecl) {
		// `r0, v := e1, e2` at the top level of the body: parameters, results and the body share one scope, so this
		// assigns the named result and declares only v
		for _, r := range f.results {
			if r.Type != "int" {
				continue
			}
			e1, e2 := fitStore(g.genInt(1)), fitStore(g.genInt(1))
			g.noteExpr(e1)
			g.noteExpr(e2)
			nm := g.newName(false)
			g.add(&vinfo{name: nm, typ: "int", lo: e2.lo, hi: e2.hi})
			body = append(body, &Node{K: "tassign", S: ":=", N: 2, A: []*Node{vr(r.Name), vr(nm), e1.n, e2.n}})
			g.account(1)
			g.mark("named-result-redeclare")
			break
		}
	}
	st, term := g.genStmts(maxSt)
	body = append(body, st...)
	if f.fuel != nil && f.selfCalls == 0 && !term && g.softStmtOK() && g.chance(80) {
		// make the recursive function recurse
		args, acc, ok := g.genArgs(sig, 1)
		if ok {
			g.noteExpr(acc)
			f.selfCalls++
			g.mark("recursion")
			call := &Node{K: "call", S: sig.name, A: args}
			if len(sig.results) == 0 {
				body = append(body, &Node{K: "expr", A: []*Node{call}})
			} else {
				n := &Node{K: "mret", S: "=", N: int64(len(sig.results))}
				for range sig.results {
					n.A = append(n.A, vr("_"))
				}
				n.A = append(n.A, call)
				body = append(body, n)
			}
		}
	}
	if len(sig.results) > 0 || g.chance(20) {
		if !term || len(sig.results) > 0 {
			body = append(body, g.stReturn())
		}
	}
	g.pop()
	fn.Body = body
	// recursion multiplies the cost
	if f.selfCalls > 0 {
		c := f.cost
		tot := c
		lvl := 1
		for d := 0; d < 3; d++ {
			lvl *= f.selfCalls
			tot += c * lvl
		}
		f.cost = tot
		g.mark("recursive-func")
	} else if sig.fuel {
		g.mark("fuel-unused")
	}
	sig.cost = f.cost
	sig.safe = kind == "safe"
	if f.hasDefer {
		sig.pure = false
	}
	g.funcs = append(g.funcs, sig)
	g.pr.Funcs = append(g.pr.Funcs, fn)
	g.f = nil
}

// prelude declares a few container / struct variables at the start of a function so that the statements working on
// them have something to work on.
func (g *gen) prelude() []*Node {
	var out []*Node
	typs := []string{"[]int", "map[int]int", "map[string]int"}
	if len(g.pr.Structs) > 0 {
		typs = append(typs, "*T0", "T1", "*T1")
	}
	if g.chance(35) {
		ats := g.arrTypes()
		typ := ats[g.n(len(ats), "pat")]
		name := g.newName(false)
		if g.chance(50) {
			out = append(out, &Node{K: "vardecl", S: name, T: typ})
			g.mark("array-zero-var")
			g.declare(name, typ, ex{})
		} else {
			e := g.arrLit(typ, 1)
			g.noteExpr(e)
			out = append(out, &Node{K: "define", S: name, A: []*Node{e.n}})
			g.declare(name, typ, e)
		}
	}
	for _, typ := range typs {
		if !g.chance(30) {
			continue
		}
		e, ok := g.genFreshOf(typ, 1)
		if !ok {
			continue
		}
		g.noteExpr(e)
		name := g.newName(false)
		out = append(out, &Node{K: "define", S: name, A: []*Node{e.n}})
		v := g.declare(name, typ, e)
		if typ == "[]int" {
			v.growing = true
		}
	}
	return out
}

// stReturnValues: a return with explicit simple values (used for the recursion base case).
func (g *gen) stReturnValues() *Node {
	n := &Node{K: "return"}
	for _, r := range g.f.results {
		switch r.Type {
		case "int":
			n.A = append(n.A, g.genInt(0).n)
		case "bool":
			n.A = append(n.A, blit(g.chance(50)))
		case "string":
			n.A = append(n.A, slitS(strLits[g.n(len(strLits), "bs")]))
		default:
			e, _ := g.genFreshOf(r.Type, 0)
			n.A = append(n.A, e.n)
		}
	}
	return n
}

var argStrings = []string{"", "a", "b", "ab", "abc", "hello", "zz", "x1", "key", "01234567"}
var bigInts = []int64{1 << 31, -(1 << 31), 1<<31 - 1, 65536, -65536, 255, 256, 1000003, -1, 0, 1, 12345678}

func (g *gen) genCalls() {
	for fi, f := range g.funcs {
		if !f.exported {
			continue
		}
		k := g.rng(4, 8, "ntup")
		if len(f.params) == 0 {
			k = 1
		}
		for i := 0; i < k; i++ {
			c := Call{F: fi}
			for _, p := range f.params {
				a := Arg{T: p.Type}
				switch p.Type {
				case "int":
					if p.Name[0] == 'b' && g.chance(60) {
						a.I = bigInts[g.n(len(bigInts), "big")]
					} else if g.chance(60) {
						a.I = int64(g.rng(-4, 8, "smallarg"))
					} else {
						a.I = int64(g.rng(-64, 64, "arg"))
					}
				case "bool":
					a.B = g.chance(50)
				case "string":
					a.S = vt.Bytes(argStrings[g.n(len(argStrings), "sarg")])
				case "[]byte":
					n := g.rng(0, 5, "blen")
					b := make([]byte, n)
					for j := range b {
						b[j] = byte(byteVals[g.n(len(byteVals), "barg")])
					}
					a.S = b
				}
				c.Args = append(c.Args, a)
			}
			g.pr.Calls = append(g.pr.Calls, c)
		}
	}
}
