package c14

import (
	"fmt"
	"os"
	"testing"

	"verifharness/vt"
)

func TestMain(m *testing.M) {
	code := m.Run()
	goCleanup()
	os.Exit(code)
}

func TestProp(t *testing.T)   { vt.RunAll(t, 40) }
func TestReplay(t *testing.T) { vt.ReplayAll(t) }

// TestKnownFindings re-confirms every listed known finding with its minimal reproduction.
func TestKnownFindings(t *testing.T) {
	for _, f := range findings {
		if !vt.Known(f.Key) {
			continue
		}
		got := runFinding(f)
		if got != f.GoWant && f.Fn == "" {
			vt.KnownFinding(f.Key, fmt.Sprintf("expected: %s, observed: %s; %s", f.GoWant, got, f.What))
		} else if got != f.GoWant {
			vt.KnownFinding(f.Key, fmt.Sprintf("%s(%s): Go %s, compiled contract %s; %s", f.Fn, fmtArgs(f.Args), f.GoWant, got, f.What))
		} else {
			fmt.Printf("KNOWN-FINDING-NOT-REPRODUCED: property=C14 key=%s (the reproduction now agrees with Go: %s)\n", f.Key, got)
		}
	}
}
