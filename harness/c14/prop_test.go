package c14

import (
	"os"
	"testing"

	"verifharness/vt"
)

func TestMain(m *testing.M) {
	code := m.Run()
	goCleanup()
	os.Exit(code)
}

func TestProp(t *testing.T)   { vt.RunAll(t, 150) }
func TestReplay(t *testing.T) { vt.ReplayAll(t) }
