package c14

import (
	"encoding/json"
	"os"
	"path/filepath"
	"testing"
)

// TestWriteRegress (development aid, C14_WRITE_REGRESS=<dir>) writes replay cases for repaired findings: the minimal
// reproductions of known.go expressed as generator trees, so that the replay tier keeps guarding the repairs.
func TestWriteRegress(t *testing.T) {
	dir := os.Getenv("C14_WRITE_REGRESS")
	if dir == "" {
		t.Skip("C14_WRITE_REGRESS not set")
	}
	a0 := vr("a0")
	iarg := func(v int64) []Arg { return []Arg{{T: "int", I: v}} }
	ip := []Field{{Name: "a0", Type: "int"}}
	ir := []Field{{Type: "int"}}
	def := func(n string, e *Node) *Node { return &Node{K: "define", S: n, A: []*Node{e}} }
	asg := func(op string, l, r *Node) *Node { return &Node{K: "assign", S: op, A: []*Node{l, r}} }
	ret := func(e ...*Node) *Node { return &Node{K: "return", A: e} }
	iff := func(c *Node, then ...*Node) *Node {
		return &Node{K: "if", A: []*Node{none(), c}, B: []*Node{blk(then), none()}}
	}
	cs := func(ft bool, body []*Node, e ...*Node) *Node {
		n := &Node{K: "case", A: e, B: body}
		if ft {
			n.N = 1
		}
		return n
	}
	rec := &Node{K: "deferlit", B: []*Node{{K: "expr", A: []*Node{{K: "recover"}}}}}
	pan := func(s string) *Node { return &Node{K: "panic", A: []*Node{slitS(s)}} }
	call := func(f string, a ...*Node) *Node { return &Node{K: "call", S: f, A: a} }
	v1, v2 := vr("v1"), vr("v2")

	progs := map[string]Prog{
		"switch-early-default": {Funcs: []Func{
			{Name: "Main", Params: ip, Results: ir, Body: []*Node{
				def("v1", ilit(0)),
				{K: "switch", A: []*Node{none(), none()}, B: []*Node{
					cs(false, []*Node{asg("=", v1, ilit(1))}, bin(">", a0, ilit(10))),
					cs(false, []*Node{asg("=", v1, ilit(9))}),
					cs(false, []*Node{asg("=", v1, ilit(2))}, bin(">", a0, ilit(5))),
					cs(false, []*Node{asg("=", v1, ilit(3))}, bin(">", a0, ilit(0))),
				}},
				ret(v1)}},
			{Name: "F1", Params: ip, Results: ir, Body: []*Node{
				def("v1", ilit(0)),
				{K: "switch", A: []*Node{none(), a0}, B: []*Node{
					cs(true, []*Node{asg("=", v1, ilit(1))}, ilit(1)),
					cs(true, []*Node{asg("+=", v1, ilit(2))}),
					cs(false, []*Node{asg("+=", v1, ilit(10))}, ilit(3)),
					cs(false, []*Node{asg("+=", v1, ilit(100))}, ilit(4)),
				}},
				ret(v1)}},
		}, Calls: []Call{{0, iarg(7)}, {0, iarg(20)}, {0, iarg(-1)}, {0, iarg(3)}, {1, iarg(1)}, {1, iarg(3)}, {1, iarg(4)}, {1, iarg(7)}}},
		"map-missing-key": {Funcs: []Func{
			{Name: "Main", Params: ip, Results: ir, Body: []*Node{
				def("v1", &Node{K: "mlit", T: "map[int]int", A: []*Node{ilit(1), ilit(2)}}),
				def("v2", &Node{K: "mlit", T: "map[string]int"}),
				asg("+=", &Node{K: "index", A: []*Node{v1, bin("+", a0, ilit(1))}}, ilit(3)),
				{K: "incdec", S: "++", A: []*Node{{K: "index", A: []*Node{v2, slitS("k")}}}},
				ret(bin("+", bin("+", &Node{K: "index", A: []*Node{v1, a0}}, &Node{K: "index", A: []*Node{v2, slitS("k")}}), bin("*", &Node{K: "len", A: []*Node{v1}}, ilit(100))))}},
		}, Calls: []Call{{0, iarg(3)}, {0, iarg(1)}, {0, iarg(0)}}},
		"var-self-shadow": {Funcs: []Func{
			{Name: "Main", Params: ip, Results: ir, Body: []*Node{
				def("v1", ilit(10)),
				blk([]*Node{
					{K: "vardecl", S: "v1", T: "int", A: []*Node{bin("+", v1, a0)}},
					asg("=", a0, bin("*", v1, ilit(2))),
				}),
				ret(bin("+", a0, v1))}},
		}, Calls: []Call{{0, iarg(1)}, {0, iarg(-5)}}},
		"multi-init-global-usage": {
			Globals: []Global{{Name: "g0", Type: "int", Init: ilit(2)}, {Name: "g1", Type: "int"}, {Name: "g2", Type: "int"}},
			Inits: [][]*Node{
				{asg("*=", vr("g0"), bin("+", bin("%", vr("g1"), ilit(1009)), ilit(3)))},
				{def("v1", vr("g2"))},
			},
			Funcs: []Func{{Name: "Main", Params: ip, Results: ir, Body: []*Node{ret(bin("+", vr("g0"), a0))}}},
			Calls: []Call{{0, iarg(0)}, {0, iarg(5)}}},
		"multi-defer-recover-result": {Funcs: []Func{
			{Name: "f0", Params: ip, Results: ir, Body: []*Node{rec, rec, iff(bin(">", a0, ilit(0)), pan("x")), ret(ilit(5))}},
			{Name: "Main", Params: ip, Results: ir, Body: []*Node{ret(bin("+", call("f0", a0), ilit(10)))}},
		}, Calls: []Call{{1, iarg(1)}, {1, iarg(0)}}},
		"recover-named-result": {Funcs: []Func{
			{Name: "f0", Params: ip, Results: []Field{{Name: "r0", Type: "int"}, {Name: "r1", Type: "int"}}, Body: []*Node{
				rec, asg("=", vr("r0"), ilit(7)), asg("=", vr("r1"), bin("+", a0, ilit(1))),
				iff(bin(">", a0, ilit(0)), pan("boom")), ret(vr("r0"), ilit(1))}},
			{Name: "Main", Params: ip, Results: ir, Body: []*Node{
				{K: "mret", S: ":=", N: 2, A: []*Node{v1, v2, call("f0", a0)}},
				ret(bin("+", bin("*", v1, ilit(100)), v2))}},
		}, Calls: []Call{{1, iarg(3)}, {1, iarg(0)}}},
		"nil-bytes-conversion": {Funcs: []Func{
			{Name: "Main", Params: ip, Results: ir, Body: []*Node{
				{K: "vardecl", S: "v1", T: "[]byte"},
				def("v2", bin("+", &Node{K: "conv", T: "string", A: []*Node{v1}}, slitS("x"))),
				ret(bin("+", &Node{K: "len", A: []*Node{v2}}, a0))}},
		}, Calls: []Call{{0, iarg(0)}}},
		"append-args-see-appended": {Funcs: []Func{
			{Name: "Main", Params: ip, Results: ir, Body: []*Node{
				def("v1", &Node{K: "slit", T: "[]int", A: []*Node{ilit(1), ilit(2)}}),
				asg("=", v1, &Node{K: "append", A: []*Node{v1, ilit(7), &Node{K: "len", A: []*Node{v1}}, &Node{K: "index", A: []*Node{v1, a0}}}}),
				ret(bin("+", bin("*", &Node{K: "index", A: []*Node{v1, ilit(3)}}, ilit(100)), &Node{K: "index", A: []*Node{v1, ilit(4)}}))}},
		}, Calls: []Call{{0, iarg(0)}, {0, iarg(1)}, {0, iarg(2)}}},
		"debug-unused-func-range": {Funcs: []Func{
			{Name: "f0", Results: ir, Body: []*Node{ret(ilit(2))}},
			{Name: "Main", Results: ir, Body: []*Node{ret(ilit(3))}},
		}, Calls: []Call{{F: 1}}},
	}
	for key, p := range progs {
		c := Case{Progs: []Prog{p}}
		if err := checkCase(c, nil); err != nil {
			t.Logf("%s: the case does not hold on this tree: %v", key, firstLine(err.Error()))
		}
		raw, _ := json.Marshal(c)
		env, _ := json.MarshalIndent(map[string]any{"property": "C14", "check": "diff", "case": json.RawMessage(raw)}, "", " ")
		if err := os.WriteFile(filepath.Join(dir, key+".json"), env, 0o644); err != nil {
			t.Fatal(err)
		}
	}
}

func firstLine(s string) string {
	for i := range s {
		if s[i] == '\n' {
			return s[:i]
		}
	}
	return s
}
