package c14

import (
	"encoding/json"
	"os"
	"path/filepath"
	"testing"
)

// TestWriteRegress (development aid, C14_WRITE_REGRESS=<dir>) writes replay cases for repaired findings: the minimal
// reproductions of known.go expressed as generator trees, so that the replay tier keeps guarding the repairs.
func TestWriteRegress(t *testing.T) {
	dir := os.Getenv("C14_WRITE_REGRESS")
	if dir == "" {
		t.Skip("C14_WRITE_REGRESS not set")
	}
	a0 := vr("a0")
	iarg := func(v int64) []Arg { return []Arg{{T: "int", I: v}} }
	ip := []Field{{Name: "a0", Type: "int"}}
	ir := []Field{{Type: "int"}}
	def := func(n string, e *Node) *Node { return &Node{K: "define", S: n, A: []*Node{e}} }
	asg := func(op string, l, r *Node) *Node { return &Node{K: "assign", S: op, A: []*Node{l, r}} }
	ret := func(e ...*Node) *Node { return &Node{K: "return", A: e} }
	iff := func(c *Node, then ...*Node) *Node {
		return &Node{K: "if", A: []*Node{none(), c}, B: []*Node{blk(then), none()}}
	}
	cs := func(ft bool, body []*Node, e ...*Node) *Node {
		n := &Node{K: "case", A: e, B: body}
		if ft {
			n.N = 1
		}
		return n
	}
	rec := &Node{K: "deferlit", B: []*Node{{K: "expr", A: []*Node{{K: "recover"}}}}}
	pan := func(s string) *Node { return &Node{K: "panic", A: []*Node{slitS(s)}} }
	call := func(f string, a ...*Node) *Node { return &Node{K: "call", S: f, A: a} }
	v1, v2 := vr("v1"), vr("v2")

	progs := map[string]Prog{
		"switch-early-default": {Funcs: []Func{
			{Name: "Main", Params: ip, Results: ir, Body: []*Node{
				def("v1", ilit(0)),
				{K: "switch", A: []*Node{none(), none()}, B: []*Node{
					cs(false, []*Node{asg("=", v1, ilit(1))}, bin(">", a0, ilit(10))),
					cs(false, []*Node{asg("=", v1, ilit(9))}),
					cs(false, []*Node{asg("=", v1, ilit(2))}, bin(">", a0, ilit(5))),
					cs(false, []*Node{asg("=", v1, ilit(3))}, bin(">", a0, ilit(0))),
				}},
				ret(v1)}},
			{Name: "F1", Params: ip, Results: ir, Body: []*Node{
				def("v1", ilit(0)),
				{K: "switch", A: []*Node{none(), a0}, B: []*Node{
					cs(true, []*Node{asg("=", v1, ilit(1))}, ilit(1)),
					cs(true, []*Node{asg("+=", v1, ilit(2))}),
					cs(false, []*Node{asg("+=", v1, ilit(10))}, ilit(3)),
					cs(false, []*Node{asg("+=", v1, ilit(100))}, ilit(4)),
				}},
				ret(v1)}},
		}, Calls: []Call{{0, iarg(7)}, {0, iarg(20)}, {0, iarg(-1)}, {0, iarg(3)}, {1, iarg(1)}, {1, iarg(3)}, {1, iarg(4)}, {1, iarg(7)}}},
		"map-missing-key": {Funcs: []Func{
			{Name: "Main", Params: ip, Results: ir, Body: []*Node{
				def("v1", &Node{K: "mlit", T: "map[int]int", A: []*Node{ilit(1), ilit(2)}}),
				def("v2", &Node{K: "mlit", T: "map[string]int"}),
				asg("+=", &Node{K: "index", A: []*Node{v1, bin("+", a0, ilit(1))}}, ilit(3)),
				{K: "incdec", S: "++", A: []*Node{{K: "index", A: []*Node{v2, slitS("k")}}}},
				ret(bin("+", bin("+", &Node{K: "index", A: []*Node{v1, a0}}, &Node{K: "index", A: []*Node{v2, slitS("k")}}), bin("*", &Node{K: "len", A: []*Node{v1}}, ilit(100))))}},
		}, Calls: []Call{{0, iarg(3)}, {0, iarg(1)}, {0, iarg(0)}}},
		"var-self-shadow": {Funcs: []Func{
			{Name: "Main", Params: ip, Results: ir, Body: []*Node{
				def("v1", ilit(10)),
				blk([]*Node{
					{K: "vardecl", S: "v1", T: "int", A: []*Node{bin("+", v1, a0)}},
					asg("=", a0, bin("*", v1, ilit(2))),
				}),
				ret(bin("+", a0, v1))}},
		}, Calls: []Call{{0, iarg(1)}, {0, iarg(-5)}}},
		"multi-init-global-usage": {
			Globals: []Global{{Name: "g0", Type: "int", Init: ilit(2)}, {Name: "g1", Type: "int"}, {Name: "g2", Type: "int"}},
			Inits: [][]*Node{
				{asg("*=", vr("g0"), bin("+", bin("%", vr("g1"), ilit(1009)), ilit(3)))},
				{def("v1", vr("g2"))},
			},
			Funcs: []Func{{Name: "Main", Params: ip, Results: ir, Body: []*Node{ret(bin("+", vr("g0"), a0))}}},
			Calls: []Call{{0, iarg(0)}, {0, iarg(5)}}},
		"multi-defer-recover-result": {Funcs: []Func{
			{Name: "f0", Params: ip, Results: ir, Body: []*Node{rec, rec, iff(bin(">", a0, ilit(0)), pan("x")), ret(ilit(5))}},
			{Name: "Main", Params: ip, Results: ir, Body: []*Node{ret(bin("+", call("f0", a0), ilit(10)))}},
		}, Calls: []Call{{1, iarg(1)}, {1, iarg(0)}}},
		"recover-named-result": {Funcs: []Func{
			{Name: "f0", Params: ip, Results: []Field{{Name: "r0", Type: "int"}, {Name: "r1", Type: "int"}}, Body: []*Node{
				rec, asg("=", vr("r0"), ilit(7)), asg("=", vr("r1"), bin("+", a0, ilit(1))),
				iff(bin(">", a0, ilit(0)), pan("boom")), ret(vr("r0"), ilit(1))}},
			{Name: "Main", Params: ip, Results: ir, Body: []*Node{
				{K: "mret", S: ":=", N: 2, A: []*Node{v1, v2, call("f0", a0)}},
				ret(bin("+", bin("*", v1, ilit(100)), v2))}},
		}, Calls: []Call{{1, iarg(3)}, {1, iarg(0)}}},
		"nil-bytes-conversion": {Funcs: []Func{
			{Name: "Main", Params: ip, Results: ir, Body: []*Node{
				{K: "vardecl", S: "v1", T: "[]byte"},
				def("v2", bin("+", &Node{K: "conv", T: "string", A: []*Node{v1}}, slitS("x"))),
				ret(bin("+", &Node{K: "len", A: []*Node{v2}}, a0))}},
		}, Calls: []Call{{0, iarg(0)}}},
		"append-args-see-appended": {Funcs: []Func{
			{Name: "Main", Params: ip, Results: ir, Body: []*Node{
				def("v1", &Node{K: "slit", T: "[]int", A: []*Node{ilit(1), ilit(2)}}),
				asg("=", v1, &Node{K: "append", A: []*Node{v1, ilit(7), &Node{K: "len", A: []*Node{v1}}, &Node{K: "index", A: []*Node{v1, a0}}}}),
				ret(bin("+", bin("*", &Node{K: "index", A: []*Node{v1, ilit(3)}}, ilit(100)), &Node{K: "index", A: []*Node{v1, ilit(4)}}))}},
		}, Calls: []Call{{0, iarg(0)}, {0, iarg(1)}, {0, iarg(2)}}},
		"debug-unused-func-range": {Funcs: []Func{
			{Name: "f0", Results: ir, Body: []*Node{ret(ilit(2))}},
			{Name: "Main", Results: ir, Body: []*Node{ret(ilit(3))}},
		}, Calls: []Call{{F: 1}}},
	}
	for key, p := range progs {
		c := Case{Progs: []Prog{p}}
		if err := checkCase(c, nil); err != nil {
			t.Logf("%s: the case does not hold on this tree: %v", key, firstLine(err.Error()))
		}
		raw, _ := json.Marshal(c)
		env, _ := json.MarshalIndent(map[string]any{"property": "C14", "check": "diff", "case": json.RawMessage(raw)}, "", " ")
		if err := os.WriteFile(filepath.Join(dir, key+".json"), env, 0o644); err != nil {
			t.Fatal(err)
		}
	}
}

// TestWriteRegress2 (development aid, C14_WRITE_REGRESS2=<dir>) writes replay cases for the findings of the second review
// round: hand-made minimal programs (the replay files in the repository add programs the generator found to them).
func TestWriteRegress2(t *testing.T) {
	dir := os.Getenv("C14_WRITE_REGRESS2")
	if dir == "" {
		t.Skip("C14_WRITE_REGRESS2 not set")
	}
	a0 := vr("a0")
	iarg := func(v int64) []Arg { return []Arg{{T: "int", I: v}} }
	ip := []Field{{Name: "a0", Type: "int"}}
	lp := []Field{{Name: "p0", Type: "int"}}
	ir := []Field{{Type: "int"}}
	def := func(n string, e *Node) *Node { return &Node{K: "define", S: n, A: []*Node{e}} }
	asg := func(op string, l, r *Node) *Node { return &Node{K: "assign", S: op, A: []*Node{l, r}} }
	call := func(f string, a ...*Node) *Node { return &Node{K: "call", S: f, A: a} }
	idx := func(x, i *Node) *Node { return &Node{K: "index", A: []*Node{x, i}} }
	fld := func(x *Node, f string) *Node { return &Node{K: "field", S: f, A: []*Node{x}} }
	v1, v2, v3 := vr("v1"), vr("v2"), vr("v3")
	g9 := []Global{{Name: tickCtr, Type: "int"}}
	t1 := []StructDef{{Name: "T0", Fields: []Field{{"a", "int"}, {"T1", "T1"}}, Emb: "T1"}, {Name: "T1", Fields: []Field{{"x", "int"}, {"y", "int"}}}}
	t1n := []StructDef{{Name: "T0", Fields: []Field{{"a", "int"}, {"n", "T1"}}}, {Name: "T1", Fields: []Field{{"x", "int"}, {"y", "int"}}}}
	lib := []Func{
		{Name: "L0", Params: lp, Results: ir, Body: []*Node{retN(bin("+", vr("p0"), ilit(1000)))}},
		{Name: "V0", AsVar: true, Alias: "L0", Params: lp, Results: ir},
		{Name: "V1", AsVar: true, Params: lp, Results: ir, Body: []*Node{retN(bin("*", vr("p0"), ilit(3)))}},
		{Name: "V2", AsVar: true, ViaInit: true, Alias: "L0", Params: lp, Results: ir},
		{Name: "W0", AsVar: true, Results: ir, Body: []*Node{retN(ilit(100))}},
		{Name: "W1", AsVar: true, ViaInit: true, Results: ir, Body: []*Node{retN(ilit(7))}},
	}
	g := &gen{pr: &Prog{}, tickbFn: true, tickmFn: true, tickfFn: true, tickwFn: true, ticktFn: true, tickaFn: true}
	helpers := append([]Func{tickFunc()}, g.extraFuncs()...)
	fs := g.pr.FuncStructs
	fsb := append(append([]StructDef{}, fs...), StructDef{Name: "TF1", Fields: []Field{{"n", "int"}, {"f", bytesFnT}}})
	b2u := func(c *Node) *Node {
		return &Node{K: "conv", T: "int", A: []*Node{call(convertAlias+".BytesToUint8", c)}}
	}
	fold := func(x *Node) *Node { return bin("+", bin("*", fld(x, "x"), ilit(100)), fld(x, "y")) }
	afold := func(x *Node) *Node {
		return bin("+", bin("+", bin("*", idx(x, ilit(0)), ilit(10000)), bin("*", idx(x, ilit(1)), ilit(100))), idx(x, ilit(2)))
	}
	with := func(fn []Func, extra ...Func) []Func { return append(append([]Func{}, fn...), extra...) }
	main := func(body ...*Node) Func { return Func{Name: "Main", Params: ip, Results: ir, Body: body} }
	f1 := func(body ...*Node) Func { return Func{Name: "F1", Params: ip, Results: ir, Body: body} }
	f2 := func(body ...*Node) Func { return Func{Name: "F2", Params: ip, Results: ir, Body: body} }
	calls := func(n int) []Call {
		var out []Call
		for f := 0; f < n; f++ {
			out = append(out, Call{f, iarg(5)}, Call{f, iarg(0)})
		}
		return out
	}
	t1lit := func(x, y int64) *Node { return stl("T1", "x", ilit(x), "y", ilit(y)) }
	alit := func(v ...int64) *Node {
		n := &Node{K: "alit", T: "[3]int"}
		for _, x := range v {
			n.A = append(n.A, ilit(x))
		}
		return n
	}
	progs := map[string][]Prog{
		kImportedFuncVar: {
			{Lib: lib, Funcs: []Func{
				main(retN(bin("+", call("lib.V0", a0), bin("*", call("lib.V1", a0), ilit(10000))))),
				f1(retN(bin("+", call("lib.W0"), a0))),
				f2(retN(bin("+", call("lib.V2", a0), bin("*", call("lib.W1"), ilit(10000))))),
			}, Calls: calls(3)},
			{Lib: lib[:2], Funcs: []Func{main(def("v1", call("lib.V0", a0)), retN(v1))}, Calls: calls(1)},
		},
		kFuncVarFile: {
			{File2Name: "fvars.go", Funcs: []Func{
				main(retN(bin("+", call("hv0", a0), bin("*", call("hv2", a0), ilit(10000))))),
				f1(retN(bin("+", call("hv1"), a0))),
				f2(retN(bin("+", call("hv3", a0), bin("*", call("hv4"), ilit(10000))))),
				{Name: "f0", Params: ip, Results: ir, Body: []*Node{retN(bin("+", a0, ilit(1000)))}},
				{Name: "hv0", AsVar: true, File2: true, Alias: "f0", Params: ip, Results: ir},
				{Name: "hv1", AsVar: true, File2: true, Results: ir, Body: []*Node{retN(ilit(100))}},
				{Name: "hv2", AsVar: true, File2: true, Params: ip, Results: ir, Body: []*Node{retN(bin("*", a0, ilit(3)))}},
				{Name: "hv3", AsVar: true, File2: true, ViaInit: true, Alias: "f0", Params: ip, Results: ir},
				{Name: "hv4", AsVar: true, File2: true, ViaInit: true, Results: ir, Body: []*Node{retN(ilit(7))}},
			}, Calls: calls(3)},
		},
		kInlineArgCall: {
			{Globals: g9, Structs: t1, FuncStructs: fsb, Funcs: with([]Func{
				main(def("v1", stl("TF1", "n", ilit(1), "f", vr(tickbName))), def("v2", b2u(call("v1.f"))), retN(bin("+", bin("*", v2, ilit(100)), vr(tickCtr)))),
				f1(def("v1", stl("T0", "a", a0)), def("v2", b2u(&Node{K: "mcall", S: tickmName, A: []*Node{v1}})), retN(bin("+", bin("*", v2, ilit(100)), vr(tickCtr)))),
				f2(def("v2", b2u(call("hv0"))), retN(bin("+", bin("*", v2, ilit(100)), vr(tickCtr)))),
				{Name: "hv0", AsVar: true, Alias: tickbName, Results: []Field{{Type: "[]byte"}}},
			}, helpers...), Calls: calls(3)},
		},
		kFuncValueOrder: {
			{Globals: g9, Structs: t1, FuncStructs: fsb, Funcs: with([]Func{
				main(def("v1", call(tickwName+"().f", call(tickName, ilit(7)))), retN(bin("+", v1, a0))),
				f1(def("v1", call(tickfName+"()", call(tickName, ilit(7)))), retN(bin("+", v1, a0))),
				f2(def("v1", &Node{K: "slit", T: "[]" + intFuncT, A: []*Node{vr(tfaName), vr(tfbName)}}),
					def("v2", call("v1["+expr(call(tickName, ilit(1)))+"]", call(tickName, ilit(7)))), retN(bin("+", v2, a0))),
				{Name: "F3", Params: ip, Results: ir, Body: []*Node{def("v1", call("("+tickfName+"())", call(tickName, ilit(7)))), retN(bin("+", v1, a0))}},
			}, helpers...), Calls: calls(4)},
		},
		kTupleValueVar: {
			{Globals: append([]Global{{Name: "g0", Type: "[3]int"}, {Name: "g1", Type: "T1"}}, g9...), Structs: t1n, FuncStructs: fsb, Funcs: with([]Func{
				main(def("v1", t1lit(0, 0)), &Node{K: "tassign", S: "=", N: 2, A: []*Node{v1, fld(v1, "x"), t1lit(1, 2), bin("+", a0, ilit(7))}},
					def("v2", t1lit(0, 0)), &Node{K: "tassign", S: "=", N: 2, A: []*Node{fld(v2, "x"), v2, ilit(9), t1lit(3, 4)}},
					retN(bin("+", bin("*", fold(v1), ilit(10000)), fold(v2)))),
				f1(def("v1", alit()), &Node{K: "tassign", S: "=", N: 2, A: []*Node{v1, idx(v1, ilit(0)), alit(1, 2, 3), bin("+", a0, ilit(7))}},
					&Node{K: "mret", S: "=", N: 2, A: []*Node{vr("g0"), idx(vr("g0"), ilit(1)), call(tickaName, ilit(7))}},
					retN(bin("+", bin("*", afold(v1), ilit(1000000)), afold(vr("g0"))))),
				f2(def("v1", t1lit(0, 0)), &Node{K: "mret", S: "=", N: 2, A: []*Node{v1, fld(v1, "y"), call(ticktName, ilit(7))}},
					&Node{K: "mret", S: "=", N: 2, A: []*Node{vr("g1"), fld(&Node{K: "paren", A: []*Node{vr("g1")}}, "x"), call(ticktName, ilit(7))}},
					retN(bin("+", bin("*", fold(v1), ilit(1000000)), fold(vr("g1"))))),
				{Name: "F3", Params: ip, Results: ir, Body: []*Node{
					def("v1", &Node{K: "stlit", S: "&", T: "T0"}), def("v2", &Node{K: "stlit", T: "T0"}),
					{K: "tassign", S: "=", N: 2, A: []*Node{fld(v1, "n"), fld(fld(v1, "n"), "x"), t1lit(1, 2), bin("+", a0, ilit(7))}},
					{K: "tassign", S: "=", N: 2, A: []*Node{fld(v2, "n"), fld(fld(v2, "n"), "y"), t1lit(3, 4), bin("+", a0, ilit(8))}},
					retN(bin("+", bin("*", fold(fld(v1, "n")), ilit(10000)), fold(fld(v2, "n"))))}},
				{Name: "F4", Params: ip, Results: ir, Body: []*Node{
					{K: "vardecl", S: "v1", T: "[2][3]int"}, {K: "vardecl", S: "v2", T: "[2]T1"},
					{K: "tassign", S: "=", N: 2, A: []*Node{v1, idx(idx(v1, ilit(1)), bin("&", a0, ilit(1))), &Node{K: "alit", T: "[2][3]int", A: []*Node{alit(1, 2, 3), alit(4, 5, 6)}}, ilit(77)}},
					{K: "tassign", S: "=", N: 2, A: []*Node{v2, fld(idx(v2, ilit(1)), "x"), &Node{K: "alit", T: "[2]T1", A: []*Node{t1lit(1, 2), t1lit(3, 4)}}, ilit(88)}},
					def("v3", bin("+", afold(idx(v1, ilit(1))), bin("*", fold(idx(v2, ilit(1))), ilit(1000000)))),
					retN(v3)}},
			}, helpers...), Calls: calls(5)},
		},
	}
	_ = asg
	for key, ps := range progs {
		c := Case{Progs: ps}
		if err := checkCase(c, nil); err != nil {
			t.Logf("%s: the case does not hold on this tree: %v", key, firstLine(err.Error()))
		} else {
			t.Logf("%s: holds", key)
		}
		raw, _ := json.Marshal(c)
		env, _ := json.MarshalIndent(map[string]any{"property": "C14", "check": "diff", "case": json.RawMessage(raw)}, "", " ")
		if err := os.WriteFile(filepath.Join(dir, key+".json"), env, 0o644); err != nil {
			t.Fatal(err)
		}
	}
}

func firstLine(s string) string {
	for i := range s {
		if s[i] == '\n' {
			return s[:i]
		}
	}
	return s
}
