package c14

// Constructs added after a review of the repairs of side2.go (the function value evaluated before the arguments, the
// targets of a tuple assignment taken apart):
//
//	w.f(tick2(7)), fs[0](tick2(7)), (h)(tick2(7)), func(a, b int) int {...}(tick2(7)), tickf2()(tick2(7)),
//	tickw2().f(tick2(7)), hv0(tick2(7)), lib.V2(tick2(7))
//	                                    a call through a function VALUE whose argument list is ONE call with two results: one
//	                                    argument expression, two items on the stack
//	b, b[i] = [3]byte{...}, e           the tuple assignment of a variable together with its own element, the variable being an
//	                                    array of BYTES (a Buffer in the VM, not a Struct)
//
// The helpers (declared only in the programs that call them):
//
//	func tf2a(a int, b int) int { return a%1009*3 + b%1009 }        func tf2b(a int, b int) int { return a%1009 + b%1009*5 + 1 }
//	func tickf2() func(int, int) int { g9++; if g9&1 == 0 { return tf2a }; return tf2b }
//	func tickw2() TFk { g9++; if g9&1 == 0 { return TFk{n: 1, f: tf2a} }; return TFk{n: 2, f: tf2b} }
//	func tickba(k int) ([3]byte, byte) { g9++; return [3]byte{byte(g9 & k), 2, 3}, byte(g9&k + 100) }
const (
	tf2aName   = "tf2a"
	tf2bName   = "tf2b"
	tickf2Name = "tickf2"
	tickw2Name = "tickw2"
	tickbaName = "tickba"
	libV2Name  = "V2"
	int2FuncT  = "func(int, int) int"
	tf2Lit     = "func(a, b int) int { return a%1009*3 + b%1009 }"
	// every function value called by stFuncValueMulti returns a value within +-tf2Bound
	tf2Bound = 8100
)

// extraFuncs3: the helpers of this file the program calls.
func (g *gen) extraFuncs3() []Func {
	var out []Func
	ir := []Field{{Type: "int"}}
	even := bin("==", bin("&", vr(tickCtr), ilit(1)), ilit(0))
	iff := func(c *Node, then ...*Node) *Node {
		return &Node{K: "if", A: []*Node{none(), c}, B: []*Node{blk(then), none()}}
	}
	m := func(v string) *Node { return bin("%", vr(v), ilit(1009)) }
	if g.tf2Fn || g.tickf2Fn || g.tickw2Fn {
		ab := []Field{{Name: "a", Type: "int"}, {Name: "b", Type: "int"}}
		out = append(out,
			Func{Name: tf2aName, Params: ab, Results: ir, Body: []*Node{retN(bin("+", bin("*", m("a"), ilit(3)), m("b")))}},
			Func{Name: tf2bName, Params: ab, Results: ir, Body: []*Node{retN(bin("+", bin("+", m("a"), bin("*", m("b"), ilit(5))), ilit(1)))}})
	}
	if g.tickf2Fn {
		out = append(out, Func{Name: tickf2Name, Results: []Field{{Type: int2FuncT}}, Body: []*Node{
			g9inc(), iff(even, retN(vr(tf2aName))), retN(vr(tf2bName))}})
	}
	if g.tickw2Fn {
		sn := g.funcStruct(int2FuncT)
		out = append(out, Func{Name: tickw2Name, Results: []Field{{Type: sn}}, Body: []*Node{
			g9inc(), iff(even, retN(stl(sn, "n", ilit(1), "f", vr(tf2aName)))), retN(stl(sn, "n", ilit(2), "f", vr(tf2bName)))}})
	}
	if g.tickbaFn {
		gk := bin("&", vr(tickCtr), vr("k"))
		by := func(e *Node) *Node { return &Node{K: "conv", T: "byte", A: []*Node{e}} }
		out = append(out, Func{Name: tickbaName, Params: []Field{{Name: "k", Type: "int"}}, Results: []Field{{Type: "[3]byte"}, {Type: "byte"}}, Body: []*Node{
			g9inc(), retN(&Node{K: "alit", T: "[3]byte", A: []*Node{by(gk), ilit(2), ilit(3)}}, by(bin("+", gk, ilit(100))))}})
	}
	return out
}

// stFuncValueMulti: v := <function value>(<one call with two results>). The function value is a field of function type,
// an element of a slice of functions, a parenthesised variable, a literal, the result of a call, a field of the result
// of a call, a package variable of function type (of this package: possibly of its second file, or of the imported one).
// The argument is tick2(k) or a generated function with the results (int, int).
func (g *gen) stFuncValueMulti() *Node {
	if g.f.pure || g.f.inInit || g.f.inLambda || g.f.noGlobals || !g.room(14) || !g.on(kFuncValueMulti) {
		return nil
	}
	// the argument
	var arg *Node
	var cs []*fsig
	for _, f := range g.callables([]string{"int", "int"}, false) {
		// (the function value may be on the evaluation stack while f runs)
		if !(f.soft && g.f.noSoftExpr) && f != g.f.sig {
			cs = append(cs, f)
		}
	}
	tick := g.tickOK()
	if len(cs) > 0 && (!tick || g.chance(40)) {
		f := cs[g.n(len(cs), "fmf")]
		args, acc, ok := g.genArgs(f, 1)
		if !ok {
			return nil
		}
		g.noteExpr(acc)
		g.f.stackItems++
		g.noteCall(f)
		g.f.stackItems--
		if !f.pure {
			g.f.sig.pure = false
			g.mark("effect-call")
		}
		arg = &Node{K: "call", S: f.name, A: args}
		g.mark("func-value-multi-arg-generated")
	} else if tick {
		g.tickUse()
		g.tick2Fn = true
		arg = &Node{K: "call", S: tick2Name, A: []*Node{ilit([]int64{7, 15, 255}[g.n(3, "fmk")])}}
		g.mark("func-value-multi-arg-tick2")
	} else {
		return nil
	}
	// the function value
	w := []int{20, 16, 12, 12, 0, 0, 14, 0}
	if tick {
		w[4], w[5] = 14, 14
	}
	for i := range g.libFuncs {
		if g.libFuncs[i].Name == libV2Name && g.on(kImportedFuncVar) {
			w[7] = 60
		}
	}
	if !g.on(kFuncVarFile) {
		w[6] = 0
	}
	var pre []*Node
	var fun string
	switch g.weighted(w, "fmv") {
	case 0:
		g.tf2Fn = true
		sn := g.funcStruct(int2FuncT)
		wn := g.newName(false)
		pre = append(pre, &Node{K: "define", S: wn, A: []*Node{stl(sn, "n", ilit(1), "f", vr([]string{tf2aName, tf2bName}[g.n(2, "fmh")]))}})
		fun = wn + ".f"
		g.mark("func-value-multi-field")
	case 1:
		g.tf2Fn = true
		fs := g.newName(false)
		pre = append(pre, &Node{K: "define", S: fs, A: []*Node{{K: "slit", T: "[]" + int2FuncT, A: []*Node{vr(tf2aName), vr(tf2bName)}}}})
		if tick && g.chance(50) {
			fun = fs + "[" + expr(g.tickCall(1).n) + "]"
		} else {
			fun = fs + "[" + []string{"0", "1"}[g.n(2, "fmi")] + "]"
		}
		g.mark("func-value-multi-index")
	case 2:
		g.tf2Fn = true
		h := g.newName(false)
		pre = append(pre, &Node{K: "define", S: h, A: []*Node{vr([]string{tf2aName, tf2bName}[g.n(2, "fmh")])}})
		fun = "(" + h + ")"
		g.mark("func-value-multi-paren")
	case 3:
		fun = tf2Lit
		g.mark("func-value-multi-literal")
	case 4:
		g.tickf2Fn = true
		g.tickUse()
		fun = tickf2Name + "()"
		g.mark("func-value-multi-result")
	case 5:
		g.tickw2Fn = true
		g.tickUse()
		g.funcStruct(int2FuncT)
		fun = tickw2Name + "().f"
		g.mark("func-value-multi-result-field")
	case 6:
		g.tf2Fn = true
		fv := g.funcVar(tf2aName, func(name string) Func {
			return Func{Name: name, Alias: tf2aName, Params: []Field{{Name: "a", Type: "int"}, {Name: "b", Type: "int"}}, Results: []Field{{Type: "int"}}}
		})
		if fv == nil {
			return nil
		}
		g.markFuncVar(fv, false)
		fun = fv.Name
		g.mark("func-value-multi-package-var")
	default:
		g.libUsed = true
		fun = libAlias + "." + libV2Name
		g.mark("func-value-multi-imported-var")
	}
	g.account(4)
	g.mark("func-value-multi-value-arg")
	nm := g.newName(false)
	out := append(pre, &Node{K: "define", S: nm, A: []*Node{{K: "call", S: fun, A: []*Node{arg}}}})
	g.add(&vinfo{name: nm, typ: "int", lo: -tf2Bound, hi: tf2Bound})
	if acc, ok := g.accTarget(); ok {
		g.noteWrite(acc)
		out = append(out, &Node{K: "assign", S: "+=", A: []*Node{acc, vr(nm)}})
	}
	return &Node{K: "seq", B: out}
}

// stTupleByteArray: a local array of bytes assigned together with one of its own elements, then folded into an int:
//
//	b := [3]byte{1, 2, 3}; b, b[i] = [3]byte{...}, e        b[i], b = e, [3]byte{...}        b, b[i] = tickba(7)
//	m := [2][2]byte{}; m, m[i][j] = [2][2]byte{{...}, {...}}, e
//
// The element is a part of the variable, not of the value the variable held when the statement started: Go stores from
// left to right, the element assigned after the whole lands in the new array.
func (g *gen) stTupleByteArray() *Node {
	if g.f.pure || !g.room(12) || !g.on(kTupleByteArray) {
		return nil
	}
	by := func(e *Node) *Node { return &Node{K: "conv", T: "byte", A: []*Node{e}} }
	in := func(e *Node) *Node { return &Node{K: "conv", T: "int", A: []*Node{e}} }
	blit := func(typ string, n int) *Node {
		l := &Node{K: "alit", T: typ}
		for i := 0; i < n; i++ {
			l.A = append(l.A, ilit(int64(g.rng(0, 255, "tbe"))))
		}
		return l
	}
	// a byte made of a generated int
	val := func() *Node {
		e := g.genInt(1)
		g.noteExpr(e)
		return by(bin("&", e.n, ilit(255)))
	}
	nm := g.newName(false)
	b := vr(nm)
	var decl, whole, part, fold *Node
	useCall := false
	nested := g.chance(25)
	if nested {
		mk := func() *Node {
			return &Node{K: "alit", T: "[2][2]byte", A: []*Node{blit("[2]byte", 2), blit("[2]byte", 2)}}
		}
		decl, whole = mk(), mk()
		part = &Node{K: "index", A: []*Node{{K: "index", A: []*Node{b, ilit(int64(g.n(2, "tbi")))}}, ilit(int64(g.n(2, "tbj")))}}
		el := func(i, j int64) *Node {
			return in(&Node{K: "index", A: []*Node{{K: "index", A: []*Node{b, ilit(i)}}, ilit(j)}})
		}
		fold = bin("+", bin("+", el(0, 0), bin("*", el(0, 1), ilit(3))), bin("+", bin("*", el(1, 0), ilit(5)), bin("*", el(1, 1), ilit(7))))
		g.mark("tuple-byte-array-nested")
	} else {
		decl, whole = blit("[3]byte", 3), blit("[3]byte", 3)
		if g.chance(30) {
			decl.A = nil // the zero value
		}
		if g.chance(40) {
			whole.A[g.n(3, "tbw")] = val()
		}
		var idx *Node = ilit(int64(g.n(3, "tbi")))
		// (with the call form below the index stays a constant: tickba changes g9, and Go does not say whether an
		// index operand that READS a variable is evaluated before or after a call on the right changes it)
		useCall = g.tickOK() && g.chance(40)
		if !useCall && g.chance(35) {
			e := g.genInt(1)
			g.noteExpr(e)
			idx = bin("&", e.n, ilit(1))
		}
		part = &Node{K: "index", A: []*Node{b, idx}}
		el := func(i int64) *Node { return in(&Node{K: "index", A: []*Node{b, ilit(i)}}) }
		fold = bin("+", bin("+", el(0), bin("*", el(1), ilit(3))), bin("*", el(2), ilit(7)))
		g.mark("tuple-byte-array-flat")
	}
	var st *Node
	switch {
	case !nested && useCall:
		g.tickUse()
		g.tickbaFn = true
		st = &Node{K: "mret", S: "=", N: 2, A: []*Node{b, part, {K: "call", S: tickbaName, A: []*Node{ilit([]int64{3, 7, 15}[g.n(3, "tbk")])}}}}
		g.mark("tuple-byte-array-call")
	case g.chance(30):
		st = &Node{K: "tassign", S: "=", N: 2, A: []*Node{part, b, val(), whole}}
		g.mark("tuple-byte-array-part-first")
	default:
		st = &Node{K: "tassign", S: "=", N: 2, A: []*Node{b, part, whole, val()}}
		g.mark("tuple-byte-array-whole-first")
	}
	g.account(5)
	g.mark("tuple-assign-byte-array")
	out := []*Node{{K: "define", S: nm, A: []*Node{decl}}, st}
	res := g.newName(false)
	out = append(out, &Node{K: "define", S: res, A: []*Node{fold}})
	g.add(&vinfo{name: res, typ: "int", lo: 0, hi: 255 * 16})
	if acc, ok := g.accTarget(); ok {
		g.noteWrite(acc)
		out = append(out, &Node{K: "assign", S: "+=", A: []*Node{acc, vr(res)}})
	}
	return &Node{K: "seq", B: out}
}
