package c13

import (
	"math/bits"

	"pgregory.net/rapid"
)

// rapid's integer generators are deliberately biased towards small values (geometric bit length), which would
// concentrate categorical choices on the first alternatives. Categorical picks are therefore built from single unbiased
// bits (rapid.Bool draws one bit of the underlying stream); shrinking still drives them towards index 0.

func bitsOf(t *rapid.T, n int, label string) uint64 {
	var v uint64
	for i := 0; i < n; i++ {
		v <<= 1
		if rapid.Bool().Draw(t, label) {
			v |= 1
		}
	}
	return v
}

// pick returns a (nearly) uniform value in [0, n).
func pick(t *rapid.T, n int, label string) int {
	if n <= 1 {
		return 0
	}
	return int(bitsOf(t, bits.Len(uint(n-1))+5, label) % uint64(n))
}

func pickRange(t *rapid.T, lo, hi int, label string) int { return lo + pick(t, hi-lo+1, label) }

func sample[E any](t *rapid.T, xs []E, label string) E { return xs[pick(t, len(xs), label)] }

// uniformBytes expands a drawn 48-bit seed with splitmix64 (a deterministic function of the draws).
func uniformBytes(t *rapid.T, n int, label string) []byte {
	x := bitsOf(t, 48, label)
	out := make([]byte, n)
	for i := 0; i < n; i += 8 {
		x += 0x9e3779b97f4a7c15
		z := x
		z = (z ^ (z >> 30)) * 0xbf58476d1ce4e5b9
		z = (z ^ (z >> 27)) * 0x94d049bb133111eb
		z ^= z >> 31
		for k := 0; k < 8 && i+k < n; k++ {
			out[i+k] = byte(z >> (8 * k))
		}
	}
	return out
}
