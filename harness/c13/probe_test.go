package c13

import (
	"encoding/hex"
	"fmt"
	"testing"

	"verifharness/vmref"
)

// candidateScripts are minimal scripts for the classes that the generated checks do not compare ("excluded:dev:*" and
// "excluded:*" labels): for each the specification's expectation (reference semantics as far as established) and the
// real VM's behaviour are printed. Informative only: no verdict.
var candidateScripts = []struct{ key, hex, note string }{
	{"untaken-jump-offset-validated", "0924" + "7f" + "11", "PUSHF; JMPIF +127 (target beyond the script, jump NOT taken); PUSH1 -- reference validates the target only when jumping"},
	{"untaken-jump-offset-validated", "1111" + "2880" + "12", "PUSH1 PUSH1; JMPEQ -128 taken? equal -> taken -> both fault (control)"},
	{"try-offset-validated-eagerly", "3b7f00" + "11" + "3d02" + "12", "TRY catch=+127(out of range) ; PUSH1 ; ENDTRY +2 ; PUSH2 -- reference stores the pointers unchecked, body does not throw"},
	{"roll0-on-empty-stack", "1052", "PUSH0; ROLL on an otherwise empty stack -- reference returns before touching the stack"},
	{"shift-by-zero-of-non-integer", "0c0261621" + "0a8", "PUSHDATA1 'ab'; PUSH0; SHL -- reference leaves the ByteString untouched (pre-Gorgon Go VM too); Go default converts to Integer"},
	{"shift-by-zero-of-non-integer", "0b10a9", "PUSHNULL; PUSH0; SHR -- reference: Null stays (HALT); Go default: FAULT"},
	{"haskey-index>=MaxItemSize", "c2" + "02ffff0100" + "cb", "NEWARRAY0; PUSHINT32 131071; HASKEY -- reference (as known): false; Go default (Gorgon): FAULT"},
	{"target==script-length", "2202", "JMP +2 (== script length)"},
	{"target==script-length", "3402", "CALL +2 (== script length)"},
	{"assertmsg-null-message", "080be1", "PUSHT; PUSHNULL; ASSERTMSG -- reference: Null.GetString() is null, condition true -> continues"},
	{"endfinally-outside-finally-with-pending-exception", "3b0009" + "11" + "3a" + "3d0b" + "21" + "21" + "21" + "3b0400" + "3f" + "21" + "12" + "40" + "13" + "40",
		"TRY finally F; PUSH1; THROW; ...; F: TRY catch C; ENDFINALLY; C: PUSH2 RET -- reference pops the inner TRY and rethrows (FAULT)"},
	{"setitem-range-error-inside-try", "3b0900" + "c2" + "10" + "10" + "d0" + "3d04" + "45" + "11" + "40", "TRY catch; NEWARRAY0 PUSH0 PUSH0 SETITEM; ...; catch: DROP PUSH1 RET"},
	{"struct-equals-budget-accounting", "020000010088db2811bf4ac24e50cf10ce97",
		"struct [ByteString(65536)] EQUAL its APPEND-clone -- reference charges 1 for the root pair, so 65536 > 65535 left: FAULT; Go: true"},
	{"struct-equals-budget-accounting", "02409c000088db2811bf02409c000088db2811bf12bf4ac24e50cf10ce97",
		"struct [[BS(40000)],[BS(40000)]] EQUAL its clone -- reference has ONE byte budget for the whole comparison: FAULT; Go restarts it per nested struct: true"},
	{"struct-equals-budget-accounting", "0058c64a4a4a4a4a4a4a4a4a4a4a4a4a4a4a4a4a4a4a4a4a4a0017bf0058c64a4a4a4a4a4a4a4a4a4a4a4a4a4a4a4a4a4a4a4a4a4a0017bf97",
		"s1 = 23 refs to NEWSTRUCT(88), s2 likewise (distinct): 1+23+23*88 = 2048 pairs -- reference allows 2048 pairs: true; Go faults at the 2047th field visit"},
	{"struct-equals-traversal-order", "01c26388db2802409c000088db2812bf01c263884a01c16311d0db2802409c000088db2812bf5097",
		"[BS(40000), BS(25538)] vs same sizes, last field differs -- reference compares the LAST field first: false; Go goes first-to-last and exhausts the budget: FAULT"},
	{"pushdata4-negative-length", "0effffffff", "PUSHDATA4 with length 0xffffffff"},
}

func TestProbeCandidates(t *testing.T) {
	for _, c := range candidateScripts {
		s, err := hex.DecodeString(c.hex)
		if err != nil {
			t.Fatalf("%s: %v", c.key, err)
		}
		ref := vmref.Run(s, stepBudget)
		r := runReal(s)
		rd := ""
		if ref.State == vmref.Halt {
			rd, _ = vmref.Describe(ref.Stack, true, 0)
		}
		fmt.Printf("CANDIDATE key=%s script=%s\n   %s\n   disasm: %s\n   specification: %s %s %s tags=%v\n   real VM:       %s %s err=%v\n",
			c.key, c.hex, c.note, disasm(s), ref.State, ref.Why, rd, devTags(ref.Tags), r.state, describeReal(r.stack), r.err)
	}
}
