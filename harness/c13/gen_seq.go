package c13

import (
	"fmt"
	"math/big"

	"github.com/nspcc-dev/neo-go/pkg/vm/opcode"
	"pgregory.net/rapid"
	"verifharness/vmref"
)

// The sequence generator builds small structured programs: a main routine and 0-3 subroutines reached by CALL/CALL_L/CALLA,
// local / argument / static slots used as variables (so that values, and in particular references to the same compound
// item, flow between instructions), expressions over a typed stack discipline, IF/ELSE by conditional jumps, counted loops,
// TRY/CATCH/FINALLY with THROW, engine exceptions (PICKITEM) and faults inside, and subroutines that throw into their
// caller's handlers. At the end every slot is pushed, so the whole state is part of the compared result.

type atype byte

const (
	aAny atype = iota
	aInt
	aBool
	aBytes
	aBuf
	aArr
	aStruct
	aMap
	aNull
)

type fnInfo struct {
	label  string
	arity  int
	throws bool
	body   func()
}

type seqGen struct {
	t       *rapid.T
	p       *prog
	fns     []*fnInfo
	curFn   int // index of the function being generated (-1 = main): only later functions may be called
	nstatic int
	statT   []atype
	locT    []atype
	argT    []atype
	loopLoc int // local reserved for loop counters (-1 none)
	budget  int
	inTry   int
	n       int
}

func (g *seqGen) draw(hi int, label string) int {
	g.n++
	return pick(g.t, (hi)+1, label)
}

func (g *seqGen) chance(num, den int, label string) bool { return g.draw(den-1, label) < num }

// ---- variables ---------------------------------------------------------------------------------------------------------------------

type varRef struct {
	space byte // 'l' 'a' 's'
	idx   int
}

func (g *seqGen) vars() []varRef {
	var l []varRef
	for i := range g.locT {
		if i != g.loopLoc {
			l = append(l, varRef{'l', i})
		}
	}
	for i := range g.argT {
		l = append(l, varRef{'a', i})
	}
	for i := range g.statT {
		l = append(l, varRef{'s', i})
	}
	return l
}

func (g *seqGen) typeOf(v varRef) atype {
	switch v.space {
	case 'l':
		return g.locT[v.idx]
	case 'a':
		return g.argT[v.idx]
	}
	return g.statT[v.idx]
}

func (g *seqGen) setType(v varRef, t atype) {
	switch v.space {
	case 'l':
		g.locT[v.idx] = t
	case 'a':
		g.argT[v.idx] = t
	default:
		g.statT[v.idx] = t
	}
}

func slotOp(base, generic opcode.Opcode, idx int, p *prog, forceGeneric bool) {
	if idx <= 6 && !forceGeneric {
		p.emit(base + opcode.Opcode(idx))
		return
	}
	p.emit(generic, byte(idx))
}

func (g *seqGen) load(v varRef) {
	fg := g.chance(1, 8, "ld_generic")
	switch v.space {
	case 'l':
		slotOp(opcode.LDLOC0, opcode.LDLOC, v.idx, g.p, fg)
	case 'a':
		slotOp(opcode.LDARG0, opcode.LDARG, v.idx, g.p, fg)
	default:
		slotOp(opcode.LDSFLD0, opcode.LDSFLD, v.idx, g.p, fg)
	}
}

func (g *seqGen) store(v varRef, t atype) {
	fg := g.chance(1, 8, "st_generic")
	switch v.space {
	case 'l':
		slotOp(opcode.STLOC0, opcode.STLOC, v.idx, g.p, fg)
	case 'a':
		slotOp(opcode.STARG0, opcode.STARG, v.idx, g.p, fg)
	default:
		slotOp(opcode.STSFLD0, opcode.STSFLD, v.idx, g.p, fg)
	}
	g.setType(v, t)
}

func (g *seqGen) varOfType(t atype) (varRef, bool) {
	var c []varRef
	for _, v := range g.vars() {
		if g.typeOf(v) == t {
			c = append(c, v)
		}
	}
	if len(c) == 0 {
		return varRef{}, false
	}
	return c[g.draw(len(c)-1, "var_pick")], true
}

func (g *seqGen) anyVar() (varRef, bool) {
	c := g.vars()
	if len(c) == 0 {
		return varRef{}, false
	}
	return c[g.draw(len(c)-1, "var_any")], true
}

// ---- expressions -------------------------------------------------------------------------------------------------------------------

var seqIntConsts = func() []*big.Int {
	l := []*big.Int{}
	for _, v := range []int64{0, 1, 2, 3, 5, 7, -1, -2, -7, 10, 100, 255, 256, -128, 65537} {
		l = append(l, big.NewInt(v))
	}
	l = append(l, maxI256, minI256, new(big.Int).Lsh(one, 64), new(big.Int).Neg(new(big.Int).Lsh(one, 127)), new(big.Int).Lsh(one, 128))
	return l
}()

var concreteTypes = []atype{aInt, aInt, aBool, aBytes, aBuf, aArr, aStruct, aMap, aNull}

func (g *seqGen) expr(want atype, d int) {
	if want == aAny {
		want = concreteTypes[g.draw(len(concreteTypes)-1, "any_type")]
	}
	// rare type confusion
	if g.chance(1, 40, "confuse") {
		want = concreteTypes[g.draw(len(concreteTypes)-1, "confused_type")]
	}
	// stack-shuffle wrappers that still leave the wanted value on top
	if d > 0 && g.chance(1, 9, "shuffle") {
		switch g.draw(5, "shuffle_kind") {
		case 0:
			g.expr(aAny, 0)
			g.expr(want, d-1)
			g.p.emit(opcode.NIP)
		case 1:
			g.expr(want, d-1)
			g.expr(aAny, 0)
			g.p.emit(opcode.DROP)
		case 2:
			g.expr(want, d-1)
			g.expr(aAny, 0)
			g.p.emit(opcode.SWAP)
			g.p.emit(opcode.NIP)
		case 3:
			g.expr(want, d-1)
			g.expr(aAny, 0)
			g.expr(aAny, 0)
			g.p.emit(opcode.ROT)
			g.p.emit(opcode.NIP)
			g.p.emit(opcode.NIP)
		case 4:
			g.expr(want, d-1)
			g.expr(aAny, 0)
			g.p.emit(opcode.OVER)
			g.p.emit(opcode.NIP)
			g.p.emit(opcode.NIP)
		default:
			g.expr(aAny, 0)
			g.expr(want, d-1)
			g.p.emit(opcode.TUCK)
			g.p.emit(opcode.DROP)
			g.p.emit(opcode.DROP)
		}
		return
	}
	// variables
	if v, ok := g.varOfType(want); ok && g.chance(2, 5, "use_var") {
		g.load(v)
		return
	}
	switch want {
	case aInt:
		g.exprInt(d)
	case aBool:
		g.exprBool(d)
	case aBytes:
		g.exprBytes(d)
	case aBuf:
		g.exprBuf(d)
	case aArr:
		g.exprArr(d)
	case aStruct:
		g.exprStruct(d)
	case aMap:
		g.exprMap(d)
	default:
		g.p.emit(opcode.PUSHNULL)
	}
}

var intBin = []opcode.Opcode{opcode.ADD, opcode.SUB, opcode.MUL, opcode.DIV, opcode.MOD, opcode.AND, opcode.OR, opcode.XOR, opcode.MIN, opcode.MAX}
var intUn = []opcode.Opcode{opcode.NEGATE, opcode.ABS, opcode.SIGN, opcode.INC, opcode.DEC, opcode.INVERT, opcode.SQRT}

func (g *seqGen) intConst() {
	if g.chance(1, 3, "int_bigconst") {
		g.p.pushInt(seqIntConsts[g.draw(len(seqIntConsts)-1, "int_const")], 0)
		return
	}
	g.p.pushSmall(g.draw(12, "int_small") - 2)
}

func (g *seqGen) exprInt(d int) {
	if d <= 0 {
		g.intConst()
		return
	}
	switch g.draw(13, "int_kind") {
	case 0, 1:
		g.intConst()
	case 2, 3, 4:
		g.expr(aInt, d-1)
		g.expr(aInt, d-1)
		g.p.emit(intBin[g.draw(len(intBin)-1, "int_bin")])
	case 5:
		g.expr(aInt, d-1)
		g.p.emit(intUn[g.draw(len(intUn)-1, "int_un")])
	case 6:
		g.expr(aInt, d-1)
		g.p.pushSmall([]int{0, 1, 2, 8, 63, 200, 256, -1}[g.draw(7, "shift")])
		g.p.emit([]opcode.Opcode{opcode.SHL, opcode.SHR}[g.draw(1, "shift_op")])
	case 7:
		g.expr(aAny, d-1)
		g.p.emit(opcode.SIZE)
	case 8:
		g.expr(aInt, d-1)
		g.p.pushSmall(g.draw(5, "pow_e"))
		g.p.emit(opcode.POW)
	case 9:
		g.expr(aInt, d-1)
		g.expr(aInt, d-1)
		g.p.pushSmall([]int{7, 97, -5, 1, 0, 2}[g.draw(5, "mod_m")])
		g.p.emit([]opcode.Opcode{opcode.MODMUL, opcode.MODPOW}[g.draw(1, "modop")])
	case 10:
		g.p.emit(opcode.DEPTH)
	case 11:
		if g.chance(1, 2, "pick_bytes") {
			g.expr(aBytes, d-1)
		} else {
			g.expr(aBuf, d-1)
		}
		g.p.pushSmall(g.draw(3, "pick_idx"))
		g.p.emit(opcode.PICKITEM)
	case 12:
		g.exprCallValue(d)
	default:
		g.expr(aBool, d-1)
		g.p.emit(opcode.CONVERT, vmref.TInteger)
	}
}

var cmpOps = []opcode.Opcode{opcode.LT, opcode.LE, opcode.GT, opcode.GE, opcode.NUMEQUAL, opcode.NUMNOTEQUAL}

func (g *seqGen) exprBool(d int) {
	if d <= 0 {
		if g.chance(1, 2, "bool_const") {
			g.p.emit(opcode.PUSHT)
		} else {
			g.p.emit(opcode.PUSHF)
		}
		return
	}
	switch g.draw(9, "bool_kind") {
	case 0, 1:
		g.expr(aInt, d-1)
		g.expr(aInt, d-1)
		g.p.emit(cmpOps[g.draw(len(cmpOps)-1, "cmp")])
	case 2, 3:
		// EQUAL on things that may alias
		g.expr(aAny, d-1)
		if g.chance(1, 3, "eq_dup") {
			g.p.emit(opcode.DUP)
		} else {
			g.expr(aAny, d-1)
		}
		g.p.emit([]opcode.Opcode{opcode.EQUAL, opcode.NOTEQUAL}[g.draw(1, "eq_op")])
	case 4:
		g.expr(aBool, d-1)
		g.p.emit(opcode.NOT)
	case 5:
		g.expr(aBool, d-1)
		g.expr(aAny, d-1)
		g.p.emit([]opcode.Opcode{opcode.BOOLAND, opcode.BOOLOR}[g.draw(1, "boolop")])
	case 6:
		g.expr(aAny, d-1)
		g.p.emit(opcode.ISNULL)
	case 7:
		g.expr(aAny, d-1)
		g.p.emit(opcode.ISTYPE, typeBytes[1+g.draw(8, "istype")])
	case 8:
		g.container(d - 1)
		g.key()
		g.p.emit(opcode.HASKEY)
	default:
		g.expr(aInt, d-1)
		g.expr(aInt, d-1)
		g.expr(aInt, d-1)
		g.p.emit(opcode.WITHIN)
	}
}

func (g *seqGen) bytesConst() {
	b := [][]byte{{}, {1}, {0}, {0xff}, []byte("ab"), []byte("abc"), {1, 2, 3, 4, 5}, {0x80}, {0, 0x80}, []byte("abcd"), {9, 8, 7}, {0xff, 0xff, 0x7f}}[g.draw(11, "bytes_const")]
	g.p.pushData(b, 0)
}

func (g *seqGen) exprBytes(d int) {
	if d <= 0 {
		g.bytesConst()
		return
	}
	switch g.draw(4, "bytes_kind") {
	case 0, 1:
		g.bytesConst()
	case 2:
		g.expr(aBuf, d-1)
		g.p.emit(opcode.CONVERT, vmref.TByteString)
	case 3:
		g.expr(aInt, d-1)
		g.p.emit(opcode.CONVERT, vmref.TByteString)
	default:
		g.expr(aBool, d-1)
		g.p.emit(opcode.CONVERT, vmref.TByteString)
	}
}

func (g *seqGen) exprBuf(d int) {
	if d <= 0 {
		g.bytesConst()
		g.p.emit(opcode.CONVERT, vmref.TBuffer)
		return
	}
	switch g.draw(5, "buf_kind") {
	case 0:
		g.bytesConst()
		g.p.emit(opcode.CONVERT, vmref.TBuffer)
	case 1, 2:
		g.expr([]atype{aBytes, aBuf, aInt}[g.draw(2, "cat_l")], d-1)
		g.expr([]atype{aBytes, aBuf, aBool}[g.draw(2, "cat_r")], d-1)
		g.p.emit(opcode.CAT)
	case 3:
		g.expr(aBytes, d-1)
		switch g.draw(2, "slice_kind") {
		case 0:
			g.p.pushSmall(g.draw(2, "sub_i"))
			g.p.pushSmall(g.draw(2, "sub_n"))
			g.p.emit(opcode.SUBSTR)
		case 1:
			g.p.pushSmall(g.draw(3, "left_n"))
			g.p.emit(opcode.LEFT)
		default:
			g.p.pushSmall(g.draw(3, "right_n"))
			g.p.emit(opcode.RIGHT)
		}
	case 4:
		g.p.pushSmall(g.draw(4, "newbuf_n"))
		g.p.emit(opcode.NEWBUFFER)
	default:
		g.expr(aBytes, d-1)
		g.p.emit(opcode.CONVERT, vmref.TBuffer)
	}
}

func (g *seqGen) packN(d int, op opcode.Opcode) {
	n := g.draw(3, "pack_n")
	for i := 0; i < n; i++ {
		if op == opcode.PACKMAP {
			g.expr(aAny, d-1)
			g.key()
		} else {
			g.expr(aAny, d-1)
		}
	}
	g.p.pushSmall(n)
	g.p.emit(op)
}

func (g *seqGen) exprArr(d int) {
	if d <= 0 {
		g.p.emit(opcode.NEWARRAY0)
		return
	}
	switch g.draw(6, "arr_kind") {
	case 0:
		g.p.emit(opcode.NEWARRAY0)
	case 1, 2:
		g.packN(d, opcode.PACK)
	case 3:
		g.p.pushSmall(g.draw(3, "newarr_n"))
		if g.chance(1, 2, "newarr_t") {
			g.p.emit(opcode.NEWARRAYT, []byte{vmref.TBoolean, vmref.TInteger, vmref.TByteString, vmref.TAny, vmref.TArray}[g.draw(4, "newarr_type")])
		} else {
			g.p.emit(opcode.NEWARRAY)
		}
	case 4:
		g.expr([]atype{aArr, aStruct, aMap}[g.draw(2, "values_of")], d-1)
		g.p.emit(opcode.VALUES)
	case 5:
		g.expr(aMap, d-1)
		g.p.emit(opcode.KEYS)
	default:
		g.expr(aStruct, d-1)
		g.p.emit(opcode.CONVERT, vmref.TArray)
	}
}

func (g *seqGen) exprStruct(d int) {
	if d <= 0 {
		g.p.emit(opcode.NEWSTRUCT0)
		return
	}
	switch g.draw(4, "struct_kind") {
	case 0:
		g.p.emit(opcode.NEWSTRUCT0)
	case 1, 2:
		g.packN(d, opcode.PACKSTRUCT)
	case 3:
		g.p.pushSmall(g.draw(3, "newstruct_n"))
		g.p.emit(opcode.NEWSTRUCT)
	default:
		g.expr(aArr, d-1)
		g.p.emit(opcode.CONVERT, vmref.TStruct)
	}
}

func (g *seqGen) exprMap(d int) {
	if d <= 0 || g.chance(1, 3, "map_empty") {
		g.p.emit(opcode.NEWMAP)
		return
	}
	g.packN(d, opcode.PACKMAP)
}

// key pushes a map key / index from a small alphabet (so that lookups hit).
func (g *seqGen) key() {
	switch g.draw(7, "key_kind") {
	case 0, 1, 2:
		g.p.pushSmall(g.draw(3, "key_i"))
	case 3:
		g.p.pushData([]byte{byte(g.draw(2, "key_b"))}, 0)
	case 4:
		g.p.emit([]opcode.Opcode{opcode.PUSHT, opcode.PUSHF}[g.draw(1, "key_bool")])
	case 5:
		g.p.pushData([]byte("k"), 0)
	case 6:
		g.p.pushSmall(-1)
	default:
		g.expr(aInt, 0)
	}
}

func (g *seqGen) container(d int) {
	g.expr([]atype{aArr, aStruct, aMap, aMap, aBytes, aBuf}[g.draw(5, "container")], d)
}

// exprCallValue calls a value-returning subroutine (or falls back to a constant).
func (g *seqGen) exprCallValue(d int) {
	f := g.pickFn(false)
	if f == nil {
		g.intConst()
		return
	}
	g.callFn(f, d)
}

func (g *seqGen) pickFn(throwing bool) *fnInfo {
	var c []*fnInfo
	for i := g.curFn + 1; i < len(g.fns); i++ {
		if g.fns[i].throws == throwing {
			c = append(c, g.fns[i])
		}
	}
	if len(c) == 0 {
		return nil
	}
	return c[g.draw(len(c)-1, "fn_pick")]
}

func (g *seqGen) callFn(f *fnInfo, d int) {
	for i := 0; i < f.arity; i++ {
		g.expr(aAny, min(d, 1))
	}
	if g.chance(1, 4, "calla") {
		g.p.jump(opcode.PUSHA, f.label)
		g.p.emit(opcode.CALLA)
	} else {
		g.p.jump(opcode.CALL, f.label)
	}
}

// ---- statements --------------------------------------------------------------------------------------------------------------------

func (g *seqGen) block(maxStmts int) {
	n := 1 + g.draw(maxStmts-1, "block_n")
	for i := 0; i < n && g.budget > 0; i++ {
		g.stmt()
	}
}

func (g *seqGen) stmt() {
	g.budget--
	switch k := g.draw(22, "stmt_kind"); {
	case k <= 4:
		g.stAssign()
	case k <= 8:
		g.stMutate()
	case k <= 10:
		g.stIf()
	case k <= 14:
		g.stTry()
	case k == 15:
		g.stCall()
	case k == 16:
		g.stStack()
	case k == 17:
		g.stLoop()
	case k == 18:
		if g.inTry > 0 || g.chance(1, 10, "throw_anyway") {
			g.expr(aAny, 1)
			g.p.emit(opcode.THROW)
		} else {
			g.stAssign()
		}
	case k == 19:
		if g.chance(1, 2, "assert_skip") {
			g.stMutate()
			return
		}
		g.expr(aBool, 1)
		if g.chance(1, 2, "assert_taut") {
			g.p.emit(opcode.DUP)
			g.p.emit(opcode.NOT)
			g.p.emit(opcode.BOOLOR)
		}
		if g.chance(1, 2, "assert_msg") {
			g.p.pushData([]byte("msg"), 0)
			g.p.emit(opcode.ASSERTMSG)
		} else {
			g.p.emit(opcode.ASSERT)
		}
	case k == 20:
		if g.chance(1, 2, "map_burst") {
			g.stMapBurst()
		} else {
			g.stStructAlias()
		}
	case k == 21:
		if g.chance(1, 3, "early_ret") {
			g.p.emit(opcode.RET)
		} else {
			g.stAssign()
		}
	default:
		g.stMemcpy()
	}
}

func (g *seqGen) stAssign() {
	v, ok := g.anyVar()
	t := concreteTypes[g.draw(len(concreteTypes)-1, "assign_type")]
	g.expr(t, 2)
	if !ok {
		g.p.emit(opcode.DROP)
		return
	}
	g.store(v, t)
}

func (g *seqGen) loadContainer(types ...atype) atype {
	t := types[g.draw(len(types)-1, "mut_type")]
	if v, ok := g.varOfType(t); ok && g.chance(4, 5, "mut_var") {
		g.load(v)
	} else {
		g.expr(t, 1)
		// keep it observable
		if w, ok := g.anyVar(); ok {
			g.p.emit(opcode.DUP)
			g.store(w, t)
		}
	}
	return t
}

func (g *seqGen) stMutate() {
	switch g.draw(7, "mut_kind") {
	case 0, 1:
		g.loadContainer(aArr, aStruct)
		g.expr(aAny, 1)
		g.p.emit(opcode.APPEND)
	case 2, 3:
		t := g.loadContainer(aArr, aStruct, aMap, aMap, aBuf)
		g.key()
		if t == aBuf {
			g.p.pushSmall(g.draw(300, "byte_val") - 30)
		} else {
			g.expr(aAny, 1)
		}
		g.p.emit(opcode.SETITEM)
	case 4:
		g.loadContainer(aArr, aStruct, aMap)
		g.key()
		g.p.emit(opcode.REMOVE)
	case 5:
		g.loadContainer(aArr, aStruct, aMap)
		g.p.emit(opcode.CLEARITEMS)
	case 6:
		g.loadContainer(aArr, aStruct, aBuf)
		g.p.emit(opcode.REVERSEITEMS)
	default:
		g.loadContainer(aArr, aStruct)
		if g.chance(2, 3, "pop_fill") {
			g.p.emit(opcode.DUP)
			g.expr(aAny, 1)
			g.p.emit(opcode.APPEND)
		}
		g.p.emit(opcode.POPITEM)
		if v, ok := g.anyVar(); ok {
			g.store(v, aAny)
		} else {
			g.p.emit(opcode.DROP)
		}
	}
}

func (g *seqGen) stMemcpy() {
	g.loadContainer(aBuf)
	g.p.pushSmall(g.draw(1, "mc_di"))
	if g.chance(2, 3, "mc_const") {
		g.p.pushData([]byte{0x11, 0x22, 0x33}, 0)
	} else {
		g.expr([]atype{aBytes, aBuf}[g.draw(1, "mc_src")], 1)
	}
	g.p.pushSmall(g.draw(1, "mc_si"))
	g.p.pushSmall(g.draw(2, "mc_n"))
	g.p.emit(opcode.MEMCPY)
}

// stStructAlias: the clone-on-assign patterns. A struct (kept in a variable) is put into a container by
// APPEND / SETITEM / PACK / VALUES, then the original is changed, then both are kept for the final dump.
// stMapBurst works on ONE fresh map for a while: insertions, overwrites and removals over a six-key alphabet mixed
// with reads of keys known to be present (the generator tracks the content), membership tests, KEYS / VALUES / SIZE;
// everything read is appended to a result array kept in a slot. Aimed at the bookkeeping of a map whose entries
// move when an earlier one is removed.
func (g *seqGen) stMapBurst() {
	mv, ok1 := g.anyVar()
	rv, ok2 := g.anyVar()
	if !ok1 || !ok2 || mv == rv {
		g.stAssign()
		return
	}
	g.p.emit(opcode.NEWMAP)
	g.store(mv, aMap)
	g.p.emit(opcode.NEWARRAY0)
	g.store(rv, aArr)
	pushKey := func(i int) {
		if i < 4 {
			g.p.pushSmall(i)
		} else {
			g.p.pushData([]byte{byte('a' + i - 4)}, 0)
		}
	}
	var order []int // keys in insertion order
	has := func(k int) bool {
		for _, x := range order {
			if x == k {
				return true
			}
		}
		return false
	}
	n := 4 + g.draw(10, "burst_n")
	for i := 0; i < n; i++ {
		k := g.draw(5, "burst_key")
		switch op := g.draw(9, "burst_op"); {
		case op <= 2 || len(order) == 0: // SETITEM
			g.load(mv)
			pushKey(k)
			g.p.pushSmall(10 + i)
			g.p.emit(opcode.SETITEM)
			if !has(k) {
				order = append(order, k)
			}
		case op <= 4: // REMOVE (mostly a present key, preferring one that is not the last inserted)
			if g.chance(3, 4, "burst_rm_present") {
				k = order[g.draw(len(order)-1, "burst_rm_idx")]
				if len(order) > 1 && g.chance(2, 3, "burst_rm_early") {
					k = order[g.draw(len(order)-2, "burst_rm_idx2")]
				}
			}
			g.load(mv)
			pushKey(k)
			g.p.emit(opcode.REMOVE)
			for j, x := range order {
				if x == k {
					order = append(order[:j:j], order[j+1:]...)
					break
				}
			}
		case op <= 6: // PICKITEM of a present key
			k = order[g.draw(len(order)-1, "burst_pick_idx")]
			g.load(rv)
			g.load(mv)
			pushKey(k)
			g.p.emit(opcode.PICKITEM)
			g.p.emit(opcode.APPEND)
		case op == 7: // HASKEY of any key
			g.load(rv)
			g.load(mv)
			pushKey(k)
			g.p.emit(opcode.HASKEY)
			g.p.emit(opcode.APPEND)
		case op == 8:
			g.load(rv)
			g.load(mv)
			g.p.emit([]opcode.Opcode{opcode.KEYS, opcode.VALUES, opcode.SIZE}[g.draw(2, "burst_all")])
			g.p.emit(opcode.APPEND)
		default: // overwrite a present key through a second reference
			k = order[g.draw(len(order)-1, "burst_ow_idx")]
			g.load(mv)
			g.p.emit(opcode.DUP)
			pushKey(k)
			g.p.pushSmall(-10 - i)
			g.p.emit(opcode.SETITEM)
			g.p.emit(opcode.DROP)
		}
	}
}

func (g *seqGen) stStructAlias() {
	sv, ok1 := g.anyVar()
	cv, ok2 := g.anyVar()
	if !ok1 || !ok2 || sv == cv {
		g.stAssign()
		return
	}
	g.expr(aStruct, 2)
	g.store(sv, aStruct)
	switch g.draw(4, "alias_kind") {
	case 0: // array APPEND struct
		g.p.emit(opcode.NEWARRAY0)
		g.p.emit(opcode.DUP)
		g.load(sv)
		g.p.emit(opcode.APPEND)
		g.store(cv, aArr)
	case 1: // map SETITEM struct
		g.p.emit(opcode.NEWMAP)
		g.p.emit(opcode.DUP)
		g.p.pushSmall(0)
		g.load(sv)
		g.p.emit(opcode.SETITEM)
		g.store(cv, aMap)
	case 2: // PACK (no clone)
		g.load(sv)
		g.p.pushSmall(1)
		g.p.emit([]opcode.Opcode{opcode.PACK, opcode.PACKSTRUCT}[g.draw(1, "alias_pack")])
		g.store(cv, aArr)
	case 3: // VALUES of an array holding the struct (clone)
		g.load(sv)
		g.p.pushSmall(1)
		g.p.emit(opcode.PACK)
		g.p.emit(opcode.VALUES)
		g.store(cv, aArr)
	default: // struct inside struct, appended
		g.load(sv)
		g.p.pushSmall(1)
		g.p.emit(opcode.PACKSTRUCT)
		g.p.emit(opcode.NEWSTRUCT0)
		g.p.emit(opcode.TUCK)
		g.p.emit(opcode.SWAP)
		g.p.emit(opcode.APPEND)
		g.store(cv, aStruct)
	}
	// now change the original
	g.load(sv)
	g.p.pushSmall(9)
	g.p.emit(opcode.APPEND)
}

func (g *seqGen) stIf() {
	lElse, lEnd := g.p.newLabel(), g.p.newLabel()
	if g.chance(1, 2, "if_cmpjump") {
		g.expr(aInt, 1)
		g.expr(aInt, 1)
		g.p.jump([]opcode.Opcode{opcode.JMPEQ, opcode.JMPNE, opcode.JMPGT, opcode.JMPGE, opcode.JMPLT, opcode.JMPLE}[g.draw(5, "if_jmp")], lElse)
	} else {
		g.expr([]atype{aBool, aBool, aAny}[g.draw(2, "if_cond_type")], 2)
		g.p.jump([]opcode.Opcode{opcode.JMPIF, opcode.JMPIFNOT}[g.draw(1, "if_jmp2")], lElse)
	}
	saveL, saveA, saveS := append([]atype{}, g.locT...), append([]atype{}, g.argT...), append([]atype{}, g.statT...)
	g.block(2)
	g.p.jump(opcode.JMP, lEnd)
	g.p.label(lElse)
	g.locT, g.argT, g.statT = saveL, saveA, saveS
	if g.chance(2, 3, "if_else") {
		g.block(2)
	}
	g.p.label(lEnd)
	g.p.emit(opcode.NOP) // keeps the join point inside the script
}

func (g *seqGen) stLoop() {
	if g.loopLoc < 0 {
		g.stAssign()
		return
	}
	cnt := varRef{'l', g.loopLoc}
	top := g.p.newLabel()
	g.p.pushSmall(1 + g.draw(2, "loop_n"))
	g.store(cnt, aInt)
	g.p.label(top)
	nested := g.budget
	g.blockNoLoop()
	g.budget = nested - 1
	g.load(cnt)
	g.p.emit(opcode.DEC)
	g.p.emit(opcode.DUP)
	g.store(cnt, aInt)
	g.p.pushSmall(0)
	g.p.jump(opcode.JMPGT, top)
}

func (g *seqGen) blockNoLoop() {
	n := 1 + g.draw(1, "loop_block_n")
	for i := 0; i < n; i++ {
		switch g.draw(3, "loop_stmt") {
		case 0, 1:
			g.stMutate()
		case 2:
			g.stAssign()
		default:
			g.stStack()
		}
	}
}

func (g *seqGen) stCall() {
	f := g.pickFn(g.chance(1, 3, "call_thrower") && (g.inTry > 0 || g.chance(1, 4, "call_thrower_anyway")))
	if f == nil {
		g.stAssign()
		return
	}
	g.callFn(f, 1)
	if !f.throws {
		if v, ok := g.anyVar(); ok && g.chance(2, 3, "call_keep") {
			g.store(v, aAny)
		} else {
			g.p.emit(opcode.DROP)
		}
	}
}

// stStack: push d items, shuffle them with the stack instructions, PACK what is left (the order becomes visible).
func (g *seqGen) stStack() {
	d := 2 + g.draw(3, "stk_d")
	for i := 0; i < d; i++ {
		if g.chance(1, 3, "stk_expr") {
			g.expr(aAny, 1)
		} else {
			g.p.pushSmall(10 + i)
		}
	}
	n := 1 + g.draw(3, "stk_ops")
	for i := 0; i < n; i++ {
		switch g.draw(12, "stk_op") {
		case 0:
			if d >= 2 {
				g.p.emit(opcode.SWAP)
			}
		case 1:
			if d >= 3 {
				g.p.emit(opcode.ROT)
			}
		case 2:
			if d >= 2 {
				g.p.emit(opcode.OVER)
				d++
			}
		case 3:
			if d >= 2 {
				g.p.emit(opcode.TUCK)
				d++
			}
		case 4:
			g.p.emit(opcode.DUP)
			d++
		case 5:
			if d >= 2 {
				g.p.emit(opcode.NIP)
				d--
			}
		case 6:
			if d >= 2 {
				g.p.emit(opcode.DROP)
				d--
			}
		case 7:
			g.p.pushSmall(g.draw(d-1, "pick_n"))
			g.p.emit(opcode.PICK)
			d++
		case 8:
			g.p.pushSmall(g.draw(d-1, "roll_n"))
			g.p.emit(opcode.ROLL)
		case 9:
			if d >= 3 {
				g.p.emit(opcode.REVERSE3)
			}
		case 10:
			if d >= 4 {
				g.p.emit(opcode.REVERSE4)
			}
		case 11:
			g.p.pushSmall(g.draw(d, "revn_n"))
			g.p.emit(opcode.REVERSEN)
		default:
			if d >= 2 {
				g.p.pushSmall(g.draw(d-1, "xdrop_n"))
				g.p.emit(opcode.XDROP)
				d--
			}
		}
	}
	g.p.pushSmall(d)
	g.p.emit(opcode.PACK)
	if v, ok := g.anyVar(); ok {
		g.store(v, aArr)
	}
}

// stTry: TRY [catch] [finally] around a block that (often) raises: THROW, a call of a throwing subroutine, an engine exception
// (PICKITEM on a missing index / key), or an uncatchable fault.
func (g *seqGen) stTry() {
	p := g.p
	hasCatch := g.chance(3, 4, "try_catch")
	hasFinally := !hasCatch || g.chance(1, 2, "try_finally")
	lc, lf, le := p.newLabel(), p.newLabel(), p.newLabel()
	c, f := "-", "-"
	if hasCatch {
		c = lc
	}
	if hasFinally {
		f = lf
	}
	p.try(c, f)
	g.inTry++
	// body
	if g.chance(1, 2, "try_pre") {
		g.stAssign()
	}
	switch g.draw(9, "try_raise") {
	case 0, 1, 2, 3:
		if fn := g.pickFn(true); fn != nil {
			g.callFn(fn, 1)
			break
		}
		fallthrough
	case 4, 5:
		g.expr(aAny, 1)
		p.emit(opcode.THROW)
	case 6:
		g.container(1)
		g.key()
		p.emit(opcode.PICKITEM)
		p.emit(opcode.DROP)
	case 7:
		g.block(2)
	case 8:
		g.stTry() // nested
	default:
		if g.chance(1, 3, "try_fault") {
			p.pushSmall(1)
			p.pushSmall(0)
			p.emit(opcode.DIV)
			p.emit(opcode.DROP)
		}
	}
	if g.chance(1, 3, "try_post") {
		g.stAssign()
	}
	g.inTry--
	p.jump(opcode.ENDTRY, le)
	if hasCatch {
		p.label(lc)
		if v, ok := g.anyVar(); ok && g.chance(2, 3, "catch_keep") {
			g.store(v, aAny)
		} else {
			p.emit(opcode.DROP)
		}
		switch g.draw(5, "catch_body") {
		case 0:
			g.expr(aAny, 1)
			p.emit(opcode.THROW) // rethrow something else from the catch block
		case 1, 2:
			g.stAssign()
		}
		p.jump(opcode.ENDTRY, le)
	}
	if hasFinally {
		p.label(lf)
		switch g.draw(5, "finally_body") {
		case 0, 1, 2:
			g.stAssign()
		case 3:
			g.stMutate()
		}
		p.emit(opcode.ENDFINALLY)
	}
	p.label(le)
	p.emit(opcode.NOP)
}

// ---- whole program -----------------------------------------------------------------------------------------------------------------

func (g *seqGen) initScope(nloc, narg int, reserveLoop bool) {
	g.locT = make([]atype, nloc)
	g.argT = make([]atype, narg)
	for i := range g.locT {
		g.locT[i] = aNull
	}
	for i := range g.argT {
		g.argT[i] = aAny
	}
	g.loopLoc = -1
	if reserveLoop && nloc > 0 {
		g.loopLoc = nloc - 1
	}
}

func (g *seqGen) dumpSlots() {
	for i := range g.locT {
		slotOp(opcode.LDLOC0, opcode.LDLOC, i, g.p, false)
	}
	for i := range g.argT {
		slotOp(opcode.LDARG0, opcode.LDARG, i, g.p, false)
	}
	for i := range g.statT {
		slotOp(opcode.LDSFLD0, opcode.LDSFLD, i, g.p, false)
	}
}

func genSeq(t *rapid.T) Case {
	g := &seqGen{t: t, p: &prog{}, curFn: -1}
	nfn := []int{0, 1, 1, 2, 2, 3}[g.draw(5, "nfn")]
	for i := 0; i < nfn; i++ {
		g.fns = append(g.fns, &fnInfo{label: g.p.newLabel(), arity: g.draw(2, fmt.Sprintf("fn%d_arity", i)), throws: g.chance(3, 5, fmt.Sprintf("fn%d_throws", i))})
	}
	g.nstatic = g.draw(2, "nstatic")
	g.statT = make([]atype, g.nstatic)
	for i := range g.statT {
		g.statT[i] = aNull
	}
	// main
	if g.nstatic > 0 {
		g.p.emit(opcode.INITSSLOT, byte(g.nstatic))
	}
	nloc := 1 + g.draw(3, "main_nloc")
	g.p.emit(opcode.INITSLOT, byte(nloc), 0)
	g.initScope(nloc, 0, true)
	g.budget = 1 + g.draw(5, "main_budget")
	for g.budget > 0 {
		g.stmt()
	}
	g.dumpSlots()
	g.p.emit(opcode.RET)
	// subroutines
	for i, f := range g.fns {
		g.curFn = i
		g.p.label(f.label)
		nl := g.draw(2, "fn_nloc")
		if nl+f.arity > 0 {
			g.p.emit(opcode.INITSLOT, byte(nl), byte(f.arity))
		}
		g.initScope(nl, f.arity, false)
		g.budget = g.draw(2, "fn_budget")
		for g.budget > 0 {
			g.stmt()
		}
		if f.throws {
			switch g.draw(4, "thrower_kind") {
			case 0, 1:
				g.expr(aAny, 1)
				g.p.emit(opcode.THROW)
			case 2: // engine exception
				g.p.emit(opcode.NEWARRAY0)
				g.p.pushSmall(g.draw(2, "thrower_idx"))
				g.p.emit(opcode.PICKITEM)
				g.p.emit(opcode.RET)
			case 3: // throws through its own finally
				lf, le := g.p.newLabel(), g.p.newLabel()
				g.p.try("-", lf)
				g.expr(aAny, 1)
				g.p.emit(opcode.THROW)
				g.p.jump(opcode.ENDTRY, le)
				g.p.label(lf)
				g.stAssign()
				g.p.emit(opcode.ENDFINALLY)
				g.p.label(le)
				g.p.emit(opcode.RET)
			default: // calls the next thrower, if any
				if nf := g.pickFn(true); nf != nil {
					g.callFn(nf, 1)
					g.p.emit(opcode.RET)
				} else {
					g.p.pushSmall(77)
					g.p.emit(opcode.THROW)
				}
			}
		} else {
			g.expr(aAny, 2)
			g.p.emit(opcode.RET)
		}
	}
	script := g.p.assemble(g.chance(1, 6, "long_forms"))
	return Case{Script: script, Desc: disasm(script), Class: "seq"}
}
