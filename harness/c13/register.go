package c13

import (
	"sync"

	"verifharness/vt"
)

var (
	limitsOnce sync.Once
	limitsErr  error
)

func withLimits(check func(c Case, o *vt.Obs) error) func(c Case, o *vt.Obs) error {
	return func(c Case, o *vt.Obs) error {
		limitsOnce.Do(func() { limitsErr = limitsAgree() })
		if limitsErr != nil {
			return limitsErr
		}
		return check(c, o)
	}
}

func init() {
	vt.PropertyID = "C13"
	vt.Register("single", 1.0, genSingle, withLimits(checkScript))
	vt.Register("seq", 0.5, genSeq, withLimits(checkScript))
	vt.Register("pyxval", 0.0001, genPyCase, checkPyCase)
}
