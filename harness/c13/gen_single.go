package c13

import (
	"bytes"
	"fmt"
	"math/big"

	"github.com/nspcc-dev/neo-go/pkg/vm/opcode"
	"pgregory.net/rapid"
	"verifharness/vmref"
)

// ---- operand specifications ----------------------------------------------------------------------------------------------------

// spec describes a stack item to be built by the prologue.
type spec struct {
	k    byte // I S U B N A T M P  Z (zero Buffer of length n via NEWBUFFER)  Y (same converted to ByteString)
	i    *big.Int
	b    []byte
	t    bool
	n    int
	kids []spec // A/T elements; M: key0,val0,key1,val1...
}

func sInt(v *big.Int) spec  { return spec{k: 'I', i: v} }
func sSmall(n int) spec     { return spec{k: 'I', i: big.NewInt(int64(n))} }
func sBytes(b []byte) spec  { return spec{k: 'S', b: b} }
func sBuffer(b []byte) spec { return spec{k: 'U', b: b} }
func sBool(b bool) spec     { return spec{k: 'B', t: b} }

var sNull = spec{k: 'N'}

// emitSpec appends code that leaves the item on the stack.
func emitSpec(p *prog, s spec) {
	switch s.k {
	case 'I':
		p.pushInt(s.i, s.n)
	case 'S':
		p.pushData(s.b, s.n)
	case 'U':
		p.pushData(s.b, 0)
		p.emit(opcode.CONVERT, vmref.TBuffer)
	case 'B':
		if s.t {
			p.emit(opcode.PUSHT)
		} else {
			p.emit(opcode.PUSHF)
		}
	case 'N':
		p.emit(opcode.PUSHNULL)
	case 'P':
		p.emit(opcode.PUSHA, 0, 0, 0, 0) // points at itself
	case 'Z', 'Y':
		p.pushSmall(s.n)
		p.emit(opcode.NEWBUFFER)
		if s.k == 'Y' {
			p.emit(opcode.CONVERT, vmref.TByteString)
		}
	case 'W':
		p.pushSmall(s.n)
		p.emit(opcode.NEWBUFFER)
		if s.n > 0 {
			p.emit(opcode.DUP)
			p.pushSmall(s.n - 1)
			p.pushSmall(1)
			p.emit(opcode.SETITEM)
		}
		p.emit(opcode.CONVERT, vmref.TByteString)
	case 'A', 'T':
		for i := len(s.kids) - 1; i >= 0; i-- {
			emitSpec(p, s.kids[i])
		}
		p.pushSmall(len(s.kids))
		if s.k == 'A' {
			p.emit(opcode.PACK)
		} else {
			p.emit(opcode.PACKSTRUCT)
		}
	case 'M':
		for i := len(s.kids) - 2; i >= 0; i -= 2 {
			emitSpec(p, s.kids[i+1]) // value
			emitSpec(p, s.kids[i])   // key
		}
		p.pushSmall(len(s.kids) / 2)
		p.emit(opcode.PACKMAP)
	default:
		panic("c13: spec kind")
	}
}

// ---- pools ------------------------------------------------------------------------------------------------------------------------

var boundaryKs = []uint{7, 8, 15, 16, 31, 32, 63, 64, 127, 128, 255, 256}

var (
	maxI256 = new(big.Int).Sub(new(big.Int).Lsh(one, 255), one)
	minI256 = new(big.Int).Neg(new(big.Int).Lsh(one, 255))
)

func fits256(v *big.Int) bool { return v.Cmp(minI256) >= 0 && v.Cmp(maxI256) <= 0 }

// nearBoundary256: the value touches the 256-bit boundary (its magnitude needs >= 254 bits).
func nearBoundary256(v *big.Int) bool { return v.BitLen() >= 254 }

// boundaryPool is the list of all fitting members of {0, ±1, ±2^k, ±2^k±1, min, max, min+1, max-1}.
var boundaryPool = func() []*big.Int {
	var l []*big.Int
	add := func(v *big.Int) {
		if fits256(v) {
			l = append(l, v)
		}
	}
	for _, v := range []int64{0, 1, -1, 2, -2, 3, 10, -10} {
		add(big.NewInt(v))
	}
	for _, k := range boundaryKs {
		p := new(big.Int).Lsh(one, k)
		for _, d := range []int64{-1, 0, 1} {
			v := new(big.Int).Add(p, big.NewInt(d))
			add(v)
			add(new(big.Int).Neg(v))
		}
	}
	add(maxI256)
	add(minI256)
	add(new(big.Int).Sub(maxI256, one))
	add(new(big.Int).Add(minI256, one))
	// square-root / product boundaries
	add(new(big.Int).Lsh(one, 127))
	add(new(big.Int).Sqrt(maxI256))
	add(new(big.Int).Add(new(big.Int).Sqrt(maxI256), one))
	return l
}()

// extremePool: values whose magnitude needs 254..256 bits.
var extremePool = func() []*big.Int {
	var l []*big.Int
	for _, v := range boundaryPool {
		if nearBoundary256(v) {
			l = append(l, v)
		}
	}
	return l
}()

// relatedInt returns an operand chosen relative to a so that a (op) b lands on or next to the 256-bit boundary
// (or on the equal / off-by-one points of comparisons).
func relatedInt(t *rapid.T, label string, a *big.Int) *big.Int {
	var b *big.Int
	d := big.NewInt(int64(pickRange(t, -1, 1, label+"_off")))
	switch pick(t, 9, label+"_rel") {
	case 0:
		b = new(big.Int).Sub(maxI256, a) // a + b = max
	case 1:
		b = new(big.Int).Sub(minI256, a) // a + b = min
	case 2:
		b = new(big.Int).Sub(a, maxI256) // a - b = max
	case 3:
		b = new(big.Int).Sub(a, minI256) // a - b = min
	case 4, 5:
		if a.Sign() == 0 {
			b = big.NewInt(0)
		} else {
			lim := maxI256
			if rapid.Bool().Draw(t, label+"_lim") {
				lim = minI256
			}
			b = new(big.Int).Quo(lim, a) // a * b just inside
		}
	case 6:
		b = new(big.Int).Neg(a)
	default:
		b = new(big.Int).Set(a)
	}
	b.Add(b, d)
	if !fits256(b) {
		return genInt(t, label+"_fallback")
	}
	return b
}

// twoInts pushes two integer operands: independent (1/2), related so that the result lands next to the 256-bit boundary
// (1/3), or the same / adjacent numbers in different stack representations (Integer, minimal ByteString, sign-extended
// ByteString of another length) (1/6).
func (g *single) twoInts() {
	t := g.t
	switch pick(t, 6, "two_mode") {
	case 0, 1, 2:
		g.roles("ii")
	case 3, 4:
		a := genInt(t, "a")
		b := relatedInt(t, "b", a)
		if rapid.Bool().Draw(t, "swap_ab") {
			a, b = b, a
		}
		g.ints = append(g.ints, a, b)
		emitSpec(g.p, intSpec(t, "ra", a))
		emitSpec(g.p, intSpec(t, "rb", b))
	default:
		a := genInt(t, "a")
		b := new(big.Int).Add(a, big.NewInt(int64(sample(t, []int{0, 0, 0, 1, -1}, "same_d"))))
		if !fits256(b) {
			b = a
		}
		g.ints = append(g.ints, a, b)
		rep := func(v *big.Int, label string) spec {
			e := encodeMin(v)
			switch pick(t, 4, label) {
			case 0:
				return sInt(v)
			case 1:
				return sBytes(e)
			case 2:
				if len(e) < 32 {
					return sBytes(signExtend(e, len(e)+1+pick(t, 32-len(e), label+"_w")))
				}
				return sBytes(e)
			}
			return sBytes(signExtend(e, 32))
		}
		emitSpec(g.p, rep(a, "rep_a"))
		emitSpec(g.p, rep(b, "rep_b"))
	}
}

func binaryInts(g *single, op opcode.Opcode) {
	g.twoInts()
	g.p.emit(op)
}

func genInt(t *rapid.T, label string) *big.Int {
	switch pick(t, 10, label+"_kind") {
	case 0, 1:
		return big.NewInt(int64(pickRange(t, -3, 17, label+"_small")))
	case 2, 3, 4, 5:
		return boundaryPool[pick(t, len(boundaryPool), label+"_pool")]
	case 6:
		b := uniformBytes(t, 32, label+"_r256")
		v := new(big.Int).SetBytes(b)
		if b[0]&0x80 != 0 {
			v.Sub(v, two256)
		}
		return v
	case 7:
		n := pickRange(t, 1, 16, label+"_len")
		b := uniformBytes(t, n, label+"_rn")
		v := new(big.Int).SetBytes(b)
		if rapid.Bool().Draw(t, label+"_neg") {
			v.Neg(v)
		}
		return v
	case 8:
		return extremePool[pick(t, len(extremePool), label+"_ext")]
	default:
		// neighbours of a pool value
		v := boundaryPool[pick(t, len(boundaryPool), label+"_pool")]
		w := new(big.Int).Add(v, big.NewInt(int64(pickRange(t, -2, 2, label+"_d"))))
		if fits256(w) {
			return w
		}
		return v
	}
}

// intSpec wraps an integer into one of its stack representations: Integer (minimal or widened PUSHINT), ByteString with
// minimal / sign-extended (to 32 or 33 bytes) encoding, or Boolean for 0/1.
func intSpec(t *rapid.T, label string, v *big.Int) spec {
	switch pick(t, 12, label+"_rep") {
	case 0:
		return spec{k: 'I', i: v, n: pickRange(t, 1, 6, label+"_wide")}
	case 1:
		return sBytes(encodeMin(v))
	case 2:
		w := sample(t, []int{2, 31, 32, 32, 33}, label+"_ext")
		e := encodeMin(v)
		if len(e) < w {
			return sBytes(signExtend(e, w))
		}
		return sBytes(e)
	case 3:
		if v.Sign() == 0 {
			return sBool(false)
		}
		if v.Cmp(one) == 0 {
			return sBool(true)
		}
	}
	return sInt(v)
}

// encodeMin: minimal little-endian two's complement (generator side; zero = empty).
func encodeMin(v *big.Int) []byte {
	if v.Sign() == 0 {
		return []byte{}
	}
	for w := 1; ; w++ {
		if fitsBits(v, uint(8*w)) {
			return leSigned(v, w)
		}
	}
}

func signExtend(e []byte, w int) []byte {
	pad := byte(0)
	if len(e) > 0 && e[len(e)-1]&0x80 != 0 {
		pad = 0xff
	}
	out := append([]byte{}, e...)
	for len(out) < w {
		out = append(out, pad)
	}
	return out
}

var shiftPool = []int{-1, 0, 1, 255, 256, 257, 7, 8, 31, 32, 63, 64, 128, 254, -2147483648, 2147483647}
var expPool = []int{-1, 0, 1, 2, 3, 4, 7, 8, 16, 31, 32, 63, 64, 127, 128, 255, 256, 257}
var countPool = []int{-1, 0, 1, 2, 3, 4, 5, 16, 31, 32, 33, 255, 256, 2047, 2048, 2049, 65535, 65536, 131069, 131070, 131071, 2147483647}

func genBytes(t *rapid.T, label string) []byte {
	n := sample(t, []int{0, 0, 1, 1, 2, 5, 31, 32, 32, 33, 64, 65}, label+"_len")
	b := make([]byte, n)
	switch pick(t, 5, label+"_fill") {
	case 0: // zeros
	case 1:
		for i := range b {
			b[i] = 0xff
		}
	case 2:
		for i := range b {
			b[i] = byte(i + 1)
		}
	default:
		copy(b, uniformBytes(t, n, label+"_raw"))
	}
	if n > 0 {
		// sign byte variations
		switch pick(t, 5, label+"_sign") {
		case 0:
			b[n-1] = 0x80
		case 1:
			b[n-1] = 0x7f
		case 2:
			b[n-1] = 0x00
		case 3:
			b[n-1] = 0xff
		}
	}
	return b
}

// genBytesSpec: short strings mostly, the large-size corners rarely (built by NEWBUFFER, not by literals).
func genBytesSpec(t *rapid.T, label string) spec {
	switch pick(t, 40, label+"_bk") {
	case 0:
		n := sample(t, []int{65535, 65536, 65537, vmref.MaxItemSize - 1, vmref.MaxItemSize}, label+"_big")
		if rapid.Bool().Draw(t, label+"_bigbuf") {
			return spec{k: 'Z', n: n}
		}
		return spec{k: 'Y', n: n}
	case 1, 2, 3, 4, 5, 6, 7, 8:
		return sBuffer(genBytes(t, label))
	}
	return sBytes(genBytes(t, label))
}

func genKey(t *rapid.T, label string) spec {
	switch pick(t, 8, label+"_kk") {
	case 0:
		return sBool(rapid.Bool().Draw(t, label+"_b"))
	case 1, 2, 3:
		return sSmall(pickRange(t, -1, 3, label+"_i"))
	case 4:
		return sInt(genInt(t, label))
	case 5:
		return sBytes([]byte{byte(pick(t, 3, label+"_sb"))})
	case 6:
		return sBytes([]byte{})
	}
	return sBytes(genBytes(t, label))
}

// genItem draws an arbitrary item specification.
func genItem(t *rapid.T, label string, depth int) spec {
	hi := 13
	if depth <= 0 {
		hi = 8
	}
	switch pick(t, (hi)+1, label+"_ik") {
	case 0, 1:
		return sInt(genInt(t, label))
	case 2:
		return sSmall(pickRange(t, -1, 4, label+"_s"))
	case 3:
		return sBool(rapid.Bool().Draw(t, label+"_b"))
	case 4:
		return sNull
	case 5, 6:
		return sBytes(genBytes(t, label))
	case 7:
		return sBuffer(genBytes(t, label))
	case 8:
		return spec{k: 'P'}
	case 9, 10:
		return genArrayLike(t, label, 'A', depth-1)
	case 11, 12:
		return genArrayLike(t, label, 'T', depth-1)
	}
	return genMap(t, label, depth-1)
}

func genArrayLike(t *rapid.T, label string, k byte, depth int) spec {
	n := pick(t, 4, label+"_n")
	s := spec{k: k}
	for i := 0; i < n; i++ {
		s.kids = append(s.kids, genItem(t, fmt.Sprintf("%s_e%d", label, i), depth))
	}
	return s
}

func genMap(t *rapid.T, label string, depth int) spec {
	n := pick(t, 4, label+"_n")
	s := spec{k: 'M'}
	for i := 0; i < n; i++ {
		s.kids = append(s.kids, genKey(t, fmt.Sprintf("%s_k%d", label, i)), genItem(t, fmt.Sprintf("%s_v%d", label, i), depth))
	}
	return s
}

// ---- the single-instruction generator ---------------------------------------------------------------------------------------------

type single struct {
	t    *rapid.T
	p    *prog
	nt   bool
	ints []*big.Int
}

// role draws one operand for a role letter and emits it. Upper-case container roles are DUPed so that the mutated
// container stays on the result stack.
func (g *single) role(r byte, label string) {
	t := g.t
	// type confusion / underflow
	if r != 'X' {
		switch pick(t, 30, label+"_cf") {
		case 0, 1:
			emitSpec(g.p, genItem(t, label+"_any", 1))
			return
		case 2:
			return // operand missing
		}
	}
	switch r {
	case 'i':
		v := genInt(t, label)
		g.ints = append(g.ints, v)
		emitSpec(g.p, intSpec(t, label, v))
	case 'h':
		g.small(sample(t, shiftPool, label+"_sh"))
	case 'e':
		g.small(sample(t, expPool, label+"_ex"))
	case 'n':
		g.small(sample(t, countPool, label+"_cnt"))
	case 'j': // small index
		g.small(pickRange(t, -1, 5, label+"_idx"))
	case 'b':
		emitSpec(g.p, genBytesSpec(t, label))
	case 'q':
		switch pick(t, 4, label+"_q") {
		case 0:
			emitSpec(g.p, sBool(rapid.Bool().Draw(t, label+"_qb")))
		case 1:
			emitSpec(g.p, genBytesSpec(t, label))
		default:
			emitSpec(g.p, genItem(t, label, 1))
		}
	case 'X', 'x':
		emitSpec(g.p, genItem(t, label, 2))
	case 'k':
		emitSpec(g.p, genKey(t, label))
	case 'a':
		emitSpec(g.p, genArrayLike(t, label, sample(t, []byte{'A', 'A', 'T'}, label+"_at"), 1))
	case 'm':
		emitSpec(g.p, genMap(t, label, 1))
	case 'u':
		emitSpec(g.p, sBuffer(genBytes(t, label)))
	case 'c':
		switch pick(t, 3, label+"_c") {
		case 0:
			emitSpec(g.p, genMap(t, label, 1))
		case 1:
			emitSpec(g.p, genArrayLike(t, label, 'A', 1))
		default:
			emitSpec(g.p, genArrayLike(t, label, 'T', 1))
		}
	default:
		panic("c13: role " + string(r))
	}
}

func (g *single) small(n int) {
	v := big.NewInt(int64(n))
	g.ints = append(g.ints, v)
	if pick(g.t, 10, "small_rep") == 0 {
		emitSpec(g.p, sBytes(encodeMin(v)))
		return
	}
	g.p.pushInt(v, 0)
}

func (g *single) roles(rs string) {
	for i := 0; i < len(rs); i++ {
		g.role(rs[i], fmt.Sprintf("o%d", i))
	}
}

var typeBytes = []byte{vmref.TAny, vmref.TPointer, vmref.TBoolean, vmref.TInteger, vmref.TByteString, vmref.TBuffer,
	vmref.TArray, vmref.TStruct, vmref.TMap, vmref.TInterop, 0x01, 0x22, 0xff}

// negSensitive: opcodes for which a negative operand makes the case non-trivial by the rule of the property.
var negSensitive = map[opcode.Opcode]bool{opcode.SHL: true, opcode.SHR: true, opcode.DIV: true, opcode.MOD: true, opcode.POW: true,
	opcode.SQRT: true, opcode.MODMUL: true, opcode.MODPOW: true}

type entry struct {
	ops    []opcode.Opcode
	weight int
	build  func(g *single, op opcode.Opcode)
}

func simple(rs string) func(g *single, op opcode.Opcode) {
	return func(g *single, op opcode.Opcode) { g.roles(rs); g.p.emit(op) }
}

// container + key helper: a container, DUP (kept), a key that is related to the container's content.
func (g *single) containerAndKey(keep bool, allowBytes bool) {
	t := g.t
	kind := pick(t, 6, "ck_kind")
	if !allowBytes && kind >= 4 {
		kind = pick(t, 4, "ck_kind2")
	}
	switch kind {
	case 0, 1: // array / struct
		c := genArrayLike(t, "ck_arr", sample(t, []byte{'A', 'T'}, "ck_at"), 1)
		emitSpec(g.p, c)
		if keep {
			g.p.emit(opcode.DUP)
		}
		l := len(c.kids)
		idx := sample(t, []int{-1, 0, 0, l - 1, l - 1, l, l + 1, 1}, "ck_idx")
		if pick(t, 10, "ck_any") == 0 {
			emitSpec(g.p, genKey(t, "ck_key"))
		} else {
			g.small(idx)
		}
	case 2, 3: // map
		m := genMap(t, "ck_map", 1)
		emitSpec(g.p, m)
		if keep {
			g.p.emit(opcode.DUP)
		}
		n := len(m.kids) / 2
		if n > 0 && pick(t, 3, "ck_hit") > 0 {
			k := m.kids[2*pick(t, n, "ck_which")]
			// same key, possibly re-typed (Integer 1 / ByteString 01 / Boolean true are different keys)
			switch pick(t, 5, "ck_retype") {
			case 0:
				if k.k == 'I' && k.i.IsInt64() {
					k = sBytes(encodeMin(k.i))
				} else if k.k == 'S' && len(k.b) <= 32 {
					k = sInt(new(big.Int).SetInt64(int64(int8(firstOr0(k.b)))))
				}
			case 1:
				if k.k == 'I' && (k.i.Sign() == 0 || k.i.Cmp(one) == 0) {
					k = sBool(k.i.Sign() != 0)
				}
			}
			emitSpec(g.p, k)
		} else {
			emitSpec(g.p, genKey(t, "ck_key"))
		}
	default: // byte string / buffer
		b := genBytes(t, "ck_bytes")
		if kind == 4 {
			emitSpec(g.p, sBytes(b))
		} else {
			emitSpec(g.p, sBuffer(b))
		}
		if keep {
			g.p.emit(opcode.DUP)
		}
		l := len(b)
		g.small(sample(t, []int{-1, 0, l - 1, l, l + 1, 1}, "ck_bidx"))
	}
}

func firstOr0(b []byte) byte {
	if len(b) == 0 {
		return 0
	}
	return b[0]
}

// markers pushes d distinguishable items.
func (g *single) markers(d int) {
	for i := 0; i < d; i++ {
		switch i % 3 {
		case 0:
			g.p.pushSmall(100 + i)
		case 1:
			g.p.pushData([]byte{byte(0xa0 + i)}, 0)
		default:
			g.p.pushSmall(i)
			g.p.pushSmall(1)
			g.p.emit(opcode.PACK)
		}
	}
}

func stackOp(withCount bool) func(g *single, op opcode.Opcode) {
	return func(g *single, op opcode.Opcode) {
		d := pick(g.t, 7, "depth")
		g.markers(d)
		if withCount {
			n := sample(g.t, []int{-1, 0, 1, 2, d - 1, d, d + 1, 3}, "n")
			if pick(g.t, 15, "n_any") == 0 {
				g.role('x', "n_item")
			} else {
				g.small(n)
			}
		}
		g.p.emit(op)
	}
}

func rangeOps(from, to opcode.Opcode) []opcode.Opcode {
	var l []opcode.Opcode
	for o := from; o <= to; o++ {
		l = append(l, o)
	}
	return l
}

var condJumps = []opcode.Opcode{opcode.JMPIF, opcode.JMPIFNOT, opcode.JMPEQ, opcode.JMPNE, opcode.JMPGT, opcode.JMPGE, opcode.JMPLT, opcode.JMPLE}

var singleEntries = buildEntries()

func buildEntries() []entry {
	var es []entry
	add := func(w int, b func(g *single, op opcode.Opcode), ops ...opcode.Opcode) {
		es = append(es, entry{ops: ops, weight: w, build: b})
	}
	// constants
	add(2, func(g *single, op opcode.Opcode) {
		w := 1 << int(op)
		b := uniformBytes(g.t, w, "imm")
		switch pick(g.t, 6, "imm_kind") {
		case 0:
			b = bytes.Repeat([]byte{0xff}, w)
		case 1:
			b = bytes.Repeat([]byte{0}, w)
			b[w-1] = 0x80
		case 2:
			b = bytes.Repeat([]byte{0xff}, w)
			b[w-1] = 0x7f
		case 3:
			if pick(g.t, 4, "imm_trunc") == 0 {
				b = b[:pick(g.t, w, "imm_len")] // truncated operand
			}
		}
		g.p.emit(op, b...)
		g.nt = op == opcode.PUSHINT256
	}, rangeOps(opcode.PUSHINT8, opcode.PUSHINT256)...)
	add(1, func(g *single, op opcode.Opcode) { g.p.emit(op) }, append(rangeOps(opcode.PUSHM1, opcode.PUSH16), opcode.PUSHT, opcode.PUSHF, opcode.PUSHNULL, opcode.NOP)...)
	add(1, func(g *single, op opcode.Opcode) {
		g.p.emit(opcode.NOP)
		off := sample(g.t, []int{0, -1, 5, 6, 7, 8, -2, 1 << 20, -(1 << 20), 4}, "pusha_off")
		b := make([]byte, 4)
		putOff(b, off)
		g.p.emit(op, b...)
		g.p.emit(opcode.NOP)
		g.p.emit(opcode.NOP) // script length 8: offsets 6 -> position 7 (last NOP), 7 -> 8 (= length), 8 -> 9 (beyond)
	}, opcode.PUSHA)
	add(2, func(g *single, op opcode.Opcode) {
		var n int
		switch op {
		case opcode.PUSHDATA1:
			n = sample(g.t, []int{0, 1, 32, 33, 255}, "pd_len")
		case opcode.PUSHDATA2:
			n = sample(g.t, []int{0, 1, 255, 256, 300}, "pd_len")
			if pick(g.t, 31, "pd_big") == 0 {
				n = 65535
			}
		default:
			n = sample(g.t, []int{0, 1, 300}, "pd_len")
			switch pick(g.t, 41, "pd_big") {
			case 0:
				n = vmref.MaxItemSize
			case 1:
				n = vmref.MaxItemSize + 1
			case 2:
				n = 65536
			}
		}
		data := bytes.Repeat([]byte{0x5a}, n)
		form := map[opcode.Opcode]int{opcode.PUSHDATA1: 1, opcode.PUSHDATA2: 2, opcode.PUSHDATA4: 4}[op]
		before := len(g.p.code)
		g.p.pushData(data, form)
		if pick(g.t, 10, "pd_trunc") == 0 {
			// operand shorter than the announced length, or a length prefix cut short
			i := &g.p.code[before]
			cut := pick(g.t, (len(i.arg))+1, "pd_cut")
			i.arg = i.arg[:cut]
		}
	}, opcode.PUSHDATA1, opcode.PUSHDATA2, opcode.PUSHDATA4)

	// flow control: [operands] Jxx L ; PUSH1 ; L: PUSH2  (wrong targets via delta)
	jumpBuild := func(g *single, op opcode.Opcode) {
		switch op {
		case opcode.JMP:
		case opcode.JMPIF, opcode.JMPIFNOT:
			g.role('q', "cond")
		default:
			g.twoInts()
		}
		l := g.p.newLabel()
		delta := 0
		switch pick(g.t, 12, "jmp_target") {
		case 0:
			delta = 1 // == script length... (L is the last instruction, 1 byte) -> position len
		case 1:
			delta = 2 // beyond the end
		case 2:
			delta = -1000
		case 3:
			delta = 100000
		}
		if delta == 0 && pick(g.t, 8, "jmp_mid") == 0 {
			// target in the middle of an instruction: the operand byte of PUSHINT8 0x13 is executed as PUSH3
			g.p.jumpDelta(op, l, 1)
			g.p.emit(opcode.PUSH1)
			g.p.label(l)
			g.p.emit(opcode.PUSHINT8, byte(opcode.PUSH3))
			g.p.emit(opcode.PUSH2)
			return
		}
		g.p.jumpDelta(op, l, delta)
		g.p.emit(opcode.PUSH1)
		g.p.label(l)
		g.p.emit(opcode.PUSH2)
	}
	add(2, jumpBuild, opcode.JMP)
	add(6, jumpBuild, condJumps...)
	add(2, func(g *single, op opcode.Opcode) {
		// main: [x] CALL f ; PUSH7 ; RET ; f: PUSH8 ; [RET]
		f := g.p.newLabel()
		if rapid.Bool().Draw(g.t, "call_arg") {
			g.role('x', "arg")
		}
		delta := sample(g.t, []int{0, 0, 0, 0, 0, 1, 2, -500, 70000}, "call_delta")
		if op == opcode.CALLA {
			if pick(g.t, 10, "calla_notptr") == 0 {
				g.role('x', "notptr")
			} else {
				g.p.jumpDelta(opcode.PUSHA, f, delta)
			}
			g.p.emit(opcode.CALLA)
		} else {
			g.p.jumpDelta(opcode.CALL, f, delta)
		}
		g.p.emit(opcode.PUSH7)
		g.p.emit(opcode.RET)
		if delta == 0 || rapid.Bool().Draw(g.t, "call_pad") {
			g.p.label(f)
			g.p.emit(opcode.PUSH8)
		} else {
			g.p.emit(opcode.PUSH8)
			g.p.label(f) // delta counts from the end of the script
		}
	}, opcode.CALL, opcode.CALLA)
	add(1, simple(""), opcode.ABORT, opcode.RET)
	add(2, simple("q"), opcode.ASSERT)
	add(1, simple("x"), opcode.THROW)
	msgBuild := func(g *single, op opcode.Opcode) {
		if op == opcode.ASSERTMSG {
			g.role('q', "cond")
		}
		switch pick(g.t, 8, "msg_kind") {
		case 0:
			emitSpec(g.p, sBytes([]byte("reason")))
		case 1:
			emitSpec(g.p, sBytes([]byte{}))
		case 2:
			emitSpec(g.p, sBytes([]byte{0xff}))
		case 3:
			emitSpec(g.p, sBytes([]byte{0xc0, 0x80})) // overlong
		case 4:
			emitSpec(g.p, sBytes([]byte{0xe2, 0x82})) // truncated
		case 5:
			emitSpec(g.p, sBytes([]byte("h\xc3\xa9llo \xe2\x82\xac \xf0\x9f\x98\x80")))
		case 6:
			emitSpec(g.p, sBuffer([]byte("buf")))
		default:
			g.role('x', "msg")
		}
		g.p.emit(op)
	}
	add(2, msgBuild, opcode.ASSERTMSG, opcode.ABORTMSG)

	// stack
	add(4, stackOp(false), opcode.DEPTH, opcode.DROP, opcode.NIP, opcode.CLEAR, opcode.DUP, opcode.OVER, opcode.TUCK, opcode.SWAP,
		opcode.ROT, opcode.REVERSE3, opcode.REVERSE4)
	add(4, stackOp(true), opcode.XDROP, opcode.PICK, opcode.ROLL, opcode.REVERSEN)

	// slots: INITSSLOT/INITSLOT with stores and loads around the drawn opcode
	slotBuild := func(g *single, op opcode.Opcode) {
		t := g.t
		ns := sample(t, []int{0, 1, 2, 7, 8, 255}, "nstatic")
		nl := sample(t, []int{0, 1, 2, 7, 8, 255}, "nlocal")
		na := sample(t, []int{0, 1, 2, 3, 8}, "narg")
		initS := pick(t, 10, "init_s") > 0
		initL := pick(t, 10, "init_l") > 0
		for i := 0; i < na; i++ {
			if i < 3 || pick(t, 6, "arg_present") > 0 {
				g.p.pushSmall(40 + i)
			}
		}
		if initS {
			g.p.emit(opcode.INITSSLOT, byte(ns))
		}
		if initL {
			g.p.emit(opcode.INITSLOT, byte(nl), byte(na))
		}
		if pick(t, 15, "init_twice") == 0 {
			if rapid.Bool().Draw(t, "twice_which") {
				g.p.emit(opcode.INITSSLOT, 1)
			} else {
				g.p.emit(opcode.INITSLOT, 1, 0)
			}
		}
		idx := sample(t, []int{0, 1, 6, 7, 254, 255}, "slot_idx")
		emitIdx := func(o opcode.Opcode, base opcode.Opcode, generic opcode.Opcode) {
			if o == generic {
				g.p.emit(o, byte(idx))
			} else {
				g.p.emit(o)
			}
		}
		isStore := false
		var base, generic opcode.Opcode
		switch {
		case op >= opcode.LDSFLD0 && op <= opcode.LDSFLD:
			base, generic = opcode.LDSFLD0, opcode.LDSFLD
		case op >= opcode.STSFLD0 && op <= opcode.STSFLD:
			base, generic, isStore = opcode.STSFLD0, opcode.STSFLD, true
		case op >= opcode.LDLOC0 && op <= opcode.LDLOC:
			base, generic = opcode.LDLOC0, opcode.LDLOC
		case op >= opcode.STLOC0 && op <= opcode.STLOC:
			base, generic, isStore = opcode.STLOC0, opcode.STLOC, true
		case op >= opcode.LDARG0 && op <= opcode.LDARG:
			base, generic = opcode.LDARG0, opcode.LDARG
		case op >= opcode.STARG0 && op <= opcode.STARG:
			base, generic, isStore = opcode.STARG0, opcode.STARG, true
		default: // INITSSLOT / INITSLOT themselves: done above
			return
		}
		if isStore {
			g.role('x', "stored")
			emitIdx(op, base, generic)
			// read it back through the matching load
			ld := map[opcode.Opcode]opcode.Opcode{opcode.STSFLD0: opcode.LDSFLD0, opcode.STLOC0: opcode.LDLOC0, opcode.STARG0: opcode.LDARG0}[base]
			if op == generic {
				g.p.emit(ld+7, byte(idx))
			} else {
				g.p.emit(ld + (op - base))
			}
		} else {
			emitIdx(op, base, generic)
		}
	}
	add(8, slotBuild, rangeOps(opcode.INITSSLOT, opcode.STARG)...)

	// splice
	add(2, simple("n"), opcode.NEWBUFFER)
	add(3, func(g *single, op opcode.Opcode) {
		t := g.t
		dst := genBytes(t, "dst")
		src := genBytes(t, "src")
		emitSpec(g.p, sBuffer(dst))
		g.p.emit(opcode.DUP)
		di := sample(t, []int{-1, 0, 1, len(dst), len(dst) + 1}, "di")
		si := sample(t, []int{-1, 0, 1, len(src), len(src) + 1}, "si")
		n := sample(t, []int{-1, 0, 1, 2, len(src), len(dst), len(src) + 1, 2147483647}, "n")
		g.small(di)
		switch pick(t, 6, "src_kind") {
		case 0:
			emitSpec(g.p, sBuffer(src))
		case 1:
			g.role('x', "src_any")
		case 2:
			g.p.emit(opcode.OVER) // source = destination (overlap)
		default:
			emitSpec(g.p, sBytes(src))
		}
		g.small(si)
		g.small(n)
		g.p.emit(op)
	}, opcode.MEMCPY)
	add(3, func(g *single, op opcode.Opcode) {
		t := g.t
		if pick(t, 8, "cat_big") == 0 {
			// total length around MaxItemSize
			a := sample(t, []int{65535, 65534, 65536, 1, 0}, "cat_a")
			b := vmref.MaxItemSize - a + pickRange(t, -1, 1, "cat_d")
			emitSpec(g.p, spec{k: 'Z', n: a})
			emitSpec(g.p, spec{k: sample(t, []byte{'Z', 'Y'}, "cat_bk"), n: b})
		} else {
			g.roles("bb")
		}
		g.p.emit(op)
		if rapid.Bool().Draw(t, "cat_size") {
			g.p.emit(opcode.SIZE)
		}
	}, opcode.CAT)
	spliceIdx := func(g *single, op opcode.Opcode) {
		t := g.t
		b := genBytes(t, "s")
		switch pick(t, 6, "s_kind") {
		case 0:
			emitSpec(g.p, sBuffer(b))
		case 1:
			g.role('x', "s_any")
		case 2:
			v := genInt(t, "s_int")
			emitSpec(g.p, sInt(v))
			b = encodeMin(v)
		default:
			emitSpec(g.p, sBytes(b))
		}
		l := len(b)
		if op == opcode.SUBSTR {
			g.small(sample(t, []int{-1, 0, 1, l - 1, l, l + 1}, "s_index"))
		}
		counts := []int{-1, 0, 1, l - 1, l, l + 1, 2147483647}
		if op == opcode.RIGHT {
			// the Go VM allocates `count` bytes before it compares count with the operand length (vm.go RIGHT): keep the
			// allocation small enough not to kill the worker (incidental finding, reported separately)
			counts[6] = 200000
		}
		g.small(sample(t, counts, "s_count"))
		g.p.emit(op)
	}
	add(5, spliceIdx, opcode.SUBSTR, opcode.LEFT, opcode.RIGHT)

	// bitwise / arithmetic / comparison
	add(10, simple("i"), opcode.INVERT, opcode.SIGN, opcode.ABS, opcode.NEGATE, opcode.INC, opcode.DEC, opcode.SQRT, opcode.NZ)
	add(40, binaryInts, opcode.AND, opcode.OR, opcode.XOR, opcode.ADD, opcode.SUB, opcode.MUL, opcode.DIV, opcode.MOD, opcode.MIN,
		opcode.MAX, opcode.NUMEQUAL, opcode.NUMNOTEQUAL, opcode.LT, opcode.LE, opcode.GT, opcode.GE)
	add(5, simple("ie"), opcode.POW)
	add(10, simple("ih"), opcode.SHL, opcode.SHR)
	add(6, simple("iii"), opcode.MODMUL, opcode.WITHIN)
	add(8, func(g *single, op opcode.Opcode) {
		t := g.t
		g.role('i', "base")
		switch pick(t, 6, "mp_exp") {
		case 0, 1:
			g.small(-1)
		case 2:
			g.small(sample(t, []int{-2, 0, 1, 2, 3, 65537}, "mp_e"))
		default:
			g.role('i', "exp")
		}
		if pick(t, 4, "mp_modsmall") == 0 {
			g.small(sample(t, []int{-7, -2, -1, 0, 1, 2, 3, 7, 12, 97}, "mp_m"))
		} else {
			g.role('i', "mod")
		}
		g.p.emit(op)
	}, opcode.MODPOW)
	add(2, simple("q"), opcode.NOT)
	add(2, simple("qq"), opcode.BOOLAND, opcode.BOOLOR)
	add(9, func(g *single, op opcode.Opcode) {
		t := g.t
		if pick(t, 5, "eq_budget") < 2 {
			buildStructBudget(g)
			g.p.emit(op)
			return
		}
		switch pick(t, 7, "eq_kind") {
		case 0: // the same item twice
			g.role('X', "a")
			g.p.emit(opcode.DUP)
		case 1: // equal-valued distinct items
			s := genItem(t, "a", 2)
			emitSpec(g.p, s)
			emitSpec(g.p, s)
		case 2: // same number, different representation
			v := genInt(t, "v")
			emitSpec(g.p, intSpec(t, "ra", v))
			emitSpec(g.p, intSpec(t, "rb", v))
		case 3: // byte strings around the comparable-size limit
			n := sample(t, []int{65535, 65536, 65537}, "eq_n")
			m := sample(t, []int{n, n, 1, 65536, 65537}, "eq_m")
			ka := sample(t, []byte{'Y', 'Y', 'Z'}, "eq_ka")
			kb := sample(t, []byte{'Y', 'Y', 'Z'}, "eq_kb")
			emitSpec(g.p, spec{k: ka, n: n})
			if pick(t, 4, "eq_dup") == 0 {
				g.p.emit(opcode.DUP)
			} else if pick(t, 4, "eq_other") == 0 {
				g.role('x', "b")
			} else {
				emitSpec(g.p, spec{k: kb, n: m})
			}
			if rapid.Bool().Draw(t, "eq_swap") {
				g.p.emit(opcode.SWAP)
			}
		case 4: // structs that differ deep inside / share sub-items
			inner := genItem(t, "inner", 1)
			mk := func(last spec) spec {
				return spec{k: 'T', kids: []spec{sSmall(1), {k: 'T', kids: []spec{inner, last}}}}
			}
			emitSpec(g.p, mk(sSmall(5)))
			emitSpec(g.p, mk(sSmall(sample(t, []int{5, 5, 6}, "eq_last"))))
		default:
			g.roles("xx")
		}
		g.p.emit(op)
	}, opcode.EQUAL, opcode.NOTEQUAL)

	// compound
	add(4, func(g *single, op opcode.Opcode) {
		t := g.t
		n := pick(t, 5, "pack_n")
		for i := 0; i < n; i++ {
			if op == opcode.PACKMAP {
				emitSpec(g.p, genItem(t, fmt.Sprintf("pv%d", i), 1))
				if pick(t, 12, "pack_badkey") == 0 {
					emitSpec(g.p, genItem(t, fmt.Sprintf("pk%d", i), 1))
				} else {
					emitSpec(g.p, genKey(t, fmt.Sprintf("pk%d", i)))
				}
			} else {
				emitSpec(g.p, genItem(t, fmt.Sprintf("pe%d", i), 1))
			}
		}
		cnt := n
		switch pick(t, 10, "pack_cnt") {
		case 0:
			cnt = n + 1
		case 1:
			cnt = -1
		case 2:
			cnt = max(n-1, 0)
		}
		if pick(t, 20, "pack_cntany") == 0 {
			g.role('x', "cnt")
		} else {
			g.small(cnt)
		}
		g.p.emit(op)
	}, opcode.PACK, opcode.PACKSTRUCT, opcode.PACKMAP)
	add(3, func(g *single, op opcode.Opcode) {
		g.role('c', "c")
		if rapid.Bool().Draw(g.t, "keep_c") {
			g.p.emit(opcode.DUP) // [c result...]: which elements are shared with c and which are copies is visible
		}
		g.p.emit(op)
	}, opcode.UNPACK, opcode.VALUES)
	add(1, simple(""), opcode.NEWARRAY0, opcode.NEWSTRUCT0, opcode.NEWMAP)
	add(3, func(g *single, op opcode.Opcode) {
		g.role('n', "n")
		if op == opcode.NEWARRAYT {
			g.p.emit(op, sample(g.t, typeBytes, "elem_type"))
		} else {
			g.p.emit(op)
		}
		if rapid.Bool().Draw(g.t, "na_size") {
			g.p.emit(opcode.SIZE)
		}
	}, opcode.NEWARRAY, opcode.NEWARRAYT, opcode.NEWSTRUCT)
	add(2, func(g *single, op opcode.Opcode) {
		if rapid.Bool().Draw(g.t, "size_bytes") {
			g.role('b', "x")
		} else {
			g.role('x', "x")
		}
		g.p.emit(op)
	}, opcode.SIZE)
	add(1, simple("m"), opcode.KEYS)
	add(6, func(g *single, op opcode.Opcode) {
		g.containerAndKey(false, true)
		g.p.emit(op)
	}, opcode.HASKEY, opcode.PICKITEM)
	add(3, func(g *single, op opcode.Opcode) {
		g.containerAndKey(true, false)
		g.p.emit(op)
	}, opcode.REMOVE)
	add(4, func(g *single, op opcode.Opcode) {
		kind := pick(g.t, 4, "set_val")
		if kind == 1 && rapid.Bool().Draw(g.t, "set_keep_struct") {
			// struct ; container ; DUP ; key ; PUSH3 PICK ; SETITEM -> [struct container]: the stored element must be a copy
			emitSpec(g.p, genArrayLike(g.t, "set_struct", 'T', 2))
			g.containerAndKey(true, true)
			g.p.pushSmall(3)
			g.p.emit(opcode.PICK)
			g.p.emit(op)
			return
		}
		g.containerAndKey(true, true)
		// value: for buffers mostly byte-range integers
		switch kind {
		case 0:
			g.small(sample(g.t, []int{-129, -128, -1, 0, 255, 256}, "set_byte"))
		case 1:
			emitSpec(g.p, genArrayLike(g.t, "set_struct", 'T', 1))
		default:
			g.role('x', "val")
		}
		g.p.emit(op)
	}, opcode.SETITEM)
	add(3, func(g *single, op opcode.Opcode) {
		if pick(g.t, 3, "app_keep_struct") == 0 {
			// struct ; array ; DUP ; PUSH2 PICK ; APPEND  -> [struct array]: the appended element must be a copy
			emitSpec(g.p, genArrayLike(g.t, "app_s", 'T', 2))
			g.role('a', "arr")
			g.p.emit(opcode.DUP)
			g.p.pushSmall(2)
			g.p.emit(opcode.PICK)
			g.p.emit(op)
			return
		}
		g.role('a', "arr")
		g.p.emit(opcode.DUP)
		if pick(g.t, 3, "app_struct") == 0 {
			emitSpec(g.p, genArrayLike(g.t, "app_s", 'T', 1))
		} else {
			g.role('x', "item")
		}
		g.p.emit(op)
	}, opcode.APPEND)
	add(4, func(g *single, op opcode.Opcode) {
		switch {
		case op == opcode.REVERSEITEMS && pick(g.t, 3, "rev_buf") == 0:
			g.role('u', "buf")
		case op == opcode.CLEARITEMS:
			g.role('c', "c")
		default:
			g.role('a', "arr")
		}
		g.p.emit(opcode.DUP)
		g.p.emit(op)
	}, opcode.REVERSEITEMS, opcode.CLEARITEMS, opcode.POPITEM)

	// types
	add(1, simple("x"), opcode.ISNULL)
	add(8, func(g *single, op opcode.Opcode) {
		t := g.t
		// all (from, to) pairs: the source kind is drawn explicitly
		switch pick(t, 12, "from") {
		case 0:
			emitSpec(g.p, sNull)
		case 1:
			emitSpec(g.p, sBool(rapid.Bool().Draw(t, "fb")))
		case 2, 3:
			v := genInt(t, "fi")
			g.ints = append(g.ints, v)
			emitSpec(g.p, sInt(v))
		case 4, 5:
			emitSpec(g.p, genBytesSpec(t, "fs"))
		case 6:
			emitSpec(g.p, sBuffer(genBytes(t, "fu")))
		case 7:
			emitSpec(g.p, genArrayLike(t, "fa", 'A', 1))
		case 8:
			emitSpec(g.p, genArrayLike(t, "ft", 'T', 1))
		case 9:
			emitSpec(g.p, genMap(t, "fm", 1))
		case 10:
			emitSpec(g.p, spec{k: 'P'})
		default:
			g.role('x', "fx")
		}
		keep := op == opcode.CONVERT && pick(t, 4, "conv_keep") == 0
		if keep {
			g.p.emit(opcode.DUP) // identity of the result vs the source is visible in the aliasing pattern
		}
		g.p.emit(op, sample(t, typeBytes, "to"))
	}, opcode.ISTYPE, opcode.CONVERT)

	// limits of the invocation stack (1024 contexts) and of TRY nesting (16 per context), reached by counted loops
	add(1, func(g *single, op opcode.Opcode) {
		p := g.p
		if op == opcode.CALLL {
			n := sample(g.t, []int{3, 1022, 1023, 1024, 1025}, "depth")
			f, end := p.newLabel(), p.newLabel()
			p.pushSmall(0)
			p.label(f)
			p.emit(opcode.INC)
			p.emit(opcode.DUP)
			p.pushSmall(n)
			p.jump(opcode.JMPEQ, end)
			p.jump(opcode.CALL, f)
			p.label(end)
			p.emit(opcode.RET)
			return
		}
		n := sample(g.t, []int{2, 15, 16, 17}, "depth")
		if rapid.Bool().Draw(g.t, "nest_in_finally") {
			// every TRY is opened from the FINALLY block of the previous one (its handler is still on the stack, in
			// its finally state): they count for the limit too
			top, after, fin := p.newLabel(), p.newLabel(), p.newLabel()
			p.pushSmall(0)
			p.label(top)
			p.try("-", fin)
			p.jump(opcode.ENDTRY, after)
			p.label(after)
			p.pushSmall(77)
			p.emit(opcode.RET)
			p.label(fin)
			p.emit(opcode.INC)
			p.emit(opcode.DUP)
			p.pushSmall(n)
			p.jump(opcode.JMPLT, top)
			p.emit(opcode.RET)
			return
		}
		top, c := p.newLabel(), p.newLabel()
		p.pushSmall(0)
		p.label(top)
		p.try(c, "-")
		p.emit(opcode.INC)
		p.emit(opcode.DUP)
		p.pushSmall(n)
		p.jump(opcode.JMPLT, top)
		if rapid.Bool().Draw(g.t, "throw_at_depth") {
			p.emit(opcode.THROW)
		}
		p.emit(opcode.RET)
		p.label(c)
		p.pushSmall(99)
		p.emit(opcode.RET)
	}, opcode.CALLL, opcode.TRYL)

	// exception handling, single shapes
	add(6, func(g *single, op opcode.Opcode) {
		buildTrySingle(g, op)
	}, opcode.TRY, opcode.ENDTRY, opcode.ENDFINALLY)
	return es
}

// cloneOnStack turns [s] into [s s'] where s' is the copy that APPEND (or VALUES) makes of struct s: a different Struct
// object whose non-struct fields are the SAME objects as in s.
func cloneOnStack(g *single) {
	p := g.p
	p.emit(opcode.DUP)
	if rapid.Bool().Draw(g.t, "clone_by_values") {
		p.pushSmall(1)
		p.emit(opcode.PACK)
		p.emit(opcode.VALUES)
	} else {
		p.emit(opcode.NEWARRAY0)
		p.emit(opcode.TUCK)
		p.emit(opcode.SWAP)
		p.emit(opcode.APPEND)
	}
	p.pushSmall(0)
	p.emit(opcode.PICKITEM)
}

// buildStructBudget leaves two DIFFERENT struct objects on the stack whose comparison runs just below / at / above the
// budgets of Struct.Equals: MaxComparableSize bytes (1 per non-ByteString pair, max(len) per ByteString pair, shared
// objects charged too) and MaxStackSize compared pairs.
func buildStructBudget(g *single) {
	t := g.t
	p := g.p
	if pick(t, 4, "sb_count") == 0 {
		// item budget: s1 = k references to t, s2 = k references to t' (t, t' distinct structs of m fields): 1 + k + k*m pairs
		km := sample(t, [][2]int{{5, 408}, {22, 92}, {31, 65}, {33, 61}, {23, 88}, {89, 22}, {32, 63}, {64, 31}, {16, 127}, {3, 682},
			{25, 81}, {41, 49}, {50, 40}, {10, 100}, {40, 60}, {30, 67}, {30, 68}}, "sb_km")
		k, m := km[0], km[1]
		diff := pick(t, 4, "sb_cdiff") // 0: differ in the first field, 1: in the last, else equal
		for side := 0; side < 2; side++ {
			p.pushSmall(m)
			p.emit(opcode.NEWSTRUCT)
			if side == 1 && diff < 2 {
				p.emit(opcode.DUP)
				if diff == 0 {
					p.pushSmall(0)
				} else {
					p.pushSmall(m - 1)
				}
				p.pushSmall(1)
				p.emit(opcode.SETITEM)
			}
			for i := 1; i < k; i++ {
				p.emit(opcode.DUP)
			}
			p.pushSmall(k)
			p.emit(opcode.PACKSTRUCT)
		}
		if rapid.Bool().Draw(t, "sb_swap") {
			p.emit(opcode.SWAP)
		}
		return
	}
	// byte budget
	total := sample(t, []int{65533, 65534, 65535, 65536, 65537, 65538, 131070}, "sb_total")
	var sizes []int
	switch pick(t, 4, "sb_nf") {
	case 0:
		sizes = []int{total}
	case 1:
		sizes = []int{40000, total - 40000}
	case 2:
		sizes = []int{total - 40000, 40000}
	default:
		sizes = []int{30000, 20000, total - 50000}
	}
	if total > 70000 && len(sizes) == 1 {
		sizes = []int{65535, total - 65535}
	}
	shape := pick(t, 4, "sb_shape") // 0,1: flat; 2: last field nested one level; 3: every field nested
	extra := pick(t, 4, "sb_extra") // 0: an Integer field in front, 1: at the end, else none
	mode := pick(t, 4, "sb_mode")   // 0,1: same field objects (clone); 2: equal-content copies; 3: one field differs
	diffField := pick(t, len(sizes), "sb_difff")
	recipe := func(second bool) spec {
		st := spec{k: 'T'}
		if extra == 0 {
			st.kids = append(st.kids, sSmall(7))
		}
		for i, n := range sizes {
			f := spec{k: 'Y', n: n}
			if second && mode == 3 && i == diffField {
				f.k = 'W'
			}
			if shape == 3 || (shape == 2 && i == len(sizes)-1) {
				f = spec{k: 'T', kids: []spec{f}}
			}
			st.kids = append(st.kids, f)
		}
		if extra == 1 {
			st.kids = append(st.kids, sSmall(7))
		}
		return st
	}
	emitSpec(p, recipe(false))
	if mode <= 1 {
		cloneOnStack(g)
	} else {
		emitSpec(p, recipe(true))
	}
	if rapid.Bool().Draw(t, "sb_swap") {
		p.emit(opcode.SWAP)
	}
}

// buildTrySingle emits one TRY/CATCH/FINALLY skeleton whose body is a single action; op tells which instruction the case is
// attributed to.
func buildTrySingle(g *single, op opcode.Opcode) {
	t := g.t
	p := g.p
	hasCatch := pick(t, 4, "has_catch") > 0
	hasFinally := rapid.Bool().Draw(t, "has_finally")
	lc, lf, le := p.newLabel(), p.newLabel(), p.newLabel()
	c, f := "-", "-"
	if hasCatch {
		c = lc
	}
	if hasFinally {
		f = lf
	}
	if !hasCatch && !hasFinally {
		p.emit(opcode.TRY, 0, 0)
	} else {
		p.try(c, f)
	}
	p.pushSmall(1)
	switch pick(t, 8, "body") {
	case 0: // nothing
	case 1:
		g.role('x', "thrown")
		p.emit(opcode.THROW)
	case 2: // engine exception: PICKITEM out of range
		p.emit(opcode.NEWARRAY0)
		p.pushSmall(0)
		p.emit(opcode.PICKITEM)
	case 3: // uncatchable fault
		p.pushSmall(1)
		p.pushSmall(0)
		p.emit(opcode.DIV)
	case 4: // map key not found
		p.emit(opcode.NEWMAP)
		p.pushSmall(0)
		p.emit(opcode.PICKITEM)
	case 5:
		p.emit(opcode.RET)
	case 6:
		p.emit(opcode.ABORT)
	case 7:
		p.emit(opcode.ENDFINALLY)
	}
	p.pushSmall(2)
	p.jump(opcode.ENDTRY, le)
	p.label(lc)
	if hasCatch || rapid.Bool().Draw(t, "dead_catch") {
		p.pushSmall(3)
		switch pick(t, 6, "catch_body") {
		case 0:
			p.emit(opcode.THROW) // throws 3 from the catch block
		case 1:
			p.emit(opcode.NIP) // drops the exception below the marker
		}
		p.jump(opcode.ENDTRY, le)
	}
	p.label(lf)
	if hasFinally || rapid.Bool().Draw(t, "dead_finally") {
		p.pushSmall(4)
		switch pick(t, 8, "finally_body") {
		case 0:
			p.emit(opcode.THROW)
		case 1:
			p.jump(opcode.ENDTRY, le) // ENDTRY inside finally: fault
		case 2:
			p.emit(opcode.RET)
		}
		p.emit(opcode.ENDFINALLY)
	}
	p.label(le)
	p.pushSmall(5)
}

var singleTotalWeight = func() int {
	n := 0
	for _, e := range singleEntries {
		n += e.weight
	}
	return n
}()

// pickEntry draws an entry with probability proportional to its weight, then one of its opcodes uniformly.
func pickEntry(t *rapid.T) (entry, opcode.Opcode) {
	x := pick(t, singleTotalWeight, "entry")
	for _, e := range singleEntries {
		if x < e.weight {
			return e, e.ops[pick(t, len(e.ops), "op")]
		}
		x -= e.weight
	}
	panic("unreachable")
}

func genSingle(t *rapid.T) Case {
	e, op := pickEntry(t)
	g := &single{t: t, p: &prog{}}
	e.build(g, op)
	// rarely: something after the instruction, so that "continues correctly" is visible too
	if pick(t, 10, "tail") == 0 {
		g.p.emit(opcode.DEPTH)
	}
	long := pick(t, 6, "long_forms") == 0
	script := g.p.assemble(long)
	if l, ok := longForm[op]; ok && long {
		op = l // attribute the case to the long form that was actually assembled
	}
	nt := g.nt
	for _, v := range g.ints {
		if nearBoundary256(v) || (negSensitive[op] && v.Sign() < 0) {
			nt = true
		}
	}
	return Case{Script: script, Desc: disasm(script), Class: "op:" + op.String(), NT: nt}
}
