package c13

import (
	"fmt"
	"math/big"
	"strings"

	"github.com/nspcc-dev/neo-go/pkg/vm/opcode"
)

// ins is one element of the assembler IR: an instruction with a literal operand, an instruction whose operand is the
// relative offset to a label (jumps, CALL, PUSHA, ENDTRY, TRY with two labels), or a label definition.
type ins struct {
	op     opcode.Opcode
	arg    []byte
	target string // label for offset operands ("" = none)
	tgt2   string // second label (TRY: finally), "" or "-" = offset 0
	label  string // label definition (no code)
	raw    []byte // raw bytes (no opcode)
	delta  int    // added to the resolved offset (to build deliberately wrong targets)
}

type prog struct {
	code []ins
	nlab int
}

func (p *prog) newLabel() string { p.nlab++; return fmt.Sprintf("L%d", p.nlab) }
func (p *prog) emit(op opcode.Opcode, arg ...byte) {
	p.code = append(p.code, ins{op: op, arg: arg})
}
func (p *prog) emitRaw(b []byte) { p.code = append(p.code, ins{raw: b}) }
func (p *prog) label(l string)   { p.code = append(p.code, ins{label: l}) }
func (p *prog) jump(op opcode.Opcode, l string) {
	p.code = append(p.code, ins{op: op, target: l})
}
func (p *prog) jumpDelta(op opcode.Opcode, l string, d int) {
	p.code = append(p.code, ins{op: op, target: l, delta: d})
}
func (p *prog) try(catch, finally string) {
	p.code = append(p.code, ins{op: opcode.TRY, target: catch, tgt2: finally})
}

// longForm maps the short control-transfer opcodes to their 4-byte-offset forms.
var longForm = map[opcode.Opcode]opcode.Opcode{
	opcode.JMP: opcode.JMPL, opcode.JMPIF: opcode.JMPIFL, opcode.JMPIFNOT: opcode.JMPIFNOTL, opcode.JMPEQ: opcode.JMPEQL,
	opcode.JMPNE: opcode.JMPNEL, opcode.JMPGT: opcode.JMPGTL, opcode.JMPGE: opcode.JMPGEL, opcode.JMPLT: opcode.JMPLTL,
	opcode.JMPLE: opcode.JMPLEL, opcode.CALL: opcode.CALLL, opcode.ENDTRY: opcode.ENDTRYL, opcode.TRY: opcode.TRYL,
}

func isLong(op opcode.Opcode) bool {
	for _, l := range longForm {
		if l == op {
			return true
		}
	}
	return op == opcode.PUSHA
}

func (i *ins) size(long bool) int {
	switch {
	case i.label != "":
		return 0
	case i.raw != nil:
		return len(i.raw)
	case i.target != "" || i.tgt2 != "":
		w := 1
		if long || isLong(i.op) {
			w = 4
		}
		if i.op == opcode.TRY || i.op == opcode.TRYL {
			return 1 + 2*w
		}
		return 1 + w
	}
	return 1 + len(i.arg)
}

func putOff(b []byte, v int) {
	for k := range b {
		b[k] = byte(v >> (8 * k))
	}
}

// assemble resolves labels; short forms are used unless long is set or an offset does not fit.
func (p *prog) assemble(long bool) []byte {
	for {
		pos := map[string]int{}
		at := 0
		for k := range p.code {
			if p.code[k].label != "" {
				pos[p.code[k].label] = at
			}
			at += p.code[k].size(long)
		}
		out := make([]byte, 0, at)
		fits := true
		for k := range p.code {
			i := &p.code[k]
			switch {
			case i.label != "":
			case i.raw != nil:
				out = append(out, i.raw...)
			case i.target != "" || i.tgt2 != "":
				here := len(out)
				op := i.op
				w := 1
				if isLong(op) {
					w = 4
				} else if long {
					op, w = longForm[op], 4
				}
				out = append(out, byte(op))
				labels := []string{i.target}
				if i.op == opcode.TRY {
					labels = []string{i.target, i.tgt2}
				}
				for _, l := range labels {
					off := 0
					if l != "" && l != "-" {
						t, ok := pos[l]
						if !ok {
							panic("c13 asm: undefined label " + l)
						}
						off = t - here + i.delta
					}
					if w == 1 && (off < -128 || off > 127) {
						fits = false
					}
					b := make([]byte, w)
					putOff(b, off)
					out = append(out, b...)
				}
			default:
				out = append(out, byte(i.op))
				out = append(out, i.arg...)
			}
		}
		if fits {
			return out
		}
		long = true
	}
}

// ---- literal pushes ------------------------------------------------------------------------------------------------------------

var (
	one    = big.NewInt(1)
	two256 = new(big.Int).Lsh(one, 256)
)

// leSigned encodes v (which must fit) as w-byte little-endian two's complement. Assembler-side helper, deliberately
// independent of both the VM's and the reference's conversion code.
func leSigned(v *big.Int, w int) []byte {
	u := new(big.Int).Set(v)
	if u.Sign() < 0 {
		u.Add(u, new(big.Int).Lsh(one, uint(8*w)))
	}
	be := u.Bytes()
	out := make([]byte, w)
	for i := range be {
		out[i] = be[len(be)-1-i]
	}
	return out
}

func fitsBits(v *big.Int, bits uint) bool {
	lim := new(big.Int).Lsh(one, bits-1)
	return v.Cmp(new(big.Int).Neg(lim)) >= 0 && v.Cmp(lim) < 0
}

// pushInt emits the shortest PUSH* / PUSHINT* (or, with wide>0, at least that PUSHINT width index 0..5).
func (p *prog) pushInt(v *big.Int, wide int) {
	if wide == 0 && v.IsInt64() && v.Int64() >= -1 && v.Int64() <= 16 {
		p.emit(opcode.Opcode(int(opcode.PUSH0) + int(v.Int64())))
		return
	}
	for k := max(wide-1, 0); k <= 5; k++ {
		w := 1 << k
		if fitsBits(v, uint(8*w)) {
			p.emit(opcode.Opcode(int(opcode.PUSHINT8)+k), leSigned(v, w)...)
			return
		}
	}
	panic("c13 asm: integer does not fit 256 bits: " + v.String())
}

func (p *prog) pushSmall(n int) { p.pushInt(big.NewInt(int64(n)), 0) }

// pushData emits the shortest PUSHDATA form (form 1/2/4 forces a wider one when it can hold the length).
func (p *prog) pushData(b []byte, form int) {
	n := len(b)
	switch {
	case n < 0x100 && form <= 1:
		p.emit(opcode.PUSHDATA1, append([]byte{byte(n)}, b...)...)
	case n < 0x10000 && form <= 2:
		p.emit(opcode.PUSHDATA2, append([]byte{byte(n), byte(n >> 8)}, b...)...)
	default:
		p.emit(opcode.PUSHDATA4, append([]byte{byte(n), byte(n >> 8), byte(n >> 16), byte(n >> 24)}, b...)...)
	}
}

// ---- disassembly for case descriptions ------------------------------------------------------------------------------------

func operandLen(op opcode.Opcode, rest []byte) (int, bool) {
	switch op {
	case opcode.PUSHDATA1:
		if len(rest) < 1 {
			return 0, false
		}
		return 1 + int(rest[0]), true
	case opcode.PUSHDATA2:
		if len(rest) < 2 {
			return 0, false
		}
		return 2 + (int(rest[0]) | int(rest[1])<<8), true
	case opcode.PUSHDATA4:
		if len(rest) < 4 {
			return 0, false
		}
		return 4 + (int(rest[0]) | int(rest[1])<<8 | int(rest[2])<<16 | int(rest[3])<<24), true
	case opcode.JMP, opcode.JMPIF, opcode.JMPIFNOT, opcode.JMPEQ, opcode.JMPNE, opcode.JMPGT, opcode.JMPGE, opcode.JMPLT,
		opcode.JMPLE, opcode.CALL, opcode.ENDTRY, opcode.INITSSLOT, opcode.LDSFLD, opcode.STSFLD, opcode.LDLOC, opcode.STLOC,
		opcode.LDARG, opcode.STARG, opcode.NEWARRAYT, opcode.ISTYPE, opcode.CONVERT:
		return 1, true
	case opcode.TRY, opcode.INITSLOT, opcode.CALLT:
		return 2, true
	case opcode.JMPL, opcode.JMPIFL, opcode.JMPIFNOTL, opcode.JMPEQL, opcode.JMPNEL, opcode.JMPGTL, opcode.JMPGEL,
		opcode.JMPLTL, opcode.JMPLEL, opcode.CALLL, opcode.ENDTRYL, opcode.PUSHA, opcode.SYSCALL:
		return 4, true
	case opcode.TRYL:
		return 8, true
	}
	if op <= opcode.PUSHINT256 {
		return 1 << op, true
	}
	return 0, true
}

// disasm renders a script for humans (best effort; used only in descriptions and error messages).
func disasm(s []byte) string {
	var sb strings.Builder
	for ip := 0; ip < len(s); {
		op := opcode.Opcode(s[ip])
		n, ok := operandLen(op, s[ip+1:])
		if !ok || ip+1+n > len(s) || n < 0 {
			fmt.Fprintf(&sb, "%d:%s <truncated %x>", ip, op, s[ip+1:])
			break
		}
		arg := s[ip+1 : ip+1+n]
		if len(arg) > 40 {
			fmt.Fprintf(&sb, "%d:%s %x..(%d) ", ip, op, arg[:8], len(arg))
		} else if len(arg) > 0 {
			fmt.Fprintf(&sb, "%d:%s %x ", ip, op, arg)
		} else {
			fmt.Fprintf(&sb, "%d:%s ", ip, op)
		}
		ip += 1 + n
		if sb.Len() > 3000 {
			sb.WriteString("...")
			break
		}
	}
	return strings.TrimSpace(sb.String())
}
