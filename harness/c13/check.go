// Package c13 checks property C13: VM instructions compute what the NeoVM specification says
// (differential execution of pkg/vm against the independent specification interpreter harness/vmref),
// and execution is deterministic (the same script twice: same state, result stack, error text and gas).
//
// Registered checks:
//
//	single  one instruction under test behind a prologue that builds its operands from boundary pools
//	seq     short structured programs (slots as variables, IF/ELSE, loops, CALL/CALLA subroutines, TRY/CATCH/FINALLY,
//	        THROW, engine exceptions, struct clone-on-assign patterns, stack shuffles)
//	pyxval  the specification's own arithmetic against Python integers on a fixed table (skipped with a label when
//	        python3 is missing)
//
// Oracle (checkScript): vmref.Run(script) gives HALT + result stack, FAULT, or UNCERTAIN (+tag). The real VM is run twice
// (vm.New, price getter = fee.Opcode, unlimited gas, LoadScript, Run). HALT/FAULT must agree; on HALT the result stacks
// must agree item by item in type, value, structure and aliasing of items with identity (Buffer, Array, Struct, Map).
// UNCERTAIN runs and runs that touched a "dev:" class (see vmref) are only checked for determinism and are counted
// under the labels "excluded:<tag>"; C13_STRICT_DEV=1 compares the dev: classes too (they then fail on the current tree,
// see TestProbeCandidates).
package c13

import (
	"fmt"
	"os"
	"sort"
	"strings"

	"github.com/nspcc-dev/neo-go/pkg/core/fee"
	"github.com/nspcc-dev/neo-go/pkg/util"
	"github.com/nspcc-dev/neo-go/pkg/vm"
	"github.com/nspcc-dev/neo-go/pkg/vm/opcode"
	"github.com/nspcc-dev/neo-go/pkg/vm/stackitem"
	"github.com/nspcc-dev/neo-go/pkg/vm/vmstate"
	"verifharness/vmref"
	"verifharness/vt"
)

// Case is one script. Desc / Class / NT are informative (computed by the generator from its own draws);
// the verdict depends on Script only.
type Case struct {
	Script vt.Bytes `json:"script"`
	Desc   string   `json:"desc,omitempty"`
	Class  string   `json:"class,omitempty"` // e.g. "op:DIV"
	NT     bool     `json:"nt,omitempty"`    // generator-side part of the non-trivial rule (boundary / negative operand)
}

const stepBudget = 12000

type realRun struct {
	state vmstate.State
	err   error
	stack []stackitem.Item // bottom first
	gas   int64
}

type runaway struct{}

// runReal executes the script on a fresh VM exactly like a production caller (LoadScript + Run). An instruction counter in
// the OnExec hook stops executions that run far beyond what the specification needed (a disagreement on a loop).
func runReal(script []byte) (r realRun) {
	v := vm.New()
	v.SetPriceGetter(func(op opcode.Opcode, _ []byte) int64 { return fee.Opcode(30*vm.ExecFeeFactorMultiplier, op) })
	v.SetGasLimit(-1)
	n := 0
	v.SetOnExecHook(func(_ util.Uint160, _ int, _ opcode.Opcode) {
		n++
		if n > 4*stepBudget+1000 {
			panic(runaway{})
		}
	})
	v.LoadScript(script)
	defer func() {
		if x := recover(); x != nil {
			if _, ok := x.(runaway); !ok {
				panic(x)
			}
			r = realRun{state: vmstate.None, err: fmt.Errorf("real VM still running after %d instructions", n)}
		}
	}()
	err := v.Run()
	r = realRun{state: v.State(), err: err, gas: v.GasConsumed()}
	if v.HasHalted() {
		r.stack = v.Estack().ToArray()
	}
	return r
}

func viewReal(it stackitem.Item) vmref.View[stackitem.Item] {
	v := vmref.View[stackitem.Item]{Kind: '?'}
	switch t := it.(type) {
	case stackitem.Null:
		v.Kind = 'N'
	case stackitem.Bool:
		v.Kind = 'B'
		v.Bool = bool(t)
	case *stackitem.BigInteger:
		v.Kind = 'I'
		v.Int = t.Big()
	case *stackitem.ByteArray:
		v.Kind = 'S'
		v.Bytes = []byte(*t)
	case *stackitem.Buffer:
		v.Kind = 'U'
		v.Bytes = []byte(*t)
	case *stackitem.Array:
		v.Kind = 'A'
		v.Elems = t.Value().([]stackitem.Item)
	case *stackitem.Struct:
		v.Kind = 'T'
		v.Elems = t.Value().([]stackitem.Item)
	case *stackitem.Map:
		v.Kind = 'M'
		for _, e := range t.Value().([]stackitem.MapElement) {
			v.Keys = append(v.Keys, e.Key)
			v.Elems = append(v.Elems, e.Value)
		}
	case *stackitem.Pointer:
		v.Kind = 'P'
		v.Pos = t.Position()
	}
	return v
}

func describeReal(stack []stackitem.Item) string {
	s, _ := vmref.DescribeWith(stack, viewReal, true, 0)
	return s
}

func clip(s string) string {
	if len(s) > 1500 {
		return s[:1500] + "...(" + fmt.Sprint(len(s)) + " chars)"
	}
	return s
}

func scriptHex(s []byte) string {
	if len(s) > 600 {
		return fmt.Sprintf("%x...(%d bytes)", s[:600], len(s))
	}
	return fmt.Sprintf("%x", s)
}

func devTags(tags map[string]int) []string {
	var l []string
	for t := range tags {
		if strings.HasPrefix(t, "dev:") {
			l = append(l, t)
		}
	}
	sort.Strings(l)
	return l
}

// checkScript is the oracle shared by all generators.
func checkScript(c Case, o *vt.Obs) error {
	script := []byte(c.Script)
	ref := vmref.Run(script, stepBudget)
	if c.Class != "" {
		o.Label(c.Class)
	}
	if ref.State == vmref.Uncertain && ref.Why == "step-budget" {
		// possibly non-terminating: the real VM is not started at all
		o.Label("skipped:step-budget")
		return nil
	}
	o.Units(ref.Steps)

	// Determinism: two independent executions of the real VM.
	r1 := runReal(script)
	r2 := runReal(script)
	if r1.state != r2.state {
		return fmt.Errorf("non-deterministic state: %s vs %s; script %s", r1.state, r2.state, scriptHex(script))
	}
	if r1.gas != r2.gas {
		return fmt.Errorf("non-deterministic gas: %d vs %d; script %s", r1.gas, r2.gas, scriptHex(script))
	}
	if (r1.err == nil) != (r2.err == nil) || (r1.err != nil && r1.err.Error() != r2.err.Error()) {
		return fmt.Errorf("non-deterministic error: %v vs %v; script %s", r1.err, r2.err, scriptHex(script))
	}
	if d1, d2 := describeReal(r1.stack), describeReal(r2.stack); d1 != d2 {
		return fmt.Errorf("non-deterministic result stack: %s vs %s; script %s", clip(d1), clip(d2), scriptHex(script))
	}
	realHalt := r1.state == vmstate.Halt
	realFault := r1.state == vmstate.Fault
	if !realHalt && !realFault {
		return fmt.Errorf("real VM ended in state %s (neither HALT nor FAULT), err %v; script %s", r1.state, r1.err, scriptHex(script))
	}

	if ref.State == vmref.Uncertain {
		o.Label("excluded:" + ref.Why)
		return nil
	}
	if dev := devTags(ref.Tags); len(dev) > 0 && os.Getenv("C13_STRICT_DEV") == "" {
		// documented deviation classes (reported as candidates, see known deviations in the package doc): not compared
		for _, t := range dev {
			o.Label("excluded:" + t)
		}
		return nil
	}
	for t := range ref.Tags {
		o.Label("ev:" + t)
	}
	if ref.State == vmref.Halt {
		o.Label("ref:HALT")
	} else {
		o.Label("ref:FAULT")
	}
	if c.NT || ref.Tags["exc-cross-call"] > 0 {
		o.NonTrivial()
	}

	where := func() string {
		return fmt.Sprintf("script %s  [%s]", scriptHex(script), clip(disasm(script)))
	}
	switch {
	case ref.State == vmref.Halt && !realHalt:
		d, _ := vmref.Describe(ref.Stack, true, 0)
		return fmt.Errorf("specification HALTs with %s, real VM FAULTs (%v); %s", clip(d), r1.err, where())
	case ref.State == vmref.Fault && !realFault:
		return fmt.Errorf("specification FAULTs (%s), real VM HALTs with %s; %s", ref.Why, clip(describeReal(r1.stack)), where())
	case ref.State == vmref.Fault:
		return nil
	}
	if err := vmref.Compare(ref.Stack, r1.stack, viewReal, false); err != nil {
		d, _ := vmref.Describe(ref.Stack, true, 0)
		return fmt.Errorf("result stacks differ: %v; specification %s, real %s; %s", err, clip(d), clip(describeReal(r1.stack)), where())
	}
	if err := vmref.Compare(ref.Stack, r1.stack, viewReal, true); err != nil {
		d, _ := vmref.Describe(ref.Stack, true, 0)
		return fmt.Errorf("result stacks have equal values but %v; specification %s, real %s; %s", err, clip(d), clip(describeReal(r1.stack)), where())
	}
	return nil
}

// limitsAgree ties the specification's limit values (taken from the reference implementation) to the constants of the code
// under test; a mismatch is reported by every check.
func limitsAgree() error {
	type pair struct {
		name      string
		ref, real int
	}
	for _, p := range []pair{
		{"MaxStackSize", vmref.MaxStackSize, vm.MaxStackSize},
		{"MaxItemSize", vmref.MaxItemSize, stackitem.MaxSize},
		{"MaxComparableSize", vmref.MaxComparableSize, stackitem.MaxByteArrayComparableSize},
		{"MaxInvocationStackSize", vmref.MaxInvocationStackSize, vm.MaxInvocationStackSize},
		{"MaxTryNestingDepth", vmref.MaxTryNestingDepth, vm.MaxTryNestingDepth},
		{"IntegerMaxSize(bits)", vmref.IntegerMaxSize * 8, stackitem.MaxBigIntegerSizeBits},
		{"MapMaxKeySize", vmref.MapMaxKeySize, stackitem.MaxKeySize},
	} {
		if p.ref != p.real {
			return fmt.Errorf("limit %s: specification %d, code under test %d", p.name, p.ref, p.real)
		}
	}
	return nil
}
