package c13

import (
	"bytes"
	"fmt"
	"math/big"
	"os/exec"
	"strings"
	"sync"

	"github.com/nspcc-dev/neo-go/pkg/vm/opcode"
	"pgregory.net/rapid"
	"verifharness/vmref"
	"verifharness/vt"
)

// Cross-validation of the specification's arithmetic against Python integers (once per process, fixed table).
// The Python snippet implements the reference sign conventions on its own: truncated division from abs()//abs(),
// remainder with the sign of the dividend, >> as floor shift (Python semantics), math.isqrt, pow(v, -1, m).

const pySnippet = `
import sys, math
LIM = 1 << 255
def chk(v): return str(v) if -LIM <= v < LIM else "F"
def tdiv(a, b):
    q = abs(a) // abs(b)
    return q if (a < 0) == (b < 0) else -q
def trem(a, b):
    r = abs(a) % abs(b)
    return -r if a < 0 else r
def i2b(v):
    if v == 0: return ""
    n = 1
    while True:
        try:
            return v.to_bytes(n, "little", signed=True).hex()
        except OverflowError:
            n += 1
out = []
for line in sys.stdin:
    parts = line.split()
    if not parts: continue
    op = parts[0]
    if op == "B2I":
        h = parts[1] if len(parts) > 1 else ""
        out.append(str(int.from_bytes(bytes.fromhex(h), "little", signed=True)))
        continue
    xs = [int(x) for x in parts[1:]]
    if op == "I2B": r = "x" + i2b(xs[0])
    elif op == "DIV": r = "F" if xs[1] == 0 else chk(tdiv(xs[0], xs[1]))
    elif op == "MOD": r = "F" if xs[1] == 0 else chk(trem(xs[0], xs[1]))
    elif op == "SHL": r = "F" if xs[1] < 0 or xs[1] > 256 else chk(xs[0] << xs[1])
    elif op == "SHR": r = "F" if xs[1] < 0 or xs[1] > 256 else chk(xs[0] >> xs[1])
    elif op == "POW": r = "F" if xs[1] < 0 or xs[1] > 256 else chk(xs[0] ** xs[1])
    elif op == "SQRT": r = "F" if xs[0] < 0 else chk(math.isqrt(xs[0]))
    elif op == "MODMUL": r = "F" if xs[2] == 0 else chk(trem(xs[0] * xs[1], xs[2]))
    elif op == "MODPOW":
        v, e, m = xs
        if e == -1:
            r = "F" if v <= 0 or m < 2 or math.gcd(v, m) != 1 else chk(pow(v, -1, m))
        elif e < -1 or m == 0:
            r = "F"
        else:
            mag = pow(abs(v), e, abs(m))
            val = -mag if (v < 0 and e % 2 == 1) else mag
            if e <= 300:
                assert val == trem(v ** e, m), (v, e, m)
            r = chk(val)
    elif op == "AND": r = chk(xs[0] & xs[1])
    elif op == "OR": r = chk(xs[0] | xs[1])
    elif op == "XOR": r = chk(xs[0] ^ xs[1])
    elif op == "INVERT": r = chk(~xs[0])
    elif op == "ABS": r = chk(abs(xs[0]))
    elif op == "NEGATE": r = chk(-xs[0])
    else: r = "?"
    out.append(r)
sys.stdout.write("\n".join(out) + "\n")
`

type pyTuple struct {
	op   string
	args []*big.Int
	hex  string // B2I
}

var pyOps = map[string]opcode.Opcode{"DIV": opcode.DIV, "MOD": opcode.MOD, "SHL": opcode.SHL, "SHR": opcode.SHR, "POW": opcode.POW,
	"SQRT": opcode.SQRT, "MODMUL": opcode.MODMUL, "MODPOW": opcode.MODPOW, "AND": opcode.AND, "OR": opcode.OR, "XOR": opcode.XOR,
	"INVERT": opcode.INVERT, "ABS": opcode.ABS, "NEGATE": opcode.NEGATE}

// pyTable is a fixed table built by a constant-seeded LCG over the boundary pool (no randomness at run time).
var pyTable = func() []pyTuple {
	var seed uint64 = 0x9e3779b97f4a7c15
	next := func(n int) int {
		seed = seed*6364136223846793005 + 1442695040888963407
		return int((seed >> 33) % uint64(n))
	}
	pick := func() *big.Int {
		v := boundaryPool[next(len(boundaryPool))]
		if next(4) == 0 {
			w := new(big.Int).Add(v, big.NewInt(int64(next(7)-3)))
			if fits256(w) {
				return w
			}
		}
		return v
	}
	small := func(l []int) *big.Int { return big.NewInt(int64(l[next(len(l))])) }
	var tb []pyTuple
	add := func(op string, a ...*big.Int) { tb = append(tb, pyTuple{op: op, args: a}) }
	for i := 0; i < 60; i++ {
		add("DIV", pick(), pick())
		add("MOD", pick(), pick())
		add("SHL", pick(), small(shiftPool[:14]))
		add("SHR", pick(), small(shiftPool[:14]))
		add("POW", pick(), small(expPool))
		add("POW", small([]int{-3, -2, -1, 0, 1, 2, 3, 10, -10}), small(expPool))
		add("SQRT", pick())
		add("MODMUL", pick(), pick(), pick())
		add("MODPOW", pick(), small([]int{-2, -1, -1, 0, 1, 2, 3, 5, 65537}), pick())
		add("MODPOW", small([]int{-7, -3, -2, 2, 3, 5, 10, 1, 0}), pick(), small([]int{-12, -7, -1, 0, 1, 2, 7, 12, 97}))
		add("MODPOW", small([]int{-7, -3, -2, 2, 3, 5, 10, 1, 0, 6}), big.NewInt(-1), small([]int{-12, -7, -1, 0, 1, 2, 7, 12, 97}))
		add("AND", pick(), pick())
		add("OR", pick(), pick())
		add("XOR", pick(), pick())
		add("INVERT", pick())
		add("ABS", pick())
		add("NEGATE", pick())
		add("I2B", pick())
	}
	for _, v := range boundaryPool {
		add("I2B", v)
		add("SQRT", v)
		add("DIV", v, big.NewInt(-1))
		add("MOD", v, big.NewInt(-3))
		add("SHR", v, big.NewInt(1))
		add("SHR", v, big.NewInt(255))
		add("SHL", v, big.NewInt(1))
	}
	for _, h := range []string{"", "00", "80", "ff", "7f", "0080", "ff7f", "ffff", "0000", "ff00", "00ff", "0100000000000000000000000000000000000000000000000000000000000080",
		"ffffffffffffffffffffffffffffffffffffffffffffffffffffffffffffff7f", "ffffffffffffffffffffffffffffffffffffffffffffffffffffffffffffffff",
		"0000000000000000000000000000000000000000000000000000000000000080"} {
		tb = append(tb, pyTuple{op: "B2I", hex: h})
	}
	return tb
}()

var (
	pyOnce    sync.Once
	pyResults []string
	pyErr     error
	pyMissing bool
)

func runPython() {
	path, err := exec.LookPath("python3")
	if err != nil {
		pyMissing = true
		return
	}
	var in bytes.Buffer
	for _, tp := range pyTable {
		in.WriteString(tp.op)
		if tp.op == "B2I" {
			in.WriteString(" " + tp.hex)
		}
		for _, a := range tp.args {
			in.WriteString(" " + a.String())
		}
		in.WriteByte('\n')
	}
	cmd := exec.Command(path, "-c", pySnippet)
	cmd.Stdin = &in
	var stderr bytes.Buffer
	cmd.Stderr = &stderr
	out, err := cmd.Output()
	if err != nil {
		pyErr = fmt.Errorf("python3 failed: %v: %s", err, stderr.String())
		return
	}
	pyResults = strings.Split(strings.TrimRight(string(out), "\n"), "\n")
	if len(pyResults) != len(pyTable) {
		pyErr = fmt.Errorf("python3 returned %d results for %d tuples", len(pyResults), len(pyTable))
	}
}

// refEval evaluates one tuple with the specification interpreter (through a script, like any other case).
func refEval(tp pyTuple) string {
	switch tp.op {
	case "I2B":
		return "x" + fmt.Sprintf("%x", vmref.IntToBytes(tp.args[0]))
	case "B2I":
		var b []byte
		fmt.Sscanf(tp.hex, "%x", &b)
		return vmref.BytesToInt(b).String()
	}
	p := &prog{}
	for _, a := range tp.args {
		p.pushInt(a, 0)
	}
	p.emit(pyOps[tp.op])
	r := vmref.Run(p.assemble(false), 100)
	switch r.State {
	case vmref.Fault:
		return "F"
	case vmref.Halt:
		if len(r.Stack) == 1 && r.Stack[0].K == vmref.Integer {
			return r.Stack[0].Int.String()
		}
		return fmt.Sprintf("unexpected stack of %d items", len(r.Stack))
	}
	return "uncertain:" + r.Why
}

// PyCase selects a slice of the fixed table (the whole table is evaluated by Python once per process).
type PyCase struct {
	Chunk int `json:"chunk"`
}

const pyChunks = 1

func genPyCase(t *rapid.T) PyCase {
	return PyCase{Chunk: rapid.IntRange(0, pyChunks-1).Draw(t, "chunk")}
}

func checkPyCase(c PyCase, o *vt.Obs) error {
	pyOnce.Do(runPython)
	if pyMissing {
		o.Label("SKIPPED:python3-unavailable")
		return nil
	}
	if pyErr != nil {
		return pyErr
	}
	n := 0
	for i := c.Chunk; i < len(pyTable); i += pyChunks {
		tp := pyTable[i]
		got := refEval(tp)
		if got != pyResults[i] {
			return fmt.Errorf("specification arithmetic disagrees with Python on tuple %d: %s %v %s: vmref %s, python %s", i, tp.op, tp.args, tp.hex, got, pyResults[i])
		}
		n++
	}
	o.Units(n)
	o.Label("python-crosscheck")
	o.NonTrivial()
	return nil
}
