package c13

import (
	"fmt"
	"sort"
	"testing"

	"pgregory.net/rapid"
	"verifharness/vmref"
)

func TestDbgSeq(t *testing.T) {
	cnt := map[string]int{}
	steps, lens, n := 0, 0, 0
	shown := 0
	rapid.Check(t, func(rt *rapid.T) {
		c := genSeq(rt)
		r := vmref.Run(c.Script, stepBudget)
		cnt[r.State.String()+" "+r.Why]++
		steps += r.Steps
		lens += len(c.Script)
		n++
		if shown < 6 && r.State == vmref.Halt && r.Tags["exc-cross-call"] > 0 {
			shown++
			d, _ := vmref.Describe(r.Stack, true, 0)
			fmt.Println("EX:", c.Desc, "\n  =>", d)
		}
	})
	type kv struct {
		k string
		v int
	}
	var l []kv
	for k, v := range cnt {
		l = append(l, kv{k, v})
	}
	sort.Slice(l, func(i, j int) bool { return l[i].v > l[j].v })
	for _, e := range l {
		fmt.Println(e.v, e.k)
	}
	fmt.Println("avg steps", steps/n, "avg len", lens/n)
}
