// Package c03 checks property C03: the state root of every height commits exactly to contract storage.
//
// A generated, storage-churning block history is built on a reference node. After every block h the flat
// contract storage S_h (read with SeekStorage, independent of the trie) is recorded together with root_h and
// root_h is compared with an independent MPT implementation (mptref) applied to S_h. A replica with a drawn
// node-local configuration (archival / RemoveUntraceableBlocks with GC ticks / KeepOnlyLatestState) receives the
// same block bytes; at drawn later moments and for drawn heights the stateroot module (SeekStates, FindStates,
// GetState, GetStateProof + mpt.VerifyProof) and historic invocations (GetTestHistoricVM) are compared with
// S_h and with what the live reference node returned when it was at height h.
package c03

import (
	"bytes"
	"encoding/binary"
	"encoding/hex"
	"errors"
	"fmt"
	"sort"
	"strconv"
	"strings"

	"github.com/nspcc-dev/neo-go/pkg/core"
	"github.com/nspcc-dev/neo-go/pkg/core/interop"
	"github.com/nspcc-dev/neo-go/pkg/core/mpt"
	"github.com/nspcc-dev/neo-go/pkg/core/native/nativehashes"
	"github.com/nspcc-dev/neo-go/pkg/core/native/nativeids"
	"github.com/nspcc-dev/neo-go/pkg/core/native/noderoles"
	"github.com/nspcc-dev/neo-go/pkg/core/transaction"
	"github.com/nspcc-dev/neo-go/pkg/encoding/bigint"
	"github.com/nspcc-dev/neo-go/pkg/io"
	"github.com/nspcc-dev/neo-go/pkg/smartcontract/callflag"
	"github.com/nspcc-dev/neo-go/pkg/smartcontract/trigger"
	"github.com/nspcc-dev/neo-go/pkg/util"
	"github.com/nspcc-dev/neo-go/pkg/vm/emit"
	"github.com/nspcc-dev/neo-go/pkg/vm/stackitem"
	"pgregory.net/rapid"
	ck "verifharness/chainkit"
	"verifharness/mptref"
	"verifharness/vt"
)

// ---- case --------------------------------------------------------------------------------------------------

// Key mutation kinds of a KeySel.
const (
	mutPresent = iota // a key present at the probed height
	mutDeleted        // a key that was present at an earlier height and is absent now
	mutNibble         // a present key with one nibble changed
	mutPrefix         // a proper prefix of a present key (contract id kept)
	mutExtend         // a present key extended by one or two bytes
	mutOtherID        // a present key under another contract id
	mutRaw            // contract id ++ drawn bytes from the grammar's key alphabet
	nMut
)

// KeySel selects a trie key relative to the storage snapshot of the probed height (resolved in check).
type KeySel struct {
	Pool int      `json:"pool"` // 0: keys of deployed contracts (id > 0), 1: all keys
	Sel  int      `json:"sel"`
	Mut  int      `json:"mut"`
	Pos  int      `json:"pos"`
	Nib  int      `json:"nib"`
	ID   int      `json:"id"`
	Raw  vt.Bytes `json:"raw,omitempty"`
}

// FindSel is one FindStates / SeekStates probe.
type FindSel struct {
	Key       KeySel   `json:"key"`
	Cut       int      `json:"cut"`        // prefix = key[:4+Cut mod (len(key)-4+1)]
	StartKind int      `json:"start_kind"` // 0 nil, 1 empty, 2 suffix of a present key, 3 that minus its last byte, 4 that plus a byte, 5 that with the last nibble changed, 6 raw
	StartSel  int      `json:"start_sel"`
	StartRaw  vt.Bytes `json:"start_raw,omitempty"`
	Max       int      `json:"max"`
}

// ScriptSel is one read-only script (resolved to bytes on the reference node at the probed height).
type ScriptSel struct {
	Kind  string `json:"kind"` // kget | kfind | roles | neo | policy | mgmt | bundle
	C     int    `json:"c"`
	Key   KeySel `json:"key"`
	Cut   int    `json:"cut"`
	Opts  int64  `json:"opts"`
	Role  int    `json:"role"`
	Party int    `json:"party"`
}

// Moment says when the replica is questioned and about which heights.
type Moment struct {
	After int   `json:"after"` // after generated block index After (mod number of blocks); the last moment is after the final block
	Pre   bool  `json:"pre"`   // before (true) or after the flush / GC tick scheduled for that block
	Offs  []int `json:"offs"`  // probed heights = current height - off (mod current height + 1)
}

// Case is a history, a replica configuration with its flush / GC schedule, and probes.
type Case struct {
	Chain   ck.ChainCfg    `json:"chain"`
	Node    ck.NodeCfg     `json:"node"`
	Blocks  []ck.BlockSpec `json:"blocks"`
	Sched   []int          `json:"sched"` // replica, per generated block: 0 nothing, 1 flush, 2 flush + GC tick, 3 flush + restart
	Moments []Moment       `json:"moments"`
	Keys    []KeySel       `json:"keys"`
	Finds   []FindSel      `json:"finds"`
	Scripts []ScriptSel    `json:"scripts"`
	Page    int            `json:"page"` // findstates page size of the full scans
	Mix     []int          `json:"mix"`  // present keys whose proofs are mixed into foreign proof lists
}

// ---- generator ---------------------------------------------------------------------------------------------

var alphabet = []byte{0x00, 0x01, 0x10, 0xff, 'a', 'b'}

func genKeySel(t *rapid.T, label string) KeySel {
	k := KeySel{
		Pool: rapid.SampledFrom([]int{0, 0, 0, 1}).Draw(t, label+"_pool"),
		Sel:  rapid.IntRange(0, 400).Draw(t, label+"_sel"),
		Mut:  rapid.SampledFrom([]int{mutPresent, mutPresent, mutPresent, mutDeleted, mutDeleted, mutNibble, mutPrefix, mutExtend, mutOtherID, mutRaw}).Draw(t, label+"_mut"),
		Pos:  rapid.IntRange(0, 63).Draw(t, label+"_pos"),
		Nib:  rapid.IntRange(0, 35).Draw(t, label+"_nib"),
		ID:   rapid.IntRange(0, 7).Draw(t, label+"_id"),
	}
	if k.Mut == mutRaw {
		k.Raw = ck.GenStorageKey(t, label+"_raw")
	}
	return k
}

// findOpts: valid and invalid System.Storage.Find option sets (interop/storage/find.go).
var findOpts = []int64{0, 0, 1, 2, 3, 4, 8, 0x18, 0x28, 0x1c, 0x2c, 0x1a, 0x80, 0x80, 0x81, 0x82, 0x83, 0x84, 0x88, 0x98, 0xa8, 5, 6, 9, 0x10, 0x30, 0x40}

// KnownHistoricLedger: see known_findings.json.
const KnownHistoricLedger = "historic-invocation-cannot-read-ledger-transactions"

func genScriptSel(t *rapid.T, roleStory int) ScriptSel {
	kinds := []string{"kget", "kget", "kfind", "kfind", "kfind", "roles", "rolebad", "neo", "policy", "mgmt", "bundle", "ledger"}
	if vt.Known(KnownHistoricLedger) {
		// listed finding: a historic invocation cannot read transactions through the Ledger contract; the kind is
		// replaced (the draw is kept so that cases stay comparable)
		kinds[len(kinds)-1] = "policy"
	}
	s := ScriptSel{
		Kind:  rapid.SampledFrom(kinds).Draw(t, "skind"),
		C:     rapid.IntRange(0, 4).Draw(t, "sc"),
		Party: rapid.IntRange(0, ck.NParties-1).Draw(t, "sparty"),
	}
	switch s.Kind {
	case "kget":
		s.Key = genKeySel(t, "sk")
	case "kfind":
		s.Key = genKeySel(t, "sk")
		s.Cut = rapid.IntRange(0, 3).Draw(t, "scut")
		s.Opts = rapid.SampledFrom(findOpts).Draw(t, "sopts")
	case "roles", "rolebad":
		s.Role = rapid.SampledFrom([]int{int(noderoles.StateValidator), int(noderoles.Oracle), int(noderoles.NeoFSAlphabet), int(noderoles.P2PNotary), roleStory, roleStory, roleStory}).Draw(t, "srole")
	}
	return s
}

// serialPair is a serialised two-element array, so that Find with Deserialize / PickN options has something to pick.
func serialPair(a int64, b []byte) vt.Bytes {
	bs, err := stackitem.Serialize(stackitem.NewArray([]stackitem.Item{stackitem.Make(a), stackitem.Make(b)}))
	if err != nil {
		panic(err)
	}
	return bs
}

// genChurn appends storage-churn storylines to the drawn blocks.
func genChurn(t *rapid.T, blocks []ck.BlockSpec, roleStory int) {
	n := len(blocks)
	at := func(label string, lo int) int {
		if lo > n-1 {
			lo = n - 1
		}
		return rapid.IntRange(lo, n-1).Draw(t, label)
	}
	add := func(i int, a ck.Action) {
		a.From = rapid.IntRange(0, ck.NAccounts-1).Draw(t, "cfrom")
		a.Nonce = rapid.Uint32().Draw(t, "cnonce")
		blocks[i].Txs = append(blocks[i].Txs, a)
	}
	put := func(c int, k, v vt.Bytes) ck.Action { return ck.Action{Kind: "invoke", S: "put", A: c, K: k, V: v} }
	del := func(c int, k vt.Bytes) ck.Action { return ck.Action{Kind: "invoke", S: "del", A: c, K: k} }
	stories := rapid.IntRange(2, 5).Draw(t, "nstories")
	for s := 0; s < stories; s++ {
		c := rapid.IntRange(0, 2).Draw(t, "story_c")
		kind := rapid.SampledFrom([]string{"recreate", "recreate", "recreate", "samevalue", "empty", "prefixes", "destroy", "destroy", "multi", "roles", "roles", "serial"}).Draw(t, "story")
		if s == 0 && rapid.Bool().Draw(t, "story0") {
			kind = "recreate"
		}
		if s == 1 && rapid.Bool().Draw(t, "story1") {
			kind = "roles"
		}
		switch kind {
		case "recreate": // put, delete, put again (same or other value), possibly inside one block
			k := ck.GenStorageKey(t, "rk")
			v := ck.GenStorageVal(t, "rv")
			i := at("ri", 0)
			j := at("rj", i)
			l := at("rl", j)
			if n >= 3 && rapid.IntRange(0, 3).Draw(t, "rspread") != 0 { // three different blocks: visible in per-block snapshots
				i = rapid.IntRange(0, n-3).Draw(t, "ri3")
				j = rapid.IntRange(i+1, n-2).Draw(t, "rj3")
				l = rapid.IntRange(j+1, n-1).Draw(t, "rl3")
			}
			add(i, put(c, k, v))
			add(j, del(c, k))
			if rapid.Bool().Draw(t, "rsame") {
				add(l, put(c, k, v))
			} else {
				add(l, put(c, k, ck.GenStorageVal(t, "rv2")))
			}
		case "samevalue": // equal values under different keys (shared leaf nodes), one of them removed later
			v := ck.GenStorageVal(t, "sv")
			k1, k2 := ck.GenStorageKey(t, "sk1"), ck.GenStorageKey(t, "sk2")
			i := at("si", 0)
			add(i, put(c, k1, v))
			add(at("sj", i), put(rapid.IntRange(0, 2).Draw(t, "sc2"), k2, v))
			if rapid.Bool().Draw(t, "sdel") {
				add(at("sl", i), del(c, k1))
			}
		case "empty": // empty value, later overwritten or deleted
			k := ck.GenStorageKey(t, "ek")
			i := at("ei", 0)
			add(i, put(c, k, vt.Bytes{}))
			switch rapid.IntRange(0, 2).Draw(t, "eend") {
			case 0:
				add(at("ej", i), put(c, k, ck.GenStorageVal(t, "ev")))
			case 1:
				add(at("ej", i), del(c, k))
			}
		case "prefixes": // keys that are prefixes of one another, the middle one removed later
			k := ck.GenStorageKey(t, "pk")
			k1 := append(append(vt.Bytes{}, k...), rapid.SampledFrom(alphabet).Draw(t, "pb1"))
			k2 := append(append(vt.Bytes{}, k1...), rapid.SampledFrom(alphabet).Draw(t, "pb2"))
			ks := []vt.Bytes{k, k1, k2}
			i := at("pi", 0)
			for _, x := range rapid.Permutation([]int{0, 1, 2}).Draw(t, "pperm") {
				add(at("pj", i), put(c, ks[x], ck.GenStorageVal(t, "pv")))
			}
			if rapid.Bool().Draw(t, "pdel") {
				add(at("pl", i), del(c, ks[rapid.IntRange(0, 2).Draw(t, "pdelk")]))
			}
		case "destroy": // fill, destroy (wipes the contract's prefix), deploy another contract, write to it
			i := at("di", 0)
			add(i, ck.Action{Kind: "multi_put", A: c, N: int64(rapid.IntRange(1, 5).Draw(t, "dn")), K: ck.GenStorageKey(t, "dk"), V: ck.GenStorageVal(t, "dv")})
			j := at("dj", i)
			add(j, ck.Action{Kind: "invoke", S: "destroy", A: c})
			l := at("dl", j)
			add(l, ck.Action{Kind: "deploy", A: rapid.IntRange(0, 2).Draw(t, "dvar"), S: rapid.SampledFrom([]string{"r", "s"}).Draw(t, "dsuf")})
			add(at("dm", l), put(rapid.IntRange(2, 4).Draw(t, "dc2"), ck.GenStorageKey(t, "dk2"), ck.GenStorageVal(t, "dv2")))
		case "multi": // the same key family written and partly deleted twice
			k := ck.GenStorageKey(t, "mk")
			i := at("mi", 0)
			add(i, ck.Action{Kind: "multi_put", A: c, N: int64(rapid.IntRange(2, 6).Draw(t, "mn")), K: k, V: ck.GenStorageVal(t, "mv")})
			add(at("mj", i), ck.Action{Kind: "multi_put", A: c, N: int64(rapid.IntRange(2, 6).Draw(t, "mn2")), B: rapid.IntRange(1, 3).Draw(t, "mdel"), K: k, V: ck.GenStorageVal(t, "mv2")})
		case "roles": // several designations of one role at different heights (historic getDesignatedByRole seeks with Start)
			i := 0
			for r := rapid.IntRange(2, 4).Draw(t, "nrole"); r > 0; r-- {
				i = at("roi", i)
				add(i, ck.Action{Kind: "designate", A: roleStory, B: rapid.IntRange(1, 7).Draw(t, "rokeys")})
			}
		case "serial": // serialised pairs under prefix 's' for Find with Deserialize / PickN
			for r := rapid.IntRange(1, 3).Draw(t, "nser"); r > 0; r-- {
				k := append(vt.Bytes("s"), ck.GenStorageKey(t, "zk")...)
				add(at("zi", 0), put(c, k, serialPair(int64(rapid.IntRange(-1, 300).Draw(t, "za")), ck.GenStorageVal(t, "zb"))))
			}
		}
	}
}

// sanitize drops the actions the property's historic clause does not cover (DESIGN C03: GetTestHistoricVM derives
// the fake block timestamp from the CURRENT milliseconds-per-block value).
func sanitize(blocks []ck.BlockSpec) []ck.BlockSpec {
	out := make([]ck.BlockSpec, len(blocks))
	for i, b := range blocks {
		nb := b
		nb.Txs = nil
		for _, a := range b.Txs {
			if a.Kind == "policy" && a.S == "setMillisecondsPerBlock" {
				continue
			}
			if a.Kind == "syscall_time" {
				continue
			}
			nb.Txs = append(nb.Txs, a)
		}
		out[i] = nb
	}
	return out
}

func genCase(t *rapid.T) Case {
	var c Case
	c.Chain = ck.ChainCfg{
		Profile:   rapid.SampledFrom([]string{"V1C1", "V1C1", "V1C1", "V1C3", "V4C6"}).Draw(t, "profile"),
		SRIH:      rapid.Bool().Draw(t, "srih"),
		P2PSig:    rapid.Bool().Draw(t, "p2psig"),
		HFStagger: rapid.IntRange(0, 3).Draw(t, "hfstagger") == 0,
	}
	mode := rapid.SampledFrom([]string{"archival", "archival", "archival", "archival", "gc", "gc", "gc", "gc", "latest"}).Draw(t, "mode")
	c.Node.Backend = rapid.SampledFrom([]string{"mem", "mem", "mem", "mem", "mem", "mem", "mem", "mem", "mem", "bolt", "leveldb"}).Draw(t, "backend")
	switch mode {
	case "gc":
		c.Node.RemoveUntraceable = true
		c.Node.GCPeriod = uint32(rapid.IntRange(1, 3).Draw(t, "gcp"))
		c.Chain.MTB = uint32(rapid.IntRange(4, 10).Draw(t, "mtb"))
	case "latest":
		c.Node.KeepOnlyLatest = true
		if rapid.Bool().Draw(t, "latest_gc") {
			c.Node.RemoveUntraceable = true
			c.Node.GCPeriod = uint32(rapid.IntRange(1, 3).Draw(t, "gcp"))
			c.Chain.MTB = uint32(rapid.IntRange(4, 10).Draw(t, "mtb"))
		}
	default:
		if rapid.IntRange(0, 2).Draw(t, "small_mtb") == 0 {
			c.Chain.MTB = uint32(rapid.IntRange(4, 30).Draw(t, "mtb"))
		}
	}
	c.Node.SaveStorageBatch = rapid.IntRange(0, 7).Draw(t, "ssb") == 0
	c.Node.NoVerifyTx = rapid.IntRange(0, 7).Draw(t, "noverify") == 0

	bias := ck.GenBias{Storage: 8, Faults: 2, Value: 1, Governance: 1, Attrs: 5, P2PSig: c.Chain.P2PSig, Oracle: 2, Notary: 1}
	n := rapid.IntRange(3, 30).Draw(t, "nblocks")
	for i := 0; i < n; i++ {
		c.Blocks = append(c.Blocks, ck.GenBlock(t, bias, 3))
	}
	roleStory := rapid.SampledFrom([]int{int(noderoles.StateValidator), int(noderoles.Oracle), int(noderoles.NeoFSAlphabet), int(noderoles.P2PNotary)}).Draw(t, "role_story")
	genChurn(t, c.Blocks, roleStory)
	c.Blocks = sanitize(c.Blocks)

	style := rapid.IntRange(0, 3).Draw(t, "sched_style") // 0 never, 1 every block flush+GC tick, 2/3 drawn
	for i := 0; i < n; i++ {
		s := 0
		switch style {
		case 1:
			s = 2
		case 2, 3:
			s = rapid.SampledFrom([]int{0, 0, 1, 2, 2, 2, 3}).Draw(t, "sched")
		}
		c.Sched = append(c.Sched, s)
	}
	nm := rapid.IntRange(1, 2).Draw(t, "nmoments")
	for i := 0; i < nm; i++ {
		m := Moment{After: rapid.IntRange(0, n-1).Draw(t, "m_after"), Pre: rapid.Bool().Draw(t, "m_pre")}
		if i == nm-1 {
			m.After = n - 1
		}
		for j := rapid.IntRange(1, 3).Draw(t, "m_nh"); j > 0; j-- {
			var off int
			switch rapid.IntRange(0, 3).Draw(t, "m_offk") {
			case 0:
				off = rapid.IntRange(0, 2).Draw(t, "m_off")
			case 1, 2:
				off = rapid.IntRange(1, 11).Draw(t, "m_off")
			default:
				off = rapid.IntRange(0, 34).Draw(t, "m_off")
			}
			m.Offs = append(m.Offs, off)
		}
		c.Moments = append(c.Moments, m)
	}
	for i := rapid.IntRange(2, 7).Draw(t, "nkeys"); i > 0; i-- {
		c.Keys = append(c.Keys, genKeySel(t, "k"))
	}
	for i := rapid.IntRange(1, 4).Draw(t, "nfinds"); i > 0; i-- {
		c.Finds = append(c.Finds, FindSel{
			Key:       genKeySel(t, "fk"),
			Cut:       rapid.IntRange(0, 3).Draw(t, "fcut"),
			StartKind: rapid.IntRange(0, 6).Draw(t, "fstart"),
			StartSel:  rapid.IntRange(0, 50).Draw(t, "fstartsel"),
			StartRaw:  ck.GenStorageKey(t, "fstartraw"),
			Max:       rapid.IntRange(1, 6).Draw(t, "fmax"),
		})
	}
	c.Scripts = append(c.Scripts, ScriptSel{Kind: "roles", Role: roleStory})
	for i := rapid.IntRange(1, 4).Draw(t, "nscripts"); i > 0; i-- {
		c.Scripts = append(c.Scripts, genScriptSel(t, roleStory))
	}
	c.Page = rapid.IntRange(1, 5).Draw(t, "page")
	for i := rapid.IntRange(1, 3).Draw(t, "nmix"); i > 0; i-- {
		c.Mix = append(c.Mix, rapid.IntRange(0, 400).Draw(t, "mix"))
	}
	return c
}

// ---- snapshots ---------------------------------------------------------------------------------------------

func mod(a, n int) int {
	if n <= 0 {
		return 0
	}
	return ((a % n) + n) % n
}

func trieKey(id int32, key []byte) []byte {
	k := make([]byte, 4+len(key))
	binary.LittleEndian.PutUint32(k, uint32(id))
	copy(k[4:], key)
	return k
}

func idOf(k []byte) int32 { return int32(binary.LittleEndian.Uint32(k)) }

// snap is the flat storage of one height in trie-key form (4-byte LE contract id ++ key), taken live with SeekStorage.
type snap struct {
	h     uint32
	root  util.Uint256
	m     map[string][]byte
	keys  []string // sorted
	ckeys []string // sorted, deployed contracts only (id > 0)
	grave []string // sorted, present at some earlier height and absent now
	ids   []int32  // contract ids owning at least one key
}

// takeSnap converts chainkit.StorageMap ("<id>/<hex key>" -> value) into trie keys.
func takeSnap(bc *core.Blockchain, h uint32, seen map[string]struct{}) (*snap, error) {
	flat := ck.StorageMap(bc)
	s := &snap{h: h, m: make(map[string][]byte, len(flat))}
	for k, v := range flat {
		i := strings.IndexByte(k, '/')
		if i < 0 {
			return nil, fmt.Errorf("harness: bad StorageMap key %q", k)
		}
		id, err := strconv.Atoi(k[:i])
		if err != nil {
			return nil, fmt.Errorf("harness: bad StorageMap key %q", k)
		}
		kb, err := hex.DecodeString(k[i+1:])
		if err != nil {
			return nil, fmt.Errorf("harness: bad StorageMap key %q", k)
		}
		s.m[string(trieKey(int32(id), kb))] = v
	}
	idset := map[int32]struct{}{}
	for k := range s.m {
		s.keys = append(s.keys, k)
		idset[idOf([]byte(k))] = struct{}{}
	}
	sort.Strings(s.keys)
	for _, k := range s.keys {
		if idOf([]byte(k)) > 0 {
			s.ckeys = append(s.ckeys, k)
		}
	}
	for id := range idset {
		s.ids = append(s.ids, id)
	}
	sort.Slice(s.ids, func(i, j int) bool { return s.ids[i] < s.ids[j] })
	for k := range seen {
		if _, ok := s.m[k]; !ok {
			s.grave = append(s.grave, k)
		}
	}
	sort.Strings(s.grave)
	sr, err := bc.GetStateModule().GetStateRoot(h)
	if err != nil {
		return nil, fmt.Errorf("reference node has no state root for its own height %d: %v", h, err)
	}
	s.root = sr.Root
	return s, nil
}

func (s *snap) base(k KeySel) []byte {
	pool := s.ckeys
	if k.Pool == 1 || len(pool) == 0 {
		pool = s.keys
	}
	if len(pool) == 0 {
		return trieKey(1, nil)
	}
	return []byte(pool[mod(k.Sel, len(pool))])
}

// resolve turns a selector into a concrete trie key (always at least 4 bytes: every production caller prepends the id).
func (s *snap) resolve(k KeySel) []byte {
	// Queries stay inside the key space of the trie (4-byte id + at most 64 bytes): longer paths are refused by
	// the API as invalid input, which is not what this check is about.
	if b := s.resolve0(k); len(b) <= mpt.MaxKeyLength {
		return b
	} else {
		return b[:mpt.MaxKeyLength]
	}
}

func (s *snap) resolve0(k KeySel) []byte {
	b := bytes.Clone(s.base(k))
	raw := func() []byte { return trieKey(int32(mod(k.ID, 4)+1), k.Raw) }
	switch k.Mut {
	case mutPresent:
		return b
	case mutDeleted:
		if len(s.grave) > 0 {
			return []byte(s.grave[mod(k.Sel, len(s.grave))])
		}
		return raw()
	case mutNibble:
		pos := mod(k.Pos/4, 2*len(b))
		if len(b) > 4 && k.Pos%4 != 0 {
			pos = 8 + mod(k.Pos/4, 2*(len(b)-4))
		}
		old := b[pos/2] >> 4
		if pos%2 == 1 {
			old = b[pos/2] & 0x0f
		}
		nw := (old + 1 + byte(mod(k.Nib, 15))) % 16
		if pos%2 == 0 {
			b[pos/2] = b[pos/2]&0x0f | nw<<4
		} else {
			b[pos/2] = b[pos/2]&0xf0 | nw
		}
		return b
	case mutPrefix:
		if len(b) > 4 {
			return b[:4+mod(k.Pos, len(b)-4)]
		}
		fallthrough
	case mutExtend:
		b = append(b, alphabet[mod(k.Nib, len(alphabet))])
		if k.Pos%2 == 1 {
			b = append(b, alphabet[mod(k.Nib/len(alphabet), len(alphabet))])
		}
		return b
	case mutOtherID:
		cands := append(append([]int32{}, s.ids...), 99, -99)
		cur := idOf(b)
		id := cands[mod(k.ID, len(cands))]
		if id == cur {
			id = cands[mod(k.ID+1, len(cands))]
		}
		binary.LittleEndian.PutUint32(b, uint32(id))
		return b
	default:
		return raw()
	}
}

type kv struct{ k, v []byte }

// filter returns the pairs of S_h whose key starts with prefix, in key order.
func (s *snap) filter(prefix []byte) []kv {
	p := string(prefix)
	i := sort.SearchStrings(s.keys, p)
	var out []kv
	for ; i < len(s.keys) && strings.HasPrefix(s.keys[i], p); i++ {
		out = append(out, kv{[]byte(s.keys[i]), s.m[s.keys[i]]})
	}
	return out
}

func sameKVs(got, want []kv) string {
	for i := 0; i < len(got) || i < len(want); i++ {
		switch {
		case i >= len(got):
			return fmt.Sprintf("item %d missing: want %x=%x (got %d items, want %d)", i, want[i].k, want[i].v, len(got), len(want))
		case i >= len(want):
			return fmt.Sprintf("extra item %d: got %x=%x (got %d items, want %d)", i, got[i].k, got[i].v, len(got), len(want))
		case !bytes.Equal(got[i].k, want[i].k) || !bytes.Equal(got[i].v, want[i].v):
			return fmt.Sprintf("item %d: got %x=%x, want %x=%x", i, got[i].k, got[i].v, want[i].k, want[i].v)
		}
	}
	return ""
}

// ---- read-only scripts -------------------------------------------------------------------------------------

type vmResult struct {
	state string
	gas   int64
	stack string
	fault string
}

func (r vmResult) String() string {
	return fmt.Sprintf("%s gas=%d stack=%s fault=%q", r.state, r.gas, r.stack, r.fault)
}

const gasLimit = 20_0000_0000

func probeTx(script []byte, h uint32) *transaction.Transaction {
	tx := transaction.New(script, 0)
	tx.Nonce = 0x0c03
	tx.ValidUntilBlock = h + 2
	tx.Signers = []transaction.Signer{{Account: ck.Accounts[0].Hash, Scopes: transaction.None}}
	tx.Scripts = []transaction.Witness{{InvocationScript: []byte{}, VerificationScript: []byte{}}}
	return tx
}

// runIC runs the script the way rpcsrv's runScriptInVM does and renders the outcome.
func runIC(ic *interop.Context, script []byte) vmResult {
	defer ic.Finalize()
	ic.VM.SetGasLimit(gasLimit)
	ic.VM.LoadScriptWithFlags(script, callflag.All)
	err := ic.VM.Run()
	r := vmResult{state: ic.VM.State().String(), gas: ic.VM.GasConsumed()}
	if err != nil {
		r.fault = err.Error()
		if i := strings.IndexByte(r.fault, '\n'); i >= 0 {
			r.fault = r.fault[:i]
		}
	}
	var sb strings.Builder
	render := func(items []stackitem.Item) {
		for _, it := range items {
			b, jerr := stackitem.ToJSONWithTypes(it)
			if jerr != nil {
				fmt.Fprintf(&sb, "<%s:%v>", it.Type(), jerr)
				continue
			}
			sb.Write(b)
			sb.WriteByte(' ')
		}
	}
	render(ic.VM.Estack().ToArray())
	if err != nil {
		// After a fault the current evaluation stack is the faulting context's one; the results of the calls
		// completed before it are on the outer contexts' stacks. They are part of what was read, keep them.
		for _, ctx := range ic.VM.Istack() {
			sb.WriteString("| ")
			render(ctx.Estack().ToArray())
		}
	}
	r.stack = sb.String()
	return r
}

func clipHex(b []byte) string {
	if len(b) > 96 {
		return fmt.Sprintf("%x...(%d bytes, full script in the replay case)", b[:96], len(b))
	}
	return fmt.Sprintf("%x", b)
}

// diffResults describes the first difference between a historic and a live result.
func diffResults(hist, live vmResult) string {
	if hist.state != live.state || hist.gas != live.gas {
		return fmt.Sprintf("historic %s gas=%d fault=%q, live %s gas=%d fault=%q", hist.state, hist.gas, hist.fault, live.state, live.gas, live.fault)
	}
	a, b := hist.stack, live.stack
	i := 0
	for i < len(a) && i < len(b) && a[i] == b[i] {
		i++
	}
	from := max(0, i-120)
	clip := func(s string) string {
		s = s[from:]
		if len(s) > 400 {
			s = s[:400] + "..."
		}
		return s
	}
	return fmt.Sprintf("same state %s and gas %d, stacks differ at byte %d: historic ...%s vs live ...%s", hist.state, hist.gas, i, clip(a), clip(b))
}

func same(a, b vmResult) bool { return a.state == b.state && a.gas == b.gas && a.stack == b.stack }

// buildScript resolves a script selector against the reference node standing at height sn.h.
func buildScript(b *ck.Builder, sn *snap, s ScriptSel, p2psig bool) []byte {
	w := io.NewBufBinWriter()
	call := func(h util.Uint160, m string, args ...any) {
		emit.AppCall(w.BinWriter, h, m, callflag.ReadOnly, args...)
	}
	bc := b.N.BC
	deployedByID := func(id int32) (util.Uint160, bool) {
		for _, d := range b.Deployed {
			if cs := bc.GetContractState(d.Hash); cs != nil && cs.ID == id {
				return d.Hash, true
			}
		}
		return util.Uint160{}, false
	}
	party := func(p int) util.Uint160 { return b.PartyHash(mod(p, ck.NParties)) }
	dep := func(i int) util.Uint160 {
		if len(b.Deployed) == 0 { // genesis: nothing deployed yet, the call faults (identically on both sides)
			return util.Uint160{1, 2, 3}
		}
		return b.Deployed[mod(i, len(b.Deployed))].Hash
	}
	switch s.Kind {
	case "kget", "kfind":
		key := sn.resolve(s.Key)
		h, ok := deployedByID(idOf(key))
		if !ok {
			h = dep(s.C)
		}
		tail := key[4:]
		if s.Kind == "kget" {
			call(h, "get", tail)
		} else {
			pre := tail[:mod(s.Cut, len(tail)+1)]
			if s.Opts&0x38 != 0 && s.Cut%2 == 0 {
				pre = []byte("s") // the family of serialised pairs
			}
			call(h, "find", pre, s.Opts)
		}
	case "roles": // every valid index: 0 .. height+1 (the persisting block counts)
		for i := int64(0); i <= int64(sn.h)+1; i++ {
			call(nativehashes.RoleManagement, "getDesignatedByRole", int64(s.Role), i)
		}
	case "rolebad": // index beyond height+1 or an invalid role: faults
		if s.C%2 == 0 {
			call(nativehashes.RoleManagement, "getDesignatedByRole", int64(s.Role), int64(sn.h)+2+int64(s.C))
		} else {
			call(nativehashes.RoleManagement, "getDesignatedByRole", int64(1), int64(sn.h))
		}
	case "neo":
		neo := nativehashes.NeoToken
		call(neo, "balanceOf", party(s.Party))
		call(neo, "getAccountState", party(s.Party))
		call(neo, "unclaimedGas", party(s.Party), int64(sn.h)+1)
		call(neo, "getCandidates")
		call(neo, "getCommittee")
		call(neo, "getNextBlockValidators")
		call(neo, "getGasPerBlock")
		call(neo, "getRegisterPrice")
		call(nativehashes.GasToken, "balanceOf", party(s.Party))
		call(nativehashes.GasToken, "totalSupply")
	case "policy":
		pol := nativehashes.PolicyContract
		for _, m := range []string{"getFeePerByte", "getExecFeeFactor", "getStoragePrice", "getMaxValidUntilBlockIncrement", "getMaxTraceableBlocks"} {
			call(pol, m)
		}
		call(pol, "isBlocked", party(s.Party))
		for _, a := range []int64{int64(transaction.HighPriority), int64(transaction.NotValidBeforeT), int64(transaction.ConflictsT), int64(transaction.NotaryAssistedT)} {
			call(pol, "getAttributeFee", a)
		}
	case "ledger": // what the chain itself answers about its blocks and transactions at that height
		lg := nativehashes.LedgerContract
		call(lg, "currentIndex")
		call(lg, "currentHash")
		call(lg, "getBlock", int64(sn.h))
		if len(b.TxHashes) > 0 {
			th := b.TxHashes[mod(s.C*7+s.Party, len(b.TxHashes))]
			call(lg, "getTransactionHeight", th)
			call(lg, "getTransactionVMState", th)
			call(lg, "getTransaction", th)
		}
	case "mgmt":
		mg := nativehashes.ContractManagement
		call(mg, "getContract", dep(s.C))
		call(mg, "getContractById", int64(mod(s.C, 6)+1))
		call(mg, "hasMethod", dep(s.C), "put", int64(2))
		call(mg, "getMinimumDeploymentFee")
		call(mg, "getContract", nativehashes.PolicyContract)
	default: // "bundle": chainkit's full getter scripts
		var hs []util.Uint160
		for _, d := range b.Deployed {
			hs = append(hs, d.Hash)
		}
		w.WriteBytes(ck.GetterScript(hs))
		w.WriteBytes(ck.HeightScript(sn.h, p2psig))
	}
	if w.Err != nil {
		panic(w.Err)
	}
	return w.Bytes()
}

type recorded struct {
	sel    ScriptSel
	script []byte
	live   vmResult
}

// ---- check -------------------------------------------------------------------------------------------------

// plan resolves the probed heights of every moment (pure function of the case).
type planned struct {
	gi  int // index of the generated block after which the moment happens
	pre bool
	hs  []uint32
}

const bootBlocks = 2

func plan(c Case, nblocks int) ([]planned, map[uint32]bool) {
	need := map[uint32]bool{}
	var out []planned
	for i, m := range c.Moments {
		gi := mod(m.After, nblocks)
		if i == len(c.Moments)-1 {
			gi = nblocks - 1
		}
		cur := uint32(bootBlocks + gi + 1)
		p := planned{gi: gi, pre: m.Pre}
		seen := map[uint32]bool{}
		for _, off := range m.Offs {
			h := cur - uint32(mod(off, int(cur)+1))
			if h == 1 { // block 1 and 2 are built by Bootstrap in one go: no snapshot of height 1
				h = 2
			}
			if !seen[h] {
				seen[h] = true
				p.hs = append(p.hs, h)
				need[h] = true
			}
		}
		out = append(out, p)
	}
	return out, need
}

// Keys of known_findings.json entries this check knows how to step around.
const (
	kfHardforkHeight = "historic-vm-at-hardfork-height"
	kfBelowMTB       = "historic-vm-gc-node-below-mtb"
	kfGCInactive     = "historic-vm-gc-node-inactive-nodes"
)

type env struct {
	c     Case
	hfAt  map[uint32]bool // activation heights (> 0) of hardforks
	o     *vt.Obs
	snaps map[uint32]*snap
	recs  map[uint32][]recorded
	// classification
	nearMiss, historic, paged, nonRetained, rolesDeep bool
}

func nextContractID(bc *core.Blockchain) int64 {
	si := bc.GetStorageItem(nativeids.ContractManagement, []byte{15})
	if si == nil {
		return 0
	}
	return bigint.FromBytes(si).Int64()
}

func checkCase(c Case, o *vt.Obs) error {
	c.Blocks = sanitize(c.Blocks)
	if len(c.Blocks) == 0 || len(c.Moments) == 0 {
		return nil
	}
	b, err := ck.NewBuilder(c.Chain)
	if err != nil {
		return fmt.Errorf("harness: builder: %v", err)
	}
	defer b.Close()
	e := &env{c: c, o: o, snaps: map[uint32]*snap{}, recs: map[uint32][]recorded{}, hfAt: map[uint32]bool{}}
	for _, h := range c.Chain.Blockchain(c.Node).Hardforks {
		if h > 0 {
			e.hfAt[h] = true
		}
	}
	seen := map[string]struct{}{}
	record := func(h uint32, need bool) error {
		sn, err := takeSnap(b.N.BC, h, seen)
		if err != nil {
			return err
		}
		// The root of height h against an independent MPT implementation applied to the flat storage:
		// nothing missing, nothing extra, in one comparison.
		if got, want := mptref.Hash(sn.root), mptref.Root(sn.m); got != want {
			return fmt.Errorf("state root of height %d is %x but the flat contract storage after block %d (%d items) has the reference MPT root %x", h, got[:], h, len(sn.m), want[:])
		}
		for k := range sn.m {
			seen[k] = struct{}{}
		}
		e.snaps[h] = sn
		if need {
			for _, s := range c.Scripts {
				script := buildScript(b, sn, s, c.Chain.P2PSig)
				ic, err := b.N.BC.GetTestVM(trigger.Application, probeTx(script, h), nil)
				if err != nil {
					return fmt.Errorf("harness: GetTestVM on the reference node at height %d: %v", h, err)
				}
				e.recs[h] = append(e.recs[h], recorded{sel: s, script: script, live: runIC(ic, script)})
			}
		}
		return nil
	}
	plans, need := plan(c, len(c.Blocks))
	if err := record(0, need[0]); err != nil {
		return err
	}
	boot, err := b.Bootstrap()
	if err != nil {
		return fmt.Errorf("harness: bootstrap: %v", err)
	}
	if err := record(bootBlocks, need[bootBlocks]); err != nil {
		return err
	}
	raws := append([][]byte{}, boot...)
	recreate, destroyed := false, false
	alive := map[util.Uint160]bool{}
	for _, d := range b.Deployed {
		alive[d.Hash] = true
	}
	built := 0
	for i, spec := range c.Blocks {
		raw, blk, err := b.BuildBlock(spec)
		if err != nil {
			// Not a statement about C03: the history simply ends here.
			o.Label("history-truncated")
			break
		}
		if nextContractID(b.N.BC) > ck.MaxContractID {
			o.Label("history-truncated")
			break // StorageMap would not see the next contract
		}
		raws = append(raws, raw)
		built = i + 1
		h := blk.Index
		if err := record(h, need[h]); err != nil {
			return err
		}
		// Classification from observations: a key that was present, then absent, is present again; a contract gone.
		if cur, prev := e.snaps[h], e.snaps[h-1]; !recreate && prev != nil {
			for _, k := range prev.grave {
				if _, ok := cur.m[k]; ok {
					recreate = true
					break
				}
			}
		}
		for _, d := range b.Deployed {
			st := b.N.BC.GetContractState(d.Hash) != nil
			if alive[d.Hash] && !st {
				destroyed = true
			}
			alive[d.Hash] = st
		}
	}
	if built == 0 {
		return nil
	}
	if built != len(c.Blocks) {
		plans, _ = plan(c, built) // probed heights stay within the recorded ones; scripts may lack a record (skipped)
	}

	n, err := ck.NewNode(c.Chain, c.Node, nil)
	if err != nil {
		return fmt.Errorf("harness: replica cannot start: %v", err)
	}
	defer n.Close()
	for pi, raw := range raws {
		gi := pi - bootBlocks
		blk, err := ck.DecodeBlock(raw, c.Chain.SRIH)
		if err != nil {
			return fmt.Errorf("harness: decode block %d: %v", pi+1, err)
		}
		if err := n.BC.AddBlock(blk); err != nil {
			return fmt.Errorf("harness: replica (%+v) rejects block %d accepted by the builder: %v", c.Node, blk.Index, err)
		}
		if gi < 0 {
			continue
		}
		for _, p := range plans {
			if p.gi == gi && p.pre {
				if err := e.moment(n, p); err != nil {
					return err
				}
			}
		}
		s := 0
		if gi < len(c.Sched) {
			s = c.Sched[gi]
		}
		switch s {
		case 1:
			err = n.BC.VerifPersist()
		case 2:
			err = n.BC.VerifPersistAndGC()
		case 3:
			if err = n.BC.VerifPersist(); err == nil {
				err = n.Restart()
			}
		}
		if err != nil {
			return fmt.Errorf("harness: replica flush/GC/restart (%d) after block %d: %v", s, blk.Index, err)
		}
		for _, p := range plans {
			if p.gi == gi && !p.pre {
				if err := e.moment(n, p); err != nil {
					return err
				}
			}
		}
	}

	if recreate {
		o.Label("delete-then-recreate")
	}
	if destroyed {
		o.Label("destroy")
	}
	if e.nearMiss {
		o.Label("absent-near-miss-probe")
	}
	if e.historic {
		o.Label("historic-invocation-compared")
	}
	if e.paged {
		o.Label("paging-continued")
	}
	if e.rolesDeep {
		o.Label("historic-role-lookup-below-latest-designation")
	}
	switch {
	case c.Node.KeepOnlyLatest:
		o.Label("latest-mode")
	case c.Node.RemoveUntraceable:
		o.Label("gc-mode")
	default:
		o.Label("archival-mode")
	}
	if e.nonRetained {
		o.Label("gc-nonretained-height-probed")
	}
	for _, l := range b.FlowLabels() {
		o.Label(l)
	}
	for k, v := range b.Rejected {
		if v > 0 {
			o.Label("rejected/" + k)
		}
	}
	if (recreate || destroyed) && e.nearMiss {
		o.NonTrivial()
	}
	return nil
}

// moment questions the replica (standing at its current height) about the planned heights.
func (e *env) moment(n *ck.Node, p planned) error {
	cur := n.BC.BlockHeight()
	for _, h := range p.hs {
		sn := e.snaps[h]
		if sn == nil || h > cur {
			continue
		}
		where := fmt.Sprintf("replica %+v at height %d about height %d (root %s)", e.c.Node, cur, h, sn.root.StringBE())
		switch {
		case e.c.Node.KeepOnlyLatest:
			// Only the latest root is served (rpcsrv getStateRootFromParam); historic invocations are refused by contract.
			for _, r := range e.recs[h] {
				if ic, err := n.BC.GetTestHistoricVM(trigger.Application, probeTx(r.script, h), h+1); err == nil {
					ic.Finalize()
					return fmt.Errorf("%s: GetTestHistoricVM succeeded on a KeepOnlyLatestState node", where)
				}
				e.o.Units(1)
			}
			if h == cur {
				if err := e.stateReads(n, sn, where, true); err != nil {
					return err
				}
			}
		case e.c.Node.RemoveUntraceable && uint64(h)+uint64(n.BC.GetMaxTraceableBlocks()) < uint64(cur):
			// Below the retained window: answers may be errors, but never different data.
			e.nonRetained = true
			if err := e.lenient(n, sn, cur, where); err != nil {
				return err
			}
		default:
			if err := e.stateReads(n, sn, where, false); err != nil {
				return err
			}
			strict := true
			if e.c.Node.RemoveUntraceable && len(e.recs[h]) > 0 {
				// Listed findings about GetTestHistoricVM on RemoveUntraceableBlocks nodes: with them listed the
				// clause degrades to "an error or the same data" for the affected shapes.
				if h < cur && vt.Known(kfGCInactive) {
					strict = false
				}
				if cur < n.BC.GetMaxTraceableBlocks() && vt.Known(kfBelowMTB) {
					strict = false
				}
				if !strict {
					e.o.Excluded()
				}
			}
			if err := e.historicCalls(n, sn, cur, where, strict); err != nil {
				return err
			}
		}
	}
	return nil
}

// page reads everything under prefix through FindStates the way an rpcsrv findstates client does: ask for
// count items (the server asks the module for count+1 to detect truncation), continue from the last key.
func page(mod_ core.StateRoot, root util.Uint256, prefix []byte, count int, limit int) ([]kv, int, error) {
	var (
		out   []kv
		from  []byte
		calls int
	)
	for {
		calls++
		if calls > limit {
			return out, calls, fmt.Errorf("paging does not terminate after %d calls", calls)
		}
		kvs, err := mod_.FindStates(root, prefix, from, count+1)
		if err != nil && !errors.Is(err, mpt.ErrNotFound) {
			return out, calls, fmt.Errorf("call %d (from=%x): %v", calls, from, err)
		}
		truncated := len(kvs) == count+1
		if truncated {
			kvs = kvs[:count]
		}
		for _, x := range kvs {
			out = append(out, kv{x.Key, x.Value})
		}
		if !truncated {
			return out, calls, nil
		}
		last := kvs[len(kvs)-1].Key
		if !bytes.HasPrefix(last, prefix) {
			return out, calls, fmt.Errorf("call %d returned key %x outside prefix %x", calls, last, prefix)
		}
		from = append([]byte{}, last[len(prefix):]...) // empty but non-nil after the item equal to the prefix
	}
}

func findExpect(sn *snap, prefix, start []byte, max int) []kv {
	var out []kv
	for _, x := range sn.filter(prefix) {
		if start != nil && bytes.Compare(x.k[len(prefix):], start) <= 0 {
			continue
		}
		out = append(out, x)
		if len(out) == max {
			break
		}
	}
	return out
}

// stateReads: clauses (i)-(iv) against the stateroot module of the replica.
func (e *env) stateReads(n *ck.Node, sn *snap, where string, latestOnly bool) error {
	sm := n.BC.GetStateModule()
	root := sn.root
	if sr, err := sm.GetStateRoot(sn.h); err != nil || sr.Root != root {
		return fmt.Errorf("%s: replica's GetStateRoot(%d) = %v, %v", where, sn.h, sr, err)
	}
	// (i) full ordered scans per contract id: SeekStates and FindStates paging.
	ids := append(append([]int32{}, sn.ids...), 77)
	for _, id := range ids {
		prefix := trieKey(id, nil)
		want := sn.filter(prefix)
		var got []kv
		sm.SeekStates(root, prefix, func(k, v []byte) bool {
			got = append(got, kv{append(append([]byte{}, prefix...), k...), bytes.Clone(v)})
			return true
		})
		if d := sameKVs(got, want); d != "" {
			return fmt.Errorf("%s: SeekStates(contract id %d) differs from the storage recorded at that height: %s", where, id, d)
		}
		pg, calls, err := page(sm, root, prefix, e.c.Page, len(want)+3)
		if err != nil {
			return fmt.Errorf("%s: FindStates paging (contract id %d, page %d): %v", where, id, e.c.Page, err)
		}
		if d := sameKVs(pg, want); d != "" {
			return fmt.Errorf("%s: FindStates paging (contract id %d, page %d, %d calls) differs from the storage recorded at that height: %s", where, id, e.c.Page, calls, d)
		}
		if calls > 1 {
			e.paged = true
		}
		e.o.Units(1 + calls)
	}
	// (ii) + (iv) keys.
	var mix [][]byte
	for _, m := range e.c.Mix {
		if len(sn.keys) > 0 {
			k := []byte(sn.keys[mod(m, len(sn.keys))])
			if p, err := sm.GetStateProof(root, k); err == nil {
				mix = append(mix, p...)
			}
		}
	}
	for _, ks := range e.c.Keys {
		key := sn.resolve(ks)
		want, present := sn.m[string(key)]
		base := sn.base(ks)
		got, err := sm.GetState(root, key)
		proof, perr := sm.GetStateProof(root, key)
		e.o.Units(1)
		// Foreign material: proofs of other present keys, of the selector's base key, of the same key at another height.
		foreign := append([][]byte{}, mix...)
		if !bytes.Equal(base, key) {
			if p, err := sm.GetStateProof(root, base); err == nil {
				foreign = append(foreign, p...)
			}
		}
		if !latestOnly {
			for _, oh := range []uint32{sn.h - 1, sn.h + 1, 2} {
				if os := e.snaps[oh]; os != nil && oh != sn.h && oh <= n.BC.BlockHeight() && e.retained(n, oh) {
					if p, err := sm.GetStateProof(os.root, key); err == nil {
						foreign = append(foreign, p...)
					}
				}
			}
		}
		if present {
			if err != nil {
				return fmt.Errorf("%s: GetState(%x) fails (%v) but the key held %x at that height", where, key, err, want)
			}
			if !bytes.Equal(got, want) {
				return fmt.Errorf("%s: GetState(%x) = %x but the key held %x at that height", where, key, got, want)
			}
			if perr != nil {
				return fmt.Errorf("%s: GetStateProof(%x) fails (%v) for a stored key", where, key, perr)
			}
			v, ok := mpt.VerifyProof(root, key, proof)
			if !ok || !bytes.Equal(v, want) {
				return fmt.Errorf("%s: the proof produced for stored key %x verifies to (%x, %v), stored value is %x", where, key, v, ok, want)
			}
			if v, ok := mpt.VerifyProof(root, key, foreign); ok && !bytes.Equal(v, want) {
				return fmt.Errorf("%s: a proof list assembled from other keys' proofs verifies key %x to %x, stored value is %x", where, key, v, want)
			}
		} else {
			e.nearMiss = e.nearMiss || ks.Mut != mutPresent
			if err == nil {
				return fmt.Errorf("%s: GetState(%x) = %x but the key was absent at that height", where, key, got)
			}
			if perr == nil {
				return fmt.Errorf("%s: GetStateProof(%x) produced a proof (%d nodes) for a key absent at that height", where, key, len(proof))
			}
			if v, ok := mpt.VerifyProof(root, key, proof); ok {
				return fmt.Errorf("%s: the partial proof returned with the error verifies absent key %x to %x", where, key, v)
			}
			if v, ok := mpt.VerifyProof(root, key, foreign); ok {
				return fmt.Errorf("%s: a proof list assembled from other keys' proofs (base %x) verifies absent key %x to %x", where, base, key, v)
			}
		}
	}
	// (iii) FindStates with prefix / start / max and SeekStates with the same prefix.
	for _, f := range e.c.Finds {
		key := sn.resolve(f.Key)
		prefix := key[:4+mod(f.Cut, len(key)-4+1)]
		under := sn.filter(prefix)
		var start []byte
		pick := func() []byte {
			if len(under) == 0 {
				return append([]byte{}, f.StartRaw...)
			}
			return append([]byte{}, under[mod(f.StartSel, len(under))].k[len(prefix):]...)
		}
		switch f.StartKind {
		case 0:
			start = nil
		case 1:
			start = []byte{}
		case 2:
			start = pick()
		case 3:
			start = pick()
			if len(start) > 0 {
				start = start[:len(start)-1]
			}
		case 4:
			start = append(pick(), alphabet[mod(f.StartSel, len(alphabet))])
		case 5:
			start = pick()
			if len(start) > 0 {
				start[len(start)-1] ^= byte(1 + mod(f.StartSel, 15))
			}
		default:
			start = append([]byte{}, f.StartRaw...)
		}
		if len(prefix)+len(start) > mpt.MaxKeyLength {
			start = start[:mpt.MaxKeyLength-len(prefix)] // a longer start is refused as invalid input
		}
		want := findExpect(sn, prefix, start, f.Max)
		kvs, err := sm.FindStates(root, prefix, start, f.Max)
		if err != nil && !(errors.Is(err, mpt.ErrNotFound) && len(want) == 0) {
			return fmt.Errorf("%s: FindStates(prefix %x, start %x (nil=%v), max %d) fails: %v (expected %d items)", where, prefix, start, start == nil, f.Max, err, len(want))
		}
		got := make([]kv, 0, len(kvs))
		for _, x := range kvs {
			got = append(got, kv{x.Key, x.Value})
		}
		if d := sameKVs(got, want); d != "" {
			return fmt.Errorf("%s: FindStates(prefix %x, start %x (nil=%v), max %d) differs from the filter of the recorded storage: %s", where, prefix, start, start == nil, f.Max, d)
		}
		var seek []kv
		sm.SeekStates(root, prefix, func(k, v []byte) bool {
			seek = append(seek, kv{append(append([]byte{}, prefix...), k...), bytes.Clone(v)})
			return true
		})
		if d := sameKVs(seek, under); d != "" {
			return fmt.Errorf("%s: SeekStates(prefix %x) differs from the filter of the recorded storage: %s", where, prefix, d)
		}
		if len(want) == 0 || f.StartKind >= 3 {
			e.nearMiss = e.nearMiss || f.Key.Mut != mutPresent
		}
		e.o.Units(2)
	}
	return nil
}

func (e *env) retained(n *ck.Node, h uint32) bool {
	if e.c.Node.KeepOnlyLatest {
		return h == n.BC.BlockHeight()
	}
	if !e.c.Node.RemoveUntraceable {
		return true
	}
	return uint64(h)+uint64(n.BC.GetMaxTraceableBlocks()) >= uint64(n.BC.BlockHeight())
}

// historicCalls: clause (v). strict: the height is retained, the call has to be served.
func (e *env) historicCalls(n *ck.Node, sn *snap, cur uint32, where string, strict bool) error {
	if e.hfAt[sn.h+1] && len(e.recs[sn.h]) > 0 && vt.Known(kfHardforkHeight) {
		// Listed finding: GetTestHistoricVM(a) for a hardfork activation height a > 0 initialises native caches as if
		// block a had already been persisted. The shape is excluded so that the search continues behind it.
		e.o.Excluded()
		return nil
	}
	for _, r := range e.recs[sn.h] {
		ic, err := n.BC.GetTestHistoricVM(trigger.Application, probeTx(r.script, sn.h), sn.h+1)
		e.o.Units(1)
		if err != nil {
			if !strict {
				continue
			}
			return fmt.Errorf("%s: GetTestHistoricVM(%d) refuses a retained height: %v", where, sn.h+1, err)
		}
		got := runIC(ic, r.script)
		if r.sel.Kind == "roles" && len(sn.filter(trieKey(nativeids.RoleManagement, []byte{byte(r.sel.Role)}))) >= 2 {
			e.rolesDeep = true
		}
		if !same(got, r.live) {
			return fmt.Errorf("%s: historic invocation of script %s (%+v) differs from what the live node returned at height %d: %s", where, clipHex(r.script), r.sel, sn.h, diffResults(got, r.live))
		}
		e.historic = true
	}
	return nil
}

// lenient: a GC-mode node below its retained window. Errors are fine, different data is not.
func (e *env) lenient(n *ck.Node, sn *snap, cur uint32, where string) (err error) {
	sm := n.BC.GetStateModule()
	for _, ks := range e.c.Keys {
		key := sn.resolve(ks)
		want, present := sn.m[string(key)]
		got, gerr := sm.GetState(sn.root, key)
		e.o.Units(1)
		if gerr != nil {
			continue
		}
		if !present {
			return fmt.Errorf("%s (below the retained window): GetState(%x) = %x but the key was absent at that height", where, key, got)
		}
		if !bytes.Equal(got, want) {
			return fmt.Errorf("%s (below the retained window): GetState(%x) = %x but the key held %x at that height", where, key, got, want)
		}
	}
	return e.historicCalls(n, sn, cur, where+" (below the retained window)", false)
}

func init() {
	vt.PropertyID = "C03"
	vt.Register("stateroot", 1.0, genCase, checkCase)
}
