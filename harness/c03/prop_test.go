package c03

import (
	"encoding/json"
	"os"
	"path/filepath"
	"strings"
	"testing"

	"verifharness/vt"
)

func TestProp(t *testing.T) {
	if s := os.Getenv("VERIF_SHARD"); s == "" || s == "0" {
		probeKnown(t, KnownHistoricLedger)
	}
	vt.RunAll(t, 250)
}
func TestReplay(t *testing.T) { vt.ReplayAll(t) }

// probeKnown re-confirms a listed finding from its recorded case (the generator does not draw the shape while the
// finding is listed) and prints the KNOWN-FINDING line.
func probeKnown(t *testing.T, key string) {
	if !vt.Known(key) {
		return
	}
	root := os.Getenv("VERIF_ROOT")
	if root == "" {
		root = "/verif"
	}
	raw, err := os.ReadFile(filepath.Join(root, "replays", "C03", "known", key+".json"))
	if err != nil {
		t.Logf("%s: %v", key, err)
		return
	}
	var env struct {
		Case Case `json:"case"`
	}
	if err := json.Unmarshal(raw, &env); err != nil {
		t.Fatal(err)
	}
	cerr := checkCase(env.Case, &vt.Obs{})
	if cerr == nil {
		t.Logf("%s: the recorded case no longer fails (remove the entry from known_findings.json)", key)
		return
	}
	s := cerr.Error()
	if i := strings.Index(s, "differs from what the live node returned"); i >= 0 {
		s = "historic invocation of a script calling Ledger.getTransactionHeight / getTransactionVMState / getTransaction " + s[i:]
	}
	if len(s) > 700 {
		s = s[:700] + "..."
	}
	vt.KnownFinding(key, s)
}
