package c03

import (
	"testing"

	"verifharness/vt"
)

func TestProp(t *testing.T)   { vt.RunAll(t, 250) }
func TestReplay(t *testing.T) { vt.ReplayAll(t) }
