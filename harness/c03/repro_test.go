package c03

import (
	"fmt"
	"os"
	"testing"

	"github.com/nspcc-dev/neo-go/pkg/core/native/nativehashes"
	"github.com/nspcc-dev/neo-go/pkg/io"
	"github.com/nspcc-dev/neo-go/pkg/smartcontract/callflag"
	"github.com/nspcc-dev/neo-go/pkg/smartcontract/trigger"
	"github.com/nspcc-dev/neo-go/pkg/vm/emit"
	ck "verifharness/chainkit"
)

// Standalone reproductions of the defects found by this check on the unchanged tree (run with VERIF_REPRO=1):
//
//	cd /verif/harness/c03 && VERIF_REPRO=1 /verif/bin/c03.test -test.run '^TestRepro' -test.v
//
// Each test FAILS while the defect is present.

func reproChain(t *testing.T, chain ck.ChainCfg, node ck.NodeCfg, empty int) (*ck.Builder, *ck.Node) {
	if os.Getenv("VERIF_REPRO") == "" {
		t.Skip("VERIF_REPRO not set")
	}
	b, err := ck.NewBuilder(chain)
	if err != nil {
		t.Fatal(err)
	}
	t.Cleanup(b.Close)
	raws, err := b.Bootstrap()
	if err != nil {
		t.Fatal(err)
	}
	for i := 0; i < empty; i++ {
		raw, _, err := b.BuildBlock(ck.BlockSpec{TimeD: 1000})
		if err != nil {
			t.Fatal(err)
		}
		raws = append(raws, raw)
	}
	n, err := ck.NewNode(chain, node, nil)
	if err != nil {
		t.Fatal(err)
	}
	t.Cleanup(n.Close)
	for _, raw := range raws {
		blk, err := ck.DecodeBlock(raw, chain.SRIH)
		if err != nil {
			t.Fatal(err)
		}
		if err := n.BC.AddBlock(blk); err != nil {
			t.Fatal(err)
		}
	}
	return b, n
}

func feeScript() []byte {
	w := io.NewBufBinWriter()
	emit.AppCall(w.BinWriter, nativehashes.PolicyContract, "getFeePerByte", callflag.ReadOnly)
	return w.Bytes()
}

func historic(n *ck.Node, h uint32) (res string, err error) {
	defer func() {
		if r := recover(); r != nil {
			err = fmt.Errorf("PANIC: %v", r)
		}
	}()
	script := feeScript()
	ic, err := n.BC.GetTestHistoricVM(trigger.Application, probeTx(script, h), h+1)
	if err != nil {
		return "", err
	}
	return runIC(ic, script).String(), nil
}

func live(n *ck.Node) string {
	script := feeScript()
	ic, err := n.BC.GetTestVM(trigger.Application, probeTx(script, n.BC.BlockHeight()), nil)
	if err != nil {
		return "ERR " + err.Error()
	}
	return runIC(ic, script).String()
}

// A: an archival node; Echidna is scheduled at height 4 (HFStagger). The node stands at height 3 and answers a live
// test invocation (fake block 4); the historic invocation "on top of height 3" (fake block 4) panics inside
// Policy.InitializeCache because it expects the storage items that block 4 itself is going to create.
func TestReproHistoricAtHardforkHeight(t *testing.T) {
	_, n := reproChain(t, ck.ChainCfg{Profile: "V1C1", HFStagger: true}, ck.NodeCfg{Backend: "mem"}, 1)
	t.Logf("hardforks: %v; height %d; live invocation: %s", n.BC.GetConfig().Hardforks, n.BC.BlockHeight(), live(n))
	res, err := historic(n, 3)
	if err != nil {
		t.Fatalf("GetTestHistoricVM(4) at chain height 3: %v", err)
	}
	t.Logf("historic: %s", res)
}

// B: a RemoveUntraceableBlocks node at height 9 with MaxTraceableBlocks 4 (no GC tick has even run): every height
// below the current one is refused although the last 4 are retained by definition; only the current state is served.
func TestReproHistoricOnGCNode(t *testing.T) {
	_, n := reproChain(t, ck.ChainCfg{Profile: "V1C1", MTB: 4}, ck.NodeCfg{Backend: "mem", RemoveUntraceable: true, GCPeriod: 1}, 7)
	cur := n.BC.BlockHeight()
	res, err := historic(n, cur)
	t.Logf("height %d (current): %s %v", cur, res, err)
	for h := cur - 1; h >= cur-3; h-- {
		res, err := historic(n, h)
		if err != nil {
			t.Errorf("GetTestHistoricVM(%d) at chain height %d, MaxTraceableBlocks 4: %v", h+1, cur, err)
			continue
		}
		t.Logf("height %d: %s", h, res)
	}
}

// C: a RemoveUntraceableBlocks node whose chain is shorter than MaxTraceableBlocks refuses every historic invocation,
// the current height included: `b.Index < bc.BlockHeight()-bc.GetMaxTraceableBlocks()` wraps around in uint32.
func TestReproHistoricBelowMTB(t *testing.T) {
	_, n := reproChain(t, ck.ChainCfg{Profile: "V1C1"}, ck.NodeCfg{Backend: "mem", RemoveUntraceable: true, GCPeriod: 1}, 1)
	cur := n.BC.BlockHeight()
	res, err := historic(n, cur)
	if err != nil {
		t.Fatalf("GetTestHistoricVM(%d) at chain height %d, MaxTraceableBlocks %d: %v", cur+1, cur, n.BC.GetMaxTraceableBlocks(), err)
	}
	t.Logf("historic: %s", res)
}
