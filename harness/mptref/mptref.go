// Package mptref is an independent reference implementation of the Neo N3 Merkle-Patricia trie
// *as a function of content*: given a set of key/value pairs it computes the canonical root hash and the
// multiset of nodes, from the invariants stated in pkg/core/mpt/doc.go (no 1-child branch, no empty
// extension key, no extension followed by extension) and the node wire encoding. It shares no code with pkg/core/mpt.
package mptref

import (
	"bytes"
	"crypto/sha256"
	"sort"
)

// Hash is a raw double-SHA256 digest.
type Hash [32]byte

// Node kinds of the wire encoding.
const (
	tBranch    = 0x00
	tExtension = 0x01
	tLeaf      = 0x02
	tHash      = 0x03
	tEmpty     = 0x04
)

// NodeRec is one serialised node of the canonical trie.
type NodeRec struct {
	Hash  Hash
	Bytes []byte // type byte + body, exactly what is hashed and stored
}

type item struct {
	path []byte // nibbles
	val  []byte
}

func dsha(b []byte) Hash {
	a := sha256.Sum256(b)
	return sha256.Sum256(a[:])
}

func varuint(n int) []byte {
	switch {
	case n < 0xfd:
		return []byte{byte(n)}
	case n <= 0xffff:
		return []byte{0xfd, byte(n), byte(n >> 8)}
	default:
		return []byte{0xfe, byte(n), byte(n >> 8), byte(n >> 16), byte(n >> 24)}
	}
}

func nibbles(k []byte) []byte {
	r := make([]byte, 0, 2*len(k))
	for _, b := range k {
		r = append(r, b>>4, b&0x0f)
	}
	return r
}

// Build returns the root hash (zero for empty content) and all nodes (with multiplicity, i.e. one record per occurrence).
func Build(content map[string][]byte) (Hash, []NodeRec) {
	items := make([]item, 0, len(content))
	for k, v := range content {
		items = append(items, item{nibbles([]byte(k)), v})
	}
	sort.Slice(items, func(i, j int) bool { return bytes.Compare(items[i].path, items[j].path) < 0 })
	var out []NodeRec
	h, ok := build(items, &out)
	if !ok {
		return Hash{}, nil
	}
	return h, out
}

// Root is Build without the node list.
func Root(content map[string][]byte) Hash {
	h, _ := Build(content)
	return h
}

func emit(out *[]NodeRec, b []byte) Hash {
	h := dsha(b)
	*out = append(*out, NodeRec{Hash: h, Bytes: b})
	return h
}

func commonPrefix(items []item) int {
	first := items[0].path
	n := len(first)
	for _, it := range items[1:] {
		m := 0
		for m < n && m < len(it.path) && it.path[m] == first[m] {
			m++
		}
		n = m
	}
	return n
}

// build returns the hash of the canonical subtrie for items (paths relative), false when items is empty.
func build(items []item, out *[]NodeRec) (Hash, bool) {
	if len(items) == 0 {
		return Hash{}, false
	}
	if len(items) == 1 && len(items[0].path) == 0 {
		b := append([]byte{tLeaf}, varuint(len(items[0].val))...)
		b = append(b, items[0].val...)
		return emit(out, b), true
	}
	if p := commonPrefix(items); p > 0 {
		key := items[0].path[:p]
		sub := make([]item, len(items))
		for i, it := range items {
			sub[i] = item{it.path[p:], it.val}
		}
		ch, _ := build(sub, out)
		b := append([]byte{tExtension}, varuint(len(key))...)
		b = append(b, key...)
		b = append(b, tHash)
		b = append(b, ch[:]...)
		return emit(out, b), true
	}
	// >= 2 items, no common prefix: branch.
	var groups [17][]item
	for _, it := range items {
		if len(it.path) == 0 {
			groups[16] = append(groups[16], it)
		} else {
			groups[it.path[0]] = append(groups[it.path[0]], item{it.path[1:], it.val})
		}
	}
	b := []byte{tBranch}
	for i := 0; i < 17; i++ {
		ch, ok := build(groups[i], out)
		if !ok {
			b = append(b, tEmpty)
			continue
		}
		b = append(b, tHash)
		b = append(b, ch[:]...)
	}
	return emit(out, b), true
}

// Multiset folds a node list into hash -> (bytes, count).
func Multiset(nodes []NodeRec) map[Hash]int {
	m := make(map[Hash]int, len(nodes))
	for _, n := range nodes {
		m[n.Hash]++
	}
	return m
}
