package c05

import (
	"testing"

	"verifharness/vt"
)

func TestProp(t *testing.T)   { vt.RunAll(t, 300) }
func TestReplay(t *testing.T) { vt.ReplayAll(t) }
