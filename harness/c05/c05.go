// Package c05 checks property C05: native token supply and governance accounting are conserved.
//
// After EVERY block of a generated history (genesis and the two bootstrap blocks included) the raw storage of
// the NEO, GAS and Notary contracts is decoded and the conservation equalities of the property are evaluated;
// the change of every balance over the block is compared with the Transfer events of the block's successful
// executions (OnPersist, HALTed transactions, PostPersist).
package c05

import (
	"crypto/elliptic"
	"encoding/json"
	"errors"
	"fmt"
	"math/big"
	"sort"
	"strings"
	"sync"

	"github.com/nspcc-dev/neo-go/pkg/core"
	"github.com/nspcc-dev/neo-go/pkg/core/block"
	"github.com/nspcc-dev/neo-go/pkg/core/fee"
	"github.com/nspcc-dev/neo-go/pkg/core/native/nativehashes"
	"github.com/nspcc-dev/neo-go/pkg/core/native/nativeids"
	"github.com/nspcc-dev/neo-go/pkg/core/native/noderoles"
	"github.com/nspcc-dev/neo-go/pkg/core/state"
	"github.com/nspcc-dev/neo-go/pkg/core/transaction"
	"github.com/nspcc-dev/neo-go/pkg/crypto/keys"
	"github.com/nspcc-dev/neo-go/pkg/encoding/bigint"
	"github.com/nspcc-dev/neo-go/pkg/io"
	"github.com/nspcc-dev/neo-go/pkg/smartcontract/callflag"
	"github.com/nspcc-dev/neo-go/pkg/smartcontract/trigger"
	"github.com/nspcc-dev/neo-go/pkg/util"
	"github.com/nspcc-dev/neo-go/pkg/vm/emit"
	"github.com/nspcc-dev/neo-go/pkg/vm/opcode"
	"github.com/nspcc-dev/neo-go/pkg/vm/stackitem"
	"github.com/nspcc-dev/neo-go/pkg/vm/vmstate"
	"pgregory.net/rapid"
	"verifharness/asm"
	ck "verifharness/chainkit"
	"verifharness/vt"
)

// Case is a protocol configuration plus a block history (grammar of chainkit plus the "c05_*" kinds below).
type Case struct {
	Chain  ck.ChainCfg    `json:"chain"`
	Blocks []ck.BlockSpec `json:"blocks"`
}

// Own action kinds (translated into "raw" chainkit actions right before the block is built):
//
//	c05_all        From sends its WHOLE balance (+N: -1, 0, +1) of token B%2 (0 GAS, 1 NEO) to party A; S="assert" asserts the result
//	c05_vote_move  one tx: From votes for candidate A (-1: unvote), then sends N NEO (N<0: whole balance) to party B;
//	               S="swap": transfer first, vote second; S="throw": THROW at the end (the tx must leave no trace)
//	c05_xfer_fail  From sends N of token B%2 to party A, asserts success, then THROWs (FAULT after a Transfer event)
//	c05_reenter    From sends N of token K[0]%2 to library contract A with a data array that makes its payment callback
//	               call back: B=0 forward K[2] units of the same token to party K[1]; B=1 self-call xfer of the OTHER token;
//	               B=2 call "fail" (FAULT after transfers); B=3 forward to contract K[3] whose callback forwards again to party K[1];
//	               B=4 try-wrapped transfer to contract K[3] with rejecting data (caught, rolled back)
//	c05_try        K[1]=0: contract A tryCall(token K[0]%2 transfer A -> contract B of N, data "x") (callback rejects, caught);
//	               K[1]=1: same with null data (commits); K[1]=2: the ENTRY script wraps From -> contract B transfer with rejecting
//	               data in TRY/CATCH and then makes a plain transfer of 1 unit to party K[2]
//	               (an exception thrown by a payment callback that was called from a native contract cannot be caught: 0 and 2 FAULT);
//	               K[1]=3: contract A tryCall(XF.xferFail(token, party K[2], N)): XF transfers, then throws; caught, rolled back;
//	               K[1]=4: the ENTRY script wraps XF.xferFail(token, party K[2], N) in TRY/CATCH, then sends 1 unit to party K[2];
//	               K[1]=5: contract A tryCall(XF.voteFail(candidate B)); K[1]=6: XF.vote(candidate B, -1 = unvote); K[1]=7: XF.xferOk(token, party K[2], N)
//
//	c05_notary_tx  a NotaryAssisted transaction (NKeys = K[0]) witnessed by a designated notary node and by depositor From.
//	               B=0: sender is the Notary contract (fees are charged to From's deposit), script = GAS transfer From -> party A of N;
//	               B=1: same, network fee raised so that the fees consume the WHOLE deposit (record must disappear);
//	               B=2: same as 0 but the script throws after the transfer; B=3: From is the sender, Notary only a co-signer
//
// XF is a small contract of this package (deployed by account 2 in a fixed prologue block 3, party number 22): it accepts any
// payment, xferOk/xferFail send its own tokens (xferFail throws afterwards), vote/voteFail vote with its own NEO.
const own = "c05_"

// xfContract assembles XF.
func xfContract() *asm.Contract {
	b := asm.New()
	var ms []asm.MethodSpec
	m := func(name string, params int, void bool) {
		b.Label(name)
		ms = append(ms, asm.MethodSpec{Name: name, Label: name, Params: params, Void: void})
	}
	xfer := func() {
		b.InitSlot(0, 3).Op(opcode.PUSHNULL, opcode.LDARG2, opcode.LDARG1).Syscall("System.Runtime.GetExecutingScriptHash").Op(opcode.PUSH4, opcode.PACK)
		b.Op(opcode.PUSH15).Str("transfer").Op(opcode.LDARG0).Syscall("System.Contract.Call")
	}
	vote := func() {
		b.InitSlot(0, 1).Op(opcode.LDARG0).Syscall("System.Runtime.GetExecutingScriptHash").Op(opcode.PUSH2, opcode.PACK)
		b.Op(opcode.PUSH15).Str("vote").Bytes(neoHash.BytesBE()).Syscall("System.Contract.Call")
	}
	m("xferOk", 3, false)
	xfer()
	b.Op(opcode.RET)
	m("xferFail", 3, false)
	xfer()
	b.Op(opcode.DROP).Str("xferFail").Op(opcode.THROW)
	m("vote", 1, false)
	vote()
	b.Op(opcode.RET)
	m("voteFail", 1, false)
	vote()
	b.Op(opcode.DROP).Str("voteFail").Op(opcode.THROW)
	m("onNEP17Payment", 3, true)
	b.InitSlot(0, 3).Op(opcode.RET)
	c, err := asm.BuildContract("C05XF", b, ms)
	if err != nil {
		panic(err)
	}
	return c
}

const (
	xfDeployer = 2
	xfParty    = ck.PContract0 + 2
)

var (
	xf     = xfContract()
	xfHash = ck.ContractHash(ck.Accounts[xfDeployer].Hash, xf)
)

const neoTotal = 100000000

var (
	neoHash    = nativehashes.NeoToken
	gasHash    = nativehashes.GasToken
	notaryHash = nativehashes.Notary
)

func candPub(i int) *keys.PublicKey {
	const n = ck.NCandidates + 2
	i = ((i % n) + n) % n
	if i < ck.NCandidates {
		return ck.Candidates[i].Pub
	}
	return ck.CommitteeKeys[i-ck.NCandidates].Pub
}

func tokenOf(sel int) util.Uint160 {
	if sel%2 != 0 {
		return neoHash
	}
	return gasHash
}

func kb(k vt.Bytes, i int) int {
	if i < len(k) {
		return int(k[i])
	}
	return 0
}

// emitWholeTransfer emits token.transfer(from, to, balanceOf(from)+adj, null) leaving the result on the stack.
func emitWholeTransfer(w *io.BinWriter, tok, from, to util.Uint160, adj int64) {
	emit.AppCall(w, tok, "balanceOf", callflag.ReadStates, from)
	if adj != 0 {
		emit.Int(w, adj)
		emit.Opcodes(w, opcode.ADD)
	}
	emit.Opcodes(w, opcode.PUSHNULL, opcode.SWAP)
	emit.Bytes(w, to.BytesBE())
	emit.Bytes(w, from.BytesBE())
	emit.Opcodes(w, opcode.PUSH4, opcode.PACK)
	emit.AppCallNoArgs(w, tok, "transfer", callflag.All)
}

// translate turns an own-kind action into a raw chainkit action (a pure function of the action and the builder's contract list).
func translate(b *ck.Builder, a ck.Action) (ck.Action, error) {
	if !strings.HasPrefix(a.Kind, own) {
		return a, nil
	}
	bw := io.NewBufBinWriter()
	w := bw.BinWriter
	from := b.PartyHash(a.From)
	all := callflag.All
	switch a.Kind {
	case "c05_all":
		emitWholeTransfer(w, tokenOf(a.B), from, b.PartyHash(a.A), a.N)
		if a.S == "assert" {
			emit.Opcodes(w, opcode.ASSERT)
		}
	case "c05_vote_move":
		vote := func() {
			if a.A < 0 {
				emit.AppCall(w, neoHash, "vote", all, from, nil)
			} else {
				emit.AppCall(w, neoHash, "vote", all, from, candPub(a.A).Bytes())
			}
			emit.Opcodes(w, opcode.DROP)
		}
		move := func() {
			if a.N < 0 {
				emitWholeTransfer(w, neoHash, from, b.PartyHash(a.B), 0)
			} else {
				emit.AppCall(w, neoHash, "transfer", all, from, b.PartyHash(a.B), a.N, nil)
			}
			emit.Opcodes(w, opcode.DROP)
		}
		if a.S == "swap" {
			move()
			vote()
		} else {
			vote()
			move()
		}
		if a.S == "throw" {
			emit.String(w, "c05 throw")
			emit.Opcodes(w, opcode.THROW)
		}
	case "c05_xfer_fail":
		emit.AppCall(w, tokenOf(a.B), "transfer", all, from, b.PartyHash(a.A), a.N, nil)
		emit.Opcodes(w, opcode.ASSERT)
		emit.String(w, "c05 throw")
		emit.Opcodes(w, opcode.THROW)
	case "c05_reenter":
		tok := tokenOf(kb(a.K, 0))
		other := tokenOf(kb(a.K, 0) + 1)
		cA := b.PartyHash(ck.PContract0 + a.A)
		cB := b.PartyHash(ck.PContract0 + kb(a.K, 3))
		to := b.PartyHash(kb(a.K, 1))
		inner := int64(kb(a.K, 2))
		var data []any
		switch a.B {
		case 0:
			data = []any{tok, "transfer", int64(all), []any{cA, to, inner, nil}}
		case 1:
			data = []any{cA, "xfer", int64(all), []any{other, to, inner}}
		case 2:
			data = []any{cA, "fail", int64(all), []any{}}
		case 3:
			fwd := []any{tok, "transfer", int64(all), []any{cB, to, inner / 2, nil}}
			data = []any{tok, "transfer", int64(all), []any{cA, cB, inner, fwd}}
		default:
			data = []any{cA, "tryCall", int64(all), []any{tok, "transfer", int64(all), []any{cA, cB, inner, []byte("x")}}}
		}
		emit.AppCall(w, tok, "transfer", all, from, cA, a.N, data)
		if a.S == "assert" {
			emit.Opcodes(w, opcode.ASSERT)
		}
	case "c05_try":
		tok := tokenOf(kb(a.K, 0))
		cA := b.PartyHash(ck.PContract0 + a.A%2)
		cB := b.PartyHash(ck.PContract0 + ((a.B%2)+2)%2)
		switch kb(a.K, 1) {
		case 0:
			emit.AppCall(w, cA, "tryCall", all, tok, "transfer", int64(all), []any{cA, cB, a.N, []byte("x")})
			emit.Opcodes(w, opcode.DROP)
		case 1:
			emit.AppCall(w, cA, "tryCall", all, tok, "transfer", int64(all), []any{cA, cB, a.N, nil})
			emit.Opcodes(w, opcode.DROP)
		case 3:
			emit.AppCall(w, cA, "tryCall", all, xfHash, "xferFail", int64(all), []any{tok, b.PartyHash(kb(a.K, 2)), a.N})
			emit.Opcodes(w, opcode.DROP)
		case 4:
			s := asm.New()
			s.Try("catch", "")
			s.AppCall(xfHash, "xferFail", all, tok, b.PartyHash(kb(a.K, 2)), a.N).Op(opcode.DROP)
			s.Jmp(opcode.ENDTRYL, "end")
			s.Label("catch").Op(opcode.DROP).Jmp(opcode.ENDTRYL, "end")
			s.Label("end")
			s.AppCall(tok, "transfer", all, from, b.PartyHash(kb(a.K, 2)), int64(1), nil).Op(opcode.DROP)
			w.WriteBytes(s.Script())
		case 5:
			emit.AppCall(w, cA, "tryCall", all, xfHash, "voteFail", int64(all), []any{candPub(a.B).Bytes()})
			emit.Opcodes(w, opcode.DROP)
		case 6:
			if a.B < 0 {
				emit.AppCall(w, xfHash, "vote", all, nil)
			} else {
				emit.AppCall(w, xfHash, "vote", all, candPub(a.B).Bytes())
			}
			emit.Opcodes(w, opcode.DROP)
		case 7:
			emit.AppCall(w, xfHash, "xferOk", all, tok, b.PartyHash(kb(a.K, 2)), a.N)
			emit.Opcodes(w, opcode.DROP)
		default:
			s := asm.New()
			s.Try("catch", "")
			s.AppCall(tok, "transfer", all, from, cB, a.N, []byte("x")).Op(opcode.DROP)
			s.Jmp(opcode.ENDTRYL, "end")
			s.Label("catch").Op(opcode.DROP).Jmp(opcode.ENDTRYL, "end")
			s.Label("end")
			s.AppCall(tok, "transfer", all, from, b.PartyHash(kb(a.K, 2)), int64(1), nil).Op(opcode.DROP)
			w.WriteBytes(s.Script())
		}
	default:
		return a, fmt.Errorf("unknown own kind %q", a.Kind)
	}
	if bw.Err != nil {
		return a, bw.Err
	}
	out := ck.Action{Kind: "raw", From: a.From, V: bw.Bytes(), Attrs: a.Attrs, Nonce: a.Nonce, VUB: a.VUB, GasAdj: a.GasAdj, Scope: a.Scope}
	return out, nil
}

// makeNotaryTx builds a c05_notary_tx against the current state (chainkit has no such kind: the Notary witness needs a
// signature of a designated notary node in its invocation script).
func makeNotaryTx(b *ck.Builder, a ck.Action) (*transaction.Transaction, error) {
	bc := b.N.BC
	payer := ck.Accounts[((a.From%ck.NAccounts)+ck.NAccounts)%ck.NAccounts]
	nodes, _, err := bc.GetDesignatedByRole(noderoles.P2PNotary)
	if err != nil || len(nodes) == 0 {
		return nil, errors.New("no notary node designated")
	}
	node, ok := ck.KeyByPub(nodes[0])
	if !ok {
		return nil, errors.New("notary node not in the cast")
	}
	bw := io.NewBufBinWriter()
	emit.AppCall(bw.BinWriter, gasHash, "transfer", callflag.All, payer.Hash, b.PartyHash(a.A), a.N, nil)
	emit.Opcodes(bw.BinWriter, opcode.DROP)
	if a.B == 2 {
		emit.String(bw.BinWriter, "c05 throw")
		emit.Opcodes(bw.BinWriter, opcode.THROW)
	}
	tx := transaction.New(bw.Bytes(), 0)
	tx.Nonce = a.Nonce
	tx.ValidUntilBlock = bc.BlockHeight() + 1 + a.VUB%max(1, bc.GetMaxValidUntilBlockIncrement())
	tx.Attributes = []transaction.Attribute{{Type: transaction.NotaryAssistedT, Value: &transaction.NotaryAssisted{NKeys: uint8(kb(a.K, 0))}}}
	ns := transaction.Signer{Account: notaryHash, Scopes: transaction.None}
	ps := transaction.Signer{Account: payer.Hash, Scopes: transaction.Global}
	ni := 0
	if a.B == 3 {
		tx.Signers = []transaction.Signer{ps, ns}
		ni = 1
	} else {
		tx.Signers = []transaction.Signer{ns, ps}
	}
	gas, _ := b.TestInvoke(tx)
	tx.SystemFee = gas
	sign := func() {
		nw := io.NewBufBinWriter()
		emit.Bytes(nw.BinWriter, node.Priv.SignHashable(uint32(ck.Magic), tx))
		tx.Scripts = make([]transaction.Witness, 2)
		tx.Scripts[ni] = transaction.Witness{InvocationScript: nw.Bytes(), VerificationScript: []byte{}}
		tx.Scripts[1-ni] = transaction.Witness{InvocationScript: ck.Single(payer).Invocation(tx), VerificationScript: payer.Ver}
	}
	tx.NetworkFee = 1000_0000 // provisional: lets Notary.verify see a covered fee when the deposit is reasonable
	sign()
	vgas, err := bc.VerifyWitness(notaryHash, tx, &tx.Scripts[ni], bc.GetMaxVerificationGAS())
	if err != nil {
		return nil, fmt.Errorf("notary witness: %w", err)
	}
	nf, _ := fee.Calculate(bc.GetBaseExecFee(), payer.Ver)
	tx.NetworkFee = vgas + nf + int64(io.GetVarSize(tx))*bc.FeePerByte() + bc.CalculateAttributesFee(tx)
	if a.B == 1 {
		d := new(state.Deposit)
		if si := bc.GetStorageItem(nativeids.Notary, append([]byte{prefixDeposit}, payer.Hash.BytesBE()...)); si != nil &&
			stackitem.DeserializeConvertible(si, d) == nil && d.Amount.IsInt64() && d.Amount.Int64() > tx.SystemFee+tx.NetworkFee {
			tx.NetworkFee = d.Amount.Int64() - tx.SystemFee
		}
	}
	sign()
	return tx, nil
}

func errClass(err error) string {
	var out []rune
	for _, r := range err.Error() {
		if r >= '0' && r <= '9' {
			break
		}
		out = append(out, r)
		if len(out) >= 44 {
			break
		}
	}
	return strings.TrimSpace(string(out))
}

// knownNotaryFee is the key of a finding of this check, repaired in /repo by 1e2923b: with P2PSigExtensions off the
// NotaryAssisted attribute fee was not part of the required network fee (Blockchain.CalculateAttributesFee) while
// GAS.OnPersist always deducts it from the amount minted to the primary, which then was negative (Transfer event with a
// negative amount, or a block the node could not process). The hook is dormant: only if the finding were listed as "known"
// again would NotaryAssisted transactions not be built on such chains (counted as excluded). Regression replays:
// /verif/replays/C05/regress/notary-assisted-fee-without-p2psig-*.json.
const knownNotaryFee = "notary-assisted-fee-without-p2psig"

// buildBlock is chainkit's Builder.BuildBlock extended with the own kinds (same admission discipline: every tx goes through
// PoolTx of the builder's node, rejected candidates are counted in b.Rejected and not retried).
func buildBlock(b *ck.Builder, spec ck.BlockSpec, excluded *int) (*block.Block, error) {
	bc := b.N.BC
	var txs []*transaction.Transaction
	for _, a := range spec.Txs {
		var (
			tx  *transaction.Transaction
			err error
		)
		if a.Kind == "c05_notary_tx" {
			if !b.N.Chain.P2PSig && vt.Known(knownNotaryFee) {
				*excluded++
				continue
			}
			tx, err = makeNotaryTx(b, a)
		} else {
			var ta ck.Action
			if ta, err = translate(b, a); err == nil {
				tx, err = b.MakeTx(ta)
			}
		}
		if err != nil {
			b.Rejected["build: "+errClass(err)]++
			continue
		}
		if err := bc.PoolTx(tx); err != nil {
			b.Rejected["pool: "+errClass(err)]++
			continue
		}
		txs = append(txs, tx)
	}
	kept := txs[:0]
	for _, tx := range txs {
		if bc.GetMemPool().ContainsKey(tx.Hash()) {
			kept = append(kept, tx)
		} else {
			b.Rejected["evicted by conflict"]++
		}
	}
	txs = kept
	blk, err := b.NextBlock(txs, spec.TimeD, spec.Nonce, spec.Primary)
	if err != nil {
		return nil, err
	}
	deposits := ck.NotaryDeposits(bc)
	if err := bc.AddBlock(blk); err != nil {
		return nil, fmt.Errorf("builder rejected its own block %d: %w", blk.Index, err)
	}
	b.NoteFlows(blk, deposits)
	for _, tx := range txs {
		b.TxHashes = append(b.TxHashes, tx.Hash())
	}
	for _, a := range spec.Txs { // as chainkit's trackDeployments
		if a.Kind != "deploy" {
			continue
		}
		c := ck.KContract(fmt.Sprintf("K%d%s", a.A, a.S), a.A)
		h := ck.ContractHash(b.PartyHash(a.From), c)
		if bc.GetContractState(h) == nil {
			continue
		}
		known := false
		for _, d := range b.Deployed {
			if d.Hash == h {
				known = true
			}
		}
		if !known {
			b.Deployed = append(b.Deployed, ck.Deployed{Hash: h, C: c, Deployer: a.From})
		}
	}
	return blk, nil
}

// ---- generator ----------------------------------------------------------------------------------------------

type gen struct {
	t *rapid.T
	c *Case
	n int
}

func (g *gen) ir(lo, hi int, label string) int { return rapid.IntRange(lo, hi).Draw(g.t, label) }

func (g *gen) add(i int, a ck.Action) {
	if i < 0 {
		i = 0
	}
	if i >= g.n {
		i = g.n - 1
	}
	a.Nonce = rapid.Uint32().Draw(g.t, "snonce")
	txs := g.c.Blocks[i].Txs
	if len(txs) > 0 && g.ir(0, 3, "front") == 0 {
		g.c.Blocks[i].Txs = append([]ck.Action{a}, txs...)
	} else {
		g.c.Blocks[i].Txs = append(txs, a)
	}
}

func (g *gen) account(label string) int { return g.ir(0, ck.NAccounts-1, label) }
func (g *gen) party(label string) int   { return g.ir(0, ck.NParties-1, label) }

// target draws a transfer destination: mostly key holders, sometimes a library contract (payment callback).
func (g *gen) target(label string) int {
	if g.ir(0, 4, label+"_c") == 0 {
		return ck.PContract0 + g.ir(0, 2, label+"_ci")
	}
	return g.party(label)
}

var storyCands = []int{0, 1, 2, 3, 3, 4, 4} // 3 and 4 are standby committee keys: votes for them earn voter rewards

func (g *gen) governance() {
	cand := rapid.SampledFrom(storyCands).Draw(g.t, "gcand")
	voter := g.account("gvoter")
	if g.ir(0, 4, "whale") == 0 {
		voter = ck.PValidators // holds ~all NEO: its vote makes the turnout effective and elects candidates
	}
	payer := g.account("gpayer")
	pos := g.ir(0, max(0, g.n/3), "gstart")
	g.add(pos, ck.Action{Kind: "register", From: payer, A: cand})
	pos += g.ir(0, 1, "gd0")
	g.add(pos, ck.Action{Kind: "vote", From: voter, A: cand})
	steps := g.ir(2, 7, "gsteps")
	for s := 0; s < steps; s++ {
		pos += rapid.SampledFrom([]int{0, 0, 1, 1, 2, 3}).Draw(g.t, "gd")
		if pos >= g.n {
			pos = g.n - 1
		}
		switch g.ir(0, 13, "gev") {
		case 0, 1: // NEO leaves the voting account
			g.add(pos, ck.Action{Kind: "neo_transfer", From: voter, A: g.target("gto"), N: int64(g.ir(1, 700, "gamt"))})
		case 2: // NEO arrives at the voting account
			g.add(pos, ck.Action{Kind: "neo_transfer", From: g.account("gfrom"), A: voter, N: int64(g.ir(1, 700, "gamt"))})
		case 3: // whole balance leaves: account record and its vote disappear
			if voter != ck.PValidators {
				g.add(pos, ck.Action{Kind: "c05_all", From: voter, A: g.target("gto"), B: 1, N: int64(g.ir(-1, 1, "gadj"))})
			} else {
				g.add(pos, ck.Action{Kind: "neo_transfer", From: voter, A: g.account("gto"), N: int64(g.ir(1, 50000000, "gamt"))})
			}
		case 4:
			g.add(pos, ck.Action{Kind: "unregister", From: payer, A: cand})
		case 5:
			g.add(pos, ck.Action{Kind: "register", From: payer, A: cand})
		case 6: // change the vote (possibly to an unknown candidate) or unvote
			g.add(pos, ck.Action{Kind: "vote", From: voter, A: g.ir(-1, ck.NCandidates+1, "gcand2")})
		case 7:
			g.add(pos, ck.Action{Kind: "policy", S: "blockAccount", From: payer, A: voter})
			if g.ir(0, 1, "gunblock") == 0 {
				g.add(pos+g.ir(1, 4, "gunblock_d"), ck.Action{Kind: "policy", S: "unblockAccount", From: payer, A: voter})
			}
		case 8:
			mode := rapid.SampledFrom([]string{"", "", "swap", "throw"}).Draw(g.t, "gvm")
			amt := int64(g.ir(-1, 500, "gamt"))
			if voter == ck.PValidators && amt < 0 {
				amt = 1000
			}
			g.add(pos, ck.Action{Kind: "c05_vote_move", From: voter, A: g.ir(-1, ck.NCandidates+1, "gcand2"), B: g.target("gto"), N: amt, S: mode})
		case 9: // a second voter for the same candidate
			v2 := g.party("gvoter2")
			g.add(pos, ck.Action{Kind: "vote", From: v2, A: cand})
			g.add(pos+g.ir(0, 2, "gd2"), ck.Action{Kind: "neo_transfer", From: v2, A: g.target("gto"), N: int64(g.ir(1, 60, "gamt"))})
		case 10:
			g.add(pos, ck.Action{Kind: "policy", S: "blockCandidate", From: payer, A: cand})
		case 11: // vote again for the story candidate (after an unvote / drop / unregister)
			g.add(pos, ck.Action{Kind: "vote", From: voter, A: cand})
		case 12: // zero / self transfer of the voter: pure GAS claim
			g.add(pos, ck.Action{Kind: "neo_transfer", From: voter, A: voter, N: int64(g.ir(0, 1, "gamt"))})
		default: // vote and transfer of the same account in one block, as separate txs
			g.add(pos, ck.Action{Kind: "vote", From: voter, A: rapid.SampledFrom([]int{cand, cand, -1, 3, 4}).Draw(g.t, "gcand2")})
			g.add(pos, ck.Action{Kind: "neo_transfer", From: voter, A: g.target("gto"), N: int64(g.ir(1, 300, "gamt"))})
		}
	}
}

func (g *gen) notary() {
	p := g.account("ndep")
	i := g.ir(0, max(0, g.n-6), "nstart")
	d := g.ir(2, 6, "ntill")
	if !g.c.Chain.P2PSig { // no notary node is designated by the bootstrap then
		g.add(i-1, ck.Action{Kind: "designate", From: g.account("npayer"), A: int(noderoles.P2PNotary), B: g.ir(1, 7, "nkeys")})
	}
	g.add(i, ck.Action{Kind: "notary_deposit", From: p, N: int64(g.ir(1, 30, "namt")) * 1_0000_0000, A: d, B: -1})
	for k := g.ir(0, 2, "ntop"); k > 0; k-- {
		at := i + g.ir(0, 3, "ntop_d")
		switch g.ir(0, 3, "ntop_k") {
		case 0: // top-up by the owner (the till may go backwards: that must FAULT and change nothing)
			g.add(at, ck.Action{Kind: "notary_deposit", From: p, N: int64(g.ir(1, 5_0000_0000, "namt2")), A: g.ir(0, 8, "ntill2"), B: -1})
		case 1: // top-up by somebody else for the owner
			g.add(at, ck.Action{Kind: "notary_deposit", From: g.account("nother"), N: int64(g.ir(1, 5_0000_0000, "namt2")), A: g.ir(2, 8, "ntill2"), B: p})
		case 2: // top-up of a bootstrap deposit
			g.add(at, ck.Action{Kind: "notary_deposit", From: g.account("nother"), N: int64(g.ir(1, 5_0000_0000, "namt2")), A: g.ir(2, 8, "ntill2"), B: g.ir(0, 1, "nboot")})
		default:
			g.add(at, ck.Action{Kind: "notary_lock", From: p, A: g.ir(0, 6, "nlock")})
		}
	}
	for k := g.ir(0, 3, "nntx"); k > 0; k-- { // notary-assisted transactions paid from a deposit
		payer := p
		if g.c.Chain.P2PSig && g.ir(0, 2, "nntx_boot") == 0 {
			payer = g.ir(0, 1, "nboot") // bootstrap depositors
		}
		mode := rapid.SampledFrom([]int{0, 0, 0, 1, 2, 2, 3}).Draw(g.t, "nntx_mode")
		g.add(i+g.ir(1, 6, "nntx_d"), ck.Action{Kind: "c05_notary_tx", From: payer, A: g.target("nntx_to"), B: mode, N: int64(g.ir(0, 3_0000_0000, "nntx_amt")), K: vt.Bytes{byte(rapid.SampledFrom([]int{0, 0, 1, 2, 3, 3, 40, 255}).Draw(g.t, "nntx_keys"))}})
	}
	j := i + d + rapid.SampledFrom([]int{-1, 0, 0, 1, 2, 4}).Draw(g.t, "nwd")
	to := p
	if g.ir(0, 1, "nwto") == 0 {
		to = g.target("nwto_p")
	}
	g.add(j, ck.Action{Kind: "notary_withdraw", From: p, A: to})
	if g.ir(0, 2, "nwagain") == 0 { // a second withdrawal (nothing left) or a late one after a lock
		g.add(j+g.ir(1, 5, "nwagain_d"), ck.Action{Kind: "notary_withdraw", From: p, A: p})
	}
}

func (g *gen) callbacks() {
	cA := g.ir(0, 1, "cb_c")
	i := g.ir(0, max(0, g.n-4), "cb_start")
	g.add(i, ck.Action{Kind: "gas_transfer", From: g.account("cb_f"), A: ck.PContract0 + cA, N: int64(g.ir(1, 50, "cb_gas")) * 1_0000_0000})
	g.add(i, ck.Action{Kind: "neo_transfer", From: g.account("cb_f"), A: ck.PContract0 + cA, N: int64(g.ir(1, 200, "cb_neo"))})
	g.add(i, ck.Action{Kind: "gas_transfer", From: g.account("cb_f"), A: xfParty, N: int64(g.ir(1, 50, "cb_gas")) * 1_0000_0000})
	g.add(i, ck.Action{Kind: "neo_transfer", From: g.account("cb_f"), A: xfParty, N: int64(g.ir(1, 200, "cb_neo"))})
	for k := g.ir(1, 4, "cb_n"); k > 0; k-- {
		at := i + g.ir(1, 6, "cb_d")
		tok := byte(g.ir(0, 1, "cb_tok"))
		switch g.ir(0, 6, "cb_k") {
		case 0, 1, 2:
			a := ck.Action{Kind: "c05_reenter", From: g.account("cb_f"), A: cA, B: g.ir(0, 4, "cb_mode"), N: int64(g.ir(0, 40, "cb_amt"))}
			a.K = vt.Bytes{tok, byte(g.party("cb_to")), byte(g.ir(0, 45, "cb_inner")), byte(g.ir(0, 1, "cb_c2"))}
			if g.ir(0, 3, "cb_assert") == 0 {
				a.S = "assert"
			}
			g.add(at, a)
		case 3, 4, 5:
			mode := rapid.SampledFrom([]int{0, 1, 2, 3, 3, 3, 4, 4, 5, 5, 5, 6, 6, 6, 7}).Draw(g.t, "cb_tm")
			a := ck.Action{Kind: "c05_try", From: g.account("cb_f"), A: cA, B: g.ir(0, 1, "cb_c2"), N: int64(g.ir(0, 30, "cb_amt"))}
			if mode == 5 || mode == 6 {
				a.B = rapid.SampledFrom([]int{-1, 0, 1, 2, 3, 3, 4, 4}).Draw(g.t, "cb_cand")
				if mode == 5 && a.B < 0 {
					a.B = 3
				}
				// the candidate has to be registered for the vote to do anything
				g.add(at-g.ir(0, 2, "cb_reg_d"), ck.Action{Kind: "register", From: g.account("cb_f"), A: max(a.B, 0)})
			}
			to := g.party("cb_to")
			if g.ir(0, 4, "cb_to_c") == 0 {
				to = ck.PContract0 + g.ir(0, 2, "cb_to_ci")
			}
			a.K = vt.Bytes{tok, byte(mode), byte(to)}
			g.add(at, a)
		default:
			a := ck.Action{Kind: "invoke", S: "xfer", From: g.account("cb_f"), A: cA, B: int(tok), N: int64(g.ir(0, 30, "cb_amt"))}
			a.K = vt.Bytes{byte(g.party("cb_to"))}
			g.add(at, a)
		}
	}
}

// oracle: requests through a library contract, answered some blocks later (GAS minted to the Oracle contract by the
// request, burnt as the fees of the response, the designated oracle nodes paid by PostPersist); sometimes the oracle
// nodes are re-designated in between.
func (g *gen) oracle() {
	i := g.ir(0, max(0, g.n-3), "o_start")
	nreq := g.ir(1, 3, "o_nreq")
	for k := 0; k < nreq; k++ {
		a := ck.Action{From: g.account("o_from")}
		ck.GenOracleRequest(g.t, &a)
		g.add(i+g.ir(0, 1, "o_req_d"), a)
	}
	if g.ir(0, 3, "o_redesignate") == 0 {
		g.add(i+g.ir(0, 3, "o_des_d"), ck.Action{Kind: "designate", From: g.account("o_payer"), A: int(noderoles.Oracle), B: g.ir(1, 7, "o_keys")})
	}
	for k := g.ir(1, nreq+1, "o_nresp"); k > 0; k-- {
		a := ck.Action{}
		ck.GenOracleResponse(g.t, &a)
		g.add(i+g.ir(1, 5, "o_resp_d"), a)
	}
}

// assisted: notary-assisted transactions charged to a deposit (fees deducted by Notary.OnPersist, the service fee minted to
// the designated notary nodes), incl. one that consumes the rest of the deposit and one that asks for one unit more.
func (g *gen) assisted() {
	i := g.ir(0, max(0, g.n-3), "a_start")
	for k := g.ir(1, 4, "a_n"); k > 0; k-- {
		a := ck.Action{}
		ck.GenNotaryAssisted(g.t, &a)
		g.add(i+g.ir(0, 5, "a_d"), a)
	}
}

func (g *gen) faults() {
	for k := g.ir(1, 3, "f_n"); k > 0; k-- {
		at := g.ir(0, g.n-1, "f_at")
		if g.ir(0, 2, "f_k") == 0 {
			g.add(at, ck.Action{Kind: "c05_vote_move", From: g.party("f_from"), A: g.ir(-1, ck.NCandidates+1, "f_cand"), B: g.target("f_to"), N: int64(g.ir(-1, 40, "f_amt")), S: "throw"})
		} else {
			tok := g.ir(0, 1, "f_tok")
			g.add(at, ck.Action{Kind: "c05_xfer_fail", From: g.party("f_from"), A: g.target("f_to"), B: tok, N: int64(g.ir(0, 45, "f_amt"))})
		}
	}
}

func (g *gen) whole() {
	for k := g.ir(1, 2, "w_n"); k > 0; k-- {
		at := g.ir(0, g.n-1, "w_at")
		p := g.party("w_from")
		tok := g.ir(0, 1, "w_tok")
		a := ck.Action{Kind: "c05_all", From: p, A: g.target("w_to"), B: tok, N: int64(g.ir(-1, 1, "w_adj"))}
		if g.ir(0, 2, "w_assert") == 0 {
			a.S = "assert"
		}
		g.add(at, a)
		if tok == 0 && g.ir(0, 3, "w_refund") != 0 { // an account without GAS cannot pay for anything: refund it from the genesis holder
			g.add(at+1, ck.Action{Kind: "gas_transfer", From: ck.PValidators, A: p, N: 500_0000_0000})
		}
	}
}

// remapBlocked removes avoidable admission rejections: (1) it walks the history with the statically known block/unblock
// actions and re-assigns the sender (and the signing candidate key of (un)register actions) of actions that would need the
// witness of a blocked account (refused by Policy); (2) it drops Conflicts attributes (chainkit only references on-chain
// hashes, which is always refused) and makes NotValidBefore attributes immediately valid.
func remapBlocked(c *Case) {
	blocked := map[int]bool{}
	for bi := range c.Blocks {
		var later []func()
		for ti := range c.Blocks[bi].Txs {
			a := &c.Blocks[bi].Txs[ti]
			var attrs []ck.Attr
			for _, at := range a.Attrs {
				switch at.Kind {
				case "conflicts":
					continue
				case "nvb":
					at.Ref = 0
				}
				attrs = append(attrs, at)
			}
			a.Attrs = attrs
			switch a.Kind {
			case "register", "register_pay", "unregister":
				for k := 0; k < 5; k++ {
					if ci := (((a.A + k) % 5) + 5) % 5; ci >= ck.NCandidates || !blocked[ck.NAccounts+ci] {
						a.A = ci
						break
					}
				}
			}
			if a.From >= 0 && a.From <= ck.PValidators && blocked[a.From] {
				for k := 1; k < ck.NParties; k++ {
					if p := (a.From + k) % ck.NParties; !blocked[p] {
						a.From = p
						break
					}
				}
			}
			if a.Kind == "policy" {
				tgt := -1
				switch a.S {
				case "blockAccount", "unblockAccount":
					tgt = a.A
				case "blockCandidate", "unblockCandidate":
					if k := ((a.A % 5) + 5) % 5; k < ck.NCandidates {
						tgt = ck.NAccounts + k
					}
				}
				if tgt >= 0 && tgt <= ck.PValidators {
					on := strings.HasPrefix(a.S, "block")
					later = append(later, func() { blocked[tgt] = on })
				}
			}
		}
		for _, f := range later {
			f()
		}
	}
}

func genCase(t *rapid.T) Case {
	c := Case{}
	c.Chain.Profile = rapid.SampledFrom([]string{"V1C1", "V1C3", "V1C3", "V4C6", "V4C6"}).Draw(t, "profile")
	c.Chain.SRIH = rapid.Bool().Draw(t, "srih")
	c.Chain.P2PSig = rapid.IntRange(0, 3).Draw(t, "p2psig") != 0
	c.Chain.HFStagger = rapid.IntRange(0, 3).Draw(t, "hfstagger") == 0
	bias := ck.GenBias{Governance: 5, Value: 6, Storage: 1, Faults: 2, Attrs: 5, P2PSig: c.Chain.P2PSig, Oracle: 1, Notary: 1}
	n := rapid.IntRange(10, 40).Draw(t, "nblocks")
	for i := 0; i < n; i++ {
		c.Blocks = append(c.Blocks, ck.GenBlock(t, bias, 3))
	}
	g := &gen{t: t, c: &c, n: n}
	if g.ir(0, 5, "s_gov") != 0 {
		g.governance()
		if g.ir(0, 2, "s_gov2") == 0 {
			g.governance()
		}
	}
	if g.ir(0, 2, "s_notary") != 0 {
		g.notary()
	}
	if g.ir(0, 2, "s_cb") != 0 {
		g.callbacks()
	}
	if g.ir(0, 1, "s_fault") == 0 {
		g.faults()
	}
	if g.ir(0, 2, "s_oracle") != 0 {
		g.oracle()
	}
	if c.Chain.P2PSig && g.ir(0, 2, "s_nassist") != 0 {
		g.assisted()
	}
	if g.ir(0, 1, "s_whole") == 0 {
		g.whole()
	}
	remapBlocked(&c)
	return c
}

// ---- observation -------------------------------------------------------------------------------------------

type candRec struct {
	registered bool
	votes      *big.Int
}

// snap is the decoded raw storage of NEO, GAS, Notary (plus the blocked list of Policy, for labels only).
type snap struct {
	height    uint32
	neo       map[util.Uint160]*state.NEOBalance
	gas       map[util.Uint160]*big.Int
	neoSupply *big.Int // nil: item absent
	gasSupply *big.Int
	cands     map[string]candRec // by compressed public key bytes
	voters    *big.Int           // nil: item absent
	deposits  map[util.Uint160]*state.Deposit
	gpv       map[string]string // voter reward per committee key (prefix 23), hex of the value
	blocked   map[util.Uint160]bool
	notaryOn  bool // the Notary native contract is deployed (it is not before Echidna on staggered-hardfork chains)
}

// notaryTracker carries the GAS that reached the Notary HASH while no Notary contract existed there (plain transfers
// to an address, possible only on chains that enable Echidna after genesis): such GAS is nobody's deposit, so the
// clause "GAS owned by the Notary contract = sum of deposits" is evaluated net of it. It is 0 on all other chains.
type notaryTracker struct{ surplus *big.Int }

func (n *notaryTracker) check(s *snap) error {
	if n.surplus == nil {
		n.surplus = new(big.Int)
	}
	dsum := new(big.Int)
	for _, h := range sortedHashes(s.deposits) {
		d := s.deposits[h]
		if d.Amount == nil || d.Amount.Sign() < 0 {
			return fmt.Errorf("after block %d: notary deposit of %s is negative: %v", s.height, h.StringLE(), d.Amount)
		}
		dsum.Add(dsum, d.Amount)
	}
	nb := s.gas[notaryHash]
	if nb == nil {
		nb = new(big.Int)
	}
	if !s.notaryOn {
		if len(s.deposits) != 0 {
			return fmt.Errorf("after block %d: %d notary deposits exist but the Notary contract does not", s.height, len(s.deposits))
		}
		n.surplus = new(big.Int).Set(nb)
		return nil
	}
	want := new(big.Int).Add(dsum, n.surplus)
	if nb.Cmp(want) != 0 {
		return fmt.Errorf("after block %d: GAS owned by the Notary contract %s != sum of deposits %s (+ %s received before the contract existed)", s.height, nb, dsum, n.surplus)
	}
	return nil
}

const (
	prefixAccount     = 20
	prefixCandidate   = 33
	prefixVotersCount = 1
	prefixVoterReward = 23
	prefixDeposit     = 1
	prefixBlocked     = 15
	keyTotalSupply    = 11
)

func take(bc *core.Blockchain) (*snap, error) {
	s := &snap{
		height:   bc.BlockHeight(),
		neo:      map[util.Uint160]*state.NEOBalance{},
		gas:      map[util.Uint160]*big.Int{},
		cands:    map[string]candRec{},
		deposits: map[util.Uint160]*state.Deposit{},
		gpv:      map[string]string{},
		blocked:  map[util.Uint160]bool{},
	}
	var err error
	fail := func(f string, a ...any) bool {
		if err == nil {
			err = fmt.Errorf("height %d: cannot decode storage: "+f, append([]any{s.height}, a...)...)
		}
		return false
	}
	bc.SeekStorage(nativeids.NeoToken, nil, func(k, v []byte) bool {
		switch {
		case len(k) == 1 && k[0] == keyTotalSupply:
			s.neoSupply = bigint.FromBytes(v)
		case len(k) == 1 && k[0] == prefixVotersCount:
			s.voters = bigint.FromBytes(v)
		case len(k) >= 1 && k[0] == prefixAccount:
			h, e := util.Uint160DecodeBytesBE(k[1:])
			if e != nil {
				return fail("NEO account key %x: %v", k, e)
			}
			if len(v) == 0 {
				return fail("NEO account %s has an empty item", h.StringLE())
			}
			acc, e := state.NEOBalanceFromBytes(v)
			if e != nil {
				return fail("NEO account %s item %x: %v", h.StringLE(), v, e)
			}
			s.neo[h] = acc
		case len(k) >= 1 && k[0] == prefixCandidate:
			if _, e := keys.NewPublicKeyFromBytes(k[1:], elliptic.P256()); e != nil {
				return fail("NEO candidate key %x: %v", k, e)
			}
			it, e := stackitem.Deserialize(v)
			if e != nil {
				return fail("NEO candidate %x item %x: %v", k[1:], v, e)
			}
			st, ok := it.(*stackitem.Struct)
			if !ok || st.Len() != 2 {
				return fail("NEO candidate %x item is not Struct[2]: %x", k[1:], v)
			}
			f := st.Value().([]stackitem.Item)
			reg, e1 := f[0].TryBool()
			votes, e2 := f[1].TryInteger()
			if e1 != nil || e2 != nil {
				return fail("NEO candidate %x fields: %v %v", k[1:], e1, e2)
			}
			s.cands[string(k[1:])] = candRec{registered: reg, votes: votes}
		case len(k) >= 1 && k[0] == prefixVoterReward:
			s.gpv[string(k[1:])] = fmt.Sprintf("%x", v)
		}
		return true
	})
	bc.SeekStorage(nativeids.GasToken, nil, func(k, v []byte) bool {
		switch {
		case len(k) == 1 && k[0] == keyTotalSupply:
			s.gasSupply = bigint.FromBytes(v)
		case len(k) >= 1 && k[0] == prefixAccount:
			h, e := util.Uint160DecodeBytesBE(k[1:])
			if e != nil {
				return fail("GAS account key %x: %v", k, e)
			}
			if len(v) == 0 {
				return fail("GAS account %s has an empty item", h.StringLE())
			}
			acc, e := state.NEP17BalanceFromBytes(v)
			if e != nil {
				return fail("GAS account %s item %x: %v", h.StringLE(), v, e)
			}
			s.gas[h] = new(big.Int).Set(&acc.Balance)
		}
		return true
	})
	bc.SeekStorage(nativeids.Notary, nil, func(k, v []byte) bool {
		if len(k) >= 2 && k[0] == prefixDeposit {
			h, e := util.Uint160DecodeBytesBE(k[1:])
			if e != nil {
				return fail("Notary deposit key %x: %v", k, e)
			}
			d := new(state.Deposit)
			if e := stackitem.DeserializeConvertible(v, d); e != nil {
				return fail("Notary deposit %s item %x: %v", h.StringLE(), v, e)
			}
			s.deposits[h] = d
		}
		return true
	})
	s.notaryOn = bc.GetContractState(notaryHash) != nil
	bc.SeekStorage(nativeids.PolicyContract, []byte{prefixBlocked}, func(k, _ []byte) bool {
		if h, e := util.Uint160DecodeBytesBE(k); e == nil {
			s.blocked[h] = true
		}
		return true
	})
	return s, err
}

func sortedHashes[T any](m map[util.Uint160]T) []util.Uint160 {
	out := make([]util.Uint160, 0, len(m))
	for h := range m {
		out = append(out, h)
	}
	sort.Slice(out, func(i, j int) bool { return out[i].Less(out[j]) })
	return out
}

// invariants evaluates the per-state clauses of the property.
func (s *snap) invariants() error {
	at := fmt.Sprintf("after block %d", s.height)
	// NEO supply.
	if s.neoSupply == nil {
		return fmt.Errorf("%s: NEO totalSupply item is absent", at)
	}
	if s.neoSupply.Cmp(big.NewInt(neoTotal)) != 0 {
		return fmt.Errorf("%s: NEO totalSupply item is %s, not %d", at, s.neoSupply, neoTotal)
	}
	sum := new(big.Int)
	votedFor := map[string]*big.Int{}
	voting := new(big.Int)
	for _, h := range sortedHashes(s.neo) {
		a := s.neo[h]
		if a.Balance.Sign() < 0 {
			return fmt.Errorf("%s: NEO balance of %s is negative: %s", at, h.StringLE(), &a.Balance)
		}
		sum.Add(sum, &a.Balance)
		if a.VoteTo != nil {
			k := string(a.VoteTo.Bytes())
			if votedFor[k] == nil {
				votedFor[k] = new(big.Int)
			}
			votedFor[k].Add(votedFor[k], &a.Balance)
			voting.Add(voting, &a.Balance)
		}
	}
	if sum.Cmp(s.neoSupply) != 0 {
		return fmt.Errorf("%s: sum of NEO balances %s != totalSupply %s", at, sum, s.neoSupply)
	}
	// GAS supply.
	if s.gasSupply == nil {
		return fmt.Errorf("%s: GAS totalSupply item is absent", at)
	}
	if s.gasSupply.Sign() < 0 {
		return fmt.Errorf("%s: GAS totalSupply is negative: %s", at, s.gasSupply)
	}
	gsum := new(big.Int)
	for _, h := range sortedHashes(s.gas) {
		b := s.gas[h]
		if b.Sign() < 0 {
			return fmt.Errorf("%s: GAS balance of %s is negative: %s", at, h.StringLE(), b)
		}
		gsum.Add(gsum, b)
	}
	if gsum.Cmp(s.gasSupply) != 0 {
		return fmt.Errorf("%s: sum of GAS balances %s != totalSupply %s (difference %s)", at, gsum, s.gasSupply, new(big.Int).Sub(gsum, s.gasSupply))
	}
	// Candidates: both directions.
	var cks []string
	for k := range s.cands {
		cks = append(cks, k)
	}
	sort.Strings(cks)
	for _, k := range cks {
		c := s.cands[k]
		if c.votes.Sign() < 0 {
			return fmt.Errorf("%s: candidate %x has negative votes %s", at, k, c.votes)
		}
		want := votedFor[k]
		if want == nil {
			want = new(big.Int)
		}
		if c.votes.Cmp(want) != 0 {
			return fmt.Errorf("%s: candidate %x (registered=%v) has votes %s but the accounts voting for it hold %s NEO", at, k, c.registered, c.votes, want)
		}
	}
	var vks []string
	for k := range votedFor {
		vks = append(vks, k)
	}
	sort.Strings(vks)
	for _, k := range vks {
		if _, ok := s.cands[k]; !ok && votedFor[k].Sign() != 0 {
			return fmt.Errorf("%s: accounts holding %s NEO vote for %x but no candidate record exists", at, votedFor[k], k)
		}
	}
	// Voters count.
	if s.voters == nil {
		return fmt.Errorf("%s: voters count item is absent", at)
	}
	if s.voters.Sign() < 0 {
		return fmt.Errorf("%s: voters count is negative: %s", at, s.voters)
	}
	if s.voters.Cmp(voting) != 0 {
		return fmt.Errorf("%s: voters count %s != NEO held by voting accounts %s", at, s.voters, voting)
	}
	return nil
}

// blockFacts is what the events of one block say.
type blockFacts struct {
	net         [2]map[util.Uint160]*big.Int // 0 NEO, 1 GAS: net event amount per account (successful executions)
	nTransfers  int
	voteEvents  int                   // successful Vote events
	neoMoved    map[util.Uint160]bool // accounts with a successful non-zero NEO Transfer (from or to)
	faultedXfer bool                  // a FAULTed tx whose log carries NEO/GAS Transfer events
	fromNotary  bool                  // successful GAS Transfer from the Notary hash
	haltByNonce map[uint32]bool
	fromByNonce map[uint32]map[util.Uint160]bool // per HALTed tx: senders of Transfer events
	nHalt, nTxs int
}

func hashOf(it stackitem.Item) (*util.Uint160, error) {
	if _, ok := it.(stackitem.Null); ok {
		return nil, nil
	}
	b, err := it.TryBytes()
	if err != nil {
		return nil, err
	}
	h, err := util.Uint160DecodeBytesBE(b)
	if err != nil {
		return nil, err
	}
	return &h, nil
}

func collect(bc *core.Blockchain, blk *block.Block) (*blockFacts, error) {
	f := &blockFacts{neoMoved: map[util.Uint160]bool{}, haltByNonce: map[uint32]bool{}, fromByNonce: map[uint32]map[util.Uint160]bool{}}
	f.net[0], f.net[1] = map[util.Uint160]*big.Int{}, map[util.Uint160]*big.Int{}
	addNet := func(tok int, h *util.Uint160, amt *big.Int, sign int) {
		if h == nil {
			return
		}
		v := f.net[tok][*h]
		if v == nil {
			v = new(big.Int)
			f.net[tok][*h] = v
		}
		if sign > 0 {
			v.Add(v, amt)
		} else {
			v.Sub(v, amt)
		}
	}
	scan := func(aer *state.AppExecResult, what string, nonce uint32, isTx bool) error {
		ok := aer.VMState == vmstate.Halt
		if isTx && ok {
			f.haltByNonce[nonce] = true
			f.nHalt++
		}
		for _, ev := range aer.Events {
			tok := -1
			switch ev.ScriptHash {
			case neoHash:
				tok = 0
			case gasHash:
				tok = 1
			}
			if tok < 0 {
				continue
			}
			if ev.Name == "Vote" && ok && tok == 0 {
				f.voteEvents++
			}
			if ev.Name != "Transfer" {
				continue
			}
			if !ok {
				f.faultedXfer = true
				continue
			}
			items := ev.Item.Value().([]stackitem.Item)
			if len(items) != 3 {
				return fmt.Errorf("block %d %s: Transfer event with %d fields", blk.Index, what, len(items))
			}
			from, e1 := hashOf(items[0])
			to, e2 := hashOf(items[1])
			amt, e3 := items[2].TryInteger()
			if e1 != nil || e2 != nil || e3 != nil {
				return fmt.Errorf("block %d %s: malformed Transfer event: %v %v %v", blk.Index, what, e1, e2, e3)
			}
			if amt.Sign() < 0 {
				// Auxiliary clause (not in the statement of C05; NEP-17 requires amounts >= 0 and the net-of-events clause presupposes it).
				return fmt.Errorf("block %d %s: Transfer event with negative amount %s (auxiliary clause: NEP-17 amounts are >= 0)", blk.Index, what, amt)
			}
			f.nTransfers++
			addNet(tok, from, amt, -1)
			addNet(tok, to, amt, +1)
			if tok == 0 && amt.Sign() > 0 {
				if from != nil {
					f.neoMoved[*from] = true
				}
				if to != nil {
					f.neoMoved[*to] = true
				}
			}
			if tok == 1 && from != nil && *from == notaryHash && to != nil && isTx { // not the fee burn of a Notary-paid tx
				f.fromNotary = true
			}
			if isTx && from != nil {
				if f.fromByNonce[nonce] == nil {
					f.fromByNonce[nonce] = map[util.Uint160]bool{}
				}
				f.fromByNonce[nonce][*from] = true
			}
		}
		return nil
	}
	aers, err := bc.GetAppExecResults(blk.Hash(), trigger.All)
	if err != nil {
		return nil, fmt.Errorf("block %d: no application log of the block: %v", blk.Index, err)
	}
	if blk.Index > 0 && len(aers) != 2 {
		return nil, fmt.Errorf("block %d: %d block-level executions in the log, want OnPersist and PostPersist", blk.Index, len(aers))
	}
	for i := range aers {
		if aers[i].VMState != vmstate.Halt {
			return nil, fmt.Errorf("block %d: block-level execution %s is %s", blk.Index, aers[i].Trigger, aers[i].VMState)
		}
		if err := scan(&aers[i], aers[i].Trigger.String(), 0, false); err != nil {
			return nil, err
		}
	}
	for ti, tx := range blk.Transactions {
		ta, err := bc.GetAppExecResults(tx.Hash(), trigger.Application)
		if err != nil || len(ta) != 1 {
			return nil, fmt.Errorf("block %d tx %d: application log: %d entries, %v", blk.Index, ti, len(ta), err)
		}
		if err := scan(&ta[0], fmt.Sprintf("tx %d (%s)", ti, ta[0].VMState), tx.Nonce, true); err != nil {
			return nil, err
		}
	}
	f.nTxs = len(blk.Transactions)
	return f, nil
}

// deltas compares the balance changes between two snapshots with the net event amounts.
func deltas(prev, cur *snap, f *blockFacts) error {
	for tok := 0; tok < 2; tok++ {
		name := [2]string{"NEO", "GAS"}[tok]
		bal := func(s *snap, h util.Uint160) *big.Int {
			if tok == 0 {
				if a := s.neo[h]; a != nil {
					return &a.Balance
				}
			} else if b := s.gas[h]; b != nil {
				return b
			}
			return new(big.Int)
		}
		seen := map[util.Uint160]bool{}
		if tok == 0 {
			for h := range prev.neo {
				seen[h] = true
			}
			for h := range cur.neo {
				seen[h] = true
			}
		} else {
			for h := range prev.gas {
				seen[h] = true
			}
			for h := range cur.gas {
				seen[h] = true
			}
		}
		for h := range f.net[tok] {
			seen[h] = true
		}
		for _, h := range sortedHashes(seen) {
			d := new(big.Int).Sub(bal(cur, h), bal(prev, h))
			n := f.net[tok][h]
			if n == nil {
				n = new(big.Int)
			}
			if d.Cmp(n) != 0 {
				return fmt.Errorf("block %d: %s balance of %s changed by %s (%s -> %s) but the Transfer events of the successful executions of the block net to %s",
					cur.height, name, h.StringLE(), d, bal(prev, h), bal(cur, h), n)
			}
		}
	}
	return nil
}

// ---- bootstrap (genesis, block 1, block 2) verified on a replica, once per chain configuration -------------------

var (
	bootMu   sync.Mutex
	bootMemo = map[string]string{} // chain cfg JSON -> "" or error text
)

func checkBootstrap(chain ck.ChainCfg, boot [][]byte) error {
	kb, _ := json.Marshal(chain)
	bootMu.Lock()
	defer bootMu.Unlock()
	if r, ok := bootMemo[string(kb)]; ok {
		if r == "" {
			return nil
		}
		return errors.New(r)
	}
	err := func() error {
		n, err := ck.NewNode(chain, ck.NodeCfg{Backend: "mem"}, nil)
		if err != nil {
			return fmt.Errorf("bootstrap replica: %v", err)
		}
		defer n.Close()
		var nt notaryTracker
		prev, err := take(n.BC)
		if err != nil {
			return err
		}
		if err := prev.invariants(); err != nil {
			return err
		}
		if err := nt.check(prev); err != nil {
			return err
		}
		for _, raw := range boot {
			blk, err := ck.DecodeBlock(raw, chain.SRIH)
			if err != nil {
				return err
			}
			if err := n.BC.AddBlock(blk); err != nil {
				return fmt.Errorf("bootstrap replica rejects block %d: %v", blk.Index, err)
			}
			cur, err := take(n.BC)
			if err != nil {
				return err
			}
			if err := cur.invariants(); err != nil {
				return err
			}
			if err := nt.check(cur); err != nil {
				return err
			}
			f, err := collect(n.BC, blk)
			if err != nil {
				return err
			}
			if err := deltas(prev, cur, f); err != nil {
				return err
			}
			prev = cur
		}
		return nil
	}()
	if err != nil {
		bootMemo[string(kb)] = err.Error()
	} else {
		bootMemo[string(kb)] = ""
	}
	return err
}

// ---- check -------------------------------------------------------------------------------------------------

func checkCase(c Case, o *vt.Obs) error {
	b, err := ck.NewBuilder(c.Chain)
	if err != nil {
		return fmt.Errorf("builder: %v", err)
	}
	defer b.Close()
	boot, err := b.Bootstrap()
	if err != nil {
		return fmt.Errorf("bootstrap: %v", err)
	}
	if err := checkBootstrap(c.Chain, boot); err != nil {
		return err
	}
	bc := b.N.BC
	cs, _ := c.Chain.Sizes()
	prev, err := take(bc)
	if err != nil {
		return err
	}
	if err := prev.invariants(); err != nil {
		return err
	}
	// Fixed prologue block 3: account 2 deploys XF (checked like every other block: it is the first element of the loop below).
	dw := io.NewBufBinWriter()
	emit.AppCall(dw.BinWriter, nativehashes.ContractManagement, "deploy", callflag.All, xf.NEF, xf.Manifest)
	prologue := ck.BlockSpec{TimeD: 1000, Txs: []ck.Action{{Kind: "raw", From: xfDeployer, V: dw.Bytes(), Nonce: 0xC05}}}
	// The bootstrap replica has verified heights 0..2; on staggered-hardfork chains the Notary contract does not exist
	// yet at height 2, so the tracker starts from the GAS its hash holds now.
	var nt notaryTracker
	if prev.notaryOn {
		nt.surplus = new(big.Int) // exact clause from here on
	}
	if err := nt.check(prev); err != nil {
		return err
	}
	labels := map[string]bool{}
	nontrivial := false
	units, excluded := 0, 0
	for i, spec := range append([]ck.BlockSpec{prologue}, c.Blocks...) {
		i-- // -1: prologue
		byNonce := map[uint32]ck.Action{}
		for _, a := range spec.Txs {
			byNonce[a.Nonce] = a
		}
		blk, err := buildBlock(b, spec, &excluded)
		if err != nil {
			return fmt.Errorf("block spec %d: %v", i, err)
		}
		cur, err := take(bc)
		if err != nil {
			return err
		}
		if i < 0 {
			if bc.GetContractState(xfHash) == nil || len(b.Rejected) != 0 {
				return fmt.Errorf("prologue: XF contract not deployed (rejected: %v)", b.Rejected)
			}
			b.Deployed = append(b.Deployed, ck.Deployed{Hash: xfHash, C: xf, Deployer: xfDeployer})
		}
		if cur.height != blk.Index {
			return fmt.Errorf("block spec %d: height %d after adding block %d", i, cur.height, blk.Index)
		}
		if err := cur.invariants(); err != nil {
			return err
		}
		if err := nt.check(cur); err != nil {
			return err
		}
		if !cur.notaryOn {
			labels["notary-contract-not-yet-deployed"] = true
		}
		f, err := collect(bc, blk)
		if err != nil {
			return err
		}
		if err := deltas(prev, cur, f); err != nil {
			return err
		}
		units += 1 + len(blk.Transactions)

		// ---- classification (no verdicts below) ----
		epoch := int(blk.Index)%cs == 0
		rewards := false
		if epoch {
			for k, v := range cur.gpv {
				if pv, ok := prev.gpv[k]; !ok || pv != v {
					rewards = true
				}
			}
		}
		if rewards {
			labels["epoch-boundary-with-voter-rewards"] = true
			nontrivial = true
		}
		voterMoved := false
		for h := range f.neoMoved {
			if a := prev.neo[h]; a != nil && a.VoteTo != nil {
				voterMoved = true
			}
			if a := cur.neo[h]; a != nil && a.VoteTo != nil {
				voterMoved = true
			}
		}
		if voterMoved {
			labels["neo-transfer-of-voter"] = true
		}
		if f.voteEvents > 0 && voterMoved {
			labels["vote-and-neo-transfer-of-voter-in-one-block"] = true
			nontrivial = true
		}
		if f.fromNotary {
			withdrawn := false
			for h := range prev.deposits {
				if cur.deposits[h] == nil {
					withdrawn = true
				}
			}
			if withdrawn {
				labels["deposit-withdrawn"] = true
				nontrivial = true
			}
		}
		for h, d := range cur.deposits {
			if p := prev.deposits[h]; p != nil && p.Amount.Cmp(d.Amount) < 0 {
				labels["deposit-topped-up"] = true
			}
		}
		if f.faultedXfer {
			labels["faulted-tx-with-transfers-before-fault"] = true
		}
		for h := range cur.blocked {
			if !prev.blocked[h] {
				if a := prev.neo[h]; a != nil && a.VoteTo != nil {
					labels["blocked-voter"] = true
					if ca := cur.neo[h]; ca != nil && ca.VoteTo == nil {
						labels["blocked-voter-votes-revoked"] = true
					}
				}
			}
		}
		for k, pc := range prev.cands {
			if _, ok := cur.cands[k]; !ok {
				labels["candidate-dropped-at-zero"] = true
			} else if cc := cur.cands[k]; pc.registered && !cc.registered && cc.votes.Sign() > 0 {
				labels["candidate-unregistered-with-votes"] = true
			} else if !pc.registered && cc.registered && pc.votes.Sign() > 0 {
				labels["candidate-reregistered-while-voted"] = true
			}
		}
		for h, pa := range prev.neo {
			if cur.neo[h] == nil && pa.VoteTo != nil {
				labels["voting-account-emptied"] = true
			}
		}
		for h := range prev.gas {
			if cur.gas[h] == nil {
				labels["gas-account-emptied"] = true
			}
		}
		for _, tx := range blk.Transactions {
			a, ok := byNonce[tx.Nonce]
			if ok && a.Kind == "c05_notary_tx" {
				if !f.haltByNonce[tx.Nonce] {
					labels["notary-assisted-tx-faulted"] = true
				}
				payer := ck.Accounts[((a.From%ck.NAccounts)+ck.NAccounts)%ck.NAccounts].Hash
				if a.B != 3 && prev.deposits[payer] != nil && cur.deposits[payer] == nil && !f.fromNotary {
					labels["deposit-consumed-by-fees"] = true
				}
			}
			if !ok || !f.haltByNonce[tx.Nonce] {
				continue
			}
			switch a.Kind {
			case "c05_reenter":
				if f.fromByNonce[tx.Nonce][b.PartyHash(ck.PContract0+a.A)] {
					labels["payment-callback-reentry"] = true
				}
				if a.B == 4 {
					labels["try-wrapped-transfer"] = true
				}
			case "c05_notary_tx":
				labels["notary-assisted-tx"] = true
				if a.B != 3 {
					labels["fees-charged-to-deposit"] = true
				}
			case "c05_try":
				switch kb(a.K, 1) {
				case 1:
					labels["try-wrapped-transfer"] = true
				case 3, 4:
					labels["caught-exception-after-transfer"] = true
				case 5:
					labels["caught-exception-after-vote"] = true
				case 6:
					labels["contract-votes"] = true
				}
			}
		}
		if com, err := bc.GetCommittee(); err == nil && len(com) > 0 {
			elected := false
			for _, p := range com {
				std := false
				for _, k := range ck.CommitteeKeys[:cs] {
					if k.Pub.Equal(p) {
						std = true
					}
				}
				if !std {
					elected = true
				}
			}
			if elected {
				labels["elected-committee"] = true
			}
		}
		prev = cur
	}
	o.Units(units)
	o.Labelf("profile-%s", c.Chain.Profile)
	if c.Chain.HFStagger {
		o.Label("hf-stagger")
	}
	var ls []string
	for l := range labels {
		ls = append(ls, l)
	}
	sort.Strings(ls)
	for _, l := range ls {
		o.Label(l)
	}
	for _, l := range b.FlowLabels() {
		o.Label(l)
	}
	var rs []string
	for k, v := range b.Rejected {
		if v > 0 {
			rs = append(rs, k)
		}
	}
	sort.Strings(rs)
	for _, k := range rs {
		o.Label("rejected/" + k)
	}
	if excluded > 0 {
		o.Excluded()
		o.Label("excluded/" + knownNotaryFee)
	}
	if nontrivial {
		o.NonTrivial()
	}
	return nil
}

func init() {
	vt.PropertyID = "C05"
	vt.Register("conservation", 1.0, genCase, checkCase)
}
