package c10race

import (
	"testing"

	"verifharness/vt"
)

func TestProp(t *testing.T)   { vt.RunAll(t, 60) }
func TestReplay(t *testing.T) { vt.ReplayAll(t) }
