// Package c10race is the part of property C10 that is compiled with the race detector: one generated check of the
// read-only store built over a historic state root (mpt.TrieStore), used the way a historic invocation uses it.
package c10race

import (
	"bytes"
	"context"
	"fmt"
	"sort"

	"github.com/nspcc-dev/neo-go/pkg/core/mpt"
	"github.com/nspcc-dev/neo-go/pkg/core/storage"
	"pgregory.net/rapid"
	"verifharness/vt"
)

// IterCase: the DAO of a historic invocation is a MemCachedStore over a TrieStore. System.Storage.Find opens an
// asynchronous iterator (SeekAsync: a goroutine walks the trie and hands the items over one by one) and the script
// goes on reading OTHER items (Storage.Get: the VM goroutine walks the same trie) while it consumes the iterator.
// Whatever the interleaving, every item the iterator yields and every value read is the one the state holds, the
// iterator yields all items of the prefix in order - and (race detector) the two goroutines do not touch the same
// memory unsynchronised: both resolve and collapse nodes of one in-memory trie.
type IterCase struct {
	NKeys   int    `json:"nkeys"`
	Prefix  int    `json:"prefix"`  // first byte of the scanned keys (0..2)
	Stride  int    `json:"stride"`  // which other key is read after the i-th item
	PreGet  bool   `json:"pre_get"` // a Get before the iterator is opened (the root of the trie is resolved then)
	Seed    uint64 `json:"seed"`
	Mode    int    `json:"mode"` // 0 ModeAll 1 ModeLatest 2 ModeGC
	GetMiss bool   `json:"get_miss"`
	// Early: reads made right after the iterator was opened, before its first item is taken (Storage.Find followed
	// by Storage.Get before the first Iterator.Next): nothing orders them with the start of the producer goroutine.
	Early int `json:"early,omitempty"`
}

func genIterCase(t *rapid.T) IterCase {
	return IterCase{
		NKeys:   rapid.SampledFrom([]int{3, 17, 120, 600}).Draw(t, "nkeys"),
		Prefix:  rapid.IntRange(0, 2).Draw(t, "prefix"),
		Stride:  rapid.SampledFrom([]int{1, 7, 13, 101}).Draw(t, "stride"),
		PreGet:  rapid.Bool().Draw(t, "pre_get"),
		Seed:    rapid.Uint64().Draw(t, "seed"),
		Mode:    rapid.IntRange(0, 2).Draw(t, "mode"),
		GetMiss: rapid.Bool().Draw(t, "get_miss"),
		Early:   rapid.SampledFrom([]int{0, 1, 2, 5}).Draw(t, "early"),
	}
}

func checkIterCase(c IterCase, o *vt.Obs) error {
	if c.NKeys < 1 || c.NKeys > 5000 || c.Stride < 1 {
		return nil
	}
	mode := []mpt.TrieMode{mpt.ModeAll, mpt.ModeLatest, mpt.ModeGC}[((c.Mode%3)+3)%3]
	st := storage.NewMemCachedStore(storage.NewMemoryStore())
	tr := mpt.NewTrie(nil, mode, st)
	items := map[string][]byte{}
	var keys []string
	x := c.Seed | 1
	for i := 0; i < c.NKeys; i++ {
		x ^= x << 13
		x ^= x >> 7
		x ^= x << 17
		k := []byte{byte(storage.STStorage), byte(i % 3), 0, 0, 0, byte(x), byte(x >> 8), byte(i), byte(i >> 8)}
		if _, ok := items[string(k)]; ok {
			continue
		}
		items[string(k)] = []byte(fmt.Sprintf("v%d-%x", i, byte(x>>16)))
		keys = append(keys, string(k))
	}
	if _, err := tr.PutBatch(mpt.MapToMPTBatch(items)); err != nil {
		return fmt.Errorf("harness: PutBatch: %v", err)
	}
	tr.Flush(1)
	if _, err := st.Persist(); err != nil {
		return err
	}
	ts := mpt.NewTrieStore(tr.StateRoot(), mode&^mpt.ModeGCFlag, storage.NewPrivateMemCachedStore(st))
	dao := storage.NewMemCachedStore(ts)
	sort.Strings(keys)
	pfx := []byte{byte(storage.STStorage), byte(c.Prefix % 3)}
	var want []string
	for _, k := range keys {
		if bytes.HasPrefix([]byte(k), pfx) {
			want = append(want, k)
		}
	}
	if c.PreGet {
		if v, err := dao.Get([]byte(keys[0])); err != nil || !bytes.Equal(v, items[keys[0]]) {
			return fmt.Errorf("Get(%x) before the scan: %x, %v", keys[0], v, err)
		}
	}
	ctx, cancel := context.WithCancel(context.Background())
	defer cancel()
	ch := dao.SeekAsync(ctx, storage.SeekRange{Prefix: pfx}, false)
	for i := 0; i < c.Early && i < 50; i++ {
		k := keys[(i*c.Stride)%len(keys)]
		if v, err := dao.Get([]byte(k)); err != nil || !bytes.Equal(v, items[k]) {
			return fmt.Errorf("Get(%x) right after the iterator was opened: %x, %v; the state has %x", k, v, err, items[k])
		}
	}
	if c.Early > 0 {
		o.Label("early-gets")
	}
	n := 0
	for kv := range ch {
		if n >= len(want) {
			return fmt.Errorf("the iterator yields more than the %d items of the prefix: %x", len(want), kv.Key)
		}
		if string(kv.Key) != want[n] || !bytes.Equal(kv.Value, items[want[n]]) {
			return fmt.Errorf("item %d of the iterator is %x=%x, the state has %x=%x there", n, kv.Key, kv.Value, want[n], items[want[n]])
		}
		// the script reads another item while it iterates
		k := keys[(n*c.Stride+1)%len(keys)]
		v, err := dao.Get([]byte(k))
		if err != nil || !bytes.Equal(v, items[k]) {
			return fmt.Errorf("Get(%x) while item %d of the iterator was being consumed: %x, %v; the state has %x", k, n, v, err, items[k])
		}
		if c.GetMiss {
			miss := append([]byte(k), 0xee)
			if v, err := dao.Get(miss); err == nil {
				return fmt.Errorf("Get of the absent key %x while iterating returned %x", miss, v)
			}
		}
		n++
	}
	if n != len(want) {
		return fmt.Errorf("the iterator yielded %d items, the prefix has %d", n, len(want))
	}
	o.Units(n)
	if n >= 2 {
		o.NonTrivial()
	}
	o.Labelf("items>=%d", map[bool]int{true: 100, false: 0}[n >= 100])
	return nil
}

func init() {
	vt.PropertyID = "C10"
	vt.Register("triestore-iterator", 1.0, genIterCase, checkIterCase)
}
