package c02

import (
	"encoding/json"
	"os"
	"path/filepath"
	"strings"
	"testing"

	"verifharness/vt"
)

func TestProp(t *testing.T)   { vt.RunAll(t, 30) }
func TestReplay(t *testing.T) { vt.ReplayAll(t) }

// TestKnownFindings re-confirms the listed finding KnownResetRUB from its recorded case (a reset op on a node that
// removes untraceable blocks, which the generator does not draw while the finding is listed).
func TestKnownFindings(t *testing.T) {
	probeKnown(t, KnownResetRUB)
	strictKnown = true
	defer func() { strictKnown = false }()
	probeKnown(t, KnownResetConflictLost)
}

func probeKnown(t *testing.T, KnownResetRUB string) {
	if !vt.Known(KnownResetRUB) {
		t.Logf("%s: not listed as known: TestProp generates the shape itself", KnownResetRUB)
		return
	}
	root := os.Getenv("VERIF_ROOT")
	if root == "" {
		root = "/verif"
	}
	raw, err := os.ReadFile(filepath.Join(root, "replays", "C02", "known", KnownResetRUB+".json"))
	if err != nil {
		t.Logf("%s: %v", KnownResetRUB, err)
		return
	}
	var env struct {
		Case Case `json:"case"`
	}
	if err := json.Unmarshal(raw, &env); err != nil {
		t.Fatal(err)
	}
	var cerr error
	func() {
		defer func() {
			if r := recover(); r != nil {
				cerr = &panicErr{r}
			}
		}()
		cerr = checkCase(env.Case, &vt.Obs{})
	}()
	if cerr == nil {
		t.Logf("%s: the recorded case no longer fails", KnownResetRUB)
		return
	}
	s := cerr.Error()
	if i := strings.IndexByte(s, '\n'); i >= 0 {
		s = s[:i]
	}
	if len(s) > 500 {
		s = s[:500] + "..."
	}
	vt.KnownFinding(KnownResetRUB, s)
}

type panicErr struct{ v any }

func (p *panicErr) Error() string {
	if e, ok := p.v.(error); ok {
		return "PANIC: " + e.Error()
	}
	if s, ok := p.v.(string); ok {
		return "PANIC: " + s
	}
	return "PANIC"
}
