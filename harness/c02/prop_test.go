package c02

import (
	"testing"

	"verifharness/vt"
)

func TestProp(t *testing.T)   { vt.RunAll(t, 30) }
func TestReplay(t *testing.T) { vt.ReplayAll(t) }
