// Package c02 checks property C02: a crash at any flush boundary leaves a consistent, resumable chain prefix.
//
// A generated history is executed on one node whose backend is wrapped by a recording store, which yields the exact
// ordered list of atomic commits b1..bn (PutChangeSet / SeekGC). For every k in 0..n a fresh backend holding b1..bk
// is opened with NewBlockchain and compared with the uninterrupted reference.
package c02

import (
	"encoding/hex"
	"fmt"
	"runtime"
	"sort"
	"strings"

	"github.com/nspcc-dev/neo-go/pkg/core/state"
	"github.com/nspcc-dev/neo-go/pkg/core/transaction"
	"github.com/nspcc-dev/neo-go/pkg/io"

	"github.com/nspcc-dev/neo-go/pkg/core/block"
	"github.com/nspcc-dev/neo-go/pkg/core/storage"
	"pgregory.net/rapid"
	ck "verifharness/chainkit"
	"verifharness/vt"
)

// Op is one step of the node's life.
type Op struct {
	Kind  string         `json:"kind"`            // block | flush | gc | headers | reset | restart | race
	N     int            `json:"n,omitempty"`     // headers: how many ahead (1-3); reset: how many blocks back (1-4); race: blocks fed while a flusher spins (1-6)
	Specs []ck.BlockSpec `json:"specs,omitempty"` // reset: the different continuation built on the reset height
}

// Case is a history with a flush/GC/reset schedule.
type Case struct {
	Chain  ck.ChainCfg    `json:"chain"`
	Node   ck.NodeCfg     `json:"node"`
	Blocks []ck.BlockSpec `json:"blocks"`
	Ops    []Op           `json:"ops"`
	Sample int            `json:"sample"` // seed for sampling crash points when there are too many
}

const maxExhaustive = 90

// KnownResetRUB: Blockchain.Reset on a node with RemoveUntraceableBlocks (target still traceable) leaves a node that
// cannot go on (see known_findings.json).
const KnownResetRUB = "reset-on-node-removing-untraceable-blocks"

func genCase(t *rapid.T) Case {
	c := Case{Chain: ck.GenChainCfg(t, true), Sample: rapid.IntRange(0, 1000).Draw(t, "sample")}
	c.Node.Backend = "mem"
	gcMode := rapid.IntRange(0, 2).Draw(t, "gcmode") == 0
	if gcMode {
		c.Node.RemoveUntraceable = true
		c.Node.GCPeriod = uint32(rapid.IntRange(1, 3).Draw(t, "gcp"))
		c.Chain.MTB = uint32(rapid.IntRange(6, 12).Draw(t, "mtb"))
	} else if rapid.IntRange(0, 4).Draw(t, "latest") == 0 {
		c.Node.KeepOnlyLatest = true
	}
	bias := ck.BalancedBias(c.Chain.P2PSig)
	bias.Storage = 6
	nb := rapid.IntRange(4, 20).Draw(t, "nblocks")
	for i := 0; i < nb; i++ {
		c.Blocks = append(c.Blocks, ck.GenBlock(t, bias, 4))
	}
	nops := rapid.IntRange(nb, nb+14).Draw(t, "nops")
	resets := 0
	for i := 0; i < nops; i++ {
		kinds := []string{"block", "block", "block", "block", "flush", "flush", "headers", "restart", "race"}
		if gcMode {
			kinds = append(kinds, "gc", "gc", "gc")
		}
		if !c.Node.KeepOnlyLatest && resets < 2 {
			// A node that removes untraceable blocks can be reset too, as long as the target is traceable. That
			// shape is the listed finding KnownResetRUB: it is drawn only when the finding is not listed (the draw
			// itself is made in both cases so that cases stay comparable).
			if !gcMode || !vt.Known(KnownResetRUB) {
				kinds = append(kinds, "reset")
			}
		}
		op := Op{Kind: rapid.SampledFrom(kinds).Draw(t, "op")}
		switch op.Kind {
		case "headers":
			op.N = rapid.IntRange(1, 3).Draw(t, "ahead")
		case "race":
			op.N = rapid.IntRange(1, 6).Draw(t, "raced")
		case "reset":
			resets++
			op.N = rapid.IntRange(1, 4).Draw(t, "back")
			for j := rapid.IntRange(1, 4).Draw(t, "ncont"); j > 0; j-- {
				op.Specs = append(op.Specs, ck.GenBlock(t, bias, 3))
			}
			// the first block after the reset asks the Ledger contract about the block the node was reset to (the
			// in-memory top block of the node is rebuilt by the reset)
			if rapid.IntRange(0, 2).Draw(t, "ask") == 0 {
				q := ck.Action{Kind: "ledger_q", From: rapid.IntRange(0, 3).Draw(t, "asker"), A: 0, B: rapid.IntRange(0, 1).Draw(t, "txidx"),
					N: rapid.Int64Range(0, 1).Draw(t, "q"), Nonce: rapid.Uint32().Draw(t, "qnonce")}
				op.Specs[0].Txs = append([]ck.Action{q}, op.Specs[0].Txs...)
			}
		}
		c.Ops = append(c.Ops, op)
	}
	return c
}

// KnownResetConflictLost: see known_findings.json. A hash named by Conflicts attributes below AND above the reset height
// has one record per (hash) and per (hash, signer) holding the LATEST height only: removing the blocks above the target
// cannot bring the earlier height back, the records are deleted and the named transaction becomes acceptable on the
// reset node while a node that only synchronised to the target refuses it.
const KnownResetConflictLost = "reset-loses-conflict-record-overwritten-by-removed-block"

// strictKnown switches the exclusion of KnownResetConflictLost off (probe).
var strictKnown bool

// cmpConflictRecords compares the conflict records of a node that only synchronised to the reset height (want) with
// those of the reset node (got); removed = the encoded blocks the reset took away.
func cmpConflictRecords(want, got map[string]string, removed [][]byte, srih bool, o *vt.Obs, lost map[string]bool) error {
	renamed := map[string]bool{} // hashes named by Conflicts attributes of removed blocks
	for _, raw := range removed {
		blk, err := ck.DecodeBlock(raw, srih)
		if err != nil {
			return err
		}
		for _, tx := range blk.Transactions {
			for _, a := range tx.GetAttributes(transaction.ConflictsT) {
				renamed[hex.EncodeToString(a.Value.(*transaction.Conflicts).Hash.BytesBE())] = true
			}
		}
	}
	if len(renamed) > 0 {
		o.Label("reset-removes-blocks-with-conflicts-attributes")
	}
	keys := map[string]bool{}
	for k := range want {
		keys[k] = true
	}
	for k := range got {
		keys[k] = true
	}
	var ks []string
	for k := range keys {
		ks = append(ks, k)
	}
	sort.Strings(ks)
	excluded := false
	for _, k := range ks {
		if want[k] == got[k] {
			continue
		}
		h := k[2:66]
		_, below := want["01"+h]
		if below && (renamed[h] || lost[h]) && !strictKnown && vt.Known(KnownResetConflictLost) {
			// (lost: an earlier reset of this history has hit the listed shape for this hash: the record is gone for good)
			lost[h] = true
			excluded = true
			continue
		}
		return fmt.Errorf("record %s: reset node has %q, the node that only synchronised to the target has %q (hash named by removed blocks: %v, named at or below the target: %v)", k, got[k], want[k], renamed[h], below)
	}
	if excluded {
		o.Excluded()
		o.Label("excl:" + KnownResetConflictLost)
	}
	return nil
}

// branch is one line of blocks (shared prefixes are copied).
type branch struct {
	raws  [][]byte  // raws[i] = block of height i+1
	dumps []ck.Dump // dumps[i] = reference dump at height i+1
	roots []string  // state root at height i+1
}

func (b *branch) height() uint32 { return uint32(len(b.raws)) }

// segment describes which branch / height bound applies to crash points k in (from, to].
type segment struct {
	from, to int // commit counts before / after the op
	br       *branch
	bound    uint32 // last accepted height after the op
	kind     string
	resetTo  uint32
	prev     *branch // branch before a reset op
}

func refPoint(b *ck.Builder) (ck.Dump, string) {
	d := ck.FullDump(b.N.BC, nil)
	return d, d["stateroot"]
}

func checkCase(c Case, o *vt.Obs) error {
	b, err := ck.NewBuilder(c.Chain)
	if err != nil {
		return fmt.Errorf("builder: %v", err)
	}
	defer func() { b.Close() }()
	boot, err := b.Bootstrap()
	if err != nil {
		return fmt.Errorf("bootstrap: %v", err)
	}
	cur := &branch{}
	// Reference dumps of the bootstrap heights need a replay (the builder is already past them): use a scratch node.
	{
		sn, err := ck.NewNode(c.Chain, ck.NodeCfg{Backend: "mem"}, nil)
		if err != nil {
			return err
		}
		for _, raw := range boot {
			blk, _ := ck.DecodeBlock(raw, c.Chain.SRIH)
			if err := sn.BC.AddBlock(blk); err != nil {
				sn.Close()
				return fmt.Errorf("scratch node rejects bootstrap block: %v", err)
			}
			d := ck.FullDump(sn.BC, nil)
			cur.raws = append(cur.raws, raw)
			cur.dumps = append(cur.dumps, d)
			cur.roots = append(cur.roots, d["stateroot"])
		}
		sn.Close()
	}

	var rec *ck.RecStore
	wrap := func(st storage.Store) storage.Store {
		if rec == nil {
			rec = ck.NewRecStore(st)
		}
		return rec
	}
	n, err := ck.NewNode(c.Chain, c.Node, wrap)
	if err != nil {
		return fmt.Errorf("node: %v", err)
	}
	defer n.Close()

	var segs []segment
	queue := append([]ck.BlockSpec{}, c.Blocks...)
	delivered := uint32(0) // height the node has accepted
	mark := func(kind string, from int, prev *branch, resetTo uint32) {
		segs = append(segs, segment{from: from, to: rec.Count(), br: cur, bound: delivered, kind: kind, prev: prev, resetTo: resetTo})
	}
	feed := func(upTo uint32) error {
		for delivered < upTo {
			blk, err := ck.DecodeBlock(cur.raws[delivered], c.Chain.SRIH)
			if err != nil {
				return err
			}
			if err := n.BC.AddBlock(blk); err != nil {
				return fmt.Errorf("node under test rejects block %d accepted by the reference: %v", blk.Index, err)
			}
			delivered++
		}
		return nil
	}
	buildNext := func() (bool, error) {
		if len(queue) == 0 {
			return false, nil
		}
		spec := queue[0]
		queue = queue[1:]
		raw, _, err := b.BuildBlock(spec)
		if err != nil {
			return false, fmt.Errorf("build: %v", err)
		}
		d, root := refPoint(b)
		cur.raws = append(cur.raws, raw)
		cur.dumps = append(cur.dumps, d)
		cur.roots = append(cur.roots, root)
		return true, nil
	}
	start := rec.Count()
	if err := feed(cur.height()); err != nil {
		return err
	}
	mark("boot", start, nil, 0)
	sawGC, sawReset, sawHeaders, sawRace := false, false, false, false
	lostConflicts := map[string]bool{} // hashes whose conflict record an earlier reset of this history lost (listed finding)
	refused := false
	for i, op := range c.Ops {
		from := rec.Count()
		switch op.Kind {
		case "block":
			if delivered == cur.height() {
				ok, err := buildNext()
				if err != nil {
					return fmt.Errorf("op %d: %v", i, err)
				}
				if !ok {
					continue
				}
			}
			if err := feed(delivered + 1); err != nil {
				return fmt.Errorf("op %d: %v", i, err)
			}
		case "flush":
			if err := n.BC.VerifPersist(); err != nil {
				return fmt.Errorf("op %d: persist: %v", i, err)
			}
		case "race":
			// The production flusher is a timer goroutine that runs while blocks are being processed: here it spins.
			// The interleaving is the scheduler's (not replayable); every commit it issues is a crash point as usual.
			stop, done := make(chan struct{}), make(chan error, 1)
			go func() {
				var first error
				for {
					select {
					case <-stop:
						done <- first
						return
					default:
					}
					if err := n.BC.VerifPersist(); err != nil && first == nil {
						first = err
					}
					runtime.Gosched()
				}
			}()
			var ferr error
			for j := 0; j < op.N && ferr == nil; j++ {
				if delivered == cur.height() {
					ok, err := buildNext()
					if err != nil || !ok {
						ferr = err
						break
					}
				}
				ferr = feed(delivered + 1)
			}
			close(stop)
			if err := <-done; err != nil {
				return fmt.Errorf("op %d: persist racing with blocks: %v", i, err)
			}
			if ferr != nil {
				return fmt.Errorf("op %d: %v", i, ferr)
			}
			sawRace = true
		case "gc":
			if err := n.BC.VerifPersistAndGC(); err != nil {
				return fmt.Errorf("op %d: persist+gc: %v", i, err)
			}
			sawGC = true
		case "restart":
			if err := n.Restart(); err != nil {
				return fmt.Errorf("op %d: restart: %v", i, err)
			}
		case "headers":
			for cur.height() < delivered+uint32(op.N) {
				ok, err := buildNext()
				if err != nil {
					return fmt.Errorf("op %d: %v", i, err)
				}
				if !ok {
					break
				}
			}
			var hs []*block.Header
			for h := delivered; h < cur.height() && h < delivered+uint32(op.N); h++ {
				blk, err := ck.DecodeBlock(cur.raws[h], c.Chain.SRIH)
				if err != nil {
					return err
				}
				hdr := blk.Header
				hs = append(hs, &hdr)
			}
			if len(hs) == 0 {
				continue
			}
			if err := n.BC.AddHeaders(hs...); err != nil {
				return fmt.Errorf("op %d: AddHeaders of valid headers failed: %v", i, err)
			}
			if err := n.BC.VerifPersist(); err != nil {
				return fmt.Errorf("op %d: persist: %v", i, err)
			}
			sawHeaders = true
		case "reset":
			if delivered < uint32(op.N)+3 {
				continue
			}
			target := delivered - uint32(op.N)
			prev := cur
			// The node is stopped first (the CLI works on a stopped node); its final flush is an ordinary commit.
			n.Stop()
			mark("stop", from, nil, 0)
			from = rec.Count()
			if err := n.ResetTo(target); err != nil {
				if strings.Contains(err.Error(), "a necessary batch of traceable blocks has already been removed") {
					// documented refusal of a node that removes untraceable blocks: nothing may have changed
					refused = true
				} else {
					return fmt.Errorf("op %d: Reset(%d) from height %d failed: %v", i, target, delivered, err)
				}
			}
			if refused {
				refused = false
				o.Label("reset-refused:blocks-removed")
				if h := n.BC.BlockHeight(); h != delivered {
					return fmt.Errorf("op %d: refused reset changed the height from %d to %d", i, delivered, h)
				}
				mark("stop", from, nil, 0)
				continue
			}
			// New branch: replay the common prefix on a fresh builder, then a different continuation.
			nb, err := ck.NewBuilder(c.Chain)
			if err != nil {
				return err
			}
			nbr := &branch{}
			for h := uint32(0); h < target; h++ {
				blk, err := ck.DecodeBlock(prev.raws[h], c.Chain.SRIH)
				if err != nil {
					nb.Close()
					return err
				}
				if err := nb.N.BC.AddBlock(blk); err != nil {
					nb.Close()
					return fmt.Errorf("fresh builder rejects block %d: %v", h+1, err)
				}
				nbr.raws = append(nbr.raws, prev.raws[h])
				nbr.dumps = append(nbr.dumps, prev.dumps[h])
				nbr.roots = append(nbr.roots, prev.roots[h])
			}
			// "a completed reset to height h leaves the node indistinguishable from one that only ever synchronised to
			// h": the conflict records (they decide which transactions named by on-chain Conflicts attributes are
			// acceptable) of the reset node equal those of the fresh node that got blocks 1..h only.
			if err := nb.N.BC.VerifPersist(); err != nil {
				nb.Close()
				return err
			}
			if err := cmpConflictRecords(ck.ConflictRecords(nb.N.Base()), ck.ConflictRecords(n.Base()), prev.raws[target:delivered], c.Chain.SRIH, o, lostConflicts); err != nil {
				nb.Close()
				return fmt.Errorf("op %d: after the completed reset from height %d to %d the conflict records differ from those of a node that only synchronised to %d: %v", i, delivered, target, target, err)
			}
			nb.Deployed = b.Deployed
			nb.TxHashes = nil
			b.Close()
			b = nb
			cur = nbr
			delivered = target
			queue = append(append([]ck.BlockSpec{}, op.Specs...), queue...)
			sawReset = true
			mark("reset", from, prev, target)
			continue
		}
		mark(op.Kind, from, nil, 0)
	}
	// Build whatever is still queued so that crash states have a continuation to accept (bounded).
	for i := 0; i < 3; i++ {
		if ok, err := buildNext(); err != nil || !ok {
			break
		}
	}
	total := rec.Count()
	n.Stop() // the final flush on Close adds commits; they are covered too
	total = rec.Count()
	segs = append(segs, segment{from: segs[len(segs)-1].to, to: total, br: cur, bound: delivered, kind: "close"})

	// ---- crash point enumeration ----
	points := make([]int, 0, total+1)
	if total <= maxExhaustive {
		for k := 0; k <= total; k++ {
			points = append(points, k)
		}
		o.Label("exhaustive-history")
	} else {
		step := total/maxExhaustive + 1
		for k := c.Sample % step; k <= total; k += step {
			points = append(points, k)
		}
		for _, s := range segs { // always include everything around GC / reset / header commits
			if s.kind == "gc" || s.kind == "reset" || s.kind == "headers" || s.kind == "race" {
				for k := s.from; k <= s.to && k <= total; k++ {
					points = append(points, k)
				}
			}
		}
		o.Label("sampled-history")
	}
	var resetFinal map[int]map[string]string // reset segment index -> RawDump right after the completed reset
	resetFinal = map[int]map[string]string{}
	for si, s := range segs {
		if s.kind == "reset" {
			resetFinal[si] = ck.RawDump(rec.Materialise(s.to))
		}
	}
	nonBoundary := 0
	done := map[int]bool{}
	for _, k := range points {
		if done[k] {
			continue
		}
		done[k] = true
		// ci: the op that issued commit k (from < k <= to); -1 for k == 0 or when k is not inside any committing op.
		// si: the latest op completed with exactly k commits issued (non-committing ops such as AddBlock follow
		// the committing one): it gives the branch and the last accepted height at the moment of the crash.
		ci, si := -1, 0
		for i, s := range segs {
			if k > s.from && k <= s.to {
				ci = i
			}
			if s.to <= k {
				si = i
			}
		}
		if ci >= 0 && k < segs[ci].to {
			si = ci // strictly inside an op: that op is still in progress
		}
		if ci >= 0 && (k < segs[ci].to || segs[ci].kind == "gc" || segs[ci].kind == "reset" || segs[ci].kind == "headers" || segs[ci].kind == "race") {
			nonBoundary++
		}
		if err := checkCrashPoint(c, rec, k, segs, ci, si, resetFinal); err != nil {
			kind := "-"
			if ci >= 0 {
				kind = segs[ci].kind
			}
			return fmt.Errorf("crash after commit %d of %d (commit issued by op %q): %v", k, total, kind, err)
		}
	}
	o.Units(len(done))
	if sawGC {
		o.Label("gc")
	}
	if sawReset {
		o.Label("reset")
	}
	for _, l := range b.FlowLabels() {
		if strings.HasPrefix(l, "ledger-question") {
			o.Label("flow:" + l)
		}
	}
	if sawHeaders {
		o.Label("headers-ahead")
	}
	if sawRace {
		o.Label("flusher-racing-with-blocks")
	}
	if nonBoundary > 0 {
		o.NonTrivial()
	}
	return nil
}

func checkCrashPoint(c Case, rec *ck.RecStore, k int, segs []segment, ci, si int, resetFinal map[int]map[string]string) error {
	st := rec.Materialise(k)
	n, err := ck.NewNodeOnStore(c.Chain, c.Node, st)
	if err != nil {
		return fmt.Errorf("reopening fails: %v", err)
	}
	defer n.Close()
	h := n.BC.BlockHeight()
	hh := n.BC.HeaderHeight()
	if hh < h {
		return fmt.Errorf("header height %d below block height %d", hh, h)
	}
	s := segs[si]
	br := s.br
	bound := s.bound
	if ci >= 0 && segs[ci].kind == "reset" {
		rs := segs[ci]
		// Inside or right after a reset: the reopened node must have completed it.
		if h != rs.resetTo {
			return fmt.Errorf("interrupted reset to %d: reopened node is at height %d", rs.resetTo, h)
		}
		if hh != rs.resetTo {
			return fmt.Errorf("interrupted reset to %d: reopened node has header height %d", rs.resetTo, hh)
		}
		if err := n.BC.VerifPersist(); err != nil {
			return err
		}
		if d := diffRaw(resetFinal[ci], ck.RawDump(st)); d != "" {
			return fmt.Errorf("reset to %d resumed after the crash ends in a different database than the uninterrupted reset: %s", rs.resetTo, d)
		}
		if si == ci {
			br, bound = rs.br, rs.resetTo
		}
	}
	if h > bound {
		return fmt.Errorf("reopened node is at height %d, above the last accepted block %d", h, bound)
	}
	if h == 0 {
		// Before the first flush: a fresh chain. It must accept the history from block 1.
	} else {
		if int(h) > len(br.dumps) {
			return fmt.Errorf("reopened node is at height %d, the reference branch has %d blocks", h, len(br.dumps))
		}
		if d := ck.Diff(br.dumps[h-1], ck.FullDump(n.BC, nil)); d != "" {
			return fmt.Errorf("state of the reopened node at height %d differs from the uninterrupted node: %s", h, d)
		}
	}
	for i := h; i < br.height(); i++ {
		blk, err := ck.DecodeBlock(br.raws[i], c.Chain.SRIH)
		if err != nil {
			return err
		}
		if err := n.BC.AddBlock(blk); err != nil {
			return fmt.Errorf("reopened node (height %d, headers %d) rejects the remaining block %d: %v", h, hh, blk.Index, err)
		}
		sr, err := n.BC.GetStateModule().GetStateRoot(blk.Index)
		if err != nil {
			return fmt.Errorf("no state root for block %d after reopening: %v", blk.Index, err)
		}
		if sr.Root.StringLE() != br.roots[i] {
			return fmt.Errorf("state root of block %d after reopening at height %d is %s, reference %s", blk.Index, h, sr.Root.StringLE(), br.roots[i])
		}
	}
	if br.height() > h {
		if d := ck.Diff(br.dumps[br.height()-1], ck.FullDump(n.BC, nil)); d != "" {
			return fmt.Errorf("after catching up from the crash state at height %d the final state differs: %s", h, d)
		}
	}
	return nil
}

// normRaw canonicalises values whose byte encoding legitimately depends on Go map iteration order
// (STTokenTransferInfo: state.TokenTransferInfo encodes its LastUpdated map in iteration order).
func normRaw(m map[string]string) map[string]string {
	out := make(map[string]string, len(m))
	for k, v := range m {
		if strings.HasPrefix(k, "74") {
			b, _ := hex.DecodeString(v)
			var ti state.TokenTransferInfo
			r := io.NewBinReaderFromBuf(b)
			ti.DecodeBinary(r)
			if r.Err == nil {
				ids := make([]int, 0, len(ti.LastUpdated))
				for id := range ti.LastUpdated {
					ids = append(ids, int(id))
				}
				sort.Ints(ids)
				v = fmt.Sprintf("tti %d %d %d %d %v %v", ti.NextNEP11Batch, ti.NextNEP17Batch, ti.NextNEP11NewestTimestamp, ti.NextNEP17NewestTimestamp, ti.NewNEP11Batch, ti.NewNEP17Batch)
				for _, id := range ids {
					v += fmt.Sprintf(" %d:%d", id, ti.LastUpdated[int32(id)])
				}
			}
		}
		out[k] = v
	}
	return out
}

func diffRaw(want, got map[string]string) string {
	want, got = normRaw(want), normRaw(got)
	n := 0
	out := ""
	for k, v := range want {
		if g, ok := got[k]; !ok {
			out += fmt.Sprintf("missing key %s; ", k)
			n++
		} else if g != v {
			out += fmt.Sprintf("key %s: %s vs %s; ", k, clip(g), clip(v))
			n++
		}
		if n > 4 {
			return out + "..."
		}
	}
	for k := range got {
		if _, ok := want[k]; !ok {
			out += fmt.Sprintf("extra key %s; ", k)
			n++
			if n > 4 {
				return out + "..."
			}
		}
	}
	return out
}

func clip(s string) string {
	if len(s) > 60 {
		return s[:60] + "..."
	}
	return s
}

func init() {
	vt.PropertyID = "C02"
	vt.Register("crashpoints", 1.0, genCase, checkCase)
}
