package c04

import (
	"pgregory.net/rapid"
	ck "verifharness/chainkit"
)

// Weighted op kinds. Uncatchable failures are rare (they end the transaction); state-changing ops, calls and try
// blocks dominate; throws are mostly placed by genOps at the end of a block (a throw in the middle makes the rest dead).
var opKinds = []string{
	"put", "put", "put", "put", "put", "put", "del", "del", "notify", "notify", "notify", "read", "read", "read", "read",
	"call", "call", "call", "call", "call", "call", "call", "call",
	"try", "try", "try", "try", "try", "try", "try", "try",
	"throw",
	"sub", "sub",
	"fee", "fee", "fee", "fee", "block", "block", "unblock", "gas", "gas", "gas", "deploy", "deploy", "calltiny",
	"fatal",
}

// Selector alphabets: the B selector of `call` mostly picks CallFlags.All, the B selector of `fee` mostly a valid value.
var (
	callFlagSel = []int{0, 0, 0, 0, 0, 0, 0, 0, 0, 5, 6, 7}
	feeSel      = []int{0, 1, 2, 0, 1, 2, 0, 1, 2, 0, 1, 3}
)

func genOp(t *rapid.T, depth int) Op {
	k := rapid.SampledFrom(opKinds).Draw(t, "k")
	if depth >= 3 && (k == "try" || k == "sub") {
		k = "put"
	}
	if k == "fatal" {
		k = rapid.SampledFrom([]string{"abort", "burn"}).Draw(t, "fatal")
	}
	o := Op{K: k, A: rapid.IntRange(0, 7).Draw(t, "a"), B: rapid.IntRange(0, 7).Draw(t, "b")}
	switch k {
	case "call":
		o.B = rapid.SampledFrom(callFlagSel).Draw(t, "flags")
	case "fee":
		o.B = rapid.SampledFrom(feeSel).Draw(t, "fee")
	case "try":
		o.Body = genOps(t, 0, 2, depth+1, 25)
		// A try block is only interesting with something that can fail inside.
		if rapid.IntRange(0, 9).Draw(t, "guard") < 8 {
			c := Op{K: "call", A: rapid.IntRange(0, 7).Draw(t, "ga"), B: rapid.SampledFrom(callFlagSel).Draw(t, "gflags")}
			at := rapid.IntRange(0, len(o.Body)).Draw(t, "gat")
			o.Body = append(o.Body[:at:at], append([]Op{c}, o.Body[at:]...)...)
		}
		switch rapid.IntRange(0, 9).Draw(t, "shape") {
		case 0, 1, 2, 3, 4, 5:
			o.HasC = true
		case 6:
			o.HasF = true
		default:
			o.HasC, o.HasF = true, true
		}
		if o.HasC {
			o.Catch = genOps(t, 0, 2, depth+1, 10)
		}
		if o.HasF {
			o.Fin = genOps(t, 0, 2, depth+1, 10)
		}
	case "sub":
		o.Body = genOps(t, 1, 3, depth+1, 20)
	}
	return o
}

// genOps draws a block of lo..hi ops, followed by a throw with probability throwPct %.
func genOps(t *rapid.T, lo, hi, depth, throwPct int) []Op {
	n := rapid.IntRange(lo, hi).Draw(t, "nops")
	ops := make([]Op, 0, n+1)
	for i := 0; i < n; i++ {
		ops = append(ops, genOp(t, depth))
	}
	if rapid.IntRange(0, 99).Draw(t, "throw") < throwPct {
		ops = append(ops, Op{K: "throw"})
	}
	return ops
}

func genProgram(t *rapid.T) Program {
	var p Program
	nc := rapid.IntRange(1, 3).Draw(t, "ncontracts")
	for c := 0; c < nc; c++ {
		ct := Contract{Fund: rapid.IntRange(0, 2).Draw(t, "fund")}
		nm := rapid.IntRange(1, 3).Draw(t, "nmethods")
		for m := 0; m < nm; m++ {
			ct.Methods = append(ct.Methods, Method{Ops: genOps(t, 1, 5, 0, 15+20*m)})
		}
		if rapid.IntRange(0, 2).Draw(t, "haspay") == 0 {
			ct.Pay = genOps(t, 1, 3, 0, 10)
		}
		ct.Seed = rapid.SliceOfN(rapid.IntRange(0, 2), 0, 2).Draw(t, "seed")
		p.Contracts = append(p.Contracts, ct)
	}
	// Entry script: one or two calls, often under a try of its own, sometimes with native ops around.
	call := func() Op {
		return Op{K: "call", A: rapid.IntRange(0, 3).Draw(t, "ea"), B: rapid.SampledFrom(callFlagSel).Draw(t, "eb")}
	}
	extra := func() []Op {
		if rapid.IntRange(0, 3).Draw(t, "eextra") != 0 {
			return nil
		}
		k := rapid.SampledFrom([]string{"fee", "block", "unblock", "deploy", "calltiny", "call", "throw"}).Draw(t, "ek")
		o := Op{K: k, A: rapid.IntRange(0, 7).Draw(t, "xa"), B: rapid.IntRange(0, 7).Draw(t, "xb")}
		if k == "fee" {
			o.B = rapid.SampledFrom(feeSel).Draw(t, "xfee")
		} else if k == "call" {
			o.B = rapid.SampledFrom(callFlagSel).Draw(t, "xflags")
		}
		return []Op{o}
	}
	body := append(extra(), call())
	body = append(body, extra()...)
	switch rapid.IntRange(0, 7).Draw(t, "eshape") {
	case 0:
		p.Entry = body
	case 1, 2, 5, 6:
		p.Entry = append([]Op{{K: "try", HasC: true, Body: body, Catch: extra()}}, extra()...)
	case 3:
		p.Entry = append([]Op{{K: "try", HasC: true, Body: body}}, call())
	default:
		p.Entry = []Op{{K: "try", HasC: true, HasF: rapid.Bool().Draw(t, "ef"), Body: body, Catch: extra(), Fin: extra()}}
	}
	return p
}

func genCase(t *rapid.T) Case {
	c := Case{
		Chain: ck.ChainCfg{
			Profile: rapid.SampledFrom([]string{"V1C1", "V1C1", "V1C3", "V4C6"}).Draw(t, "profile"),
			SRIH:    rapid.Bool().Draw(t, "srih"),
			P2PSig:  rapid.IntRange(0, 3).Draw(t, "p2psig") == 0,
		},
		Prog:     genProgram(t),
		Sender:   rapid.IntRange(0, ck.NAccounts-1).Draw(t, "sender"),
		Deployer: rapid.IntRange(0, ck.NAccounts-1).Draw(t, "deployer"),
		Nonce:    rapid.Uint32().Draw(t, "nonce"),
		BNonce:   rapid.Uint64().Draw(t, "bnonce"),
		Primary:  rapid.IntRange(0, 6).Draw(t, "primary"),
		TimeD:    uint32(rapid.IntRange(1, 20000).Draw(t, "timed")),
		PreFee:   -1,
		PreBlock: -1,
	}
	bias := ck.BalancedBias(c.Chain.P2PSig)
	for i := rapid.IntRange(0, 4).Draw(t, "nnoise"); i > 0; i-- {
		c.Noise = append(c.Noise, ck.GenAction(t, bias))
	}
	c.Pos = rapid.IntRange(0, 4).Draw(t, "pos")
	if rapid.IntRange(0, 2).Draw(t, "prefee") == 0 {
		c.PreFee = rapid.Int64Range(0, 3000).Draw(t, "prefee_v")
	}
	if rapid.IntRange(0, 4).Draw(t, "preblock") == 0 {
		c.PreBlock = rapid.IntRange(0, 4).Draw(t, "preblock_t")
	}
	return c
}
