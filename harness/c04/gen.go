package c04

import (
	"pgregory.net/rapid"
	ck "verifharness/chainkit"
)

// Weighted op kinds. Uncatchable failures are rare (they end the transaction); state-changing ops, calls and try
// blocks dominate; throws are mostly placed by genOps at the end of a block (a throw in the middle makes the rest dead).
var opKinds = []string{
	"put", "put", "put", "put", "put", "put", "del", "del", "notify", "notify", "notify", "read", "read", "read", "read",
	"call", "call", "call", "call", "call", "call", "call", "call",
	"try", "try", "try", "try", "try", "try", "try", "try",
	"throw",
	"sub", "sub",
	"fee", "fee", "fee", "fee", "block", "block", "unblock", "gas", "gas", "gas", "deploy", "deploy", "calltiny",
	"put", "put", "put", "del", "notify", "read", "read", "call", "call", "call", "call", "try", "try", "try", "try", "fee", "gas", "deploy", "unblock",
	"put", "put", "put", "del", "notify", "read", "read", "call", "call", "call", "call", "try", "try", "try", "try", "fee", "gas", "block", "sub",
}

// Selector alphabets: the B selector of `call` mostly picks CallFlags.All, the B selector of `fee` mostly a valid value.
var (
	callFlagSel = []int{0, 0, 0, 0, 0, 0, 0, 0, 0, 0, 0, 0, 0, 0, 0, 0, 0, 0, 0, 0, 0, 0, 0, 0, 0, 0, 0, 0, 0, 0, 0, 0, 0, 0, 0, 0, 0, 5, 6, 7}
	blockSel    = []int{0, 1, 0, 1, 0, 1, 2, 3, 4} // mostly the plain accounts, sometimes a generated contract (calls to it then fail)
	feeSel      = []int{0, 1, 2, 0, 1, 2, 0, 1, 2, 0, 1, 3}
)

func genOp(t *rapid.T, depth int) Op {
	k := rapid.SampledFrom(opKinds).Draw(t, "k")
	if depth >= 3 && (k == "try" || k == "sub") {
		k = "put"
	}
	o := Op{K: k, A: rapid.IntRange(0, 7).Draw(t, "a"), B: rapid.IntRange(0, 7).Draw(t, "b")}
	switch k {
	case "call":
		o.B = rapid.SampledFrom(callFlagSel).Draw(t, "flags")
	case "fee":
		o.B = rapid.SampledFrom(feeSel).Draw(t, "fee")
	case "block", "unblock":
		o.A = rapid.SampledFrom(blockSel).Draw(t, "blk")
	case "try":
		o.Body = genOps(t, 0, 2, depth+1, 35)
		// A try block is only interesting with something that can fail inside.
		if rapid.IntRange(0, 9).Draw(t, "guard") < 8 {
			c := Op{K: "call", A: rapid.IntRange(0, 7).Draw(t, "ga"), B: rapid.SampledFrom(callFlagSel).Draw(t, "gflags")}
			if rapid.IntRange(0, 4).Draw(t, "gsub") == 0 {
				c = Op{K: "sub", Body: []Op{c}}
			}
			at := rapid.IntRange(0, len(o.Body)).Draw(t, "gat")
			o.Body = append(o.Body[:at:at], append([]Op{c}, o.Body[at:]...)...)
		}
		switch rapid.IntRange(0, 9).Draw(t, "shape") {
		case 0, 1, 2, 3, 4, 5:
			o.HasC = true
		case 6:
			o.HasF = true
		default:
			o.HasC, o.HasF = true, true
		}
		if o.HasC {
			o.Catch = genOps(t, 0, 2, depth+1, 10)
		}
		if o.HasF {
			o.Fin = genOps(t, 0, 2, depth+1, 10)
		}
	case "sub":
		o.Body = genOps(t, 1, 3, depth+1, 20)
	}
	return o
}

// genOps draws a block of lo..hi ops, followed by a throw with probability throwPct %.
func genOps(t *rapid.T, lo, hi, depth, throwPct int) []Op {
	n := rapid.IntRange(lo, hi).Draw(t, "nops")
	ops := make([]Op, 0, n+1)
	for i := 0; i < n; i++ {
		ops = append(ops, genOp(t, depth))
	}
	if rapid.IntRange(0, 99).Draw(t, "throw") >= 100-throwPct {
		ops = append(ops, Op{K: "throw"})
	}
	return ops
}

var effectKinds = []string{"put", "put", "put", "del", "notify", "notify", "read", "read", "fee", "fee", "block", "unblock", "gas", "gas", "deploy"}

func genEffects(t *rapid.T, lo, hi int) []Op {
	n := rapid.IntRange(lo, hi).Draw(t, "neff")
	var ops []Op
	for i := 0; i < n; i++ {
		o := Op{K: rapid.SampledFrom(effectKinds).Draw(t, "ek"), A: rapid.IntRange(0, 7).Draw(t, "a"), B: rapid.IntRange(0, 7).Draw(t, "b")}
		switch o.K {
		case "fee":
			o.B = rapid.SampledFrom(feeSel).Draw(t, "fee")
		case "block", "unblock":
			o.A = rapid.SampledFrom(blockSel).Draw(t, "blk")
		}
		ops = append(ops, o)
	}
	return ops
}

// genChain draws a program aimed at the core of the property: a chain of calls entry -> c0.m0 -> c1.m0 -> ... of depth
// 2..4, state changes at every level before and after the call, a throw (sometimes an uncatchable failure, sometimes
// nothing) at the bottom, and try blocks at drawn levels.
func genChain(t *rapid.T) Program {
	depth := rapid.IntRange(2, 4).Draw(t, "depth")
	nc := min(depth, 3)
	p := Program{Contracts: make([]Contract, nc)}
	for c := range p.Contracts {
		p.Contracts[c].Fund = rapid.IntRange(0, 2).Draw(t, "fund")
		p.Contracts[c].Seed = rapid.SliceOfN(rapid.IntRange(0, 2), 0, 2).Draw(t, "seed")
	}
	// In a tenth of the chains one call passes ReadOnly|AllowNotify and everything below it only notifies / reads
	// (a callee without WriteStates that writes simply faults): notifications of a failed read-only callee.
	roFrom := depth
	if rapid.IntRange(0, 9).Draw(t, "ro_mode") == 9 {
		roFrom = rapid.IntRange(1, depth-1).Draw(t, "ro_from")
	}
	effects := func(lvl, lo, hi int) []Op {
		ops := genEffects(t, lo, hi)
		if lvl >= roFrom {
			for i := range ops {
				if ops[i].K != "read" {
					ops[i].K = "notify"
				}
			}
		}
		return ops
	}
	for lvl := 0; lvl < depth; lvl++ {
		var body []Op
		if lvl == depth-1 {
			body = effects(lvl, 1, 3)
			switch rapid.IntRange(0, 9).Draw(t, "bottom") {
			case 0:
			case 1:
				body = append(body, Op{K: rapid.SampledFrom([]string{"abort", "burn"}).Draw(t, "fatal")})
			case 2:
				body = append(body, Op{K: "try", HasF: true, Body: []Op{{K: "throw"}}, Fin: effects(lvl, 0, 2)})
			default:
				body = append(body, Op{K: "throw"})
			}
		} else {
			call := Op{K: "call", A: 0, B: rapid.SampledFrom(callFlagSel).Draw(t, "flags")} // selector 0 = next routine in the global order
			if lvl+1 == roFrom {
				call.B = 5
			}
			body = effects(lvl, 0, 2)
			if rapid.IntRange(0, 9).Draw(t, "guard") < 4 {
				inner := call
				if rapid.IntRange(0, 3).Draw(t, "guarded_sub") == 0 {
					// The call is made from an internal subroutine: the try block lives in another context of the same contract.
					inner = Op{K: "sub", Body: append(effects(lvl, 0, 1), call)}
				}
				tr := Op{K: "try", Body: append(append(effects(lvl, 0, 1), inner), effects(lvl, 0, 1)...)}
				switch rapid.IntRange(0, 5).Draw(t, "shape") {
				case 0:
					tr.HasF = true
				case 1, 2:
					tr.HasC, tr.HasF = true, true
				default:
					tr.HasC = true
				}
				if tr.HasC {
					tr.Catch = genOps(t, 0, 2, 1, 8)
				}
				if tr.HasF {
					tr.Fin = genOps(t, 0, 2, 1, 8)
				}
				if lvl >= roFrom {
					tr.Catch, tr.Fin = effects(lvl, 0, 2), effects(lvl, 0, 2)
				}
				body = append(body, tr)
			} else if rapid.IntRange(0, 5).Draw(t, "viasub") == 0 {
				body = append(body, Op{K: "sub", Body: []Op{call}})
			} else {
				body = append(body, call)
			}
			body = append(body, effects(lvl, 0, 2)...)
		}
		c := lvl % nc
		p.Contracts[c].Methods = append(p.Contracts[c].Methods, Method{Ops: body})
	}
	entry := []Op{{K: "call", A: 0, B: rapid.SampledFrom(callFlagSel).Draw(t, "eflags")}}
	if rapid.IntRange(0, 9).Draw(t, "eguard") < 7 {
		entry = []Op{{K: "try", HasC: true, Body: entry}}
	}
	p.Entry = entry
	return p
}

// genHandlerStates draws programs in which calls are made while the caller's exception handler is NOT in its TRY state:
// from a CATCH block that has a FINALLY block (the finally block can observe what a failed callee left behind) and from
// a FINALLY block entered by an exception (the callee completes while that exception is pending).
func genHandlerStates(t *rapid.T) Program {
	nat := func(label string) Op { // an effect on natively cached state and the op that observes it
		j := rapid.IntRange(0, 1).Draw(t, label+"_j")
		switch rapid.IntRange(0, 4).Draw(t, label) {
		case 0, 1:
			return Op{K: "deploy", A: j}
		case 2:
			return Op{K: "block", A: 2 + rapid.IntRange(0, 2).Draw(t, label+"_c")}
		case 3:
			return Op{K: "fee", B: rapid.IntRange(0, 2).Draw(t, label+"_v")}
		default:
			return Op{K: "put", A: j, B: 1}
		}
	}
	probe := func(label string) Op {
		j := rapid.IntRange(0, 1).Draw(t, label+"_j")
		switch rapid.IntRange(0, 4).Draw(t, label) {
		case 0, 1:
			return Op{K: "deploy", A: j}
		case 2:
			return Op{K: "calltiny", A: j}
		case 3:
			return Op{K: "call", A: rapid.IntRange(0, 2).Draw(t, label+"_c")}
		default:
			return Op{K: "read", A: j}
		}
	}
	p := Program{Contracts: make([]Contract, 3)}
	for c := range p.Contracts {
		p.Contracts[c].Fund = rapid.IntRange(0, 2).Draw(t, "fund")
	}
	calleeThrows := rapid.IntRange(0, 9).Draw(t, "callee_throws") < 8
	callee := append(genEffects(t, 0, 1), nat("nat"))
	callee = append(callee, genEffects(t, 0, 1)...)
	if calleeThrows {
		callee = append(callee, Op{K: "throw"})
	}
	p.Contracts[1].Methods = []Method{{Ops: callee}}
	p.Contracts[2].Methods = []Method{{Ops: genEffects(t, 1, 2)}}
	call := Op{K: "call", A: 0}
	var a []Op
	a = append(a, genEffects(t, 0, 2)...)
	switch rapid.IntRange(0, 2).Draw(t, "hs_kind") {
	case 0: // call from a catch block that has a finally block
		a = append(a, Op{K: "try", HasC: true, HasF: true, Body: []Op{{K: "throw"}},
			Catch: append(genEffects(t, 0, 1), call), Fin: append([]Op{probe("probe")}, genEffects(t, 0, 1)...)})
	case 1: // call from a finally block entered by an exception, under an outer try
		inner := Op{K: "try", HasF: true, Body: []Op{{K: "throw"}}, Fin: append(genEffects(t, 0, 1), call)}
		a = append(a, Op{K: "try", HasC: true, Body: []Op{inner}, Catch: append(genEffects(t, 0, 1), probe("probe"))})
	default: // native effect from a finally block entered by an exception, under an outer try
		inner := Op{K: "try", HasF: true, Body: []Op{{K: "throw"}}, Fin: []Op{nat("nat2")}}
		a = append(a, Op{K: "try", HasC: true, Body: []Op{inner}, Catch: append(genEffects(t, 0, 1), probe("probe"))})
	}
	a = append(a, genEffects(t, 0, 2)...)
	p.Contracts[0].Methods = []Method{{Ops: a}}
	p.Entry = []Op{{K: "try", HasC: true, Body: []Op{{K: "call", A: 0}}}}
	return p
}

// genStaleLookup draws programs in which a callee changes something that is looked up through a cache of the
// execution (a contract it deploys, an account it blocks, a fee it sets, a storage item), USES it once, and then
// fails; the caller catches the failure and uses the same thing: it has to see the state from before the call,
// whatever was looked up in between.
func genStaleLookup(t *rapid.T) Program {
	p := Program{Contracts: make([]Contract, 3)}
	for c := range p.Contracts {
		p.Contracts[c].Fund = rapid.IntRange(0, 2).Draw(t, "fund")
	}
	j := rapid.IntRange(0, 1).Draw(t, "j")
	var change, use Op
	switch rapid.IntRange(0, 5).Draw(t, "what") {
	case 0, 1, 2:
		change, use = Op{K: "deploy", A: j}, Op{K: "calltiny", A: j}
	case 3:
		change, use = Op{K: "put", A: j, B: 1}, Op{K: "read", A: j}
	case 4:
		change, use = Op{K: "block", A: 2 + rapid.IntRange(0, 2).Draw(t, "blk")}, Op{K: "call", A: 1}
	default:
		change, use = Op{K: "fee", B: rapid.IntRange(0, 2).Draw(t, "fee")}, Op{K: "read", A: j}
	}
	callee := append(genEffects(t, 0, 1), change)
	for i := rapid.IntRange(1, 2).Draw(t, "uses"); i > 0; i-- {
		callee = append(callee, use)
	}
	callee = append(callee, genEffects(t, 0, 1)...)
	if rapid.IntRange(0, 9).Draw(t, "callee_throws") < 9 {
		callee = append(callee, Op{K: "throw"})
	}
	p.Contracts[1].Methods = []Method{{Ops: callee}}
	p.Contracts[2].Methods = []Method{{Ops: genEffects(t, 1, 2)}}
	var a []Op
	a = append(a, genEffects(t, 0, 1)...)
	if rapid.Bool().Draw(t, "nested") { // the failing callee is called by a callee that fails as well / that goes on
		a = append(a, Op{K: "try", HasC: true, Body: []Op{{K: "call", A: 0}}, Catch: genEffects(t, 0, 1)})
	} else {
		a = append(a, Op{K: "try", HasC: true, HasF: rapid.Bool().Draw(t, "fin"), Body: []Op{{K: "call", A: 0}}, Fin: []Op{use}})
	}
	a = append(a, use)
	if change.K == "deploy" && rapid.Bool().Draw(t, "redeploy") {
		a = append(a, change, use)
	}
	a = append(a, genEffects(t, 0, 1)...)
	p.Contracts[0].Methods = []Method{{Ops: a}}
	p.Entry = []Op{{K: "try", HasC: true, Body: []Op{{K: "call", A: 0}}}, use}
	return p
}

func genProgram(t *rapid.T) Program {
	switch rapid.IntRange(0, 15).Draw(t, "program_shape") {
	case 0, 1, 2, 3, 4, 5, 6:
		return genChain(t)
	case 14, 15:
		return genHandlerStates(t)
	case 13:
		return genStaleLookup(t)
	}
	var p Program
	nc := rapid.IntRange(1, 3).Draw(t, "ncontracts")
	for c := 0; c < nc; c++ {
		ct := Contract{Fund: rapid.IntRange(0, 2).Draw(t, "fund")}
		nm := rapid.IntRange(1, 3).Draw(t, "nmethods")
		for m := 0; m < nm; m++ {
			ct.Methods = append(ct.Methods, Method{Ops: genOps(t, 1, 5, 0, 25+20*m)})
		}
		if rapid.IntRange(0, 2).Draw(t, "haspay") == 0 {
			ct.Pay = genOps(t, 1, 3, 0, 10)
		}
		ct.Seed = rapid.SliceOfN(rapid.IntRange(0, 2), 0, 2).Draw(t, "seed")
		p.Contracts = append(p.Contracts, ct)
	}
	// Uncatchable failures (ABORT, gas exhaustion) end the transaction whatever surrounds them: at most one per program,
	// in 15 % of the programs, at a drawn place of the tree.
	if rapid.IntRange(0, 99).Draw(t, "hasfatal") >= 88 {
		var lists []*[]Op
		var walk func(l *[]Op)
		walk = func(l *[]Op) {
			lists = append(lists, l)
			for i := range *l {
				o := &(*l)[i]
				if o.K == "try" || o.K == "sub" {
					walk(&o.Body)
					if o.HasC {
						walk(&o.Catch)
					}
					if o.HasF {
						walk(&o.Fin)
					}
				}
			}
		}
		for c := range p.Contracts {
			for m := range p.Contracts[c].Methods {
				walk(&p.Contracts[c].Methods[m].Ops)
			}
			if p.Contracts[c].Pay != nil {
				walk(&p.Contracts[c].Pay)
			}
		}
		l := lists[rapid.IntRange(0, len(lists)-1).Draw(t, "fatal_list")]
		at := rapid.IntRange(0, len(*l)).Draw(t, "fatal_at")
		f := Op{K: rapid.SampledFrom([]string{"abort", "burn"}).Draw(t, "fatal_kind")}
		*l = append((*l)[:at:at], append([]Op{f}, (*l)[at:]...)...)
	}
	// Entry script: one or two calls, often under a try of its own, sometimes with native ops around.
	call := func() Op {
		return Op{K: "call", A: rapid.IntRange(0, 3).Draw(t, "ea"), B: rapid.SampledFrom(callFlagSel).Draw(t, "eb")}
	}
	extra := func() []Op {
		if rapid.IntRange(0, 3).Draw(t, "eextra") != 3 {
			return nil
		}
		k := rapid.SampledFrom([]string{"fee", "block", "unblock", "deploy", "fee", "call", "throw"}).Draw(t, "ek")
		o := Op{K: k, A: rapid.IntRange(0, 7).Draw(t, "xa"), B: rapid.IntRange(0, 7).Draw(t, "xb")}
		if k == "fee" {
			o.B = rapid.SampledFrom(feeSel).Draw(t, "xfee")
		} else if k == "call" {
			o.B = rapid.SampledFrom(callFlagSel).Draw(t, "xflags")
		} else if k == "block" || k == "unblock" {
			o.A = rapid.SampledFrom(blockSel).Draw(t, "xblk")
		}
		return []Op{o}
	}
	body := append(extra(), call())
	body = append(body, extra()...)
	switch rapid.IntRange(0, 7).Draw(t, "eshape") {
	case 7:
		p.Entry = body
	case 0, 1, 2, 5, 6:
		p.Entry = append([]Op{{K: "try", HasC: true, Body: body, Catch: extra()}}, extra()...)
	case 3:
		p.Entry = append([]Op{{K: "try", HasC: true, Body: body}}, call())
	default:
		p.Entry = []Op{{K: "try", HasC: true, HasF: rapid.Bool().Draw(t, "ef"), Body: body, Catch: extra(), Fin: extra()}}
	}
	return p
}

func genCase(t *rapid.T) Case {
	c := Case{
		Chain: ck.ChainCfg{
			Profile: rapid.SampledFrom([]string{"V1C1", "V1C1", "V1C3", "V4C6"}).Draw(t, "profile"),
			SRIH:    rapid.Bool().Draw(t, "srih"),
			P2PSig:  rapid.IntRange(0, 3).Draw(t, "p2psig") == 0,
		},
		Prog:     genProgram(t),
		Sender:   rapid.IntRange(0, ck.NAccounts-1).Draw(t, "sender"),
		Deployer: rapid.IntRange(0, ck.NAccounts-1).Draw(t, "deployer"),
		Nonce:    rapid.Uint32().Draw(t, "nonce"),
		BNonce:   rapid.Uint64().Draw(t, "bnonce"),
		Primary:  rapid.IntRange(0, 6).Draw(t, "primary"),
		TimeD:    uint32(rapid.IntRange(1, 20000).Draw(t, "timed")),
		PreFee:   -1,
		PreBlock: -1,
	}
	bias := ck.BalancedBias(c.Chain.P2PSig)
	for i := rapid.IntRange(0, 4).Draw(t, "nnoise"); i > 0; i-- {
		c.Noise = append(c.Noise, ck.GenAction(t, bias))
	}
	c.Pos = rapid.IntRange(0, 4).Draw(t, "pos")
	if rapid.IntRange(0, 2).Draw(t, "prefee") == 0 {
		c.PreFee = rapid.Int64Range(0, 3000).Draw(t, "prefee_v")
	}
	if rapid.IntRange(0, 4).Draw(t, "preblock") == 0 {
		c.PreBlock = rapid.SampledFrom(blockSel).Draw(t, "preblock_t")
	}
	return c
}
