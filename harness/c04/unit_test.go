package c04

import (
	"fmt"
	"strings"
	"testing"

	ck "verifharness/chainkit"
	"verifharness/vt"
)

func unitCase(p Program) Case {
	return Case{Chain: ck.ChainCfg{Profile: "V1C1"}, Prog: p, Sender: 2, Deployer: 1, PreFee: -1, PreBlock: -1, Nonce: 42, TimeD: 1000}
}

func show(t *testing.T, name string, p Program) (*outcome, error) {
	out, err := runCase(unitCase(p), &vt.Obs{})
	if out == nil {
		t.Fatalf("%s: %v", name, err)
	}
	var sb strings.Builder
	fmt.Fprintf(&sb, "%s: chain=%s (%s)\n", name, haltStr(out.halted), out.fault)
	for _, e := range out.events {
		fmt.Fprintf(&sb, "   ev %s\n", e)
	}
	if out.after != nil {
		fmt.Fprintf(&sb, "   after: stor=%v bal=%v fee=%d blocked=%v deployed=%v\n", out.after.stor, out.after.bal, out.after.fee, out.after.blocked, out.after.deployed)
	}
	if out.mdl != nil {
		fmt.Fprintf(&sb, "   model=%s (%s) quirk=%q labels=%v\n", haltStr(out.modelOK), out.mdl.why, out.mdl.quirk, sortedKeys(out.mdl.labels))
		fmt.Fprintf(&sb, "   expected: stor=%v bal=%v fee=%d blocked=%v deployed=%v notes=%d\n", out.expected.stor, out.expected.bal, out.expected.fee, out.expected.blocked, out.expected.deployed, len(out.expected.notes))
	}
	fmt.Fprintf(&sb, "   verdict: %v\n", err)
	t.Log(sb.String())
	return out, err
}

func one(ops ...Op) []Method { return []Method{{Ops: ops}} }

func try(body, catch []Op) Op { return Op{K: "try", HasC: true, Body: body, Catch: catch} }
func tryF(body, fin []Op) Op  { return Op{K: "try", HasF: true, Body: body, Fin: fin} }
func tryCF(body, catch, fin []Op) Op {
	return Op{K: "try", HasC: true, HasF: true, Body: body, Catch: catch, Fin: fin}
}
func ops(o ...Op) []Op { return o }

var (
	put   = func(k, v int) Op { return Op{K: "put", A: k, B: v} }
	del   = func(k int) Op { return Op{K: "del", A: k} }
	read  = func(k int) Op { return Op{K: "read", A: k} }
	ntf   = Op{K: "notify"}
	throw = Op{K: "throw"}
	call  = func(sel, flags int) Op { return Op{K: "call", A: sel, B: flags} }
)
