package c04

import (
	"fmt"
	"strings"
	"testing"

	ck "verifharness/chainkit"
	"verifharness/vt"
)

// Unit cases: hand-written programs that pin down (a) the bytecode encoding of try/catch/finally, calls, subroutines and
// native calls, (b) the facts about neo-go the model relies on outside the subject of the property: which failures are
// catchable, required call flags, NeoVM's single pending exception. Each case states the expected final VM state on the
// chain; the model must agree with the chain (verdict nil), except for the two listed findings.

func unitCase(p Program) Case {
	return Case{Chain: ck.ChainCfg{Profile: "V1C1"}, Prog: p, Sender: 2, Deployer: 1, PreFee: -1, PreBlock: -1, Nonce: 42, TimeD: 1000}
}

func show(t *testing.T, name string, p Program) (*outcome, error) {
	out, err := runCase(unitCase(p), &vt.Obs{}, true)
	if out == nil {
		t.Fatalf("%s: %v", name, err)
	}
	var sb strings.Builder
	fmt.Fprintf(&sb, "%s: chain=%s (%s)\n", name, haltStr(out.halted), out.fault)
	for _, e := range out.events {
		fmt.Fprintf(&sb, "   ev %s\n", e)
	}
	if out.after != nil {
		fmt.Fprintf(&sb, "   after: stor=%v bal=%v fee=%d blocked=%v deployed=%v\n", out.after.stor, out.after.bal, out.after.fee, out.after.blocked, out.after.deployed)
	}
	if out.mdl != nil {
		fmt.Fprintf(&sb, "   model=%s (%s) quirk=%q leak=%q labels=%v\n", haltStr(out.modelOK), out.mdl.why, out.mdl.quirk, out.mdl.leak, sortedKeys(out.mdl.labels))
	}
	fmt.Fprintf(&sb, "   verdict: %v\n", err)
	t.Log(sb.String())
	return out, err
}

func one(ops ...Op) []Method { return []Method{{Ops: ops}} }

func try(body, catch []Op) Op { return Op{K: "try", HasC: true, Body: body, Catch: catch} }
func tryF(body, fin []Op) Op  { return Op{K: "try", HasF: true, Body: body, Fin: fin} }
func tryCF(body, catch, fin []Op) Op {
	return Op{K: "try", HasC: true, HasF: true, Body: body, Catch: catch, Fin: fin}
}
func ops(o ...Op) []Op { return o }

var (
	put   = func(k, v int) Op { return Op{K: "put", A: k, B: v} }
	del   = func(k int) Op { return Op{K: "del", A: k} }
	read  = func(k int) Op { return Op{K: "read", A: k} }
	ntf   = Op{K: "notify"}
	throw = Op{K: "throw"}
	call  = func(sel, flags int) Op { return Op{K: "call", A: sel, B: flags} }
	sub   = func(o ...Op) Op { return Op{K: "sub", Body: o} }
	ct    = func(o ...Op) Contract { return Contract{Methods: one(o...), Fund: 2} }
	entry = ops(call(0, 0))
)

type unit struct {
	name   string
	p      Program
	halt   bool
	events int  // expected number of notifications when halted (-1: not checked)
	known  bool // shape of a listed finding: the verdict is not asserted
}

func TestUnit(t *testing.T) {
	cases := []unit{
		// --- catchable vs uncatchable
		{"throw in callee is caught by the caller; callee's write and notification undone; before/after kept",
			Program{Contracts: []Contract{ct(put(0, 1), try(ops(call(0, 0)), ops(ntf)), read(0)), ct(put(0, 2), ntf, throw)}, Entry: entry}, true, 2, false},
		{"ABORT in callee under a try: uncatchable", Program{Contracts: []Contract{ct(put(0, 1), try(ops(call(0, 0)), ops(ntf))), ct(put(0, 2), Op{K: "abort"})}, Entry: entry}, false, 0, false},
		{"gas exhaustion in callee under a try: uncatchable", Program{Contracts: []Contract{ct(put(0, 1), try(ops(call(0, 0)), ops(ntf))), ct(put(0, 2), Op{K: "burn"})}, Entry: entry}, false, 0, false},
		{"native method failure (bad value) under a try: uncatchable", Program{Contracts: []Contract{ct(put(0, 1), try(ops(Op{K: "fee", B: 3}), ops(ntf)))}, Entry: entry}, false, 0, false},
		{"syscall failure (Put without WriteStates) under a try: uncatchable", Program{Contracts: []Contract{ct(put(0, 1), try(ops(call(0, 7)), ops(ntf))), ct(put(0, 2))}, Entry: entry}, false, 0, false},
		{"call of a missing contract under a try: uncatchable", Program{Contracts: []Contract{ct(try(ops(Op{K: "calltiny"}), ops(ntf)))}, Entry: entry}, false, 0, false},
		{"second deployment of the same contract under a try: uncatchable", Program{Contracts: []Contract{ct(Op{K: "deploy"}, try(ops(Op{K: "deploy"}), ops(ntf)))}, Entry: entry}, false, 0, false},
		{"call of a blocked contract under a try: uncatchable", Program{Contracts: []Contract{ct(Op{K: "block", A: 3}, try(ops(call(0, 0)), ops(ntf))), ct(ntf)}, Entry: entry}, false, 0, false},
		{"uncaught throw faults", Program{Contracts: []Contract{ct(put(0, 1), throw)}, Entry: entry}, false, 0, false},
		// --- flags
		{"ReadOnly|AllowNotify callee may notify and read", Program{Contracts: []Contract{ct(call(0, 5)), {Methods: one(ntf, read(0)), Seed: []int{0}}}, Entry: entry}, true, 2, false},
		{"States|AllowCall callee may write but not notify", Program{Contracts: []Contract{ct(call(0, 6)), ct(put(0, 1), ntf)}, Entry: entry}, false, 0, false},
		{"States|AllowCall callee: setFeePerByte and unblockAccount allowed", Program{Contracts: []Contract{ct(call(0, 6)), ct(Op{K: "fee", B: 1}, Op{K: "unblock"})}, Entry: entry}, true, 0, false},
		{"States|AllowCall callee: blockAccount needs AllowNotify", Program{Contracts: []Contract{ct(call(0, 6)), ct(Op{K: "block"})}, Entry: entry}, false, 0, false},
		{"States|AllowCall callee: transfer needs all flags", Program{Contracts: []Contract{ct(call(0, 6)), ct(Op{K: "gas", B: 1})}, Entry: entry}, false, 0, false},
		// --- try / catch / finally encodings
		{"finally after normal completion", Program{Contracts: []Contract{ct(tryF(ops(put(0, 1)), ops(ntf)), read(0))}, Entry: entry}, true, 2, false},
		{"catch then finally then continue", Program{Contracts: []Contract{ct(tryCF(ops(put(0, 1), throw), ops(ntf), ops(ntf)), read(0))}, Entry: entry}, true, 3, false},
		{"finally without catch rethrows", Program{Contracts: []Contract{ct(try(ops(tryF(ops(throw), ops(ntf)), put(0, 1)), ops(ntf)), read(0))}, Entry: entry}, true, 3, false},
		{"throw in catch runs finally, then propagates", Program{Contracts: []Contract{ct(try(ops(tryCF(ops(throw), ops(ntf, throw), ops(ntf))), ops(ntf)))}, Entry: entry}, true, 3, false},
		{"throw in finally replaces the pending exception", Program{Contracts: []Contract{ct(try(ops(tryF(ops(throw), ops(ntf, throw))), ops(ntf)))}, Entry: entry}, true, 2, false},
		{"nested try: inner catches, outer untouched", Program{Contracts: []Contract{ct(try(ops(try(ops(throw), ops(ntf)), ntf), ops(put(0, 1))))}, Entry: entry}, true, 2, false},
		{"pending exception cleared inside finally: ENDFINALLY has no end offset", Program{Contracts: []Contract{ct(tryF(ops(throw), ops(try(ops(throw), nil))))}, Entry: entry}, false, 0, false},
		{"exception crosses a subroutine", Program{Contracts: []Contract{ct(try(ops(sub(put(0, 1), throw)), ops(ntf)), read(0))}, Entry: entry}, true, 2, false},
		{"try in the entry script", Program{Contracts: []Contract{ct(put(0, 1), ntf, throw)}, Entry: ops(try(ops(call(0, 0)), nil))}, true, 0, false},
		// --- rollback shapes
		{"depth 3: A try{B} , B calls C (no try), C writes and throws", Program{Contracts: []Contract{ct(put(0, 1), try(ops(call(0, 0)), ops(ntf)), read(0)), ct(put(0, 2), ntf, call(0, 0), put(1, 1)), ct(put(0, 3), ntf, throw)}, Entry: entry}, true, 2, false},
		{"call from a subroutine under a try of the calling context", Program{Contracts: []Contract{ct(try(ops(sub(call(0, 0))), ops(ntf)), read(0)), ct(put(0, 2), Op{K: "fee", B: 1}, ntf, throw)}, Entry: entry}, true, 2, false},
		{"delete of a persisted key in a failed callee is undone", Program{Contracts: []Contract{ct(try(ops(call(0, 0)), nil), call(1, 0)), {Methods: []Method{{Ops: ops(del(0), put(1, 2), throw)}, {Ops: ops(read(0), read(1))}}, Seed: []int{0, 1}}}, Entry: entry}, true, 2, false},
		{"native state changed in a failed callee is undone (policy, blocked, balance, deployment)", Program{Contracts: []Contract{ct(try(ops(call(0, 0)), nil), Op{K: "deploy"}, Op{K: "calltiny"}), ct(try(ops(sub(Op{K: "fee", B: 1}, Op{K: "block"}, Op{K: "gas", B: 1}, Op{K: "deploy"}, throw)), ops(throw)))}, Entry: ops(try(entry, nil))}, true, -1, false},
		{"successful callee under try is committed", Program{Contracts: []Contract{ct(try(ops(call(0, 0)), ops(ntf)), read(0)), ct(put(0, 2), Op{K: "fee", B: 1}, ntf)}, Entry: entry}, true, 2, false},
		{"payment callback runs, its exception is uncatchable", Program{Contracts: []Contract{ct(try(ops(Op{K: "gas", A: 2, B: 1}), ops(ntf))), {Methods: one(ntf), Pay: ops(put(0, 1), throw)}}, Entry: entry}, false, 0, false},
		{"payment callback effects are kept", Program{Contracts: []Contract{ct(try(ops(Op{K: "gas", A: 2, B: 1}), ops(ntf))), {Methods: one(ntf), Pay: ops(put(0, 1), ntf)}}, Entry: entry}, true, 2, false},
		{"all native ops", Program{Contracts: []Contract{ct(Op{K: "fee", B: 1}, Op{K: "block", A: 0}, Op{K: "block", A: 2}, Op{K: "gas", A: 0, B: 1}, Op{K: "gas", A: 2, B: 2}, Op{K: "deploy", A: 1}, Op{K: "calltiny", A: 1}, Op{K: "unblock", A: 0}, sub(put(1, 3), ntf)),
			{Methods: one(ntf), Pay: ops(put(2, 1), ntf), Seed: []int{0, 1}}}, Entry: entry}, true, 6, false},
		{"void native call completing while an exception is pending leaves no return value", Program{Contracts: []Contract{ct(tryF(ops(throw), ops(Op{K: "fee", B: 1})))}, Entry: ops(try(entry, nil))}, false, 0, false},
		// --- listed findings
		{"KNOWN callee completes while an exception is pending under an outer try: its effects are dropped", Program{Contracts: []Contract{ct(try(ops(tryF(ops(throw), ops(call(0, 0)))), ops(ntf)), read(0)), ct(put(0, 2), ntf)}, Entry: entry}, true, -1, true},
		{"KNOWN same, the only live handler of the caller is a catch block with finally", Program{Contracts: []Contract{ct(tryCF(ops(throw), ops(tryF(ops(throw), ops(call(0, 0)))), ops(Op{K: "deploy"}))), ct(Op{K: "deploy"})}, Entry: ops(try(entry, nil))}, true, -1, true},
		// --- repaired finding (f441102): callee fails under a catch block that has a finally block
		{"callee fails under a catch block with finally: the finally block must not see its deployment", Program{Contracts: []Contract{ct(tryCF(ops(throw), ops(call(0, 0)), ops(Op{K: "deploy"}))), ct(Op{K: "deploy"}, throw)}, Entry: ops(try(entry, nil))}, true, 0, false},
		{"callee fails under a catch block with finally: the finally block must not find its contract", Program{Contracts: []Contract{ct(tryCF(ops(throw), ops(call(0, 0)), ops(Op{K: "calltiny"}))), ct(Op{K: "deploy"}, throw)}, Entry: ops(try(entry, nil))}, false, 0, false},
	}
	for _, u := range cases {
		out, err := show(t, u.name, u.p)
		if u.known {
			if err == nil {
				t.Logf("%s: listed finding no longer reproduces", u.name)
			}
			continue
		}
		if out.halted != u.halt {
			t.Errorf("%s: chain says %s, the unit case expects %s", u.name, haltStr(out.halted), haltStr(u.halt))
		}
		if err != nil {
			t.Errorf("%s: model and chain disagree: %v", u.name, err)
		}
		if u.halt && u.events >= 0 && len(out.events) != u.events {
			t.Errorf("%s: %d notifications, expected %d", u.name, len(out.events), u.events)
		}
	}
}
