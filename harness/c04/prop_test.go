package c04

import (
	"encoding/json"
	"strings"
	"testing"

	"verifharness/vt"
)

func TestProp(t *testing.T)   { vt.RunAll(t, 1500) }
func TestReplay(t *testing.T) { vt.ReplayAll(t) }

// Minimal cases of the two findings of this check (they are also the shrunk cases rapid produces).
//
// knownCatchFinCase (repaired by /repo f441102, kept as a regression; also in replays/C04/regress/):
// entry: try{ call A } catch{}; A: try{ throw } catch{ call B } finally{ deploy tiny0 };
// B: deploy tiny0; throw. B fails, so by the property its deployment is undone and A's finally block deploys tiny0
// itself; A's pending exception is then caught by the entry script: HALT. Before the repair neo-go gave B no storage layer
// of its own (ContractHasTryBlock only counted handlers in TRY state), A's finally block saw B's deployment: FAULT "contract already exists".
const knownCatchFinCase = `{"chain":{"profile":"V1C1"},"prog":{"contracts":[{"methods":[{"ops":[{"k":"try","body":[{"k":"throw"}],"catch":[{"k":"call"}],"fin":[{"k":"deploy"}],"hc":true,"hf":true}]}],"fund":0},{"methods":[{"ops":[{"k":"deploy"},{"k":"throw"}]}],"fund":0}],"entry":[{"k":"try","body":[{"k":"call"}],"hc":true}]},"sender":0,"deployer":0,"noise":null,"pos":0,"pre_fee":-1,"pre_block":-1,"nonce":1,"bnonce":0,"primary":0,"time_d":1}`

// knownPendingCase (listed as known, not repaired: same behaviour as the C# reference):
// entry: call A; A: try{ try{ throw } finally{ call B } } catch{ notify }; B: put a; notify.
// B completes normally (while A's exception is pending) and the transaction HALTs, so B's write and notification are
// effects of a halted transaction; neo-go unloads B with commit=false (vm.unloadContext passes uncaughtException == nil)
// and drops them.
const knownPendingCase = `{"chain":{"profile":"V1C1"},"prog":{"contracts":[{"methods":[{"ops":[{"k":"try","body":[{"k":"try","body":[{"k":"throw"}],"fin":[{"k":"call"}],"hf":true}],"catch":[{"k":"notify"}],"hc":true}]}],"fund":0},{"methods":[{"ops":[{"k":"put","b":1},{"k":"notify"}]}],"fund":0}],"entry":[{"k":"call"}]},"sender":0,"deployer":0,"noise":null,"pos":0,"pre_fee":-1,"pre_block":-1,"nonce":1,"bnonce":0,"primary":0,"time_d":1}`

func first(err error) string {
	s := err.Error()
	if i := strings.IndexByte(s, '\n'); i >= 0 {
		s = s[:i]
	}
	return s
}

// TestKnownFindings re-confirms the listed findings (TestProp excludes exactly their shapes while they are listed).
func TestKnownFindings(t *testing.T) {
	for _, k := range []struct{ key, js string }{{KnownPendingKey, knownPendingCase}, {KnownCatchFinKey, knownCatchFinCase}} {
		if !vt.Known(k.key) {
			t.Logf("%s: not listed as known: TestProp asserts the specification on this shape itself", k.key)
			continue
		}
		var c Case
		if err := json.Unmarshal([]byte(k.js), &c); err != nil {
			t.Fatal(err)
		}
		_, err := runCase(c, &vt.Obs{}, true)
		if err == nil {
			t.Logf("%s: the minimal case no longer fails", k.key)
			continue
		}
		vt.KnownFinding(k.key, first(err))
	}
}

// TestMinimalCases runs the two minimal cases strictly and logs the verdicts (documentation / standalone reproduction).
func TestMinimalCases(t *testing.T) {
	for _, k := range []struct{ key, js string }{{KnownCatchFinKey, knownCatchFinCase}, {KnownPendingKey, knownPendingCase}} {
		var c Case
		if err := json.Unmarshal([]byte(k.js), &c); err != nil {
			t.Fatal(err)
		}
		out, err := runCase(c, &vt.Obs{}, true)
		if out == nil {
			t.Fatalf("%s: %v", k.key, err)
		}
		t.Logf("%s:\n chain: %s %s\n events: %v\n state: %+v\n expected: %s, state %+v, notifications %v\n verdict: %v", k.key, haltStr(out.halted), out.fault, out.events, out.after, haltStr(out.modelOK), out.expected, out.expected.notes, err)
	}
}
