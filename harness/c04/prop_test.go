package c04

import (
	"testing"

	"verifharness/vt"
)

func TestProp(t *testing.T)   { vt.RunAll(t, 1500) }
func TestReplay(t *testing.T) { vt.ReplayAll(t) }
