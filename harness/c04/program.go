package c04

import (
	"crypto/sha256"
	"fmt"

	"github.com/nspcc-dev/neo-go/pkg/core/native/nativehashes"
	"github.com/nspcc-dev/neo-go/pkg/core/state"
	"github.com/nspcc-dev/neo-go/pkg/smartcontract"
	"github.com/nspcc-dev/neo-go/pkg/smartcontract/callflag"
	"github.com/nspcc-dev/neo-go/pkg/smartcontract/manifest"
	"github.com/nspcc-dev/neo-go/pkg/util"
	"github.com/nspcc-dev/neo-go/pkg/vm/opcode"
	"verifharness/asm"
)

// ---- the program as data (part of the Case) ------------------------------------------------------------

// Op is one operation of a method body. Meaning of A / B by kind:
//
//	put      A key index, B value index          del    A key index
//	notify   (payload = the op's serial tag)     read   A key index (emits event R(tag, value|null))
//	call     A target selector, B flags selector sub    Body executed in an internal CALL of the same contract
//	try      Body / Catch / Fin                  throw abort burn
//	fee      B value selector (Policy.setFeePerByte)
//	block    A target selector (Policy.blockAccount)      unblock A target selector
//	gas      A target selector, B amount selector (GAS.transfer from the executing contract)
//	deploy   A tiny contract index               calltiny A tiny contract index
type Op struct {
	K     string `json:"k"`
	A     int    `json:"a,omitempty"`
	B     int    `json:"b,omitempty"`
	Body  []Op   `json:"body,omitempty"`
	Catch []Op   `json:"catch,omitempty"`
	Fin   []Op   `json:"fin,omitempty"`
	HasC  bool   `json:"hc,omitempty"`
	HasF  bool   `json:"hf,omitempty"`
}

// Method is one ABI method "m<i>" of a generated contract.
type Method struct {
	Ops []Op `json:"ops"`
}

// Contract is one generated contract.
type Contract struct {
	Methods []Method `json:"methods"`
	Pay     []Op     `json:"pay,omitempty"`  // body of onNEP17Payment (runs only when data != null)
	Seed    []int    `json:"seed,omitempty"` // key indices written by _deploy (state persisted before the program runs)
	Fund    int      `json:"fund"`           // selector of the GAS amount the contract owns before the program runs
}

// Program is the call tree: contracts plus the body of the transaction's entry script.
type Program struct {
	Contracts []Contract `json:"contracts"`
	Entry     []Op       `json:"entry"`
}

// ---- fixed alphabets -----------------------------------------------------------------------------------

var (
	keyAlphabet = [][]byte{[]byte("a"), []byte("b"), []byte("c")}
	valAlphabet = [][]byte{{}, []byte("x"), []byte("y"), []byte("zz")}
	amounts     = []int64{0, 1, 5, 1000}
	funds       = []int64{0, 3, 10}
	feeValues   = []int64{500, 777, 2500, -1} // -1 is rejected by the native contract (uncatchable failure)
	flagSets    = []callflag.CallFlag{callflag.All, callflag.All, callflag.All, callflag.All, callflag.All,
		callflag.ReadOnly | callflag.AllowNotify, callflag.States | callflag.AllowCall, callflag.ReadOnly}
)

const (
	nPseudo    = 2 // plain accounts that receive GAS / get blocked
	nTiny      = 2
	maxTryNest = 3
	maxSubNest = 2
	burnAmount = int64(100000_0000_0000)
)

// pseudoAccount i is a key-less account hash.
func pseudoAccount(i int) util.Uint160 {
	h := sha256.Sum256([]byte(fmt.Sprintf("c04-pseudo-account-%d", i)))
	var u util.Uint160
	copy(u[:], h[:20])
	return u
}

// ---- normalised program (what both the compiler and the model consume) -------------------------------

type routine struct {
	c    int // contract index, -1 for the entry script
	m    int // method index, -1 for onNEP17Payment / entry
	pay  bool
	g    int // position in the global call order (calls go strictly upwards: the call graph is acyclic)
	name string
	ops  []*nop
}

type nop struct {
	k     string
	id    int
	key   []byte
	val   []byte
	tgt   *routine // call target / payment callback
	flags callflag.CallFlag
	acct  int // pseudo account index (gas / block / unblock) or -1
	ctgt  int // contract index target (gas / block / unblock) or -1
	n     int64
	tiny  int
	body  []*nop
	catch []*nop
	fin   []*nop
	hasC  bool
	hasF  bool
}

type nprog struct {
	nc       int
	routines []*routine // in global order, entry excluded
	entry    *routine
	methods  [][]*routine // per contract: m0.. routines
	pays     []*routine   // per contract
	seeds    [][]int
	funds    []int64
	nops     int
}

func tag(id int) []byte { return []byte{byte(id >> 8), byte(id)} }

// normalize resolves selectors into concrete targets. It is total: any Program (also a shrunk one) yields a
// well-formed acyclic program; ops that make no sense in their place are dropped.
func normalize(p Program) *nprog {
	np := &nprog{}
	cs := p.Contracts
	if len(cs) > 3 {
		cs = cs[:3]
	}
	np.nc = len(cs)
	np.methods = make([][]*routine, np.nc)
	np.pays = make([]*routine, np.nc)
	maxM := 0
	for c, ct := range cs {
		nm := min(len(ct.Methods), 3)
		np.methods[c] = make([]*routine, nm)
		maxM = max(maxM, nm)
		var seeds []int
		seen := map[int]bool{}
		for _, s := range ct.Seed {
			s = mod(s, len(keyAlphabet))
			if !seen[s] {
				seen[s] = true
				seeds = append(seeds, s)
			}
		}
		np.seeds = append(np.seeds, seeds)
		np.funds = append(np.funds, funds[mod(ct.Fund, len(funds))])
	}
	// Global order: all m0, then all payment callbacks, then all m1, all m2.
	for m := 0; m < max(maxM, 1); m++ {
		for c := range cs {
			if m < len(np.methods[c]) {
				r := &routine{c: c, m: m, name: fmt.Sprintf("m%d", m)}
				np.methods[c][m] = r
				np.routines = append(np.routines, r)
			}
		}
		if m == 0 {
			for c := range cs {
				r := &routine{c: c, m: -1, pay: true, name: manifest.MethodOnNEP17Payment}
				np.pays[c] = r
				np.routines = append(np.routines, r)
			}
		}
	}
	for i, r := range np.routines {
		r.g = i
	}
	np.entry = &routine{c: -1, m: -1, g: -1, name: "entry"}
	np.entry.ops = np.normOps(p.Entry, np.entry, 0, 0)
	for _, r := range np.routines {
		if r.pay {
			r.ops = np.normOps(cs[r.c].Pay, r, 0, 0)
		} else {
			r.ops = np.normOps(cs[r.c].Methods[r.m].Ops, r, 0, 0)
		}
	}
	return np
}

func mod(a, n int) int { return ((a % n) + n) % n }

func (np *nprog) normOps(ops []Op, r *routine, tryDepth, subDepth int) []*nop {
	var out []*nop
	isEntry := r.c < 0
	for _, o := range ops {
		n := &nop{k: o.K, acct: -1, ctgt: -1}
		switch o.K {
		case "put":
			if isEntry {
				continue
			}
			n.key, n.val = keyAlphabet[mod(o.A, len(keyAlphabet))], valAlphabet[mod(o.B, len(valAlphabet))]
		case "del", "read":
			if isEntry {
				continue
			}
			n.key = keyAlphabet[mod(o.A, len(keyAlphabet))]
		case "notify":
			if isEntry {
				continue
			}
		case "call":
			var cand []*routine
			for _, t := range np.routines {
				if t.g > r.g && !t.pay {
					cand = append(cand, t)
				}
			}
			if len(cand) == 0 {
				continue
			}
			n.tgt = cand[mod(o.A, len(cand))]
			n.flags = flagSets[mod(o.B, len(flagSets))]
		case "gas":
			if isEntry {
				continue
			}
			var cand []*routine
			for _, t := range np.routines {
				if t.g > r.g && t.pay && t.c != r.c {
					cand = append(cand, t)
				}
			}
			s := mod(o.A, nPseudo+len(cand))
			if s < nPseudo {
				n.acct = s
			} else {
				n.tgt = cand[s-nPseudo]
				n.ctgt = n.tgt.c
			}
			n.n = amounts[mod(o.B, len(amounts))]
		case "block", "unblock":
			s := mod(o.A, nPseudo+np.nc)
			if s < nPseudo {
				n.acct = s
			} else {
				n.ctgt = s - nPseudo
			}
		case "fee":
			n.n = feeValues[mod(o.B, len(feeValues))]
		case "deploy", "calltiny":
			n.tiny = mod(o.A, nTiny)
		case "throw", "abort", "burn":
		case "sub":
			if subDepth >= maxSubNest {
				out = append(out, np.normOps(o.Body, r, tryDepth, subDepth)...)
				continue
			}
			n.id = np.nextID()
			n.body = np.normOps(o.Body, r, 0, subDepth+1) // a new context starts with an empty try stack
			out = append(out, n)
			continue
		case "try":
			if tryDepth >= maxTryNest {
				out = append(out, np.normOps(o.Body, r, tryDepth, subDepth)...)
				continue
			}
			n.hasC, n.hasF = o.HasC, o.HasF
			if !n.hasC && !n.hasF {
				n.hasC = true
			}
			n.id = np.nextID()
			n.body = np.normOps(o.Body, r, tryDepth+1, subDepth)
			if n.hasC {
				n.catch = np.normOps(o.Catch, r, tryDepth+1, subDepth)
			}
			if n.hasF {
				n.fin = np.normOps(o.Fin, r, tryDepth+1, subDepth)
			}
			out = append(out, n)
			continue
		default:
			continue
		}
		n.id = np.nextID()
		out = append(out, n)
	}
	return out
}

func (np *nprog) nextID() int { np.nops++; return np.nops }

// ---- compilation to NeoVM bytecode ---------------------------------------------------------------------

// tinyContract j is the contract deployed by the `deploy` op: ping() emits E(tag) and returns true.
func tinyContract(j int) *asm.Contract {
	b := asm.New()
	b.Label("ping")
	b.Bytes([]byte{0xEE, byte(j)}).Op(opcode.PUSH1, opcode.PACK).Str("E").Syscall("System.Runtime.Notify").Op(opcode.PUSHT, opcode.RET)
	c, err := asm.BuildContract(fmt.Sprintf("c04tiny%d", j), b, []asm.MethodSpec{{Name: "ping", Label: "ping"}})
	if err != nil {
		panic(err)
	}
	return c
}

var tinyContracts = []*asm.Contract{tinyContract(0), tinyContract(1)}

func tinyHash(sender util.Uint160, j int) util.Uint160 {
	c := tinyContracts[j]
	return state.CreateContractHash(sender, c.Checksum, c.Name)
}

type cgen struct {
	b      *asm.B
	np     *nprog
	sender util.Uint160 // sender of the program transaction (owner of the tiny contracts it deploys)
	subs   []*nop
}

// ldT kinds: how the current routine reaches the table of generated contract hashes.
const (
	tArg0 = iota
	tArg2
	tLoc0
)

func (g *cgen) ldT(kind int) {
	switch kind {
	case tArg0:
		g.b.Op(opcode.LDARG0)
	case tArg2:
		g.b.Op(opcode.LDARG2)
	default:
		g.b.Op(opcode.LDLOC0)
	}
}

func (g *cgen) hashOf(kind int, c int) {
	g.ldT(kind)
	g.b.Int(int64(c)).Op(opcode.PICKITEM)
}

func (g *cgen) target(kind int, n *nop) {
	if n.acct >= 0 {
		g.b.Bytes(pseudoAccount(n.acct).BytesBE())
	} else {
		g.hashOf(kind, n.ctgt)
	}
}

func (g *cgen) ops(ops []*nop, kind int) {
	b := g.b
	for _, n := range ops {
		switch n.k {
		case "put":
			b.Bytes(n.val).Bytes(n.key).Syscall("System.Storage.GetContext").Syscall("System.Storage.Put")
		case "del":
			b.Bytes(n.key).Syscall("System.Storage.GetContext").Syscall("System.Storage.Delete")
		case "notify":
			b.Bytes(tag(n.id)).Op(opcode.PUSH1, opcode.PACK).Str("E").Syscall("System.Runtime.Notify")
		case "read":
			b.Bytes(n.key).Syscall("System.Storage.GetContext").Syscall("System.Storage.Get")
			b.Bytes(tag(n.id)).Op(opcode.PUSH2, opcode.PACK).Str("R").Syscall("System.Runtime.Notify")
		case "call":
			g.ldT(kind)
			b.Op(opcode.PUSH1, opcode.PACK).Int(int64(n.flags)).Str(n.tgt.name)
			g.hashOf(kind, n.tgt.c)
			b.Syscall("System.Contract.Call").Op(opcode.DROP)
		case "gas":
			if n.tgt != nil {
				g.ldT(kind) // data = the hash table (non-null: the callback body runs)
			} else {
				b.Null()
			}
			b.Int(n.n)
			g.target(kind, n)
			b.Syscall("System.Runtime.GetExecutingScriptHash").Op(opcode.PUSH4, opcode.PACK)
			b.Int(int64(callflag.All)).Str("transfer").Bytes(nativehashes.GasToken.BytesBE()).Syscall("System.Contract.Call").Op(opcode.DROP)
		case "block", "unblock":
			g.target(kind, n)
			b.Op(opcode.PUSH1, opcode.PACK).Int(int64(callflag.All)).Str(n.k + "Account").Bytes(nativehashes.PolicyContract.BytesBE())
			b.Syscall("System.Contract.Call").Op(opcode.DROP)
		case "fee":
			b.AppCall(nativehashes.PolicyContract, "setFeePerByte", callflag.All, n.n).Op(opcode.DROP)
		case "deploy":
			t := tinyContracts[n.tiny]
			b.AppCall(nativehashes.ContractManagement, "deploy", callflag.All, t.NEF, t.Manifest).Op(opcode.DROP)
		case "calltiny":
			b.AppCall(tinyHash(g.sender, n.tiny), "ping", callflag.All).Op(opcode.DROP)
		case "throw":
			b.Bytes(tag(n.id)).Op(opcode.THROW)
		case "abort":
			b.Op(opcode.ABORT)
		case "burn":
			b.Int(burnAmount).Syscall("System.Runtime.BurnGas")
		case "sub":
			g.ldT(kind)
			b.Jmp(opcode.CALLL, fmt.Sprintf("sub%d", n.id))
			g.subs = append(g.subs, n)
		case "try":
			cl, fl, end := "", "", fmt.Sprintf("end%d", n.id)
			if n.hasC {
				cl = fmt.Sprintf("catch%d", n.id)
			}
			if n.hasF {
				fl = fmt.Sprintf("fin%d", n.id)
			}
			b.Try(cl, fl)
			g.ops(n.body, kind)
			b.Jmp(opcode.ENDTRYL, end)
			if n.hasC {
				b.Label(cl).Op(opcode.DROP)
				g.ops(n.catch, kind)
				b.Jmp(opcode.ENDTRYL, end)
			}
			if n.hasF {
				b.Label(fl)
				g.ops(n.fin, kind)
				b.Op(opcode.ENDFINALLY)
			}
			b.Label(end)
		default:
			panic("unknown op " + n.k)
		}
	}
}

// flushSubs emits the bodies of the internal subroutines referenced so far (they may reference further ones).
func (g *cgen) flushSubs() {
	for len(g.subs) > 0 {
		n := g.subs[0]
		g.subs = g.subs[1:]
		g.b.Label(fmt.Sprintf("sub%d", n.id)).InitSlot(0, 1)
		g.ops(n.body, tArg0)
		g.b.Op(opcode.RET)
	}
}

// compileContract assembles generated contract c. The script embeds no hash of another generated contract
// (they travel as an argument), so contract hashes do not depend on each other.
func compileContract(np *nprog, c int, name string, sender util.Uint160) *asm.Contract {
	g := &cgen{b: asm.New(), np: np, sender: sender}
	b := g.b
	var ms []asm.MethodSpec
	for _, r := range np.methods[c] {
		b.Label(r.name).InitSlot(0, 1)
		g.ops(r.ops, tArg0)
		b.Op(opcode.PUSHT, opcode.RET)
		g.flushSubs()
		ms = append(ms, asm.MethodSpec{Name: r.name, Label: r.name, Params: 1})
	}
	pay := np.pays[c]
	b.Label("pay").InitSlot(0, 3).Op(opcode.LDARG2, opcode.ISNULL).Jmp(opcode.JMPIFL, "pay_ret")
	g.ops(pay.ops, tArg2)
	b.Label("pay_ret").Op(opcode.RET)
	g.flushSubs() // subroutines of the callback receive the table as their own argument 0, like all the others
	ms = append(ms, asm.MethodSpec{Name: manifest.MethodOnNEP17Payment, Label: "pay", Params: 3, Void: true})
	b.Label("_deploy").InitSlot(0, 2)
	for _, s := range np.seeds[c] {
		b.Bytes(seedValue(s)).Bytes(keyAlphabet[s]).Syscall("System.Storage.GetContext").Syscall("System.Storage.Put")
	}
	b.Op(opcode.RET)
	ms = append(ms, asm.MethodSpec{Name: manifest.MethodDeploy, Label: "_deploy", Params: 2, Void: true})
	ct, err := asm.BuildContract(name, b, ms, func(m *manifest.Manifest) {
		m.ABI.Events = append(m.ABI.Events, manifest.Event{Name: "R", Parameters: []manifest.Parameter{
			manifest.NewParameter("t", smartcontract.AnyType), manifest.NewParameter("v", smartcontract.AnyType)}})
	})
	if err != nil {
		panic(err)
	}
	return ct
}

func seedValue(s int) []byte { return []byte{'s', byte('0' + s)} }

// compileEntry assembles the transaction script: local 0 = array of generated contract hashes.
func compileEntry(np *nprog, hashes []util.Uint160, sender util.Uint160) []byte {
	g := &cgen{b: asm.New(), np: np, sender: sender}
	b := g.b
	b.InitSlot(1, 0)
	for i := len(hashes) - 1; i >= 0; i-- {
		b.Bytes(hashes[i].BytesBE())
	}
	b.Int(int64(len(hashes))).Op(opcode.PACK, opcode.STLOC0)
	g.ops(np.entry.ops, tLoc0)
	b.Op(opcode.RET)
	g.flushSubs()
	return b.Script()
}
